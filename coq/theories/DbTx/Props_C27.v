(** C27 — property theorems only.

    [gen_run stmts hist w] (DbTx/Inst.v): the retry wrapper of gear/gear/database.py around one transactional
    operation with statement list [stmts], started in world [w] (committed log + the pool's free connection),
    under the adversary's fault plan [hist] (one [faults] record per successive attempt; later attempts are
    fault-free).  It returns (final exception or None, final world, trace), the trace listing for every attempt
    the exception that reached the retry wrapper and the committed log right after the attempt.
    The retry classification, the commit-or-rollback choice and the rollback guard are GENERATED from the source.
    Quantification: all write types W, statement lists, fault histories, initial logs and clean pools. *)
From HailV Require Import Common.Prelude DbTx.Model DbTx.Inst DbTx.Lemmas.
From HailG Require C27.Gen.
Open Scope Z_scope.

(** The classification regenerated from database.py is exactly: OperationalError 1040 (connection limit),
    1213 (deadlock), 2003 (cannot connect), 2013 (lost connection); InternalError 1205 (lock-wait timeout). *)
Theorem C27_transient_classification : forall e : err, C27.Gen.retryable e = transient_spec e.
Proof. exact gen_retryable_spec. Qed.
Print Assumptions C27_transient_classification.

(** Retry iff transient, and no partial writes after any attempt: the trace is a sequence of attempts that each
    ended with a transient exception and left the committed log equal to the initial one, followed by a last
    attempt that either committed (log = initial ++ all statements, once) or ended with a NON-transient exception
    (log = initial), which is the call's outcome.  At most |hist|+1 attempts are made. *)
Theorem C27_retry_iff_transient_no_partial_writes :
  forall (W : Type) (stmts : list W) (hist : list faults) (w : @world W),
  clean_pool w ->
  let '(r, _, tr) := gen_run stmts hist w in
  trace_spec (committed w) stmts r tr /\ (length tr <= S (length hist))%nat.
Proof. exact @gen_run_trace. Qed.
Print Assumptions C27_retry_iff_transient_no_partial_writes.

(** Atomicity of the whole call: the final log is the initial one (call failed) or the initial one followed by all
    the statements of the successful attempt, exactly once; and the pool again holds no open transaction. *)
Theorem C27_atomic :
  forall (W : Type) (stmts : list W) (hist : list faults) (w : @world W),
  clean_pool w ->
  let '(r, w', _) := gen_run stmts hist w in
  clean_pool w' /\
  match r with None => committed w' = committed w ++ stmts | Some _ => committed w' = committed w end.
Proof. exact @gen_run_atomic. Qed.
Print Assumptions C27_atomic.

(** One attempt, whatever the injected faults: all or nothing, and the pool stays clean. *)
Theorem C27_attempt_all_or_nothing :
  forall (W : Type) (stmts : list W) (f : faults) (w : @world W),
  clean_pool w ->
  clean_pool (snd (gen_attempt stmts f w)) /\
  match fst (gen_attempt stmts f w) with
  | None => committed (snd (gen_attempt stmts f w)) = committed w ++ stmts
  | Some _ => committed (snd (gen_attempt stmts f w)) = committed w
  end.
Proof. exact @gen_attempt_atomic. Qed.
Print Assumptions C27_attempt_all_or_nothing.

(** The exception that decides about the retry is the one that made the operation fail: a fault at statement #i
    (statement-only, deadlock-victim or LOST CONNECTION effect) reaches the wrapper unchanged even when the rollback
    fails as well — so a deadlock, lock-wait timeout or lost connection at any statement is retried. *)
Theorem C27_statement_error_decides :
  forall (W : Type) (stmts : list W) (f : faults) (w : @world W) i e eff,
  f_acquire f = None -> f_start f = None -> f_stmt f = Some (i, e, eff) -> (i < length stmts)%nat ->
  fst (gen_attempt stmts f w) = Some e.
Proof. exact @gen_attempt_body_error. Qed.
Print Assumptions C27_statement_error_decides.

Theorem C27_acquire_error_decides :
  forall (W : Type) (stmts : list W) (f : faults) (w : @world W) e,
  f_acquire f = Some e -> gen_attempt stmts f w = (Some e, w).
Proof. exact @gen_attempt_acquire_error. Qed.
Print Assumptions C27_acquire_error_decides.

Theorem C27_start_error_decides :
  forall (W : Type) (stmts : list W) (f : faults) (w : @world W) e l,
  f_acquire f = None -> f_start f = Some (e, l) -> fst (gen_attempt stmts f w) = Some e.
Proof. exact @gen_attempt_start_error. Qed.
Print Assumptions C27_start_error_decides.

(* ------------------------------------------------------------------------------------------------ *)
(** * The Database.* helpers (just_execute, execute_update, execute_insertone, execute_and_fetchone, select_and_fetchone,
      check_call_procedure, execute_many over an argument array of ANY length)

    [gen_helper_run c hist w] (DbTx/Inst.v) = the retry wrapper around ONE transaction that runs the plan
    [C27.Gen.helper_plan c] REGENERATED from the helper's source.  [fault_site n f e]: the fault plan [f] of an attempt on
    n statements makes error [e] happen at acquire, at START TRANSACTION, at ANY statement index i < n (statement-only,
    deadlock-victim or lost-connection effect) or at COMMIT. *)

(** The plan regenerated from the source: the single statement, resp. the WHOLE argument array, in one transaction. *)
Theorem C27_helper_plan :
  forall (W : Type) (c : helper_call W), C27.Gen.helper_plan c = helper_stmts c.
Proof. exact @gen_helper_plan_spec. Qed.
Print Assumptions C27_helper_plan.

(** Every helper, every argument array, every fault history: retried iff transient, the log after every retried or failed
    attempt is the initial one, after success it is initial ++ all rows, each exactly once, in order. *)
Theorem C27_helper_retry_iff_transient_no_partial_writes :
  forall (W : Type) (c : helper_call W) (hist : list faults) (w : @world W),
  clean_pool w ->
  let '(r, _, tr) := gen_helper_run c hist w in
  trace_spec (committed w) (helper_stmts c) r tr /\ (length tr <= S (length hist))%nat.
Proof. exact @gen_helper_trace. Qed.
Print Assumptions C27_helper_retry_iff_transient_no_partial_writes.

Theorem C27_helper_all_or_nothing :
  forall (W : Type) (c : helper_call W) (hist : list faults) (w : @world W),
  clean_pool w ->
  let '(r, w', _) := gen_helper_run c hist w in
  clean_pool w' /\
  match r with None => committed w' = committed w ++ helper_stmts c | Some _ => committed w' = committed w end.
Proof. exact @gen_helper_atomic. Qed.
Print Assumptions C27_helper_all_or_nothing.

(** Row-level reading of the same: whatever the faults and the retry schedule, every row value occurs in the final table
    exactly once more than before (per occurrence in the array) when the call succeeded, exactly as often as before when
    it failed — never twice, never a proper part of the array. *)
Theorem C27_helper_rows_exactly_once :
  forall (W : Type) (dec : forall a b : W, {a = b} + {a <> b}) (c : helper_call W) (hist : list faults) (w : @world W),
  clean_pool w ->
  let '(r, w', _) := gen_helper_run c hist w in
  occurs_plus dec (committed w') (committed w) (helper_stmts c) (match r with None => 1%nat | Some _ => 0%nat end).
Proof. exact @gen_helper_exactly_once. Qed.
Print Assumptions C27_helper_rows_exactly_once.

(** execute_many over an array of ANY length n, the first attempt hit ANYWHERE (acquire, START, any row index < n, COMMIT)
    by error e, whatever happens afterwards ([rest]): nothing is committed by that attempt and the pool stays clean;
    if e is not transient the call ends at once with e (one attempt, log = initial); if e is transient the call continues
    exactly as a fresh call of the WHOLE array on the unchanged log (so rows before the failing one are not written twice). *)
Theorem C27_execute_many_fault_anywhere :
  forall (W : Type) (rows : list W) (f : faults) (rest : list faults) (w : @world W) (e : err),
  clean_pool w -> fault_site (length rows) f e ->
  exists w1, clean_pool w1 /\ committed w1 = committed w /\
    gen_helper_run (HExecuteMany rows) (f :: rest) w =
    if transient_spec e
    then (let '(r2, w2, tr) := gen_helper_run (HExecuteMany rows) rest w1 in (r2, w2, (Some e, committed w) :: tr))
    else (Some e, w1, [(Some e, committed w)]).
Proof. exact @gen_execute_many_fault_first. Qed.
Print Assumptions C27_execute_many_fault_anywhere.

(** ... and a transient error anywhere followed by a fault-free attempt: two attempts, every row committed exactly once. *)
Theorem C27_execute_many_retried_exactly_once :
  forall (W : Type) (rows : list W) (f : faults) (w : @world W) (e : err),
  clean_pool w -> fault_site (length rows) f e -> transient_spec e = true ->
  exists w2, clean_pool w2 /\ committed w2 = committed w ++ rows /\
    gen_helper_run (HExecuteMany rows) [f] w = (None, w2, [(Some e, committed w); (None, committed w ++ rows)]).
Proof. exact @gen_execute_many_retried_once. Qed.
Print Assumptions C27_execute_many_retried_exactly_once.

(** aiomysql's bulk INSERT path: however the argument array is cut into multi-row wire statements (a statement's effect
    is its list of rows, a fault hits a whole statement), the table gains ALL rows once or nothing. *)
Theorem C27_execute_many_bulk_statements :
  forall (W : Type) (chunks : list (list W)) (hist : list faults) (w : @world (list W)),
  clean_pool w ->
  let '(r, w', _) := gen_helper_run (HExecuteMany chunks) hist w in
  clean_pool w' /\
  concat (committed w') = concat (committed w) ++ match r with None => concat chunks | Some _ => [] end.
Proof. exact @gen_execute_many_chunked. Qed.
Print Assumptions C27_execute_many_bulk_statements.

(** An attempt fails exactly when a fault fires: with no fault site the attempt commits. *)
Theorem C27_attempt_fails_iff_fault :
  forall (W : Type) (stmts : list W) (f : faults) (w : @world W),
  clean_pool w ->
  (forall e, fault_site (length stmts) f e -> fst (gen_attempt stmts f w) = Some e) /\
  ((forall e, ~ fault_site (length stmts) f e) -> fst (gen_attempt stmts f w) = None).
Proof. exact @gen_attempt_fails_iff_fault. Qed.
Print Assumptions C27_attempt_fails_iff_fault.
