(** C27 — property theorems only.

    [gen_run stmts hist w] (DbTx/Inst.v): the retry wrapper of gear/gear/database.py around one transactional
    operation with statement list [stmts], started in world [w] (committed log + the pool's free connection),
    under the adversary's fault plan [hist] (one [faults] record per successive attempt; later attempts are
    fault-free).  It returns (final exception or None, final world, trace), the trace listing for every attempt
    the exception that reached the retry wrapper and the committed log right after the attempt.
    The retry classification, the commit-or-rollback choice and the rollback guard are GENERATED from the source.
    Quantification: all write types W, statement lists, fault histories, initial logs and clean pools. *)
From HailV Require Import Common.Prelude DbTx.Model DbTx.Inst DbTx.Lemmas.
From HailG Require C27.Gen.
Open Scope Z_scope.

(** The classification regenerated from database.py is exactly: OperationalError 1040 (connection limit),
    1213 (deadlock), 2003 (cannot connect), 2013 (lost connection); InternalError 1205 (lock-wait timeout). *)
Theorem C27_transient_classification : forall e : err, C27.Gen.retryable e = transient_spec e.
Proof. exact gen_retryable_spec. Qed.
Print Assumptions C27_transient_classification.

(** Retry iff transient, and no partial writes after any attempt: the trace is a sequence of attempts that each
    ended with a transient exception and left the committed log equal to the initial one, followed by a last
    attempt that either committed (log = initial ++ all statements, once) or ended with a NON-transient exception
    (log = initial), which is the call's outcome.  At most |hist|+1 attempts are made. *)
Theorem C27_retry_iff_transient_no_partial_writes :
  forall (W : Type) (stmts : list W) (hist : list faults) (w : @world W),
  clean_pool w ->
  let '(r, _, tr) := gen_run stmts hist w in
  trace_spec (committed w) stmts r tr /\ (length tr <= S (length hist))%nat.
Proof. exact @gen_run_trace. Qed.
Print Assumptions C27_retry_iff_transient_no_partial_writes.

(** Atomicity of the whole call: the final log is the initial one (call failed) or the initial one followed by all
    the statements of the successful attempt, exactly once; and the pool again holds no open transaction. *)
Theorem C27_atomic :
  forall (W : Type) (stmts : list W) (hist : list faults) (w : @world W),
  clean_pool w ->
  let '(r, w', _) := gen_run stmts hist w in
  clean_pool w' /\
  match r with None => committed w' = committed w ++ stmts | Some _ => committed w' = committed w end.
Proof. exact @gen_run_atomic. Qed.
Print Assumptions C27_atomic.

(** One attempt, whatever the injected faults: all or nothing, and the pool stays clean. *)
Theorem C27_attempt_all_or_nothing :
  forall (W : Type) (stmts : list W) (f : faults) (w : @world W),
  clean_pool w ->
  clean_pool (snd (gen_attempt stmts f w)) /\
  match fst (gen_attempt stmts f w) with
  | None => committed (snd (gen_attempt stmts f w)) = committed w ++ stmts
  | Some _ => committed (snd (gen_attempt stmts f w)) = committed w
  end.
Proof. exact @gen_attempt_atomic. Qed.
Print Assumptions C27_attempt_all_or_nothing.

(** The exception that decides about the retry is the one that made the operation fail: a fault at statement #i
    (statement-only, deadlock-victim or LOST CONNECTION effect) reaches the wrapper unchanged even when the rollback
    fails as well — so a deadlock, lock-wait timeout or lost connection at any statement is retried. *)
Theorem C27_statement_error_decides :
  forall (W : Type) (stmts : list W) (f : faults) (w : @world W) i e eff,
  f_acquire f = None -> f_start f = None -> f_stmt f = Some (i, e, eff) -> (i < length stmts)%nat ->
  fst (gen_attempt stmts f w) = Some e.
Proof. exact @gen_attempt_body_error. Qed.
Print Assumptions C27_statement_error_decides.

Theorem C27_acquire_error_decides :
  forall (W : Type) (stmts : list W) (f : faults) (w : @world W) e,
  f_acquire f = Some e -> gen_attempt stmts f w = (Some e, w).
Proof. exact @gen_attempt_acquire_error. Qed.
Print Assumptions C27_acquire_error_decides.

Theorem C27_start_error_decides :
  forall (W : Type) (stmts : list W) (f : faults) (w : @world W) e l,
  f_acquire f = None -> f_start f = Some (e, l) -> fst (gen_attempt stmts f w) = Some e.
Proof. exact @gen_attempt_start_error. Qed.
Print Assumptions C27_start_error_decides.
