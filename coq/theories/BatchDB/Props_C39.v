(** C39 — job lifecycle protocol: SAFETY ("no job has two attempts both treated as current"; a stale attempt cannot move the
    job; terminal states are absorbing; a waiting job names no attempt) and LIVENESS AS POSSIBILITY + PROGRESS MEASURE
    ("every job of a committed batch reaches a terminal state", "a cancelled batch eventually completes", "always_run jobs of a
    cancelled batch still run to completion").  Property theorems only (proofs: BatchDB/Attempts.v, AttemptIdle.v,
    JobChange.v, LivenessSteps.v, Liveness.v).

    The liveness theorems (second half of this file) say: from EVERY state reachable by a good history
      - (no deadlock) while a job of a committed update is unfinished, one of them is Ready, Creating or Running;
      - (progress) for any such job the message the real loops send next for it (scheduler: schedule_job with a fresh attempt
        on an active instance; canceller: attempt-less Cancelled completion of a cancelled Ready job; worker: completion of the
        current attempt with the reported state) is a good step and strictly decreases the measure [mu];
      - (a finishing schedule always exists) [finish w s] — at most 2 + mu s such messages — is a good continuation after which
        every job of every committed update is terminal and every batch and job group is complete, for every outcome
        function [w] of the workers; an always_run job that was waiting ends with an attempt, in the state its worker reported.
    They do NOT say that the real asyncio loops are fair, that workers report back or that HTTP messages are delivered:
    fairness of scheduler / canceller / autoscaler loops and "attempts eventually finish" are the hypotheses that turn this
    possibility into eventuality (the oracle exercises them with a simulated fair driver).  Preemptions / deactivations /
    the canceller's unschedule are legal environment steps that RAISE the measure (Running -> Ready): with infinitely many of
    them nothing can be promised, with finitely many the theorems apply to the state after the last one.

    Quantification: ALL legal histories ([Legal.legal_history]) for the reachable-state safety theorems; ANY state for the
    per-message theorems; ALL good histories ([Deps.good_history] = legal + schema-valid client requests) for terminal
    absorption, the waiting-job theorem and the liveness theorems. *)
From HailV Require Import Common.Prelude BatchDB.Model BatchDB.Legal BatchDB.Cores BatchDB.Attempts.
From HailV Require Import BatchDB.JobsWF BatchDB.DepsDef BatchDB.DepsStruct BatchDB.Deps BatchDB.JobChange BatchDB.AttemptIdle BatchDB.LivenessSteps BatchDB.Liveness.
Open Scope Z_scope.

(** The attempt a job treats as current ([jobs.attempt_id]) is a row of the attempts table with that job's key; a job
    without a current attempt is not Creating or Running. *)
Theorem C39_current_attempt_exists : forall ops, legal_history ops ->
  forall x, In x (jobs (run ops)) ->
  match j_attempt x with
  | None => j_state x <> Creating /\ j_state x <> Running
  | Some a => exists c, find_attempt (run ops) (j_batch x) (j_id x) a = Some c /\
                        a_batch c = j_batch x /\ a_job c = j_id x /\ a_id c = a
  end.
Proof. exact current_attempt_exists. Qed.
Print Assumptions C39_current_attempt_exists.

(** No job has two attempts both treated as current: a job has one row, and at most one attempt row is its current attempt. *)
Theorem C39_single_current_attempt : forall ops, legal_history ops ->
  let s := run ops in
  (forall x y, In x (jobs s) -> In y (jobs s) -> j_batch x = j_batch y -> j_id x = j_id y -> x = y) /\
  (forall x c1 c2, In x (jobs s) -> In c1 (attempts s) -> In c2 (attempts s) ->
     (a_batch c1 = j_batch x /\ a_job c1 = j_id x /\ j_attempt x = Some (a_id c1)) ->
     (a_batch c2 = j_batch x /\ a_job c2 = j_id x /\ j_attempt x = Some (a_id c2)) -> c1 = c2).
Proof. exact single_current_attempt. Qed.
Print Assumptions C39_single_current_attempt.

(** The invariant is inductive: preserved by every legal step from any state satisfying it. *)
Theorem C39_step : forall s o, KInv s -> legal s o -> KInv (fst (step s o)).
Proof. exact step_kinv. Qed.
Print Assumptions C39_step.

(** A stale attempt cannot move the job (from ANY state): a completion carrying an attempt id other than the job's
    current one changes no job, job-group or batch row and is answered rc 2 (error 1452 if its instance is unknown) ... *)
Theorem C39_stale_complete_ignored : forall s b j a i ns st en rs x e,
  find_job s b j = Some x -> j_attempt x = Some e -> a <> -1 -> e <> a ->
  let r := step s (MarkComplete b j a i ns st en rs) in
  jgb (fst r) = jgb s /\ (snd r = sql_error 1452 \/ exists d, snd r = ok [2; d]).
Proof. exact stale_complete_ignored. Qed.
Print Assumptions C39_stale_complete_ignored.

(** ... and an unschedule carrying an attempt id that is not the current one likewise, answered rc 1. *)
Theorem C39_stale_unschedule_ignored : forall s b j a i t rs x,
  find_job s b j = Some x -> j_attempt x <> Some a ->
  let r := step s (UnscheduleJob b j a i t rs) in
  jgb (fst r) = jgb s /\ exists d, snd r = ok [1; d].
Proof. exact stale_unschedule_ignored. Qed.
Print Assumptions C39_stale_unschedule_ignored.

(** Late START messages cannot move a job either: creating / started reports act on Ready jobs only, a schedule on
    Ready or Creating jobs only; in any other state no job row changes. *)
Theorem C39_start_messages_only_move_waiting_jobs : forall s o b j x,
  find_job s b j = Some x ->
  match o with
  | ScheduleJob b' j' _ _ => (b', j') = (b, j) /\ j_state x <> Ready /\ j_state x <> Creating
  | MarkCreating b' j' _ _ _ | MarkStarted b' j' _ _ _ => (b', j') = (b, j) /\ j_state x <> Ready
  | _ => False
  end ->
  jobs (fst (step s o)) = jobs s.
Proof. exact start_messages_only_move_waiting_jobs. Qed.
Print Assumptions C39_start_messages_only_move_waiting_jobs.

(** Terminal rows are kept by every transaction except the commit of an update and the completion of ANOTHER job: no
    message about the job itself, however late or duplicated, and no deactivation moves a finished job. *)
Theorem C39_terminal_row_kept : forall s o b j x,
  NoDup (map jk (jobs s)) -> find_job s b j = Some x -> terminal (j_state x) = true -> keeps_row o b j ->
  find_job (fst (step s o)) b j = Some x.
Proof. exact terminal_row_kept. Qed.
Print Assumptions C39_terminal_row_kept.

(** Progress is enabled (from ANY state, no invariant): the scheduler's transaction on a Ready, not cancelled job
    with a fresh attempt id and an active instance succeeds and installs that attempt as current; *)
Theorem C39_schedule_enabled : forall s b j a i x y,
  find_job s b j = Some x -> j_state x = Ready -> is_job_cancelled s x = Some false ->
  find_attempt s b j a = None -> find_inst s i = Some y -> i_state y = IActive ->
  let r := step s (ScheduleJob b j a i) in
  (exists d, snd r = ok [0; d]) /\
  exists x', find_job (fst r) b j = Some x' /\ j_state x' = Running /\ j_attempt x' = Some a.
Proof. exact schedule_enabled. Qed.
Print Assumptions C39_schedule_enabled.

(** an always-run job is never treated as cancelled, and the cancellation test cannot fail with error 1242 (migration 121); *)
Theorem C39_always_run_schedulable : forall s x, j_always x = true -> is_job_cancelled s x = Some false.
Proof. exact always_run_never_cancelled. Qed.
Print Assumptions C39_always_run_schedulable.

Theorem C39_scheduling_never_1242 : forall s o,
  match o with ScheduleJob _ _ _ _ | MarkCreating _ _ _ _ _ | MarkStarted _ _ _ _ _ => snd (step s o) <> sql_error 1242 | _ => True end.
Proof. exact scheduling_never_1242. Qed.
Print Assumptions C39_scheduling_never_1242.

(** a completion that is not stale, for a job in Ready/Creating/Running, is accepted and finishes the job. *)
Theorem C39_complete_enabled : forall s b j a i ns st en rs x,
  find_job s b j = Some x -> (j_state x = Ready \/ j_state x = Creating \/ j_state x = Running) ->
  (a = -1 \/ j_attempt x = None \/ j_attempt x = Some a) ->
  (a = -1 \/ i = -1 \/ find_inst s i <> None \/ find_attempt s b j a <> None) ->
  ~ In (b, j, j) (parents s) ->
  let r := step s (MarkComplete b j a i ns st en rs) in
  (exists d, snd r = ok [0; d; jcode (j_state x)]) /\
  exists x', find_job (fst r) b j = Some x' /\ j_state x' = ns.
Proof. exact complete_enabled. Qed.
Print Assumptions C39_complete_enabled.

(** A limit of the safety claim, kept visible: the current attempt need not be an OPEN attempt. A schedule message
    replayed verbatim after its attempt was unscheduled (legal for Legal.v) makes the ended attempt current again:
    job Running, attempt ended at 50, all 4000 mcpu of the instance free.  The SQL behaves the same
    (harness/batchdb/README.md: procedure-level weakness, not reachable through the real driver). *)
Theorem C39_replayed_schedule_reinstalls_ended_attempt :
  legal_history replayed_schedule /\
  let s := run replayed_schedule in
  option_map (fun x => (j_state x, j_attempt x)) (find_job s 1 1) = Some (Running, Some 10) /\
  option_map a_end (find_attempt s 1 1 10) = Some (Some 50) /\
  map (fun y => (i_cores y, i_free y)) (insts s) = [(4000, 4000)].
Proof. exact replayed_schedule_reinstalls_ended_attempt. Qed.
Print Assumptions C39_replayed_schedule_reinstalls_ended_attempt.

(* ------------------------------------------------------------------ safety, completed with the dependency invariant *)

(** Terminal states are absorbing along EVERY good continuation — including commits of later updates and completions of
    other jobs (the two paths [C39_terminal_row_kept] leaves out): a finished job keeps its row and its state. *)
Theorem C39_terminal_absorbing : forall ops ext b j x,
  good_history (ops ++ ext) -> find_job (run ops) b j = Some x -> terminal (j_state x) = true ->
  exists x', find_job (run (ops ++ ext)) b j = Some x' /\ static x x' /\ j_state x' = j_state x.
Proof. exact terminal_absorbing. Qed.
Print Assumptions C39_terminal_absorbing.

(** A job that is Pending or Ready names no current attempt (so, with [C39_current_attempt_exists]: a job names a current
    attempt iff it is Creating, Running or finished by an attempt).  [C39_replayed_schedule_reinstalls_ended_attempt] is not a
    counterexample: there the job is Running. *)
Theorem C39_waiting_job_has_no_attempt : forall ops, good_history ops ->
  forall x, In x (jobs (run ops)) -> j_state x = Pending \/ j_state x = Ready -> j_attempt x = None.
Proof. exact waiting_job_has_no_attempt. Qed.
Print Assumptions C39_waiting_job_has_no_attempt.

(* ------------------------------------------------------------------ liveness: no deadlock, progress measure, finishing schedule *)

(** No deadlock: while some job of a committed update is not terminal, some job of a committed update is Ready, Creating or
    Running (never are all unfinished jobs Pending). *)
Theorem C39_no_deadlock : forall ops, good_history ops ->
  forall x0, In x0 (jobs (run ops)) -> jcommitted (run ops) x0 = true -> terminal (j_state x0) = false ->
  exists x, In x (jobs (run ops)) /\ jcommitted (run ops) x = true /\
            (j_state x = Ready \/ j_state x = Creating \/ j_state x = Running).
Proof. exact no_deadlock. Qed.
Print Assumptions C39_no_deadlock.

(** Progress, inductive form (any [DInv] state with an active instance): for ANY job of a committed update that is Ready,
    Creating or Running, the next message of the real loops for it ([op_for]: schedule / canceller completion / worker
    completion reporting [w batch job]) exists, is a good step, rewrites the job as [next_row] says and strictly decreases the
    measure [mu] (sum over committed jobs of Pending 4, Ready 3, Creating 2, Running 1, terminal 0). *)
Theorem C39_progress_step : forall w s x,
  verdict_ok w -> DInv s -> has_active s -> In x (jobs s) -> jcommitted s x = true ->
  (j_state x = Ready \/ j_state x = Creating \/ j_state x = Running) ->
  exists o, op_for w s x = Some o /\ good s o /\ dstep s x (next_row w s x) (fst (step s o)) /\
            mu (fst (step s o)) < mu s.
Proof. exact op_for_progress. Qed.
Print Assumptions C39_progress_step.

(** The same over good histories. *)
Theorem C39_driver_step_progress : forall w ops x,
  verdict_ok w -> good_history ops -> has_active (run ops) ->
  In x (jobs (run ops)) -> jcommitted (run ops) x = true ->
  (j_state x = Ready \/ j_state x = Creating \/ j_state x = Running) ->
  exists o, op_for w (run ops) x = Some o /\ good_history (ops ++ [o]) /\ mu (run (ops ++ [o])) < mu (run ops) /\
            find_job (run (ops ++ [o])) (j_batch x) (j_id x) = Some (next_row w (run ops) x) /\ has_active (run (ops ++ [o])).
Proof. exact driver_step_progress. Qed.
Print Assumptions C39_driver_step_progress.

(** The driver function itself: as long as not everything is done it yields a message, which is good, decreases the measure
    and keeps an instance active. *)
Theorem C39_drive_progress : forall w s,
  verdict_ok w -> DInv s -> has_active s -> ~ all_done s ->
  exists o, drive w s = Some o /\ good s o /\ mu (fst (step s o)) < mu s /\ has_active (fst (step s o)).
Proof. exact drive_progress. Qed.
Print Assumptions C39_drive_progress.

(** A finishing schedule always exists: after every good history, for every outcome function [w] of the workers, the computed
    continuation [finish w (run ops)] (autoscaler messages if no instance is active, then [drive] iterated) is good, has at most
    2 + mu messages, and leads to a state in which every job of every committed update is terminal and every batch and every
    job group — cancelled or not — is complete.  Possibility, not eventuality: see the header. *)
Theorem C39_can_always_finish : forall w ops,
  verdict_ok w -> good_history ops ->
  let ext := finish w (run ops) in
  good_history (ops ++ ext) /\
  (forall x, In x (jobs (run (ops ++ ext))) -> jcommitted (run (ops ++ ext)) x = true -> terminal (j_state x) = true) /\
  (forall bt, In bt (batches (run (ops ++ ext))) -> b_running bt = false) /\
  (forall gr, In gr (groups (run (ops ++ ext))) -> g_running gr = false) /\
  Z.of_nat (length ext) <= 2 + mu (run ops).
Proof. exact can_always_finish_bounded. Qed.
Print Assumptions C39_can_always_finish.

(** Always_run jobs still run: in that continuation a job with always_run set that was Pending or Ready is never finished by
    the canceller's attempt-less completion — it ends in the state its worker reported, naming an attempt (not NULL) whose row
    exists — whatever cancellation marks its batch / groups carry and however its parents ended. *)
Theorem C39_always_run_jobs_run : forall w ops b j x,
  verdict_ok w -> good_history ops ->
  find_job (run ops) b j = Some x -> j_always x = true -> jcommitted (run ops) x = true ->
  (j_state x = Pending \/ j_state x = Ready) ->
  let s' := run (ops ++ finish w (run ops)) in
  exists x' a c, find_job s' b j = Some x' /\ j_state x' = w b j /\ j_attempt x' = Some a /\ a <> -1 /\
                 find_attempt s' b j a = Some c.
Proof. exact always_run_runs_history. Qed.
Print Assumptions C39_always_run_jobs_run.

(** Non-vacuity: a good history ending with a Running parent, a Pending child, a Pending always_run grandchild and the whole
    batch cancelled; the computed continuation (worker report, canceller completion, schedule + completion of the always_run
    job) finishes it. *)
Theorem C39_finish_demo :
  good_history stuck_history /\
  map job_view (jobs (run stuck_history)) = [(1, Running, false, Some 1); (2, Pending, false, None); (3, Pending, true, None)] /\
  group_cancelled (run stuck_history) 1 1 = true /\
  finish all_succeed (run stuck_history) =
    [MarkComplete 1 1 1 1 Success None (Some 0) 0; MarkComplete 1 2 (-1) (-1) Cancelled None None 0;
     ScheduleJob 1 3 2 1; MarkComplete 1 3 2 1 Success None (Some 0) 0] /\
  let s := run (stuck_history ++ finish all_succeed (run stuck_history)) in
  map job_view (jobs s) = [(1, Success, false, Some 1); (2, Cancelled, false, None); (3, Success, true, Some 2)] /\
  map b_running (batches s) = [false].
Proof. exact finish_demo. Qed.
Print Assumptions C39_finish_demo.
