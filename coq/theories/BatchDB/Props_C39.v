(** C39 — job lifecycle protocol: the SAFETY half ("no job has two attempts both treated as current"; a stale attempt
    cannot move the job) plus enabledness of the progress steps.  Property theorems only (proofs: BatchDB/Attempts.v).

    NOT proved here (partial): termination / "a cancelled batch eventually completes" / "always-run jobs still run to
    completion" as liveness of the real driver loops — that needs fairness of the scheduler, canceller and workers; and
    the two remaining paths of "terminal states are absorbing" (Commit recomputing jobs, a completing parent releasing
    children), which are the range and dependency invariants of C04/C05.

    Quantification: ALL legal histories ([Legal.legal_history]) for the reachable-state theorems; ANY state for the
    per-message theorems. *)
From HailV Require Import Common.Prelude BatchDB.Model BatchDB.Legal BatchDB.Cores BatchDB.Attempts.
Open Scope Z_scope.

(** The attempt a job treats as current ([jobs.attempt_id]) is a row of the attempts table with that job's key; a job
    without a current attempt is not Creating or Running. *)
Theorem C39_current_attempt_exists : forall ops, legal_history ops ->
  forall x, In x (jobs (run ops)) ->
  match j_attempt x with
  | None => j_state x <> Creating /\ j_state x <> Running
  | Some a => exists c, find_attempt (run ops) (j_batch x) (j_id x) a = Some c /\
                        a_batch c = j_batch x /\ a_job c = j_id x /\ a_id c = a
  end.
Proof. exact current_attempt_exists. Qed.
Print Assumptions C39_current_attempt_exists.

(** No job has two attempts both treated as current: a job has one row, and at most one attempt row is its current attempt. *)
Theorem C39_single_current_attempt : forall ops, legal_history ops ->
  let s := run ops in
  (forall x y, In x (jobs s) -> In y (jobs s) -> j_batch x = j_batch y -> j_id x = j_id y -> x = y) /\
  (forall x c1 c2, In x (jobs s) -> In c1 (attempts s) -> In c2 (attempts s) ->
     (a_batch c1 = j_batch x /\ a_job c1 = j_id x /\ j_attempt x = Some (a_id c1)) ->
     (a_batch c2 = j_batch x /\ a_job c2 = j_id x /\ j_attempt x = Some (a_id c2)) -> c1 = c2).
Proof. exact single_current_attempt. Qed.
Print Assumptions C39_single_current_attempt.

(** The invariant is inductive: preserved by every legal step from any state satisfying it. *)
Theorem C39_step : forall s o, KInv s -> legal s o -> KInv (fst (step s o)).
Proof. exact step_kinv. Qed.
Print Assumptions C39_step.

(** A stale attempt cannot move the job (from ANY state): a completion carrying an attempt id other than the job's
    current one changes no job, job-group or batch row and is answered rc 2 (error 1452 if its instance is unknown) ... *)
Theorem C39_stale_complete_ignored : forall s b j a i ns st en rs x e,
  find_job s b j = Some x -> j_attempt x = Some e -> a <> -1 -> e <> a ->
  let r := step s (MarkComplete b j a i ns st en rs) in
  jgb (fst r) = jgb s /\ (snd r = sql_error 1452 \/ exists d, snd r = ok [2; d]).
Proof. exact stale_complete_ignored. Qed.
Print Assumptions C39_stale_complete_ignored.

(** ... and an unschedule carrying an attempt id that is not the current one likewise, answered rc 1. *)
Theorem C39_stale_unschedule_ignored : forall s b j a i t rs x,
  find_job s b j = Some x -> j_attempt x <> Some a ->
  let r := step s (UnscheduleJob b j a i t rs) in
  jgb (fst r) = jgb s /\ exists d, snd r = ok [1; d].
Proof. exact stale_unschedule_ignored. Qed.
Print Assumptions C39_stale_unschedule_ignored.

(** Late START messages cannot move a job either: creating / started reports act on Ready jobs only, a schedule on
    Ready or Creating jobs only; in any other state no job row changes. *)
Theorem C39_start_messages_only_move_waiting_jobs : forall s o b j x,
  find_job s b j = Some x ->
  match o with
  | ScheduleJob b' j' _ _ => (b', j') = (b, j) /\ j_state x <> Ready /\ j_state x <> Creating
  | MarkCreating b' j' _ _ _ | MarkStarted b' j' _ _ _ => (b', j') = (b, j) /\ j_state x <> Ready
  | _ => False
  end ->
  jobs (fst (step s o)) = jobs s.
Proof. exact start_messages_only_move_waiting_jobs. Qed.
Print Assumptions C39_start_messages_only_move_waiting_jobs.

(** Terminal rows are kept by every transaction except the commit of an update and the completion of ANOTHER job: no
    message about the job itself, however late or duplicated, and no deactivation moves a finished job. *)
Theorem C39_terminal_row_kept : forall s o b j x,
  NoDup (map jk (jobs s)) -> find_job s b j = Some x -> terminal (j_state x) = true -> keeps_row o b j ->
  find_job (fst (step s o)) b j = Some x.
Proof. exact terminal_row_kept. Qed.
Print Assumptions C39_terminal_row_kept.

(** Progress is enabled (no fairness, hence no liveness claim): the scheduler's transaction on a Ready, not cancelled job
    with a fresh attempt id and an active instance succeeds and installs that attempt as current; *)
Theorem C39_schedule_enabled : forall s b j a i x y,
  find_job s b j = Some x -> j_state x = Ready -> is_job_cancelled s x = Some false ->
  find_attempt s b j a = None -> find_inst s i = Some y -> i_state y = IActive ->
  let r := step s (ScheduleJob b j a i) in
  (exists d, snd r = ok [0; d]) /\
  exists x', find_job (fst r) b j = Some x' /\ j_state x' = Running /\ j_attempt x' = Some a.
Proof. exact schedule_enabled. Qed.
Print Assumptions C39_schedule_enabled.

(** an always-run job is never treated as cancelled, and the cancellation test cannot fail with error 1242 (migration 121); *)
Theorem C39_always_run_schedulable : forall s x, j_always x = true -> is_job_cancelled s x = Some false.
Proof. exact always_run_never_cancelled. Qed.
Print Assumptions C39_always_run_schedulable.

Theorem C39_scheduling_never_1242 : forall s o,
  match o with ScheduleJob _ _ _ _ | MarkCreating _ _ _ _ _ | MarkStarted _ _ _ _ _ => snd (step s o) <> sql_error 1242 | _ => True end.
Proof. exact scheduling_never_1242. Qed.
Print Assumptions C39_scheduling_never_1242.

(** a completion that is not stale, for a job in Ready/Creating/Running, is accepted and finishes the job. *)
Theorem C39_complete_enabled : forall s b j a i ns st en rs x,
  find_job s b j = Some x -> (j_state x = Ready \/ j_state x = Creating \/ j_state x = Running) ->
  (a = -1 \/ j_attempt x = None \/ j_attempt x = Some a) ->
  (a = -1 \/ i = -1 \/ find_inst s i <> None \/ find_attempt s b j a <> None) ->
  ~ In (b, j, j) (parents s) ->
  let r := step s (MarkComplete b j a i ns st en rs) in
  (exists d, snd r = ok [0; d; jcode (j_state x)]) /\
  exists x', find_job (fst r) b j = Some x' /\ j_state x' = ns.
Proof. exact complete_enabled. Qed.
Print Assumptions C39_complete_enabled.

(** A limit of the safety claim, kept visible: the current attempt need not be an OPEN attempt. A schedule message
    replayed verbatim after its attempt was unscheduled (legal for Legal.v) makes the ended attempt current again:
    job Running, attempt ended at 50, all 4000 mcpu of the instance free.  The SQL behaves the same
    (harness/batchdb/README.md: procedure-level weakness, not reachable through the real driver). *)
Theorem C39_replayed_schedule_reinstalls_ended_attempt :
  legal_history replayed_schedule /\
  let s := run replayed_schedule in
  option_map (fun x => (j_state x, j_attempt x)) (find_job s 1 1) = Some (Running, Some 10) /\
  option_map a_end (find_attempt s 1 1 10) = Some (Some 50) /\
  map (fun y => (i_cores y, i_free y)) (insts s) = [(4000, 4000)].
Proof. exact replayed_schedule_reinstalls_ended_attempt. Qed.
Print Assumptions C39_replayed_schedule_reinstalls_ended_attempt.
