(** Consequences of [DInv] for single states (used by the property files C05, C08, C41). *)
From HailV Require Import Common.Prelude BatchDB.Model BatchDB.Tables BatchDB.CMap BatchDB.JobsWF BatchDB.StepCore
  BatchDB.Legal BatchDB.DepsDef BatchDB.DepsMC1 BatchDB.DepsCommit1 BatchDB.Deps.
Open Scope Z_scope.

Section State.
  Variable s : state.
  Hypothesis D : DInv s.

  (** C05: a job of a committed update that has left Pending has all its parents present and terminal. *)
  Lemma ready_only_after_parents x :
    In x (jobs s) -> jcommitted s x = true -> j_state x <> Pending ->
    forall p, In p (parents_of s (j_batch x) (j_id x)) ->
      exists y, find_job s (j_batch x) p = Some y /\ terminal (j_state y) = true /\ j_id y < j_id x.
  Proof.
    intros Hx C NP p Hp. pose proof (d_jobs _ D x Hx) as Ok. unfold job_ok in Ok. rewrite C in Ok.
    destruct Ok as (N & P & Ex & _). destruct (Ex p Hp) as (y & Fy & _). exists y. split; [exact Fy|].
    assert (Z0 : npp_spec s (j_batch x) (j_id x) <= 0).
    { destruct (Z_lt_ge_dec 0 (j_npp x)) as [L|G]; [apply P in L; contradiction | lia]. }
    unfold npp_spec in Z0.
    assert (Hnl : live_state (pstate s (j_batch x) p) = false).
    { destruct (live_state (pstate s (j_batch x) p)) eqn:L; [|reflexivity]. exfalso.
      assert (Hf : In p (filter (fun q => live_state (pstate s (j_batch x) q)) (parents_of s (j_batch x) (j_id x)))) by (apply filter_In; auto).
      destruct (filter _ _); [contradiction | cbn [length] in Z0; lia]. }
    unfold pstate in Hnl. rewrite Fy in Hnl. cbn in Hnl. split; [destruct (terminal (j_state y)); [reflexivity | discriminate]|].
    apply in_parents_of in Hp. pose proof (d_edges _ D _ Hp) as Ed. cbn in Ed.
    apply find_jkey_sound in Fy. lia.
  Qed.

  (** C05: a parent that finished without success has marked the (committed) child cancelled. *)
  Lemma failed_parent_cancels x p y :
    In x (jobs s) -> jcommitted s x = true -> In p (parents_of s (j_batch x) (j_id x)) ->
    find_job s (j_batch x) p = Some y -> terminal (j_state y) = true -> j_state y <> Success ->
    j_cancelled x = true.
  Proof.
    intros Hx C Hp Fy T NS. pose proof (d_jobs _ D x Hx) as Ok. unfold job_ok in Ok. rewrite C in Ok.
    destruct Ok as (_ & _ & _ & Fl). apply Fl. apply existsb_exists. exists p. split; [exact Hp|].
    unfold pstate. rewrite Fy. cbn. rewrite T. destruct (j_state y); cbn in *; try reflexivity; try discriminate. contradiction.
  Qed.

  (** C08: in a committed update every dependency names an existing job of a committed update with a smaller id. *)
  Lemma accepted_parents_exist x p :
    In x (jobs s) -> jcommitted s x = true -> In p (parents_of s (j_batch x) (j_id x)) ->
    exists y, find_job s (j_batch x) p = Some y /\ jcommitted s y = true /\ 1 <= p < j_id x.
  Proof.
    intros Hx C Hp. pose proof (d_jobs _ D x Hx) as Ok. unfold job_ok in Ok. rewrite C in Ok.
    destruct Ok as (_ & _ & Ex & _). destruct (Ex p Hp) as (y & Fy & Cy). exists y. repeat split; auto.
    all: apply in_parents_of in Hp; pose proof (d_edges _ D _ Hp) as Ed; cbn in Ed; lia.
  Qed.

  (** C08: every job lies in the id range reserved by its update; ranges of different updates are disjoint. *)
  Lemma job_in_reserved_range x :
    In x (jobs s) -> exists up, find_update s (j_batch x) (j_update x) = Some up /\
                                u_start_job up <= j_id x < u_start_job up + u_njobs up.
  Proof. apply (d_jrange _ D). Qed.

  (** C08 (no deadlock): a Pending job of a committed update waits for a parent that exists, is committed, has a
      smaller id and is not terminal.  Hence the committed non-terminal job with the least id is never Pending:
      as long as jobs finish, the batch can complete. *)
  Lemma pending_has_live_parent x :
    In x (jobs s) -> jcommitted s x = true -> j_state x = Pending ->
    exists p y, In p (parents_of s (j_batch x) (j_id x)) /\ find_job s (j_batch x) p = Some y /\
                jcommitted s y = true /\ terminal (j_state y) = false /\ j_id y < j_id x.
  Proof.
    intros Hx C Pn. pose proof (d_jobs _ D x Hx) as Ok. unfold job_ok in Ok. rewrite C in Ok.
    destruct Ok as (N & P & Ex & _). apply P in Pn. rewrite N in Pn. unfold npp_spec in Pn.
    destruct (filter (fun q => live_state (pstate s (j_batch x) q)) (parents_of s (j_batch x) (j_id x))) as [|p l] eqn:Fl;
      [cbn in Pn; lia|].
    assert (Hp : In p (filter (fun q => live_state (pstate s (j_batch x) q)) (parents_of s (j_batch x) (j_id x)))) by (rewrite Fl; left; reflexivity).
    apply filter_In in Hp. destruct Hp as (Hp & L). destruct (Ex p Hp) as (y & Fy & Cy).
    exists p, y. repeat split; auto.
    - unfold pstate in L. rewrite Fy in L. cbn in L. destruct (terminal (j_state y)); [discriminate | reflexivity].
    - apply in_parents_of in Hp. pose proof (d_edges _ D _ Hp) as Ed. cbn in Ed. apply find_jkey_sound in Fy. lia.
  Qed.

  Lemma least_live_job_not_pending x :
    In x (jobs s) -> jcommitted s x = true -> terminal (j_state x) = false ->
    (forall y, In y (jobs s) -> j_batch y = j_batch x -> jcommitted s y = true -> terminal (j_state y) = false -> j_id x <= j_id y) ->
    j_state x <> Pending.
  Proof.
    intros Hx C T Least Pn. destruct (pending_has_live_parent x Hx C Pn) as (p & y & _ & Fy & Cy & Ty & Lt).
    pose proof (find_jkey_sound _ _ _ _ Fy) as (Hy & By & _).
    specialize (Least y Hy By Cy Ty). lia.
  Qed.

  (** C41: a job of an update that is not committed has never been handed to the driver: it has no attempt and is
      Pending — or Ready only as a parentless job of the first update (which becomes schedulable at its commit). *)
  Lemma uncommitted_job_inert x :
    In x (jobs s) -> jcommitted s x = false ->
    j_attempt x = None /\ (j_state x = Pending \/ (j_state x = Ready /\ j_update x = 1 /\ parents_of s (j_batch x) (j_id x) = [])).
  Proof.
    intros Hx C. pose proof (d_jobs _ D x Hx) as Ok. unfold job_ok in Ok. rewrite C in Ok.
    destruct Ok as (Na & Ok). split; [exact Na|].
    destruct (j_update x =? 1) eqn:U.
    - destruct Ok as (_ & St). destruct (parents_of s (j_batch x) (j_id x)) eqn:Ps; cbn in St.
      + right. repeat split; [exact St | lia].
      + left. exact St.
    - left. exact Ok.
  Qed.
End State.
