(** C02 — billing aggregates equal the sum of attempt usage.  Property theorems only.

    [run ops] is the state of the batch-database model after the history [ops]: ANY finite list of operations (client
    requests, scheduling, creating/started/complete reports incl. late and repeated ones, attempt resource inserts before
    or after the start, billing heartbeats, unscheduling, instance deactivation, clean-up), legal or not — no
    environment assumption is needed for this property.  [agg_value t k] is the usage recorded in the (token-summed)
    aggregate table [t] for key [k].  The right-hand sides sum, over the attempt_resources rows ([b; j; a; r], [q]),
    q x billed time of attempt (b, j, a) with billed = max(rollup - start, 0) (0 while either is NULL). *)
From HailV Require Import Common.Prelude BatchDB.Model BatchDB.CMap BatchDB.Billing BatchDB.BillingInv BatchDB.BillingStep
  BatchDB.BillingThm BatchDB.Compaction.
Open Scope Z_scope.

(** per job *)
Theorem C02_job_usage : forall ops b j r,
  agg_value (agg_job (run ops)) [b; j; r] = job_usage (run ops) b j r.
Proof. intros; apply job_usage_ok, BInv_run. Qed.
Print Assumptions C02_job_usage.

(** per job group, counting the jobs of all descendant groups: a row of job (b, j) counts for group g iff g is among
    the ancestors-or-self of the job's group ([anc_ids], the rows of job_group_self_and_ancestors), and then once *)
Theorem C02_group_usage : forall ops b g r,
  agg_value (agg_group (run ops)) [b; g; r] = group_usage (run ops) b g r.
Proof. intros; apply group_usage_ok, BInv_run. Qed.
Print Assumptions C02_group_usage.

(** the ancestor-or-self ids of a group are pairwise distinct (no row of job_group_self_and_ancestors is doubled) *)
Theorem C02_ancestors_distinct : forall ops b g, NoDup (anc_ids (run ops) b g).
Proof. intros; apply anc_ids_nodup, BInv_run. Qed.
Print Assumptions C02_ancestors_distinct.

(** the batch is its root group 0 *)
Theorem C02_batch_usage : forall ops b r,
  agg_value (agg_group (run ops)) [b; 0; r] = group_usage (run ops) b 0 r.
Proof. intros; apply group_usage_ok, BInv_run. Qed.
Print Assumptions C02_batch_usage.

(** per billing project and user *)
Theorem C02_bp_user_usage : forall ops bp u r,
  agg_value (agg_bp (run ops)) [bp; u; r] = bp_user_usage (run ops) bp u r.
Proof. intros; apply bp_usage_ok, BInv_run. Qed.
Print Assumptions C02_bp_user_usage.

(** per billing day: the model keeps the by-date table summed over the days, so this is the statement that the days
    add up to the billing project / user total *)
Theorem C02_by_date_total : forall ops bp u r,
  agg_value (agg_date (run ops)) [bp; u; r] = bp_user_usage (run ops) bp u r /\
  agg_value (agg_date (run ops)) [bp; u; r] = agg_value (agg_bp (run ops)) [bp; u; r].
Proof.
  intros. split; [apply date_usage_ok, BInv_run|].
  rewrite date_usage_ok, bp_usage_ok by apply BInv_run. reflexivity.
Qed.
Print Assumptions C02_by_date_total.

(** nothing else is recorded: for EVERY key (of any shape) each table holds exactly what the rows attribute to it *)
Theorem C02_no_other_usage : forall ops k,
  table_val (agg_job (run ops)) k = usage kf_job (run ops) k /\
  table_val (agg_group (run ops)) k = usage kf_group (run ops) k /\
  table_val (agg_bp (run ops)) k = usage kf_bp (run ops) k /\
  table_val (agg_date (run ops)) k = usage kf_bp (run ops) k.
Proof. intros; apply any_key_ok, BInv_run. Qed.
Print Assumptions C02_no_other_usage.

(** Compaction of a token-sharded table (any table, any list of target keys) never changes the total of any key;
    in particular the audit inside each compaction transaction never fails. *)
Theorem C02_compaction_preserves_totals : forall (t : list shard) (targets : list (list Z)) (k : list Z),
  ktotal k (compact t targets) = ktotal k t.
Proof. exact compact_total. Qed.
Print Assumptions C02_compaction_preserves_totals.

(** one compaction transaction leaves its key with a single token-0 row holding the old total, and all other rows as they were *)
Theorem C02_compaction_one_key : forall (t : list shard) (k : list Z),
  filter (fun r => key_eqb (sh_key r) k) (compact_one t k) = [(k, 0, ktotal k t)] /\
  needs_compaction (compact_one t k) k = false /\
  (forall k', key_eqb k k' = false ->
     filter (fun r => key_eqb (sh_key r) k') (compact_one t k) = filter (fun r => key_eqb (sh_key r) k') t).
Proof. intros. split; [apply compact_one_rows | split; [apply compact_one_done | intros; apply compact_one_other; assumption]]. Qed.
Print Assumptions C02_compaction_one_key.
