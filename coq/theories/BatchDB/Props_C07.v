(** C07 — cancellation stops work in the cancelled subtree only.  Property theorems only (proofs: Cancel.v, StepFrame.v).

    Vocabulary (Model.v / StepFrame.v / Cancel.v):
    [marked s b g]            row (b, g) in job_groups_cancelled;
    [anc_ids s b h]           ancestors-or-self of group h (job_group_self_and_ancestors);
    [group_cancelled s b h]   some ancestor-or-self of h is marked (what is_job_cancelled / the insert trigger compute);
    [idle y]                  job row y is neither Creating nor Running;
    [static_eq x y]           rows x and y agree on batch, id, update, group, always_run, cores, inst_coll;
    [run_from s ops]          state after the transactions [ops] from ANY state s;  [run ops = run_from init ops];
    [op_terminal o]           a MarkComplete names a terminal state (part of Legal.v's [legal]);
    [jobs_unique s]           the (batch, job) keys of the jobs table are distinct (holds in every reachable state);
    [tree_inv s]              every group has its own ancestors row and batch ids are below the next id (every reachable state). *)
From HailV Require Import Common.Prelude BatchDB.Model BatchDB.Tables BatchDB.CMap BatchDB.Legal BatchDB.StepFrame BatchDB.Cancel.
Open Scope Z_scope.

(* ------------------------------------------------------------------ (1) no new work under a cancelled group *)

(** One transaction, ANY state: the row of a non-always-run job whose group is under a cancelled group is left as it is
    or ends up outside Creating / Running — it never ENTERS Creating or Running. *)
Theorem C07_no_new_work_step : forall s o b j x y,
  op_terminal o ->
  find_job s b j = Some x -> j_always x = false -> group_cancelled s b (j_group x) = true ->
  find_job (fst (step s o)) b j = Some y ->
  y = x \/ idle y.
Proof. exact no_new_work_step. Qed.
Print Assumptions C07_no_new_work_step.

(** Marks and "being under a cancelled group" are monotone along every history from any state. *)
Theorem C07_cancellation_monotone : forall s ops b g,
  (marked s b g = true -> marked (run_from s ops) b g = true) /\
  (group_cancelled s b g = true -> group_cancelled (run_from s ops) b g = true) /\
  (forall a, In a (anc_ids s b g) -> In a (anc_ids (run_from s ops) b g)).
Proof.
  intros s ops b g. split; [apply marked_history|]. split; [apply group_cancelled_history|].
  intros a. apply descendant_grow, run_from_grow.
Qed.
Print Assumptions C07_cancellation_monotone.

(** The ancestors of an existing group never change, in every state of every history (so "the cancelled subtree" is
    determined when a group is created and no group ever moves under a cancelled one). *)
Theorem C07_ancestors_stable : forall ops1 ops2 b g,
  find_group (run ops1) b g <> None ->
  anc_ids (run (ops1 ++ ops2)) b g = anc_ids (run ops1) b g /\ find_group (run (ops1 ++ ops2)) b g <> None.
Proof. intros ops1 ops2 b g F. rewrite run_app. apply anc_ids_stable; [apply tree_inv_run | exact F]. Qed.
Print Assumptions C07_ancestors_stable.

(** Histories from ANY state with unique job keys: once the group of a non-always-run job is under a cancelled group,
    the job keeps existing and no later transaction moves it into Creating / Running. *)
Theorem C07_no_new_work_from : forall s ops o b j x,
  jobs_unique s -> Forall op_terminal (ops ++ [o]) ->
  find_job s b j = Some x -> j_always x = false -> group_cancelled s b (j_group x) = true ->
  exists x1, find_job (run_from s ops) b j = Some x1 /\
             forall y, find_job (fst (step (run_from s ops) o)) b j = Some y -> y = x1 \/ idle y.
Proof. exact no_new_work_history. Qed.
Print Assumptions C07_no_new_work_from.

(** All legal histories of the service: after [ops1] group [g] is marked cancelled and [x] is a non-always-run job of [g]
    or of a group below it; whatever happens next ([ops2], then [o]), the job persists with the same immutable columns
    and [o] does not move it into Creating / Running. *)
Theorem C07_no_new_work : forall ops1 ops2 o b j x g,
  legal_history (ops1 ++ ops2 ++ [o]) ->
  find_job (run ops1) b j = Some x -> j_always x = false ->
  marked (run ops1) b g = true -> In g (anc_ids (run ops1) b (j_group x)) ->
  exists x1, find_job (run (ops1 ++ ops2)) b j = Some x1 /\ static_eq x x1 /\
             forall y, find_job (run (ops1 ++ ops2 ++ [o])) b j = Some y -> y = x1 \/ idle y.
Proof. intros ops1 ops2 o b j x g L. exact (no_new_work_reachable ops1 ops2 o b j x g L). Qed.
Print Assumptions C07_no_new_work.

Theorem C07_jobs_unique : forall ops, jobs_unique (run ops).
Proof. exact jobs_unique_run. Qed.
Print Assumptions C07_jobs_unique.

(* ------------------------------------------------------------------ (2) no additions beneath a cancelled group *)

(** Any transaction, ANY state: a job row that appears belongs to a group that is not under a cancelled group. *)
Theorem C07_no_job_added_step : forall s o b j y,
  find_job s b j = None -> find_job (fst (step s o)) b j = Some y ->
  group_cancelled s b (j_group y) = false /\ (j_state y = Ready \/ j_state y = Pending).
Proof. exact no_job_added_step. Qed.
Print Assumptions C07_no_job_added_step.

(** Histories from any state: once group [h] is under a cancelled group no job is ever added to it, nor to any group that was
    under a cancelled group at that time. *)
Theorem C07_no_job_added : forall s ops o b j y h,
  group_cancelled s b h = true ->
  find_job (run_from s ops) b j = None -> find_job (fst (step (run_from s ops) o)) b j = Some y ->
  j_group y <> h /\ group_cancelled s b (j_group y) = false.
Proof. exact no_job_added_history. Qed.
Print Assumptions C07_no_job_added.

(** A job bunch that names a group under a cancelled group changes nothing; it is answered ok only when an earlier row of
    the bunch was already inserted (verdict 2: the retry path of C09), otherwise with an error. *)
Theorem C07_job_bunch_rejected : forall s b u user jss up,
  find_update s b u = Some up ->
  (exists x, In x (map fst (cj_specs b u up jss)) /\ group_cancelled s b (j_group x) = true) ->
  fst (step s (CreateJobs b u user jss)) = s /\
  (snd (step s (CreateJobs b u user jss)) = ok [] -> insert_verdict s b (map fst (cj_specs b u up jss)) [] = 2).
Proof. exact create_jobs_under_cancelled. Qed.
Print Assumptions C07_job_bunch_rejected.

(** A group bunch one of whose parents is under a cancelled group is rejected and changes nothing. *)
Theorem C07_group_bunch_rejected : forall s b u user gss up,
  find_update s b u = Some up ->
  (exists gs, In gs gss /\ group_cancelled s b (gspec_parent (u_start_group up) gs) = true) ->
  fst (step s (CreateGroups b u user gss)) = s /\ snd (step s (CreateGroups b u user gss)) <> ok [].
Proof. exact create_groups_under_cancelled. Qed.
Print Assumptions C07_group_bunch_rejected.

(** No update can be opened on a cancelled batch (a re-sent request for an EXISTING update is answered with that update,
    nothing is created) ... *)
Theorem C07_update_rejected : forall s b user token nj ng,
  marked s b 0 = true ->
  fst (step s (CreateUpdate b user token nj ng)) = s /\
  (fst (snd (step s (CreateUpdate b user token nj ng))) = 0 ->
   exists x, In x (updates s) /\ u_batch x = b /\ u_token x = token /\
             snd (step s (CreateUpdate b user token nj ng)) = ok [u_id x; u_start_group x; u_start_job x]).
Proof. exact create_update_cancelled_batch. Qed.
Print Assumptions C07_update_rejected.

(** ... nor committed. *)
Theorem C07_commit_rejected : forall s b u user,
  marked s b 0 = true ->
  fst (step s (Commit b u user)) = s /\ fst (snd (step s (Commit b u user))) <> 0.
Proof. exact commit_cancelled_batch. Qed.
Print Assumptions C07_commit_rejected.

(* ------------------------------------------------------------------ (3) repeating the cancellation changes nothing *)

(** ANY state in which the group has its own ancestors row: the second identical request leaves the state exactly as the
    first one left it and is answered like the first. *)
Theorem C07_cancel_idempotent_step : forall s b g,
  In g (anc_ids s b g) ->
  step (fst (step s (CancelGroup b g))) (CancelGroup b g) = (fst (step s (CancelGroup b g)), snd (step s (CancelGroup b g))).
Proof. exact cancel_idempotent. Qed.
Print Assumptions C07_cancel_idempotent_step.

(** Every state of every history, every group id (existing or not). *)
Theorem C07_cancel_idempotent : forall ops b g,
  step (fst (step (run ops) (CancelGroup b g))) (CancelGroup b g)
  = (fst (step (run ops) (CancelGroup b g)), snd (step (run ops) (CancelGroup b g))).
Proof. intros ops b g. apply cancel_idempotent_reachable, tree_inv_run. Qed.
Print Assumptions C07_cancel_idempotent.

(* ------------------------------------------------------------------ (4) siblings, ancestors and other batches are unaffected *)

(** A cancellation changes no job, group, ancestor, batch, update, parent, staging, attempt, instance or billing row of ANY
    batch; it adds at most its own mark. *)
Theorem C07_cancel_frame : forall s b g,
  let s' := fst (step s (CancelGroup b g)) in
  jobs s' = jobs s /\ groups s' = groups s /\ ancestors s' = ancestors s /\ batches s' = batches s /\ updates s' = updates s /\
  parents s' = parents s /\ staging s' = staging s /\ attempts s' = attempts s /\ insts s' = insts s /\
  attempt_res s' = attempt_res s /\ agg_job s' = agg_job s /\ agg_group s' = agg_group s /\ agg_bp s' = agg_bp s /\
  agg_date s' = agg_date s /\ next_batch s' = next_batch s /\
  (marks s' = marks s \/ marks s' = marks s ++ [(b, g)]).
Proof. exact cancel_group_frame. Qed.
Print Assumptions C07_cancel_frame.

(** The cancellable counters change only on rows (b, _, a, _) with a an ancestor-or-self of g: every sum over rows that
    avoids those keys (rows of sibling / descendant groups, rows of other batches) is unchanged. *)
Theorem C07_cancel_cancellable : forall s b g (p : list Z -> bool),
  (forall u a ic, In a (anc_ids s b g) -> p [b; u; a; ic] = false) ->
  csum p (cancellable (fst (step s (CancelGroup b g)))) = csum p (cancellable s).
Proof. exact cancel_group_cancellable. Qed.
Print Assumptions C07_cancel_cancellable.

(** The user counters change only for the batch's user, and then by exactly the cancellable sums of g's own rows in
    committed updates ([moved]: ready/creating/running -> cancelled_ready/cancelled_creating/cancelled_running). *)
Theorem C07_cancel_user_res : forall s b g u ic i,
  exists d, cval (key_eqb [u; ic]) i (user_res (fst (step s (CancelGroup b g)))) = cval (key_eqb [u; ic]) i (user_res s) + d /\
            (u <> batch_user s b -> d = 0) /\
            (d = 0 \/ d = nth i (moved (csum (canc_sel s b g ic) (filter shaped5 (cancellable s)))) 0).
Proof. exact cancel_group_user_res. Qed.
Print Assumptions C07_cancel_user_res.

(** Exact form for an accepted, first cancellation. *)
Theorem C07_cancel_user_res_exact : forall s b g u ic i,
  cval (key_eqb [u; ic]) i (user_res (cancel_proc s b g)) =
  cval (key_eqb [u; ic]) i (user_res s) +
  (if group_cancelled s b g then 0
   else if u =? batch_user s b then nth i (moved (csum (canc_sel s b g ic) (filter shaped5 (cancellable s)))) 0 else 0).
Proof. exact cancel_proc_user_res. Qed.
Print Assumptions C07_cancel_user_res_exact.

(* ------------------------------------------------------------------ (5) scheduling requests are answered normally *)

(** is_job_cancelled yields exactly one row for every job and every combination of cancelled groups. *)
Theorem C07_is_job_cancelled_total : forall s x, exists c, is_job_cancelled s x = Some c.
Proof. exact is_job_cancelled_total. Qed.
Print Assumptions C07_is_job_cancelled_total.

Theorem C07_requests_never_1242 : forall s o, driver_request o -> snd (step s o) <> sql_error 1242.
Proof. exact requests_never_1242. Qed.
Print Assumptions C07_requests_never_1242.

(** A schedule / creating / started request about an existing job and an existing instance is answered ok (rc in the
    payload), in ANY state. *)
Theorem C07_requests_answered : forall s o,
  match o with
  | ScheduleJob b j _ i | MarkCreating b j _ i _ | MarkStarted b j _ i _ =>
      find_job s b j <> None -> find_inst s i <> None -> fst (snd (step s o)) = 0
  | _ => True
  end.
Proof. exact requests_answered. Qed.
Print Assumptions C07_requests_answered.

(** The history of the defect repaired by migration 121 (corpus/C07/two-cancelled-ancestors.json): sub-group cancelled,
    then the batch; the always-run job of the sub-group is scheduled and started, the other one is refused without error. *)
Theorem C07_two_cancelled_ancestors :
  let s := run two_cancelled_ancestors in
  n_cancelled_anc s 1 1 = 2 /\
  snd (step s (ScheduleJob 1 1 1 1)) = ok [0; 0] /\
  option_map j_state (find_job (fst (step s (ScheduleJob 1 1 1 1))) 1 1) = Some Running /\
  snd (step s (ScheduleJob 1 2 2 1)) = ok [1; 0] /\
  option_map j_state (find_job (fst (step s (ScheduleJob 1 2 2 1))) 1 2) = Some Ready /\
  snd (step (fst (step s (ScheduleJob 1 1 1 1))) (MarkStarted 1 1 1 1 200)) = ok [0; 0].
Proof. exact two_cancelled_ancestors_scheduled. Qed.
Print Assumptions C07_two_cancelled_ancestors.
