(** [DInv] is preserved by commit_batch_update (front end: commit / update-fast / create-fast). *)
From HailV Require Import Common.Prelude BatchDB.Model BatchDB.Tables BatchDB.CMap BatchDB.JobsWF BatchDB.StepCore
  BatchDB.JobFold BatchDB.KidsFold BatchDB.Legal BatchDB.DepsDef BatchDB.DepsEasy BatchDB.DepsMap BatchDB.DepsMC1 BatchDB.DepsMC4
  BatchDB.DepsCommit1 BatchDB.DepsCommit2 BatchDB.DepsCommit3.
From RecordUpdate Require Import RecordSet.
Import RecordSetNotations.
Open Scope Z_scope.

Lemma recompute_job_ext a s y : jobs a = jobs s -> parents a = parents s -> recompute_job a y = recompute_job s y.
Proof.
  intros Ej Ep. unfold recompute_job, parent_states, find_job. rewrite Ej, Ep. reflexivity.
Qed.

(* the user_inst_coll_resources fold of commit_batch_update touches nothing but user_res *)
Lemma commit_user_res_fold (f : state -> (list Z * list Z) -> state) l s0 :
  (forall st kv, f st kv = st \/ exists k d, f st kv = st <| user_res ::= cadd k d |>) ->
  let s' := fold_left f l s0 in
  simx s0 s' /\ jobs s' = jobs s0.
Proof.
  intros H. revert s0. induction l as [|kv l IH]; intros s0; cbn [fold_left].
  - split; [apply simx_refl | reflexivity].
  - specialize (IH (f s0 kv)). cbv zeta in IH. destruct IH as (X & J).
    destruct (H s0 kv) as [E | (k & d & E)]; rewrite E in *.
    + split; assumption.
    + split; [|exact J]. eapply simx_trans; [|exact X]. unfold simx. cbn. repeat split.
Qed.

Lemma DInv_commit_proc s b u : DInv s -> DInv (fst (do_commit_proc s b u)).
Proof.
  intros D. unfold do_commit_proc. destruct (find_update s b u) as [up|] eqn:Fup; [|exact D].
  destruct (u_committed up) eqn:Hunc; [exact D|].
  set (staged_n := nth 0 (csum (fun k => key_eqb (firstn 3 k) [b; u; 0]) (staging s)) 0).
  destruct (staged_n =? u_njobs up) eqn:Hst; cbn [negb]; [|exact D].
  assert (Hst' : root_staged s b u = u_njobs up) by (unfold root_staged, cval; fold staged_n; lia).
  set (s1 := s <| updates ::= map _ |>).
  assert (U1 : updates s1 = map (commit_fl b u) (updates s)) by reflexivity.
  assert (J1 : jobs s1 = jobs s) by reflexivity.
  assert (P1 : parents s1 = parents s /\ staging s1 = staging s /\ ancestors s1 = ancestors s /\ next_batch s1 = next_batch s /\
               groups s1 = groups s /\ batches s1 = batches s) by (repeat split).
  destruct P1 as (P1 & S1 & A1 & N1 & G1 & B1).
  (* generic finish: any state that agrees with s1 up to group/batch keys and has jobs = map cm_h (jobs s) *)
  assert (Finish : forall sf, simx s1 sf -> jobs sf = map (cm_h s b u up) (jobs s) -> DInv sf).
  { intros sf (Uf & Pf & Sf & Af & Nf & Gf & Bf) Jf.
    assert (Hu' : updates sf = map (commit_fl b u) (updates s)) by congruence.
    assert (Hp' : parents sf = parents s) by congruence.
    apply (commit_DInv s sf (cm_h s b u up) b u up Jf (fun y _ => cmo_static s b u up y) Hu' Hp'
             ltac:(congruence) ltac:(congruence) ltac:(congruence) ltac:(congruence) ltac:(congruence) D Fup).
    intros y Hy. apply (cmo_job_ok s sf b u up D Fup Hunc Hst' Jf Hu' Hp' y Hy). }
  (* rows outside the update are fixed points of cm_h *)
  assert (Hid : 0 < u_njobs up \/ ~ (0 < u_njobs up)) by lia.
  destruct (0 <? u_njobs up) eqn:Hpos; cbn [negb fst].
  2:{ apply Finish; [apply simx_refl|]. rewrite J1. rewrite <- (map_id (jobs s)) at 1. apply map_ext_in. intros y Hy.
      symmetry. apply (cmo_h_out s b u up D Fup y Hy).
      destruct (in_update b u y) eqn:E; [|reflexivity]. exfalso.
      unfold in_update in E. apply andb_true_iff in E. destruct E as [E1 E2].
      destruct (d_jrange _ D y Hy) as (uy & Fy & Ry).
      replace (j_batch y) with b in Fy by lia. replace (j_update y) with u in Fy by lia. rewrite Fup in Fy. injection Fy as <-. lia. }
  set (s2 := s1 <| batches ::= map _ |>).
  set (s3 := s2 <| groups ::= map _ |>).
  match goal with |- context [fold_left ?f (staging s) s3] => set (fu := f); set (s4 := fold_left fu (staging s) s3) end.
  assert (X3 : simx s1 s3 /\ jobs s3 = jobs s).
  { split; [|reflexivity]. subst s3 s2. eapply simx_trans; [apply simx_batches | apply simx_groups].
    - intros bt. destruct bt; cbn. match goal with |- context [if ?c then _ else _] => destruct c end; reflexivity.
    - intros g. destruct g; cbn. repeat match goal with |- context [if ?c then _ else _] => destruct c end; reflexivity. }
  assert (X4 : simx s1 s4 /\ jobs s4 = jobs s).
  { destruct X3 as (X3 & J3).
    destruct (commit_user_res_fold fu (staging s) s3) as (X & J).
    - intros st kv. subst fu. cbv beta.
      destruct kv as [k v]. destruct k as [|b' [|u' [|g' [|ic [|? ?]]]]]; try (left; reflexivity).
      destruct v as [|v0 [|nr [|rc [|? ?]]]]; try (left; reflexivity).
      destruct (_ && _); [right; eexists; eexists; reflexivity | left; reflexivity].
    - split; [eapply simx_trans; eassumption | unfold s4; rewrite J; exact J3]. }
  destruct X4 as (X4 & J4).
  destruct (u =? 1) eqn:U1'; cbn [fst].
  - apply Finish; [exact X4|]. rewrite J4. rewrite <- (map_id (jobs s)) at 1. apply map_ext. intros y. unfold cm_h. rewrite U1'. reflexivity.
  - (* the UPDATE jobs ... recomputation of the update's rows *)
    rewrite fold_left_map, fold_left_filter.
    set (T4 := fun x : job => (j_batch x =? b) && (u_start_job up <=? j_id x) && (j_id x <? u_start_job up + staged_n)).
    pose proof (fold_update_job_jobs T4 (recompute_job s4) (recompute_job_static s4)
                  (fun st x => if T4 x then update_job st (fst (x, recompute_job s4 x)) (snd (x, recompute_job s4 x)) else st)
                  (fun _ => True) (fun st j _ => eq_refl) (fun _ _ _ _ => I) (jobs s4) [] s4 I) as Hf.
    cbn [app map] in Hf. specialize (Hf ltac:(unfold Kjobs_list; rewrite J4; exact (d_jkeys _ D)) eq_refl). cbv zeta in Hf.
    match type of Hf with (jobs ?sf = _ /\ _) => change (DInv sf) end.
    destruct Hf as (JF & _ & F1 & F2 & F3 & F4 & F5 & F6 & F7 & _ & _ & F10).
    destruct X4 as (U4 & P4 & S4 & A4 & N4 & G4 & B4).
    apply Finish.
    + unfold simx. rewrite F2, F6, F7, F4, F10, F3, F1. repeat split; assumption.
    + rewrite JF, J4. apply map_ext. intros y. unfold cm_h, gmap. rewrite U1'.
      assert (ET : T4 y = cm_T b up y). { unfold T4, cm_T. replace staged_n with (u_njobs up) by lia. reflexivity. }
      rewrite ET. destruct (cm_T b up y); [|reflexivity]. apply recompute_job_ext; congruence.
Qed.

Lemma DInv_commit s b u user : DInv s -> DInv (fst (do_commit s b u user)).
Proof.
  intros D. unfold do_commit. destruct (find_batch s b) as [bt|]; [|exact D].
  destruct (find_update s b u); [|exact D].
  destruct (_ || _); [exact D|]. destruct (marked s b 0); [exact D|].
  apply DInv_commit_proc. exact D.
Qed.
