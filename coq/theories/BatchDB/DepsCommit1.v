(** Commit of a batch update: auxiliary facts.
    - folds over [map]/[filter];
    - pigeonhole: an uncommitted update whose root staging counter equals its size has a job for EVERY id of its range;
    - ownership: a job id inside an update's range belongs to that update;
    - counting: a failed parent makes #Success differ from #parents - #pending. *)
From HailV Require Import Common.Prelude BatchDB.Model BatchDB.Tables BatchDB.CMap BatchDB.JobsWF BatchDB.StepCore
  BatchDB.JobFold BatchDB.Legal BatchDB.DepsDef BatchDB.DepsEasy BatchDB.DepsMap.
Open Scope Z_scope.

Lemma fold_left_map {A B S} (f : S -> B -> S) (g : A -> B) l s :
  fold_left f (map g l) s = fold_left (fun st a => f st (g a)) l s.
Proof. revert s. induction l as [|a l IH]; intros s; cbn; [reflexivity | apply IH]. Qed.

Lemma fold_left_filter {A S} (f : S -> A -> S) (p : A -> bool) l s :
  fold_left f (filter p l) s = fold_left (fun st a => if p a then f st a else st) l s.
Proof. revert s. induction l as [|a l IH]; intros s; cbn [filter fold_left]; [reflexivity|]. destruct (p a); cbn [fold_left]; apply IH. Qed.

Lemma filter_map_length {A B} (g : A -> B) (p : B -> bool) l :
  length (filter p (map g l)) = length (filter (fun a => p (g a)) l).
Proof. induction l as [|a l IH]; cbn; [reflexivity|]. destruct (p (g a)); cbn; rewrite IH; reflexivity. Qed.

(* ------------------------------------------------------------------ pigeonhole *)

Fixpoint zrange (lo : Z) (n : nat) : list Z :=
  match n with O => [] | S k => lo :: zrange (lo + 1) k end.

Lemma zrange_length lo n : length (zrange lo n) = n.
Proof. revert lo. induction n as [|n IH]; intros lo; cbn; [reflexivity | rewrite IH; reflexivity]. Qed.

Lemma zrange_in lo n k : In k (zrange lo n) <-> lo <= k < lo + Z.of_nat n.
Proof.
  revert lo. induction n as [|n IH]; intros lo; cbn [zrange In].
  - lia.
  - rewrite IH. lia.
Qed.

Lemma pigeonhole (l : list Z) lo n :
  NoDup l -> (forall k, In k l -> lo <= k < lo + Z.of_nat n) -> length l = n ->
  forall k, lo <= k < lo + Z.of_nat n -> In k l.
Proof.
  intros ND Hr Hl k Hk.
  assert (I : incl (zrange lo n) l).
  { apply NoDup_length_incl; [exact ND | rewrite zrange_length; lia |].
    intros z Hz. apply zrange_in. apply Hr. exact Hz. }
  apply I. apply zrange_in. exact Hk.
Qed.

(* ------------------------------------------------------------------ updates: lookup and ownership *)

Lemma find_update_in s b u up : find_update s b u = Some up -> In up (updates s) /\ u_batch up = b /\ u_id up = u.
Proof.
  unfold find_update. intros F. apply find_some in F. destruct F as (Hin & E).
  apply andb_true_iff in E. destruct E. repeat split; [exact Hin | lia | lia].
Qed.

Lemma find_update_of_in s up : NoDup (map uk (updates s)) -> In up (updates s) -> find_update s (u_batch up) (u_id up) = Some up.
Proof.
  unfold find_update. intros ND Hin. induction (updates s) as [|y l IH]; [contradiction|].
  cbn [map] in ND. inversion ND as [|? ? Hn ND']; subst. cbn [find].
  destruct Hin as [-> | Hin].
  - rewrite !Z.eqb_refl. reflexivity.
  - destruct ((u_batch y =? u_batch up) && (u_id y =? u_id up)) eqn:E.
    + exfalso. apply andb_true_iff in E. destruct E. apply Hn. apply in_map_iff. exists up.
      split; [unfold uk; f_equal; lia | exact Hin].
    + apply IH; assumption.
Qed.

(** A job whose id lies in the range of update [up] of its batch belongs to [up]. *)
Lemma job_owner s x up :
  DInv s -> In x (jobs s) -> In up (updates s) -> u_batch up = j_batch x ->
  u_start_job up <= j_id x < u_start_job up + u_njobs up -> j_update x = u_id up.
Proof.
  intros D Hx Hup Eb R.
  destruct (d_jrange _ D x Hx) as (ux & Fx & Rx). apply find_update_in in Fx. destruct Fx as (Hux & E1 & E2).
  destruct (Z.lt_trichotomy (u_id ux) (u_id up)) as [L|[E|L]].
  - pose proof (d_uorder _ D ux up Hux Hup ltac:(congruence) L). lia.
  - congruence.
  - pose proof (d_uorder _ D up ux Hup Hux ltac:(congruence) L). lia.
Qed.

Definition in_update (b u : Z) (x : job) : bool := (j_batch x =? b) && (j_update x =? u).

(** When the root staging counter of an uncommitted update equals its declared size, a job exists for every id
    of its range (and it belongs to the update). *)
Lemma all_jobs_present s b u up :
  DInv s -> find_update s b u = Some up -> u_committed up = false ->
  root_staged s b u = u_njobs up ->
  forall k, u_start_job up <= k < u_start_job up + u_njobs up ->
  exists y, find_job s b k = Some y /\ j_update y = u.
Proof.
  intros D F Hc Hs k Hk.
  pose proof (find_update_in _ _ _ _ F) as (Hup & Eb & Eu).
  pose proof (d_staged _ D up Hup Hc) as St. rewrite Eb, Eu, Hs in St. unfold n_jobs_of in St.
  set (js := filter (fun x => (j_batch x =? b) && (j_update x =? u)) (jobs s)) in *.
  destruct (d_upos _ D up Hup) as (Hn & _).
  assert (Hin : In k (map j_id js)).
  { apply (pigeonhole (map j_id js) (u_start_job up) (Z.to_nat (u_njobs up))).
    - (* distinct ids: keys (b, id) are distinct and all rows of js have batch b *)
      pose proof (d_jkeys _ D) as K. unfold Kjobs, Kjobs_list in K.
      assert (Hsub : forall l, NoDup (map jk l) -> NoDup (map j_id (filter (fun x => (j_batch x =? b) && (j_update x =? u)) l))).
      { induction l as [|y l IH]; intros N; cbn [filter map]; [constructor|].
        cbn [map] in N. apply NoDup_cons_iff in N. destruct N as [Hn' N'].
        destruct ((j_batch y =? b) && (j_update y =? u)) eqn:E; [|apply IH; exact N'].
        cbn [map]. constructor; [|apply IH; exact N'].
        intros Hi. apply in_map_iff in Hi. destruct Hi as (z & Ez & Hz). apply filter_In in Hz. destruct Hz as (Hz & E2).
        apply Hn'. apply in_map_iff. exists z. split; [|exact Hz].
        apply andb_true_iff in E. apply andb_true_iff in E2. unfold jk. f_equal; lia. }
      apply Hsub. exact K.
    - intros z Hz. apply in_map_iff in Hz. destruct Hz as (y & <- & Hy). subst js. apply filter_In in Hy. destruct Hy as (Hy & E).
      apply andb_true_iff in E. destruct E as [E1 E2].
      destruct (d_jrange _ D y Hy) as (uy & Fy & Ry).
      replace (j_batch y) with b in Fy by lia. replace (j_update y) with u in Fy by lia. rewrite F in Fy. injection Fy as <-. lia.
    - rewrite map_length. lia.
    - lia. }
  apply in_map_iff in Hin. destruct Hin as (y & Ek & Hy). subst js. apply filter_In in Hy. destruct Hy as (Hy & E).
  apply andb_true_iff in E. destruct E as [E1 E2].
  exists y. split; [|lia].
  pose proof (find_jkey_in _ y (d_jkeys _ D) Hy) as Fy. rewrite find_job_eq. replace b with (j_batch y) by lia. rewrite <- Ek. exact Fy.
Qed.

(* ------------------------------------------------------------------ counting parent states *)

Lemma failed_means_cancel (ps : list (option jstate)) :
  existsb failed_state ps = true ->
  Z.of_nat (length (filter succ_state ps)) <> Z.of_nat (length ps) - Z.of_nat (length (filter live_state ps)).
Proof.
  assert (H : forall l, Z.of_nat (length (filter succ_state l)) + Z.of_nat (length (filter live_state l)) <= Z.of_nat (length l) /\
                        (existsb failed_state l = true ->
                         Z.of_nat (length (filter succ_state l)) + Z.of_nat (length (filter live_state l)) < Z.of_nat (length l))).
  { induction l as [|o l [IH1 IH2]]; cbn [filter length existsb]; [split; [lia | discriminate]|].
    destruct o as [[]|]; cbn [succ_state live_state failed_state terminal negb jstate_eqb andb orb length]; split; try lia;
      intros E; try (specialize (IH2 E)); lia. }
  intros E. destruct (H ps) as [_ H2]. specialize (H2 E). lia.
Qed.
