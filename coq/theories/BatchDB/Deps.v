(** The dependency invariant [DInv] holds in every state reachable by a well-behaved history
    (legal driver/worker messages, schema-valid client requests), and its consequences:
    C04 (lifecycle), C05 (dependencies), C08 (accepted graphs can finish), C41 (uncommitted updates). *)
From HailV Require Import Common.Prelude BatchDB.Model BatchDB.Tables BatchDB.CMap BatchDB.JobsWF BatchDB.StepCore
  BatchDB.JobFold BatchDB.KidsFold BatchDB.Legal BatchDB.DepsDef BatchDB.DepsEasy BatchDB.DepsMap BatchDB.DepsDriver
  BatchDB.DepsDeactivate BatchDB.DepsMC1 BatchDB.DepsMC2 BatchDB.DepsMC3 BatchDB.DepsMC4
  BatchDB.DepsCommit1 BatchDB.DepsCommit2 BatchDB.DepsCommit3 BatchDB.DepsCommit4
  BatchDB.DepsStruct BatchDB.DepsCreateJobs BatchDB.DepsAux.
Open Scope Z_scope.

(** A step is well-behaved when driver/worker messages are legal (Legal.v) and client requests pass the front
    end's schema validation (DepsDef.client_ok). *)
Definition good (s : state) (o : op) : Prop := legal s o /\ client_ok o = true.

Fixpoint good_from (s : state) (ops : list op) : Prop :=
  match ops with
  | [] => True
  | o :: r => good s o /\ good_from (fst (step s o)) r
  end.
Definition good_history (ops : list op) : Prop := good_from init ops.

Lemma legal_committed_of s b j r : job_committed s b j && r = true -> job_committed s b j = true.
Proof. intros H. apply andb_true_iff in H. tauto. Qed.

Theorem DInv_step s o : DInv s -> DAux s -> good s o -> DInv (fst (step s o)).
Proof.
  intros D A [L C]. destruct o; cbn [step].
  - apply DInv_create_batch; exact D.
  - apply DInv_create_update; assumption.
  - apply DInv_create_groups; assumption.
  - apply DInv_create_jobs; exact D.
  - apply DInv_commit; exact D.
  - apply DInv_cancel_group; exact D.
  - apply DInv_delete_batch; exact D.
  - exact (DInv_core _ _ (core_eq_new_instance s _ _ _ _) D).
  - exact (DInv_core _ _ (core_eq_activate s _) D).
  - apply DInv_deactivate; exact D.
  - exact (DInv_core _ _ (core_eq_mark_deleted s _) D).
  - apply DInv_schedule; assumption.
  - apply DInv_unschedule; [exact D|]. unfold legal, legalb in L. apply (legal_committed_of _ _ _ _ L).
  - apply DInv_creating_started; [exact D|]. unfold legal, legalb in L. apply (legal_committed_of _ _ _ _ L).
  - apply DInv_creating_started; [exact D|]. unfold legal, legalb in L. apply (legal_committed_of _ _ _ _ L).
  - apply DInv_mark_complete; assumption.
  - exact (DInv_core _ _ (core_eq_add_resources s _ _ _ _) D).
  - exact (DInv_core _ _ (core_eq_billing_update s _ _) D).
  - apply DInv_cleanup_staging; exact D.
  - exact (DInv_core _ _ (core_eq_cleanup_cancellable s) D).
Qed.

Theorem DInv_reachable ops : good_history ops -> DInv (run ops).
Proof.
  unfold good_history, run.
  assert (H : forall s, DInv s -> DAux s -> good_from s ops -> DInv (fold_left (fun s o => fst (step s o)) ops s)).
  { induction ops as [|o r IH]; intros s D A G; cbn [fold_left good_from] in *; [exact D|].
    destruct G as [Go Gr]. apply IH; [apply DInv_step; assumption | apply DAux_step; exact A | exact Gr]. }
  intros G. apply H; [apply DInv_init | apply DAux_init | exact G].
Qed.

(** Invariant-style induction principle for good histories. *)
Lemma good_invariant (P : state -> Prop) :
  P init ->
  (forall s o, DInv s -> DAux s -> P s -> good s o -> P (fst (step s o))) ->
  forall ops, good_history ops -> P (run ops).
Proof.
  intros H0 Hs ops. unfold good_history, run.
  assert (H : forall s, DInv s -> DAux s -> P s -> good_from s ops -> P (fold_left (fun s o => fst (step s o)) ops s)).
  { induction ops as [|o r IH]; intros s D A Ps G; cbn [fold_left good_from] in *; [exact Ps|].
    destruct G as [Go Gr]. apply IH; [apply DInv_step; assumption | apply DAux_step; exact A | apply Hs; assumption | exact Gr]. }
  intros G. apply H; [apply DInv_init | apply DAux_init | exact H0 | exact G].
Qed.

(** Non-vacuity: a concrete good history with two updates, a cross-update dependency, a failure and a cancellation. *)
Definition demo_history : list op :=
  [CreateBatch 1 1 1 true; CreateUpdate 1 1 10 2 1;
   CreateGroups 1 1 1 [mkGspec 1 (Some 0) 0];
   CreateJobs 1 1 1 [mkJspec 1 (Some 0) 0 [] [] false 1000 1; mkJspec 2 None 1 [] [1] false 1000 1];
   Commit 1 1 1; NewInstance 1 1 4000 true; ActivateInstance 1; ScheduleJob 1 1 1 1;
   CreateUpdate 1 1 11 1 0; CreateJobs 1 2 1 [mkJspec 1 (Some 0) 0 [2] [] true 1000 1];
   MarkComplete 1 1 1 1 Failed (Some 5) (Some 9) 2; Commit 1 2 1; CancelGroup 1 1;
   MarkComplete 1 2 (-1) (-1) Cancelled None None 3].

Fixpoint good_fromb (s : state) (ops : list op) : bool :=
  match ops with
  | [] => true
  | o :: r => legalb s o && client_ok o && good_fromb (fst (step s o)) r
  end.

Lemma good_fromb_sound s ops : good_fromb s ops = true -> good_from s ops.
Proof.
  revert s. induction ops as [|o r IH]; intros s H; cbn [good_fromb good_from] in *; [exact I|].
  apply andb_true_iff in H. destruct H as [H Hr]. apply andb_true_iff in H. destruct H as [Hl Hc].
  split; [split; assumption | apply IH; exact Hr].
Qed.

Example demo_history_good : good_history demo_history.
Proof. apply good_fromb_sound. vm_compute. reflexivity. Qed.
