(** C01 — [CInv] is preserved by job submission (_create_jobs: INSERT INTO jobs plus the staging / cancellable rows
    for every ancestor-or-self of each job's group). *)
From HailV Require Import BatchDB.StepFrame.
From HailV Require Import Common.Prelude BatchDB.Model BatchDB.Tables BatchDB.CMap BatchDB.JobsWF BatchDB.StepCore BatchDB.JobFold
  BatchDB.Legal BatchDB.DepsDef BatchDB.DepsEasy BatchDB.DepsStruct BatchDB.CountersAlg BatchDB.CountersInv.
From RecordUpdate Require Import RecordSet.
Import RecordSetNotations.
Open Scope Z_scope.

(* the cancellable row written for an inserted job *)
Definition scb (x : job) : list Z :=
  let cb := jstate_eqb (j_state x) Ready && negb (j_always x) in [ind cb; ind cb * j_cores x; 0; 0; 0].

Lemma stage_job_cancellable st x :
  cancellable (stage_job st x) =
  fold_left (fun m a => cadd [j_batch x; j_update x; a; j_ic x] (scb x) m) (anc_ids st (j_batch x) (j_group x)) (cancellable st).
Proof. reflexivity. Qed.

Lemma stage_job_staging' st x :
  staging (stage_job st x) =
  fold_left (fun m a => cadd [j_batch x; j_update x; a; j_ic x] (svec x) m) (anc_ids st (j_batch x) (j_group x)) (staging st).
Proof. reflexivity. Qed.

Section StageFold.
  Variable anc : Z -> Z -> list Z.
  Variable p : list Z -> bool.
  Variable i : nat.

  Definition hits (x : job) : Z :=
    Z.of_nat (length (filter (fun a => p [j_batch x; j_update x; a; j_ic x]) (anc (j_batch x) (j_group x)))).

  Lemma cval_stage_fold : forall N st,
    (forall b g, anc_ids st b g = anc b g) ->
    cval p i (cancellable (fold_left stage_job N st)) = cval p i (cancellable st) + zsum (fun x => nth i (scb x) 0 * hits x) N /\
    cval p i (staging (fold_left stage_job N st)) = cval p i (staging st) + zsum (fun x => nth i (svec x) 0 * hits x) N.
  Proof.
    induction N as [|x N IH]; intros st Ha; cbn [fold_left zsum]; [split; lia|].
    destruct (IH (stage_job st x)) as [I1 I2]; [intros b g; rewrite <- Ha; reflexivity|].
    rewrite I1, I2, stage_job_cancellable, stage_job_staging'.
    rewrite !(cval_fold_cadd p i (fun a => [j_batch x; j_update x; a; j_ic x])), Ha. unfold hits. split; lia.
  Qed.
End StageFold.

Lemma shaped_stage_fold : forall N st,
  shaped 4 5 (cancellable st) -> shaped 4 3 (staging st) ->
  shaped 4 5 (cancellable (fold_left stage_job N st)) /\ shaped 4 3 (staging (fold_left stage_job N st)).
Proof.
  induction N as [|x N IH]; intros st H1 H2; cbn [fold_left]; [split; assumption|].
  apply IH.
  - rewrite stage_job_cancellable. apply shaped_fold_cadd; auto.
  - rewrite stage_job_staging'. apply shaped_fold_cadd; auto.
Qed.

Lemma cj_specs_fresh b u up jss x :
  In x (map fst (cj_specs b u up jss)) -> j_cancelled x = false.
Proof.
  unfold cj_specs. rewrite map_map. intros H. apply in_map_iff in H. destruct H as (sp & <- & _). reflexivity.
Qed.

Lemma hits_key (anc : Z -> Z -> list Z) k x :
  length k = 4%nat ->
  hits anc (key_eqb k) x =
  match k with
  | [b0; u0; g0; ic0] => if (j_batch x =? b0) && (j_update x =? u0) && (j_ic x =? ic0)
                        then Z.of_nat (length (filter (fun a => a =? g0) (anc (j_batch x) (j_group x)))) else 0
  | _ => 0
  end.
Proof.
  intros Hk. destruct k as [|b0 [|u0 [|g0 [|ic0 [|]]]]]; try discriminate. unfold hits. cbn [key_eqb].
  rewrite (filter_ext _ (fun a => ((b0 =? j_batch x) && (u0 =? j_update x)) && (a =? g0) && (ic0 =? j_ic x))).
  2:{ intros a. rewrite andb_true_r, (Z.eqb_sym g0 a). destruct (b0 =? j_batch x), (u0 =? j_update x), (a =? g0), (ic0 =? j_ic x); reflexivity. }
  rewrite filter_guard. rewrite (Z.eqb_sym b0), (Z.eqb_sym u0), (Z.eqb_sym ic0). reflexivity.
Qed.

Lemma hits_gsel (anc : Z -> Z -> list Z) b0 g0 Q x :
  hits anc (gsel b0 g0 Q) x =
  if (j_batch x =? b0) && Q (j_update x) (j_ic x)
  then Z.of_nat (length (filter (fun a => a =? g0) (anc (j_batch x) (j_group x)))) else 0.
Proof. unfold hits, gsel. apply filter_guard. Qed.

Lemma CInv_create_jobs s b u user jss : DInv s -> CInv s -> CInv (fst (do_create_jobs s b u user jss)).
Proof.
  intros D C. destruct (do_create_jobs_shape s b u user jss) as [-> | (up & bt & Fu & Fb & Hun & Hv & ->)]; [exact C|].
  cbn [fst]. set (N := map fst (cj_specs b u up jss)).
  assert (HNb : forall x, In x N -> j_batch x = b /\ j_update x = u /\ (j_state x = Ready \/ j_state x = Pending))
    by (intros x Hx; apply (cj_specs_batch b u up jss x Hx)).
  assert (HNc : forall x, In x N -> j_cancelled x = false) by (intros x Hx; apply (cj_specs_fresh b u up jss x Hx)).
  destruct (insert_verdict_ok s b N [] (fun x Hx => proj1 (HNb x Hx)) Hv) as (HNv & _).
  rewrite Forall_forall in HNv.
  unfold cj_insert. fold N.
  set (s1 := s <| jobs ::= fun l => l ++ N |> <| parents ::= _ |>).
  set (s' := fold_left stage_job N s1).
  assert (Ej : jobs s' = jobs s ++ N) by (unfold s'; rewrite fold_keeps by reflexivity; reflexivity).
  assert (Eu : user_res s' = user_res s) by (unfold s'; rewrite fold_keeps by reflexivity; reflexivity).
  assert (Eup : updates s' = updates s) by (unfold s'; rewrite fold_keeps by reflexivity; reflexivity).
  assert (Emk : marks s' = marks s) by (unfold s'; rewrite fold_keeps by reflexivity; reflexivity).
  assert (Ean : ancestors s' = ancestors s) by (unfold s'; rewrite fold_keeps by reflexivity; reflexivity).
  assert (Eba : batches s' = batches s) by (unfold s'; rewrite fold_keeps by reflexivity; reflexivity).
  assert (Hcm : forall b' u', committed s' b' u' = committed s b' u') by (intros; apply committed_ext; exact Eup).
  assert (Hanc : forall b' g', anc_ids s' b' g' = anc_ids s b' g') by (intros; apply anc_ids_ext; exact Ean).
  assert (Hmk : forall b' g', marked s' b' g' = marked s b' g') by (intros; apply marked_ext; exact Emk).
  assert (Hgc : forall b' g', group_cancelled s' b' g' = group_cancelled s b' g') by (intros; apply group_cancelled_ext; assumption).
  assert (Hbu : forall b', batch_user s' b' = batch_user s b') by (intros; unfold batch_user, find_batch; rewrite Eba; reflexivity).
  assert (Hunc : committed s b u = false) by (unfold committed; rewrite Fu; exact Hun).
  pose proof (fun p i => cval_stage_fold (anc_ids s) p i N s1 (fun b' g' => eq_refl)) as Hcv.
  fold s' in Hcv. change (cancellable s1) with (cancellable s) in Hcv. change (staging s1) with (staging s) in Hcv.
  destruct C as [C1 C2 C3 C4 C5 C6 C7 C8].
  assert (Huw : forall usr ic i x, uw s' usr ic i x = uw s usr ic i x).
  { intros. unfold uw, usel, jgc. rewrite Hbu, Hcm, Hgc. reflexivity. }
  assert (Hgw : forall b0 g0 Q i x, gw s' b0 g0 Q i x = gw s b0 g0 Q i x).
  { intros. unfold gw, insub, jgc. rewrite Hanc, Hgc. reflexivity. }
  constructor.
  - apply (shaped_stage_fold N s1); assumption.
  - apply (shaped_stage_fold N s1); assumption.
  - apply (AInv_ext s); assumption.
  - apply (PInv_ext s); assumption.
  - (* RInv *)
    intros x Hx Hxc Hr. rewrite Ej in Hx. unfold jcommitted in Hxc. rewrite Hcm in Hxc. apply in_app_or in Hx.
    destruct Hx as [Hx|Hx].
    + destruct (C5 x Hx Hxc Hr) as [R1 R2]. split; [exact R1|]. intros a Ha Hm. rewrite Hanc in Ha. rewrite Hmk in Hm. auto.
    + split; [apply HNc; exact Hx|]. intros a Ha Hm. exfalso. rewrite Hanc in Ha. rewrite Hmk in Hm.
      destruct (HNv x Hx) as (Gc & _). destruct (HNb x Hx) as (Eb & _). rewrite Eb in *.
      unfold group_cancelled, n_cancelled_anc in Gc.
      assert (Hf : In a (filter (marked s b) (anc_ids s b (j_group x)))) by (apply filter_In; split; assumption).
      destruct (filter (marked s b) (anc_ids s b (j_group x))); [contradiction | cbn [length] in Gc; lia].
  - (* UInv *)
    intros usr ic i. rewrite Eu, Ej, zsum_app, (C6 usr ic i).
    rewrite (zsum_ext_in (uw s' usr ic i) (uw s usr ic i) (jobs s)) by (intros; apply Huw).
    rewrite (zsum_zero _ N); [lia|]. intros x Hx. rewrite Huw. unfold uw, usel.
    destruct (HNb x Hx) as (Eb & Eu' & _). rewrite Eb, Eu', Hunc, andb_false_r. reflexivity.
  - (* GInvC *)
    intros b0 g0 Hg Q i. rewrite Hgc in Hg. destruct (Hcv (gsel b0 g0 Q) i) as [Hc _]. rewrite Hc, Ej, zsum_app, (C7 b0 g0 Hg Q i).
    rewrite (zsum_ext_in (gw s' b0 g0 Q i) (gw s b0 g0 Q i) (jobs s)) by (intros; apply Hgw).
    f_equal. apply zsum_ext_in. intros x Hx. rewrite Hgw, hits_gsel.
    rewrite (count_nodup g0 _ (a_nodup _ C3 (j_batch x) (j_group x))).
    destruct (HNv x Hx) as (Gc & _). destruct (HNb x Hx) as (Eb & _ & St). pose proof (HNc x Hx) as Nc.
    unfold gw, insub, jgc. rewrite Eb in *. rewrite Gc.
    destruct (b =? b0) eqn:Ebb; cbn [andb]; [|lia]. assert (b0 = b) by lia. subst b0.
    destruct (Q (j_update x) (j_ic x)); rewrite ?andb_true_r, ?andb_false_r; [|lia].
    destruct (mem g0 (anc_ids s b (j_group x))); cbn [ind]; [|lia].
    rewrite Z.mul_1_r. unfold scb, cvec, cncl, isst. cbv zeta. rewrite Nc. cbn [orb negb]. rewrite andb_true_r.
    destruct St as [St|St]; rewrite St; cbn [jstate_eqb andb ind].
    + destruct (negb (j_always x)); cbn [andb ind]; do 5 (destruct i as [|i]; [reflexivity|]); destruct i; reflexivity.
    + do 5 (destruct i as [|i]; [reflexivity|]); destruct i; reflexivity.
  - (* SInv *)
    intros b0 u0 ic0 i Hu. rewrite Hcm in Hu. destruct (Hcv (key_eqb [b0; u0; 0; ic0]) i) as [_ Hs].
    rewrite Hs, Ej, zsum_app, (C8 b0 u0 ic0 i Hu). f_equal. apply zsum_ext_in. intros x Hx.
    rewrite (hits_key (anc_ids s) [b0; u0; 0; ic0] x eq_refl).
    unfold sw, ssel. destruct ((j_batch x =? b0) && (j_update x =? u0) && (j_ic x =? ic0)); [|lia].
    (* the root group occurs exactly once among the ancestors of the job's group *)
    destruct (HNv x Hx) as (_ & Fg & _). destruct (HNb x Hx) as (Eb & _). rewrite Eb in *.
    destruct (find_group s b (j_group x)) as [gr|] eqn:Fgr; [|congruence].
    apply find_group_sound in Fgr. destruct Fgr as (Hgr & E1 & E2).
    pose proof (d_root _ D gr Hgr) as R. unfold root_once in R. rewrite E1, E2 in R.
    rewrite (filter_ext _ (Z.eqb 0)) by (intros a; apply Z.eqb_sym). rewrite R. lia.
Qed.
