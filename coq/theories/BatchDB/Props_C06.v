(** C06 — batch and job-group completion reflect their jobs (and the tally half of C04: each job is counted exactly
    once in its batch's and groups' completed / succeeded / failed / cancelled tallies, however often or late its
    completion is reported).  Property theorems only; proofs: BatchDB/Tally*.v (invariant [TInv]) on top of the
    dependency invariant [DInv] (BatchDB/Deps*.v) over the frozen model BatchDB/Model.v.

    Vocabulary.  [subtree s b g] = the jobs [x] of batch [b] whose update is COMMITTED and whose group has [g] among
    its ancestors-or-self ([In g (anc_ids s b (j_group x))], the rows of job_group_self_and_ancestors): "every job in
    the group, including jobs in descendant groups" ([C06_subtree_spec]).  [batch_jobs s b] = the committed jobs of
    batch [b] (= the subtree of the root group 0).  Jobs of an update that is not committed yet are invisible to the
    tallies — and are never finished ([C06_uncommitted_jobs_unfinished]).  [g_running g = false] is
    job_groups.state = 'complete'; [b_running] likewise for batches.state.  [count q l] = number of jobs of [l] whose
    state satisfies [q]; [q_fail] = Failed or Error (the classification of mark_job_complete).

    Quantification: ALL good histories ([Deps.good_history]: every driver/worker message legal in the sense of
    Legal.v, every client request schema-valid in the sense of DepsDef.client_ok), i.e. any interleaving, duplication
    and delay of nested job-group creation, multi-update submission, commits, scheduling, completions (also stale and
    repeated ones), cancellations, deletions, deactivations and clean-ups. *)
From HailV Require Import Common.Prelude BatchDB.Model BatchDB.Legal BatchDB.DepsDef BatchDB.Deps
  BatchDB.Tally BatchDB.TallyInv.
Open Scope Z_scope.

(** What "the jobs of a group" means. *)
Theorem C06_subtree_spec : forall s b g x,
  In x (subtree s b g) <->
  In x (jobs s) /\ j_batch x = b /\ In g (anc_ids s b (j_group x)) /\ jcommitted s x = true.
Proof. exact in_subtree. Qed.
Print Assumptions C06_subtree_spec.

(** The five reported numbers of every job group equal the counts over the jobs of its subtree: n_jobs, n_completed
    (terminal state), n_succeeded, n_failed (Failed or Error), n_cancelled.  Since every job is one row of the jobs
    table, each job is counted exactly once in every group above it, and in no other group. *)
Theorem C06_counts : forall ops, good_history ops ->
  let s := run ops in
  forall gr, In gr (groups s) ->
    let sub := subtree s (g_batch gr) (g_id gr) in
    g_njobs gr = Z.of_nat (length sub) /\ g_ncompleted gr = count terminal sub /\ g_nsucc gr = count q_succ sub /\
    g_nfailed gr = count q_fail sub /\ g_ncancelled gr = count q_canc sub.
Proof. exact reach_counts. Qed.
Print Assumptions C06_counts.

(** The batch row: n_jobs is the number of committed jobs of the batch; the batch has a root group (id 0), whose
    n_jobs and state it mirrors — so the batch's completed/succeeded/failed/cancelled numbers, which the front end
    reads from the root group's row, are the counts of [C06_counts] over all committed jobs of the batch. *)
Theorem C06_batch_counts : forall ops, good_history ops ->
  let s := run ops in
  forall bt, In bt (batches s) ->
    b_njobs bt = Z.of_nat (length (batch_jobs s (b_id bt))) /\
    exists gr, find_group s (b_id bt) 0 = Some gr /\ b_njobs bt = g_njobs gr /\ b_running bt = g_running gr.
Proof. exact reach_batch. Qed.
Print Assumptions C06_batch_counts.

(** A job group, and a batch, is reported complete EXACTLY when every (committed) job in it, including the jobs of
    descendant groups, is in a terminal state.  In particular a group or batch without committed jobs is complete. *)
Theorem C06_complete_iff : forall ops, good_history ops ->
  let s := run ops in
  (forall gr, In gr (groups s) ->
     (g_running gr = false <-> forall x, In x (subtree s (g_batch gr) (g_id gr)) -> terminal (j_state x) = true)) /\
  (forall bt, In bt (batches s) ->
     (b_running bt = false <-> forall x, In x (batch_jobs s (b_id bt)) -> terminal (j_state x) = true)).
Proof. exact reach_complete_iff. Qed.
Print Assumptions C06_complete_iff.

(** The jobs the tallies do not see — those of an update that is not committed — are never in a terminal state. *)
Theorem C06_uncommitted_jobs_unfinished : forall ops, good_history ops ->
  forall x, In x (jobs (run ops)) -> jcommitted (run ops) x = false -> terminal (j_state x) = false.
Proof. exact reach_uncommitted_live. Qed.
Print Assumptions C06_uncommitted_jobs_unfinished.

(** Adding an update with jobs reopens: when the commit of update [u] of batch [b] succeeds (the update is committed
    afterwards), every group of the batch gains exactly the number of the update's jobs that lie in its subtree
    ([n_sub_upd]) and is running again if that number is positive; the batch gains the update's declared number of
    jobs (= the number of jobs inserted for it) and is running again if that is positive. *)
Theorem C06_update_reopens : forall ops, good_history ops ->
  let s := run ops in
  forall b u user up, find_update s b u = Some up -> u_committed up = false ->
  let s' := fst (step s (Commit b u user)) in
  committed s' b u = true ->
  u_njobs up = n_jobs_of s b u /\
  (forall gr', In gr' (groups s') -> g_batch gr' = b ->
     exists gr, In gr (groups s) /\ g_batch gr = b /\ g_id gr = g_id gr' /\
       g_njobs gr' = g_njobs gr + n_sub_upd s b u (g_id gr) /\
       (0 < n_sub_upd s b u (g_id gr) -> g_running gr' = true)) /\
  (forall bt', In bt' (batches s') -> b_id bt' = b ->
     exists bt, In bt (batches s) /\ b_id bt = b /\ b_njobs bt' = b_njobs bt + u_njobs up /\
       (0 < u_njobs up -> b_running bt' = true)).
Proof. exact reach_commit_reopens. Qed.
Print Assumptions C06_update_reopens.

(** Counted once, however often or late completion is reported (from ANY state): a MarkComplete for a job that is
    already terminal, or carrying an attempt id other than the job's current one, changes no job, job-group or batch
    row — hence no tally — and is answered rc 0 with the job's old state, rc 2 (stale), or error 1452 (unknown
    instance of a new attempt). *)
Theorem C06_counted_once : forall s b j a i ns st en r x,
  find_job s b j = Some x ->
  terminal (j_state x) = true \/ (exists e, j_attempt x = Some e /\ a <> -1 /\ e <> a) ->
  let res := step s (MarkComplete b j a i ns st en r) in
  groups (fst res) = groups s /\ batches (fst res) = batches s /\ jobs (fst res) = jobs s /\
  (snd res = sql_error 1452 \/ (exists d, snd res = ok [2; d]) \/ (exists d, snd res = ok [0; d; jcode (j_state x)])).
Proof. exact counted_once. Qed.
Print Assumptions C06_counted_once.

(** The invariant behind the theorems is inductive: preserved by every good step from any state satisfying it (together
    with the dependency invariant), and it holds after every good history. *)
Theorem C06_invariant_step : forall s o, DInv s -> DepsStruct.DAux s -> TInv s -> good s o -> TInv (fst (step s o)).
Proof. exact TInv_step. Qed.
Print Assumptions C06_invariant_step.

Theorem C06_invariant_reachable : forall ops, good_history ops -> TInv (run ops).
Proof. exact TInv_reachable. Qed.
Print Assumptions C06_invariant_reachable.
