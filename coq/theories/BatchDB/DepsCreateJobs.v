(** [DInv] is preserved by create_jobs (the insertion of a bunch of jobs into an uncommitted update). *)
From HailV Require Import Common.Prelude BatchDB.Model BatchDB.Tables BatchDB.CMap BatchDB.JobsWF BatchDB.StepCore
  BatchDB.JobFold BatchDB.Legal BatchDB.DepsDef BatchDB.DepsEasy BatchDB.DepsStruct.
From RecordUpdate Require Import RecordSet.
Import RecordSetNotations.
Open Scope Z_scope.

(* ------------------------------------------------------------------ list facts *)

Lemma existsb_eqb_false x l : existsb (Z.eqb x) l = false <-> ~ In x l.
Proof.
  split.
  - intros E Hin. assert (existsb (Z.eqb x) l = true); [|congruence].
    apply existsb_exists. exists x. split; [exact Hin | apply Z.eqb_refl].
  - intros Hn. destruct (existsb (Z.eqb x) l) eqn:E; [|reflexivity]. exfalso.
    apply existsb_exists in E. destruct E as (y & Hy & E). apply Z.eqb_eq in E. subst. contradiction.
Qed.

Lemma has_dup_false l : has_dup l = false -> NoDup l.
Proof.
  induction l as [|x l IH]; intros H; [constructor|]. cbn [has_dup] in H.
  apply orb_false_iff in H. destruct H as [H1 H2]. constructor; [apply existsb_eqb_false; exact H1 | apply IH; exact H2].
Qed.

Lemma existsb_ext_in {A} (f g : A -> bool) l : (forall a, In a l -> f a = g a) -> existsb f l = existsb g l.
Proof.
  induction l as [|a l IH]; intros H; cbn [existsb]; [reflexivity|].
  rewrite (H a (or_introl eq_refl)), IH; [reflexivity|]. intros x Hx. apply H. right; exact Hx.
Qed.

Lemma filter_ext_in' {A} (f g : A -> bool) l : (forall a, In a l -> f a = g a) -> filter f l = filter g l.
Proof.
  induction l as [|a l IH]; intros H; cbn [filter]; [reflexivity|].
  rewrite (H a (or_introl eq_refl)), IH; [reflexivity|]. intros x Hx. apply H. right; exact Hx.
Qed.

Lemma NoDup_map_injective {A B} (f : A -> B) l : (forall x y, f x = f y -> x = y) -> NoDup l -> NoDup (map f l).
Proof.
  intros Hinj. induction l as [|a l IH]; intros ND; cbn [map]; [constructor|].
  inversion ND as [|? ? Hn ND']; subst. constructor; [|apply IH; exact ND'].
  intros Hin. apply in_map_iff in Hin. destruct Hin as (y & E & Hy). apply Hinj in E. subst. contradiction.
Qed.

(* ------------------------------------------------------------------ the INSERT verdict *)

Lemma insert_verdict_range s b : forall js seen,
  insert_verdict s b js seen = 0 \/ insert_verdict s b js seen = 1 \/ insert_verdict s b js seen = 2 \/ insert_verdict s b js seen = 3.
Proof.
  induction js as [|x r IH]; intros seen; cbn [insert_verdict]; [left; reflexivity|].
  destruct (group_cancelled s b (j_group x)); [right; left; reflexivity|].
  destruct (_ || _); [right; right; left; reflexivity|].
  destruct (find_group s b (j_group x)); [apply IH | right; right; right; reflexivity].
Qed.

Lemma insert_verdict_zero s b : forall js seen,
  insert_verdict s b js seen = 0 ->
  NoDup (map j_id js) /\
  forall x, In x js -> ~ In (j_id x) seen /\ find_job s b (j_id x) = None /\ find_group s b (j_group x) <> None.
Proof.
  induction js as [|x r IH]; intros seen H; cbn [insert_verdict] in H.
  - split; [constructor | intros x []].
  - destruct (group_cancelled s b (j_group x)); [discriminate|].
    destruct (existsb (Z.eqb (j_id x)) seen) eqn:E1; [discriminate|]. cbn [orb] in H.
    destruct (find_job s b (j_id x)) eqn:E2; [discriminate|].
    destruct (find_group s b (j_group x)) eqn:E3; [|discriminate].
    destruct (IH _ H) as (ND & Hall). split.
    + cbn [map]. constructor; [|exact ND]. intros Hin. apply in_map_iff in Hin. destruct Hin as (y & E & Hy).
      destruct (Hall y Hy) as (Hns & _). apply Hns. left. symmetry. exact E.
    + intros y [<-|Hy].
      * split; [apply existsb_eqb_false; exact E1|]. split; [exact E2 | congruence].
      * destruct (Hall y Hy) as (Hns & Hfj & Hfg). split; [|split; assumption].
        intros Hin. apply Hns. right. exact Hin.
Qed.

(* ------------------------------------------------------------------ the new dependency edges *)

Definition ekey (b j : Z) (r : Z * Z * Z) : bool := let '(b', j', _) := r in (b' =? b) && (j' =? j).
Definition ethird (r : Z * Z * Z) : Z := let '(_, _, p) := r in p.

Lemma edges_of_eq s b j : edges_of s b j = filter (ekey b j) (parents s).
Proof. reflexivity. Qed.
Lemma parents_of_eq s b j : parents_of s b j = map ethird (edges_of s b j).
Proof. reflexivity. Qed.

Definition edge_block (b : Z) (jp : job * list Z) : list (Z * Z * Z) := map (fun p => (b, j_id (fst jp), p)) (snd jp).
Definition new_edges (b : Z) (js : list (job * list Z)) : list (Z * Z * Z) := flat_map (edge_block b) js.
Definition jpid (jp : job * list Z) : Z := j_id (fst jp).

Lemma in_edge_block b jp e : In e (edge_block b jp) <-> exists p, In p (snd jp) /\ e = (b, jpid jp, p).
Proof.
  unfold edge_block. rewrite in_map_iff. split; intros (p & H1 & H2); exists p; [split; [exact H2 | symmetry; exact H1] | split; [symmetry; exact H2 | exact H1]].
Qed.

Lemma in_new_edges b js e : In e (new_edges b js) <-> exists jp p, In jp js /\ In p (snd jp) /\ e = (b, jpid jp, p).
Proof.
  unfold new_edges. rewrite in_flat_map. split.
  - intros (jp & Hjp & He). apply in_edge_block in He. destruct He as (p & Hp & E). exists jp, p. auto.
  - intros (jp & p & Hjp & Hp & E). exists jp. split; [exact Hjp|]. apply in_edge_block. exists p. auto.
Qed.

Lemma filter_edge_block b jp b' j' :
  filter (ekey b' j') (edge_block b jp) = if (b =? b') && (jpid jp =? j') then edge_block b jp else [].
Proof.
  destruct ((b =? b') && (jpid jp =? j')) eqn:K.
  - apply filter_all_true. intros e He. apply in_edge_block in He. destruct He as (p & _ & ->). exact K.
  - apply filter_all_false. intros e He. apply in_edge_block in He. destruct He as (p & _ & ->). exact K.
Qed.

Lemma filter_new_edges_none b js b' j' :
  (forall jp, In jp js -> (b =? b') && (jpid jp =? j') = false) -> filter (ekey b' j') (new_edges b js) = [].
Proof.
  intros H. apply filter_all_false. intros e He. apply in_new_edges in He. destruct He as (jp & p & Hjp & _ & ->).
  apply (H jp Hjp).
Qed.

Lemma filter_new_edges_one b js jp :
  NoDup (map jpid js) -> In jp js -> filter (ekey b (jpid jp)) (new_edges b js) = edge_block b jp.
Proof.
  induction js as [|jp0 r IH]; intros ND Hin; [contradiction|].
  cbn [map] in ND. inversion ND as [|? ? Hn ND']; subst.
  unfold new_edges. cbn [flat_map]. rewrite filter_app, filter_edge_block. fold (new_edges b r).
  destruct Hin as [->|Hin].
  - rewrite !Z.eqb_refl. cbn [andb]. rewrite filter_new_edges_none; [apply app_nil_r|].
    intros jp' Hjp'. rewrite Z.eqb_refl. cbn [andb]. apply Z.eqb_neq. intros E. apply Hn. rewrite <- E. apply in_map. exact Hjp'.
  - replace (jpid jp0 =? jpid jp) with false.
    + rewrite andb_false_r. cbn [app]. apply IH; assumption.
    + symmetry. apply Z.eqb_neq. intros E. apply Hn. rewrite E. apply in_map. exact Hin.
Qed.

Lemma NoDup_new_edges b js :
  NoDup (map jpid js) -> (forall jp, In jp js -> NoDup (snd jp)) -> NoDup (new_edges b js).
Proof.
  induction js as [|jp0 r IH]; intros ND Hps; [constructor|].
  cbn [map] in ND. inversion ND as [|? ? Hn ND']; subst.
  unfold new_edges. cbn [flat_map]. fold (new_edges b r). apply NoDup_app_intro.
  - unfold edge_block. apply NoDup_map_injective; [|apply Hps; left; reflexivity]. intros x y E. congruence.
  - apply IH; [exact ND'|]. intros jp Hjp. apply Hps. right; exact Hjp.
  - intros e H1 H2. apply in_edge_block in H1. destruct H1 as (p & _ & ->).
    apply in_new_edges in H2. destruct H2 as (jp & p' & Hjp & _ & E). injection E as E1 E2.
    apply Hn. rewrite E1. apply in_map. exact Hjp.
Qed.

(* ------------------------------------------------------------------ appending a bunch of fresh jobs *)

(** what the front end's validation and the INSERT checks establish about a new row and its parents *)
Record newjob_ok (s : state) (b u : Z) (up : update) (jp : job * list Z) : Prop := {
  nj_batch : j_batch (fst jp) = b;
  nj_update : j_update (fst jp) = u;
  nj_fresh : find_job s b (jpid jp) = None;
  nj_range : u_start_job up <= jpid jp < u_start_job up + u_njobs up;
  nj_attempt : j_attempt (fst jp) = None;
  nj_npp : j_npp (fst jp) = Z.of_nat (length (snd jp));
  nj_state : j_state (fst jp) = if (u =? 1) && is_nil (snd jp) then Ready else Pending;
  nj_nodup : NoDup (snd jp);
  nj_parents : forall p, In p (snd jp) ->
      1 <= p < jpid jp /\ (p < u_start_job up -> exists y, find_job s b p = Some y /\ jcommitted s y = true) }.

Definition upd_count (b u : Z) (l : list job) : Z :=
  Z.of_nat (length (filter (fun x => (j_batch x =? b) && (j_update x =? u)) l)).

Lemma JInv_add_jobs s b u up js stg :
  JInv s -> find_update s b u = Some up -> u_committed up = false ->
  NoDup (map jpid js) -> (forall jp, In jp js -> newjob_ok s b u up jp) ->
  (forall b' u', cval (fun k => key_eqb (firstn 3 k) [b'; u'; 0]) 0 stg = root_staged s b' u' + upd_count b' u' (map fst js)) ->
  JInv (s <| jobs ::= fun l => l ++ map fst js |> <| parents ::= fun l => l ++ new_edges b js |> <| staging := stg |>).
Proof.
  intros J Fu Hunc NDid Hnj Hstg. pose proof J as [J1 J2 J3 J4 J5 J6 J7 J8 J9 J10].
  set (s2 := s <| jobs ::= fun l => l ++ map fst js |> <| parents ::= fun l => l ++ new_edges b js |> <| staging := stg |>).
  assert (Ej : jobs s2 = jobs s ++ map fst js) by reflexivity.
  assert (Ep : parents s2 = parents s ++ new_edges b js) by reflexivity.
  assert (K2 : Kjobs s2).
  { unfold Kjobs, Kjobs_list. rewrite Ej, map_app. apply NoDup_app_intro; [exact J1 | |].
    - rewrite map_map. rewrite (map_ext_in _ (fun jp => (b, jpid jp))).
      + rewrite <- (map_map jpid (fun i => (b, i))). apply NoDup_map_injective; [|exact NDid]. intros x y E. congruence.
      + intros jp Hjp. unfold jk, jpid. rewrite (nj_batch _ _ _ _ _ (Hnj jp Hjp)). reflexivity.
    - intros k H1 H2. rewrite map_map in H2. apply in_map_iff in H2. destruct H2 as (jp & E & Hjp).
      pose proof (nj_fresh _ _ _ _ _ (Hnj jp Hjp)) as Fr. rewrite find_job_eq in Fr. apply find_jkey_none in Fr. apply Fr.
      rewrite <- E in H1. unfold jk in H1. rewrite (nj_batch _ _ _ _ _ (Hnj jp Hjp)) in H1. exact H1. }
  assert (Hfa : forall b' j y, find_job s b' j = Some y -> find_job s2 b' j = Some y).
  { intros b' j y F. rewrite find_job_eq in *. rewrite Ej, find_jkey_app, F. reflexivity. }
  assert (Hfn : forall jp, In jp js -> find_job s2 b (jpid jp) = Some (fst jp)).
  { intros jp Hjp. rewrite find_job_eq. rewrite <- (nj_batch _ _ _ _ _ (Hnj jp Hjp)). apply find_jkey_in; [exact K2|].
    rewrite Ej. apply in_or_app. right. apply in_map. exact Hjp. }
  assert (Hold_edges : forall x, In x (jobs s) -> edges_of s2 (j_batch x) (j_id x) = edges_of s (j_batch x) (j_id x)).
  { intros x Hx. rewrite !edges_of_eq, Ep, filter_app, filter_new_edges_none; [apply app_nil_r|].
    intros jp Hjp. destruct ((b =? j_batch x) && (jpid jp =? j_id x)) eqn:K; [|reflexivity]. exfalso.
    apply andb_true_iff in K. destruct K as [K1 K2']. pose proof (nj_fresh _ _ _ _ _ (Hnj jp Hjp)) as Fr.
    pose proof (find_jkey_in _ x J1 Hx) as Fx. rewrite find_job_eq in Fr.
    replace b with (j_batch x) in Fr by lia. replace (jpid jp) with (j_id x) in Fr by lia. congruence. }
  assert (Hold_par : forall x, In x (jobs s) -> parents_of s2 (j_batch x) (j_id x) = parents_of s (j_batch x) (j_id x)).
  { intros x Hx. rewrite !parents_of_eq, Hold_edges; auto. }
  assert (Hnew_par : forall jp, In jp js -> parents_of s2 b (jpid jp) = snd jp).
  { intros jp Hjp. rewrite parents_of_eq, edges_of_eq, Ep, filter_app.
    rewrite (filter_all_false _ (parents s)).
    - cbn [app]. rewrite filter_new_edges_one by assumption. unfold edge_block. rewrite map_map. cbn [ethird]. apply map_id.
    - intros [[b' j'] p] He. destruct (ekey b (jpid jp) (b', j', p)) eqn:K; [|reflexivity]. exfalso.
      cbn in K. apply andb_true_iff in K. destruct K as [K1 K2']. specialize (J6 _ He). cbn in J6.
      destruct J6 as (_ & x & up' & F1 & _). pose proof (nj_fresh _ _ _ _ _ (Hnj jp Hjp)) as Fr.
      replace b' with b in F1 by lia. replace j' with (jpid jp) in F1 by lia. congruence. }
  constructor.
  - exact K2.
  - exact J2.
  - exact J3.
  - exact J4.
  - rewrite Ej. intros x Hx. apply in_app_or in Hx. destruct Hx as [Hx|Hx]; [apply (J5 x Hx)|].
    apply in_map_iff in Hx. destruct Hx as (jp & <- & Hjp). destruct (Hnj jp Hjp) as [N1 N2 N3 N4 N5 N6 N7 N8 N9].
    exists up. rewrite N1, N2. split; [exact Fu | exact N4].
  - rewrite Ep. intros e He. apply in_app_or in He. destruct He as [He|He].
    + destruct e as [[b' j] p]. specialize (J6 _ He). cbn in *.
      destruct J6 as (R & x & up' & F1 & F2 & F3). split; [exact R|]. exists x, up'.
      split; [apply Hfa; exact F1|]. split; [exact F2|].
      intros Hp. destruct (F3 Hp) as (y & Fy & Cy). exists y. split; [apply Hfa; exact Fy | exact Cy].
    + apply in_new_edges in He. destruct He as (jp & p & Hjp & Hp & ->).
      destruct (Hnj jp Hjp) as [N1 N2 N3 N4 N5 N6 N7 N8 N9]. destruct (N9 p Hp) as (R & Hy).
      cbn. split; [exact R|]. exists (fst jp), up. split; [apply Hfn; exact Hjp|]. rewrite N2. split; [exact Fu|].
      intros Hlt. destruct (Hy Hlt) as (y & Fy & Cy). exists y. split; [apply Hfa; exact Fy | exact Cy].
  - rewrite Ep. apply NoDup_app_intro; [exact J7 | |].
    + apply NoDup_new_edges; [exact NDid|]. intros jp Hjp. apply (nj_nodup _ _ _ _ _ (Hnj jp Hjp)).
    + intros e H1 H2. apply in_new_edges in H2. destruct H2 as (jp & p & Hjp & Hp & ->).
      specialize (J6 _ H1). cbn in J6. destruct J6 as (_ & x & up' & F1 & _).
      pose proof (nj_fresh _ _ _ _ _ (Hnj jp Hjp)) as Fr. congruence.
  - rewrite Ej. intros x Hx. apply in_app_or in Hx. destruct Hx as [Hx|Hx].
    + pose proof (J8 x Hx) as Hok. unfold job_ok in *. change (jcommitted s2 x) with (jcommitted s x).
      unfold npp_spec in *. rewrite (Hold_par x Hx).
      destruct (jcommitted s x); [|exact Hok]. destruct Hok as (A & B & C & D).
      assert (Hps : forall p, In p (parents_of s (j_batch x) (j_id x)) -> pstate s2 (j_batch x) p = pstate s (j_batch x) p).
      { intros p Hp. destruct (C p Hp) as (y & Fy & _). unfold pstate. rewrite (Hfa _ _ _ Fy), Fy. reflexivity. }
      split; [|split; [exact B|split]].
      * rewrite A. f_equal. f_equal. apply filter_ext_in'. intros p Hp. rewrite (Hps p Hp). reflexivity.
      * intros p Hp. destruct (C p Hp) as (y & Fy & Cy). exists y. split; [apply Hfa; exact Fy | exact Cy].
      * intros E. apply D. rewrite <- E. apply existsb_ext_in. intros p Hp. rewrite (Hps p Hp). reflexivity.
    + apply in_map_iff in Hx. destruct Hx as (jp & <- & Hjp). destruct (Hnj jp Hjp) as [N1 N2 N3 N4 N5 N6 N7 N8 N9].
      unfold job_ok. unfold jcommitted. rewrite N1, N2.
      change (committed s2 b u) with (committed s b u). unfold committed. rewrite Fu, Hunc.
      split; [exact N5|]. fold (jpid jp). rewrite (Hnew_par jp Hjp), N6, N7.
      destruct (u =? 1); cbn [andb]; [split; reflexivity | reflexivity].
  - intros uu Huu Hcu. unfold root_staged. change (staging s2) with stg. rewrite Hstg, (J9 uu Huu Hcu).
    unfold n_jobs_of, upd_count. rewrite Ej, filter_app, app_length, Nat2Z.inj_add. reflexivity.
  - exact J10.
Qed.

(* ------------------------------------------------------------------ staging rows of the inserted jobs *)

Lemma stage_job_staging st x :
  staging (stage_job st x) =
  fold_left (fun m a => cadd [j_batch x; j_update x; a; j_ic x]
                             [1; ind (jstate_eqb (j_state x) Ready); ind (jstate_eqb (j_state x) Ready) * j_cores x] m)
            (anc_ids st (j_batch x) (j_group x)) (staging st).
Proof. reflexivity. Qed.

Definition stage_frame (s s' : state) : Prop :=
  jobs s' = jobs s /\ parents s' = parents s /\ updates s' = updates s /\ groups s' = groups s /\
  ancestors s' = ancestors s /\ batches s' = batches s /\ next_batch s' = next_batch s.

Lemma stage_job_frame st x : stage_frame st (stage_job st x).
Proof. repeat split. Qed.

Lemma fold_stage_job_frame l : forall st, stage_frame st (fold_left stage_job l st).
Proof.
  induction l as [|x l IH]; intros st; cbn [fold_left]; [repeat split|].
  specialize (IH (stage_job st x)). destruct IH as (I1&I2&I3&I4&I5&I6&I7). repeat split; assumption.
Qed.

Lemma root_staged_stage_job st x b' u' :
  root_staged (stage_job st x) b' u' =
  root_staged st b' u' +
  (if (j_batch x =? b') && (j_update x =? u')
   then Z.of_nat (length (filter (Z.eqb 0) (anc_ids st (j_batch x) (j_group x)))) else 0).
Proof.
  unfold root_staged. rewrite stage_job_staging.
  pose proof (cval_fold_cadd (fun k => key_eqb (firstn 3 k) [b'; u'; 0]) 0 (fun a => [j_batch x; j_update x; a; j_ic x])
                [1; ind (jstate_eqb (j_state x) Ready); ind (jstate_eqb (j_state x) Ready) * j_cores x]
                (anc_ids st (j_batch x) (j_group x)) (staging st)) as H.
  cbv beta in H. rewrite H. clear H. cbn [nth firstn key_eqb]. f_equal. rewrite Z.mul_1_l.
  destruct ((j_batch x =? b') && (j_update x =? u')) eqn:K.
  - f_equal. f_equal. apply filter_ext. intros a.
    apply andb_true_iff in K. destruct K as [K1 K2]. rewrite K1, K2. cbn [andb]. rewrite andb_true_r. apply Z.eqb_sym.
  - rewrite filter_all_false; [reflexivity|]. intros a _.
    apply andb_false_iff in K. destruct K as [K|K]; rewrite K; cbn [andb]; [reflexivity | apply andb_false_r].
Qed.

Lemma root_staged_fold_stage l : forall st b' u',
  (forall x, In x l -> length (filter (Z.eqb 0) (anc_ids st (j_batch x) (j_group x))) = 1%nat) ->
  root_staged (fold_left stage_job l st) b' u' = root_staged st b' u' + upd_count b' u' l.
Proof.
  induction l as [|x l IH]; intros st b' u' H; cbn [fold_left].
  - unfold upd_count. cbn. lia.
  - rewrite IH.
    + rewrite root_staged_stage_job, (H x (or_introl eq_refl)). unfold upd_count. cbn [filter].
      destruct ((j_batch x =? b') && (j_update x =? u')); cbn [length]; lia.
    + intros y Hy. change (anc_ids (stage_job st x) (j_batch y) (j_group y)) with (anc_ids st (j_batch y) (j_group y)).
      apply H. right; exact Hy.
Qed.

(* ------------------------------------------------------------------ what the validation gives *)

Lemma newjob_ok_of_spec s b u up sg x :
  1 <= u_start_job up ->
  spec_ok s b up x = true ->
  find_job s b (js_id x + u_start_job up - 1) = None ->
  has_dup (snd (job_of_spec b u (u_start_job up) sg x)) = false ->
  newjob_ok s b u up (job_of_spec b u (u_start_job up) sg x).
Proof.
  intros Hsj Hspec Hfresh Hdup. unfold spec_ok in Hspec. cbv zeta in Hspec.
  apply andb_true_iff in Hspec. destruct Hspec as [Hspec Habs].
  apply andb_true_iff in Hspec. destruct Hspec as [Hspec Hrel].
  apply andb_true_iff in Hspec. destruct Hspec as [Hlo Hhi].
  unfold job_of_spec in *. cbv zeta in *. cbn [fst snd] in *.
  set (ps := js_parents_abs x ++ map (fun p => u_start_job up + p - 1) (js_parents_rel x)) in *.
  constructor; unfold jpid; cbn [fst snd j_batch j_id j_update j_attempt j_npp j_state]; try reflexivity.
  - exact Hfresh.
  - lia.
  - apply has_dup_false. exact Hdup.
  - intros p Hp. unfold ps in Hp. apply in_app_or in Hp. destruct Hp as [Hp|Hp].
    + rewrite forallb_forall in Habs. specialize (Habs p Hp).
      apply andb_true_iff in Habs. destruct Habs as [Habs Hex].
      apply andb_true_iff in Habs. destruct Habs as [H1 H2].
      split; [lia|]. intros Hlt. destruct (u_start_job up <=? p) eqn:E; [lia|]. cbn [orb] in Hex.
      destruct (find_job s b p) as [y|] eqn:Fy; [|discriminate]. exists y. split; [reflexivity|].
      unfold jcommitted, committed. destruct (find_job_static_key _ _ _ _ Fy) as [-> _].
      destruct (find_update s b (j_update y)) as [uy|]; [exact Hex | discriminate].
    + apply in_map_iff in Hp. destruct Hp as (q & <- & Hq).
      rewrite forallb_forall in Hrel. specialize (Hrel q Hq).
      apply andb_true_iff in Hrel. destruct Hrel as [H1 H2]. split; [lia|]. intros Hlt. lia.
Qed.

Lemma do_create_jobs_cases s b u user jss :
  fst (do_create_jobs s b u user jss) = s \/
  exists up, find_update s b u = Some up /\ u_committed up = false /\
    forallb (spec_ok s b up) jss = true /\
    insert_verdict s b (map fst (map (job_of_spec b u (u_start_job up) (u_start_group up)) jss)) [] = 0 /\
    existsb (fun jp => has_dup (snd jp)) (map (job_of_spec b u (u_start_job up) (u_start_group up)) jss) = false /\
    fst (do_create_jobs s b u user jss) =
      fold_left stage_job (map fst (map (job_of_spec b u (u_start_job up) (u_start_group up)) jss))
        (s <| jobs ::= fun l => l ++ map fst (map (job_of_spec b u (u_start_job up) (u_start_group up)) jss) |>
           <| parents ::= fun l => l ++ new_edges b (map (job_of_spec b u (u_start_job up) (u_start_group up)) jss) |>).
Proof.
  unfold do_create_jobs. destruct (is_nil jss); [left; reflexivity|].
  destruct (find_update s b u) as [up|]; [|left; reflexivity].
  destruct (find_batch s b) as [bt|]; [|left; reflexivity].
  destruct (_ || _); [left; reflexivity|]. destruct (u_committed up) eqn:Hc; [left; reflexivity|].
  cbv zeta. destruct jss as [|j0 r]; [left; reflexivity|].
  destruct (negb (contiguous _)); [left; reflexivity|].
  destruct (forallb (spec_ok s b up) (j0 :: r)) eqn:Hs; cbn [negb]; [|left; reflexivity].
  set (js := map (job_of_spec b u (u_start_job up) (u_start_group up)) (j0 :: r)).
  destruct (insert_verdict_range s b (map fst js) []) as [E|[E|[E|E]]]; rewrite E; cbv iota; try (left; reflexivity).
  destruct (existsb (fun jp => has_dup (snd jp)) js) eqn:Hd; [left; reflexivity|].
  right. exists up. repeat split; try assumption; reflexivity.
Qed.

(* ------------------------------------------------------------------ create_jobs *)

Section CreateJobs.
  Variables (s : state) (b u : Z) (up : update) (jss : list jspec).
  Hypothesis D : DInv s.
  Hypothesis Fu : find_update s b u = Some up.
  Hypothesis Hunc : u_committed up = false.
  Hypothesis Hspec : forallb (spec_ok s b up) jss = true.
  Let js := map (job_of_spec b u (u_start_job up) (u_start_group up)) jss.
  Hypothesis Hverdict : insert_verdict s b (map fst js) [] = 0.
  Hypothesis Hdup : existsb (fun jp => has_dup (snd jp)) js = false.
  Let s1 := s <| jobs ::= fun l => l ++ map fst js |> <| parents ::= fun l => l ++ new_edges b js |>.
  Let s' := fold_left stage_job (map fst js) s1.

  Lemma cj_batch jp : In jp js -> j_batch (fst jp) = b.
  Proof. intros H. apply in_map_iff in H. destruct H as (x & <- & _). reflexivity. Qed.

  Lemma cj_update jp : In jp js -> j_update (fst jp) = u.
  Proof. intros H. apply in_map_iff in H. destruct H as (x & <- & _). reflexivity. Qed.

  Lemma cj_nodup : NoDup (map jpid js).
  Proof.
    destruct (insert_verdict_zero _ _ _ _ Hverdict) as (ND & _). rewrite map_map in ND. exact ND.
  Qed.

  Lemma cj_newjob jp : In jp js -> newjob_ok s b u up jp.
  Proof.
    intros Hjp. destruct (insert_verdict_zero _ _ _ _ Hverdict) as (_ & Hall).
    destruct (Hall (fst jp) (in_map fst _ _ Hjp)) as (_ & Hfresh & _).
    assert (Hd : has_dup (snd jp) = false).
    { destruct (has_dup (snd jp)) eqn:E; [|reflexivity].
      assert (Ht : existsb (fun jp => has_dup (snd jp)) js = true) by (apply existsb_exists; exists jp; split; assumption).
      rewrite Hdup in Ht. discriminate Ht. }
    unfold js in Hjp. apply in_map_iff in Hjp. destruct Hjp as (x & <- & Hx).
    apply find_update_sound in Fu. destruct Fu as (Hup & _).
    apply DInv_split in D. destruct D as (J & _ & _).
    apply newjob_ok_of_spec; auto.
    - apply (ju_upos _ J up Hup).
    - rewrite forallb_forall in Hspec. apply Hspec. exact Hx.
  Qed.

  Lemma cj_group jp : In jp js -> find_group s b (j_group (fst jp)) <> None.
  Proof.
    intros Hjp. destruct (insert_verdict_zero _ _ _ _ Hverdict) as (_ & Hall).
    destruct (Hall (fst jp) (in_map fst _ _ Hjp)) as (_ & _ & Hg). exact Hg.
  Qed.

  Lemma cj_frame : stage_frame s1 s'.
  Proof. apply fold_stage_job_frame. Qed.

  Lemma cj_staged b' u' : root_staged s' b' u' = root_staged s b' u' + upd_count b' u' (map fst js).
  Proof.
    unfold s'. rewrite root_staged_fold_stage; [reflexivity|].
    intros x Hx. apply in_map_iff in Hx. destruct Hx as (jp & <- & Hjp).
    change (anc_ids s1 (j_batch (fst jp)) (j_group (fst jp))) with (anc_ids s (j_batch (fst jp)) (j_group (fst jp))).
    rewrite (cj_batch jp Hjp). pose proof (cj_group jp Hjp) as Hg.
    destruct (find_group s b (j_group (fst jp))) as [gg|] eqn:Fg; [|congruence].
    apply find_group_sound in Fg. destruct Fg as (Hin & Eb & Eg).
    pose proof (d_root _ D gg Hin) as R. unfold root_once in R. rewrite Eb, Eg in R. exact R.
  Qed.

  Lemma cj_DInv : DInv s'.
  Proof.
    pose proof D as D0. apply DInv_split in D0. destruct D0 as (J & G & X).
    destruct cj_frame as (E1 & E2 & E3 & E4 & E5 & E6 & E7).
    apply DInv_split. split; [|split].
    - apply (JInv_ext (s <| jobs ::= fun l => l ++ map fst js |> <| parents ::= fun l => l ++ new_edges b js |> <| staging := staging s' |>));
        try assumption; try reflexivity.
      apply (JInv_add_jobs s b u up js); auto.
      + apply cj_nodup.
      + apply cj_newjob.
      + intros b' u'. apply cj_staged.
    - apply (GInv_ext s); assumption.
    - destruct X as [X1 X2 X3]. constructor.
      + rewrite E1. intros x Hx. unfold find_group. rewrite E4. apply in_app_or in Hx. destruct Hx as [Hx|Hx]; [apply (X1 x Hx)|].
        apply in_map_iff in Hx. destruct Hx as (jp & <- & Hjp). rewrite (cj_batch jp Hjp). apply (cj_group jp Hjp).
      + rewrite E6, E7. exact X2.
      + rewrite E4. intros g Hg. unfold find_batch. rewrite E6. apply (X3 g Hg).
  Qed.

  Lemma cj_DAux : DAux s -> DAux s'.
  Proof.
    intros [A1 A2]. destruct cj_frame as (E1 & E2 & E3 & E4 & E5 & E6 & E7). constructor.
    - rewrite E3. exact A1.
    - intros b' u' F. unfold find_update in F. rewrite E3 in F. rewrite cj_staged, (A2 b' u' F).
      unfold upd_count. rewrite filter_all_false; [reflexivity|].
      intros x Hx. apply in_map_iff in Hx. destruct Hx as (jp & <- & Hjp).
      rewrite (cj_batch jp Hjp), (cj_update jp Hjp).
      destruct ((b =? b') && (u =? u')) eqn:K; [|reflexivity]. exfalso.
      apply andb_true_iff in K. destruct K as [K1 K2]. unfold find_update in Fu.
      replace b' with b in F by lia. replace u' with u in F by lia.
      change (updates s1) with (updates s) in F. congruence.
  Qed.
End CreateJobs.

Theorem DInv_create_jobs s b u user jss : DInv s -> DInv (fst (do_create_jobs s b u user jss)).
Proof.
  intros D. destruct (do_create_jobs_cases s b u user jss) as [->|(up & Fu & Hunc & Hspec & Hv & Hd & ->)]; [exact D|].
  apply (cj_DInv s b u up jss); assumption.
Qed.

Theorem DAux_create_jobs s b u user jss : DInv s -> DAux s -> DAux (fst (do_create_jobs s b u user jss)).
Proof.
  intros D A. destruct (do_create_jobs_cases s b u user jss) as [->|(up & Fu & Hunc & Hspec & Hv & Hd & ->)]; [exact A|].
  apply (cj_DAux s b u up jss); assumption.
Qed.
