(** Commit of a batch update: transfer of [DInv] when the update's committed flag is set and the jobs of the
    update are recomputed from their parents. *)
From HailV Require Import Common.Prelude BatchDB.Model BatchDB.Tables BatchDB.CMap BatchDB.JobsWF BatchDB.StepCore
  BatchDB.JobFold BatchDB.Legal BatchDB.DepsDef BatchDB.DepsEasy BatchDB.DepsMap BatchDB.DepsCommit1.
From RecordUpdate Require Import RecordSet.
Import RecordSetNotations.
Open Scope Z_scope.

Definition commit_fl (b u : Z) (x : update) : update :=
  if (u_batch x =? b) && (u_id x =? u) then x <| u_committed := true |> else x.

Lemma commit_fl_fields b u x :
  u_batch (commit_fl b u x) = u_batch x /\ u_id (commit_fl b u x) = u_id x /\ u_start_job (commit_fl b u x) = u_start_job x /\
  u_njobs (commit_fl b u x) = u_njobs x /\ (u_committed x = true -> u_committed (commit_fl b u x) = true) /\
  (u_committed (commit_fl b u x) = false -> u_committed x = false /\ commit_fl b u x = x).
Proof.
  unfold commit_fl. destruct ((u_batch x =? b) && (u_id x =? u)); destruct x; cbn; repeat split; auto; discriminate.
Qed.

Section CommitMap.
  Variables (s s' : state) (h : job -> job) (b u : Z) (up : update).
  Hypothesis Hjobs : jobs s' = map h (jobs s).
  Hypothesis Hstatic : forall y, In y (jobs s) -> static y (h y).
  Hypothesis Hupd : updates s' = map (commit_fl b u) (updates s).
  Hypothesis Hpar : parents s' = parents s.
  Hypothesis Hstg : staging s' = staging s.
  Hypothesis Hanc : ancestors s' = ancestors s.
  Hypothesis Hnb : next_batch s' = next_batch s.
  Hypothesis Hgk : map gk (groups s') = map gk (groups s).
  Hypothesis Hbk : map b_id (batches s') = map b_id (batches s).
  Hypothesis D : DInv s.
  Hypothesis Fup : find_update s b u = Some up.

  Lemma cm_find_job b' p : find_job s' b' p = option_map h (find_job s b' p).
  Proof.
    rewrite !find_job_eq, Hjobs.
    assert (H : forall l, (forall y, In y l -> In y (jobs s)) -> find (jkey b' p) (map h l) = option_map h (find (jkey b' p) l)).
    { induction l as [|y l IH]; intros Hin; [reflexivity|]. cbn [map find].
      rewrite <- (jkey_static b' p y (h y) (Hstatic y (Hin y (or_introl eq_refl)))).
      destruct (jkey b' p y); [reflexivity|]. apply IH. intros z Hz. apply Hin. right; exact Hz. }
    apply H. auto.
  Qed.

  Lemma cm_find_update b' u' : find_update s' b' u' = option_map (commit_fl b u) (find_update s b' u').
  Proof.
    unfold find_update. rewrite Hupd. generalize (updates s). intros l. induction l as [|x l IH]; [reflexivity|]. cbn [map find].
    destruct (commit_fl_fields b u x) as (E1 & E2 & _). rewrite E1, E2.
    destruct ((u_batch x =? b') && (u_id x =? u')); [reflexivity | exact IH].
  Qed.

  Lemma cm_committed b' u' : committed s' b' u' = committed s b' u' || ((b' =? b) && (u' =? u)).
  Proof.
    unfold committed. rewrite cm_find_update.
    destruct (find_update s b' u') as [x|] eqn:F; cbn.
    - apply find_update_in in F. destruct F as (_ & E1 & E2). unfold commit_fl. rewrite E1, E2.
      destruct ((b' =? b) && (u' =? u)); [destruct x; cbn; rewrite orb_true_r; reflexivity | rewrite orb_false_r; reflexivity].
    - destruct ((b' =? b) && (u' =? u)) eqn:E; [|reflexivity].
      exfalso. apply andb_true_iff in E. destruct E. assert (b' = b) by lia. assert (u' = u) by lia. subst. congruence.
  Qed.

  Lemma cm_jcommitted y : In y (jobs s) -> jcommitted s' (h y) = jcommitted s y || in_update b u y.
  Proof.
    intros Hy. destruct (Hstatic y Hy) as (S1 & _ & S3 & _). unfold jcommitted, in_update. rewrite cm_committed, <- S1, <- S3. reflexivity.
  Qed.

  Lemma cm_parents_of b' c : parents_of s' b' c = parents_of s b' c.
  Proof. unfold parents_of, edges_of. rewrite Hpar. reflexivity. Qed.

  Lemma cm_find_group_none b' g : find_group s' b' g = None <-> find_group s b' g = None.
  Proof. rewrite !find_group_none, Hgk. tauto. Qed.
  Lemma cm_find_batch_none b' : find_batch s' b' = None <-> find_batch s b' = None.
  Proof. rewrite !find_batch_none, Hbk. tauto. Qed.

  Hypothesis Hok : forall y, In y (jobs s) -> job_ok s' (h y).

  Lemma commit_DInv : DInv s'.
  Proof.
    pose proof D as [d_jkeys0 d_ukeys0 d_upos0 d_uorder0 d_jrange0 d_edges0 d_enodup0 d_jobs0 d_staged0 d_root0 d_gcontig0 d_gkeys0 d_jgroup0
                     d_bfresh0 d_gbatch0 d_ancgrp0 d_ufirst0].
    assert (Hin : forall x', In x' (updates s') -> exists x, In x (updates s) /\ x' = commit_fl b u x).
    { intros x' Hx'. rewrite Hupd in Hx'. apply in_map_iff in Hx'. destruct Hx' as (x & <- & Hx). exists x. auto. }
    constructor.
    - unfold Kjobs, Kjobs_list. rewrite Hjobs, map_map.
      replace (map (fun x => jk (h x)) (jobs s)) with (map jk (jobs s)); [exact d_jkeys0|].
      apply map_ext_in. intros y Hy. destruct (Hstatic y Hy) as (S1 & S2 & _). unfold jk. congruence.
    - rewrite Hupd, map_map. replace (map (fun x => uk (commit_fl b u x)) (updates s)) with (map uk (updates s)); [exact d_ukeys0|].
      apply map_ext. intros x. destruct (commit_fl_fields b u x) as (E1 & E2 & _). unfold uk. congruence.
    - intros x' Hx'. destruct (Hin x' Hx') as (x & Hx & ->). destruct (commit_fl_fields b u x) as (E1 & E2 & E3 & E4 & _).
      rewrite E2, E3, E4. apply d_upos0. exact Hx.
    - intros x' y' Hx' Hy'. destruct (Hin x' Hx') as (x & Hx & ->). destruct (Hin y' Hy') as (y & Hy & ->).
      destruct (commit_fl_fields b u x) as (E1 & E2 & E3 & E4 & _). destruct (commit_fl_fields b u y) as (G1 & G2 & G3 & G4 & _).
      rewrite E1, E2, E3, E4, G1, G2, G3. apply d_uorder0; assumption.
    - rewrite Hjobs. intros x Hx. apply in_map_iff in Hx. destruct Hx as (y & <- & Hy).
      destruct (d_jrange0 y Hy) as (uy & F & R). destruct (Hstatic y Hy) as (S1 & S2 & S3 & _).
      exists (commit_fl b u uy). rewrite cm_find_update, <- S1, <- S2, <- S3, F. split; [reflexivity|].
      destruct (commit_fl_fields b u uy) as (_ & _ & E3 & E4 & _). rewrite E3, E4. exact R.
    - rewrite Hpar. intros [[b' j'] p] He. specialize (d_edges0 _ He). cbn in *.
      destruct d_edges0 as (R & x & ux & F1 & F2 & F3). split; [exact R|].
      pose proof (find_jkey_sound _ _ _ _ F1) as (Hx & _). destruct (Hstatic x Hx) as (S1 & S2 & S3 & _).
      exists (h x), (commit_fl b u ux). rewrite cm_find_job, F1, cm_find_update, <- S3, F2. repeat split.
      destruct (commit_fl_fields b u ux) as (_ & _ & E3 & _). rewrite E3.
      intros Hp. destruct (F3 Hp) as (y & Fy & Cy). exists (h y). rewrite cm_find_job, Fy. split; [reflexivity|].
      apply find_jkey_sound in Fy. destruct Fy as (Hy & _). rewrite (cm_jcommitted y Hy), Cy. reflexivity.
    - rewrite Hpar. assumption.
    - rewrite Hjobs. intros x Hx. apply in_map_iff in Hx. destruct Hx as (y & <- & Hy). apply Hok. exact Hy.
    - intros x' Hx' Hc. destruct (Hin x' Hx') as (x & Hx & ->).
      destruct (commit_fl_fields b u x) as (E1 & E2 & _ & _ & _ & E6). destruct (E6 Hc) as (Hcx & Eq). rewrite Eq.
      specialize (d_staged0 x Hx Hcx). unfold root_staged, n_jobs_of in *. rewrite Hstg, Hjobs. rewrite d_staged0. f_equal.
      symmetry. apply length_filter_map_upd. intros y Hy. destruct (Hstatic y Hy) as (S1 & _ & S3 & _). auto.
    - intros g Hg. assert (Hi : In (gk g) (map gk (groups s))) by (rewrite <- Hgk; apply in_map; exact Hg).
      apply in_map_iff in Hi. destruct Hi as (g0 & Hk & Hg0). specialize (d_root0 g0 Hg0).
      unfold root_once, anc_ids, anc_rows in *. rewrite Hanc. unfold gk in Hk. injection Hk as K1 K2. rewrite <- K1, <- K2. exact d_root0.
    - intros g Hg g' R. assert (Hi : In (gk g) (map gk (groups s))) by (rewrite <- Hgk; apply in_map; exact Hg).
      apply in_map_iff in Hi. destruct Hi as (g0 & Hk & Hg0). unfold gk in Hk. injection Hk as K1 K2.
      rewrite cm_find_group_none. rewrite <- K1. apply (d_gcontig0 g0 Hg0). lia.
    - change (map (fun g => (g_batch g, g_id g)) (groups s')) with (map gk (groups s')). rewrite Hgk. exact d_gkeys0.
    - rewrite Hjobs. intros x Hx. apply in_map_iff in Hx. destruct Hx as (y & <- & Hy).
      destruct (Hstatic y Hy) as (S1 & _ & _ & S4 & _). rewrite cm_find_group_none, <- S1, <- S4. apply (d_jgroup0 y Hy).
    - rewrite Hnb. intros bt Hbt. assert (Hi : In (b_id bt) (map b_id (batches s))) by (rewrite <- Hbk; apply in_map; exact Hbt).
      apply in_map_iff in Hi. destruct Hi as (b0 & E & Hb0). rewrite <- E. apply d_bfresh0. exact Hb0.
    - intros g Hg. assert (Hi : In (gk g) (map gk (groups s))) by (rewrite <- Hgk; apply in_map; exact Hg).
      apply in_map_iff in Hi. destruct Hi as (g0 & Hk & Hg0). unfold gk in Hk. injection Hk as K1 K2.
      rewrite cm_find_batch_none, <- K1. apply (d_gbatch0 g0 Hg0).
    - rewrite Hanc. intros r Hr. rewrite cm_find_group_none. apply (d_ancgrp0 r Hr).
    - intros x' Hx' E. destruct (Hin x' Hx') as (x & Hx & ->). destruct (commit_fl_fields b u x) as (_ & E2 & E3 & _).
      rewrite E3. apply d_ufirst0; [exact Hx | congruence].
  Qed.
End CommitMap.
