(** [TInv] is preserved by the ops that do not create rows and do not finish jobs: driver moves among
    Ready/Creating/Running, instance deactivation, cancellation, deletion, instance and billing bookkeeping. *)
From HailV Require Import Common.Prelude BatchDB.Model BatchDB.Tables BatchDB.CMap BatchDB.JobsWF BatchDB.StepCore
  BatchDB.JobFold BatchDB.Legal BatchDB.DepsDef BatchDB.DepsEasy BatchDB.DepsMap BatchDB.DepsDriver BatchDB.DepsDeactivate
  BatchDB.DepsStruct BatchDB.Tally.
From RecordUpdate Require Import RecordSet.
Import RecordSetNotations.
Open Scope Z_scope.

Lemma static_state_attempt x st att : static x (x <| j_state := st |> <| j_attempt := att |>).
Proof. destruct x; repeat split. Qed.

Lemma state_state_attempt x st att : j_state (x <| j_state := st |> <| j_attempt := att |>) = st.
Proof. destruct x; reflexivity. Qed.

Lemma active_of_eqb2 st a b : jstate_eqb st a || jstate_eqb st b = true -> terminal a = false -> terminal b = false -> terminal st = false.
Proof. intros H Ta Tb. apply orb_true_iff in H. destruct H as [E|E]; apply jstate_eqb_eq in E; subst; assumption. Qed.

Lemma TInv_schedule s b j a i : DInv s -> TInv s -> TInv (fst (do_schedule s b j a i)).
Proof.
  intros D T. unfold do_schedule. destruct (find_job s b j) as [x|] eqn:F; [|exact T].
  destruct (is_job_cancelled s x); [|exact T].
  destruct (add_attempt s b j a i (j_cores x)) as [[s1 d0]|] eqn:A; [|exact T].
  pose proof (core_eq_add_attempt _ _ _ _ _ _ _ _ A) as C1.
  match goal with |- context [if ?c then _ else _] => destruct c eqn:Cond end; cbn [fst].
  - apply (TInv_update_job_class s s1 x _ b j D C1 F); [apply static_state_attempt | | exact T].
    rewrite state_state_attempt.
    apply andb_true_iff in Cond. destruct Cond as [Cond _]. apply andb_true_iff in Cond. destruct Cond as [Cond _].
    apply class_active; [reflexivity | apply (active_of_eqb2 _ _ _ Cond); reflexivity].
  - apply (TInv_core s s1 C1 T).
Qed.

Lemma TInv_creating_started c s b j a i t : DInv s -> TInv s -> TInv (fst (do_mark_creating_or_started c s b j a i t)).
Proof.
  intros D T. unfold do_mark_creating_or_started.
  destruct (find_job s b j) as [x|] eqn:F; [|exact T].
  destruct (is_job_cancelled s x); [|exact T].
  destruct (add_attempt s b j a i (j_cores x)) as [[s1 d0]|] eqn:A; [|exact T].
  pose proof (core_eq_add_attempt _ _ _ _ _ _ _ _ A) as C1.
  pose proof (core_eq_trans _ _ _ C1 (core_eq_set_times s1 b j a t)) as C2.
  match goal with |- context [if ?c then _ else _] => destruct c eqn:Cond end; cbn [fst].
  - apply (TInv_update_job_class s _ x _ b j D C2 F); [apply static_state_attempt | | exact T].
    rewrite state_state_attempt.
    apply andb_true_iff in Cond. destruct Cond as [Cond _]. apply andb_true_iff in Cond. destruct Cond as [Cond _].
    apply jstate_eqb_eq in Cond. rewrite Cond. destruct c; reflexivity.
  - apply (TInv_core s _ C2 T).
Qed.

Lemma TInv_unschedule s b j a i t r : DInv s -> TInv s -> TInv (fst (do_unschedule s b j a i t r)).
Proof.
  intros D T. unfold do_unschedule.
  destruct (find_job s b j) as [x|] eqn:F.
  2:{ match goal with |- context [if ?c then _ else _] => destruct c end; exact T. }
  set (s1 := match find_attempt s b j a with Some c => update_attempt s c _ | None => s end).
  assert (C1 : core_eq s s1).
  { subst s1. destruct (find_attempt s b j a); [apply core_eq_update_attempt | apply core_eq_refl]. }
  match goal with |- context [if ?g then match find_inst s1 i with _ => _ end else s1] =>
    set (s2 := if g then match find_inst s1 i with Some y => s1 <| insts ::= replace_inst (y <| i_free := i_free y + j_cores x |>) |> | None => s1 end else s1) end.
  assert (C2 : core_eq s s2).
  { subst s2. match goal with |- context [if ?g then _ else _] => destruct g end; [|exact C1].
    destruct (find_inst s1 i); [|exact C1]. eapply core_eq_trans; [exact C1 | apply core_eq_insts]. }
  match goal with |- context [if ?c then (update_job _ _ _, _) else _] => destruct c eqn:Cond end; cbn [fst].
  - apply (TInv_update_job_class s s2 x _ b j D C2 F); [apply static_state_attempt | | exact T].
    rewrite state_state_attempt.
    apply andb_true_iff in Cond. destruct Cond as [Cond _].
    apply class_active; [reflexivity | apply (active_of_eqb2 _ _ _ Cond); reflexivity].
  - apply (TInv_core s s2 C2 T).
Qed.

Lemma TInv_deactivate s name reason time : DInv s -> TInv s -> TInv (fst (do_deactivate s name reason time)).
Proof.
  intros D T. unfold do_deactivate. destruct (find_inst s name) as [x|]; [|exact T].
  destruct (ilive (i_state x)); [|exact T]. cbn [fst].
  match goal with |- context [fold_left ?g (attempts s) s] => set (s1 := fold_left g (attempts s) s) end.
  assert (C1 : core_eq s s1).
  { subst s1. apply core_eq_fold. intros st a. destruct (a_inst a =? name); [|apply core_eq_refl].
    destruct (find_attempt st _ _ _); [apply core_eq_update_attempt | apply core_eq_refl]. }
  change (fold_left _ (jobs s1) s1) with (fold_left (deact_step name) (jobs s1) s1).
  pose proof (fold_update_job_jobs (deact_P s1 name) deact_F deact_F_static (deact_step name)
                (fun st => attempts st = attempts s1)
                (fun st j H => deact_step_spec s1 name st j H)
                (fun st o n H => eq_trans (update_job_attempts st o n) H)
                (jobs s1) [] s1 eq_refl) as Hf.
  cbn [app map] in Hf. specialize (Hf (d_jkeys _ (DInv_core _ _ C1 D)) eq_refl). cbv zeta in Hf.
  set (s2 := fold_left (deact_step name) (jobs s1) s1) in *.
  destruct Hf as (Hj & _ & F1 & F2 & F3 & F4 & F5 & F6 & F7 & _ & _ & F10).
  destruct C1 as (E1&E2&E3&E4&E5&E6&E7&E8&E9).
  assert (T2 : TInv s2).
  { apply (TInv_transfer s s2 (gmap (deact_P s1 name) deact_F)); [rewrite Hj, E6; reflexivity | | | | | congruence .. | exact T].
    3:{ intros b u. unfold committed, find_update. rewrite F2, E2. reflexivity. }
    3:{ intros b u g _. unfold gstaged. rewrite F7, E8. reflexivity. }
    - intros y Hy. apply gmap_static. apply deact_F_static.
    - intros y Hy. unfold gmap. destruct (deact_P s1 name y) eqn:P; [|reflexivity].
      unfold deact_P in P. destruct (j_attempt y); [|discriminate]. destruct (find_attempt s1 _ _ _); [|discriminate].
      apply andb_true_iff in P. destruct P as [_ P]. unfold deact_F. rewrite state_state_attempt.
      apply class_active; [reflexivity | apply (active_of_eqb2 _ _ _ P); reflexivity]. }
  apply (TInv_core s2 _ (core_eq_insts s2 _) T2).
Qed.

Lemma TInv_cancel_group s b g : TInv s -> TInv (fst (do_cancel_group s b g)).
Proof.
  intros T. unfold do_cancel_group. destruct (find_group s b g) as [gr|]; [|exact T].
  destruct (find_batch s b) as [bt|]; [|exact T].
  match goal with |- context [if ?c then _ else _] => destruct c end; cbn [fst]; [exact T|].
  apply (TInv_same_core s); [apply same_core_cancel_proc | exact T].
Qed.

Lemma TInv_delete_batch s b : TInv s -> TInv (fst (do_delete_batch s b)).
Proof.
  intros T. unfold do_delete_batch. destruct (find_batch s b) as [bt|]; [|exact T].
  destruct (b_deleted bt); cbn [fst]; [exact T|].
  pose proof (same_core_cancel_proc s b 0) as (E1&E2&E3&E4&E5&E6&E7&E8).
  apply (TInv_same s); cbn; try assumption.
  rewrite E7, map_map. apply map_ext. intros x. destruct (b_id x =? b); reflexivity.
Qed.
