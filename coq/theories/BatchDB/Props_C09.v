(** C09 — submission is idempotent under client retries.  Property theorems only (proofs: Idem.v, Cancel.v, StepFrame.v).

    [retriable o]          o is CreateBatch, CreateUpdate, CreateJobs or Commit;
    [run_from s ops]       state after the transactions [ops] from ANY state s;  [run ops = run_from init ops];
    [chained id sj sg l]   the updates l have ids id, id+1, ..., the first starts at job sj / group sg and each next one
                           starts where the previous one ends;   [of_batch b l] = the updates of batch b, in table order;
    [client_job_id start rel] = start + rel - 1: the arithmetic of aioclient.Job._submit (tied to the real class by the
                           smoke test of harness/props/C09.py); [client_group_id] likewise for JobGroup._submit. *)
From HailV Require Import Common.Prelude BatchDB.Model BatchDB.Tables BatchDB.CMap BatchDB.Legal BatchDB.Obs BatchDB.StepFrame BatchDB.Cancel BatchDB.Idem BatchDB.Race.
Open Scope Z_scope.

(* ------------------------------------------------------------------ (1) a request re-sent right away *)

(** ANY state, any arguments: executing a batch-create, update-create, job-bunch or commit request a second time leaves
    the whole state exactly as the first execution left it and returns the same answer. *)
Theorem C09_retry_idempotent : forall s o, retriable o -> step (fst (step s o)) o = step s o.
Proof. exact retry_idempotent. Qed.
Print Assumptions C09_retry_idempotent.

(** hence on the observable projection *)
Theorem C09_retry_idempotent_obs : forall s o, retriable o ->
  obs (fst (step (fst (step s o)) o)) = obs (fst (step s o)) /\ snd (step (fst (step s o)) o) = snd (step s o).
Proof. intros s o R. rewrite (retry_idempotent s o R). split; reflexivity. Qed.
Print Assumptions C09_retry_idempotent_obs.

(** A re-sent job-group bunch is rejected (BadRequest) and changes nothing. *)
Theorem C09_group_bunch_retry_rejected : forall s b u user gss,
  snd (step s (CreateGroups b u user gss)) = ok [] ->
  step (fst (step s (CreateGroups b u user gss))) (CreateGroups b u user gss) = (fst (step s (CreateGroups b u user gss)), bad_request).
Proof. exact create_groups_retry_rejected. Qed.
Print Assumptions C09_group_bunch_retry_rejected.

(** (4) nothing is counted twice: staging, user counters, cancellable counters, batch and group rows (n_jobs), updates, jobs. *)
Theorem C09_no_double_count : forall s o, retriable o ->
  let s1 := fst (step s o) in let s2 := fst (step s1 o) in
  staging s2 = staging s1 /\ user_res s2 = user_res s1 /\ cancellable s2 = cancellable s1 /\
  batches s2 = batches s1 /\ groups s2 = groups s1 /\ updates s2 = updates s1 /\ jobs s2 = jobs s1.
Proof. exact retry_no_double_count. Qed.
Print Assumptions C09_no_double_count.

(* ------------------------------------------------------------------ (1') a request re-sent after other requests were served *)

(** CreateBatch: once the request was answered with batch id [id], re-sending it after ANY further transactions (other
    clients' requests, driver messages) returns [id] again and changes nothing. *)
Theorem C09_create_batch_retry_later : forall s user bp token m id ops,
  snd (step s (CreateBatch user bp token m)) = ok [id] ->
  let s2 := run_from (fst (step s (CreateBatch user bp token m))) ops in
  step s2 (CreateBatch user bp token m) = (s2, ok [id]).
Proof.
  intros s user bp token m id ops A. destruct (create_batch_answer _ _ _ _ _ _ A) as (x & F & <-).
  cbv zeta. rewrite (create_batch_later _ ops user bp token x F m).
  destruct m; [reflexivity|]. cbn in A. discriminate.
Qed.
Print Assumptions C09_create_batch_retry_later.

(** CreateUpdate: once answered with (update id, start group, start job), re-sending it later returns the same triple and
    changes nothing — also when another client's update of the same batch was created in between. *)
Theorem C09_create_update_retry_later : forall s b user token nj ng uid sg sj ops,
  snd (step s (CreateUpdate b user token nj ng)) = ok [uid; sg; sj] ->
  let s2 := run_from (fst (step s (CreateUpdate b user token nj ng))) ops in
  step s2 (CreateUpdate b user token nj ng) = (s2, ok [uid; sg; sj]).
Proof.
  intros s b user token nj ng uid sg sj ops A.
  destruct (create_update_answer _ _ _ _ _ _ _ _ _ A) as (x & bt & F & <- & <- & <- & _ & Fb & Eu).
  cbv zeta. destruct (create_update_later _ ops b user token x bt Fb Eu F nj ng) as (E1 & E2).
  rewrite (surjective_pairing (step _ _)). rewrite E1. f_equal. apply E2.
  - cbn [step] in A. unfold do_create_update in A. destruct ((nj <? 0) || (ng <? 0)); [discriminate | reflexivity].
  - cbn [step] in A. unfold do_create_update in A. destruct ((nj <? 0) || (ng <? 0)); [discriminate|].
    destruct ((0 <? nj) || (0 <? ng)); [reflexivity | discriminate].
Qed.
Print Assumptions C09_create_update_retry_later.

(** CreateJobs: once a bunch was inserted, re-sending it after any further transactions inserts nothing and changes
    nothing (every state of every history). *)
Theorem C09_create_jobs_retry_later : forall ops1 ops2 b u user jss,
  let s := run ops1 in
  fst (step s (CreateJobs b u user jss)) <> s ->
  let s2 := run_from (fst (step s (CreateJobs b u user jss))) ops2 in
  fst (step s2 (CreateJobs b u user jss)) = s2.
Proof.
  intros ops1 ops2 b u user jss s Ne. cbv zeta.
  destruct (find_update s b u) as [up|] eqn:Fu.
  2:{ exfalso. apply Ne. cbn [step]. destruct (do_create_jobs_shape s b u user jss) as [E | (up' & _ & Fu' & _)]; [exact E | congruence]. }
  destruct jss as [|j0 jss'].
  { exfalso. apply Ne. cbn [step]. destruct (do_create_jobs_full s b u user []) as [E | (_ & _ & N & _)]; [exact E | discriminate]. }
  pose proof (accepted_bunch_client_ids s b u user (j0 :: jss') up Fu Ne j0 (or_introl eq_refl)) as Fj.
  assert (Fu1 : find_update (fst (step s (CreateJobs b u user (j0 :: jss')))) b u = Some up).
  { pose proof (step_updates s (CreateJobs b u user (j0 :: jss'))) as U. cbv beta iota in U. unfold find_update. rewrite U. exact Fu. }
  apply create_jobs_later with (up := up) (j0 := j0); auto.
  - apply jobs_unique_step. apply jobs_unique_run.
  - rewrite Fj. discriminate.
Qed.
Print Assumptions C09_create_jobs_retry_later.

(** Commit: once answered rc 0, committing again later changes nothing. *)
Theorem C09_commit_retry_later : forall s b u user ops,
  snd (step s (Commit b u user)) = ok [0] ->
  let s2 := run_from (fst (step s (Commit b u user))) ops in
  fst (step s2 (Commit b u user)) = s2.
Proof.
  intros s b u user ops A. destruct (commit_answer _ _ _ _ A) as (up & F & C). cbv zeta. eapply commit_later; eassumption.
Qed.
Print Assumptions C09_commit_retry_later.

(* ------------------------------------------------------------------ (2) id ranges of the updates of a batch *)

(** Every state of every history: the updates of a batch, in table order, have ids 1, 2, 3, ...; the first starts at
    job 1 / group 1 and each next one starts exactly where the previous one ends; sizes are non-negative. *)
Theorem C09_ranges : forall ops b,
  chained 1 1 1 (of_batch b (updates (run ops))) /\
  Forall (fun x => 0 <= u_njobs x /\ 0 <= u_ngroups x) (updates (run ops)).
Proof. intros ops b. destruct (ranges_ok_run ops) as (H1 & H2). split; [apply H1 | exact H2]. Qed.
Print Assumptions C09_ranges.

(** consequences: contiguous ... *)
Theorem C09_ranges_contiguous : forall ops x y,
  In x (updates (run ops)) -> In y (updates (run ops)) -> u_batch x = u_batch y -> u_id y = u_id x + 1 ->
  u_start_job y = u_start_job x + u_njobs x /\ u_start_group y = u_start_group x + u_ngroups x.
Proof. intros ops x y. apply ranges_contiguous, ranges_ok_run. Qed.
Print Assumptions C09_ranges_contiguous.

(** ... disjoint and in update order ... *)
Theorem C09_ranges_disjoint_ordered : forall ops x y,
  In x (updates (run ops)) -> In y (updates (run ops)) -> u_batch x = u_batch y -> u_id x < u_id y ->
  u_start_job x + u_njobs x <= u_start_job y /\ u_start_group x + u_ngroups x <= u_start_group y.
Proof. intros ops x y. apply ranges_ordered, ranges_ok_run. Qed.
Print Assumptions C09_ranges_disjoint_ordered.

(** ... starting at 1; and (batch, update id) is a key of the updates table. *)
Theorem C09_ranges_start : forall ops x, In x (updates (run ops)) -> u_id x = 1 -> u_start_job x = 1 /\ u_start_group x = 1.
Proof. intros ops x. apply ranges_start, ranges_ok_run. Qed.
Print Assumptions C09_ranges_start.

Theorem C09_update_key : forall ops x, In x (updates (run ops)) -> find_update (run ops) (u_batch x) (u_id x) = Some x.
Proof. intros ops x. apply find_update_in, ranges_ok_run. Qed.
Print Assumptions C09_update_key.

(* ------------------------------------------------------------------ (3) client ids = server ids *)

(** The id the server gives the job of a spec is the id the client computes from the update's start id. *)
Theorem C09_server_job_id : forall b u sj sg x,
  j_id (fst (job_of_spec b u sj sg x)) = client_job_id sj (js_id x) /\
  j_group (fst (job_of_spec b u sj sg x)) = match js_group_abs x with Some g => g | None => client_group_id sg (js_group_rel x) end.
Proof. intros. split; [apply server_job_id | apply server_job_group]. Qed.
Print Assumptions C09_server_job_id.

(** An accepted job bunch (ANY state): every spec's job is stored under the id the client computes. *)
Theorem C09_accepted_bunch_client_ids : forall s b u user jss up,
  find_update s b u = Some up -> fst (step s (CreateJobs b u user jss)) <> s ->
  forall x, In x jss ->
  find_job (fst (step s (CreateJobs b u user jss))) b (client_job_id (u_start_job up) (js_id x))
  = Some (fst (job_of_spec b u (u_start_job up) (u_start_group up) x)).
Proof. exact accepted_bunch_client_ids. Qed.
Print Assumptions C09_accepted_bunch_client_ids.

(** End to end over every history: the client is told (update id, start group, start job) by CreateUpdate; whatever
    happens afterwards, a job bunch of that update that is accepted stores each job under
    client_job_id(start job, relative id), in the group client_group_id(start group, relative group) if given relatively. *)
Theorem C09_client_ids : forall ops1 ops2 b user token nj ng uid sg sj user' jss,
  snd (step (run ops1) (CreateUpdate b user token nj ng)) = ok [uid; sg; sj] ->
  let s := run_from (fst (step (run ops1) (CreateUpdate b user token nj ng))) ops2 in
  fst (step s (CreateJobs b uid user' jss)) <> s ->
  forall x, In x jss ->
  exists y, find_job (fst (step s (CreateJobs b uid user' jss))) b (client_job_id sj (js_id x)) = Some y /\
            j_update y = uid /\ j_always y = js_always x /\ j_cores y = js_cores x /\
            j_group y = match js_group_abs x with Some g => g | None => client_group_id sg (js_group_rel x) end.
Proof.
  intros ops1 ops2 b user token nj ng uid sg sj user' jss A s Ne x Hx.
  destruct (create_update_answer _ _ _ _ _ _ _ _ _ A) as (x0 & bt & F & E1 & E2 & E3 & E4 & _).
  pose proof (find_some _ _ F) as (Hin & _).
  pose proof (find_update_in _ x0 (ranges_ok_step _ _ (ranges_ok_run ops1)) Hin) as F0. rewrite E1, E4 in F0.
  destruct (find_update_history _ ops2 b uid x0 F0) as (up & Fu & K & _). fold s in Fu.
  unfold ukey in K. injection K as _ _ _ K4 _ K6 _.
  pose proof (accepted_bunch_client_ids s b uid user' jss up Fu Ne x Hx) as Fj.
  rewrite K4, K6, E2, E3 in Fj. eexists. split; [exact Fj|]. cbn. auto.
Qed.
Print Assumptions C09_client_ids.

(* ------------------------------------------------------------------ (5) OVERLAPPING deliveries: the two serial orders *)

(** The correspondence executes two requests o1, o2 overlapping on the real code (o1 paused after a read-only prefix, o2 to
    completion or until it blocks on a lock of o1) and demands SERIALISABILITY: (state after both, answer to o1, answer to o2)
    must be one of [race_outcomes s o1 o2] = the outcomes of `o1; o2` and of `o2; o1` in the model ([serial]).

    A request and its verbatim retry: the two serial orders are ONE outcome -- the state of a single delivery, both
    deliveries answered as that one (ANY state; batch-create, update-create, job-bunch, commit). *)
Theorem C09_retry_commutes : forall s o, retriable o ->
  forall x, In x (race_outcomes s o o) -> x = (fst (step s o), snd (step s o), snd (step s o)).
Proof. exact retry_commutes. Qed.
Print Assumptions C09_retry_commutes.

(** Two update-creates of one batch (another client's update of the same batch) that both reserve a new range, served in
    either order from a state with well-formed ranges (every state of every history: C09_ranges): the one served second is
    answered the update id and the job / group ranges IMMEDIATELY AFTER those of the one served first.  So the two serial
    orders differ observably -- exactly in which request gets the lower and which the upper range -- and the tie accepts
    exactly these two outcomes (Race.race_demo_outcomes: a concrete state where they differ). *)
Theorem C09_race_updates_adjacent : forall s b user1 t1 nj1 ng1 user2 t2 nj2 ng2,
  ranges_ok s ->
  let o1 := CreateUpdate b user1 t1 nj1 ng1 in let o2 := CreateUpdate b user2 t2 nj2 ng2 in
  let s1 := fst (step s o1) in
  s1 <> s -> fst (step s1 o2) <> s1 ->
  exists uid sg sj,
    snd (step s o1) = ok [uid; sg; sj] /\ snd (step s1 o2) = ok [uid + 1; sg + ng1; sj + nj1].
Proof. exact race_updates_adjacent. Qed.
Print Assumptions C09_race_updates_adjacent.

(** ... hence, over every history and in either order, the two answered ranges are disjoint and the update ids differ. *)
Theorem C09_race_updates_disjoint : forall ops b user1 t1 nj1 ng1 user2 t2 nj2 ng2,
  let s := run ops in
  let o1 := CreateUpdate b user1 t1 nj1 ng1 in let o2 := CreateUpdate b user2 t2 nj2 ng2 in
  let s1 := fst (step s o1) in
  s1 <> s -> fst (step s1 o2) <> s1 ->
  forall uid1 sg1 sj1 uid2 sg2 sj2,
    snd (step s o1) = ok [uid1; sg1; sj1] -> snd (step s1 o2) = ok [uid2; sg2; sj2] ->
    uid1 <> uid2 /\ sj1 + nj1 <= sj2 /\ sg1 + ng1 <= sg2.
Proof. intros ops b user1 t1 nj1 ng1 user2 t2 nj2 ng2 s. apply race_updates_disjoint, ranges_ok_run. Qed.
Print Assumptions C09_race_updates_disjoint.

(** Example history (two updates after the first, all requests re-sent): ranges as stated, retries change nothing. *)
Theorem C09_example :
  map (fun x => [u_id x; u_start_job x; u_njobs x; u_start_group x; u_ngroups x]) (updates (run two_updates))
  = [[1; 1; 2; 1; 1]; [2; 3; 3; 2; 0]; [3; 6; 1; 2; 2]] /\
  run (flat_map (fun o => [o; o]) two_updates) = run two_updates.
Proof. split; [exact two_updates_ranges | exact two_updates_all_retried]. Qed.
Print Assumptions C09_example.
