(** C41, non-interference ("an update that is never committed leaves the batch exactly as if it had not been started"):
    definitions and the algebra of the projection.

    [erase B U tok sj nj sg ng ops]   the history with every request of update [U] of batch [B] removed — exactly the
                                      erasure of harness/batchdb/oracles.py::erase_last_uncommitted_update: the
                                      create_update requests of batch B carrying U's token, the create_groups / create_jobs /
                                      commit requests of (B, U), every request naming a job in U's reserved job range
                                      [sj, sj + nj) or cancelling a group in U's reserved group range [sg, sg + ng), and the
                                      entries of billing updates naming such a job;
    [proj B U sj G0 s]                the state [s] without the rows of update U: its batch_updates row, the jobs of batch
                                      B with id >= sj and their parent edges, the job groups of batch B with id >= G0 and
                                      their ancestor rows, the cancellable / staging counter rows keyed (B, U, _, _).
                                      Everything else — batches, marks, user counters, attempts, instances, billing,
                                      the id counter — is kept as it is. *)
From HailV Require Import Common.Prelude BatchDB.Model BatchDB.Tables BatchDB.CMap BatchDB.Legal BatchDB.StepFrame.
From RecordUpdate Require Import RecordSet.
Import RecordSetNotations.
Open Scope Z_scope.

(* ------------------------------------------------------------------ erasure of a history *)

Definition in_rng (lo n x : Z) : bool := (lo <=? x) && (x <? lo + n).

Section Erase.
  Variables (B U tok sj nj sg ng : Z).

  Definition ujob (b j : Z) : bool := (b =? B) && in_rng sj nj j.

  Definition erase_op (o : op) : list op :=
    match o with
    | CreateUpdate b _ tk _ _ => if (b =? B) && (tk =? tok) then [] else [o]
    | CreateGroups b u _ _ => if (b =? B) && (u =? U) then [] else [o]
    | CreateJobs b u _ _ => if (b =? B) && (u =? U) then [] else [o]
    | Commit b u _ => if (b =? B) && (u =? U) then [] else [o]
    | ScheduleJob b j _ _ => if ujob b j then [] else [o]
    | UnscheduleJob b j _ _ _ _ => if ujob b j then [] else [o]
    | MarkCreating b j _ _ _ => if ujob b j then [] else [o]
    | MarkStarted b j _ _ _ => if ujob b j then [] else [o]
    | MarkComplete b j _ _ _ _ _ _ => if ujob b j then [] else [o]
    | AddAttemptResources b j _ _ => if ujob b j then [] else [o]
    | CancelGroup b g => if (b =? B) && in_rng sg ng g then [] else [o]
    | BillingUpdate t atts => [BillingUpdate t (filter (fun x => let '(b, j, _) := x in negb (ujob b j)) atts)]
    | _ => [o]
    end.

  Definition erase (ops : list op) : list op := flat_map erase_op ops.

  Lemma erase_app ops1 ops2 : erase (ops1 ++ ops2) = erase ops1 ++ erase ops2.
  Proof. unfold erase. apply flat_map_app. Qed.
End Erase.

(* ------------------------------------------------------------------ projection of a state *)

Definition keep {A} (p : A -> bool) (l : list A) : list A := filter (fun x => negb (p x)) l.

Section Proj.
  Variables (B U sj G0 : Z).

  Definition uU (x : update) : bool := (u_batch x =? B) && (u_id x =? U).
  Definition jU (x : job) : bool := (j_batch x =? B) && (sj <=? j_id x).
  Definition pU (r : Z * Z * Z) : bool := let '(b, j, _) := r in (b =? B) && (sj <=? j).
  Definition gU (g : group) : bool := (g_batch g =? B) && (G0 <=? g_id g).
  Definition aU (r : Z * Z * Z * Z) : bool := let '(b, g, _, _) := r in (b =? B) && (G0 <=? g).
  Definition kU (k : list Z) : bool := match k with b :: u :: _ => (b =? B) && (u =? U) | _ => false end.
  Definition ckeep (m : cmap) : cmap := filter (fun kv => negb (kU (fst kv))) m.

  Definition proj (s : state) : state :=
    mkState (batches s) (keep uU (updates s)) (keep gU (groups s)) (keep aU (ancestors s)) (marks s)
            (keep jU (jobs s)) (keep pU (parents s)) (user_res s) (ckeep (cancellable s)) (ckeep (staging s))
            (attempts s) (insts s) (attempt_res s) (agg_job s) (agg_group s) (agg_bp s) (agg_date s) (next_batch s).

  (* keys of a job / a group outside update U *)
  Definition jfree (b j : Z) : Prop := (b =? B) && (sj <=? j) = false.
  Definition gfree (b g : Z) : Prop := (b =? B) && (G0 <=? g) = false.
  Definition ufree (b u : Z) : Prop := (b =? B) && (u =? U) = false.

  (* -------------------------------------------------------------- list algebra *)

  Lemma keep_app {A} (p : A -> bool) l1 l2 : keep p (l1 ++ l2) = keep p l1 ++ keep p l2.
  Proof. apply filter_app. Qed.

  Lemma keep_all {A} (p : A -> bool) l : (forall x, In x l -> p x = false) -> keep p l = l.
  Proof.
    induction l as [|x l IH]; intros H; [reflexivity|]. unfold keep in *. cbn [filter].
    rewrite (H x (or_introl eq_refl)). cbn [negb]. rewrite IH; [reflexivity|]. intros y Hy. apply H. right. exact Hy.
  Qed.

  Lemma keep_none {A} (p : A -> bool) l : (forall x, In x l -> p x = true) -> keep p l = [].
  Proof.
    induction l as [|x l IH]; intros H; [reflexivity|]. unfold keep in *. cbn [filter].
    rewrite (H x (or_introl eq_refl)). cbn [negb]. apply IH. intros y Hy. apply H. right. exact Hy.
  Qed.

  Lemma keep_map {A} (p : A -> bool) (f : A -> A) l : (forall x, p (f x) = p x) -> keep p (map f l) = map f (keep p l).
  Proof.
    intros H. induction l as [|x l IH]; [reflexivity|]. unfold keep in *. cbn [map filter]. rewrite H.
    destruct (p x); cbn [negb map]; rewrite IH; reflexivity.
  Qed.

  Lemma find_keep {A} (q p : A -> bool) l : (forall x, q x = true -> p x = false) -> find q (keep p l) = find q l.
  Proof.
    intros H. induction l as [|x l IH]; [reflexivity|]. unfold keep in *. cbn [filter find].
    destruct (q x) eqn:Q.
    - rewrite (H x Q). cbn [negb find]. rewrite Q. reflexivity.
    - destruct (p x); cbn [negb find]; [exact IH | rewrite Q; exact IH].
  Qed.

  Lemma find_keep_none {A} (q p : A -> bool) l : (forall x, q x = true -> p x = true) -> find q (keep p l) = None.
  Proof.
    intros H. induction l as [|x l IH]; [reflexivity|]. unfold keep in *. cbn [filter].
    destruct (p x) eqn:P; cbn [negb find]; [exact IH|].
    destruct (q x) eqn:Q; [rewrite (H x Q) in P; discriminate | exact IH].
  Qed.

  Lemma filter_keep {A} (q p : A -> bool) l : (forall x, q x = true -> p x = false) -> filter q (keep p l) = filter q l.
  Proof.
    intros H. induction l as [|x l IH]; [reflexivity|]. unfold keep in *. cbn [filter].
    destruct (p x) eqn:P; cbn [negb filter].
    - destruct (q x) eqn:Q; [rewrite (H x Q) in P; discriminate | exact IH].
    - destruct (q x); rewrite IH; reflexivity.
  Qed.

  Lemma filter_keep_comm {A} (q p : A -> bool) l : filter q (keep p l) = keep p (filter q l).
  Proof.
    induction l as [|x l IH]; [reflexivity|]. unfold keep in *. cbn [filter].
    destruct (p x) eqn:P, (q x) eqn:Q; cbn [negb filter]; rewrite ?P, ?Q; cbn [negb]; rewrite IH; reflexivity.
  Qed.

  Lemma existsb_keep {A} (q p : A -> bool) l : (forall x, q x = true -> p x = false) -> existsb q (keep p l) = existsb q l.
  Proof.
    intros H. induction l as [|x l IH]; [reflexivity|]. unfold keep in *. cbn [filter existsb].
    destruct (p x) eqn:P; cbn [negb existsb]; [|rewrite IH; reflexivity].
    destruct (q x) eqn:Q; [rewrite (H x Q) in P; discriminate | exact IH].
  Qed.

  (* -------------------------------------------------------------- counter tables *)

  Lemma ckeep_cadd_free k d m : kU k = false -> ckeep (cadd k d m) = cadd k d (ckeep m).
  Proof.
    intros Hk. induction m as [|[k' v] m IH]; unfold ckeep in *; cbn [cadd filter fst].
    - rewrite Hk. reflexivity.
    - destruct (key_eqb k k') eqn:E.
      + apply key_eqb_eq in E. subst k'. cbn [filter fst]. rewrite Hk. cbn [negb cadd]. rewrite key_eqb_refl. reflexivity.
      + cbn [filter fst]. destruct (kU k'); cbn [negb cadd]; [exact IH | rewrite E, IH; reflexivity].
  Qed.

  Lemma ckeep_cadd_own k d m : kU k = true -> ckeep (cadd k d m) = ckeep m.
  Proof.
    intros Hk. induction m as [|[k' v] m IH]; unfold ckeep in *; cbn [cadd filter fst].
    - rewrite Hk. reflexivity.
    - destruct (key_eqb k k') eqn:E.
      + apply key_eqb_eq in E. subst k'. cbn [filter fst]. rewrite Hk. reflexivity.
      + cbn [filter fst]. destruct (kU k'); cbn [negb]; [exact IH | rewrite IH; reflexivity].
  Qed.

  Lemma ckeep_fold_cadd_free {A} (f : A -> list Z) d l : (forall a, kU (f a) = false) ->
    forall m, ckeep (fold_left (fun m a => cadd (f a) d m) l m) = fold_left (fun m a => cadd (f a) d m) l (ckeep m).
  Proof.
    intros H. induction l as [|a l IH]; intros m; cbn [fold_left]; [reflexivity|]. rewrite IH, ckeep_cadd_free; [reflexivity | apply H].
  Qed.

  Lemma ckeep_fold_cadd_own {A} (f : A -> list Z) d l : (forall a, kU (f a) = true) ->
    forall m, ckeep (fold_left (fun m a => cadd (f a) d m) l m) = ckeep m.
  Proof.
    intros H. induction l as [|a l IH]; intros m; cbn [fold_left]; [reflexivity|]. rewrite IH, ckeep_cadd_own; [reflexivity | apply H].
  Qed.

  Lemma csum_ckeep p m : (forall k, p k = true -> kU k = false) -> csum p (ckeep m) = csum p m.
  Proof.
    intros H. induction m as [|[k v] m IH]; [reflexivity|]. unfold ckeep in *. cbn [filter fst csum snd].
    destruct (kU k) eqn:K; cbn [negb csum fst snd].
    - destruct (p k) eqn:P; [rewrite (H k P) in K; discriminate | exact IH].
    - rewrite IH. reflexivity.
  Qed.

  (* -------------------------------------------------------------- lookups in the projected state *)

  Lemma find_batch_proj s b : find_batch (proj s) b = find_batch s b.
  Proof. reflexivity. Qed.
  Lemma find_attempt_proj s b j a : find_attempt (proj s) b j a = find_attempt s b j a.
  Proof. reflexivity. Qed.
  Lemma find_inst_proj s i : find_inst (proj s) i = find_inst s i.
  Proof. reflexivity. Qed.
  Lemma marked_proj s b g : marked (proj s) b g = marked s b g.
  Proof. reflexivity. Qed.
  Lemma batch_user_proj s b : batch_user (proj s) b = batch_user s b.
  Proof. reflexivity. Qed.
  Lemma batch_bp_proj s b : batch_bp (proj s) b = batch_bp s b.
  Proof. reflexivity. Qed.
  Lemma inst_state_proj s i : inst_state (proj s) i = inst_state s i.
  Proof. reflexivity. Qed.

  Lemma find_update_proj s b u : ufree b u -> find_update (proj s) b u = find_update s b u.
  Proof.
    intros H. unfold find_update, proj; cbn [updates]. apply find_keep. intros x Q. unfold uU, ufree in *.
    apply andb_true_iff in Q. destruct Q as [Q1 Q2]. apply Z.eqb_eq in Q1, Q2. rewrite Q1, Q2. exact H.
  Qed.

  Lemma find_update_proj_own s : find_update (proj s) B U = None.
  Proof. unfold find_update, proj; cbn [updates]. apply find_keep_none. intros x Q. exact Q. Qed.

  Lemma committed_proj s b u : ufree b u -> committed (proj s) b u = committed s b u.
  Proof. intros H. unfold committed. rewrite find_update_proj; [reflexivity | exact H]. Qed.

  Lemma find_job_proj s b j : jfree b j -> find_job (proj s) b j = find_job s b j.
  Proof.
    intros H. unfold find_job, proj; cbn [jobs]. apply find_keep. intros x Q. unfold jU, jfree in *.
    apply andb_true_iff in Q. destruct Q as [Q1 Q2]. apply Z.eqb_eq in Q1, Q2. rewrite Q1, Q2. exact H.
  Qed.

  Lemma find_job_proj_own s b j : (b =? B) && (sj <=? j) = true -> find_job (proj s) b j = None.
  Proof.
    intros H. unfold find_job, proj; cbn [jobs]. apply find_keep_none. intros x Q. unfold jU.
    apply andb_true_iff in Q. destruct Q as [Q1 Q2]. apply Z.eqb_eq in Q1, Q2. rewrite Q1, Q2. exact H.
  Qed.

  Lemma find_group_proj s b g : gfree b g -> find_group (proj s) b g = find_group s b g.
  Proof.
    intros H. unfold find_group, proj; cbn [groups]. apply find_keep. intros x Q. unfold gU, gfree in *.
    apply andb_true_iff in Q. destruct Q as [Q1 Q2]. apply Z.eqb_eq in Q1, Q2. rewrite Q1, Q2. exact H.
  Qed.

  Lemma find_group_proj_own s b g : (b =? B) && (G0 <=? g) = true -> find_group (proj s) b g = None.
  Proof.
    intros H. unfold find_group, proj; cbn [groups]. apply find_keep_none. intros x Q. unfold gU.
    apply andb_true_iff in Q. destruct Q as [Q1 Q2]. apply Z.eqb_eq in Q1, Q2. rewrite Q1, Q2. exact H.
  Qed.

  Lemma anc_rows_proj s b g : gfree b g -> anc_rows (proj s) b g = anc_rows s b g.
  Proof.
    intros H. unfold anc_rows, proj; cbn [ancestors]. apply filter_keep. intros [[[b' g'] a] l] Q. unfold aU, gfree in *.
    apply andb_true_iff in Q. destruct Q as [Q1 Q2]. apply Z.eqb_eq in Q1, Q2. rewrite Q1, Q2. exact H.
  Qed.

  Lemma anc_rows_proj_own s b g : (b =? B) && (G0 <=? g) = true -> anc_rows (proj s) b g = [].
  Proof.
    intros H. unfold anc_rows, proj; cbn [ancestors]. rewrite filter_keep_comm. apply keep_none.
    intros [[[b' g'] a] l] Hin. apply filter_In in Hin. destruct Hin as [_ Q]. unfold aU.
    apply andb_true_iff in Q. destruct Q as [Q1 Q2]. apply Z.eqb_eq in Q1, Q2. rewrite Q1, Q2. exact H.
  Qed.

  Lemma anc_ids_proj s b g : gfree b g -> anc_ids (proj s) b g = anc_ids s b g.
  Proof. intros H. unfold anc_ids. rewrite anc_rows_proj; [reflexivity | exact H]. Qed.

  Lemma n_cancelled_anc_proj s b g : gfree b g -> n_cancelled_anc (proj s) b g = n_cancelled_anc s b g.
  Proof. intros H. unfold n_cancelled_anc. rewrite anc_ids_proj; [reflexivity | exact H]. Qed.

  Lemma group_cancelled_proj s b g : gfree b g -> group_cancelled (proj s) b g = group_cancelled s b g.
  Proof. intros H. unfold group_cancelled. rewrite n_cancelled_anc_proj; [reflexivity | exact H]. Qed.

  Lemma is_job_cancelled_proj s x : gfree (j_batch x) (j_group x) -> is_job_cancelled (proj s) x = is_job_cancelled s x.
  Proof. intros H. unfold is_job_cancelled. rewrite n_cancelled_anc_proj; [reflexivity | exact H]. Qed.

  (* -------------------------------------------------------------- setters of untouched tables commute *)

  Lemma proj_set_insts s f : proj (s <| insts ::= f |>) = proj s <| insts ::= f |>.
  Proof. reflexivity. Qed.
  Lemma proj_set_attempts s f : proj (s <| attempts ::= f |>) = proj s <| attempts ::= f |>.
  Proof. reflexivity. Qed.
  Lemma proj_set_batches s f : proj (s <| batches ::= f |>) = proj s <| batches ::= f |>.
  Proof. reflexivity. Qed.
  Lemma proj_set_user_res s f : proj (s <| user_res ::= f |>) = proj s <| user_res ::= f |>.
  Proof. reflexivity. Qed.
  Lemma proj_set_marks s f : proj (s <| marks ::= f |>) = proj s <| marks ::= f |>.
  Proof. reflexivity. Qed.

  (* -------------------------------------------------------------- update_job *)

  Lemma keep_replace_job n l : keep jU (replace_job n l) = replace_job n (keep jU l).
  Proof.
    unfold replace_job. apply keep_map. intros x.
    destruct ((j_batch x =? j_batch n) && (j_id x =? j_id n)) eqn:E; [|reflexivity].
    apply andb_true_iff in E. destruct E as [E1 E2]. apply Z.eqb_eq in E1, E2. unfold jU. rewrite E1, E2. reflexivity.
  Qed.

  Lemma proj_update_job s o n :
    gfree (j_batch o) (j_group o) -> gfree (j_batch n) (j_group n) -> ufree (j_batch n) (j_update n) ->
    proj (update_job s o n) = update_job (proj s) o n.
  Proof.
    intros Ho Hn Hu. unfold update_job. cbv zeta.
    set (s1 := s <| jobs ::= replace_job n |>).
    assert (E1 : proj s1 = proj s <| jobs ::= replace_job n |>).
    { subst s1. unfold proj. scbn. rewrite keep_replace_job. reflexivity. }
    rewrite <- E1. rewrite (group_cancelled_proj s1 _ _ Ho), (anc_ids_proj s1 _ _ Hn).
    destruct (job_deltas (group_cancelled s1 (j_batch o) (j_group o)) o n) as [dc du].
    unfold proj at 1. scbn.
    rewrite (ckeep_fold_cadd_free (fun a => [j_batch n; j_update n; a; j_ic n])); [reflexivity|].
    intros a. exact Hu.
  Qed.

  (* -------------------------------------------------------------- attempts and billing *)

  Lemma proj_bill s b j d rq :
    jfree b j -> gfree b (match find_job s b j with Some x => j_group x | None => 0 end) ->
    proj (bill s b j d rq) = bill (proj s) b j d rq.
  Proof.
    intros Hj Hg. unfold bill. destruct rq as [r q]. rewrite (find_job_proj s b j Hj).
    rewrite (anc_ids_proj s _ _ Hg). reflexivity.
  Qed.

  Lemma bill_find_job s b j d rq b' j' : find_job (bill s b j d rq) b' j' = find_job s b' j'.
  Proof. unfold bill. destruct rq. reflexivity. Qed.

  Lemma proj_fold_bill b j d rqs : forall s,
    jfree b j -> gfree b (match find_job s b j with Some x => j_group x | None => 0 end) ->
    proj (fold_left (fun st rq => bill st b j d rq) rqs s) = fold_left (fun st rq => bill st b j d rq) rqs (proj s).
  Proof.
    induction rqs as [|rq rqs IH]; intros s Hj Hg; cbn [fold_left]; [reflexivity|].
    rewrite IH; [rewrite proj_bill; [reflexivity | exact Hj | exact Hg] | exact Hj | rewrite bill_find_job; exact Hg].
  Qed.

  Lemma proj_update_attempt s o req :
    jfree (a_batch req) (a_job req) ->
    gfree (a_batch req) (match find_job s (a_batch req) (a_job req) with Some x => j_group x | None => 0 end) ->
    proj (update_attempt s o req) = update_attempt (proj s) o req.
  Proof.
    intros Hj Hg. unfold update_attempt. cbv zeta.
    assert (Eb : a_batch (clamp o req) = a_batch req) by (unfold clamp; destruct (clamp4 _ _) as [[[? ?] ?] ?]; reflexivity).
    assert (Ej : a_job (clamp o req) = a_job req) by (unfold clamp; destruct (clamp4 _ _) as [[[? ?] ?] ?]; reflexivity).
    destruct (billed (clamp o req) - billed o =? 0); [reflexivity|].
    rewrite Eb, Ej. rewrite proj_fold_bill; [reflexivity | exact Hj | exact Hg].
  Qed.

  Lemma proj_add_attempt s b j a i c :
    add_attempt (proj s) b j a i c = option_map (fun p => (proj (fst p), snd p)) (add_attempt s b j a i c).
  Proof.
    unfold add_attempt. rewrite find_attempt_proj. destruct (find_attempt s b j a); [reflexivity|]. cbv zeta.
    rewrite <- proj_set_attempts, find_inst_proj.
    match goal with |- context [find_inst ?st i] => destruct (find_inst st i) as [x|] end.
    - cbn [option_map fst snd]. destruct (ilive (i_state x)); reflexivity.
    - destruct (i =? -1); reflexivity.
  Qed.

  Lemma proj_set_times s b j a t :
    jfree b j -> gfree b (match find_job s b j with Some x => j_group x | None => 0 end) ->
    proj (set_times s b j a t) = set_times (proj s) b j a t.
  Proof.
    intros Hj Hg. unfold set_times. rewrite find_attempt_proj.
    destruct (find_attempt s b j a) as [cur|] eqn:F; [|reflexivity].
    assert (K : a_batch cur = b /\ a_job cur = j).
    { unfold find_attempt in F. apply find_some in F. destruct F as [_ K].
      apply andb_true_iff in K. destruct K as [K _]. apply andb_true_iff in K. lia. }
    destruct K as [K1 K2].
    apply proj_update_attempt; cbn; rewrite K1, K2; assumption.
  Qed.
End Proj.
