(** [DInv] is preserved by mark_job_complete: assembly. *)
From HailV Require Import Common.Prelude BatchDB.Model BatchDB.Tables BatchDB.CMap BatchDB.JobsWF BatchDB.StepCore
  BatchDB.JobFold BatchDB.KidsFold BatchDB.Legal BatchDB.DepsDef BatchDB.DepsEasy BatchDB.DepsMap BatchDB.DepsDriver
  BatchDB.DepsMC1 BatchDB.DepsMC2 BatchDB.DepsMC3.
From RecordUpdate Require Import RecordSet.
Import RecordSetNotations.
Open Scope Z_scope.

(** everything [DInv] looks at, except the jobs table; groups and batches up to their keys *)
Definition simx (s a : state) : Prop :=
  updates a = updates s /\ parents a = parents s /\ staging a = staging s /\ ancestors a = ancestors s /\
  next_batch a = next_batch s /\ map gk (groups a) = map gk (groups s) /\ map b_id (batches a) = map b_id (batches s).

Lemma simx_refl s : simx s s.
Proof. repeat split. Qed.
Lemma simx_trans s a c : simx s a -> simx a c -> simx s c.
Proof. unfold simx. intuition congruence. Qed.
Lemma simx_core s a : core_eq s a -> simx s a.
Proof. intros (E1&E2&E3&E4&E5&E6&E7&E8&E9). unfold simx. repeat split; congruence. Qed.
Lemma simx_update_job s o n : simx s (update_job s o n).
Proof. unfold simx. autorewrite with frame. repeat split; reflexivity. Qed.
Lemma simx_rest s a : rest_eq s a -> simx s a.
Proof. intros (E1&E2&E3&E4&E5&E6&E7&E8&E9&E10). unfold simx. repeat split; congruence. Qed.

Lemma simx_groups s (f : group -> group) : (forall g, gk (f g) = gk g) -> simx s (s <| groups ::= map f |>).
Proof.
  intros H. unfold simx. cbn. repeat split. rewrite map_map. apply map_ext. exact H.
Qed.
Lemma simx_batches s (f : batch -> batch) : (forall x, b_id (f x) = b_id x) -> simx s (s <| batches ::= map f |>).
Proof.
  intros H. unfold simx. cbn. repeat split. rewrite map_map. apply map_ext. exact H.
Qed.

Lemma finish_groups_simx s b g : simx s (finish_groups s b g) /\ jobs (finish_groups s b g) = jobs s.
Proof.
  unfold finish_groups. split; [|reflexivity]. apply simx_groups. intros x.
  destruct (_ && _); [destruct x; reflexivity | reflexivity].
Qed.

Lemma release_children_fold s b j succ :
  release_children s b j succ = fold_left (kid_step b (fun y => committed s b (j_update y)) (child_G succ)) (kids_of s b j) s.
Proof. reflexivity. Qed.

Lemma DInv_mark_complete s b j a i ns st en r :
  DInv s -> legal s (MarkComplete b j a i ns st en r) -> DInv (fst (do_mark_complete s b j a i ns st en r)).
Proof.
  intros D L. unfold legal, legalb in L.
  apply andb_true_iff in L. destruct L as [L _]. apply andb_true_iff in L. destruct L as [L _].
  apply andb_true_iff in L. destruct L as [Lc Lt].
  unfold do_mark_complete. destruct (find_job s b j) as [x|] eqn:Hx.
  2:{ destruct (a =? -1); exact D. }
  pose proof (legal_job_committed _ _ _ _ Lc Hx) as Hxc.
  match goal with |- context [match ?e with Some _ => _ | None => (s, sql_error 1452) end] => destruct e as [[s1 d0]|] eqn:A end; [|exact D].
  assert (C1 : core_eq s s1).
  { destruct (a =? -1); [injection A as <- _; apply core_eq_refl | eapply core_eq_add_attempt; exact A]. }
  set (cur := if a =? -1 then None else find_attempt s1 b j a).
  set (s2 := match cur with Some c => update_attempt s1 c _ | None => s1 end).
  assert (C2 : core_eq s s2).
  { subst s2. destruct cur; [eapply core_eq_trans; [exact C1 | apply core_eq_update_attempt] | exact C1]. }
  match goal with |- context [if ?g then match find_inst s2 i with _ => _ end else s2] =>
    set (s3 := if g then match find_inst s2 i with Some y => s2 <| insts ::= replace_inst (y <| i_free := i_free y + j_cores x |>) |> | None => s2 end else s2) end.
  assert (C3 : core_eq s s3).
  { subst s3. match goal with |- context [if ?g then _ else _] => destruct g end; [|exact C2].
    destruct (find_inst s2 i); [|exact C2]. eapply core_eq_trans; [exact C2 | apply core_eq_insts]. }
  match goal with |- context [if ?c then (s3, _) else _] => destruct c end; [exact (DInv_core _ _ C3 D)|].
  destruct (jstate_eqb (j_state x) Ready || jstate_eqb (j_state x) Creating || jstate_eqb (j_state x) Running) eqn:St.
  2:{ destruct (terminal (j_state x)); exact (DInv_core _ _ C3 D). }
  cbn [fst].
  assert (Hxs : j_state x = Ready \/ j_state x = Creating \/ j_state x = Running).
  { apply orb_true_iff in St. destruct St as [St|St]; [apply orb_true_iff in St; destruct St as [St|St]|];
      apply jstate_eqb_eq in St; tauto. }
  set (att := if a =? -1 then None else Some a).
  set (x' := x <| j_state := ns |> <| j_attempt := att |>).
  set (s4 := update_job s3 x x').
  match goal with |- DInv (release_children (finish_groups ?s6 _ _) _ _ _) => set (s6' := s6) end.
  set (s7 := finish_groups s6' b (j_group x)).
  (* s7 agrees with s on everything but jobs, and jobs s7 = replace_job x' (jobs s) *)
  assert (J4 : jobs s4 = replace_job x' (jobs s)).
  { subst s4. rewrite update_job_jobs. destruct C3 as (_&_&_&_&_&E6&_). rewrite E6. reflexivity. }
  assert (X4 : simx s s4) by (eapply simx_trans; [apply simx_core; exact C3 | apply simx_update_job]).
  assert (X7 : simx s s7 /\ jobs s7 = jobs s4).
  { subst s7 s6'.
    match goal with |- context [finish_groups ?q _ _] => set (s6 := q) end.
    assert (X6 : simx s4 s6 /\ jobs s6 = jobs s4).
    { subst s6. match goal with |- context [if ?c then _ else _] => destruct c end.
      - split; [|reflexivity]. eapply simx_trans; [apply simx_groups | apply simx_batches].
        + intros g. destruct g; cbn. match goal with |- context [if ?c then _ else _] => destruct c end; reflexivity.
        + intros bt. destruct (b_id bt =? b); [destruct bt; reflexivity | reflexivity].
      - split; [|reflexivity]. apply simx_groups. intros g. destruct g; cbn. match goal with |- context [if ?c then _ else _] => destruct c end; reflexivity. }
    destruct (finish_groups_simx s6 b (j_group x)) as (X & Jf). destruct X6 as (X6 & J6).
    split; [eapply simx_trans; [exact X4 | eapply simx_trans; [exact X6 | exact X]] | congruence]. }
  destruct X7 as (X7 & J7).
  (* the children fold *)
  rewrite release_children_fold.
  assert (K7 : Kjobs s7).
  { unfold Kjobs. rewrite J7, J4. apply Kjobs_replace. exact (d_jkeys _ D). }
  destruct X7 as (U7 & P7 & S7 & A7 & N7 & G7 & B7).
  assert (Hk : kids_of s7 b j = kids_of s b j) by (unfold kids_of; rewrite P7; reflexivity).
  pose proof (fold_kids b (fun y => committed s7 b (j_update y)) (child_G (jstate_eqb ns Success))
                (child_G_static _) (fun y y' (St : static y y') => f_equal (committed s7 b) (proj1 (proj2 (proj2 St))))
                (kids_of s7 b j)) as Fk.
  rewrite Hk in *. specialize (Fk (NoDup_kids_of s b j (d_enodup _ D)) s7 K7).
  destruct Fk as (JF & RF).
  set (F := fold_left _ (kids_of s b j) s7) in *.
  destruct RF as (R1&R2&R3&R4&R5&R6&R7&R8&R9&R10).
  apply (map_DInv s F (mc_h s b j x ns att)).
  - rewrite JF, J7, J4, replace_job_map, map_map. apply map_ext_in. intros y Hy.
    destruct (mc_x_in s b j x Hx) as (_ & E1 & E2).
    unfold mc_h. subst x'.
    replace (j_batch (x <| j_state := ns |> <| j_attempt := att |>)) with b by (destruct x; cbn in *; congruence).
    replace (j_id (x <| j_state := ns |> <| j_attempt := att |>)) with j by (destruct x; cbn in *; congruence).
    unfold kid_map. unfold committed, find_update. rewrite U7. reflexivity.
  - apply (mc_h_static s b j x ns att D Hx Hxc Hxs).
  - congruence.
  - congruence.
  - congruence.
  - congruence.
  - congruence.
  - congruence.
  - congruence.
  - exact D.
  - apply (ob_job_ok s F b j x ns att D Hx Hxc Hxs).
    + destruct ns; cbn in Lt; try discriminate; reflexivity.
    + rewrite JF, J7, J4, replace_job_map, map_map. apply map_ext_in. intros y Hy.
      destruct (mc_x_in s b j x Hx) as (_ & E1 & E2).
      unfold mc_h. subst x'.
      replace (j_batch (x <| j_state := ns |> <| j_attempt := att |>)) with b by (destruct x; cbn in *; congruence).
      replace (j_id (x <| j_state := ns |> <| j_attempt := att |>)) with j by (destruct x; cbn in *; congruence).
      unfold kid_map. unfold committed, find_update. rewrite U7. reflexivity.
    + congruence.
    + congruence.
Qed.
