(** C41 — uncommitted updates have no effect on a batch.  Property theorems only
    (proofs: BatchDB/Pick.v, BatchDB/DepsCorollaries.v over the dependency invariant [DInv] of BatchDB/Deps.v).

    Property text: "Jobs and job groups submitted in a batch update that has not been committed are never scheduled,
    never counted in scheduling counters or batch/job-group tallies, and never change whether the batch or any group is
    complete, whatever happens to their parents meanwhile; an update that is never committed leaves the batch exactly
    as if it had not been started."

    Proved here (all good histories = legal driver/worker messages + schema-valid client requests, [Deps.good_history]):
      - a job of an open update has no attempt and is Pending, or Ready only as a parentless job of update 1
        (C41_uncommitted_inert);
      - "never scheduled", PARTIAL: everything the scheduler / canceller / autoscaler queries can select belongs to a
        committed update, and stays committed until the message about it arrives (C41_never_picked_partial,
        C41_picked_stays_committed_partial, C41_never_estimated_partial).  Partial because it rests on the assumption
        [Legal.earlier_committed] that the updates of a batch are committed in order, which the service does not enforce;
      - without that assumption it is FALSE (C41_never_picked_refuted): open finding
        C41:uncommitted-job-offered-by-scheduler:staged-update-1-job-while-later-update-committed;
      - "whatever happens to their parents": the completion of any other job, from ANY state, leaves a job of an open
        update untouched (C41_parent_completion_does_not_release; the defect repaired by migration 122).

    NOT proved here: the counters / tallies clauses are the counter invariants of C01 and C06; the non-interference
    clause ("exactly as if it had not been started") is checked by the oracle's update-erasure rerun
    (oracles.c41_noninterference) on the implementation only. *)
From HailV Require Import Common.Prelude BatchDB.Model BatchDB.Legal BatchDB.DepsDef BatchDB.Deps BatchDB.DepsCorollaries BatchDB.Pick.
Open Scope Z_scope.

(** A job of an update that is not committed was never handed to the driver: it has no attempt and is Pending — or
    Ready only as a parentless job of the first update (the state _create_jobs inserts it in). *)
Theorem C41_uncommitted_inert : forall ops, good_history ops ->
  forall x, In x (jobs (run ops)) -> jcommitted (run ops) x = false ->
  j_attempt x = None /\
  (j_state x = Pending \/ (j_state x = Ready /\ j_update x = 1 /\ parents_of (run ops) (j_batch x) (j_id x) = [])).
Proof. intros ops G. exact (uncommitted_job_inert (run ops) (DInv_reachable ops G)). Qed.
Print Assumptions C41_uncommitted_inert.

(** The invariant behind the selection: running groups / batches have a committed update, commits are in order. *)
Theorem C41_running_needs_commit : forall ops, legal_history ops -> RInv (run ops).
Proof. exact RInv_legal. Qed.
Print Assumptions C41_running_needs_commit.

(** Never scheduled (partial: in-order commits assumed by [good_history]): a job that the scheduler's or the
    canceller's selection queries can return — state Ready / Creating / Running in a job group whose state is
    'running' — belongs to a committed update. *)
Theorem C41_never_picked_partial : forall ops b j, good_history ops ->
  pickable (run ops) b j = true -> job_committed (run ops) b j = true.
Proof. exact pick_committed. Qed.
Print Assumptions C41_never_picked_partial.

(** ... and still does when the driver's (or its worker's) message about it arrives, however much later: this is the
    [job_committed] clause that Legal.v assumes of ScheduleJob / MarkCreating / MarkStarted / UnscheduleJob / MarkComplete. *)
Theorem C41_picked_stays_committed_partial : forall ops more b j, good_history (ops ++ more) ->
  pickable (run ops) b j = true -> job_committed (run (ops ++ more)) b j = true.
Proof. exact picked_stays_committed. Qed.
Print Assumptions C41_picked_stays_committed_partial.

(** The autoscaler's ready-cores estimate (Ready jobs of batches whose state is 'running') counts committed jobs only. *)
Theorem C41_never_estimated_partial : forall ops b j, good_history ops ->
  estimated (run ops) b j = true -> job_committed (run ops) b j = true.
Proof. exact estimated_committed. Qed.
Print Assumptions C41_never_estimated_partial.

(** Without the in-order assumption the statement is false: a history that satisfies every other clause of Legal.v
    and [client_ok] (only the order of the two commits is violated) after which job 1 of the open update 1 is selected. *)
Theorem C41_never_picked_refuted :
  exists ops b j,
    good_unordered_fromb init ops = true /\
    pickable (run ops) b j = true /\ estimated (run ops) b j = true /\ job_committed (run ops) b j = false /\
    good_fromb init ops = false.
Proof. exact pick_refuted_out_of_order. Qed.
Print Assumptions C41_never_picked_refuted.

(** Whatever happens to their parents: a completion report for job [j] — any attempt, any outcome, in ANY state —
    leaves every other job of an update that is not committed exactly as it was (state, n_pending_parents, cancelled). *)
Theorem C41_parent_completion_does_not_release : forall s b j a i ns st en rs c x,
  c <> j -> find_job s b c = Some x -> committed s b (j_update x) = false ->
  find_job (fst (step s (MarkComplete b j a i ns st en rs))) b c = Some x.
Proof. exact parent_completion_keeps_uncommitted. Qed.
Print Assumptions C41_parent_completion_does_not_release.

(** The corpus history of the repaired defect, in the model: the child stays Pending with its parent counted, is not
    selectable, and a forged schedule request for it is refused. *)
Theorem C41_corpus_child_not_released :
  good_history child_history /\
  let s := run child_history in
  find_job s 1 2 = Some (mkJob 1 2 2 0 Pending false 1000 1 false None 1) /\
  pickable s 1 2 = false /\ estimated s 1 2 = false /\
  snd (step s (ScheduleJob 1 2 2 1)) = ok [1; 0] /\
  find_job (fst (step s (ScheduleJob 1 2 2 1))) 1 2 = Some (mkJob 1 2 2 0 Pending false 1000 1 false None 1).
Proof. split; [exact child_history_good | exact child_not_released]. Qed.
Print Assumptions C41_corpus_child_not_released.

(** Non-vacuity: a good history in which a job is selectable. *)
Theorem C41_hypotheses_satisfiable :
  good_history (firstn 7 demo_history) /\ pickable (run (firstn 7 demo_history)) 1 1 = true.
Proof. exact pick_committed_nonvacuous. Qed.
Print Assumptions C41_hypotheses_satisfiable.
