(** C41 — uncommitted updates have no effect on a batch.  Property theorems only
    (proofs: BatchDB/Pick.v, BatchDB/DepsCorollaries.v over the dependency invariant [DInv] of BatchDB/Deps.v).

    Property text: "Jobs and job groups submitted in a batch update that has not been committed are never scheduled,
    never counted in scheduling counters or batch/job-group tallies, and never change whether the batch or any group is
    complete, whatever happens to their parents meanwhile; an update that is never committed leaves the batch exactly
    as if it had not been started."

    Proved here (all good histories = legal driver/worker messages + schema-valid client requests, [Deps.good_history]):
      - a job of an open update has no attempt and is Pending, or Ready only as a parentless job of update 1
        (C41_uncommitted_inert);
      - "never scheduled", PARTIAL: everything the scheduler / canceller / autoscaler queries can select belongs to a
        committed update, and stays committed until the message about it arrives (C41_never_picked_partial,
        C41_picked_stays_committed_partial, C41_never_estimated_partial).  Partial because it rests on the assumption
        [Legal.earlier_committed] that the updates of a batch are committed in order, which the service does not enforce;
      - without that assumption it is FALSE (C41_never_picked_refuted): open finding
        C41:uncommitted-job-offered-by-scheduler:staged-update-1-job-while-later-update-committed;
      - "whatever happens to their parents": the completion of any other job, from ANY state, leaves a job of an open
        update untouched (C41_parent_completion_does_not_release; the defect repaired by migration 122).

      - "never counted in scheduling counters or batch/job-group tallies, never change completeness" (BatchDB/Inert.v, from the
        invariants of C01 and C06): every counter column, every tally and every completeness flag is a recount over
        [cjobs] = the jobs of COMMITTED updates (C41_user_counters_committed_only, C41_group_cancellable_committed_only,
        C41_group_cancellable_open_update, C41_tallies_committed_only, C41_batch_tally_committed_only,
        C41_group_without_committed_jobs); every attempt row belongs to a committed job (C41_attempts_of_committed_jobs);
      - history form of inertness: the row of a job of an update that is still open at the end of a good history is exactly
        the row that was inserted (C41_uncommitted_row_frozen, C41_uncommitted_row_constant);
      - the analogue for the GROUPS of an open update is false without a sequential client (C41_open_update_group_running_refuted);
      - NON-INTERFERENCE, PARTIAL (BatchDB/NonInterf*.v): [erase] = the erasure of oracles.erase_last_uncommitted_update,
        [proj] = the state without the rows of the erased update.  For a good history [pre ++ open :: post] in which the
        request [open] creates update U of batch B while every other update of B is committed, U stays open and last, and
        [post] consists of SUPPORTED transactions: run (pre ++ erase post) = proj (run (pre ++ open :: post))
        (C41_noninterference_partial; state form C41_noninterference_phase2_partial; C41_noninterference_nonvacuous).
        Supported = every driver / worker / instance / billing transaction, create_update, create_groups / create_jobs / commit
        of batch B, staging clean-up.  MISSING transaction cases (the statement is otherwise the full one): create_batch,
        create_groups / create_jobs / commit of OTHER batches while U is open, cancel_job_group, delete_batch, cancellable clean-up.
        Extra hypotheses: the client opens U when all other updates of B are committed (without it another open update may
        use U's groups: C41_open_update_group_running_refuted); no row carries U's keys before U is opened (proj (run pre) = run pre). *)
From HailV Require Import Common.Prelude BatchDB.Model BatchDB.CMap BatchDB.Legal BatchDB.DepsDef BatchDB.Deps BatchDB.DepsCorollaries BatchDB.Pick
  BatchDB.Counters BatchDB.Tally BatchDB.TallyInv BatchDB.Inert
  BatchDB.NonInterfDef BatchDB.NonInterfInv BatchDB.NonInterfSim BatchDB.NonInterfClient BatchDB.NonInterf.
From HailV Require BatchDB.Cancel.
Open Scope Z_scope.

(** A job of an update that is not committed was never handed to the driver: it has no attempt and is Pending — or
    Ready only as a parentless job of the first update (the state _create_jobs inserts it in). *)
Theorem C41_uncommitted_inert : forall ops, good_history ops ->
  forall x, In x (jobs (run ops)) -> jcommitted (run ops) x = false ->
  j_attempt x = None /\
  (j_state x = Pending \/ (j_state x = Ready /\ j_update x = 1 /\ parents_of (run ops) (j_batch x) (j_id x) = [])).
Proof. intros ops G. exact (uncommitted_job_inert (run ops) (DInv_reachable ops G)). Qed.
Print Assumptions C41_uncommitted_inert.

(** The invariant behind the selection: running groups / batches have a committed update, commits are in order. *)
Theorem C41_running_needs_commit : forall ops, legal_history ops -> RInv (run ops).
Proof. exact RInv_legal. Qed.
Print Assumptions C41_running_needs_commit.

(** Never scheduled (partial: in-order commits assumed by [good_history]): a job that the scheduler's or the
    canceller's selection queries can return — state Ready / Creating / Running in a job group whose state is
    'running' — belongs to a committed update. *)
Theorem C41_never_picked_partial : forall ops b j, good_history ops ->
  pickable (run ops) b j = true -> job_committed (run ops) b j = true.
Proof. exact pick_committed. Qed.
Print Assumptions C41_never_picked_partial.

(** ... and still does when the driver's (or its worker's) message about it arrives, however much later: this is the
    [job_committed] clause that Legal.v assumes of ScheduleJob / MarkCreating / MarkStarted / UnscheduleJob / MarkComplete. *)
Theorem C41_picked_stays_committed_partial : forall ops more b j, good_history (ops ++ more) ->
  pickable (run ops) b j = true -> job_committed (run (ops ++ more)) b j = true.
Proof. exact picked_stays_committed. Qed.
Print Assumptions C41_picked_stays_committed_partial.

(** The autoscaler's ready-cores estimate (Ready jobs of batches whose state is 'running') counts committed jobs only. *)
Theorem C41_never_estimated_partial : forall ops b j, good_history ops ->
  estimated (run ops) b j = true -> job_committed (run ops) b j = true.
Proof. exact estimated_committed. Qed.
Print Assumptions C41_never_estimated_partial.

(** Without the in-order assumption the statement is false: a history that satisfies every other clause of Legal.v
    and [client_ok] (only the order of the two commits is violated) after which job 1 of the open update 1 is selected. *)
Theorem C41_never_picked_refuted :
  exists ops b j,
    good_unordered_fromb init ops = true /\
    pickable (run ops) b j = true /\ estimated (run ops) b j = true /\ job_committed (run ops) b j = false /\
    good_fromb init ops = false.
Proof. exact pick_refuted_out_of_order. Qed.
Print Assumptions C41_never_picked_refuted.

(** Whatever happens to their parents: a completion report for job [j] — any attempt, any outcome, in ANY state —
    leaves every other job of an update that is not committed exactly as it was (state, n_pending_parents, cancelled). *)
Theorem C41_parent_completion_does_not_release : forall s b j a i ns st en rs c x,
  c <> j -> find_job s b c = Some x -> committed s b (j_update x) = false ->
  find_job (fst (step s (MarkComplete b j a i ns st en rs))) b c = Some x.
Proof. exact parent_completion_keeps_uncommitted. Qed.
Print Assumptions C41_parent_completion_does_not_release.

(** The corpus history of the repaired defect, in the model: the child stays Pending with its parent counted, is not
    selectable, and a forged schedule request for it is refused. *)
Theorem C41_corpus_child_not_released :
  good_history child_history /\
  let s := run child_history in
  find_job s 1 2 = Some (mkJob 1 2 2 0 Pending false 1000 1 false None 1) /\
  pickable s 1 2 = false /\ estimated s 1 2 = false /\
  snd (step s (ScheduleJob 1 2 2 1)) = ok [1; 0] /\
  find_job (fst (step s (ScheduleJob 1 2 2 1))) 1 2 = Some (mkJob 1 2 2 0 Pending false 1000 1 false None 1).
Proof. split; [exact child_history_good | exact child_not_released]. Qed.
Print Assumptions C41_corpus_child_not_released.

(** Non-vacuity: a good history in which a job is selectable. *)
Theorem C41_hypotheses_satisfiable :
  good_history (firstn 7 demo_history) /\ pickable (run (firstn 7 demo_history)) 1 1 = true.
Proof. exact pick_committed_nonvacuous. Qed.
Print Assumptions C41_hypotheses_satisfiable.

(* ------------------------------------------------------------------ never counted (C01 / C06 in C41 vocabulary) *)

(** user_inst_coll_resources: all eight columns are recounts over [cjobs] = the jobs of committed updates only; rows of
    open updates can be added or removed without changing them. *)
Theorem C41_user_counters_committed_only : forall ops,
  good_history ops -> let s := run ops in forall usr ic,
    let v i := cval (key_eqb [usr; ic]) i (user_res s) in
    let sel st c x := user_job s usr ic x && (in_state x st && c x) in
    let live x := negb (eff_cancelled s x) in
    v 0%nat = Counters.count (sel Ready live) (cjobs s) /\ v 1%nat = cores (sel Ready live) (cjobs s) /\
    v 2%nat = Counters.count (sel Running live) (cjobs s) /\ v 3%nat = cores (sel Running live) (cjobs s) /\
    v 4%nat = Counters.count (sel Creating live) (cjobs s) /\
    v 5%nat = Counters.count (sel Ready (eff_cancelled s)) (cjobs s) /\
    v 6%nat = Counters.count (sel Running (eff_cancelled s)) (cjobs s) /\
    v 7%nat = Counters.count (sel Creating (eff_cancelled s)) (cjobs s).
Proof. exact user_counters_committed_only. Qed.
Print Assumptions C41_user_counters_committed_only.

(** job_group_inst_coll_cancellable_resources, rows of a committed update in a group that is not cancelled. *)
Theorem C41_group_cancellable_committed_only : forall ops,
  good_history ops -> let s := run ops in forall b u g ic,
    committed s b u = true -> group_cancelled s b g = false ->
    let v i := cval (key_eqb [b; u; g; ic]) i (cancellable s) in
    let sel st x := subtree_job s b u g ic x && (in_state x st && cancellable_job s x) in
    v 0%nat = Counters.count (sel Ready) (cjobs s) /\ v 1%nat = cores (sel Ready) (cjobs s) /\
    v 2%nat = Counters.count (sel Creating) (cjobs s) /\
    v 3%nat = Counters.count (sel Running) (cjobs s) /\ v 4%nat = cores (sel Running) (cjobs s).
Proof. exact group_cancellable_committed_only. Qed.
Print Assumptions C41_group_cancellable_committed_only.

(** ... and the rows of an OPEN update hold no creating / running job, and ready jobs only for update 1 (what _create_jobs wrote). *)
Theorem C41_group_cancellable_open_update : forall ops,
  good_history ops -> let s := run ops in forall b u g ic,
    committed s b u = false -> group_cancelled s b g = false ->
    let v i := cval (key_eqb [b; u; g; ic]) i (cancellable s) in
    v 2%nat = 0 /\ v 3%nat = 0 /\ v 4%nat = 0 /\ (u <> 1 -> v 0%nat = 0 /\ v 1%nat = 0).
Proof. exact group_cancellable_uncommitted_history. Qed.
Print Assumptions C41_group_cancellable_open_update.

(** The five tallies of every job group and whether it is complete depend on the committed jobs only. *)
Theorem C41_tallies_committed_only : forall ops,
  good_history ops -> let s := run ops in
  forall gr, In gr (groups s) ->
    let sub := csub s (g_batch gr) (g_id gr) in
    g_njobs gr = Z.of_nat (length sub) /\ g_ncompleted gr = TallyInv.count terminal sub /\ g_nsucc gr = TallyInv.count q_succ sub /\
    g_nfailed gr = TallyInv.count q_fail sub /\ g_ncancelled gr = TallyInv.count q_canc sub /\
    (g_running gr = false <-> forall x, In x sub -> terminal (j_state x) = true).
Proof. exact tallies_committed_only. Qed.
Print Assumptions C41_tallies_committed_only.

Theorem C41_batch_tally_committed_only : forall ops,
  good_history ops -> let s := run ops in
  forall bt, In bt (batches s) ->
    b_njobs bt = Z.of_nat (length (cbatch s (b_id bt))) /\
    (b_running bt = false <-> forall x, In x (cbatch s (b_id bt)) -> terminal (j_state x) = true).
Proof. exact batch_tally_committed_only. Qed.
Print Assumptions C41_batch_tally_committed_only.

(** A job group none of whose subtree jobs is committed has all tallies 0 and is complete. *)
Theorem C41_group_without_committed_jobs : forall ops,
  good_history ops -> let s := run ops in
  forall gr, In gr (groups s) ->
    (forall x, In x (jobs s) -> j_batch x = g_batch gr -> In (g_id gr) (anc_ids s (g_batch gr) (j_group x)) -> jcommitted s x = false) ->
    g_njobs gr = 0 /\ g_ncompleted gr = 0 /\ g_nsucc gr = 0 /\ g_nfailed gr = 0 /\ g_ncancelled gr = 0 /\ g_running gr = false.
Proof. exact group_without_committed_jobs. Qed.
Print Assumptions C41_group_without_committed_jobs.

(** Without a sequential client the groups of an open update CAN become running: update 1 puts a job into a group of
    the open update 2 and is committed. *)
Theorem C41_open_update_group_running_refuted :
  good_history open_group_history /\
  let s := run open_group_history in
  committed s 1 2 = false /\ find_group s 1 1 = Some (mkGroup 1 1 true 1 0 0 0 0 (Some 2)).
Proof. exact open_update_group_running_refuted. Qed.
Print Assumptions C41_open_update_group_running_refuted.

(** Never scheduled, at the level of the attempts table: every attempt row belongs to a job of a committed update. *)
Theorem C41_attempts_of_committed_jobs : forall ops, good_history ops ->
  forall a, In a (attempts (run ops)) -> job_committed (run ops) (a_batch a) (a_job a) = true.
Proof. exact AttInv_reachable. Qed.
Print Assumptions C41_attempts_of_committed_jobs.

(* ------------------------------------------------------------------ inertness over histories *)

Theorem C41_uncommitted_row_frozen : forall ops ext b j x,
  good_history (ops ++ ext) -> find_job (run ops) b j = Some x ->
  committed (run (ops ++ ext)) b (j_update x) = false ->
  find_job (run (ops ++ ext)) b j = Some x /\ j_attempt x = None /\ (j_state x = Pending \/ j_state x = Ready).
Proof. exact uncommitted_row_frozen. Qed.
Print Assumptions C41_uncommitted_row_frozen.

Theorem C41_uncommitted_row_constant : forall ops ext1 ext2 b j x y,
  good_history (ops ++ ext1 ++ ext2) -> find_job (run ops) b j = Some x ->
  find_job (run (ops ++ ext1)) b j = Some y ->
  committed (run (ops ++ ext1 ++ ext2)) b (j_update x) = false -> y = x.
Proof. exact uncommitted_row_constant. Qed.
Print Assumptions C41_uncommitted_row_constant.

Theorem C41_frozen_nonvacuous :
  good_history (firstn 10 demo_history ++ [nth 10 demo_history CleanupStaging]) /\
  find_job (run (firstn 10 demo_history)) 1 3 = Some (mkJob 1 3 2 0 Pending true 1000 1 false None 1) /\
  committed (run (firstn 11 demo_history)) 1 2 = false /\
  length (jobs (run (firstn 11 demo_history))) = 3%nat /\ length (cjobs (run (firstn 11 demo_history))) = 2%nat.
Proof. exact frozen_nonvacuous. Qed.
Print Assumptions C41_frozen_nonvacuous.

(* ------------------------------------------------------------------ non-interference *)

(** FULL STATEMENT (kept visible): for every good history [pre ++ open :: post] in which [open] creates update U of
    batch B, U is never committed and remains the last update of B:
        run (erase (pre ++ open :: post)) = proj (run (pre ++ open :: post)).
    PROVED: the statement below — with [Forall (supported B) post] (see the header for the missing transaction cases), the
    sequential-client hypothesis, and [proj (run pre) = run pre]; erasure applied to [post] (on [pre] the erased requests
    find no update / job / attempt to act on; checked for the example in C41_noninterference_nonvacuous). *)
Theorem C41_noninterference_partial : forall B U tok sj nj sg ng G0 pre usr nj' ng' post,
  let o0 := CreateUpdate B usr tok nj' ng' in
  good_history (pre ++ o0 :: post) ->
  proj B U sj G0 (run pre) = run pre -> Glow B G0 (run pre) -> 0 < G0 ->
  (forall x, In x (updates (run pre)) -> u_batch x = B -> u_committed x = true) ->
  (exists up, find_update (run (pre ++ [o0])) B U = Some up /\ u_start_job up = sj) -> find_update (run pre) B U = None ->
  Forall (supported B) post -> Open B U (run (pre ++ o0 :: post)) ->
  run (pre ++ erase B U tok sj nj sg ng post) = proj B U sj G0 (run (pre ++ o0 :: post)).
Proof. exact noninterference_history. Qed.
Print Assumptions C41_noninterference_partial.

(** State form: from ANY state satisfying the simulation invariant [NInv] (update U open and last, every other update of
    B committed, ...), for any good continuation of supported transactions after which U is still open and last. *)
Theorem C41_noninterference_phase2_partial : forall B U tok sj nj sg ng G0 ops s,
  NInv B U tok sj G0 s -> good_from s ops -> Forall (supported B) ops -> Open B U (Cancel.run_from s ops) ->
  Cancel.run_from (proj B U sj G0 s) (erase B U tok sj nj sg ng ops) = proj B U sj G0 (Cancel.run_from s ops).
Proof. intros. apply noninterference_phase2; assumption. Qed.
Print Assumptions C41_noninterference_phase2_partial.

Theorem C41_noninterference_nonvacuous :
  good_history (ni_pre ++ ni_open :: ni_post) /\
  proj 1 2 3 1 (run ni_pre) = run ni_pre /\ Glow 1 1 (run ni_pre) /\
  (forall x, In x (updates (run ni_pre)) -> u_batch x = 1 -> u_committed x = true) /\
  (exists up, find_update (run (ni_pre ++ [ni_open])) 1 2 = Some up /\ u_start_job up = 3) /\ find_update (run ni_pre) 1 2 = None /\
  Forall (supported 1) ni_post /\ Open 1 2 (run (ni_pre ++ ni_open :: ni_post)) /\
  run (ni_pre ++ erase 1 2 11 3 1 1 1 ni_post) = proj 1 2 3 1 (run (ni_pre ++ ni_open :: ni_post)) /\
  erase 1 2 11 3 1 1 1 (ni_pre ++ ni_open :: ni_post) = ni_pre ++ erase 1 2 11 3 1 1 1 ni_post /\
  length (jobs (run (ni_pre ++ ni_open :: ni_post))) = 3%nat /\ length (groups (run (ni_pre ++ ni_open :: ni_post))) = 2%nat /\
  length (jobs (run (ni_pre ++ erase 1 2 11 3 1 1 1 ni_post))) = 2%nat.
Proof. exact noninterference_nonvacuous. Qed.
Print Assumptions C41_noninterference_nonvacuous.
