(** C09: submission is idempotent under client retries (lemmas; the theorems are restated in Props_C09.v). *)
From HailV Require Import Common.Prelude BatchDB.Model BatchDB.Tables BatchDB.CMap BatchDB.Legal BatchDB.StepFrame BatchDB.Cancel.
From RecordUpdate Require Import RecordSet.
Import RecordSetNotations.
Open Scope Z_scope.

(* ------------------------------------------------------------------ list lookups *)

Lemma find_app {A} (p : A -> bool) l1 l2 :
  find p (l1 ++ l2) = match find p l1 with Some x => Some x | None => find p l2 end.
Proof. induction l1 as [|x l1 IH]; cbn [app find]; [reflexivity | destruct (p x); auto]. Qed.

Lemma find_map_key {A} (p : A -> bool) (f : A -> A) l :
  (forall x, p (f x) = p x) -> find p (map f l) = option_map f (find p l).
Proof. intros H. induction l as [|x l IH]; cbn [map find]; [reflexivity|]. rewrite H. destruct (p x); [reflexivity | exact IH]. Qed.

(** a retried request that changed nothing the first time is answered identically *)
Lemma retry_unchanged s o : fst (step s o) = s -> step (fst (step s o)) o = step s o.
Proof. intros E. rewrite E. reflexivity. Qed.

Definition retriable (o : op) : Prop :=
  match o with CreateBatch _ _ _ _ | CreateUpdate _ _ _ _ _ | CreateJobs _ _ _ _ | Commit _ _ _ => True | _ => False end.

(* ------------------------------------------------------------------ CreateBatch *)

Lemma create_batch_retry s user bp token member :
  step (fst (step s (CreateBatch user bp token member))) (CreateBatch user bp token member) = step s (CreateBatch user bp token member).
Proof.
  cbn [step]. unfold do_create_batch at 2 3. destruct (negb member) eqn:M; [cbn [fst]; unfold do_create_batch; rewrite M; reflexivity|].
  destruct (find (fun x => (b_token x =? token) && (b_user x =? user)) (batches s)) as [x|] eqn:F.
  - cbn [fst]. unfold do_create_batch. rewrite M, F. reflexivity.
  - cbv zeta. cbn [fst]. unfold do_create_batch. rewrite M.
    unfold create_group_rows at 1. scbn. rewrite find_app, F. cbn [find b_token b_user]. rewrite !Z.eqb_refl. cbn [andb b_id]. reflexivity.
Qed.

(* ------------------------------------------------------------------ CreateUpdate *)

Lemma create_update_retry s b user token nj ng :
  step (fst (step s (CreateUpdate b user token nj ng))) (CreateUpdate b user token nj ng) = step s (CreateUpdate b user token nj ng).
Proof.
  cbn [step].
  destruct (do_create_update s b user token nj ng) as [s' r] eqn:E. cbn [fst].
  unfold do_create_update in E.
  destruct ((nj <? 0) || (ng <? 0)) eqn:C0; [injection E as <- <-; unfold do_create_update; rewrite C0; reflexivity|].
  destruct (negb ((0 <? nj) || (0 <? ng))) eqn:C1; [injection E as <- <-; unfold do_create_update; rewrite C0, C1; reflexivity|].
  destruct (find_batch s b) as [bt|] eqn:Fb.
  2:{ injection E as <- <-. unfold do_create_update. rewrite C0, C1, Fb. reflexivity. }
  destruct (b_user bt =? user) eqn:Eu.
  2:{ cbn [negb orb] in E. injection E as <- <-. unfold do_create_update. rewrite C0, C1, Fb, Eu. reflexivity. }
  destruct (find (fun x => (u_batch x =? b) && (u_token x =? token)) (updates s)) as [x|] eqn:Fu.
  { injection E as <- <-. unfold do_create_update. rewrite C0, C1, Fb, Eu, Fu. reflexivity. }
  cbn [negb orb] in E. destruct (b_deleted bt) eqn:Dl.
  { injection E as <- <-. unfold do_create_update. rewrite C0, C1, Fb, Eu, Fu, Dl. reflexivity. }
  destruct (marked s b 0) eqn:Mk.
  { injection E as <- <-. unfold do_create_update. rewrite C0, C1, Fb, Eu, Fu, Dl, Mk. reflexivity. }
  destruct (match last_update s b with
            | Some l => (u_id l + 1, u_start_group l + u_ngroups l, u_start_job l + u_njobs l)
            | None => (1, 1, 1) end) as [[uid sg] sj] eqn:Lu.
  injection E as <- <-.
  unfold do_create_update. rewrite C0, C1.
  change (find_batch (s <| updates ::= _ |>) b) with (find_batch s b). rewrite Fb, Eu. scbn.
  rewrite find_app, Fu. cbn [find u_batch u_token]. rewrite !Z.eqb_refl. cbn [andb]. reflexivity.
Qed.

(* ------------------------------------------------------------------ CreateJobs *)

Lemma do_create_jobs_full s b u user jss :
  let r := do_create_jobs s b u user jss in
  fst r = s \/
  exists up bt, is_nil jss = false /\ find_update s b u = Some up /\ find_batch s b = Some bt /\
                (negb (b_user bt =? user) || b_deleted bt) = false /\ u_committed up = false /\
                contiguous (map js_id jss) = true /\ forallb (spec_ok s b up) jss = true /\
                insert_verdict s b (map fst (cj_specs b u up jss)) [] = 0 /\
                r = (cj_insert s b (cj_specs b u up jss), ok []).
Proof.
  cbv zeta. unfold do_create_jobs.
  destruct (is_nil jss) eqn:Nil; [left; reflexivity|].
  destruct (find_update s b u) as [up|]; [|left; reflexivity].
  destruct (find_batch s b) as [bt|]; [|left; reflexivity].
  destruct (negb (b_user bt =? user) || b_deleted bt) eqn:Cond; [left; reflexivity|].
  destruct (u_committed up) eqn:Cm; [left; reflexivity|].
  cbv zeta. destruct jss as [|j0 jss']; [left; reflexivity|]. set (jss := j0 :: jss') in *.
  destruct (contiguous (map js_id jss)) eqn:Ct; cbn [negb]; [|left; reflexivity].
  destruct (forallb (spec_ok s b up) jss) eqn:Sp; cbn [negb]; [|left; reflexivity].
  fold (cj_specs b u up jss).
  pose proof (insert_verdict_range s b (map fst (cj_specs b u up jss)) []) as V. cbv zeta in V.
  destruct V as [V|[V|[V|V]]]; rewrite V; try (left; reflexivity).
  match goal with |- context [if ?c then _ else _] => destruct c end; [left; reflexivity|].
  right. exists up, bt. repeat split; auto.
Qed.

(* a bunch whose first row already exists (and whose group is not cancelled) is answered ok and changes nothing *)
Lemma do_create_jobs_dup s b u user jss up bt :
  is_nil jss = false -> find_update s b u = Some up -> find_batch s b = Some bt ->
  (negb (b_user bt =? user) || b_deleted bt) = false -> u_committed up = false ->
  contiguous (map js_id jss) = true -> forallb (spec_ok s b up) jss = true ->
  insert_verdict s b (map fst (cj_specs b u up jss)) [] = 2 ->
  do_create_jobs s b u user jss = (s, ok []).
Proof.
  intros Nil Fu Fb Cond Cm Ct Sp V. unfold do_create_jobs. rewrite Nil, Fu, Fb, Cond, Cm. cbv zeta.
  destruct jss as [|j0 jss']; [discriminate|]. set (jss := j0 :: jss') in *.
  rewrite Ct, Sp. cbn [negb]. fold (cj_specs b u up jss). rewrite V. reflexivity.
Qed.

(* whatever the verdict, a bunch whose first row already exists changes nothing *)
Lemma insert_verdict_first_exists s b x js :
  find_job s b (j_id x) <> None -> insert_verdict s b (x :: js) [] = 1 \/ insert_verdict s b (x :: js) [] = 2.
Proof.
  intros F. cbn [insert_verdict]. destruct (group_cancelled s b (j_group x)); [left; reflexivity|].
  cbn [existsb orb]. destruct (find_job s b (j_id x)); [right; reflexivity | contradiction].
Qed.

Lemma do_create_jobs_first_exists s b u user jss up j0 :
  find_update s b u = Some up -> hd_error jss = Some j0 ->
  find_job s b (j_id (fst (job_of_spec b u (u_start_job up) (u_start_group up) j0))) <> None ->
  fst (do_create_jobs s b u user jss) = s.
Proof.
  intros Fu Hd F. destruct (do_create_jobs_full s b u user jss) as [E | (up' & bt & _ & Fu' & _ & _ & _ & _ & _ & V & _)]; [exact E|].
  exfalso. rewrite Fu in Fu'. injection Fu' as <-. destruct jss as [|j1 jss']; [discriminate|]. cbn in Hd. injection Hd as ->.
  unfold cj_specs in V. cbn [map] in V.
  destruct (insert_verdict_first_exists s b _ (map fst (map (job_of_spec b u (u_start_job up) (u_start_group up)) jss')) F) as [V'|V']; congruence.
Qed.

(* validation of the specs only looks at jobs and updates that are still there *)
Lemma spec_ok_mono s s' b up x :
  (forall p y, find_job s b p = Some y -> exists y', find_job s' b p = Some y' /\ j_update y' = j_update y) ->
  (forall v w, find_update s b v = Some w -> u_committed w = true -> exists w', find_update s' b v = Some w' /\ u_committed w' = true) ->
  spec_ok s b up x = true -> spec_ok s' b up x = true.
Proof.
  intros Hj Hu. unfold spec_ok. cbv zeta. intros H.
  apply andb_true_iff in H. destruct H as [H1 H2]. apply andb_true_iff. split; [exact H1|].
  rewrite forallb_forall in *. intros p Hp. specialize (H2 p Hp).
  apply andb_true_iff in H2. destruct H2 as [H2 H3]. apply andb_true_iff. split; [exact H2|].
  apply orb_true_iff in H3. apply orb_true_iff. destruct H3 as [H3|H3]; [left; exact H3|]. right.
  destruct (find_job s b p) as [y|] eqn:Fy; [|discriminate].
  destruct (Hj _ _ Fy) as (y' & Fy' & Ey). rewrite Fy', Ey.
  destruct (find_update s b (j_update y)) as [w|] eqn:Fw; [|discriminate].
  destruct (Hu _ _ Fw H3) as (w' & Fw' & Cw). rewrite Fw'. exact Cw.
Qed.

Lemma cj_insert_same_tree_fields s b js :
  updates (cj_insert s b js) = updates s /\ batches (cj_insert s b js) = batches s /\ marks (cj_insert s b js) = marks s /\
  ancestors (cj_insert s b js) = ancestors s /\ groups (cj_insert s b js) = groups s.
Proof.
  unfold cj_insert. repeat split; (rewrite fold_keeps; [reflexivity|]; intros st x; reflexivity).
Qed.

Lemma create_jobs_retry s b u user jss :
  step (fst (step s (CreateJobs b u user jss))) (CreateJobs b u user jss) = step s (CreateJobs b u user jss).
Proof.
  cbn [step]. destruct (do_create_jobs_full s b u user jss) as [E | (up & bt & Nil & Fu & Fb & Cond & Cm & Ct & Sp & V & E)].
  - rewrite E. reflexivity.
  - rewrite E. cbn [fst]. set (s' := cj_insert s b (cj_specs b u up jss)).
    destruct (cj_insert_same_tree_fields s b (cj_specs b u up jss)) as (Eu & Eb & Em & Ea & Eg). fold s' in Eu, Eb, Em, Ea, Eg.
    assert (Ej : jobs s' = jobs s ++ map fst (cj_specs b u up jss)) by apply cj_insert_jobs.
    assert (Fu' : forall v, find_update s' b v = find_update s b v) by (intros v; unfold find_update; rewrite Eu; reflexivity).
    assert (Fb' : find_batch s' b = find_batch s b) by (unfold find_batch; rewrite Eb; reflexivity).
    apply do_create_jobs_dup with (up := up) (bt := bt); auto; try (rewrite ?Fu', ?Fb'; assumption).
    + (* validation still passes *)
      rewrite forallb_forall in *. intros x Hx. eapply spec_ok_mono; [| |apply Sp; exact Hx].
      * intros p y Fy. exists y. split; [|reflexivity]. rewrite find_job_eq in *. rewrite Ej. apply find_app_some. exact Fy.
      * intros v w Fw Cw. exists w. rewrite Fu'. auto.
    + (* the first row is found again *)
      destruct jss as [|j0 jss']; [discriminate|]. unfold cj_specs in *. cbn [map] in *.
      set (x0 := fst (job_of_spec b u (u_start_job up) (u_start_group up) j0)) in *.
      pose proof (fun x H => proj1 (cj_specs_batch b u up (j0 :: jss') x H)) as Hb. unfold cj_specs in Hb. cbn [map] in Hb. fold x0 in Hb.
      destruct (insert_verdict_ok s b _ [] Hb V) as (F & _). inversion F as [|? ? (G0 & _ & Fn0 & _) _]; subst.
      cbn [insert_verdict].
      assert (Gc' : group_cancelled s' b (j_group x0) = group_cancelled s b (j_group x0)).
      { unfold group_cancelled, n_cancelled_anc, anc_ids, anc_rows, marked. rewrite Ea, Em. reflexivity. }
      rewrite Gc', G0. cbn [existsb orb].
      assert (Fx : find_job s' b (j_id x0) = Some x0).
      { rewrite find_job_eq in *. rewrite Ej, find_jkey_app, Fn0. cbn [find].
        replace (jkey b (j_id x0) x0) with true; [reflexivity|]. symmetry. apply jkey_true. split; [apply Hb; left; reflexivity | reflexivity]. }
      rewrite Fx. reflexivity.
Qed.

(* ------------------------------------------------------------------ Commit *)

Definition set_committed (b u : Z) (x : update) : update :=
  if (u_batch x =? b) && (u_id x =? u) then x <| u_committed := true |> else x.

Definition bump_batch (b n : Z) (x : batch) : batch :=
  if b_id x =? b then x <| b_running := true |> <| b_njobs := b_njobs x + n |> else x.

(* a commit that is carried out: the update's rows become committed, the batch row gets the jobs, no mark changes *)
Lemma do_commit_proc_shape s b u :
  fst (do_commit_proc s b u) = s \/
  exists up, find_update s b u = Some up /\ u_committed up = false /\ snd (do_commit_proc s b u) = ok [0] /\
             updates (fst (do_commit_proc s b u)) = map (set_committed b u) (updates s) /\
             (batches (fst (do_commit_proc s b u)) = batches s \/
              batches (fst (do_commit_proc s b u)) = map (bump_batch b (u_njobs up)) (batches s)) /\
             marks (fst (do_commit_proc s b u)) = marks s.
Proof.
  unfold do_commit_proc. destruct (find_update s b u) as [up|] eqn:Fu; [|left; reflexivity].
  destruct (u_committed up) eqn:Cm; [left; reflexivity|]. cbv zeta.
  match goal with |- context [if ?c then _ else _] => destruct c end; [left; reflexivity|].
  right. exists up. split; [reflexivity|]. split; [exact Cm|].
  match goal with |- context [if ?c then _ else _] => destruct c end.
  { cbn [fst snd]. scbn. repeat split; auto. }
  match goal with |- context [fold_left ?f (staging s) ?s3] => set (s4 := fold_left f (staging s) s3) end.
  assert (F4 : updates s4 = map (set_committed b u) (updates s) /\ batches s4 = map (bump_batch b (u_njobs up)) (batches s) /\ marks s4 = marks s).
  { subst s4. match goal with |- context [fold_left ?f (staging s) ?s3] => pose proof (commit_user_res_fold_core f (staging s) s3) as F end.
    cbv zeta in F. destruct F as (F1 & F2 & _ & _ & F5 & _).
    - intros st [k v]. destruct k as [|b' [|u' [|g' [|ic [|]]]]]; auto. destruct v as [|v0 [|nr [|rc [|]]]]; auto.
      match goal with |- context [if ?c then _ else _] => destruct c end; eauto.
    - rewrite F1, F2, F5. scbn. repeat split; reflexivity. }
  destruct F4 as (U4 & B4 & M4).
  destruct (u =? 1); cbn [fst snd].
  - repeat split; auto.
  - split; [reflexivity|].
    rewrite !fold_keeps by (intros; autorewrite with frame; reflexivity). repeat split; auto.
Qed.

Lemma find_update_set_committed s b u up :
  find_update s b u = Some up ->
  find (fun x => (u_batch x =? b) && (u_id x =? u)) (map (set_committed b u) (updates s)) = Some (up <| u_committed := true |>).
Proof.
  unfold find_update. intros F. rewrite find_map_key.
  - rewrite F. cbn [option_map]. unfold set_committed. apply find_some in F. destruct F as (_ & K). rewrite K. reflexivity.
  - intros x. unfold set_committed. destruct ((u_batch x =? b) && (u_id x =? u)) eqn:K; [cbn; exact K | exact K].
Qed.

Lemma commit_retry s b u user :
  step (fst (step s (Commit b u user))) (Commit b u user) = step s (Commit b u user).
Proof.
  cbn [step]. unfold do_commit at 2 3.
  destruct (find_batch s b) as [bt|] eqn:Fb.
  2:{ cbn [fst]. unfold do_commit. rewrite Fb. reflexivity. }
  destruct (find_update s b u) as [up0|] eqn:Fu.
  2:{ cbn [fst]. unfold do_commit. rewrite Fb, Fu. reflexivity. }
  destruct (negb (b_user bt =? user) || b_deleted bt) eqn:Cond.
  { cbn [fst]. unfold do_commit. rewrite Fb, Fu, Cond. reflexivity. }
  destruct (marked s b 0) eqn:Mk.
  { cbn [fst]. unfold do_commit. rewrite Fb, Fu, Cond, Mk. reflexivity. }
  destruct (do_commit_proc_shape s b u) as [E | (up & Fu' & Cm & R & U & B & M)].
  - rewrite E. unfold do_commit. rewrite Fb, Fu, Cond, Mk. reflexivity.
  - set (s' := fst (do_commit_proc s b u)) in *.
    assert (Fu2 : find_update s' b u = Some (up <| u_committed := true |>)).
    { unfold find_update at 1. rewrite U. apply find_update_set_committed. exact Fu'. }
    assert (Fb2 : exists bt', find_batch s' b = Some bt' /\ b_user bt' = b_user bt /\ b_deleted bt' = b_deleted bt).
    { unfold find_batch at 1. destruct B as [B|B]; rewrite B.
      - exists bt. auto.
      - rewrite find_map_key by (intros x; unfold bump_batch; destruct (b_id x =? b) eqn:K; [cbn; exact K | exact K]).
        unfold find_batch in Fb. rewrite Fb. cbn [option_map]. eexists. split; [reflexivity|].
        unfold bump_batch. destruct (b_id bt =? b); split; reflexivity. }
    destruct Fb2 as (bt' & Fb2 & Eu & Ed).
    assert (Mk2 : marked s' b 0 = false) by (unfold marked; rewrite M; exact Mk).
    unfold do_commit. rewrite Fb2, Fu2, Eu, Ed, Cond, Mk2.
    unfold do_commit_proc at 1. rewrite Fu2. cbn [u_committed set]. 
    rewrite (surjective_pairing (do_commit_proc s b u)). fold s'. rewrite R. reflexivity.
Qed.

(* ------------------------------------------------------------------ (1) every retriable request, any state *)

Theorem retry_idempotent s o : retriable o -> step (fst (step s o)) o = step s o.
Proof.
  destruct o; try contradiction; intros _;
    [apply create_batch_retry | apply create_update_retry | apply create_jobs_retry | apply commit_retry].
Qed.

(* ------------------------------------------------------------------ a re-sent job-group bunch is rejected and changes nothing *)

Lemma cog_fold_created b u sg l s s' :
  fold_left (create_one_group b u sg) l (Some s) = Some s' ->
  forall gs, In gs l -> find_group s' b (gspec_group sg gs) <> None.
Proof.
  revert s. induction l as [|x l IH]; intros s E gs Hin; [contradiction|]. cbn [fold_left] in E.
  destruct (create_one_group b u sg (Some s) x) as [st|] eqn:C; [|rewrite cog_fold_none in E; discriminate].
  destruct Hin as [<- | Hin]; [|eapply IH; eassumption].
  apply create_one_group_some in C. cbv zeta in C. destruct C as (_ & _ & _ & Est).
  assert (G : grow st s').
  { eapply (cog_fold_rel grow); [apply grow_refl | apply grow_trans | | exact E].
    intros st0 gs0 st0' C0. apply create_one_group_some in C0. cbv zeta in C0. destruct C0 as (_ & _ & _ & ->). apply create_group_rows_grow. }
  apply in_gk_find. destruct (gr_groups _ _ G) as (e & ->). apply in_or_app. left.
  rewrite Est. unfold create_group_rows. scbn. rewrite map_app. apply in_or_app. right. left. reflexivity.
Qed.

Theorem create_groups_retry_rejected s b u user gss :
  snd (step s (CreateGroups b u user gss)) = ok [] ->
  step (fst (step s (CreateGroups b u user gss))) (CreateGroups b u user gss) = (fst (step s (CreateGroups b u user gss)), bad_request).
Proof.
  intros Ok. cbn [step] in *.
  destruct (do_create_groups_shape s b u user gss) as [[_ N] | (up & Fu & F & _ & Fb)]; [contradiction|].
  set (s1 := fst (do_create_groups s b u user gss)) in *.
  (* what the first run checked *)
  unfold do_create_groups in Ok.
  destruct (is_nil gss) eqn:Nil; [discriminate|]. rewrite Fu in Ok.
  destruct (find_batch s b) as [bt|] eqn:Fbt; [|contradiction].
  destruct (negb (b_user bt =? user) || b_deleted bt) eqn:Cond; [discriminate|].
  destruct (u_committed up) eqn:Cm; [discriminate|].
  destruct gss as [|g0 gss']; [discriminate|]. clear Ok.
  assert (G : grow s s1).
  { eapply (cog_fold_rel grow); [apply grow_refl | apply grow_trans | | exact F].
    intros st0 gs0 st0' C0. apply create_one_group_some in C0. cbv zeta in C0. destruct C0 as (_ & _ & _ & ->). apply create_group_rows_grow. }
  assert (Eu : updates s1 = updates s /\ batches s1 = batches s).
  { eapply (cog_fold_rel (fun st st' => updates st' = updates st /\ batches st' = batches st)); [auto | intros ? ? ? [] []; split; congruence | | exact F].
    intros st0 gs0 st0' C0. apply create_one_group_some in C0. cbv zeta in C0. destruct C0 as (_ & _ & _ & ->). split; reflexivity. }
  destruct Eu as (Eu & Eb).
  unfold do_create_groups. rewrite Nil. unfold find_update, find_batch. rewrite Eu, Eb.
  fold (find_update s b u). fold (find_batch s b). rewrite Fu, Fbt, Cond, Cm.
  match goal with |- context [if ?c then _ else _] => destruct c end; [reflexivity|].
  cbn [fold_left].
  assert (C : create_one_group b u (u_start_group up) (Some s1) g0 = None).
  { unfold create_one_group. destruct (group_cancelled s1 b _); [reflexivity|].
    pose proof (cog_fold_created _ _ _ _ _ _ F g0 (or_introl eq_refl)) as Fg. unfold gspec_group in Fg.
    destruct (find_group s1 b (u_start_group up + gs_id g0 - 1)); [reflexivity | contradiction]. }
  rewrite C, cog_fold_none. reflexivity.
Qed.

(* ------------------------------------------------------------------ (2) the id ranges of the updates of a batch *)

Definition of_batch (b : Z) (l : list update) : list update := filter (fun x => u_batch x =? b) l.

(** ids count up from [id]; each update's job / group range starts where the previous one ended *)
Fixpoint chained (id sj sg : Z) (l : list update) : Prop :=
  match l with
  | [] => True
  | x :: r => u_id x = id /\ u_start_job x = sj /\ u_start_group x = sg /\ chained (id + 1) (sj + u_njobs x) (sg + u_ngroups x) r
  end.

Fixpoint chain_end (id sj sg : Z) (l : list update) : Z * Z * Z :=
  match l with
  | [] => (id, sj, sg)
  | x :: r => chain_end (id + 1) (sj + u_njobs x) (sg + u_ngroups x) r
  end.

Definition ranges_ok (s : state) : Prop :=
  (forall b, chained 1 1 1 (of_batch b (updates s))) /\
  Forall (fun x => 0 <= u_njobs x /\ 0 <= u_ngroups x) (updates s).

Lemma chained_app id sj sg l n :
  chained id sj sg (l ++ [n]) <->
  chained id sj sg l /\ (u_id n, u_start_job n, u_start_group n) = chain_end id sj sg l.
Proof.
  revert id sj sg. induction l as [|x l IH]; intros id sj sg; cbn [app chained chain_end].
  - split; [intros (A & B & C & _); split; [exact I | congruence] | intros (_ & E); injection E as -> -> ->; auto].
  - rewrite IH. tauto.
Qed.

Lemma chained_ukey b l l' : map ukey l = map ukey l' ->
  forall id sj sg, chained id sj sg (of_batch b l) -> chained id sj sg (of_batch b l').
Proof.
  revert l'. induction l as [|x l IH]; intros [|x' l'] E; try discriminate; [auto|].
  cbn [map] in E. injection E as E1 E2 E3 E4 E5 E6 E7 E. intros id sj sg. cbn [of_batch filter]. rewrite <- E1.
  destruct (u_batch x =? b); [|apply (IH _ E)]. cbn [chained]. rewrite <- E2, <- E4, <- E5, <- E6, <- E7.
  intros (A & B & C & D). repeat split; auto. apply (IH _ E). exact D.
Qed.

Lemma nonneg_ukey l l' : map ukey l = map ukey l' ->
  Forall (fun x => 0 <= u_njobs x /\ 0 <= u_ngroups x) l -> Forall (fun x => 0 <= u_njobs x /\ 0 <= u_ngroups x) l'.
Proof.
  revert l'. induction l as [|x l IH]; intros [|x' l'] E; try discriminate; intros F; constructor.
  - cbn [map] in E. injection E as _ _ _ _ E5 _ E7 _. inversion F; subst. lia.
  - cbn [map] in E. injection E as _ _ _ _ _ _ _ E. inversion F; subst. apply (IH _ E). assumption.
Qed.

(* [last_update] is the end of the chain *)
Definition lu_step (b : Z) (acc : option update) (x : update) : option update :=
  if u_batch x =? b then match acc with Some y => if u_id y <? u_id x then Some x else acc | None => Some x end else acc.

Definition lu_next (acc : option update) : Z * Z * Z :=
  match acc with Some l => (u_id l + 1, u_start_job l + u_njobs l, u_start_group l + u_ngroups l) | None => (1, 1, 1) end.

Lemma last_update_chain b l : forall acc id sj sg,
  chained id sj sg (of_batch b l) -> lu_next acc = (id, sj, sg) ->
  lu_next (fold_left (lu_step b) l acc) = chain_end id sj sg (of_batch b l).
Proof.
  induction l as [|x l IH]; intros acc id sj sg C N; cbn [fold_left of_batch filter] in C |- *; [exact N|].
  unfold lu_step at 2. fold (of_batch b l) in C |- *. destruct (u_batch x =? b); [|apply IH; assumption].
  cbn [chained chain_end] in *. destruct C as (A & B & D & C).
  assert (E : match acc with Some y => if u_id y <? u_id x then Some x else acc | None => Some x end = Some x).
  { destruct acc as [y|]; [|reflexivity]. cbn in N. injection N as N1 _ _.
    replace (u_id y <? u_id x) with true; [reflexivity|]. symmetry. apply Z.ltb_lt. lia. }
  rewrite E. apply IH; [exact C|]. cbn. congruence.
Qed.

Lemma last_update_next s b :
  chained 1 1 1 (of_batch b (updates s)) ->
  lu_next (last_update s b) = chain_end 1 1 1 (of_batch b (updates s)).
Proof. intros C. unfold last_update. apply (last_update_chain b (updates s) None 1 1 1 C). reflexivity. Qed.

Lemma of_batch_app b l1 l2 : of_batch b (l1 ++ l2) = of_batch b l1 ++ of_batch b l2.
Proof. apply filter_app. Qed.

Lemma ranges_ok_create_update s b user token nj ng : ranges_ok s -> ranges_ok (fst (step s (CreateUpdate b user token nj ng))).
Proof.
  intros (Hc & Hn). cbn [step]. unfold do_create_update.
  destruct ((nj <? 0) || (ng <? 0)) eqn:C0; [exact (conj Hc Hn)|].
  destruct (negb ((0 <? nj) || (0 <? ng))); [exact (conj Hc Hn)|].
  match goal with |- context [match ?c with Some _ => _ | None => _ end] => destruct c end; [exact (conj Hc Hn)|].
  destruct (find_batch s b); [|exact (conj Hc Hn)].
  match goal with |- context [if ?c then _ else _] => destruct c end; [exact (conj Hc Hn)|].
  destruct (marked s b 0); [exact (conj Hc Hn)|].
  pose proof (last_update_next s b (Hc b)) as L. unfold lu_next in L.
  destruct (chain_end 1 1 1 (of_batch b (updates s))) as [[i j] g] eqn:CE.
  destruct (last_update s b) as [lu|]; injection L as L1 L2 L3; cbn [fst]; unfold ranges_ok; scbn; (split;
  [ intros b'; rewrite of_batch_app; cbn [of_batch filter u_batch]; destruct (b =? b') eqn:Eb;
    [ apply Z.eqb_eq in Eb; subst b'; apply chained_app; split; [apply Hc|]; cbn [u_id u_start_job u_start_group]; congruence
    | rewrite app_nil_r; apply Hc ]
  | apply Forall_app; split; [exact Hn|]; constructor; [|constructor]; cbn [u_njobs u_ngroups];
    apply orb_false_iff in C0; destruct C0 as [C1 C2]; apply Z.ltb_ge in C1, C2; lia ]).
Qed.

Lemma step_ukeys s o :
  match o with CreateUpdate _ _ _ _ _ => True | _ => map ukey (updates (fst (step s o))) = map ukey (updates s) end.
Proof.
  pose proof (step_same_tree s o) as T.
  destruct o; try exact I; try (destruct T; assumption); cbn [step].
  - unfold do_create_batch, create_group_rows. repeat (dmatch; try reflexivity).
  - destruct (do_create_groups_shape s b u user gs) as [[E _] | (up & _ & F & _ & _)]; [rewrite E; reflexivity|].
    eapply (cog_fold_rel (fun st st' => map ukey (updates st') = map ukey (updates st))); [reflexivity | intros; congruence | | exact F].
    intros st0 gs0 st0' C0. apply create_one_group_some in C0. cbv zeta in C0. destruct C0 as (_ & _ & _ & ->). reflexivity.
  - destruct (cancel_step_cases s b g) as [E | E]; cbn [step] in E; rewrite E; [reflexivity | rewrite cancel_proc_updates; reflexivity].
  - unfold do_delete_batch. repeat (dmatch; try reflexivity). cbn [fst]. scbn. rewrite cancel_proc_updates. reflexivity.
Qed.

Lemma ranges_ok_step s o : ranges_ok s -> ranges_ok (fst (step s o)).
Proof.
  intros R. pose proof (step_ukeys s o) as K.
  destruct o; try (destruct R as (Hc & Hn); split; [intros b'; eapply chained_ukey; [symmetry; exact K | apply Hc] | eapply nonneg_ukey; [symmetry; exact K | exact Hn]]).
  apply ranges_ok_create_update. exact R.
Qed.

Lemma ranges_ok_init : ranges_ok init.
Proof. split; [intros b; exact I | constructor]. Qed.

Lemma ranges_ok_run ops : ranges_ok (run ops).
Proof. apply (run_invariant ranges_ok); [apply ranges_ok_init | apply ranges_ok_step]. Qed.

(* consequences: in update order, contiguous, disjoint; (batch, update id) is a key *)
Definition unn (x : update) : Prop := 0 <= u_njobs x /\ 0 <= u_ngroups x.

Lemma chained_lower l : forall id sj sg, chained id sj sg l -> Forall unn l ->
  forall y, In y l -> id <= u_id y /\ sj <= u_start_job y /\ sg <= u_start_group y.
Proof.
  induction l as [|x l IH]; intros id sj sg C N y Hy; [contradiction|].
  cbn [chained] in C. destruct C as (A & B & D & C). inversion N as [|? ? Nx Nl]; subst.
  destruct Hy as [<- | Hy]; [lia|]. destruct (IH _ _ _ C Nl y Hy) as (H1 & H2 & H3). unfold unn in Nx. lia.
Qed.

Lemma chained_after l1 : forall id sj sg x l2, chained id sj sg (l1 ++ x :: l2) -> Forall unn (l1 ++ x :: l2) ->
  forall y, In y l2 -> u_id x < u_id y /\ u_start_job x + u_njobs x <= u_start_job y /\ u_start_group x + u_ngroups x <= u_start_group y.
Proof.
  induction l1 as [|z l1 IH]; intros id sj sg x l2 C N y Hy; cbn [app chained] in C; destruct C as (A & B & D & C); inversion N as [|? ? Nx Nl]; subst.
  - destruct (chained_lower _ _ _ _ C Nl y Hy) as (H1 & H2 & H3). lia.
  - eapply IH; eassumption.
Qed.

Lemma in_of_batch b l x : In x (of_batch b l) <-> In x l /\ u_batch x = b.
Proof. unfold of_batch. rewrite filter_In, Z.eqb_eq. tauto. Qed.

Lemma forall_of_batch b l : Forall unn l -> Forall unn (of_batch b l).
Proof. intros F. apply Forall_forall. intros x Hx. apply in_of_batch in Hx. rewrite Forall_forall in F. apply F. tauto. Qed.

(** two updates of the same batch: the one with the smaller id has the earlier, disjoint job-id and group-id range *)
Theorem ranges_ordered s x y :
  ranges_ok s -> In x (updates s) -> In y (updates s) -> u_batch x = u_batch y -> u_id x < u_id y ->
  u_start_job x + u_njobs x <= u_start_job y /\ u_start_group x + u_ngroups x <= u_start_group y.
Proof.
  intros (Hc & Hn) Hx Hy Eb Lt. set (b := u_batch y) in *.
  assert (Ix : In x (of_batch b (updates s))) by (apply in_of_batch; auto).
  assert (Iy : In y (of_batch b (updates s))) by (apply in_of_batch; auto).
  pose proof (Hc b) as C. pose proof (forall_of_batch b _ Hn) as N.
  destruct (in_split _ _ Ix) as (l1 & l2 & E). rewrite E in C, N, Iy.
  apply in_app_or in Iy. destruct Iy as [Iy | [<- | Iy]]; [|lia|].
  - exfalso. destruct (in_split _ _ Iy) as (m1 & m2 & E1). rewrite E1, <- app_assoc in C, N. cbn [app] in C, N.
    assert (Hin : In x (m2 ++ x :: l2)) by (apply in_or_app; right; left; reflexivity).
    destruct (chained_after _ _ _ _ _ _ C N x Hin) as (H & _). lia.
  - destruct (chained_after _ _ _ _ _ _ C N y Iy) as (_ & H). exact H.
Qed.

Lemma update_key_unique s x y :
  ranges_ok s -> In x (updates s) -> In y (updates s) -> u_batch x = u_batch y -> u_id x = u_id y -> x = y.
Proof.
  intros (Hc & Hn) Hx Hy Eb Ei. set (b := u_batch y) in *.
  assert (Ix : In x (of_batch b (updates s))) by (apply in_of_batch; auto).
  assert (Iy : In y (of_batch b (updates s))) by (apply in_of_batch; auto).
  pose proof (Hc b) as C. pose proof (forall_of_batch b _ Hn) as N.
  destruct (in_split _ _ Ix) as (l1 & l2 & E). rewrite E in C, N, Iy.
  apply in_app_or in Iy. destruct Iy as [Iy | [Iy | Iy]]; [|exact Iy|]; exfalso.
  - destruct (in_split _ _ Iy) as (m1 & m2 & E1). rewrite E1, <- app_assoc in C, N. cbn [app] in C, N.
    assert (Hin : In x (m2 ++ x :: l2)) by (apply in_or_app; right; left; reflexivity).
    destruct (chained_after _ _ _ _ _ _ C N x Hin) as (H & _). lia.
  - destruct (chained_after _ _ _ _ _ _ C N y Iy) as (H & _). lia.
Qed.

Lemma find_update_in s x : ranges_ok s -> In x (updates s) -> find_update s (u_batch x) (u_id x) = Some x.
Proof.
  intros R Hx. unfold find_update. destruct (find _ (updates s)) as [y|] eqn:F.
  - apply find_some in F. destruct F as (Hy & K). apply andb_true_iff in K. destruct K as [K1 K2].
    f_equal. apply (update_key_unique s y x R Hy Hx); lia.
  - pose proof (find_none _ _ F x Hx) as K. cbv beta in K. rewrite !Z.eqb_refl in K. discriminate.
Qed.

(** the first update of a batch starts at job 1 / group 1 with id 1 *)
Theorem ranges_start s x :
  ranges_ok s -> In x (updates s) -> u_id x = 1 -> u_start_job x = 1 /\ u_start_group x = 1.
Proof.
  intros (Hc & Hn) Hx E1. set (b := u_batch x).
  assert (Ix : In x (of_batch b (updates s))) by (apply in_of_batch; auto).
  pose proof (Hc b) as C. pose proof (forall_of_batch b _ Hn) as N.
  destruct (of_batch b (updates s)) as [|z l] eqn:E; [contradiction|].
  cbn [chained] in C. destruct C as (A & B & D & C). destruct Ix as [<- | Ix]; [auto|].
  inversion N as [|? ? Nz Nl]; subst. destruct (chained_lower _ _ _ _ C Nl x Ix) as (H & _). lia.
Qed.

Lemma chained_adjacent l1 : forall id sj sg x y l3, chained id sj sg (l1 ++ x :: y :: l3) ->
  u_start_job y = u_start_job x + u_njobs x /\ u_start_group y = u_start_group x + u_ngroups x /\ u_id y = u_id x + 1.
Proof.
  induction l1 as [|z l1 IH]; intros id sj sg x y l3 C; cbn [app chained] in C.
  - destruct C as (A0 & A & B & A0' & A' & B' & _). lia.
  - destruct C as (_ & _ & _ & C). eapply IH; exact C.
Qed.

(** the update after update k starts where k ends *)
Theorem ranges_contiguous s x y :
  ranges_ok s -> In x (updates s) -> In y (updates s) -> u_batch x = u_batch y -> u_id y = u_id x + 1 ->
  u_start_job y = u_start_job x + u_njobs x /\ u_start_group y = u_start_group x + u_ngroups x.
Proof.
  intros R Hx Hy Eb Ei. pose proof R as (Hc & Hn). set (b := u_batch y) in *.
  assert (Ix : In x (of_batch b (updates s))) by (apply in_of_batch; auto).
  assert (Iy : In y (of_batch b (updates s))) by (apply in_of_batch; auto).
  pose proof (Hc b) as C. pose proof (forall_of_batch b _ Hn) as N.
  destruct (in_split _ _ Ix) as (l1 & l2 & E). rewrite E in C, N, Iy.
  (* y is the element right after x *)
  assert (Hl2 : exists l3, l2 = y :: l3).
  { apply in_app_or in Iy. destruct Iy as [Iy | [Iy | Iy]].
    - exfalso. destruct (in_split _ _ Iy) as (m1 & m2 & E1). rewrite E1, <- app_assoc in C, N. cbn [app] in C, N.
      assert (Hin : In x (m2 ++ x :: l2)) by (apply in_or_app; right; left; reflexivity).
      destruct (chained_after _ _ _ _ _ _ C N x Hin) as (H & _). lia.
    - subst y. lia.
    - destruct l2 as [|z l3]; [contradiction|]. destruct Iy as [-> | Iy]; [eauto|]. exfalso.
      assert (Hz : u_id x < u_id z) by (apply (chained_after _ _ _ _ _ _ C N z); left; reflexivity).
      replace (l1 ++ x :: z :: l3) with ((l1 ++ [x]) ++ z :: l3) in C, N by (rewrite <- app_assoc; reflexivity).
      destruct (chained_after _ _ _ _ _ _ C N y Iy) as (H & _). lia. }
  destruct Hl2 as (l3 & ->). destruct (chained_adjacent _ _ _ _ _ _ _ C) as (H1 & H2 & _). auto.
Qed.

(* ------------------------------------------------------------------ the updates table along any transaction *)

Ltac upd :=
  repeat first
    [ reflexivity
    | progress autorewrite with frame
    | rewrite fold_keeps by (intros; upd)
    | progress scbn
    | progress cbv zeta
    | progress unfold set_times, finish_groups, release_children
    | dmatch ].

Lemma release_children_updates s b j succ : updates (release_children s b j succ) = updates s.
Proof.
  unfold release_children. cbv zeta. apply fold_keeps. intros st c. destruct (find_job st b c); [|reflexivity].
  match goal with |- context [if ?c then _ else _] => destruct c end; [reflexivity | apply update_job_updates].
Qed.

Lemma mc_finish_updates s3 x b j a ns total : updates (mc_finish s3 x b j a ns total) = updates s3.
Proof.
  unfold mc_finish. cbv zeta. rewrite release_children_updates. unfold finish_groups. scbn.
  match goal with |- context [if ?c then _ else _] => destruct c end; scbn; apply update_job_updates.
Qed.

(** only CreateUpdate (append) and Commit (set the committed flag) change the updates table *)
Lemma step_updates s o :
  match o with
  | CreateUpdate _ _ _ _ _ => updates (fst (step s o)) = updates s \/ exists n, updates (fst (step s o)) = updates s ++ [n]
  | Commit b u _ => updates (fst (step s o)) = updates s \/ updates (fst (step s o)) = map (set_committed b u) (updates s)
  | _ => updates (fst (step s o)) = updates s
  end.
Proof.
  destruct o; cbn [step].
  - unfold do_create_batch, create_group_rows. upd.
  - unfold do_create_update. repeat (dmatch; try (left; reflexivity)). all: right; eexists; reflexivity.
  - destruct (do_create_groups_shape s b u user gs) as [[E _] | (up & _ & F & _ & _)]; [rewrite E; reflexivity|].
    eapply (cog_fold_rel (fun st st' => updates st' = updates st)); [reflexivity | intros; congruence | | exact F].
    intros st0 gs0 st0' C0. apply create_one_group_some in C0. cbv zeta in C0. destruct C0 as (_ & _ & _ & ->). reflexivity.
  - destruct (do_create_jobs_shape s b u user js) as [E | (up & bt & _ & _ & _ & _ & E)]; rewrite E; [reflexivity|].
    cbn [fst]. apply cj_insert_same_tree_fields.
  - unfold do_commit. destruct (find_batch s b); [|left; reflexivity]. destruct (find_update s b u); [|left; reflexivity].
    match goal with |- context [if ?c then _ else _] => destruct c end; [left; reflexivity|].
    destruct (marked s b 0); [left; reflexivity|].
    destruct (do_commit_proc_shape s b u) as [E | (up & _ & _ & _ & U & _)]; [left; rewrite E; reflexivity | right; exact U].
  - destruct (cancel_step_cases s b g) as [E | E]; cbn [step] in E; rewrite E; [reflexivity | apply cancel_proc_updates].
  - unfold do_delete_batch. repeat (dmatch; try reflexivity). cbn [fst]. scbn. apply cancel_proc_updates.
  - apply (sc_updates _ _ (do_new_instance_core s name ic cores pool)).
  - apply (sc_updates _ _ (do_activate_core s name)).
  - unfold do_deactivate. upd.
  - apply (sc_updates _ _ (do_mark_deleted_core s name)).
  - destruct (do_schedule_shape s b j att inst) as [C | (x & s1 & _ & C & _ & _ & E)]; [apply (sc_updates _ _ C)|].
    rewrite E, update_job_updates. apply (sc_updates _ _ C).
  - unfold do_unschedule. upd.
  - destruct (do_mcs_shape true s b j att inst time) as [C | (x & s1 & _ & C & _ & _ & E)]; [apply (sc_updates _ _ C)|].
    rewrite E, update_job_updates. apply (sc_updates _ _ C).
  - destruct (do_mcs_shape false s b j att inst time) as [C | (x & s1 & _ & C & _ & _ & E)]; [apply (sc_updates _ _ C)|].
    rewrite E, update_job_updates. apply (sc_updates _ _ C).
  - destruct (do_mark_complete_shape s b j att inst new_state start endt reason) as [C | (x & s3 & _ & C & _ & E)]; [apply (sc_updates _ _ C)|].
    rewrite E, mc_finish_updates. apply (sc_updates _ _ C).
  - apply (sc_updates _ _ (do_add_resources_core s b j att rs)).
  - apply (sc_updates _ _ (do_billing_update_core s time atts)).
  - reflexivity.
  - reflexivity.
Qed.

(** an update row keeps its key columns (ids, token, ranges) for ever, and stays committed once it is *)
Lemma find_update_step s o b u up :
  find_update s b u = Some up ->
  exists up', find_update (fst (step s o)) b u = Some up' /\ ukey up' = ukey up /\ (u_committed up = true -> u_committed up' = true).
Proof.
  intros F. pose proof (step_updates s o) as U.
  assert (Same : updates (fst (step s o)) = updates s ->
                 exists up', find_update (fst (step s o)) b u = Some up' /\ ukey up' = ukey up /\ (u_committed up = true -> u_committed up' = true)).
  { intros E. exists up. unfold find_update. rewrite E. auto. }
  destruct o; try (apply Same; exact U).
  - destruct U as [E | (n & E)]; [apply Same; exact E|]. exists up. unfold find_update in *. rewrite E, find_app, F. auto.
  - destruct U as [E | E]; [apply Same; exact E|]. unfold find_update in *. rewrite E.
    rewrite find_map_key by (intros x; unfold set_committed; destruct ((u_batch x =? b0) && (u_id x =? u0)) eqn:K; [cbn; reflexivity | reflexivity]).
    rewrite F. cbn [option_map]. eexists. split; [reflexivity|]. unfold set_committed.
    destruct ((u_batch up =? b0) && (u_id up =? u0)); cbn; auto.
Qed.

Lemma find_update_history s ops b u up :
  find_update s b u = Some up ->
  exists up', find_update (run_from s ops) b u = Some up' /\ ukey up' = ukey up /\ (u_committed up = true -> u_committed up' = true).
Proof.
  revert s up. induction ops as [|o r IH]; intros s up F; cbn [run_from fold_left]; [exists up; auto|].
  destruct (find_update_step s o b u up F) as (up1 & F1 & K1 & C1).
  destruct (IH _ _ F1) as (up2 & F2 & K2 & C2). exists up2. split; [exact F2|]. split; [congruence | auto].
Qed.

(* lookups by a function of the key survive appends and key-preserving rewrites *)
Lemma find_key_prefix {A K} (key : A -> K) (q : K -> bool) l : forall l2 e x,
  map key l2 = map key l ++ e -> find (fun x => q (key x)) l = Some x ->
  exists x2, find (fun x => q (key x)) l2 = Some x2 /\ key x2 = key x.
Proof.
  induction l as [|y l IH]; intros l2 e x E F; [discriminate|].
  destruct l2 as [|y2 l2]; [discriminate|]. cbn [map app] in E. injection E as E1 E. cbn [find] in *. rewrite E1.
  destruct (q (key y)); [injection F as <-; eauto | eapply IH; eassumption].
Qed.

(* ------------------------------------------------------------------ retries after other requests have been served *)

(** CreateBatch: once a batch with this (user, token) exists, the request returns it and changes nothing, whatever happened since *)
Theorem create_batch_later s ops user bp token x :
  find (fun x => (b_token x =? token) && (b_user x =? user)) (batches s) = Some x ->
  forall m, step (run_from s ops) (CreateBatch user bp token m) = (run_from s ops, if m then ok [b_id x] else (3, [])).
Proof.
  intros F m. cbn [step]. unfold do_create_batch. destruct m; cbn [negb]; [|reflexivity].
  destruct (gr_batches _ _ (run_from_grow s ops)) as (e & E).
  destruct (find_key_prefix bkey (fun k => let '(_, u, t, _) := k in (t =? token) && (u =? user)) _ _ _ _ E F) as (x2 & F2 & K).
  cbn beta iota in F2. unfold bkey in F2 at 1. cbn beta iota in F2. rewrite F2. unfold bkey in K. injection K as -> _ _ _. reflexivity.
Qed.

Lemma create_batch_answer s user bp token m id :
  snd (step s (CreateBatch user bp token m)) = ok [id] ->
  exists x, find (fun x => (b_token x =? token) && (b_user x =? user)) (batches (fst (step s (CreateBatch user bp token m)))) = Some x /\ b_id x = id.
Proof.
  cbn [step]. unfold do_create_batch. destruct (negb m); [discriminate|].
  destruct (find _ (batches s)) as [x|] eqn:F; cbn [fst snd].
  - intros E. injection E as <-. eauto.
  - cbv zeta. cbn [fst snd]. intros E. injection E as <-. unfold create_group_rows. scbn. rewrite find_app, F. cbn [find b_token b_user].
    rewrite !Z.eqb_refl. cbn [andb]. eexists. split; reflexivity.
Qed.

(** CreateUpdate: once an update with this token exists for the batch (and the batch belongs to the user), the request returns
    that update's id and ranges and changes nothing *)
Theorem create_update_later s ops b user token x bt :
  find_batch s b = Some bt -> b_user bt = user ->
  find (fun x => (u_batch x =? b) && (u_token x =? token)) (updates s) = Some x ->
  forall nj ng,
  fst (step (run_from s ops) (CreateUpdate b user token nj ng)) = run_from s ops /\
  ((nj <? 0) || (ng <? 0) = false -> (0 <? nj) || (0 <? ng) = true ->
   snd (step (run_from s ops) (CreateUpdate b user token nj ng)) = ok [u_id x; u_start_group x; u_start_job x]).
Proof.
  intros Fb Eu F nj ng. cbn [step]. unfold do_create_update. set (s2 := run_from s ops).
  destruct (gr_batches _ _ (run_from_grow s ops)) as (eb & EB). destruct (gr_updates _ _ (run_from_grow s ops)) as (eu & EU). fold s2 in EB, EU.
  unfold find_batch in Fb.
  destruct (find_key_prefix bkey (fun k => let '(i, _, _, _) := k in i =? b) _ _ _ _ EB Fb) as (bt2 & Fb2 & Kb).
  cbn beta iota in Fb2. unfold bkey in Fb2 at 1. cbn beta iota in Fb2. unfold bkey in Kb. injection Kb as _ Ku _ _.
  destruct (find_key_prefix ukey (fun k => match k with b' :: _ :: t :: _ => (b' =? b) && (t =? token) | _ => false end) _ _ _ _ EU F) as (x2 & F2 & Kx).
  cbn beta iota in F2. unfold ukey in F2 at 1. cbn beta iota in F2. unfold ukey in Kx. injection Kx as _ K2 _ K4 _ K6 _.
  destruct ((nj <? 0) || (ng <? 0)); [split; [reflexivity | discriminate]|].
  destruct ((0 <? nj) || (0 <? ng)); cbn [negb]; [|split; [reflexivity | discriminate]].
  unfold find_batch. rewrite Fb2, Ku, Eu, Z.eqb_refl, F2. cbn [fst snd]. split; [reflexivity|]. intros _ _. congruence.
Qed.

Lemma create_update_answer s b user token nj ng uid sg sj :
  snd (step s (CreateUpdate b user token nj ng)) = ok [uid; sg; sj] ->
  exists x bt, find (fun x => (u_batch x =? b) && (u_token x =? token)) (updates (fst (step s (CreateUpdate b user token nj ng)))) = Some x /\
            u_id x = uid /\ u_start_group x = sg /\ u_start_job x = sj /\ u_batch x = b /\
            find_batch (fst (step s (CreateUpdate b user token nj ng))) b = Some bt /\ b_user bt = user.
Proof.
  cbn [step]. unfold do_create_update.
  destruct ((nj <? 0) || (ng <? 0)); [discriminate|]. destruct (negb ((0 <? nj) || (0 <? ng))); [discriminate|].
  destruct (find_batch s b) as [bt|] eqn:Fb; [|discriminate].
  destruct (b_user bt =? user) eqn:Eu; cbn [negb orb]; [|discriminate]. apply Z.eqb_eq in Eu.
  destruct (find _ (updates s)) as [x|] eqn:F; cbn [fst snd].
  - intros E. injection E as <- <- <-. exists x, bt. pose proof F as F'. apply find_some in F'. destruct F' as (_ & K). apply andb_true_iff in K.
    repeat split; auto; lia.
  - destruct (b_deleted bt); [discriminate|]. destruct (marked s b 0); [discriminate|].
    destruct (match last_update s b with Some l => _ | None => _ end) as [[uid' sg'] sj']. cbn [fst snd]. intros E. injection E as <- <- <-.
    scbn. rewrite find_app, F. cbn [find u_batch u_token]. rewrite !Z.eqb_refl. cbn [andb].
    eexists _, bt. repeat split; auto.
Qed.

(** Commit: once the update is committed, committing again changes nothing *)
Theorem commit_later s ops b u up :
  find_update s b u = Some up -> u_committed up = true ->
  forall user, fst (step (run_from s ops) (Commit b u user)) = run_from s ops.
Proof.
  intros F C user. destruct (find_update_history s ops b u up F) as (up2 & F2 & _ & C2). specialize (C2 C).
  cbn [step]. unfold do_commit. destruct (find_batch _ b); [|reflexivity]. rewrite F2.
  match goal with |- context [if ?c then _ else _] => destruct c end; [reflexivity|].
  destruct (marked _ b 0); [reflexivity|]. unfold do_commit_proc. rewrite F2, C2. reflexivity.
Qed.

Lemma commit_answer s b u user :
  snd (step s (Commit b u user)) = ok [0] ->
  exists up, find_update (fst (step s (Commit b u user))) b u = Some up /\ u_committed up = true.
Proof.
  cbn [step]. unfold do_commit. destruct (find_batch s b); [|discriminate]. destruct (find_update s b u) as [up0|] eqn:F0; [|discriminate].
  match goal with |- context [if ?c then _ else _] => destruct c end; [discriminate|].
  destruct (marked s b 0); [discriminate|].
  destruct (do_commit_proc_shape s b u) as [E | (up & Fu & Cm & R & U & _)].
  - rewrite E. unfold do_commit_proc. rewrite F0. destruct (u_committed up0) eqn:C0; [eauto|]. cbv zeta.
    match goal with |- context [if ?c then _ else _] => destruct c eqn:K end; [discriminate|].
    (* a commit that is carried out changes the updates table: impossible when the state is unchanged *)
    intros _. exfalso. unfold do_commit_proc in E. rewrite F0, C0 in E. cbv zeta in E. rewrite K in E.
    assert (U : updates s = map (set_committed b u) (updates s)).
    { rewrite <- E at 1. match goal with |- context [if ?c then _ else _] => destruct c end; [reflexivity|].
      match goal with |- context [if ?c then _ else _] => destruct c end; cbn [fst];
        rewrite ?fold_keeps by (intros; autorewrite with frame; reflexivity);
        (rewrite fold_keeps; [reflexivity|]); intros st kv; repeat dmatch; reflexivity. }
    pose proof (find_update_set_committed s b u up0 F0) as F1. rewrite <- U in F1. unfold find_update in F0. rewrite F0 in F1.
    injection F1 as F1. rewrite F1 in C0. cbn in C0. discriminate.
  - intros _. exists (up <| u_committed := true |>). split; [|reflexivity]. unfold find_update. rewrite U. apply find_update_set_committed. exact Fu.
Qed.

(* ------------------------------------------------------------------ (3) the ids the client computes *)

(** hailtop.batch_client.aioclient: Job._submit sets  self._job_id = in_update_start_job_id + self._job_id - 1,
    JobGroup._submit sets  self._job_group_id = in_update_start_job_group_id + self._job_group_id - 1  *)
Definition client_job_id (start rel : Z) : Z := start + rel - 1.
Definition client_group_id (start rel : Z) : Z := start + rel - 1.

Lemma server_job_id b u sj sg x : j_id (fst (job_of_spec b u sj sg x)) = client_job_id sj (js_id x).
Proof. unfold job_of_spec, client_job_id. cbn. lia. Qed.

Lemma server_job_group b u sj sg x :
  j_group (fst (job_of_spec b u sj sg x)) = match js_group_abs x with Some g => g | None => client_group_id sg (js_group_rel x) end.
Proof. reflexivity. Qed.

Lemma server_group_id sg gs : gspec_group sg gs = client_group_id sg (gs_id gs).
Proof. reflexivity. Qed.

Lemma find_in_nodup_ids b l y :
  NoDup (map j_id l) -> (forall z, In z l -> j_batch z = b) -> In y l -> find (jkey b (j_id y)) l = Some y.
Proof.
  induction l as [|z l IH]; intros ND Hb Hy; [contradiction|]. cbn [map] in ND. inversion ND as [|? ? Hn ND']; subst. cbn [find].
  destruct Hy as [-> | Hy].
  - replace (jkey b (j_id y) y) with true; [reflexivity|]. symmetry. apply jkey_true. split; [apply Hb; left; reflexivity | reflexivity].
  - destruct (jkey b (j_id y) z) eqn:K.
    + exfalso. apply jkey_true in K. apply Hn. destruct K as [_ K]. rewrite K. apply in_map. exact Hy.
    + apply IH; auto. intros z' Hz'. apply Hb. right. exact Hz'.
Qed.

(** an accepted job bunch: every spec's job is found under the id the client will compute for it *)
Theorem accepted_bunch_client_ids s b u user jss up :
  find_update s b u = Some up -> fst (step s (CreateJobs b u user jss)) <> s ->
  forall x, In x jss ->
  find_job (fst (step s (CreateJobs b u user jss))) b (client_job_id (u_start_job up) (js_id x))
  = Some (fst (job_of_spec b u (u_start_job up) (u_start_group up) x)).
Proof.
  intros Fu Ne x Hx. cbn [step] in *.
  destruct (do_create_jobs_shape s b u user jss) as [E | (up' & bt & Fu' & _ & _ & V & E)]; [contradiction|].
  rewrite Fu in Fu'. injection Fu' as <-. rewrite E. cbn [fst]. rewrite find_job_eq, cj_insert_jobs, find_jkey_app.
  pose proof (fun x H => proj1 (cj_specs_batch b u up jss x H)) as Hb.
  destruct (insert_verdict_ok s b _ [] Hb V) as (F & ND).
  set (y := fst (job_of_spec b u (u_start_job up) (u_start_group up) x)).
  assert (Hy : In y (map fst (cj_specs b u up jss))).
  { unfold cj_specs. rewrite map_map. apply in_map_iff. exists x. auto. }
  rewrite Forall_forall in F. destruct (F y Hy) as (_ & _ & Fn & _).
  rewrite <- (server_job_id b u (u_start_job up) (u_start_group up) x). fold y.
  rewrite find_job_eq in Fn. rewrite Fn. apply find_in_nodup_ids; auto.
Qed.

(** CreateJobs: once the first job of a bunch exists, the bunch changes nothing, whatever happened since *)
Theorem create_jobs_later s ops b u user jss up j0 :
  jobs_unique s -> find_update s b u = Some up -> hd_error jss = Some j0 ->
  find_job s b (client_job_id (u_start_job up) (js_id j0)) <> None ->
  fst (step (run_from s ops) (CreateJobs b u user jss)) = run_from s ops.
Proof.
  intros U Fu Hd Fj. cbn [step].
  destruct (find_update_history s ops b u up Fu) as (up2 & Fu2 & K & _).
  apply do_create_jobs_first_exists with (up := up2) (j0 := j0); auto.
  rewrite server_job_id. unfold ukey in K. injection K as _ _ _ K4 _ _ _. rewrite K4.
  destruct (find_job s b (client_job_id (u_start_job up) (js_id j0))) as [y|] eqn:Fy; [|contradiction].
  destruct (job_persists s ops b _ y U Fy) as (y' & Fy' & _). rewrite Fy'. discriminate.
Qed.

(* ------------------------------------------------------------------ (4) nothing is counted twice *)

Theorem retry_no_double_count s o :
  retriable o ->
  let s1 := fst (step s o) in let s2 := fst (step s1 o) in
  staging s2 = staging s1 /\ user_res s2 = user_res s1 /\ cancellable s2 = cancellable s1 /\
  batches s2 = batches s1 /\ groups s2 = groups s1 /\ updates s2 = updates s1 /\ jobs s2 = jobs s1.
Proof. intros R. cbv zeta. rewrite (retry_idempotent s o R). repeat split; reflexivity. Qed.

(* ------------------------------------------------------------------ examples: the hypotheses are satisfiable *)

Definition two_updates : list op :=
  [CreateBatch 1 1 1 true; CreateUpdate 1 1 10 2 1; CreateGroups 1 1 1 [mkGspec 1 (Some 0) 0];
   CreateJobs 1 1 1 [mkJspec 1 None 1 [] [] false 1000 0; mkJspec 2 None 1 [] [1] false 1000 0];
   Commit 1 1 1; CreateUpdate 1 1 11 3 0; CreateUpdate 1 1 12 1 2].

Example two_updates_ranges :
  map (fun x => [u_id x; u_start_job x; u_njobs x; u_start_group x; u_ngroups x]) (updates (run two_updates))
  = [[1; 1; 2; 1; 1]; [2; 3; 3; 2; 0]; [3; 6; 1; 2; 2]].
Proof. vm_compute. reflexivity. Qed.

(* every request of the history re-sent right away: same answers, same final state *)
Example two_updates_all_retried :
  run (flat_map (fun o => [o; o]) two_updates) = run two_updates.
Proof. vm_compute. reflexivity. Qed.

(* the hypotheses of the "re-sent later" theorems hold along the example history: each request is answered as required *)
Example retry_hypotheses_satisfiable :
  snd (step init (CreateBatch 1 1 1 true)) = ok [1] /\
  snd (step (run (firstn 1 two_updates)) (CreateUpdate 1 1 10 2 1)) = ok [1; 1; 1] /\
  snd (step (run (firstn 2 two_updates)) (CreateGroups 1 1 1 [mkGspec 1 (Some 0) 0])) = ok [] /\
  fst (step (run (firstn 3 two_updates))
         (CreateJobs 1 1 1 [mkJspec 1 None 1 [] [] false 1000 0; mkJspec 2 None 1 [] [1] false 1000 0])) <> run (firstn 3 two_updates) /\
  snd (step (run (firstn 4 two_updates)) (Commit 1 1 1)) = ok [0] /\
  snd (step (run (firstn 5 two_updates)) (CreateUpdate 1 1 11 3 0)) = ok [2; 2; 3].
Proof.
  repeat split; try (vm_compute; reflexivity).
  intros H. apply (f_equal (fun s => length (jobs s))) in H. vm_compute in H. discriminate.
Qed.
