(** C09: submission is idempotent under client retries (lemmas; the theorems are restated in Props_C09.v). *)
From HailV Require Import Common.Prelude BatchDB.Model BatchDB.Tables BatchDB.CMap BatchDB.Legal BatchDB.StepFrame BatchDB.Cancel.
From RecordUpdate Require Import RecordSet.
Import RecordSetNotations.
Open Scope Z_scope.

(* ------------------------------------------------------------------ list lookups *)

Lemma find_app {A} (p : A -> bool) l1 l2 :
  find p (l1 ++ l2) = match find p l1 with Some x => Some x | None => find p l2 end.
Proof. induction l1 as [|x l1 IH]; cbn [app find]; [reflexivity | destruct (p x); auto]. Qed.

Lemma find_map_key {A} (p : A -> bool) (f : A -> A) l :
  (forall x, p (f x) = p x) -> find p (map f l) = option_map f (find p l).
Proof. intros H. induction l as [|x l IH]; cbn [map find]; [reflexivity|]. rewrite H. destruct (p x); [reflexivity | exact IH]. Qed.

(** a retried request that changed nothing the first time is answered identically *)
Lemma retry_unchanged s o : fst (step s o) = s -> step (fst (step s o)) o = step s o.
Proof. intros E. rewrite E. reflexivity. Qed.

Definition retriable (o : op) : Prop :=
  match o with CreateBatch _ _ _ _ | CreateUpdate _ _ _ _ _ | CreateJobs _ _ _ _ | Commit _ _ _ => True | _ => False end.

(* ------------------------------------------------------------------ CreateBatch *)

Lemma create_batch_retry s user bp token member :
  step (fst (step s (CreateBatch user bp token member))) (CreateBatch user bp token member) = step s (CreateBatch user bp token member).
Proof.
  cbn [step]. unfold do_create_batch at 2 3. destruct (negb member) eqn:M; [cbn [fst]; unfold do_create_batch; rewrite M; reflexivity|].
  destruct (find (fun x => (b_token x =? token) && (b_user x =? user)) (batches s)) as [x|] eqn:F.
  - cbn [fst]. unfold do_create_batch. rewrite M, F. reflexivity.
  - cbv zeta. cbn [fst]. unfold do_create_batch. rewrite M.
    unfold create_group_rows at 1. scbn. rewrite find_app, F. cbn [find b_token b_user]. rewrite !Z.eqb_refl. cbn [andb b_id]. reflexivity.
Qed.

(* ------------------------------------------------------------------ CreateUpdate *)

Lemma create_update_retry s b user token nj ng :
  step (fst (step s (CreateUpdate b user token nj ng))) (CreateUpdate b user token nj ng) = step s (CreateUpdate b user token nj ng).
Proof.
  cbn [step].
  destruct (do_create_update s b user token nj ng) as [s' r] eqn:E. cbn [fst].
  unfold do_create_update in E.
  destruct ((nj <? 0) || (ng <? 0)) eqn:C0; [injection E as <- <-; unfold do_create_update; rewrite C0; reflexivity|].
  destruct (negb ((0 <? nj) || (0 <? ng))) eqn:C1; [injection E as <- <-; unfold do_create_update; rewrite C0, C1; reflexivity|].
  destruct (find_batch s b) as [bt|] eqn:Fb.
  2:{ injection E as <- <-. unfold do_create_update. rewrite C0, C1, Fb. reflexivity. }
  destruct (b_user bt =? user) eqn:Eu.
  2:{ cbn [negb orb] in E. injection E as <- <-. unfold do_create_update. rewrite C0, C1, Fb, Eu. reflexivity. }
  destruct (find (fun x => (u_batch x =? b) && (u_token x =? token)) (updates s)) as [x|] eqn:Fu.
  { injection E as <- <-. unfold do_create_update. rewrite C0, C1, Fb, Eu, Fu. reflexivity. }
  cbn [negb orb] in E. destruct (b_deleted bt) eqn:Dl.
  { injection E as <- <-. unfold do_create_update. rewrite C0, C1, Fb, Eu, Fu, Dl. reflexivity. }
  destruct (marked s b 0) eqn:Mk.
  { injection E as <- <-. unfold do_create_update. rewrite C0, C1, Fb, Eu, Fu, Dl, Mk. reflexivity. }
  destruct (match last_update s b with
            | Some l => (u_id l + 1, u_start_group l + u_ngroups l, u_start_job l + u_njobs l)
            | None => (1, 1, 1) end) as [[uid sg] sj] eqn:Lu.
  injection E as <- <-.
  unfold do_create_update. rewrite C0, C1.
  change (find_batch (s <| updates ::= _ |>) b) with (find_batch s b). rewrite Fb, Eu. scbn.
  rewrite find_app, Fu. cbn [find u_batch u_token]. rewrite !Z.eqb_refl. cbn [andb]. reflexivity.
Qed.

(* ------------------------------------------------------------------ CreateJobs *)

Lemma do_create_jobs_full s b u user jss :
  let r := do_create_jobs s b u user jss in
  fst r = s \/
  exists up bt, is_nil jss = false /\ find_update s b u = Some up /\ find_batch s b = Some bt /\
                (negb (b_user bt =? user) || b_deleted bt) = false /\ u_committed up = false /\
                contiguous (map js_id jss) = true /\ forallb (spec_ok s b up) jss = true /\
                insert_verdict s b (map fst (cj_specs b u up jss)) [] = 0 /\
                r = (cj_insert s b (cj_specs b u up jss), ok []).
Proof.
  cbv zeta. unfold do_create_jobs.
  destruct (is_nil jss) eqn:Nil; [left; reflexivity|].
  destruct (find_update s b u) as [up|]; [|left; reflexivity].
  destruct (find_batch s b) as [bt|]; [|left; reflexivity].
  destruct (negb (b_user bt =? user) || b_deleted bt) eqn:Cond; [left; reflexivity|].
  destruct (u_committed up) eqn:Cm; [left; reflexivity|].
  cbv zeta. destruct jss as [|j0 jss']; [left; reflexivity|]. set (jss := j0 :: jss') in *.
  destruct (contiguous (map js_id jss)) eqn:Ct; cbn [negb]; [|left; reflexivity].
  destruct (forallb (spec_ok s b up) jss) eqn:Sp; cbn [negb]; [|left; reflexivity].
  fold (cj_specs b u up jss).
  pose proof (insert_verdict_range s b (map fst (cj_specs b u up jss)) []) as V. cbv zeta in V.
  destruct V as [V|[V|[V|V]]]; rewrite V; try (left; reflexivity).
  match goal with |- context [if ?c then _ else _] => destruct c end; [left; reflexivity|].
  right. exists up, bt. repeat split; auto.
Qed.

(* a bunch whose first row already exists (and whose group is not cancelled) is answered ok and changes nothing *)
Lemma do_create_jobs_dup s b u user jss up bt :
  is_nil jss = false -> find_update s b u = Some up -> find_batch s b = Some bt ->
  (negb (b_user bt =? user) || b_deleted bt) = false -> u_committed up = false ->
  contiguous (map js_id jss) = true -> forallb (spec_ok s b up) jss = true ->
  insert_verdict s b (map fst (cj_specs b u up jss)) [] = 2 ->
  do_create_jobs s b u user jss = (s, ok []).
Proof.
  intros Nil Fu Fb Cond Cm Ct Sp V. unfold do_create_jobs. rewrite Nil, Fu, Fb, Cond, Cm. cbv zeta.
  destruct jss as [|j0 jss']; [discriminate|]. set (jss := j0 :: jss') in *.
  rewrite Ct, Sp. cbn [negb]. fold (cj_specs b u up jss). rewrite V. reflexivity.
Qed.

(* whatever the verdict, a bunch whose first row already exists changes nothing *)
Lemma insert_verdict_first_exists s b x js :
  find_job s b (j_id x) <> None -> insert_verdict s b (x :: js) [] = 1 \/ insert_verdict s b (x :: js) [] = 2.
Proof.
  intros F. cbn [insert_verdict]. destruct (group_cancelled s b (j_group x)); [left; reflexivity|].
  cbn [existsb orb]. destruct (find_job s b (j_id x)); [right; reflexivity | contradiction].
Qed.

Lemma do_create_jobs_first_exists s b u user jss up j0 :
  find_update s b u = Some up -> hd_error jss = Some j0 ->
  find_job s b (j_id (fst (job_of_spec b u (u_start_job up) (u_start_group up) j0))) <> None ->
  fst (do_create_jobs s b u user jss) = s.
Proof.
  intros Fu Hd F. destruct (do_create_jobs_full s b u user jss) as [E | (up' & bt & _ & Fu' & _ & _ & _ & _ & _ & V & _)]; [exact E|].
  exfalso. rewrite Fu in Fu'. injection Fu' as <-. destruct jss as [|j1 jss']; [discriminate|]. cbn in Hd. injection Hd as ->.
  unfold cj_specs in V. cbn [map] in V.
  destruct (insert_verdict_first_exists s b _ (map fst (map (job_of_spec b u (u_start_job up) (u_start_group up)) jss')) F) as [V'|V']; congruence.
Qed.

(* validation of the specs only looks at jobs and updates that are still there *)
Lemma spec_ok_mono s s' b up x :
  (forall p y, find_job s b p = Some y -> exists y', find_job s' b p = Some y' /\ j_update y' = j_update y) ->
  (forall v w, find_update s b v = Some w -> u_committed w = true -> exists w', find_update s' b v = Some w' /\ u_committed w' = true) ->
  spec_ok s b up x = true -> spec_ok s' b up x = true.
Proof.
  intros Hj Hu. unfold spec_ok. cbv zeta. intros H.
  apply andb_true_iff in H. destruct H as [H1 H2]. apply andb_true_iff. split; [exact H1|].
  rewrite forallb_forall in *. intros p Hp. specialize (H2 p Hp).
  apply andb_true_iff in H2. destruct H2 as [H2 H3]. apply andb_true_iff. split; [exact H2|].
  apply orb_true_iff in H3. apply orb_true_iff. destruct H3 as [H3|H3]; [left; exact H3|]. right.
  destruct (find_job s b p) as [y|] eqn:Fy; [|discriminate].
  destruct (Hj _ _ Fy) as (y' & Fy' & Ey). rewrite Fy', Ey.
  destruct (find_update s b (j_update y)) as [w|] eqn:Fw; [|discriminate].
  destruct (Hu _ _ Fw H3) as (w' & Fw' & Cw). rewrite Fw'. exact Cw.
Qed.

Lemma cj_insert_same_tree_fields s b js :
  updates (cj_insert s b js) = updates s /\ batches (cj_insert s b js) = batches s /\ marks (cj_insert s b js) = marks s /\
  ancestors (cj_insert s b js) = ancestors s /\ groups (cj_insert s b js) = groups s.
Proof.
  unfold cj_insert. repeat split; (rewrite fold_keeps; [reflexivity|]; intros st x; reflexivity).
Qed.

Lemma create_jobs_retry s b u user jss :
  step (fst (step s (CreateJobs b u user jss))) (CreateJobs b u user jss) = step s (CreateJobs b u user jss).
Proof.
  cbn [step]. destruct (do_create_jobs_full s b u user jss) as [E | (up & bt & Nil & Fu & Fb & Cond & Cm & Ct & Sp & V & E)].
  - rewrite E. reflexivity.
  - rewrite E. cbn [fst]. set (s' := cj_insert s b (cj_specs b u up jss)).
    destruct (cj_insert_same_tree_fields s b (cj_specs b u up jss)) as (Eu & Eb & Em & Ea & Eg). fold s' in Eu, Eb, Em, Ea, Eg.
    assert (Ej : jobs s' = jobs s ++ map fst (cj_specs b u up jss)) by apply cj_insert_jobs.
    assert (Fu' : forall v, find_update s' b v = find_update s b v) by (intros v; unfold find_update; rewrite Eu; reflexivity).
    assert (Fb' : find_batch s' b = find_batch s b) by (unfold find_batch; rewrite Eb; reflexivity).
    apply do_create_jobs_dup with (up := up) (bt := bt); auto; try (rewrite ?Fu', ?Fb'; assumption).
    + (* validation still passes *)
      rewrite forallb_forall in *. intros x Hx. eapply spec_ok_mono; [| |apply Sp; exact Hx].
      * intros p y Fy. exists y. split; [|reflexivity]. rewrite find_job_eq in *. rewrite Ej. apply find_app_some. exact Fy.
      * intros v w Fw Cw. exists w. rewrite Fu'. auto.
    + (* the first row is found again *)
      destruct jss as [|j0 jss']; [discriminate|]. unfold cj_specs in *. cbn [map] in *.
      set (x0 := fst (job_of_spec b u (u_start_job up) (u_start_group up) j0)) in *.
      pose proof (fun x H => proj1 (cj_specs_batch b u up (j0 :: jss') x H)) as Hb. unfold cj_specs in Hb. cbn [map] in Hb. fold x0 in Hb.
      destruct (insert_verdict_ok s b _ [] Hb V) as (F & _). inversion F as [|? ? (G0 & _ & Fn0 & _) _]; subst.
      cbn [insert_verdict].
      assert (Gc' : group_cancelled s' b (j_group x0) = group_cancelled s b (j_group x0)).
      { unfold group_cancelled, n_cancelled_anc, anc_ids, anc_rows, marked. rewrite Ea, Em. reflexivity. }
      rewrite Gc', G0. cbn [existsb orb].
      assert (Fx : find_job s' b (j_id x0) = Some x0).
      { rewrite find_job_eq in *. rewrite Ej, find_jkey_app, Fn0. cbn [find].
        replace (jkey b (j_id x0) x0) with true; [reflexivity|]. symmetry. apply jkey_true. split; [apply Hb; left; reflexivity | reflexivity]. }
      rewrite Fx. reflexivity.
Qed.

(* ------------------------------------------------------------------ Commit *)

Definition set_committed (b u : Z) (x : update) : update :=
  if (u_batch x =? b) && (u_id x =? u) then x <| u_committed := true |> else x.

Definition bump_batch (b n : Z) (x : batch) : batch :=
  if b_id x =? b then x <| b_running := true |> <| b_njobs := b_njobs x + n |> else x.

(* a commit that is carried out: the update's rows become committed, the batch row gets the jobs, no mark changes *)
Lemma do_commit_proc_shape s b u :
  fst (do_commit_proc s b u) = s \/
  exists up, find_update s b u = Some up /\ u_committed up = false /\ snd (do_commit_proc s b u) = ok [0] /\
             updates (fst (do_commit_proc s b u)) = map (set_committed b u) (updates s) /\
             (batches (fst (do_commit_proc s b u)) = batches s \/
              batches (fst (do_commit_proc s b u)) = map (bump_batch b (u_njobs up)) (batches s)) /\
             marks (fst (do_commit_proc s b u)) = marks s.
Proof.
  unfold do_commit_proc. destruct (find_update s b u) as [up|] eqn:Fu; [|left; reflexivity].
  destruct (u_committed up) eqn:Cm; [left; reflexivity|]. cbv zeta.
  match goal with |- context [if ?c then _ else _] => destruct c end; [left; reflexivity|].
  right. exists up. split; [reflexivity|]. split; [exact Cm|].
  match goal with |- context [if ?c then _ else _] => destruct c end.
  { cbn [fst snd]. scbn. repeat split; auto. }
  match goal with |- context [fold_left ?f (staging s) ?s3] => set (s4 := fold_left f (staging s) s3) end.
  assert (F4 : updates s4 = map (set_committed b u) (updates s) /\ batches s4 = map (bump_batch b (u_njobs up)) (batches s) /\ marks s4 = marks s).
  { subst s4. match goal with |- context [fold_left ?f (staging s) ?s3] => pose proof (commit_user_res_fold_core f (staging s) s3) as F end.
    cbv zeta in F. destruct F as (F1 & F2 & _ & _ & F5 & _).
    - intros st [k v]. destruct k as [|b' [|u' [|g' [|ic [|]]]]]; auto. destruct v as [|v0 [|nr [|rc [|]]]]; auto.
      match goal with |- context [if ?c then _ else _] => destruct c end; eauto.
    - rewrite F1, F2, F5. scbn. repeat split; reflexivity. }
  destruct F4 as (U4 & B4 & M4).
  destruct (u =? 1); cbn [fst snd].
  - repeat split; auto.
  - split; [reflexivity|].
    rewrite !fold_keeps by (intros; autorewrite with frame; reflexivity). repeat split; auto.
Qed.

Lemma find_update_set_committed s b u up :
  find_update s b u = Some up ->
  find (fun x => (u_batch x =? b) && (u_id x =? u)) (map (set_committed b u) (updates s)) = Some (up <| u_committed := true |>).
Proof.
  unfold find_update. intros F. rewrite find_map_key.
  - rewrite F. cbn [option_map]. unfold set_committed. apply find_some in F. destruct F as (_ & K). rewrite K. reflexivity.
  - intros x. unfold set_committed. destruct ((u_batch x =? b) && (u_id x =? u)) eqn:K; [cbn; exact K | exact K].
Qed.

Lemma commit_retry s b u user :
  step (fst (step s (Commit b u user))) (Commit b u user) = step s (Commit b u user).
Proof.
  cbn [step]. unfold do_commit at 2 3.
  destruct (find_batch s b) as [bt|] eqn:Fb.
  2:{ cbn [fst]. unfold do_commit. rewrite Fb. reflexivity. }
  destruct (find_update s b u) as [up0|] eqn:Fu.
  2:{ cbn [fst]. unfold do_commit. rewrite Fb, Fu. reflexivity. }
  destruct (negb (b_user bt =? user) || b_deleted bt) eqn:Cond.
  { cbn [fst]. unfold do_commit. rewrite Fb, Fu, Cond. reflexivity. }
  destruct (marked s b 0) eqn:Mk.
  { cbn [fst]. unfold do_commit. rewrite Fb, Fu, Cond, Mk. reflexivity. }
  destruct (do_commit_proc_shape s b u) as [E | (up & Fu' & Cm & R & U & B & M)].
  - rewrite E. unfold do_commit. rewrite Fb, Fu, Cond, Mk. reflexivity.
  - set (s' := fst (do_commit_proc s b u)) in *.
    assert (Fu2 : find_update s' b u = Some (up <| u_committed := true |>)).
    { unfold find_update at 1. rewrite U. apply find_update_set_committed. exact Fu'. }
    assert (Fb2 : exists bt', find_batch s' b = Some bt' /\ b_user bt' = b_user bt /\ b_deleted bt' = b_deleted bt).
    { unfold find_batch at 1. destruct B as [B|B]; rewrite B.
      - exists bt. auto.
      - rewrite find_map_key by (intros x; unfold bump_batch; destruct (b_id x =? b); reflexivity).
        unfold find_batch in Fb. rewrite Fb. cbn [option_map]. eexists. split; [reflexivity|].
        unfold bump_batch. destruct (b_id bt =? b); split; reflexivity. }
    destruct Fb2 as (bt' & Fb2 & Eu & Ed).
    assert (Mk2 : marked s' b 0 = false) by (unfold marked; rewrite M; exact Mk).
    unfold do_commit. rewrite Fb2, Fu2, Eu, Ed, Cond, Mk2.
    unfold do_commit_proc at 1. rewrite Fu2. cbn [u_committed set]. 
    rewrite (surjective_pairing (do_commit_proc s b u)). fold s'. rewrite R. reflexivity.
Qed.

(* ------------------------------------------------------------------ (1) every retriable request, any state *)

Theorem retry_idempotent s o : retriable o -> step (fst (step s o)) o = step s o.
Proof.
  destruct o; try contradiction; intros _;
    [apply create_batch_retry | apply create_update_retry | apply create_jobs_retry | apply commit_retry].
Qed.
