(** C02 — billing aggregates equal the sum of attempt usage: definitions and the generic table lemmas.

    The four aggregated_*_v3 tables of the model ([agg_job], [agg_group], [agg_bp], [agg_date]; token shards summed
    away) are maintained incrementally by [bill] (the AFTER UPDATE trigger of attempts and the AFTER INSERT trigger of
    attempt_resources).  For each table we describe the list of keys [kf s b j r] to which [bill] adds for a resource
    [r] of an attempt of job (b, j), and prove ONCE, generically in (table, kf), that the table equals the sum over the
    attempt_resources rows of quantity x billed time x (number of times the key is hit). *)
From HailV Require Import Common.Prelude BatchDB.Model BatchDB.CMap BatchDB.Tables.
From RecordUpdate Require Import RecordSet.
Import RecordSetNotations.
Open Scope Z_scope.

(* ------------------------------------------------------------------ sums over attempt_resources rows *)

(** weight of one row ([b; j; a; r], [q]): q * w b j a r; rows of any other shape (there are none) weigh 0 *)
Definition rowval (w : Z -> Z -> Z -> Z -> Z) (kv : list Z * list Z) : Z :=
  match kv with ([b; j; a; r], [q]) => q * w b j a r | _ => 0 end.

Definition rsum (w : Z -> Z -> Z -> Z -> Z) (m : cmap) : Z := zsum (rowval w) m.

Lemma zsum_ext {A} (f g : A -> Z) l : (forall x, f x = g x) -> zsum f l = zsum g l.
Proof. intros H; induction l as [|x l IH]; cbn [zsum]; [reflexivity | rewrite H, IH; reflexivity]. Qed.

Lemma zsum_scale {A} c (f : A -> Z) l : zsum (fun x => c * f x) l = c * zsum f l.
Proof. induction l as [|x l IH]; cbn [zsum]; [lia | rewrite IH; lia]. Qed.

Ltac row_shape kv :=
  let k := fresh "k" in let v := fresh "v" in
  destruct kv as [k v];
  destruct k as [|?b [|?j [|?a [|?r [|? ?]]]]]; destruct v as [|?q [|? ?]].

Lemma rsum_app w m1 m2 : rsum w (m1 ++ m2) = rsum w m1 + rsum w m2.
Proof. apply zsum_app. Qed.

Lemma rsum_ext_in w w' m :
  (forall b j a r q, In ([b; j; a; r], [q]) m -> w b j a r = w' b j a r) -> rsum w m = rsum w' m.
Proof.
  unfold rsum. induction m as [|kv m IH]; intros H; cbn [zsum]; [reflexivity|].
  rewrite IH by (intros b j a r q Hin; apply (H b j a r q); right; exact Hin). f_equal.
  row_shape kv; cbn [rowval]; try reflexivity. rewrite (H b j a r q) by (left; reflexivity). reflexivity.
Qed.

Lemma rsum_plus w1 w2 m : rsum (fun b j a r => w1 b j a r + w2 b j a r) m = rsum w1 m + rsum w2 m.
Proof.
  unfold rsum. induction m as [|kv m IH]; cbn [zsum]; [reflexivity|]. rewrite IH.
  row_shape kv; cbn [rowval]; lia.
Qed.

Lemma rsum_scale c w m : rsum (fun b j a r => c * w b j a r) m = c * rsum w m.
Proof.
  unfold rsum. induction m as [|kv m IH]; cbn [zsum]; [lia|]. rewrite IH.
  row_shape kv; cbn [rowval]; lia.
Qed.

(** [res_of] enumerates exactly the rows of one attempt *)
Lemma res_of_sum s b j a (f : Z -> Z) :
  zsum (fun rq => snd rq * f (fst rq)) (res_of s b j a)
  = rsum (fun b' j' a' r => if (b' =? b) && (j' =? j) && (a' =? a) then f r else 0) (attempt_res s).
Proof.
  unfold res_of, rsum. induction (attempt_res s) as [|kv m IH]; cbn [fold_right zsum]; [reflexivity|].
  row_shape kv; cbn [rowval]; try (rewrite IH; lia).
  destruct ((b0 =? b) && (j0 =? j) && (a0 =? a)); cbn [zsum fst snd]; rewrite IH; lia.
Qed.

(* ------------------------------------------------------------------ what the state-dependent parts depend on *)

Definition billed_of (s : state) (b j a : Z) : Z :=
  match find_attempt s b j a with Some c => billed c | None => 0 end.

Definition jgroup (s : state) (b j : Z) : Z :=
  match find_job s b j with Some x => j_group x | None => 0 end.

(** number of occurrences of key [k0] in a list of keys *)
Definition kcount (k0 : list Z) (ks : list (list Z)) : Z :=
  Z.of_nat (length (filter (fun k => key_eqb k k0) ks)).

(** the keys [bill] adds to, per table *)
Definition kf_job (s : state) (b j r : Z) : list (list Z) := [[b; j; r]].
Definition kf_group (s : state) (b j r : Z) : list (list Z) := map (fun a => [b; a; r]) (anc_ids s b (jgroup s b j)).
Definition kf_bp (s : state) (b j r : Z) : list (list Z) := [[batch_bp s b; batch_user s b; r]].

(** usage that the attempt_resources rows and the attempts' billed times attribute to key [k0] *)
Definition usage (kf : state -> Z -> Z -> Z -> list (list Z)) (s : state) (k0 : list Z) : Z :=
  rsum (fun b j a r => kcount k0 (kf s b j r) * billed_of s b j a) (attempt_res s).

Definition table_val (m : cmap) (k0 : list Z) : Z := cval (fun k => key_eqb k k0) 0 m.

Definition AggOK (tbl : state -> cmap) (kf : state -> Z -> Z -> Z -> list (list Z)) (s : state) : Prop :=
  forall k0, table_val (tbl s) k0 = usage kf s k0.

Lemma table_val_fold_cadd x ks m k0 :
  table_val (fold_left (fun m' k => cadd k [x] m') ks m) k0 = table_val m k0 + x * kcount k0 ks.
Proof.
  unfold table_val, kcount.
  rewrite (cval_fold_cadd (fun k => key_eqb k k0) 0%nat (fun k : list Z => k) [x] ks m). cbn [nth]. reflexivity.
Qed.

Lemma bill_tables s b j d r q :
  agg_job (bill s b j d (r, q)) = fold_left (fun m k => cadd k [d * q] m) (kf_job s b j r) (agg_job s) /\
  agg_group (bill s b j d (r, q)) = fold_left (fun m k => cadd k [d * q] m) (kf_group s b j r) (agg_group s) /\
  agg_bp (bill s b j d (r, q)) = fold_left (fun m k => cadd k [d * q] m) (kf_bp s b j r) (agg_bp s) /\
  agg_date (bill s b j d (r, q)) = fold_left (fun m k => cadd k [d * q] m) (kf_bp s b j r) (agg_date s).
Proof.
  unfold bill, kf_job, kf_group, kf_bp, jgroup. cbn. repeat split; try reflexivity.
  generalize (agg_group s). induction (anc_ids s b _) as [|x l IH]; intros m; cbn [map fold_left]; [reflexivity | apply IH].
Qed.

(** [kf] may only look at the jobs, the ancestor rows and the batches *)
Definition kf_local (kf : state -> Z -> Z -> Z -> list (list Z)) : Prop :=
  forall s s', jobs s' = jobs s -> ancestors s' = ancestors s -> batches s' = batches s ->
               forall b j r, kf s' b j r = kf s b j r.

Lemma kf_job_local : kf_local kf_job.
Proof. intros s s' _ _ _ b j r; reflexivity. Qed.

Lemma kf_group_local : kf_local kf_group.
Proof.
  intros s s' Hj Ha _ b j r. unfold kf_group, jgroup, anc_ids, anc_rows, find_job. rewrite Hj, Ha. reflexivity.
Qed.

Lemma kf_bp_local : kf_local kf_bp.
Proof. intros s s' _ _ Hb b j r. unfold kf_bp, batch_bp, batch_user, find_batch. rewrite Hb. reflexivity. Qed.

(* ------------------------------------------------------------------ attempts: lookup after replacement / append *)

Definition akey (b j a : Z) (x : attempt) : bool := (a_batch x =? b) && (a_job x =? j) && (a_id x =? a).

Lemma find_attempt_eq s b j a : find_attempt s b j a = find (akey b j a) (attempts s).
Proof. reflexivity. Qed.

Lemma find_akey_replace l n b j a :
  find (akey b j a) (replace_attempt n l) =
  if akey b j a n then option_map (fun _ => n) (find (akey b j a) l) else find (akey b j a) l.
Proof.
  unfold replace_attempt. induction l as [|x l IH]; cbn [map find].
  - destruct (akey b j a n); reflexivity.
  - destruct (same_attempt x n) eqn:E.
    + unfold same_attempt in E.
      assert (Hk : akey b j a x = akey b j a n) by (unfold akey; lia).
      destruct (akey b j a n) eqn:Kn; rewrite Hk; [reflexivity | rewrite IH; reflexivity].
    + destruct (akey b j a x) eqn:Kx.
      * destruct (akey b j a n) eqn:Kn; [|reflexivity].
        exfalso. unfold akey in Kx, Kn. unfold same_attempt in E. lia.
      * rewrite IH. reflexivity.
Qed.

Lemma find_akey_sound l b j a x : find (akey b j a) l = Some x -> In x l /\ a_batch x = b /\ a_job x = j /\ a_id x = a.
Proof.
  intros H. apply find_some in H. destruct H as [Hin Hk]. unfold akey in Hk. repeat split; [exact Hin | lia | lia | lia].
Qed.

Lemma clamp_keys o n : a_batch (clamp o n) = a_batch n /\ a_job (clamp o n) = a_job n /\ a_id (clamp o n) = a_id n.
Proof. unfold clamp. destruct (clamp4 (times_of o) (times_of n)) as [[[st r] e] rs]. repeat split; reflexivity. Qed.

(** billed time after `UPDATE attempts` of the row [o] (found under its own key) with request [req] *)
Lemma billed_of_update_attempt s o req b j a :
  find_attempt s (a_batch o) (a_job o) (a_id o) = Some o ->
  a_batch req = a_batch o -> a_job req = a_job o -> a_id req = a_id o ->
  billed_of (update_attempt s o req) b j a
  = billed_of s b j a + (if akey b j a o then billed (clamp o req) - billed o else 0).
Proof.
  intros Hf Kb Kj Ka.
  pose proof (update_attempt_frame s o req) as F. cbv zeta in F.
  destruct F as (_&_&_&_&_&_&_&_&_&_&Fa&_).
  unfold billed_of. rewrite !find_attempt_eq, Fa, find_akey_replace.
  destruct (clamp_keys o req) as (C1&C2&C3).
  assert (Hk : akey b j a (clamp o req) = akey b j a o) by (unfold akey; rewrite C1, C2, C3, Kb, Kj, Ka; reflexivity).
  rewrite Hk. destruct (akey b j a o) eqn:K; [|lia].
  assert (find (akey b j a) (attempts s) = Some o) as ->.
  { unfold akey in K. assert (b = a_batch o) by lia. assert (j = a_job o) by lia. assert (a = a_id o) by lia. subst. exact Hf. }
  cbn [option_map]. lia.
Qed.

(* ------------------------------------------------------------------ generic in (table, key function) *)

Section Table.
  Variable tbl : state -> cmap.
  Variable kf : state -> Z -> Z -> Z -> list (list Z).
  Hypothesis kf_loc : kf_local kf.
  Hypothesis tbl_bill : forall s b j d r q,
    tbl (bill s b j d (r, q)) = fold_left (fun m k => cadd k [d * q] m) (kf s b j r) (tbl s).

  Lemma kf_bill s b j d rq b' j' r' : kf (bill s b j d rq) b' j' r' = kf s b' j' r'.
  Proof.
    pose proof (bill_frame s b j d rq) as F. cbv zeta in F.
    destruct F as (F1&F2&F3&F4&F5&F6&F7&F8&F9&F10&F11&F12&F13&F14). apply kf_loc; assumption.
  Qed.

  (** folding [bill] over the resources of an attempt adds d * q * (hits of k0) per resource *)
  Lemma fold_bill_table b j d rqs : forall s k0,
    table_val (tbl (fold_left (fun st rq => bill st b j d rq) rqs s)) k0
    = table_val (tbl s) k0 + d * zsum (fun rq => snd rq * kcount k0 (kf s b j (fst rq))) rqs.
  Proof.
    induction rqs as [|[r q] rqs IH]; intros s k0; cbn [fold_left zsum fst snd]; [lia|].
    rewrite IH, tbl_bill, table_val_fold_cadd.
    rewrite (zsum_ext _ (fun rq => snd rq * kcount k0 (kf s b j (fst rq)))); [lia|].
    intros rq. rewrite kf_bill. reflexivity.
  Qed.

  Hypothesis tbl_attempts : forall s f, tbl (s <| attempts ::= f |>) = tbl s.
  Hypothesis tbl_attempt_res : forall s f, tbl (s <| attempt_res ::= f |>) = tbl s.

  (** congruence: same table, same rows, and on those rows same keys and same billed times *)
  Lemma AggOK_congr s s' :
    AggOK tbl kf s -> tbl s' = tbl s -> attempt_res s' = attempt_res s ->
    (forall b j a r q, In ([b; j; a; r], [q]) (attempt_res s) ->
       kf s' b j r = kf s b j r /\ billed_of s' b j a = billed_of s b j a) ->
    AggOK tbl kf s'.
  Proof.
    intros H Ht Hr Hrows k0. unfold usage. rewrite Ht, Hr, H. unfold usage.
    apply rsum_ext_in. intros b j a r q Hin. destruct (Hrows b j a r q Hin) as [-> ->]. reflexivity.
  Qed.

  (** `UPDATE attempts` of a row: BEFORE trigger (clamp), AFTER trigger (bill the difference for every resource row) *)
  Lemma AggOK_update_attempt s o req :
    AggOK tbl kf s ->
    find_attempt s (a_batch o) (a_job o) (a_id o) = Some o ->
    a_batch req = a_batch o -> a_job req = a_job o -> a_id req = a_id o ->
    AggOK tbl kf (update_attempt s o req).
  Proof.
    intros H Hf Kb Kj Ka k0.
    pose proof (update_attempt_frame s o req) as F. cbv zeta in F.
    destruct F as (F1&F2&F3&F4&F5&F6&F7&F8&F9&F10&F11&F12&F13&F14).
    set (b := a_batch o); set (j := a_job o); set (a := a_id o).
    set (d := billed (clamp o req) - billed o).
    (* right-hand side *)
    assert (Hkf : forall b' j' r', kf (update_attempt s o req) b' j' r' = kf s b' j' r') by (intros; apply kf_loc; assumption).
    assert (Hu : usage kf (update_attempt s o req) k0
                 = usage kf s k0 + d * zsum (fun rq => snd rq * kcount k0 (kf s b j (fst rq))) (res_of s b j a)).
    { unfold usage. rewrite F13.
      rewrite (rsum_ext_in _ (fun b' j' a' r => kcount k0 (kf s b' j' r) * billed_of s b' j' a'
                                               + d * (if (b' =? b) && (j' =? j) && (a' =? a) then kcount k0 (kf s b j r) else 0))).
      - rewrite rsum_plus, rsum_scale, <- res_of_sum. reflexivity.
      - intros b' j' a' r q _. rewrite Hkf, billed_of_update_attempt by assumption.
        unfold akey. fold b j a d.
        replace ((b =? b') && (j =? j') && (a =? a')) with ((b' =? b) && (j' =? j) && (a' =? a)) by lia.
        destruct ((b' =? b) && (j' =? j) && (a' =? a)) eqn:E; [|lia].
        assert (b' = b) by lia. assert (j' = j) by lia. subst b' j'. lia. }
    rewrite Hu, <- H.
    (* left-hand side *)
    destruct (clamp_keys o req) as (C1&C2&C3).
    unfold update_attempt. cbv zeta. fold d.
    destruct (d =? 0) eqn:Ed.
    - rewrite tbl_attempts. assert (d = 0) by lia. lia.
    - rewrite C1, C2, C3, Kb, Kj, Ka. fold b j a.
      rewrite fold_bill_table, tbl_attempts.
      assert (res_of (s <| attempts ::= replace_attempt (clamp o req) |>) b j a = res_of s b j a) as -> by reflexivity.
      rewrite (zsum_ext _ (fun rq => snd rq * kcount k0 (kf s b j (fst rq)))); [reflexivity|].
      intros rq. f_equal. f_equal. apply kf_loc; reflexivity.
  Qed.

  (** INSERT INTO attempt_resources ... ON DUPLICATE KEY UPDATE quantity = quantity + AFTER INSERT trigger *)
  Lemma AggOK_add_one_resource s b j a rq :
    AggOK tbl kf s -> AggOK tbl kf (add_one_resource b j a s rq).
  Proof.
    intros H k0. destruct rq as [r q]. unfold add_one_resource.
    destruct (existsb _ (attempt_res s)); [apply H|]. cbv zeta.
    set (s1 := s <| attempt_res ::= fun m => m ++ [([b; j; a; r], [q])] |>).
    assert (Hb1 : forall b' j' a', billed_of s1 b' j' a' = billed_of s b' j' a') by reflexivity.
    assert (Hk1 : forall b' j' r', kf s1 b' j' r' = kf s b' j' r') by (intros; apply kf_loc; reflexivity).
    assert (Hu1 : usage kf s1 k0 = usage kf s k0 + q * (kcount k0 (kf s b j r) * billed_of s b j a)).
    { unfold usage. change (attempt_res s1) with (attempt_res s ++ [([b; j; a; r], [q])]).
      rewrite rsum_app. unfold rsum at 2. cbn [zsum rowval]. rewrite Hk1, Hb1.
      rewrite (rsum_ext_in _ (fun b0 j0 a0 r0 => kcount k0 (kf s b0 j0 r0) * billed_of s b0 j0 a0)); [lia|].
      intros; rewrite Hk1, Hb1; reflexivity. }
    change (match find_attempt s1 b j a with Some at_ => billed at_ | None => 0 end) with (billed_of s b j a).
    destruct (billed_of s b j a =? 0) eqn:E.
    - rewrite Hu1. unfold s1 at 1. rewrite tbl_attempt_res, H. assert (billed_of s b j a = 0) by lia. lia.
    - pose proof (bill_frame s1 b j (billed_of s b j a) (r, q)) as F. cbv zeta in F.
      destruct F as (F1&F2&F3&F4&F5&F6&F7&F8&F9&F10&F11&F12&F13&F14).
      rewrite tbl_bill, table_val_fold_cadd. unfold s1 at 1. rewrite tbl_attempt_res, H, Hk1.
      transitivity (usage kf s1 k0); [rewrite Hu1; lia|].
      set (s2 := bill s1 b j (billed_of s b j a) (r, q)) in *.
      unfold usage. rewrite F13. apply rsum_ext_in. intros b' j' a' r' q' _.
      rewrite (kf_loc s1 s2) by assumption.
      unfold billed_of, find_attempt. rewrite F11. reflexivity.
  Qed.

  Lemma AggOK_fold_add_resources b j a rqs : forall s,
    AggOK tbl kf s -> AggOK tbl kf (fold_left (add_one_resource b j a) rqs s).
  Proof. induction rqs as [|rq rqs IH]; intros s H; cbn [fold_left]; [exact H | apply IH, AggOK_add_one_resource, H]. Qed.
End Table.
