(** [TInv] holds after every good history; consequences for the property theorems of C06 (and the tally half
    of C04). *)
From HailV Require Import Common.Prelude BatchDB.Model BatchDB.Tables BatchDB.CMap BatchDB.JobsWF BatchDB.StepCore
  BatchDB.JobFold BatchDB.KidsFold BatchDB.Legal BatchDB.DepsDef BatchDB.DepsEasy BatchDB.DepsMap BatchDB.DepsDriver
  BatchDB.DepsMC1 BatchDB.DepsMC2 BatchDB.DepsMC3 BatchDB.DepsMC4
  BatchDB.DepsCommit1 BatchDB.DepsCommit2 BatchDB.DepsCommit3 BatchDB.DepsCommit4
  BatchDB.DepsStruct BatchDB.DepsCreateJobs BatchDB.DepsAux BatchDB.Deps
  BatchDB.Tally BatchDB.TallyOps BatchDB.TallyStruct BatchDB.TallyCommit BatchDB.TallyMC.
From RecordUpdate Require Import RecordSet.
Import RecordSetNotations.
Open Scope Z_scope.

Theorem TInv_step s o : DInv s -> DAux s -> TInv s -> good s o -> TInv (fst (step s o)).
Proof.
  intros D A T [L C]. destruct o; cbn [step].
  - apply TInv_create_batch; assumption.
  - apply TInv_create_update; exact T.
  - apply TInv_create_groups; assumption.
  - apply TInv_create_jobs; assumption.
  - apply TInv_commit; assumption.
  - apply TInv_cancel_group; exact T.
  - apply TInv_delete_batch; exact T.
  - exact (TInv_core _ _ (core_eq_new_instance s _ _ _ _) T).
  - exact (TInv_core _ _ (core_eq_activate s _) T).
  - apply TInv_deactivate; assumption.
  - exact (TInv_core _ _ (core_eq_mark_deleted s _) T).
  - apply TInv_schedule; assumption.
  - apply TInv_unschedule; assumption.
  - apply TInv_creating_started; assumption.
  - apply TInv_creating_started; assumption.
  - apply TInv_mark_complete; assumption.
  - exact (TInv_core _ _ (core_eq_add_resources s _ _ _ _) T).
  - exact (TInv_core _ _ (core_eq_billing_update s _ _) T).
  - apply TInv_cleanup_staging; exact T.
  - exact (TInv_core _ _ (core_eq_cleanup_cancellable s) T).
Qed.

Theorem TInv_reachable ops : good_history ops -> TInv (run ops).
Proof. apply good_invariant; [apply TInv_init | intros s o D A T G; apply TInv_step; assumption]. Qed.

(* ------------------------------------------------------------------ readable forms *)

(** the committed jobs of the subtree of group [g] of batch [b] *)
Definition subtree (s : state) (b g : Z) : list job := filter (fun x => in_sub s b g x && jcommitted s x) (jobs s).

Definition count (q : jstate -> bool) (l : list job) : Z := Z.of_nat (length (filter (fun x => q (j_state x)) l)).

Lemma in_sub_spec s b g x : in_sub s b g x = true <-> j_batch x = b /\ In g (anc_ids s b (j_group x)).
Proof. unfold in_sub. rewrite andb_true_iff, existsb_eqb_in', Z.eqb_eq. tauto. Qed.

Lemma in_subtree s b g x :
  In x (subtree s b g) <-> In x (jobs s) /\ j_batch x = b /\ In g (anc_ids s b (j_group x)) /\ jcommitted s x = true.
Proof. unfold subtree. rewrite filter_In, andb_true_iff, in_sub_spec. tauto. Qed.

Lemma cnt_count s b g q : cnt s b g q = count q (subtree s b g).
Proof.
  unfold cnt, count, subtree, sel. f_equal.
  induction (jobs s) as [|x l IH]; [reflexivity|]. cbn [filter].
  destruct (in_sub s b g x && jcommitted s x); cbn [andb filter]; [destruct (q (j_state x)); cbn [length]; rewrite IH; reflexivity | exact IH].
Qed.

(** the root group is an ancestor-or-self of every job's group: the subtree of the root is the batch *)
Lemma in_sub_root s b x : DInv s -> In x (jobs s) -> in_sub s b 0 x = (j_batch x =? b).
Proof.
  intros D Hx. unfold in_sub. destruct (j_batch x =? b) eqn:Eb; [|reflexivity]. cbn [andb].
  assert (E : j_batch x = b) by lia.
  pose proof (d_jgroup _ D x Hx) as Hg.
  destruct (find_group s (j_batch x) (j_group x)) as [gg|] eqn:Fg; [|congruence].
  apply find_group_sound in Fg. destruct Fg as (Hin & Eb' & Eg).
  pose proof (d_root _ D gg Hin) as R. unfold root_once in R. rewrite Eb', Eg, E in R.
  destruct (existsb (Z.eqb 0) (anc_ids s b (j_group x))) eqn:Ex; [reflexivity|]. exfalso.
  rewrite (filter_all_false (Z.eqb 0) (anc_ids s b (j_group x))) in R; [discriminate|].
  intros z Hz. destruct (0 =? z) eqn:Ez; [|reflexivity].
  assert (existsb (Z.eqb 0) (anc_ids s b (j_group x)) = true) by (apply existsb_exists; exists z; auto). congruence.
Qed.

Definition batch_jobs (s : state) (b : Z) : list job := filter (fun x => (j_batch x =? b) && jcommitted s x) (jobs s).

Lemma subtree_root s b : DInv s -> subtree s b 0 = batch_jobs s b.
Proof.
  intros D. unfold subtree, batch_jobs. apply filter_ext_in'. intros x Hx. rewrite (in_sub_root s b x D Hx). reflexivity.
Qed.

(* ------------------------------------------------------------------ complete iff all terminal *)

Lemma filter_len_le {A} (p : A -> bool) l : (length (filter p l) <= length l)%nat.
Proof. induction l as [|a l IH]; cbn [filter length]; [lia|]. destruct (p a); cbn [length]; lia. Qed.

Lemma count_all_iff (q : jstate -> bool) l : count q l = Z.of_nat (length l) <-> forall x, In x l -> q (j_state x) = true.
Proof.
  unfold count. induction l as [|a l IH]; cbn [filter length]; [split; [intros _ x [] | reflexivity]|].
  pose proof (filter_len_le (fun x => q (j_state x)) l) as Le.
  destruct (q (j_state a)) eqn:Q; cbn [length].
  - rewrite !Nat2Z.inj_succ. split.
    + intros H x [<-|Hx]; [exact Q | apply IH; [lia | exact Hx]].
    + intros H. f_equal. apply IH. intros x Hx. apply H. right; exact Hx.
  - split; [intros H; lia|]. intros H. specialize (H a (or_introl eq_refl)). congruence.
Qed.

Lemma count_q_all l : count q_all l = Z.of_nat (length l).
Proof. unfold count, q_all. rewrite filter_all_true; [reflexivity | reflexivity]. Qed.

Lemma group_complete_iff s gr :
  group_ok s gr ->
  (g_running gr = false <-> forall x, In x (subtree s (g_batch gr) (g_id gr)) -> terminal (j_state x) = true).
Proof.
  intros [G1 G2 _ _ _ G6]. rewrite G6, G1, G2, !cnt_count, count_q_all, <- count_all_iff.
  rewrite negb_false_iff, Z.eqb_eq. tauto.
Qed.

(* ------------------------------------------------------------------ a completion that finds the job finished, or stale *)

Lemma mark_complete_noop s b j a i ns st en r x :
  find_job s b j = Some x ->
  terminal (j_state x) = true \/ (exists e, j_attempt x = Some e /\ a <> -1 /\ e <> a) ->
  let res := do_mark_complete s b j a i ns st en r in
  core_eq s (fst res) /\
  (snd res = sql_error 1452 \/ (exists d, snd res = ok [2; d]) \/ (exists d, snd res = ok [0; d; jcode (j_state x)])).
Proof.
  intros Hx Hc. cbv zeta. unfold do_mark_complete. rewrite Hx.
  match goal with |- context [match ?e with Some _ => _ | None => (s, sql_error 1452) end] => destruct e as [[s1 d0]|] eqn:A end.
  2:{ split; [apply core_eq_refl | left; reflexivity]. }
  assert (C1 : core_eq s s1).
  { destruct (a =? -1); [injection A as <- _; apply core_eq_refl | eapply core_eq_add_attempt; exact A]. }
  set (cur := if a =? -1 then None else find_attempt s1 b j a).
  set (s2 := match cur with Some c => update_attempt s1 c _ | None => s1 end).
  assert (C2 : core_eq s s2).
  { subst s2. destruct cur; [eapply core_eq_trans; [exact C1 | apply core_eq_update_attempt] | exact C1]. }
  match goal with |- context [if ?g then match find_inst s2 i with _ => _ end else s2] =>
    set (s3 := if g then match find_inst s2 i with Some y => s2 <| insts ::= replace_inst (y <| i_free := i_free y + j_cores x |>) |> | None => s2 end else s2) end.
  assert (C3 : core_eq s s3).
  { subst s3. match goal with |- context [if ?g then _ else _] => destruct g end; [|exact C2].
    destruct (find_inst s2 i); [|exact C2]. eapply core_eq_trans; [exact C2 | apply core_eq_insts]. }
  match goal with |- context [if ?c then (s3, _) else _] => destruct c eqn:Stale end.
  - split; [exact C3 | right; left; eexists; reflexivity].
  - destruct Hc as [Tm | (e & He & Ha & Hne)].
    + assert (St : jstate_eqb (j_state x) Ready || jstate_eqb (j_state x) Creating || jstate_eqb (j_state x) Running = false)
        by (destruct (j_state x); cbn in *; congruence).
      rewrite St, Tm. split; [exact C3 | right; right; eexists; reflexivity].
    + exfalso. rewrite He in Stale. assert (E1 : (a =? -1) = false) by lia. assert (E2 : (e =? a) = false) by lia.
      rewrite E1, E2 in Stale. discriminate.
Qed.

(* ------------------------------------------------------------------ commit reopens *)

Lemma commit_reopens s b u user up :
  DInv s -> TInv s -> find_update s b u = Some up -> u_committed up = false ->
  let s' := fst (do_commit s b u user) in
  committed s' b u = true ->
  u_njobs up = n_jobs_of s b u /\
  (forall gr', In gr' (groups s') -> g_batch gr' = b ->
     exists gr, In gr (groups s) /\ g_batch gr = b /\ g_id gr = g_id gr' /\
       g_njobs gr' = g_njobs gr + n_sub_upd s b u (g_id gr) /\
       (0 < n_sub_upd s b u (g_id gr) -> g_running gr' = true)) /\
  (forall bt', In bt' (batches s') -> b_id bt' = b ->
     exists bt, In bt (batches s) /\ b_id bt = b /\ b_njobs bt' = b_njobs bt + u_njobs up /\
       (0 < u_njobs up -> b_running bt' = true)).
Proof.
  intros D T Fup Hunc. cbv zeta.
  assert (Hun : committed s b u = false) by (unfold committed; rewrite Fup; exact Hunc).
  unfold do_commit. destruct (find_batch s b) as [bt0|]; [|cbn [fst]; congruence].
  rewrite Fup. destruct (_ || _); [cbn [fst]; congruence|]. destruct (marked s b 0); [cbn [fst]; congruence|].
  apply commit_proc_shape; [exact D | congruence|].
  intros up' sf Fup' _ Hst Hj Hu Hs Ha Hgb _. rewrite Fup in Fup'. injection Fup' as <-.
  pose proof (find_update_sound _ _ _ _ Fup) as (Hup & Eb & Eu).
  split; [|split].
  - rewrite <- Hst. rewrite <- Eb, <- Eu. apply (d_staged _ D up Hup Hunc).
  - intros gr' Hg Egb.
    destruct (ct_groups s sf b u up D T Fup Hunc Hgb gr' Hg) as (gr & Hgr & K & N & R & _).
    unfold gk in K. injection K as K1 K2. exists gr. split; [exact Hgr|]. split; [congruence|]. split; [congruence|].
    rewrite <- (t_staged _ T b u (g_id gr) Hun). rewrite N, R. replace (g_batch gr =? b) with true by lia. cbn [andb].
    split; [reflexivity|]. intros Pos. replace (0 <? gstaged s b u (g_id gr)) with true by lia. reflexivity.
  - intros bt' Hb Ebb.
    destruct (ct_batches s sf b u up Hgb bt' Hb) as (bt & Hbt & Ki & Nb & Rb).
    exists bt. split; [exact Hbt|]. split; [congruence|].
    pose proof (d_upos _ D up Hup) as (Nn & _).
    rewrite Nb, Rb. replace (b_id bt =? b) with true by lia. cbn [andb].
    destruct (0 <? u_njobs up) eqn:Pos; split; try lia; try reflexivity.
Qed.

(* ------------------------------------------------------------------ statements over reachable states *)

Lemma reach_counts ops : good_history ops ->
  let s := run ops in
  forall gr, In gr (groups s) ->
    let sub := subtree s (g_batch gr) (g_id gr) in
    g_njobs gr = Z.of_nat (length sub) /\ g_ncompleted gr = count terminal sub /\ g_nsucc gr = count q_succ sub /\
    g_nfailed gr = count q_fail sub /\ g_ncancelled gr = count q_canc sub.
Proof.
  intros G s gr Hg. cbv zeta. destruct (t_groups _ (TInv_reachable ops G) gr Hg) as [G1 G2 G3 G4 G5 _].
  rewrite <- count_q_all, <- !cnt_count. auto.
Qed.

Lemma batch_root s bt : TInv s -> In bt (batches s) ->
  exists gr, In gr (groups s) /\ g_batch gr = b_id bt /\ g_id gr = 0 /\ find_group s (b_id bt) 0 = Some gr /\
             b_njobs bt = g_njobs gr /\ b_running bt = g_running gr.
Proof.
  intros T Hb. pose proof (t_broot _ T bt Hb) as Hr.
  destruct (find_group s (b_id bt) 0) as [gr|] eqn:F; [|congruence].
  pose proof (find_group_sound _ _ _ _ F) as (Hg & E1 & E2). exists gr.
  destruct (t_batch _ T bt gr Hb Hg E1 E2) as [A1 A2]. repeat split; assumption.
Qed.

Lemma reach_batch ops : good_history ops ->
  let s := run ops in
  forall bt, In bt (batches s) ->
    b_njobs bt = Z.of_nat (length (batch_jobs s (b_id bt))) /\
    exists gr, find_group s (b_id bt) 0 = Some gr /\ b_njobs bt = g_njobs gr /\ b_running bt = g_running gr.
Proof.
  intros G s bt Hb. pose proof (TInv_reachable ops G) as T. pose proof (DInv_reachable ops G) as D. fold s in T, D.
  destruct (batch_root s bt T Hb) as (gr & Hg & E1 & E2 & F & A1 & A2). split; [|exists gr; auto].
  destruct (t_groups _ T gr Hg) as [G1 _ _ _ _ _]. rewrite A1, G1, cnt_count, count_q_all, E1, E2, (subtree_root s _ D). reflexivity.
Qed.

Lemma reach_complete_iff ops : good_history ops ->
  let s := run ops in
  (forall gr, In gr (groups s) ->
     (g_running gr = false <-> forall x, In x (subtree s (g_batch gr) (g_id gr)) -> terminal (j_state x) = true)) /\
  (forall bt, In bt (batches s) ->
     (b_running bt = false <-> forall x, In x (batch_jobs s (b_id bt)) -> terminal (j_state x) = true)).
Proof.
  intros G s. pose proof (TInv_reachable ops G) as T. pose proof (DInv_reachable ops G) as D. fold s in T, D. split.
  - intros gr Hg. apply group_complete_iff. apply (t_groups _ T gr Hg).
  - intros bt Hb. destruct (batch_root s bt T Hb) as (gr & Hg & E1 & E2 & _ & _ & A2).
    rewrite A2, (group_complete_iff s gr (t_groups _ T gr Hg)), E1, E2, (subtree_root s _ D). tauto.
Qed.

Lemma reach_uncommitted_live ops : good_history ops ->
  forall x, In x (jobs (run ops)) -> jcommitted (run ops) x = false -> terminal (j_state x) = false.
Proof.
  intros G x Hx Hc. pose proof (DInv_reachable ops G) as D.
  pose proof (d_jobs _ D x Hx) as Ok. unfold job_ok in Ok. rewrite Hc in Ok. destruct Ok as (_ & Ok).
  destruct (j_update x =? 1).
  - destruct Ok as (_ & St). rewrite St. destruct (is_nil _); reflexivity.
  - rewrite Ok. reflexivity.
Qed.

Lemma reach_commit_reopens ops : good_history ops ->
  let s := run ops in
  forall b u user up, find_update s b u = Some up -> u_committed up = false ->
  let s' := fst (step s (Commit b u user)) in
  committed s' b u = true ->
  u_njobs up = n_jobs_of s b u /\
  (forall gr', In gr' (groups s') -> g_batch gr' = b ->
     exists gr, In gr (groups s) /\ g_batch gr = b /\ g_id gr = g_id gr' /\
       g_njobs gr' = g_njobs gr + n_sub_upd s b u (g_id gr) /\
       (0 < n_sub_upd s b u (g_id gr) -> g_running gr' = true)) /\
  (forall bt', In bt' (batches s') -> b_id bt' = b ->
     exists bt, In bt (batches s) /\ b_id bt = b /\ b_njobs bt' = b_njobs bt + u_njobs up /\
       (0 < u_njobs up -> b_running bt' = true)).
Proof.
  intros G s b u user up Fup Hunc. cbn [step].
  apply (commit_reopens s b u user up (DInv_reachable ops G) (TInv_reachable ops G) Fup Hunc).
Qed.

Lemma counted_once s b j a i ns st en r x :
  find_job s b j = Some x ->
  terminal (j_state x) = true \/ (exists e, j_attempt x = Some e /\ a <> -1 /\ e <> a) ->
  let res := step s (MarkComplete b j a i ns st en r) in
  groups (fst res) = groups s /\ batches (fst res) = batches s /\ jobs (fst res) = jobs s /\
  (snd res = sql_error 1452 \/ (exists d, snd res = ok [2; d]) \/ (exists d, snd res = ok [0; d; jcode (j_state x)])).
Proof.
  intros Hx Hc. cbn [step]. destruct (mark_complete_noop s b j a i ns st en r x Hx Hc) as ((E1&E2&E3&E4&E5&E6&E7&E8&E9) & R).
  cbv zeta. auto.
Qed.

(** Non-vacuity: in the demo history of Deps.v (two updates, a dependency across them, a failure, a cancellation)
    the root group ends running with 3 jobs, 2 completed (1 failed, 1 cancelled; the always-run job 3 is still Ready),
    and the sub-group 1 is complete with its single, cancelled job: the rows equal the counts over the subtrees. *)
Example demo_tallies :
  map (fun g => (g_id g, g_running g, [g_njobs g; g_ncompleted g; g_nsucc g; g_nfailed g; g_ncancelled g])) (groups (run demo_history))
  = map (fun g => (g_id g, g_running g,
                   [Z.of_nat (length (subtree (run demo_history) (g_batch g) (g_id g)));
                    count terminal (subtree (run demo_history) (g_batch g) (g_id g));
                    count q_succ (subtree (run demo_history) (g_batch g) (g_id g));
                    count q_fail (subtree (run demo_history) (g_batch g) (g_id g));
                    count q_canc (subtree (run demo_history) (g_batch g) (g_id g))])) (groups (run demo_history)).
Proof. vm_compute. reflexivity. Qed.

(** Non-vacuity of [reach_commit_reopens]: the second update of the demo history is open, and its commit succeeds. *)
Example demo_reopen :
  let ops := firstn 11 demo_history in
  good_history ops /\
  exists up, find_update (run ops) 1 2 = Some up /\ u_committed up = false /\
             committed (fst (step (run ops) (Commit 1 2 1))) 1 2 = true /\ 0 < n_sub_upd (run ops) 1 2 0.
Proof.
  cbv zeta. split; [apply good_fromb_sound; vm_compute; reflexivity|].
  eexists. split; [vm_compute; reflexivity|]. split; [reflexivity|]. split; vm_compute; reflexivity.
Qed.

(** Non-vacuity of [counted_once]: job 1 of the demo history is finished (Failed) at the end. *)
Example demo_late_report :
  exists x, find_job (run demo_history) 1 1 = Some x /\ terminal (j_state x) = true.
Proof. eexists. split; vm_compute; reflexivity. Qed.
