(** C10, the driver's in-memory copy of a pool instance's free cores around [CALL schedule_job].

    The pool scheduler reserves the job's cores in memory (mem - cores) BEFORE the call and the driver adds the answered
    [delta_cores_mcpu] afterwards (batch/driver/job.py schedule_job).  [pool_schedule_delta_exact]: for EVERY answer of the
    procedure on a live pool instance — rc = 0 and rc = 1 alike — the database's new free cores are exactly
    old free - cores + delta.  So the in-memory copy stays equal to the database value iff the delta is applied on both
    branches (this is the clause the run checks on the real code; the in-memory object itself is not modelled). *)
From HailV Require Import Common.Prelude BatchDB.Model BatchDB.Tables.
From RecordUpdate Require Import RecordSet.
Import RecordSetNotations.
Open Scope Z_scope.

Definition free_of (s : state) (i : Z) : option Z := option_map i_free (find_inst s i).

Lemma find_replace_self l i y' :
  i_name y' = i ->
  (exists y, find (fun x => i_name x =? i) l = Some y) ->
  find (fun x => i_name x =? i) (replace_inst y' l) = Some y'.
Proof.
  intros Hn. induction l as [|x l IH]; intros [y Hy]; cbn [find] in Hy.
  - discriminate.
  - unfold replace_inst. cbn [map find]. fold (replace_inst y' l).
    destruct (i_name x =? i) eqn:E.
    + rewrite Hn, E. rewrite Hn, Z.eqb_refl. reflexivity.
    + rewrite Hn, E. rewrite E. apply IH. exists y. exact Hy.
Qed.

Lemma free_of_update_job s o n i : free_of (update_job s o n) i = free_of s i.
Proof. unfold free_of, find_inst. rewrite update_job_insts. reflexivity. Qed.

Theorem pool_schedule_delta_exact s b j a i x y s' rc delta :
  find_job s b j = Some x -> find_inst s i = Some y -> i_pool y = true -> ilive (i_state y) = true ->
  do_schedule s b j a i = (s', ok [rc; delta]) ->
  free_of s' i = Some (i_free y - j_cores x + delta) /\ (rc = 0 \/ rc = 1).
Proof.
  intros Hx Hy Hp Hl H. unfold do_schedule in H. rewrite Hx in H.
  unfold is_job_cancelled in H. cbv zeta in H. rewrite Hy, Hp in H.
  unfold add_attempt in H.
  destruct (find_attempt s b j a) as [c|] eqn:Ef.
  - cbn [Z.eqb] in H.
    match type of H with (if ?c then _ else _) = _ => destruct c end;
      injection H as <- <- <-.
    + split; [|left; reflexivity]. rewrite free_of_update_job. unfold free_of. rewrite Hy. cbn. f_equal. lia.
    + split; [|right; reflexivity]. unfold free_of. rewrite Hy. cbn. f_equal. lia.
  - cbv zeta in H.
    set (s0 := s <| attempts ::= fun l => l ++ [mkAttempt b j a i None None None None] |>) in *.
    change (find_inst s0 i) with (find_inst s i) in H. rewrite Hy, Hl in H.
    set (y' := y <| i_free := i_free y - j_cores x |>) in *.
    set (s1 := s0 <| insts ::= replace_inst y' |>) in *.
    assert (Hf : free_of s1 i = Some (i_free y - j_cores x)).
    { unfold free_of, find_inst. change (insts s1) with (replace_inst y' (insts s)).
      rewrite (find_replace_self (insts s) i y').
      - reflexivity.
      - change (i_name y' ) with (i_name y). unfold find_inst in Hy. apply find_some in Hy. destruct Hy as [_ Hn]. apply Z.eqb_eq; exact Hn.
      - exists y. exact Hy. }
    destruct (- j_cores x =? 0) eqn:Ez;
      match type of H with (if ?c then _ else _) = _ => destruct c end;
      injection H as <- <- <-; (split; [|auto]); try rewrite free_of_update_job; rewrite Hf; f_equal;
      try (apply Z.eqb_eq in Ez); lia.
Qed.

(** The hypotheses are satisfiable and both answers occur: a first call (rc 0, delta 0) and a retried call (rc 1, delta = cores). *)
From HailV Require Import BatchDB.Legal BatchDB.Cores.

Example both_answers_occur :
  let s := run (setup ++ [ActivateInstance 7]) in
  let r1 := do_schedule s 1 1 10 7 in
  option_map i_pool (find_inst s 7) = Some true /\
  snd r1 = ok [0; 0] /\ snd (do_schedule (fst r1) 1 1 10 7) = ok [1; 1000].
Proof. vm_compute. repeat split; reflexivity. Qed.
