(** C09, overlapping deliveries: what the "two serial orders" tie of harness/batchdb/corr.py (op "race") rests on.

    The implementation run executes two requests o1, o2 OVERLAPPING (o1 paused after a read-only prefix, o2 to completion or
    until it blocks on a lock of o1; harness/batchdb/race.py).  A race has no single model transition; the tie accepts the
    implementation's (state after the race, answer to o1, answer to o2) iff it is one of [race_outcomes s o1 o2], the
    outcomes of the two SERIAL orders in the model.  This file proves what those two outcomes are
      - for a request and its verbatim retry: both orders are one and the same outcome, a single delivery answered twice
        ([retry_commutes]) -- so for a retry the tie compares with a single delivery;
      - for two update-creates of one batch that both reserve a new range: in either order the request served second gets
        the update id and the job / group ranges immediately after those of the request served first ([race_updates_adjacent]),
        so the two accepted outcomes differ exactly in who gets the lower and who the upper range, and in both the ranges
        are disjoint and contiguous ([race_updates_disjoint]). *)
From HailV Require Import Common.Prelude BatchDB.Model BatchDB.Tables BatchDB.StepFrame BatchDB.Idem.
Open Scope Z_scope.

(** o1 then o2, one transaction after the other, from ANY state: (final state, answer to o1, answer to o2) *)
Definition serial (s : state) (o1 o2 : op) : state * res * res :=
  let r1 := step s o1 in let r2 := step (fst r1) o2 in (fst r2, snd r1, snd r2).

(** the two outcomes the tie accepts for a race of o1 with o2; answers listed per REQUEST (o1's first) in both *)
Definition race_outcomes (s : state) (o1 o2 : op) : list (state * res * res) :=
  [ serial s o1 o2 ; (let '(s', r2, r1) := serial s o2 o1 in (s', r1, r2)) ].

Lemma retry_serial s o : retriable o -> serial s o o = (fst (step s o), snd (step s o), snd (step s o)).
Proof. intros R. unfold serial. cbv zeta. rewrite (retry_idempotent s o R). reflexivity. Qed.

Theorem retry_commutes s o : retriable o ->
  forall x, In x (race_outcomes s o o) -> x = (fst (step s o), snd (step s o), snd (step s o)).
Proof.
  intros R x Hx. unfold race_outcomes in Hx. rewrite (retry_serial s o R) in Hx.
  cbn [In] in Hx. destruct Hx as [<- | [<- | []]]; reflexivity.
Qed.

(** a CreateUpdate that changes the state appends exactly one row -- the reserved range it answers *)
Lemma create_update_new_shape s b user token nj ng :
  fst (step s (CreateUpdate b user token nj ng)) <> s ->
  exists uid sg sj,
    updates (fst (step s (CreateUpdate b user token nj ng))) = updates s ++ [mkUpdate b uid token sj nj sg ng false] /\
    snd (step s (CreateUpdate b user token nj ng)) = ok [uid; sg; sj].
Proof.
  cbn [step]. unfold do_create_update.
  destruct ((nj <? 0) || (ng <? 0)); [intros N; exfalso; apply N; reflexivity|].
  destruct (negb ((0 <? nj) || (0 <? ng))); [intros N; exfalso; apply N; reflexivity|].
  match goal with |- context [match ?c with Some _ => _ | None => _ end] => destruct c end; [intros N; exfalso; apply N; reflexivity|].
  destruct (find_batch s b); [|intros N; exfalso; apply N; reflexivity].
  match goal with |- context [if ?c then _ else _] => destruct c end; [intros N; exfalso; apply N; reflexivity|].
  destruct (marked s b 0); [intros N; exfalso; apply N; reflexivity|].
  destruct (match last_update s b with Some l => _ | None => _ end) as [[uid sg] sj].
  intros _. exists uid, sg, sj. cbn [fst snd]. scbn. split; reflexivity.
Qed.

(** two update-creates of the same batch served one after the other, both reserving a NEW range: the second one's update
    id and ranges follow the first one's immediately (every state in which the ranges are well formed, hence every state
    of every history: Idem.ranges_ok_run). *)
Theorem race_updates_adjacent s b user1 t1 nj1 ng1 user2 t2 nj2 ng2 :
  ranges_ok s ->
  let o1 := CreateUpdate b user1 t1 nj1 ng1 in let o2 := CreateUpdate b user2 t2 nj2 ng2 in
  let s1 := fst (step s o1) in
  s1 <> s -> fst (step s1 o2) <> s1 ->
  exists uid sg sj,
    snd (step s o1) = ok [uid; sg; sj] /\ snd (step s1 o2) = ok [uid + 1; sg + ng1; sj + nj1].
Proof.
  intros R o1 o2 s1 N1 N2.
  destruct (create_update_new_shape s b user1 t1 nj1 ng1 N1) as (uid & sg & sj & U1 & A1).
  destruct (create_update_new_shape s1 b user2 t2 nj2 ng2 N2) as (uid2 & sg2 & sj2 & U2 & A2).
  fold o1 in U1, A1. fold s1 in U1. fold o2 in U2, A2.
  exists uid, sg, sj. split; [exact A1|]. rewrite A2.
  pose proof (ranges_ok_step s1 o2 (ranges_ok_step s o1 R)) as (C & _). fold s1 in C. specialize (C b).
  rewrite U2, U1, <- app_assoc in C. cbn [app] in C.
  rewrite of_batch_app in C. cbn [of_batch filter u_batch] in C. rewrite Z.eqb_refl in C.
  apply chained_adjacent in C. cbn [u_id u_start_job u_njobs u_start_group u_ngroups] in C.
  destruct C as (-> & -> & ->). reflexivity.
Qed.

(** hence the two reserved ranges are disjoint, whichever request is served first *)
Theorem race_updates_disjoint s b user1 t1 nj1 ng1 user2 t2 nj2 ng2 :
  ranges_ok s ->
  let o1 := CreateUpdate b user1 t1 nj1 ng1 in let o2 := CreateUpdate b user2 t2 nj2 ng2 in
  let s1 := fst (step s o1) in
  s1 <> s -> fst (step s1 o2) <> s1 ->
  forall uid1 sg1 sj1 uid2 sg2 sj2,
    snd (step s o1) = ok [uid1; sg1; sj1] -> snd (step s1 o2) = ok [uid2; sg2; sj2] ->
    uid1 <> uid2 /\ sj1 + nj1 <= sj2 /\ sg1 + ng1 <= sg2.
Proof.
  intros R o1 o2 s1 N1 N2 uid1 sg1 sj1 uid2 sg2 sj2 A1 A2.
  destruct (race_updates_adjacent s b user1 t1 nj1 ng1 user2 t2 nj2 ng2 R N1 N2) as (uid & sg & sj & B1 & B2).
  pose proof (eq_trans (eq_sym A1) B1) as E1. pose proof (eq_trans (eq_sym A2) B2) as E2.
  injection E1 as -> -> ->. injection E2 as -> -> ->. lia.
Qed.

(** witness: the hypotheses are satisfiable, and the two serial orders of two different update-creates DO differ (in who gets
    which range) -- the tie must accept both, and it accepts nothing else. *)
Definition race_demo_prefix : list op := [CreateBatch 1 1 1 true; CreateUpdate 1 1 10 1 0].
Definition race_demo_a : op := CreateUpdate 1 1 11 2 1.
Definition race_demo_b : op := CreateUpdate 1 1 12 1 2.

Lemma race_demo_outcomes :
  map (fun x => (snd (fst x), snd x)) (race_outcomes (run race_demo_prefix) race_demo_a race_demo_b)
  = [ (ok [2; 1; 2], ok [3; 2; 4]) ; (ok [3; 3; 3], ok [2; 1; 2]) ].
Proof. vm_compute. reflexivity. Qed.
