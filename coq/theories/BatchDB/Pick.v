(** C41 — what the scheduler and the canceller can select.

    The environment assumption of Legal.v "driver messages name jobs of committed updates" is justified here from the
    selection queries of the driver:

      batch/driver/instance_collection/pool.py   schedule_loop_body / user_runnable_jobs,
      batch/driver/instance_collection/job_private.py  create_instances_loop_body / schedule_jobs_loop_body,
      batch/driver/canceller.py   cancel_cancelled_{ready,creating,running}_jobs_loop_body.

    Every one of them iterates over the rows of job_groups with  state = 'running'  and selects, inside such a group,
    jobs with  jobs.state = 'Ready'  (scheduler, canceller of ready jobs),  'Creating'  (job-private scheduler,
    canceller) or  'Running'  (canceller).  The further filters (user, inst_coll, always_run, cancelled, joins with
    attempts / instances, LIMIT) only shrink the selection, so [pickable] below is a superset of everything the driver
    can act on.  None of the queries looks at batch_updates.committed.  (The autoscaler's ready-cores estimate in
    pool.py selects Ready jobs of batches with batches.state = 'running': [estimated].)

    [RInv]: (i) a running group / batch has a committed update — job_groups.state and batches.state are set to
    'running' only by commit_batch_update; (ii) the updates of a batch are committed in the order of their ids — this is
    the environment assumption [earlier_committed] of Legal.v (the client library commits an update before it opens the
    next one); (ii) is NOT enforced by the service.

    [pick_committed]: in every state reached by a good history, a pickable job belongs to a committed update.
    [pick_refuted_out_of_order]: without (ii) it does not: if update 2 is committed while update 1 is still open, the
    staged parentless jobs of update 1 (inserted Ready by _create_jobs) are offered to the scheduler. *)
From HailV Require Import Common.Prelude BatchDB.Model BatchDB.Tables BatchDB.CMap BatchDB.Legal BatchDB.JobsWF BatchDB.DepsDef
  BatchDB.DepsStruct BatchDB.DepsAux BatchDB.Deps BatchDB.DepsCorollaries BatchDB.StepFrame.
From RecordUpdate Require Import RecordSet.
Import RecordSetNotations.
Open Scope Z_scope.

(* ------------------------------------------------------------------ the selection predicates *)

(* job_groups.state = 'running' for the job's group (the row must exist: the queries start FROM job_groups) *)
Definition group_running (s : state) (b g : Z) : bool :=
  match find_group s b g with Some x => g_running x | None => false end.

(* batches.state = 'running' *)
Definition batch_running (s : state) (b : Z) : bool :=
  match find_batch s b with Some x => b_running x | None => false end.

(* pool.py user_runnable_jobs, job_private.py user_runnable_jobs, canceller.py user_cancelled_ready_jobs *)
Definition pickable_ready (s : state) (b j : Z) : bool :=
  match find_job s b j with
  | Some x => jstate_eqb (j_state x) Ready && group_running s b (j_group x)
  | None => false
  end.

(* job_private.py schedule_jobs_loop_body (Creating), canceller.py user_cancelled_{creating,running}_jobs *)
Definition pickable_active (s : state) (b j : Z) : bool :=
  match find_job s b j with
  | Some x => (jstate_eqb (j_state x) Creating || jstate_eqb (j_state x) Running) && group_running s b (j_group x)
  | None => false
  end.

Definition pickable (s : state) (b j : Z) : bool := pickable_ready s b j || pickable_active s b j.

(* pool.py ready-cores estimate of the autoscaler: Ready jobs of running batches *)
Definition estimated (s : state) (b j : Z) : bool :=
  match find_job s b j with
  | Some x => jstate_eqb (j_state x) Ready && batch_running s b
  | None => false
  end.

(* ------------------------------------------------------------------ the invariant *)

Definition has_committed (s : state) (b : Z) : Prop :=
  exists u, In u (updates s) /\ u_batch u = b /\ u_committed u = true.

Record RInv (s : state) : Prop := {
  r_group : forall g, In g (groups s) -> g_running g = true -> has_committed s (g_batch g);
  r_batch : forall t, In t (batches s) -> b_running t = true -> has_committed s (b_id t);
  r_order : forall x y, In x (updates s) -> In y (updates s) -> u_batch x = u_batch y -> u_id x < u_id y ->
              u_committed y = true -> u_committed x = true }.

Lemma RInv_init : RInv init.
Proof. constructor; cbn; intros; contradiction. Qed.

(* ------------------------------------------------------------------ transactions that neither touch the updates nor start a group / batch *)

Record quiet (s s' : state) : Prop := mk_quiet {
  q_updates : updates s' = updates s;
  q_groups : forall g', In g' (groups s') -> g_running g' = true ->
               exists g, In g (groups s) /\ g_batch g = g_batch g' /\ g_running g = true;
  q_batches : forall t', In t' (batches s') -> b_running t' = true ->
               exists t, In t (batches s) /\ b_id t = b_id t' /\ b_running t = true }.

Lemma quiet_eq s s' : updates s' = updates s -> groups s' = groups s -> batches s' = batches s -> quiet s s'.
Proof.
  intros U G B. constructor; [exact U | rewrite G | rewrite B]; intros x Hx R; exists x; auto.
Qed.

Lemma quiet_refl s : quiet s s.
Proof. apply quiet_eq; reflexivity. Qed.

Lemma quiet_trans s1 s2 s3 : quiet s1 s2 -> quiet s2 s3 -> quiet s1 s3.
Proof.
  intros [U1 G1 B1] [U2 G2 B2]. constructor; [congruence | |].
  - intros g3 H3 R3. destruct (G2 _ H3 R3) as (g2 & H2 & E2 & R2). destruct (G1 _ H2 R2) as (g1 & H1 & E1 & R1).
    exists g1. repeat split; auto; congruence.
  - intros t3 H3 R3. destruct (B2 _ H3 R3) as (t2 & H2 & E2 & R2). destruct (B1 _ H2 R2) as (t1 & H1 & E1 & R1).
    exists t1. repeat split; auto; congruence.
Qed.

Lemma quiet_core s s' : StepFrame.same_core s s' -> quiet s s'.
Proof. intros []. apply quiet_eq; assumption. Qed.

Lemma quiet_update_job s o n : quiet s (update_job s o n).
Proof. apply quiet_eq; autorewrite with frame; reflexivity. Qed.

Lemma quiet_fold {A} (f : state -> A -> state) l s : (forall st x, quiet st (f st x)) -> quiet s (fold_left f l s).
Proof. apply fold_rel; [apply quiet_refl | apply quiet_trans]. Qed.

Lemma quiet_groups_map s f :
  (forall g, g_batch (f g) = g_batch g /\ (g_running (f g) = true -> g_running g = true)) ->
  quiet s (s <| groups ::= map f |>).
Proof.
  intros H. constructor; scbn; [reflexivity | | intros t Ht R; exists t; auto].
  intros g' Hg' R. apply in_map_iff in Hg'. destruct Hg' as (g & <- & Hg). destruct (H g) as (E & M).
  exists g. auto.
Qed.

Lemma quiet_batches_map s f :
  (forall t, b_id (f t) = b_id t /\ (b_running (f t) = true -> b_running t = true)) ->
  quiet s (s <| batches ::= map f |>).
Proof.
  intros H. constructor; scbn; [reflexivity | intros g Hg R; exists g; auto |].
  intros t' Ht' R. apply in_map_iff in Ht'. destruct Ht' as (t & <- & Ht). destruct (H t) as (E & M).
  exists t. auto.
Qed.

Lemma has_committed_ext s s' b : updates s' = updates s -> has_committed s b -> has_committed s' b.
Proof. intros E (u & Hu & Hb & Hc). exists u. rewrite E. auto. Qed.

Lemma quiet_RInv s s' : quiet s s' -> RInv s -> RInv s'.
Proof.
  intros [U G B] [R1 R2 R3]. constructor.
  - intros g' Hg' Rg'. destruct (G _ Hg' Rg') as (g & Hg & E & Rg). rewrite <- E.
    apply (has_committed_ext s); [exact U | apply R1; assumption].
  - intros t' Ht' Rt'. destruct (B _ Ht' Rt') as (t & Ht & E & Rt). rewrite <- E.
    apply (has_committed_ext s); [exact U | apply R2; assumption].
  - rewrite U. exact R3.
Qed.

(* side conditions of the two map lemmas for the concrete row transformers of the model *)
Ltac row_side :=
  let r := fresh "r" in
  intros r; destruct r; cbn;
  repeat lazymatch goal with |- context [if ?c then _ else _] => destruct c end;
  cbn; split; solve [reflexivity | auto | discriminate].

(* peel the outermost state transformer of [E] in a goal [quiet s E] (the analogue of StepFrame's [tree]) *)
Ltac qt :=
  lazymatch goal with
  | |- quiet ?s ?s => apply quiet_refl
  | |- quiet ?s (update_job ?st _ _) => apply (quiet_trans s st); [qt | apply quiet_update_job]
  | |- quiet ?s (update_attempt ?st _ _) => apply (quiet_trans s st); [qt | apply quiet_core, same_core_update_attempt]
  | |- quiet ?s (set_times ?st _ _ _ _) => apply (quiet_trans s st); [qt | apply quiet_core, same_core_set_times]
  | |- quiet ?s (finish_groups ?st _ _) =>
      apply (quiet_trans s st); [qt | unfold finish_groups; apply quiet_groups_map; row_side]
  | |- quiet ?s (fold_left ?g ?l ?st) =>
      apply (quiet_trans s st); [qt | apply quiet_fold; intros ? ?; qt]
  | |- quiet ?s (set groups (map _) ?st) =>
      apply (quiet_trans s st); [qt | apply quiet_groups_map; row_side]
  | |- quiet ?s (set batches (map _) ?st) =>
      apply (quiet_trans s st); [qt | apply quiet_batches_map; row_side]
  | |- quiet ?s (set _ _ ?st) =>
      apply (quiet_trans s st); [qt | apply quiet_eq; reflexivity]
  | |- quiet ?s (fst (_, _)) => cbn [fst]; qt
  | |- quiet ?s (let _ := _ in _) => cbv zeta; qt
  | |- quiet ?s (let '(_, _) := ?p in _) => destruct p; qt
  | |- quiet ?s (fst (let '(_, _) := ?p in _)) => destruct p; qt
  | |- quiet ?s (fst (match ?c with _ => _ end)) => destruct c eqn:?; qt
  | |- quiet ?s (match ?c with _ => _ end) => destruct c eqn:?; qt
  | |- quiet ?s ?st => try (apply quiet_core; assumption)
  end.

(* ------------------------------------------------------------------ the quiet transactions *)

Lemma quiet_release_children s b j succ : quiet s (release_children s b j succ).
Proof. unfold release_children. cbv zeta. qt. Qed.

Lemma quiet_mc_finish s3 x b j a ns total : quiet s3 (mc_finish s3 x b j a ns total).
Proof.
  unfold mc_finish. cbv zeta.
  match goal with |- quiet _ (release_children ?st _ _ _) => apply (quiet_trans _ st); [|apply quiet_release_children] end.
  qt.
Qed.

Lemma quiet_mark_complete s b j a i ns st en rs : quiet s (fst (do_mark_complete s b j a i ns st en rs)).
Proof.
  destruct (do_mark_complete_shape s b j a i ns st en rs) as [C | (x & s3 & _ & C & _ & E)]; [apply quiet_core, C|].
  rewrite E. eapply quiet_trans; [apply quiet_core, C | apply quiet_mc_finish].
Qed.

Lemma quiet_schedule s b j a i : quiet s (fst (do_schedule s b j a i)).
Proof.
  destruct (do_schedule_shape s b j a i) as [C | (x & s1 & _ & C & _ & _ & E)]; [apply quiet_core, C|].
  rewrite E. eapply quiet_trans; [apply quiet_core, C | apply quiet_update_job].
Qed.

Lemma quiet_mcs c s b j a i t : quiet s (fst (do_mark_creating_or_started c s b j a i t)).
Proof.
  destruct (do_mcs_shape c s b j a i t) as [C | (x & s1 & _ & C & _ & _ & E)]; [apply quiet_core, C|].
  rewrite E. eapply quiet_trans; [apply quiet_core, C | apply quiet_update_job].
Qed.

Lemma quiet_unschedule s b j a i t r : quiet s (fst (do_unschedule s b j a i t r)).
Proof. unfold do_unschedule. qt. Qed.

Lemma quiet_deactivate s n r t : quiet s (fst (do_deactivate s n r t)).
Proof. unfold do_deactivate. qt. Qed.

Lemma quiet_cancel_proc s b g : quiet s (cancel_proc s b g).
Proof.
  destruct (DepsStruct.same_core_cancel_proc s b g) as (_&_&E3&_&E5&_&E7&_). apply quiet_eq; assumption.
Qed.

Lemma quiet_cancel_group s b g : quiet s (fst (do_cancel_group s b g)).
Proof.
  unfold do_cancel_group. destruct (find_group s b g); [|apply quiet_refl]. destruct (find_batch s b); [|apply quiet_refl].
  match goal with |- context [if ?c then _ else _] => destruct c end; [apply quiet_refl | apply quiet_cancel_proc].
Qed.

Lemma quiet_delete_batch s b : quiet s (fst (do_delete_batch s b)).
Proof.
  unfold do_delete_batch. destruct (find_batch s b) as [bt|]; [|apply quiet_refl].
  destruct (b_deleted bt); [apply quiet_refl|]. cbn [fst].
  eapply quiet_trans; [apply quiet_cancel_proc | apply quiet_batches_map; row_side].
Qed.

Lemma quiet_create_group_rows s b g upd p root : quiet s (create_group_rows s b g upd p root).
Proof.
  unfold create_group_rows. constructor; scbn; [reflexivity | | intros t Ht R; exists t; auto].
  intros g' Hg' R. apply in_app_or in Hg'. destruct Hg' as [Hg' | [<- | []]]; [exists g'; auto | discriminate].
Qed.

Lemma quiet_create_batch s user bp token m : quiet s (fst (do_create_batch s user bp token m)).
Proof.
  unfold do_create_batch. destruct (negb m); [apply quiet_refl|].
  destruct (find _ (batches s)); [apply quiet_refl|]. cbn [fst].
  eapply quiet_trans; [|apply quiet_create_group_rows].
  constructor; scbn; [reflexivity | intros g Hg R; exists g; auto |].
  intros t' Ht' R. apply in_app_or in Ht'. destruct Ht' as [Ht' | [<- | []]]; [exists t'; auto | discriminate].
Qed.

Lemma quiet_create_groups s b u user gss : quiet s (fst (do_create_groups s b u user gss)).
Proof.
  destruct (do_create_groups_shape s b u user gss) as [[E _] | (up & _ & F & _ & _)]; [rewrite E; apply quiet_refl|].
  eapply (cog_fold_rel quiet); [apply quiet_refl | apply quiet_trans | | exact F].
  intros st gs st' C. apply create_one_group_some in C. cbv zeta in C. destruct C as (_ & _ & _ & ->). apply quiet_create_group_rows.
Qed.

Lemma quiet_create_jobs s b u user jss : quiet s (fst (do_create_jobs s b u user jss)).
Proof.
  destruct (do_create_jobs_shape s b u user jss) as [E | (up & bt & _ & _ & _ & _ & E)]; rewrite E; [apply quiet_refl|].
  cbn [fst]. unfold cj_insert.
  match goal with |- quiet s (fold_left _ _ ?st) => apply (quiet_trans s st) end.
  - apply quiet_eq; reflexivity.
  - apply quiet_fold. intros st x. unfold stage_job. apply quiet_eq; reflexivity.
Qed.

(* ------------------------------------------------------------------ create_update: a fresh, uncommitted update with the greatest id *)

Lemma RInv_add_update s n :
  RInv s -> u_committed n = false ->
  (forall x, In x (updates s) -> u_batch x = u_batch n -> u_id x < u_id n) ->
  RInv (s <| updates ::= fun l => l ++ [n] |>).
Proof.
  intros [R1 R2 R3] Hn Hmax.
  assert (Hc : forall b, has_committed s b -> has_committed (s <| updates ::= fun l => l ++ [n] |>) b).
  { intros b (u & Hu & Hb & Hcu). exists u. scbn. split; [apply in_or_app; left; exact Hu | auto]. }
  constructor; scbn.
  - intros g Hg Rg. apply Hc, R1; assumption.
  - intros t Ht Rt. apply Hc, R2; assumption.
  - intros x y Hx Hy Eb Lt Cy. apply in_app_or in Hx. apply in_app_or in Hy.
    destruct Hy as [Hy | [<- | []]]; [|congruence].
    destruct Hx as [Hx | [<- | []]]; [apply (R3 x y); assumption|].
    specialize (Hmax y Hy (eq_sym Eb)). lia.
Qed.

Lemma RInv_create_update s b user token nj ng : RInv s -> RInv (fst (do_create_update s b user token nj ng)).
Proof.
  intros R. destruct (do_create_update_cases s b user token nj ng) as [-> | (_ & _ & ->)]; [exact R|].
  pose proof (last_update_spec s b) as L. unfold create_update_row.
  destruct (last_update s b) as [m|]; (apply RInv_add_update; [exact R | reflexivity |]); cbn [u_batch u_id].
  - destruct L as (_ & _ & L). intros x Hx Hb. specialize (L x Hx Hb). lia.
  - intros x Hx Hb. exfalso. exact (L x Hx Hb).
Qed.

(* ------------------------------------------------------------------ commit *)

Definition commit_fl (b u : Z) (x : update) : update :=
  if (u_batch x =? b) && (u_id x =? u) then x <| u_committed := true |> else x.

Lemma commit_fl_keys b u x : u_batch (commit_fl b u x) = u_batch x /\ u_id (commit_fl b u x) = u_id x.
Proof. unfold commit_fl. destruct (_ && _); [destruct x; split; reflexivity | split; reflexivity]. Qed.

Lemma commit_fl_committed b u x : u_committed (commit_fl b u x) = ((u_batch x =? b) && (u_id x =? u)) || u_committed x.
Proof. unfold commit_fl. destruct (_ && _); [destruct x; reflexivity | reflexivity]. Qed.

(* the state right after the three UPDATEs of commit_batch_update (batch_updates, batches, job_groups) *)
Lemma RInv_commit_core s s' b u up :
  RInv s -> earlier_committed s b u = true -> find_update s b u = Some up ->
  updates s' = map (commit_fl b u) (updates s) ->
  (forall g', In g' (groups s') -> g_running g' = true ->
     g_batch g' = b \/ exists g, In g (groups s) /\ g_batch g = g_batch g' /\ g_running g = true) ->
  (forall t', In t' (batches s') -> b_running t' = true ->
     b_id t' = b \/ exists t, In t (batches s) /\ b_id t = b_id t' /\ b_running t = true) ->
  RInv s'.
Proof.
  intros [R1 R2 R3] Early Fu U G B.
  apply find_update_sound in Fu. destruct Fu as (Hup & Bup & Iup).
  assert (Hmono : forall b0, has_committed s b0 -> has_committed s' b0).
  { intros b0 (x & Hx & Hb & Hc). exists (commit_fl b u x). rewrite U.
    split; [apply in_map; exact Hx|]. split; [rewrite (proj1 (commit_fl_keys b u x)); exact Hb|].
    rewrite commit_fl_committed, Hc. apply orb_true_r. }
  assert (Hnew : has_committed s' b).
  { exists (commit_fl b u up). rewrite U. split; [apply in_map; exact Hup|].
    split; [rewrite (proj1 (commit_fl_keys b u up)); exact Bup|].
    rewrite commit_fl_committed. replace ((u_batch up =? b) && (u_id up =? u)) with true by lia. reflexivity. }
  constructor.
  - intros g' Hg' Rg'. destruct (G _ Hg' Rg') as [-> | (g & Hg & E & Rg)]; [exact Hnew|].
    rewrite <- E. apply Hmono, R1; assumption.
  - intros t' Ht' Rt'. destruct (B _ Ht' Rt') as [-> | (t & Ht & E & Rt)]; [exact Hnew|].
    rewrite <- E. apply Hmono, R2; assumption.
  - rewrite U. intros x' y' Hx' Hy'. apply in_map_iff in Hx'. apply in_map_iff in Hy'.
    destruct Hx' as (x & <- & Hx). destruct Hy' as (y & <- & Hy).
    destruct (commit_fl_keys b u x) as (-> & ->). destruct (commit_fl_keys b u y) as (-> & ->).
    rewrite !commit_fl_committed. intros Eb Lt Cy.
    apply orb_true_iff in Cy. apply orb_true_iff. right. destruct Cy as [Cy | Cy].
    + unfold earlier_committed in Early. rewrite forallb_forall in Early. specialize (Early x Hx).
      destruct (u_committed x); [reflexivity|]. exfalso. lia.
    + apply (R3 x y); assumption.
Qed.

(* shape of commit_batch_update: nothing happens, or the three UPDATEs are followed by quiet bookkeeping *)
Lemma do_commit_proc_shape s b u :
  fst (do_commit_proc s b u) = s \/
  exists up s3, find_update s b u = Some up /\
    updates s3 = map (commit_fl b u) (updates s) /\
    (forall g', In g' (groups s3) -> g_running g' = true ->
       g_batch g' = b \/ exists g, In g (groups s) /\ g_batch g = g_batch g' /\ g_running g = true) /\
    (forall t', In t' (batches s3) -> b_running t' = true ->
       b_id t' = b \/ exists t, In t (batches s) /\ b_id t = b_id t' /\ b_running t = true) /\
    quiet s3 (fst (do_commit_proc s b u)).
Proof.
  unfold do_commit_proc. destruct (find_update s b u) as [up|] eqn:Fup; [|left; reflexivity].
  destruct (u_committed up); [left; reflexivity|]. cbv zeta.
  match goal with |- context [if negb ?c then (s, _) else _] => destruct c end; cbn [negb]; [|left; reflexivity].
  right. exists up.
  destruct (0 <? u_njobs up); cbn [negb fst].
  2:{ eexists. split; [reflexivity|]. split; [|split; [|split; [|apply quiet_refl]]]; scbn;
        [reflexivity | intros g Hg Rg; right; exists g; auto | intros t Ht Rt; right; exists t; auto]. }
  match goal with |- context [fold_left ?f (staging s) ?st] => set (fu := f); set (s3 := st) end.
  exists s3. split; [reflexivity|]. split; [reflexivity|]. split; [|split].
  - subst s3; scbn. intros g' Hg' Rg'. apply in_map_iff in Hg'. destruct Hg' as (g & <- & Hg).
    destruct (g_batch g =? b) eqn:Eb.
    + left. match goal with |- context [if ?c then _ else _] => destruct c end; [lia | destruct g; cbn in *; lia].
    + right. exists g. auto.
  - subst s3; scbn. intros t' Ht' Rt'. apply in_map_iff in Ht'. destruct Ht' as (t & <- & Ht).
    destruct (b_id t =? b) eqn:Eb.
    + left. destruct t; cbn in *; lia.
    + right. exists t. auto.
  - set (s4 := fold_left fu (staging s) s3).
    assert (Q4 : quiet s3 s4).
    { subst s4. apply quiet_fold. intros st kv. subst fu. cbv beta.
      destruct kv as [k v]. destruct k as [|b' [|u' [|g' [|ic [|? ?]]]]]; try apply quiet_refl.
      destruct v as [|v0 [|nr [|rc [|? ?]]]]; try apply quiet_refl.
      destruct (_ && _); [apply quiet_eq; reflexivity | apply quiet_refl]. }
    destruct (u =? 1); cbn [fst]; [exact Q4|].
    eapply quiet_trans; [exact Q4|]. apply quiet_fold. intros st on. apply quiet_update_job.
Qed.

Lemma RInv_commit_proc s b u : RInv s -> earlier_committed s b u = true -> RInv (fst (do_commit_proc s b u)).
Proof.
  intros R Early. destruct (do_commit_proc_shape s b u) as [-> | (up & s3 & Fup & U & G & B & Q)]; [exact R|].
  apply (quiet_RInv s3); [exact Q|]. apply (RInv_commit_core s s3 b u up); assumption.
Qed.

Lemma RInv_commit s b u user : RInv s -> legal s (Commit b u user) -> RInv (fst (do_commit s b u user)).
Proof.
  intros R L. unfold legal, legalb in L. unfold do_commit. destruct (find_batch s b) as [bt|]; [|exact R].
  destruct (find_update s b u); [|exact R].
  destruct (_ || _); [exact R|]. destruct (marked s b 0); [exact R|].
  apply RInv_commit_proc; assumption.
Qed.

(* ------------------------------------------------------------------ every legal step *)

Theorem RInv_step s o : RInv s -> legal s o -> RInv (fst (step s o)).
Proof.
  intros R L. destruct o; cbn [step].
  - exact (quiet_RInv _ _ (quiet_create_batch s _ _ _ _) R).
  - apply RInv_create_update; exact R.
  - exact (quiet_RInv _ _ (quiet_create_groups s _ _ _ _) R).
  - exact (quiet_RInv _ _ (quiet_create_jobs s _ _ _ _) R).
  - apply RInv_commit; assumption.
  - exact (quiet_RInv _ _ (quiet_cancel_group s _ _) R).
  - exact (quiet_RInv _ _ (quiet_delete_batch s _) R).
  - exact (quiet_RInv _ _ (quiet_core _ _ (do_new_instance_core s _ _ _ _)) R).
  - exact (quiet_RInv _ _ (quiet_core _ _ (do_activate_core s _)) R).
  - exact (quiet_RInv _ _ (quiet_deactivate s _ _ _) R).
  - exact (quiet_RInv _ _ (quiet_core _ _ (do_mark_deleted_core s _)) R).
  - exact (quiet_RInv _ _ (quiet_schedule s _ _ _ _) R).
  - exact (quiet_RInv _ _ (quiet_unschedule s _ _ _ _ _ _) R).
  - exact (quiet_RInv _ _ (quiet_mcs true s _ _ _ _ _) R).
  - exact (quiet_RInv _ _ (quiet_mcs false s _ _ _ _ _) R).
  - exact (quiet_RInv _ _ (quiet_mark_complete s _ _ _ _ _ _ _ _) R).
  - exact (quiet_RInv _ _ (quiet_core _ _ (do_add_resources_core s _ _ _ _)) R).
  - exact (quiet_RInv _ _ (quiet_core _ _ (do_billing_update_core s _ _)) R).
  - apply (quiet_RInv s); [|exact R]. unfold do_cleanup_staging. qt.
  - apply (quiet_RInv s); [|exact R]. unfold do_cleanup_cancellable. qt.
Qed.

Theorem RInv_legal ops : legal_history ops -> RInv (run ops).
Proof. apply (legal_invariant RInv); [apply RInv_init | apply RInv_step]. Qed.

Lemma good_from_legal s ops : good_from s ops -> legal_from s ops.
Proof.
  revert s. induction ops as [|o r IH]; intros s G; cbn [good_from legal_from] in *; [exact I|].
  destruct G as [[L _] Gr]. split; [exact L | apply IH; exact Gr].
Qed.

Theorem RInv_reachable ops : good_history ops -> RInv (run ops).
Proof. intros G. apply RInv_legal, good_from_legal, G. Qed.

(* ------------------------------------------------------------------ what can be picked belongs to a committed update *)

Lemma running_group_committed s b g : RInv s -> group_running s b g = true -> has_committed s b.
Proof.
  intros R. unfold group_running. destruct (find_group s b g) as [x|] eqn:F; [|discriminate]. intros H.
  apply find_group_sound in F. destruct F as (Hin & Hb & _). rewrite <- Hb. apply (r_group _ R); assumption.
Qed.

Lemma running_batch_committed s b : RInv s -> batch_running s b = true -> has_committed s b.
Proof.
  intros R. unfold batch_running, find_batch. destruct (find _ (batches s)) as [x|] eqn:F; [|discriminate]. intros H.
  apply find_some in F. destruct F as (Hin & Hb). replace b with (b_id x) by lia. apply (r_batch _ R); assumption.
Qed.

(** If the first update of a batch is open, no update of the batch is committed (commits are in order). *)
Lemma first_open_none_committed s b up :
  DInv s -> RInv s -> find_update s b 1 = Some up -> u_committed up = false -> ~ has_committed s b.
Proof.
  intros D R Fu C (u & Hu & Hb & Hc).
  apply find_update_sound in Fu. destruct Fu as (Hup & Bup & Iup).
  destruct (d_upos _ D u Hu) as (_ & _ & Hid).
  destruct (Z.eq_dec (u_id u) 1) as [E1 | N1].
  - assert (u = up) by (apply (NoDup_map_inj uk (updates s)); [apply (d_ukeys _ D) | assumption | assumption | unfold uk; congruence]).
    congruence.
  - assert (u_committed up = true) by (apply (r_order _ R up u); try assumption; [congruence | lia]).
    congruence.
Qed.

(** A Ready job of an open update sits in a batch none of whose updates is committed. *)
Lemma ready_uncommitted_batch_unstarted s x :
  DInv s -> RInv s -> In x (jobs s) -> jcommitted s x = false -> j_state x = Ready -> ~ has_committed s (j_batch x).
Proof.
  intros D R Hx C Rd.
  destruct (uncommitted_job_inert s D x Hx C) as (_ & [P | (_ & U1 & _)]); [congruence|].
  destruct (d_jrange _ D x Hx) as (up & Fu & _). rewrite U1 in Fu.
  apply (first_open_none_committed s (j_batch x) up D R Fu).
  unfold jcommitted, committed in C. rewrite U1, Fu in C. exact C.
Qed.

Lemma pick_committed_state s b j :
  DInv s -> RInv s -> pickable s b j = true -> job_committed s b j = true.
Proof.
  intros D R. unfold pickable, pickable_ready, pickable_active, job_committed.
  destruct (find_job s b j) as [x|] eqn:Fx; [|discriminate]. intros H.
  rewrite find_job_eq in Fx. apply find_jkey_sound in Fx. destruct Fx as (Hx & Hb & Hj).
  destruct (committed s b (j_update x)) eqn:C; [reflexivity|]. exfalso.
  assert (C' : jcommitted s x = false) by (unfold jcommitted; rewrite Hb; exact C).
  apply orb_true_iff in H. destruct H as [H | H]; apply andb_true_iff in H; destruct H as [St Gr].
  - apply jstate_eqb_eq in St.
    apply (ready_uncommitted_batch_unstarted s x D R Hx C' St). rewrite Hb.
    apply (running_group_committed s b (j_group x) R Gr).
  - destruct (uncommitted_job_inert s D x Hx C') as (_ & [P | (P & _)]); rewrite P in St; discriminate.
Qed.

Lemma estimated_committed_state s b j :
  DInv s -> RInv s -> estimated s b j = true -> job_committed s b j = true.
Proof.
  intros D R. unfold estimated, job_committed.
  destruct (find_job s b j) as [x|] eqn:Fx; [|discriminate]. intros H.
  rewrite find_job_eq in Fx. apply find_jkey_sound in Fx. destruct Fx as (Hx & Hb & Hj).
  destruct (committed s b (j_update x)) eqn:C; [reflexivity|]. exfalso.
  assert (C' : jcommitted s x = false) by (unfold jcommitted; rewrite Hb; exact C).
  apply andb_true_iff in H; destruct H as [St Br]. apply jstate_eqb_eq in St.
  apply (ready_uncommitted_batch_unstarted s x D R Hx C' St). rewrite Hb.
  apply (running_batch_committed s b R Br).
Qed.

(** For every good history: whatever the scheduler or the canceller can select is a job of a committed update. *)
Theorem pick_committed ops b j :
  good_history ops -> pickable (run ops) b j = true -> job_committed (run ops) b j = true.
Proof. intros G. apply pick_committed_state; [apply DInv_reachable | apply RInv_reachable]; exact G. Qed.

Theorem estimated_committed ops b j :
  good_history ops -> estimated (run ops) b j = true -> job_committed (run ops) b j = true.
Proof. intros G. apply estimated_committed_state; [apply DInv_reachable | apply RInv_reachable]; exact G. Qed.

(* ------------------------------------------------------------------ "committed" is stable: a job picked now is still committed when the message arrives *)

Lemma find_update_commit_fl b u l b' u' x :
  find (fun x => (u_batch x =? b') && (u_id x =? u')) l = Some x ->
  find (fun x => (u_batch x =? b') && (u_id x =? u')) (map (commit_fl b u) l) = Some (commit_fl b u x).
Proof.
  induction l as [|y l IH]; cbn [find map]; [discriminate|].
  destruct (commit_fl_keys b u y) as (-> & ->).
  destruct ((u_batch y =? b') && (u_id y =? u')); [intros E; injection E as ->; reflexivity | exact IH].
Qed.

Lemma committed_step s o b u : committed s b u = true -> committed (fst (step s o)) b u = true.
Proof.
  intros C.
  assert (Q : forall s', quiet s s' -> committed s' b u = true).
  { intros s' [U _ _]. unfold committed, find_update in *. rewrite U. exact C. }
  destruct o; cbn [step].
  - apply Q, quiet_create_batch.
  - destruct (do_create_update_cases s b0 user token n_jobs n_groups) as [-> | (_ & _ & ->)]; [exact C|].
    unfold committed, find_update in *. scbn.
    destruct (find _ (updates s)) as [x|] eqn:F; [|discriminate]. rewrite (find_app_some _ _ _ _ F). exact C.
  - apply Q, quiet_create_groups.
  - apply Q, quiet_create_jobs.
  - unfold do_commit. destruct (find_batch s b0) as [bt|]; [|exact C].
    destruct (find_update s b0 u0); [|exact C].
    destruct (_ || _); [exact C|]. destruct (marked s b0 0); [exact C|].
    destruct (do_commit_proc_shape s b0 u0) as [-> | (up & s3 & _ & U & _ & _ & [U' _ _])]; [exact C|].
    unfold committed, find_update in *. rewrite U', U.
    destruct (find _ (updates s)) as [x|] eqn:F; [|discriminate].
    rewrite (find_update_commit_fl _ _ _ _ _ _ F), commit_fl_committed, C. apply orb_true_r.
  - apply Q, quiet_cancel_group.
  - apply Q, quiet_delete_batch.
  - apply Q, quiet_core, do_new_instance_core.
  - apply Q, quiet_core, do_activate_core.
  - apply Q, quiet_deactivate.
  - apply Q, quiet_core, do_mark_deleted_core.
  - apply Q, quiet_schedule.
  - apply Q, quiet_unschedule.
  - apply Q, quiet_mcs.
  - apply Q, quiet_mcs.
  - apply Q, quiet_mark_complete.
  - apply Q, quiet_core, do_add_resources_core.
  - apply Q, quiet_core, do_billing_update_core.
  - apply Q. unfold do_cleanup_staging. qt.
  - apply Q. unfold do_cleanup_cancellable. qt.
Qed.

Lemma job_committed_step s o b j :
  Kjobs s -> job_committed s b j = true -> job_committed (fst (step s o)) b j = true.
Proof.
  intros K. unfold job_committed. destruct (find_job s b j) as [x|] eqn:Fx; [|discriminate]. intros C.
  destruct (step_jobs s o) as (l & new & E & Rl & _ & _).
  rewrite find_job_eq in Fx.
  destruct (jrel_found _ _ _ b j x Rl K Fx) as (y & Fy & Sy & _).
  rewrite find_job_eq, E, find_jkey_app, Fy.
  destruct Sy as (_ & _ & <- & _). apply committed_step. exact C.
Qed.

Lemma job_committed_from s more b j :
  DInv s -> DAux s -> good_from s more -> job_committed s b j = true ->
  job_committed (fold_left (fun s o => fst (step s o)) more s) b j = true.
Proof.
  revert s. induction more as [|o r IH]; intros s D A G C; cbn [fold_left good_from] in *; [exact C|].
  destruct G as [Go Gr]. apply IH; [apply DInv_step; assumption | apply DAux_step; exact A | exact Gr|].
  apply job_committed_step; [apply (d_jkeys _ D) | exact C].
Qed.

Lemma good_from_app s ops more :
  good_from s (ops ++ more) -> good_from s ops /\ good_from (fold_left (fun s o => fst (step s o)) ops s) more.
Proof.
  revert s. induction ops as [|o r IH]; intros s G; cbn [app good_from fold_left] in *; [auto|].
  destruct G as [Go Gr]. destruct (IH _ Gr) as (G1 & G2). auto.
Qed.

(** A job that could be selected at some point of a good history belongs to a committed update at every later point:
    the [job_committed] clause of Legal.v holds for every message the driver (or a worker it started) sends about it. *)
Theorem picked_stays_committed ops more b j :
  good_history (ops ++ more) -> pickable (run ops) b j = true -> job_committed (run (ops ++ more)) b j = true.
Proof.
  unfold good_history. intros G P. destruct (good_from_app _ _ _ G) as (G1 & G2).
  unfold run. rewrite fold_left_app. apply job_committed_from.
  - apply (DInv_reachable ops G1).
  - apply (DepsAux.DAux_run ops).
  - exact G2.
  - apply pick_committed; assumption.
Qed.

(* ------------------------------------------------------------------ refutation without the in-order assumption *)

(** All of Legal.v except "updates are committed in order". *)
Definition legalb_unordered (s : state) (o : op) : bool :=
  match o with Commit _ _ _ => true | _ => legalb s o end.

Fixpoint good_unordered_fromb (s : state) (ops : list op) : bool :=
  match ops with
  | [] => true
  | o :: r => legalb_unordered s o && client_ok o && good_unordered_fromb (fst (step s o)) r
  end.

(** create batch; open updates 1 and 2 with one parentless job each in the root group; insert both; commit update 2. *)
Definition out_of_order_history : list op :=
  [CreateBatch 1 1 1 true; CreateUpdate 1 1 10 1 0; CreateUpdate 1 1 11 1 0;
   CreateJobs 1 1 1 [mkJspec 1 (Some 0) 0 [] [] false 1000 1];
   CreateJobs 1 2 1 [mkJspec 1 (Some 0) 0 [] [] false 1000 1];
   Commit 1 2 1].

Theorem pick_refuted_out_of_order :
  exists ops b j,
    good_unordered_fromb init ops = true /\
    pickable (run ops) b j = true /\ estimated (run ops) b j = true /\ job_committed (run ops) b j = false /\
    (* the only legality clause that fails is the order of the commits *)
    good_fromb init ops = false.
Proof. exists out_of_order_history, 1, 1. vm_compute. repeat split. Qed.

(* ------------------------------------------------------------------ the completion of a parent does not release children of an open update *)

Lemma release_children_keeps s b j succ c x :
  find_job s b c = Some x -> committed s b (j_update x) = false ->
  find_job (release_children s b j succ) b c = Some x.
Proof.
  unfold release_children. cbv zeta.
  match goal with |- context [fold_left ?f ?kids s] => set (F := f); generalize kids end.
  intros kids Fx C.
  assert (H : forall st, updates st = updates s -> find_job st b c = Some x ->
                updates (fold_left F kids st) = updates s /\ find_job (fold_left F kids st) b c = Some x).
  { induction kids as [|k kids IH]; intros st U Fst; cbn [fold_left]; [auto|].
    apply IH; subst F; cbv beta.
    - destruct (find_job st b k); [|exact U]. destruct (negb _); [exact U|]. rewrite update_job_updates. exact U.
    - destruct (find_job st b k) as [y|] eqn:Fy; [|exact Fst].
      destruct (Z.eq_dec k c) as [-> | Nk].
      + rewrite Fst in Fy. injection Fy as <-.
        replace (match find_update s b (j_update x) with Some y => u_committed y | None => false end)
          with (committed s b (j_update x)) by reflexivity.
        rewrite C. cbn [negb]. exact Fst.
      + destruct (negb _); [exact Fst|]. rewrite find_job_update_job.
        match goal with |- (if jkey b c ?n then _ else _) = _ => assert (E : jkey b c n = false) end.
        { apply find_job_static_key in Fy. destruct Fy as (Eb & Ej). unfold jkey. destruct y; cbn in *. lia. }
        rewrite E. exact Fst. }
  apply H; [reflexivity | exact Fx].
Qed.

Lemma mc_finish_keeps s3 x0 b j a ns total c x :
  find_job s3 b j = Some x0 -> c <> j -> find_job s3 b c = Some x -> committed s3 b (j_update x) = false ->
  find_job (mc_finish s3 x0 b j a ns total) b c = Some x.
Proof.
  intros F0 Nc Fx C. unfold mc_finish. cbv zeta.
  set (x0' := x0 <| j_state := ns |> <| j_attempt := (if a =? -1 then None else Some a) |>).
  set (s4 := update_job s3 x0 x0').
  assert (F4 : find_job s4 b c = Some x).
  { subst s4. rewrite find_job_update_job.
    assert (E : jkey b c x0' = false).
    { apply find_job_static_key in F0. destruct F0 as (Eb & Ej). subst x0'. unfold jkey. destruct x0; cbn in *. lia. }
    rewrite E. exact Fx. }
  assert (U4 : updates s4 = updates s3) by apply update_job_updates.
  match goal with |- find_job (release_children ?s7 _ _ _) _ _ = _ =>
    assert (J7 : jobs s7 = jobs s4 /\ updates s7 = updates s4) end.
  { match goal with |- context [if ?cnd then _ else _] => destruct cnd end; split; reflexivity. }
  destruct J7 as (J7 & U7).
  apply release_children_keeps.
  - unfold find_job. rewrite J7. exact F4.
  - unfold committed, find_update in *. rewrite U7, U4. exact C.
Qed.

(** MarkComplete of job [j] (any attempt, any outcome, from ANY state) leaves every other job that belongs to an update
    which is not committed exactly as it was — in particular a child of [j]: its n_pending_parents, state and
    cancelled flag do not move.  (Before migration 122 the child was released.) *)
Theorem parent_completion_keeps_uncommitted s b j a i ns st en rs c x :
  c <> j -> find_job s b c = Some x -> committed s b (j_update x) = false ->
  find_job (fst (step s (MarkComplete b j a i ns st en rs))) b c = Some x.
Proof.
  intros Nc Fx C. cbn [step].
  destruct (do_mark_complete_shape s b j a i ns st en rs) as [S | (x0 & s3 & F0 & S & _ & E)].
  - rewrite (sc_find_job _ _ S). exact Fx.
  - rewrite E. apply mc_finish_keeps; auto.
    + rewrite (sc_find_job _ _ S). exact F0.
    + rewrite (sc_find_job _ _ S). exact Fx.
    + unfold committed. rewrite (sc_find_update _ _ S). exact C.
Qed.

(** The history of the repaired defect (corpus/C41/uncommitted-child-released.json): job 2 (update 2, open) depends on
    job 1 (update 1); job 1 succeeds; a forged schedule request for job 2 follows. *)
Definition child_history : list op :=
  [CreateBatch 1 1 1 true; CreateUpdate 1 1 10 1 0;
   CreateJobs 1 1 1 [mkJspec 1 (Some 0) 0 [] [] false 1000 1]; Commit 1 1 1;
   NewInstance 1 1 4000 true; ActivateInstance 1; ScheduleJob 1 1 1 1;
   CreateUpdate 1 1 11 2 0; CreateJobs 1 2 1 [mkJspec 1 (Some 0) 0 [1] [] false 1000 1];
   MarkComplete 1 1 1 1 Success (Some 200) (Some 300) 2].

Example child_history_good : good_history child_history.
Proof. apply good_fromb_sound. vm_compute. reflexivity. Qed.

Example child_not_released :
  let s := run child_history in
  find_job s 1 2 = Some (mkJob 1 2 2 0 Pending false 1000 1 false None 1) /\
  pickable s 1 2 = false /\ estimated s 1 2 = false /\
  (* the forged schedule request of the corpus history is refused: rc 1, job untouched *)
  snd (step s (ScheduleJob 1 2 2 1)) = ok [1; 0] /\
  find_job (fst (step s (ScheduleJob 1 2 2 1))) 1 2 = Some (mkJob 1 2 2 0 Pending false 1000 1 false None 1).
Proof. vm_compute. repeat split. Qed.

(** Non-vacuity of [pick_committed]: in the good history [demo_history] something is pickable. *)
Example pick_committed_nonvacuous :
  good_history (firstn 7 demo_history) /\ pickable (run (firstn 7 demo_history)) 1 1 = true.
Proof. split; [apply good_fromb_sound; vm_compute; reflexivity | vm_compute; reflexivity]. Qed.
