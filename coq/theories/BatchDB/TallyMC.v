(** [TInv] is preserved by mark_job_complete: in the main branch exactly one committed, unfinished job becomes
    terminal, exactly the ancestors-or-self of its group count it (once), the groups whose last job this was become
    complete, the batch follows its root group; every other branch (unknown job, stale attempt, job already
    terminal, Pending job) leaves the core tables alone. *)
From HailV Require Import Common.Prelude BatchDB.Model BatchDB.Tables BatchDB.CMap BatchDB.JobsWF BatchDB.StepCore
  BatchDB.JobFold BatchDB.KidsFold BatchDB.Legal BatchDB.DepsDef BatchDB.DepsEasy BatchDB.DepsMap BatchDB.DepsDriver
  BatchDB.DepsMC1 BatchDB.DepsMC2 BatchDB.DepsMC3 BatchDB.DepsMC4 BatchDB.DepsStruct BatchDB.Tally BatchDB.TallyCommit.
From RecordUpdate Require Import RecordSet.
Import RecordSetNotations.
Open Scope Z_scope.

(* ------------------------------------------------------------------ the shape of the state after a completion *)

(** the tallies of the ancestors-or-self of the finished job's group ... *)
Definition mc_G1 (b : Z) (ancs : list Z) (ns : jstate) (g : group) : group :=
  if (g_batch g =? b) && existsb (Z.eqb (g_id g)) ancs
  then g <| g_ncompleted := g_ncompleted g + 1 |>
         <| g_ncancelled := g_ncancelled g + ind (jstate_eqb ns Cancelled) |>
         <| g_nfailed := g_nfailed g + ind (jstate_eqb ns Error || jstate_eqb ns Failed) |>
         <| g_nsucc := g_nsucc g + ind (negb (jstate_eqb ns Cancelled) && negb (jstate_eqb ns Error || jstate_eqb ns Failed)) |>
  else g.

(** ... and mark_job_group_complete *)
Definition mc_G2 (b : Z) (ancs : list Z) (x : group) : group :=
  if (g_batch x =? b) && existsb (Z.eqb (g_id x)) ancs && (g_ncompleted x =? g_njobs x)
  then x <| g_running := false |> else x.

Definition mc_root_done (s : state) (b : Z) (ancs : list Z) (ns : jstate) : Z :=
  match find (fun x => (g_batch x =? b) && (g_id x =? 0)) (map (mc_G1 b ancs ns) (groups s)) with
  | Some g => g_ncompleted g | None => 0 end.

Definition mc_total (s : state) (b : Z) : Z := match find_batch s b with Some bt => b_njobs bt | None => 0 end.

Definition mc_batches (s : state) (b : Z) (ancs : list Z) (ns : jstate) : list batch :=
  if mc_root_done s b ancs ns =? mc_total s b
  then map (fun bt => if b_id bt =? b then bt <| b_running := false |> else bt) (batches s) else batches s.

Lemma mark_complete_shape s b j a i ns st en r (P : state -> Prop) :
  DInv s -> legal s (MarkComplete b j a i ns st en r) ->
  (forall s', core_eq s s' -> P s') ->
  (forall x att sf, find_job s b j = Some x -> jcommitted s x = true ->
     (j_state x = Ready \/ j_state x = Creating \/ j_state x = Running) -> terminal ns = true ->
     jobs sf = map (mc_h s b j x ns att) (jobs s) -> updates sf = updates s -> staging sf = staging s ->
     ancestors sf = ancestors s ->
     groups sf = map (mc_G2 b (anc_ids s b (j_group x))) (map (mc_G1 b (anc_ids s b (j_group x)) ns) (groups s)) ->
     batches sf = mc_batches s b (anc_ids s b (j_group x)) ns ->
     P sf) ->
  P (fst (do_mark_complete s b j a i ns st en r)).
Proof.
  intros D L Pc Pm. unfold legal, legalb in L.
  apply andb_true_iff in L. destruct L as [L _]. apply andb_true_iff in L. destruct L as [L _].
  apply andb_true_iff in L. destruct L as [Lc Lt].
  unfold do_mark_complete. destruct (find_job s b j) as [x|] eqn:Hx.
  2:{ destruct (a =? -1); apply Pc, core_eq_refl. }
  pose proof (legal_job_committed _ _ _ _ Lc Hx) as Hxc.
  match goal with |- context [match ?e with Some _ => _ | None => (s, sql_error 1452) end] => destruct e as [[s1 d0]|] eqn:A end;
    [|apply Pc, core_eq_refl].
  assert (C1 : core_eq s s1).
  { destruct (a =? -1); [injection A as <- _; apply core_eq_refl | eapply core_eq_add_attempt; exact A]. }
  set (cur := if a =? -1 then None else find_attempt s1 b j a).
  set (s2 := match cur with Some c => update_attempt s1 c _ | None => s1 end).
  assert (C2 : core_eq s s2).
  { subst s2. destruct cur; [eapply core_eq_trans; [exact C1 | apply core_eq_update_attempt] | exact C1]. }
  match goal with |- context [if ?g then match find_inst s2 i with _ => _ end else s2] =>
    set (s3 := if g then match find_inst s2 i with Some y => s2 <| insts ::= replace_inst (y <| i_free := i_free y + j_cores x |>) |> | None => s2 end else s2) end.
  assert (C3 : core_eq s s3).
  { subst s3. match goal with |- context [if ?g then _ else _] => destruct g end; [|exact C2].
    destruct (find_inst s2 i); [|exact C2]. eapply core_eq_trans; [exact C2 | apply core_eq_insts]. }
  match goal with |- context [if ?c then (s3, _) else _] => destruct c end; [apply Pc; exact C3|].
  destruct (jstate_eqb (j_state x) Ready || jstate_eqb (j_state x) Creating || jstate_eqb (j_state x) Running) eqn:St.
  2:{ destruct (terminal (j_state x)); apply Pc; exact C3. }
  cbn [fst].
  assert (Hxs : j_state x = Ready \/ j_state x = Creating \/ j_state x = Running).
  { apply orb_true_iff in St. destruct St as [St|St]; [apply orb_true_iff in St; destruct St as [St|St]|];
      apply jstate_eqb_eq in St; tauto. }
  set (att := if a =? -1 then None else Some a).
  set (x' := x <| j_state := ns |> <| j_attempt := att |>).
  set (s4 := update_job s3 x x').
  set (s5 := s4 <| groups ::= _ |>).
  match goal with |- context [finish_groups ?q _ _] => set (s6 := q) end.
  set (s7 := finish_groups s6 b (j_group x)).
  pose proof C3 as (E1&E2&E3&E4&E5&E6&E7&E8&E9).
  assert (J4 : jobs s4 = replace_job x' (jobs s)).
  { subst s4. rewrite update_job_jobs. rewrite E6. reflexivity. }
  assert (F4 : batches s4 = batches s /\ updates s4 = updates s /\ groups s4 = groups s /\ ancestors s4 = ancestors s /\
               parents s4 = parents s /\ staging s4 = staging s).
  { subst s4. autorewrite with frame. repeat split; assumption. }
  destruct F4 as (B4 & U4 & G4 & A4 & P4 & S4).
  assert (Ea : anc_ids s4 b (j_group x) = anc_ids s b (j_group x)) by (apply anc_ids_ext; exact A4).
  assert (G5 : groups s5 = map (mc_G1 b (anc_ids s b (j_group x)) ns) (groups s)).
  { subst s5. change (groups (s4 <| groups ::= ?f |>)) with (f (groups s4)). rewrite Ea, G4. reflexivity. }
  assert (F5 : batches s5 = batches s /\ updates s5 = updates s /\ ancestors s5 = ancestors s /\
               parents s5 = parents s /\ staging s5 = staging s /\ jobs s5 = jobs s4) by (repeat split; assumption).
  destruct F5 as (B5 & U5 & A5 & P5 & S5 & J5).
  assert (F6 : batches s6 = mc_batches s b (anc_ids s b (j_group x)) ns /\ groups s6 = groups s5 /\ updates s6 = updates s /\
               ancestors s6 = ancestors s /\ parents s6 = parents s /\ staging s6 = staging s /\ jobs s6 = jobs s4).
  { assert (Hrd : match find_group s5 b 0 with Some g => g_ncompleted g | None => 0 end = mc_root_done s b (anc_ids s b (j_group x)) ns).
    { unfold mc_root_done, find_group. rewrite G5. reflexivity. }
    subst s6. rewrite Hrd. fold (mc_total s b). unfold mc_batches.
    destruct (mc_root_done s b (anc_ids s b (j_group x)) ns =? mc_total s b).
    - change (batches (s5 <| batches ::= ?f |>)) with (f (batches s5)). rewrite B5. repeat split; assumption.
    - repeat split; assumption. }
  destruct F6 as (B6 & G6 & U6 & A6 & P6 & S6 & J6).
  assert (F7 : groups s7 = map (mc_G2 b (anc_ids s b (j_group x))) (groups s6) /\ batches s7 = batches s6 /\ updates s7 = updates s /\
               ancestors s7 = ancestors s /\ parents s7 = parents s /\ staging s7 = staging s /\ jobs s7 = jobs s4).
  { subst s7. unfold finish_groups. change (groups (s6 <| groups ::= ?f |>)) with (f (groups s6)).
    rewrite (anc_ids_ext s s6 b (j_group x) A6). repeat split; assumption. }
  destruct F7 as (G7 & B7 & U7 & A7 & P7 & S7 & J7).
  rewrite release_children_fold.
  assert (K7 : Kjobs s7).
  { unfold Kjobs. rewrite J7, J4. apply Kjobs_replace. exact (d_jkeys _ D). }
  assert (Hk : kids_of s7 b j = kids_of s b j) by (unfold kids_of; rewrite P7; reflexivity).
  pose proof (fold_kids b (fun y => committed s7 b (j_update y)) (child_G (jstate_eqb ns Success))
                (child_G_static _) (fun y y' (St : static y y') => f_equal (committed s7 b) (proj1 (proj2 (proj2 St))))
                (kids_of s7 b j)) as Fk.
  rewrite Hk in *. specialize (Fk (NoDup_kids_of s b j (d_enodup _ D)) s7 K7).
  destruct Fk as (JF & RF).
  set (F := fold_left _ (kids_of s b j) s7) in *.
  destruct RF as (R1&R2&R3&R4&R5&R6&R7&R8&R9&R10).
  apply (Pm x att F eq_refl Hxc Hxs Lt); try congruence.
  rewrite JF, J7, J4, replace_job_map, map_map. apply map_ext_in. intros y Hy.
    destruct (mc_x_in s b j x Hx) as (_ & X1 & X2).
    unfold mc_h. subst x'.
    replace (j_batch (x <| j_state := ns |> <| j_attempt := att |>)) with b by (destruct x; cbn in *; congruence).
    replace (j_id (x <| j_state := ns |> <| j_attempt := att |>)) with j by (destruct x; cbn in *; congruence).
  unfold kid_map. unfold committed, find_update. rewrite U7. reflexivity.
Qed.

(* ------------------------------------------------------------------ row-level facts *)

Lemma find_map_key {A} (p : A -> bool) (f : A -> A) l : (forall a, p (f a) = p a) -> find p (map f l) = option_map f (find p l).
Proof.
  intros H. induction l as [|a l IH]; [reflexivity|]. cbn [map find]. rewrite H. destruct (p a); [reflexivity | exact IH].
Qed.

Lemma mc_G1_key b ancs ns g : gk (mc_G1 b ancs ns g) = gk g.
Proof. unfold mc_G1. destruct (_ && _); [destruct g; reflexivity | reflexivity]. Qed.
Lemma mc_G2_key b ancs g : gk (mc_G2 b ancs g) = gk g.
Proof. unfold mc_G2. destruct (_ && _); [destruct g; reflexivity | reflexivity]. Qed.

Lemma class_inds ns : terminal ns = true ->
  ind (negb (jstate_eqb ns Cancelled) && negb (jstate_eqb ns Error || jstate_eqb ns Failed)) = ind (q_succ ns).
Proof. destruct ns; cbn; intros H; try reflexivity; discriminate. Qed.

Lemma mc_G_fields b ancs ns gr :
  terminal ns = true ->
  let inb := (g_batch gr =? b) && existsb (Z.eqb (g_id gr)) ancs in
  let gr' := mc_G2 b ancs (mc_G1 b ancs ns gr) in
  gk gr' = gk gr /\ g_njobs gr' = g_njobs gr /\
  g_ncompleted gr' = g_ncompleted gr + ind inb /\
  g_nsucc gr' = g_nsucc gr + (if inb then ind (q_succ ns) else 0) /\
  g_nfailed gr' = g_nfailed gr + (if inb then ind (q_fail ns) else 0) /\
  g_ncancelled gr' = g_ncancelled gr + (if inb then ind (q_canc ns) else 0) /\
  g_running gr' = (if inb && (g_ncompleted gr + 1 =? g_njobs gr) then false else g_running gr).
Proof.
  intros Hns. cbv zeta. rewrite <- (class_inds ns Hns). unfold mc_G2, mc_G1, q_fail, q_canc.
  destruct gr as [gb gi grun gn gc gs gf gcn gu]. cbn [g_batch g_id g_njobs g_ncompleted g_nsucc g_nfailed g_ncancelled g_running].
  destruct ((gb =? b) && existsb (Z.eqb gi) ancs) eqn:Inb; cbn; rewrite Inb; cbn.
  - destruct (gc + 1 =? gn); cbn; repeat split; lia.
  - repeat split; lia.
Qed.

(* ------------------------------------------------------------------ the invariant after the completion *)

Section MCT.
  Variables (s sf : state) (b j : Z) (x : job) (ns : jstate) (att : option Z).
  Hypothesis D : DInv s.
  Hypothesis T : TInv s.
  Hypothesis Hx : find_job s b j = Some x.
  Hypothesis Hxc : jcommitted s x = true.
  Hypothesis Hxs : j_state x = Ready \/ j_state x = Creating \/ j_state x = Running.
  Hypothesis Hns : terminal ns = true.
  Let ancs := anc_ids s b (j_group x).
  Let h := mc_h s b j x ns att.
  Hypothesis Hjobs : jobs sf = map h (jobs s).
  Hypothesis Hupd : updates sf = updates s.
  Hypothesis Hstg : staging sf = staging s.
  Hypothesis Hanc : ancestors sf = ancestors s.
  Hypothesis Hgrp : groups sf = map (mc_G2 b ancs) (map (mc_G1 b ancs ns) (groups s)).
  Hypothesis Hbat : batches sf = mc_batches s b ancs ns.

  Lemma mt_x_in : In x (jobs s) /\ j_batch x = b /\ j_id x = j.
  Proof. apply (mc_x_in s b j x Hx). Qed.

  Lemma mt_x_live : terminal (j_state x) = false.
  Proof. destruct Hxs as [E|[E|E]]; rewrite E; reflexivity. Qed.

  Lemma mt_static y : In y (jobs s) -> static y (h y).
  Proof. apply (mc_h_static s b j x ns att D Hx Hxc Hxs). Qed.

  Lemma mt_hx_state : j_state (h x) = ns.
  Proof. unfold h. rewrite (mc_h_x s b j x ns att D Hx Hxc Hxs). destruct x; reflexivity. Qed.

  Lemma mt_class y : In y (jobs s) -> y <> x -> jclass (j_state (h y)) = jclass (j_state y).
  Proof.
    intros Hy Hne. unfold h. rewrite (mc_h_other s b j x ns att D Hx y Hy Hne). unfold kid_map.
    destruct ((j_batch y =? b) && existsb (Z.eqb (j_id y)) (kids_of s b j) && committed s b (j_update y)) eqn:E; [|reflexivity].
    apply andb_true_iff in E. destruct E as [E Ec]. apply andb_true_iff in E. destruct E as [Eb Ek].
    apply existsb_eqb_in in Ek. assert (Eb' : j_batch y = b) by lia.
    destruct (mc_child_pending s b j x ns D Hx Hxs y Hy Eb' Ek Ec) as (Pn & _ & _).
    unfold child_G. destruct y as [yb yi yu yg ys ya yc yn ycn yat yic]. cbn in *. subst ys.
    destruct (yn =? 1); reflexivity.
  Qed.

  Lemma mt_committed b' u : committed sf b' u = committed s b' u.
  Proof. unfold committed, find_update. rewrite Hupd. reflexivity. Qed.

  Lemma mt_in_sub b' g y : In y (jobs s) -> in_sub sf b' g (h y) = in_sub s b' g y.
  Proof. intros Hy. apply in_sub_static; [apply mt_static; exact Hy | intros _; apply anc_ids_ext; exact Hanc]. Qed.

  Lemma mt_sel b' g q y : cls_ok q -> In y (jobs s) -> y <> x -> sel sf b' g q (h y) = sel s b' g q y.
  Proof.
    intros Hq Hy Hne. unfold sel. rewrite (mt_in_sub b' g y Hy), (jcommitted_static s sf y (h y) (mt_static y Hy) mt_committed).
    rewrite (Hq _ _ (mt_class y Hy Hne)). reflexivity.
  Qed.

  (* is group (b', g) an ancestor-or-self of the finished job's group? *)
  Definition inx (b' g : Z) : bool := (b' =? b) && existsb (Z.eqb g) ancs.

  Lemma mt_in_sub_x b' g : in_sub s b' g x = inx b' g.
  Proof.
    destruct mt_x_in as (_ & Eb & _). unfold in_sub, inx, ancs. rewrite Eb, (Z.eqb_sym b b').
    destruct (b' =? b) eqn:E; [|reflexivity]. replace b' with b by lia. reflexivity.
  Qed.

  Lemma mt_cnt b' g q : cls_ok q ->
    cnt sf b' g q = cnt s b' g q + (if inx b' g then ind (q ns) - ind (q (j_state x)) else 0).
  Proof.
    intros Hq. destruct mt_x_in as (Hxin & _). unfold cnt. rewrite Hjobs.
    rewrite (len_filter_map_one h (sel sf b' g q) (sel s b' g q) x (jobs s)
               (NoDup_of_map jk _ (d_jkeys _ D)) Hxin (fun y Hy Hne => mt_sel b' g q y Hq Hy Hne)).
    unfold sel at 2 3. rewrite (mt_in_sub b' g x Hxin), (jcommitted_static s sf x (h x) (mt_static x Hxin) mt_committed).
    rewrite Hxc, mt_hx_state, mt_in_sub_x. destruct (inx b' g); cbn [andb ind]; lia.
  Qed.

  Lemma mt_cnt_all b' g : cnt sf b' g q_all = cnt s b' g q_all.
  Proof. rewrite (mt_cnt b' g q_all cls_all). destruct (inx b' g); cbn; lia. Qed.

  Lemma mt_cnt_term b' g : cnt sf b' g terminal = cnt s b' g terminal + ind (inx b' g).
  Proof. rewrite (mt_cnt b' g terminal cls_term), Hns, mt_x_live. destruct (inx b' g); cbn; lia. Qed.

  Lemma mt_cnt_cls b' g q : cls_ok q -> term_q q ->
    cnt sf b' g q = cnt s b' g q + (if inx b' g then ind (q ns) else 0).
  Proof.
    intros Hq Ht. rewrite (mt_cnt b' g q Hq).
    assert (Q0 : q (j_state x) = false).
    { destruct (q (j_state x)) eqn:Q; [|reflexivity]. pose proof mt_x_live as L. rewrite (Ht _ Q) in L. discriminate L. }
    rewrite Q0. destruct (inx b' g); cbn [ind]; lia.
  Qed.

  Lemma mt_group_ok gr : group_ok s gr -> group_ok sf (mc_G2 b ancs (mc_G1 b ancs ns gr)).
  Proof.
    intros [G1 G2 G3 G4 G5 G6].
    destruct (mc_G_fields b ancs ns gr Hns) as (K & N & C & Su & Fa & Ca & R). cbv zeta in *.
    fold (inx (g_batch gr) (g_id gr)) in C, Su, Fa, Ca, R.
    set (gr' := mc_G2 b ancs (mc_G1 b ancs ns gr)) in *.
    unfold gk in K. injection K as K1 K2.
    assert (Ecomp : g_ncompleted gr' = cnt sf (g_batch gr) (g_id gr) terminal) by (rewrite mt_cnt_term, C, G2; reflexivity).
    assert (Eall : g_njobs gr' = cnt sf (g_batch gr) (g_id gr) q_all) by (rewrite mt_cnt_all, N, G1; reflexivity).
    constructor; rewrite ?K1, ?K2.
    - exact Eall.
    - exact Ecomp.
    - rewrite (mt_cnt_cls _ _ _ cls_succ term_q_succ), Su, G3. reflexivity.
    - rewrite (mt_cnt_cls _ _ _ cls_fail term_q_fail), Fa, G4. reflexivity.
    - rewrite (mt_cnt_cls _ _ _ cls_canc term_q_canc), Ca, G5. reflexivity.
    - pose proof (cnt_le sf (g_batch gr) (g_id gr) terminal) as Le. rewrite <- Ecomp, <- Eall in Le.
      rewrite R, C, N, G6. rewrite C, N in Le.
      destruct (inx (g_batch gr) (g_id gr)); cbn [andb ind] in *.
      + destruct (g_ncompleted gr + 1 =? g_njobs gr) eqn:E; [reflexivity|].
        apply negb_true_iff. apply Z.eqb_neq. lia.
      + rewrite Z.add_0_r. reflexivity.
  Qed.

  Lemma mt_groups gr' : In gr' (groups sf) -> exists gr, In gr (groups s) /\ gr' = mc_G2 b ancs (mc_G1 b ancs ns gr).
  Proof.
    intros Hg. rewrite Hgrp, map_map in Hg. apply in_map_iff in Hg. destruct Hg as (gr & <- & Hgr). exists gr. auto.
  Qed.

  Lemma mt_gk : map gk (groups sf) = map gk (groups s).
  Proof.
    rewrite Hgrp, !map_map. apply map_ext. intros g. rewrite mc_G2_key, mc_G1_key. reflexivity.
  Qed.

  Lemma mt_find_group b' g : find_group sf b' g = None <-> find_group s b' g = None.
  Proof. rewrite !find_group_none, mt_gk. tauto. Qed.

  (* the root group is an ancestor-or-self of every group *)
  Lemma mt_root_anc : existsb (Z.eqb 0) ancs = true.
  Proof.
    destruct mt_x_in as (Hxin & Eb & _). pose proof (d_jgroup _ D x Hxin) as Hg.
    destruct (find_group s (j_batch x) (j_group x)) as [gg|] eqn:Fg; [|congruence].
    apply find_group_sound in Fg. destruct Fg as (Hin & Eb' & Eg).
    pose proof (d_root _ D gg Hin) as R. unfold root_once in R. rewrite Eb', Eg, Eb in R. fold ancs in R.
    destruct (existsb (Z.eqb 0) ancs) eqn:E; [reflexivity|]. exfalso.
    rewrite (filter_all_false (Z.eqb 0) ancs) in R; [discriminate|].
    intros z Hz. destruct (0 =? z) eqn:Ez; [|reflexivity].
    assert (existsb (Z.eqb 0) ancs = true) by (apply existsb_exists; exists z; auto). congruence.
  Qed.

  Lemma mt_batch bt gr : In bt (batches s) -> In gr (groups s) -> g_batch gr = b_id bt -> g_id gr = 0 -> b_id bt = b ->
    mc_total s b = g_njobs gr /\ mc_root_done s b ancs ns = g_ncompleted gr + 1.
  Proof.
    intros Hbt Hgr E1 E2 Eb. split.
    - unfold mc_total. destruct (find_batch s b) as [bt0|] eqn:Fb.
      + unfold find_batch in Fb. apply find_some in Fb. destruct Fb as (Hb0 & K0).
        destruct (t_batch _ T bt0 gr Hb0 Hgr ltac:(lia) E2) as [A _]. exact A.
      + exfalso. unfold find_batch in Fb. pose proof (find_none _ _ Fb bt Hbt) as N. cbv beta in N. lia.
    - unfold mc_root_done. rewrite find_map_key.
      2:{ intros g. pose proof (mc_G1_key b ancs ns g) as K. unfold gk in K. injection K as -> ->. reflexivity. }
      change (find (fun x0 => (g_batch x0 =? b) && (g_id x0 =? 0)) (groups s)) with (find_group s b 0).
      destruct (find_group s b 0) as [g0|] eqn:F0.
      + apply find_group_sound in F0. destruct F0 as (Hg0 & B0 & I0). cbn [option_map].
        destruct (mc_G_fields b ancs ns g0 Hns) as (_ & _ & C & _). cbv zeta in C.
        unfold mc_G1 at 1. rewrite B0, I0, Z.eqb_refl, mt_root_anc. cbn [andb].
        destruct (t_groups _ T g0 Hg0) as [_ Gc _ _ _ _]. destruct (t_groups _ T gr Hgr) as [_ Gc' _ _ _ _].
        rewrite B0, I0 in Gc. rewrite E1, E2, Eb in Gc'. destruct g0; cbn in *. lia.
      + exfalso. unfold find_group in F0. pose proof (find_none _ _ F0 gr Hgr) as N. cbv beta in N. lia.
  Qed.

  Lemma mark_complete_TInv : TInv sf.
  Proof.
    pose proof T as [T1 T2 T3 T4 T6 T7]. constructor.
    - intros gr' Hg. destruct (mt_groups gr' Hg) as (gr & Hgr & ->). apply mt_group_ok. apply T1. exact Hgr.
    - intros bt' gr' Hb Hg E1 E2. destruct (mt_groups gr' Hg) as (gr & Hgr & ->).
      destruct (mc_G_fields b ancs ns gr Hns) as (K & N & C & _ & _ & _ & R). cbv zeta in *.
      unfold gk in K. injection K as K1 K2. rewrite K1 in E1. rewrite K2 in E2. rewrite N, R.
      rewrite Hbat in Hb. unfold mc_batches in Hb.
      assert (Hcase : exists bt, In bt (batches s) /\ b_id bt' = b_id bt /\ b_njobs bt' = b_njobs bt /\
                b_running bt' = (if (b_id bt =? b) && (mc_root_done s b ancs ns =? mc_total s b) then false else b_running bt)).
      { destruct (mc_root_done s b ancs ns =? mc_total s b).
        - apply in_map_iff in Hb. destruct Hb as (bt & <- & Hbt). exists bt. split; [exact Hbt|]. rewrite andb_true_r.
          destruct (b_id bt =? b); [destruct bt; cbn; repeat split | repeat split].
        - exists bt'. split; [exact Hb|]. rewrite andb_false_r. repeat split. }
      destruct Hcase as (bt & Hbt & Ki & Nb & Rb). rewrite Ki in E1.
      destruct (T2 bt gr Hbt Hgr E1 E2) as [A1 A2]. rewrite Nb, Rb, A1, A2. split; [reflexivity|].
      rewrite E1, E2. destruct (b_id bt =? b) eqn:Eb; cbn [andb]; [|reflexivity].
      destruct (mt_batch bt gr Hbt Hgr E1 E2 ltac:(lia)) as [Et Er]. rewrite Et, Er, mt_root_anc. reflexivity.
    - intros bt' Hb. rewrite Hbat in Hb. unfold mc_batches in Hb.
      assert (Hex : exists bt, In bt (batches s) /\ b_id bt' = b_id bt).
      { destruct (_ =? _).
        - apply in_map_iff in Hb. destruct Hb as (bt & <- & Hbt). exists bt. split; [exact Hbt|].
          destruct (b_id bt =? b); [destruct bt; reflexivity | reflexivity].
        - exists bt'. auto. }
      destruct Hex as (bt & Hbt & ->). intros F. apply mt_find_group in F. exact (T3 bt Hbt F).
    - intros b' u' g Hc. rewrite mt_committed in Hc.
      unfold gstaged. rewrite Hstg. fold (gstaged s b' u' g). rewrite (T4 b' u' g Hc).
      symmetry. apply (n_sub_upd_map s sf h); [exact Hjobs|]. intros y Hy. unfold usel. rewrite (mt_in_sub b' g y Hy).
      destruct (mt_static y Hy) as (_ & _ & S3 & _). rewrite <- S3. reflexivity.
    - intros b' g. rewrite (anc_ids_ext s sf b' g Hanc). apply T6.
    - rewrite Hanc. intros b' g a l Hin F. apply mt_find_group in F. exact (T7 b' g a l Hin F).
  Qed.
End MCT.

Lemma TInv_mark_complete s b j a i ns st en r :
  DInv s -> TInv s -> legal s (MarkComplete b j a i ns st en r) -> TInv (fst (do_mark_complete s b j a i ns st en r)).
Proof.
  intros D T L. apply mark_complete_shape; [exact D | exact L | |].
  - intros s' C. apply (TInv_core s s' C T).
  - intros x att sf Hx Hxc Hxs Hns Hj Hu Hs Ha Hg Hb. apply (mark_complete_TInv s sf b j x ns att); assumption.
Qed.
