(** C41, non-interference: the simulation theorem.

    [noninterference_phase2]  from any state in which update U of batch B is open, last, and every other update of B is
                              committed ([NInv]): for every good continuation [ops] after which U is still open and last,
                              running the ERASED continuation from the PROJECTED state gives the projection of running
                              [ops] from the state itself;
    [noninterference_from]    the same from the state [s0] in which U is created (the client opens U when every other
                              update of B is committed, and no row with U's keys exists yet): running the erased
                              continuation from [s0] itself gives the projection.

    Transactions covered by the per-transaction commutation lemmas ([supported]): every driver / worker / instance /
    billing transaction, create_update, the create_groups / create_jobs / commit requests of batch B (those of U are erased,
    the others are refused in both runs), and the staging clean-up.  NOT covered yet (listed in Props_C41.v): create_batch,
    create_groups / create_jobs / commit of OTHER batches while U is open, cancel_job_group / delete_batch, and the
    cancellable clean-up. *)
From HailV Require Import Common.Prelude BatchDB.Model BatchDB.Tables BatchDB.CMap BatchDB.JobsWF BatchDB.StepCore
  BatchDB.Legal BatchDB.DepsDef BatchDB.DepsStruct BatchDB.DepsAux BatchDB.Deps BatchDB.Pick BatchDB.Cores BatchDB.Attempts
  BatchDB.StepFrame BatchDB.NonInterfDef BatchDB.NonInterfInv BatchDB.NonInterfDriver BatchDB.NonInterfDriver2 BatchDB.NonInterfSim
  BatchDB.NonInterfClient.
From HailV Require BatchDB.Cancel.
From RecordUpdate Require Import RecordSet.
Import RecordSetNotations.
Open Scope Z_scope.

Local Notation run_from := Cancel.run_from.

Definition supported (B : Z) (o : op) : Prop :=
  match o with
  | CreateBatch _ _ _ _ => False
  | CreateGroups b _ _ _ | CreateJobs b _ _ _ | Commit b _ _ => b = B
  | CancelGroup _ _ | DeleteBatch _ | CleanupCancellable => False
  | _ => True
  end.

Section Main.
  Variables (B U tok sj nj sg ng G0 : Z).
  Local Notation P := (proj B U sj G0).
  Local Notation er := (erase B U tok sj nj sg ng).
  Local Notation er1 := (erase_op B U tok sj nj sg ng).

  Record NInv (s : state) : Prop := {
    n_dinv : DInv s; n_daux : DAux s; n_att : AttInv s;
    n_sim : Sim B U sj G0 s; n_tok : Tok B U tok s; n_glow : Glow B G0 s }.

  Lemma NInv_step s o : NInv s -> good s o -> Open B U (fst (step s o)) -> NInv (fst (step s o)).
  Proof.
    intros [D A At S T Gl] G O. destruct (Sim_step B U sj G0 tok s o D A G S T O) as (S' & T').
    constructor; [apply DInv_step; assumption | apply DAux_step; assumption | | exact S' | exact T' | apply Glow_step; exact Gl].
    apply AttInv_step; [apply (d_jkeys _ D) | apply G | exact At].
  Qed.

  Lemma ujob_free b j : jfree B sj b j -> ujob B sj nj b j = false.
  Proof.
    unfold jfree, ujob, in_rng. intros H. destruct (b =? B); cbn [andb] in *; [|reflexivity].
    replace (sj <=? j) with false by exact (eq_sym H). reflexivity.
  Qed.

  Lemma ujob_own b j : ujob B sj nj b j = true -> (b =? B) && (sj <=? j) = true.
  Proof. unfold ujob, in_rng. intros H. apply andb_true_iff in H. destruct H as [H1 H2]. apply andb_true_iff in H2. rewrite H1. cbn [andb]. tauto. Qed.

  Lemma billing_filter atts :
    filter (fun x : Z * Z * Z => let '(b, j, _) := x in negb (ujob B sj nj b j)) atts =
    keep (fun x : Z * Z * Z => let '(b, j, _) := x in ujob B sj nj b j) atts.
  Proof. unfold keep. apply filter_ext. intros [[b j] a]. reflexivity. Qed.

  Lemma phase2_step s o : NInv s -> good s o -> supported B o -> Open B U (fst (step s o)) ->
    run_from (P s) (er1 o) = P (fst (step s o)).
  Proof.
    intros [D A At S T Gl] [L C] Sup O. pose proof (SI_of_sim B U sj G0 s D S At) as SIs.
    assert (LC : forall b j r, job_committed s b j && r = true -> job_committed s b j = true)
      by (intros b j r H; apply andb_true_iff in H; tauto).
    unfold legal, legalb in L.
    destruct o; cbn [supported] in Sup; try contradiction; cbn [erase_op step] in *.
    - (* CreateUpdate *)
      destruct ((b =? B) && (token =? tok)) eqn:E.
      + cbn [Cancel.run_from fold_left]. apply andb_true_iff in E. destruct E as [E _]. apply Z.eqb_eq in E.
        rewrite (erased_create_update B U sj G0 s b user token n_jobs n_groups S E O). reflexivity.
      + cbn [Cancel.run_from fold_left step]. apply (proj_create_update B U sj G0 tok); assumption.
    - (* CreateGroups *)
      subst b. rewrite Z.eqb_refl. cbn [andb]. destruct (u =? U) eqn:E.
      + cbn [Cancel.run_from fold_left]. apply Z.eqb_eq in E. subst u. symmetry. apply (erased_create_groups B U sj G0); assumption.
      + cbn [Cancel.run_from fold_left step]. apply (proj_create_groups_B B U sj G0); [exact S | lia].
    - (* CreateJobs *)
      subst b. rewrite Z.eqb_refl. cbn [andb]. destruct (u =? U) eqn:E.
      + cbn [Cancel.run_from fold_left]. apply Z.eqb_eq in E. subst u. symmetry.
        apply (erased_create_jobs B U sj G0); try assumption. split; assumption.
      + cbn [Cancel.run_from fold_left step]. apply (proj_create_jobs_B B U sj G0); [exact S | lia].
    - (* Commit *)
      subst b. rewrite Z.eqb_refl. cbn [andb]. destruct (u =? U) eqn:E.
      + cbn [Cancel.run_from fold_left]. apply Z.eqb_eq in E. subst u. destruct O as [O _].
        rewrite (erased_commit B U s user O). reflexivity.
      + cbn [Cancel.run_from fold_left step]. apply (proj_commit_B B U sj G0); [exact S | lia].
    - cbn [Cancel.run_from fold_left step]. apply proj_new_instance.
    - cbn [Cancel.run_from fold_left step]. apply proj_activate.
    - cbn [Cancel.run_from fold_left step]. apply proj_deactivate. exact SIs.
    - cbn [Cancel.run_from fold_left step]. apply proj_mark_deleted.
    - (* ScheduleJob *)
      pose proof (LC _ _ _ L) as Cj. rewrite (ujob_free b j (si_job_committed_free B U sj G0 s b j SIs Cj)).
      cbn [Cancel.run_from fold_left step]. apply proj_schedule; assumption.
    - pose proof (LC _ _ _ L) as Cj. rewrite (ujob_free b j (si_job_committed_free B U sj G0 s b j SIs Cj)).
      cbn [Cancel.run_from fold_left step]. apply proj_unschedule; assumption.
    - pose proof (LC _ _ _ L) as Cj. rewrite (ujob_free b j (si_job_committed_free B U sj G0 s b j SIs Cj)).
      cbn [Cancel.run_from fold_left step]. apply proj_mcs; assumption.
    - pose proof (LC _ _ _ L) as Cj. rewrite (ujob_free b j (si_job_committed_free B U sj G0 s b j SIs Cj)).
      cbn [Cancel.run_from fold_left step]. apply proj_mcs; assumption.
    - (* MarkComplete *)
      assert (Cj : job_committed s b j = true) by (repeat (apply andb_true_iff in L; destruct L as [L ?]); exact L).
      rewrite (ujob_free b j (si_job_committed_free B U sj G0 s b j SIs Cj)).
      cbn [Cancel.run_from fold_left step]. apply proj_mark_complete; assumption.
    - (* AddAttemptResources *)
      destruct (ujob B sj nj b j) eqn:E.
      + cbn [Cancel.run_from fold_left]. rewrite (add_resources_own_noop B U sj G0 s b j att rs SIs (ujob_own b j E)). reflexivity.
      + cbn [Cancel.run_from fold_left step]. apply proj_add_resources. exact SIs.
    - (* BillingUpdate *)
      cbn [Cancel.run_from fold_left step]. rewrite billing_filter. apply proj_billing_update; [exact SIs|].
      intros [[b j] a] Q. apply ujob_own. exact Q.
    - cbn [Cancel.run_from fold_left step]. apply proj_cleanup_staging.
  Qed.

  Theorem noninterference_phase2 ops : forall s,
    NInv s -> good_from s ops -> Forall (supported B) ops -> Open B U (run_from s ops) ->
    run_from (P s) (er ops) = P (run_from s ops).
  Proof.
    induction ops as [|o r IH]; intros s N G F O; [reflexivity|].
    cbn [good_from] in G. destruct G as [Go Gr]. inversion F as [|? ? Fo Fr]; subst.
    change (run_from s (o :: r)) with (run_from (fst (step s o)) r) in *.
    pose proof (Open_back_from B U r _ O) as Oo.
    change (er (o :: r)) with (er1 o ++ er r). rewrite Cancel.run_from_app, (phase2_step s o N Go Fo Oo).
    apply IH; [apply NInv_step; assumption | exact Gr | exact Fr | exact O].
  Qed.

  (* -------------------------------------------------------------- the request that opens U *)

  Lemma keep_eq_all {A} (p : A -> bool) l : keep p l = l -> forall x, In x l -> p x = false.
  Proof.
    intros E x Hx. destruct (p x) eqn:Px; [|reflexivity]. exfalso.
    assert (Hin : In x (keep p l)) by (rewrite E; exact Hx). unfold keep in Hin. apply filter_In in Hin.
    destruct Hin as [_ H]. rewrite Px in H. discriminate.
  Qed.

  Theorem noninterference_from s0 usr nj' ng' post :
    DInv s0 -> DAux s0 -> AttInv s0 ->
    P s0 = s0 ->                                                              (* no row carries U's keys yet *)
    Glow B G0 s0 -> 0 < G0 ->                                                 (* G0 = number of groups of B *)
    (forall x, In x (updates s0) -> u_batch x = B -> u_committed x = true) -> (* the client opens U when all updates of B are committed *)
    let o0 := CreateUpdate B usr tok nj' ng' in
    (exists up, find_update (fst (step s0 o0)) B U = Some up /\ u_start_job up = sj) -> find_update s0 B U = None ->
    good_from s0 (o0 :: post) -> Forall (supported B) post -> Open B U (run_from s0 (o0 :: post)) ->
    run_from s0 (er post) = P (run_from s0 (o0 :: post)).
  Proof.
    intros D A At Clean Gl HG Hcomm o0 (up & Fu1 & Hsj) Fu0 G F O.
    cbn [good_from] in G. destruct G as [Go Gr].
    change (run_from s0 (o0 :: post)) with (run_from (fst (step s0 o0)) post) in *.
    pose proof (Open_back_from B U post _ O) as O1.
    set (s1 := fst (step s0 o0)) in *.
    assert (E1 : s1 = s0 <| updates ::= fun l => l ++ [create_update_row s0 B tok nj' ng'] |>).
    { subst s1 o0. cbn [step]. destruct (do_create_update_cases s0 B usr tok nj' ng') as [E | (_ & _ & E)]; [|exact E].
      exfalso. cbn [step] in Fu1. rewrite E in Fu1. congruence. }
    set (row := create_update_row s0 B tok nj' ng') in *.
    assert (Hrow : u_batch row = B /\ u_token row = tok /\ u_committed row = false)
      by (subst row; unfold create_update_row; destruct (last_update s0 B); cbn; auto).
    destruct Hrow as (Rb & Rt & Rc).
    assert (Rid : u_id row = U).
    { apply find_update_sound in Fu1. destruct Fu1 as (Hin & Hb & Hi). rewrite E1 in Hin. scbn in Hin.
      apply in_app_iff in Hin. destruct Hin as [Hin | [<- | []]]; [|exact Hi]. exfalso.
      rewrite <- Hb, <- Hi in Fu0. rewrite (find_update_in s0 up (d_ukeys _ D) Hin) in Fu0. discriminate. }
    assert (Hlt : forall x, In x (updates s0) -> u_batch x = B -> u_id x < U).
    { intros x Hx Hb. destruct (create_update_new_id s0 B usr tok nj' ng') as [E | (_ & _ & Hnew)].
      - exfalso. fold o0 in E. change (fst (do_create_update s0 B usr tok nj' ng')) with s1 in E. rewrite E1 in E. scbn in E.
        apply (f_equal (@length _)) in E. rewrite app_length in E. cbn in E. lia.
      - fold row in Hnew. rewrite <- Rid. apply Hnew; assumption. }
    assert (D1 : DInv s1) by (apply DInv_step; assumption).
    assert (N1 : NInv s1).
    { constructor; [exact D1 | apply DAux_step; exact A | apply AttInv_step; [apply (d_jkeys _ D) | apply Go | exact At] | | | apply Glow_step; exact Gl].
      - constructor.
        + exact HG.
        + exists up. split; [exact Fu1|]. split; [|exact Hsj]. destruct O1 as [C _]. unfold committed in C. rewrite Fu1 in C. exact C.
        + intros x Hx Hb Ni. rewrite E1 in Hx. scbn in Hx. apply in_app_iff in Hx. destruct Hx as [Hx | [<- | []]]; [|congruence].
          split; [apply Hcomm; assumption | apply Hlt; assumption].
        + intros y Hy Hb Nu. rewrite E1 in Hy. scbn in Hy.
          pose proof (d_jgroup _ D y Hy) as Fg. rewrite Hb in Fg.
          destruct (find_group s0 B (j_group y)) as [gr|] eqn:Fgr; [|contradiction].
          apply find_group_sound in Fgr. destruct Fgr as (Hgr & Bg & Ig).
          assert (Kg : keep (gU B G0) (groups s0) = groups s0) by (apply (f_equal groups) in Clean; exact Clean).
          pose proof (keep_eq_all _ _ Kg gr Hgr) as Fr. unfold gU in Fr. rewrite Bg, Z.eqb_refl in Fr. cbn [andb] in Fr. lia.
      - intros x Hx Hb Hi. rewrite E1 in Hx. scbn in Hx. apply in_app_iff in Hx. destruct Hx as [Hx | [<- | []]]; [|exact Rt].
        specialize (Hlt x Hx Hb). lia. }
    assert (EP : P s1 = s0).
    { transitivity (P s0); [|exact Clean]. rewrite E1. unfold proj. scbn. rewrite keep_app.
      rewrite (keep_none (uU B U) [row]); [rewrite app_nil_r; reflexivity|].
      intros x [<- | []]. unfold uU. rewrite Rb, Rid, !Z.eqb_refl. reflexivity. }
    rewrite <- EP at 1. apply noninterference_phase2; assumption.
  Qed.
End Main.

(* ------------------------------------------------------------------ history form *)

(** [pre] is any good history, the next request opens update U of batch B (all other updates of B being committed, no
    row carrying U's keys existing yet), [post] is any good continuation of supported transactions after which U is still
    open and still the last update of B.  Then the history with U's requests erased from [post] ends in the projection
    of the state the full history ends in: every row that does not belong to U is identical. *)
Theorem noninterference_history B U tok sj nj sg ng G0 pre usr nj' ng' post :
  let o0 := CreateUpdate B usr tok nj' ng' in
  good_history (pre ++ o0 :: post) ->
  proj B U sj G0 (run pre) = run pre -> Glow B G0 (run pre) -> 0 < G0 ->
  (forall x, In x (updates (run pre)) -> u_batch x = B -> u_committed x = true) ->
  (exists up, find_update (run (pre ++ [o0])) B U = Some up /\ u_start_job up = sj) -> find_update (run pre) B U = None ->
  Forall (supported B) post -> Open B U (run (pre ++ o0 :: post)) ->
  run (pre ++ erase B U tok sj nj sg ng post) = proj B U sj G0 (run (pre ++ o0 :: post)).
Proof.
  intros o0 G Clean Gl HG Hc Hup Hn F O.
  destruct (JobChange.good_history_split _ _ G) as (D & A & Gf).
  assert (Gp : good_history pre) by (unfold good_history in *; apply Pick.good_from_app in G; tauto).
  rewrite !Cancel.run_app in *.
  apply (noninterference_from B U tok sj nj sg ng G0 (run pre) usr nj' ng' post); try assumption.
  apply AttInv_reachable. exact Gp.
Qed.

(* ------------------------------------------------------------------ non-vacuity *)

Definition ni_pre : list op :=
  [CreateBatch 1 1 1 true; CreateUpdate 1 1 10 2 0;
   CreateJobs 1 1 1 [mkJspec 1 (Some 0) 0 [] [] false 1000 1; mkJspec 2 (Some 0) 0 [] [1] false 1000 1];
   Commit 1 1 1; NewInstance 1 1 4000 true; ActivateInstance 1; ScheduleJob 1 1 1 1].
Definition ni_open : op := CreateUpdate 1 1 11 1 1.
Definition ni_post : list op :=
  [CreateGroups 1 2 1 [mkGspec 1 (Some 0) 0];
   CreateJobs 1 2 1 [mkJspec 1 None 1 [2] [] false 1000 1];
   MarkComplete 1 1 1 1 Success (Some 5) (Some 9) 2; ScheduleJob 1 2 2 1; BillingUpdate 12 [(1, 2, 2); (1, 3, 1)];
   MarkComplete 1 2 2 1 Failed (Some 10) (Some 15) 2; Commit 1 2 7; CreateUpdate 1 1 11 1 1; CleanupStaging].

(** The hypotheses of [noninterference_history] hold of a concrete history (update 2 of batch 1 creates a job group and a
    job depending on a job of update 1, its parent then runs and fails, a commit by the wrong user is refused); the two
    runs are computed and compared; erasing over the WHOLE history (as the oracle does) gives the same run. *)
Example noninterference_nonvacuous :
  good_history (ni_pre ++ ni_open :: ni_post) /\
  proj 1 2 3 1 (run ni_pre) = run ni_pre /\ Glow 1 1 (run ni_pre) /\
  (forall x, In x (updates (run ni_pre)) -> u_batch x = 1 -> u_committed x = true) /\
  (exists up, find_update (run (ni_pre ++ [ni_open])) 1 2 = Some up /\ u_start_job up = 3) /\ find_update (run ni_pre) 1 2 = None /\
  Forall (supported 1) ni_post /\ Open 1 2 (run (ni_pre ++ ni_open :: ni_post)) /\
  run (ni_pre ++ erase 1 2 11 3 1 1 1 ni_post) = proj 1 2 3 1 (run (ni_pre ++ ni_open :: ni_post)) /\
  erase 1 2 11 3 1 1 1 (ni_pre ++ ni_open :: ni_post) = ni_pre ++ erase 1 2 11 3 1 1 1 ni_post /\
  length (jobs (run (ni_pre ++ ni_open :: ni_post))) = 3%nat /\ length (groups (run (ni_pre ++ ni_open :: ni_post))) = 2%nat /\
  length (jobs (run (ni_pre ++ erase 1 2 11 3 1 1 1 ni_post))) = 2%nat.
Proof.
  split; [apply good_fromb_sound; vm_compute; reflexivity|].
  split; [vm_compute; reflexivity|].
  split; [intros g Hg; assert (g = 0) by lia; subst g; vm_compute; discriminate|].
  split.
  { assert (E : updates (run ni_pre) = [mkUpdate 1 1 10 1 2 1 0 true]) by (vm_compute; reflexivity).
    rewrite E. intros x [<- | []] _. reflexivity. }
  split; [eexists; split; [vm_compute; reflexivity | reflexivity]|].
  split; [vm_compute; reflexivity|].
  split; [unfold ni_post; repeat constructor|].
  split.
  { split; [vm_compute; reflexivity|].
    assert (E : map (fun x => (u_batch x, u_id x)) (updates (run (ni_pre ++ ni_open :: ni_post))) = [(1, 1); (1, 2)]) by (vm_compute; reflexivity).
    intros x Hx _. apply (in_map (fun x => (u_batch x, u_id x))) in Hx. rewrite E in Hx.
    destruct Hx as [Hx | [Hx | []]]; injection Hx as _ <-; lia. }
  repeat split; vm_compute; reflexivity.
Qed.
