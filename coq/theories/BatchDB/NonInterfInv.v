(** C41, non-interference: the two invariants of the simulation.

    [AttInv s]   every attempt row belongs to a job of a committed update (attempts are created by schedule / creating /
                 started / complete messages, which Legal.v restricts to committed jobs): holds after every good history;
    [Sim s]      "phase 2" — update U of batch B exists, is open and is the last update of B, every other update of B is
                 committed, and the other jobs of B sit in groups below G0. *)
From HailV Require Import Common.Prelude BatchDB.Model BatchDB.Tables BatchDB.CMap BatchDB.JobsWF BatchDB.StepCore
  BatchDB.Legal BatchDB.DepsDef BatchDB.DepsStruct BatchDB.DepsAux BatchDB.Deps BatchDB.Pick BatchDB.Cores BatchDB.Attempts
  BatchDB.StepFrame BatchDB.NonInterfDef.
From HailV Require BatchDB.Cancel.
From RecordUpdate Require Import RecordSet.
Import RecordSetNotations.
Open Scope Z_scope.

(* ------------------------------------------------------------------ attempt keys along a transaction *)

Definition akeys (s : state) : list (Z * Z * Z) := map ak (attempts s).
Definition asame (s s' : state) : Prop := akeys s' = akeys s.

Lemma asame_refl s : asame s s. Proof. reflexivity. Qed.
Lemma asame_trans s1 s2 s3 : asame s1 s2 -> asame s2 s3 -> asame s1 s3.
Proof. unfold asame. congruence. Qed.
Lemma asame_update_job s o n : asame s (update_job s o n).
Proof. unfold asame, akeys. rewrite update_job_attempts. reflexivity. Qed.
Lemma asame_update_attempt s o r : asame s (update_attempt s o r).
Proof. unfold asame, akeys. apply update_attempt_ak. Qed.
Lemma asame_set_times s b j a t : asame s (set_times s b j a t).
Proof. unfold set_times. destruct (find_attempt s b j a); [apply asame_update_attempt | apply asame_refl]. Qed.
Lemma asame_bill s b j d rq : asame s (bill s b j d rq).
Proof. unfold bill. destruct rq. reflexivity. Qed.
Lemma asame_fold {A} (f : state -> A -> state) l s : (forall st x, asame st (f st x)) -> asame s (fold_left f l s).
Proof. apply fold_rel; [apply asame_refl | apply asame_trans]. Qed.
Lemma asame_add_one_resource b j a s rq : asame s (add_one_resource b j a s rq).
Proof.
  unfold add_one_resource. destruct rq as [r q]. destruct (existsb _ _); [apply asame_refl|]. cbv zeta.
  match goal with |- context [if ?c then _ else _] => destruct c end; [reflexivity|].
  eapply asame_trans; [|apply asame_bill]. reflexivity.
Qed.
Lemma asame_core s s' : attempts s' = attempts s -> asame s s'.
Proof. unfold asame, akeys. intros ->. reflexivity. Qed.

Ltac att :=
  lazymatch goal with
  | |- asame ?s ?s => apply asame_refl
  | |- asame ?s (update_job ?st _ _) => apply (asame_trans s st); [att | apply asame_update_job]
  | |- asame ?s (update_attempt ?st _ _) => apply (asame_trans s st); [att | apply asame_update_attempt]
  | |- asame ?s (set_times ?st _ _ _ _) => apply (asame_trans s st); [att | apply asame_set_times]
  | |- asame ?s (finish_groups ?st _ _) => apply (asame_trans s st); [att | reflexivity]
  | |- asame ?s (cancel_proc ?st _ _) => apply (asame_trans s st); [att | unfold cancel_proc; att]
  | |- asame ?s (create_group_rows ?st _ _ _ _ _) => apply (asame_trans s st); [att | reflexivity]
  | |- asame ?s (fold_left ?g ?l ?st) => apply (asame_trans s st); [att | apply asame_fold; intros ? ?; att]
  | |- asame ?s (set _ _ ?st) => apply (asame_trans s st); [att | reflexivity]
  | |- asame ?s (fst (_, _)) => cbn [fst]; att
  | |- asame ?s (let _ := _ in _) => cbv zeta; att
  | |- asame ?s (let '(_, _) := ?p in _) => destruct p; att
  | |- asame ?s (fst (let '(_, _) := ?p in _)) => destruct p; att
  | |- asame ?s (fst (match ?c with _ => _ end)) => destruct c eqn:?; att
  | |- asame ?s (match ?c with _ => _ end) => destruct c eqn:?; att
  | |- asame ?s ?st => idtac
  end.

Lemma add_attempt_akeys s b j a i c s1 d :
  add_attempt s b j a i c = Some (s1, d) -> akeys s1 = akeys s \/ akeys s1 = akeys s ++ [(b, j, a)].
Proof.
  unfold add_attempt. destruct (find_attempt s b j a).
  - intros H; injection H as <- _. left. reflexivity.
  - cbv zeta. match goal with |- context [find_inst ?st i] => destruct (find_inst st i) as [x|] end.
    + intros H; injection H as <- _. right. destruct (ilive (i_state x)); unfold akeys; scbn; rewrite map_app; reflexivity.
    + destruct (i =? -1); [|discriminate]. intros H; injection H as <- _. right. unfold akeys; scbn; rewrite map_app; reflexivity.
Qed.

Lemma release_children_asame s b j succ : asame s (release_children s b j succ).
Proof. unfold release_children. cbv zeta. att. Qed.

Lemma mc_finish_asame s3 x b j a ns total : asame s3 (mc_finish s3 x b j a ns total).
Proof.
  unfold mc_finish. cbv zeta.
  match goal with |- asame _ (release_children ?st _ _ _) => apply (asame_trans _ st); [|apply release_children_asame] end.
  att.
Qed.

Lemma mc_s3_asame s1 x b j a i st en rs : asame s1 (mc_s3 s1 x b j a i st en rs).
Proof. unfold mc_s3. cbv zeta. att. Qed.

(** the attempt keys after a transaction: those before, plus possibly the one named by a job message *)
Definition op_att (o : op) : option (Z * Z * Z) :=
  match o with
  | ScheduleJob b j a _ | MarkCreating b j a _ _ | MarkStarted b j a _ _ | MarkComplete b j a _ _ _ _ _ => Some (b, j, a)
  | _ => None
  end.

Lemma step_akeys s o :
  akeys (fst (step s o)) = akeys s \/
  exists k, op_att o = Some k /\ akeys (fst (step s o)) = akeys s ++ [k].
Proof.
  assert (L : asame s (fst (step s o)) -> akeys (fst (step s o)) = akeys s \/
              exists k, op_att o = Some k /\ akeys (fst (step s o)) = akeys s ++ [k]) by (intros H; left; exact H).
  destruct o; cbn [step op_att] in *.
  - apply L; clear L. unfold do_create_batch. att.
  - apply L; clear L. unfold do_create_update. att.
  - apply L; clear L.
    destruct (do_create_groups_shape s b u user gs) as [[E _] | (up & _ & F & _ & _)]; [rewrite E; apply asame_refl|].
    eapply (cog_fold_rel asame); [apply asame_refl | apply asame_trans | | exact F].
    intros st g st' C. apply create_one_group_some in C. cbv zeta in C. destruct C as (_ & _ & _ & ->). reflexivity.
  - apply L; clear L. destruct (do_create_jobs_shape s b u user js) as [E | (up & bt & _ & _ & _ & _ & E)]; rewrite E; [reflexivity|].
    unfold cj_insert. change (asame s (fold_left stage_job (map fst (cj_specs b u up js))
      (s <| jobs ::= fun l => l ++ map fst (cj_specs b u up js) |>
         <| parents ::= fun l => l ++ flat_map (fun jp => map (fun p => (b, j_id (fst jp), p)) (snd jp)) (cj_specs b u up js) |>))).
    apply (asame_trans _ (s <| jobs ::= fun l => l ++ map fst (cj_specs b u up js) |>
         <| parents ::= fun l => l ++ flat_map (fun jp => map (fun p => (b, j_id (fst jp), p)) (snd jp)) (cj_specs b u up js) |>)); [reflexivity|].
    apply asame_fold. intros st x. reflexivity.
  - apply L; clear L. unfold do_commit, do_commit_proc. att.
  - apply L; clear L. unfold do_cancel_group. att.
  - apply L; clear L. unfold do_delete_batch. att.
  - apply L; clear L. unfold do_new_instance. att.
  - apply L; clear L. unfold do_activate. att.
  - apply L; clear L. unfold do_deactivate. att.
  - apply L; clear L. unfold do_mark_deleted. att.
  - clear L. unfold do_schedule. destruct (find_job s b j) as [x|]; [|left; reflexivity].
    destruct (is_job_cancelled s x) as [c|]; [|left; reflexivity].
    destruct (add_attempt s b j att inst (j_cores x)) as [[s1 d0]|] eqn:Aa; [|left; reflexivity].
    assert (E : akeys (fst (if (jstate_eqb (j_state x) Ready || jstate_eqb (j_state x) Creating) && negb c && is_state (inst_state s1 inst) IActive
                then (update_job s1 x (x <| j_state := Running |> <| j_attempt := Some att |>), ok [0; if match find_inst s inst with Some y => i_pool y | None => false end then (if d0 =? 0 then j_cores x else 0) else d0])
                else (s1, ok [1; if match find_inst s inst with Some y => i_pool y | None => false end then (if d0 =? 0 then j_cores x else 0) else d0]))) = akeys s1).
    { destruct (_ && _); cbn [fst]; [apply asame_update_job | reflexivity]. }
    cbv zeta. rewrite E. destruct (add_attempt_akeys _ _ _ _ _ _ _ _ Aa) as [-> | ->]; [left; reflexivity | right; eauto].
  - apply L; clear L. unfold do_unschedule. att.
  - clear L. unfold do_mark_creating_or_started. destruct (find_job s b j) as [x|]; [|left; reflexivity].
    destruct (is_job_cancelled s x) as [c|]; [|left; reflexivity].
    destruct (add_attempt s b j att inst (j_cores x)) as [[s1 d0]|] eqn:Aa; [|left; reflexivity].
    cbv zeta.
    match goal with |- akeys (fst (if ?c then _ else _)) = _ \/ _ =>
      assert (E : forall cc : bool, akeys (fst (if cc then (update_job (set_times s1 b j att time) x (x <| j_state := Creating |> <| j_attempt := Some att |>), ok [0; d0])
                                            else (set_times s1 b j att time, ok [0; d0]))) = akeys s1) end.
    { intros cc. destruct cc; cbn [fst]; [eapply asame_trans; [apply asame_set_times | apply asame_update_job] | apply asame_set_times]. }
    rewrite E. destruct (add_attempt_akeys _ _ _ _ _ _ _ _ Aa) as [-> | ->]; [left; reflexivity | right; eauto].
  - clear L. unfold do_mark_creating_or_started. destruct (find_job s b j) as [x|]; [|left; reflexivity].
    destruct (is_job_cancelled s x) as [c|]; [|left; reflexivity].
    destruct (add_attempt s b j att inst (j_cores x)) as [[s1 d0]|] eqn:Aa; [|left; reflexivity].
    cbv zeta.
    match goal with |- akeys (fst (if ?c then _ else _)) = _ \/ _ =>
      assert (E : forall cc : bool, akeys (fst (if cc then (update_job (set_times s1 b j att time) x (x <| j_state := Running |> <| j_attempt := Some att |>), ok [0; d0])
                                            else (set_times s1 b j att time, ok [0; d0]))) = akeys s1) end.
    { intros cc. destruct cc; cbn [fst]; [eapply asame_trans; [apply asame_set_times | apply asame_update_job] | apply asame_set_times]. }
    rewrite E. destruct (add_attempt_akeys _ _ _ _ _ _ _ _ Aa) as [-> | ->]; [left; reflexivity | right; eauto].
  - clear L. rewrite do_mark_complete_unfold. destruct (find_job s b j) as [x|]; [|left; reflexivity].
    destruct (if att =? -1 then Some (s, 0) else add_attempt s b j att inst (j_cores x)) as [[s1 d0]|] eqn:Aa; [|left; reflexivity].
    cbv zeta.
    assert (E : akeys (if mc_stale x att then mc_s3 s1 x b j att inst start endt reason
                       else if mc_active x then mc_finish (mc_s3 s1 x b j att inst start endt reason) x b j att new_state
                                                  (match find_batch s b with Some bt => b_njobs bt | None => 0 end)
                            else mc_s3 s1 x b j att inst start endt reason) = akeys s1).
    { destruct (mc_stale x att); [apply mc_s3_asame|]. destruct (mc_active x); [|apply mc_s3_asame].
      eapply asame_trans; [apply mc_s3_asame | apply mc_finish_asame]. }
    rewrite E. destruct (att =? -1).
    + injection Aa as <- _. left. reflexivity.
    + destruct (add_attempt_akeys _ _ _ _ _ _ _ _ Aa) as [-> | ->]; [left; reflexivity | right; eauto].
  - apply L; clear L. unfold do_add_resources. repeat dmatch; cbn [fst]; try reflexivity.
    apply asame_fold. intros; apply asame_add_one_resource.
  - apply L; clear L. unfold do_billing_update. cbn [fst]. apply asame_fold. intros st [[b j] a].
    destruct (find_attempt st b j a); [apply asame_update_attempt | reflexivity].
  - apply L; clear L. reflexivity.
  - apply L; clear L. reflexivity.
Qed.

(* ------------------------------------------------------------------ AttInv *)

Definition AttInv (s : state) : Prop := forall a, In a (attempts s) -> job_committed s (a_batch a) (a_job a) = true.

Lemma AttInv_init : AttInv init.
Proof. intros a []. Qed.

Lemma AttInv_step s o : Kjobs s -> legal s o -> AttInv s -> AttInv (fst (step s o)).
Proof.
  intros K L A a' Ha'.
  assert (Hk : In (ak a') (akeys (fst (step s o)))) by (apply in_map; exact Ha').
  assert (Hold : In (ak a') (akeys s) -> job_committed (fst (step s o)) (a_batch a') (a_job a') = true).
  { intros H. apply in_map_iff in H. destruct H as (a & E & Ha). specialize (A a Ha).
    unfold ak in E. injection E as E1 E2 _. rewrite <- E1, <- E2. apply job_committed_step; assumption. }
  destruct (step_akeys s o) as [E | (k & Ek & E)]; rewrite E in Hk; [apply Hold; exact Hk|].
  apply in_app_iff in Hk. destruct Hk as [Hk | [Hk | []]]; [apply Hold; exact Hk|].
  subst k. unfold legal, legalb in L.
  destruct o; cbn [op_att] in Ek; try discriminate; unfold ak in Ek; injection Ek as E1 E2 _; rewrite <- E1, <- E2;
    apply job_committed_step; try exact K;
    repeat (apply andb_true_iff in L; destruct L as [L ?]); assumption.
Qed.

Lemma AttInv_reachable ops : good_history ops -> AttInv (run ops).
Proof.
  apply (good_invariant AttInv); [apply AttInv_init|].
  intros s o D A At Go. apply AttInv_step; [apply (d_jkeys _ D) | apply Go | exact At].
Qed.

(* ------------------------------------------------------------------ Sim *)

Section Sim.
  Variables (B U sj G0 : Z).

  Record Sim (s : state) : Prop := {
    sm_G0 : 0 < G0;
    sm_up : exists up, find_update s B U = Some up /\ u_committed up = false /\ u_start_job up = sj;
    sm_others : forall x, In x (updates s) -> u_batch x = B -> u_id x <> U -> u_committed x = true /\ u_id x < U;
    sm_jgroup : forall x, In x (jobs s) -> j_batch x = B -> j_update x <> U -> j_group x < G0 }.

  (** in phase 2 the jobs of B with id >= sj are exactly the jobs of update U *)
  Lemma sim_job_range s x : DInv s -> Sim s -> In x (jobs s) -> j_batch x = B -> (j_update x = U <-> sj <= j_id x).
  Proof.
    intros D S Hx Hb. destruct (sm_up _ S) as (up & Fu & Cu & Su).
    destruct (d_jrange _ D x Hx) as (up' & Fu' & R). rewrite Hb in Fu'.
    destruct (Z.eq_dec (j_update x) U) as [E | N].
    - rewrite E in Fu'. rewrite Fu in Fu'. injection Fu' as <-. split; [lia | auto].
    - split; [contradiction|]. intros Hge. exfalso.
      apply find_update_sound in Fu'. destruct Fu' as (Hin' & Hb' & Hi').
      apply find_update_sound in Fu. destruct Fu as (Hin & Hb0 & Hi).
      destruct (sm_others _ S up' Hin' Hb' ltac:(lia)) as (_ & Lt).
      pose proof (d_uorder _ D up' up Hin' Hin ltac:(congruence) ltac:(lia)). lia.
  Qed.

  Lemma sim_committed_job s b j : DInv s -> Sim s -> job_committed s b j = true ->
    jfree B sj b j /\ exists x, find_job s b j = Some x /\ gfree B G0 (j_batch x) (j_group x) /\ ufree B U (j_batch x) (j_update x).
  Proof.
    intros D S C. unfold job_committed in C. destruct (find_job s b j) as [x|] eqn:F; [|discriminate].
    destruct (find_job_static_key _ _ _ _ F) as (Hb & Hj).
    rewrite find_job_eq in F. pose proof (find_jkey_sound _ _ _ _ F) as (Hx & _).
    unfold jfree, gfree, ufree. destruct (b =? B) eqn:Eb; cbn [andb]; [|split; [reflexivity|]; exists x; rewrite Hb, Eb; auto].
    apply Z.eqb_eq in Eb. rewrite Eb in *. clear Eb.
    assert (Nu : j_update x <> U).
    { intros E. rewrite E in C. unfold committed in C. destruct (sm_up _ S) as (up & Fu & Cu & _). rewrite Fu, Cu in C. discriminate. }
    pose proof (sim_job_range s x D S Hx Hb) as R.
    pose proof (sm_jgroup _ S x Hx Hb Nu) as Lg.
    split; [lia|]. exists x. rewrite Hb, Z.eqb_refl. cbn [andb]. repeat split; lia.
  Qed.

  (** every attempt belongs to a job outside U whose group lies outside U *)
  Lemma sim_attempt s c : DInv s -> Sim s -> AttInv s -> In c (attempts s) ->
    jfree B sj (a_batch c) (a_job c) /\
    gfree B G0 (a_batch c) (match find_job s (a_batch c) (a_job c) with Some x => j_group x | None => 0 end).
  Proof.
    intros D S A Hc. destruct (sim_committed_job s _ _ D S (A c Hc)) as (Hj & x & F & Hg & _).
    split; [exact Hj|]. rewrite F. rewrite (proj1 (find_job_static_key _ _ _ _ F)) in Hg. exact Hg.
  Qed.

  Lemma sim_find_attempt s b j a c : DInv s -> Sim s -> AttInv s -> find_attempt s b j a = Some c ->
    a_batch c = b /\ a_job c = j /\ jfree B sj b j /\ gfree B G0 b (match find_job s b j with Some x => j_group x | None => 0 end).
  Proof.
    intros D S A F. unfold find_attempt in F. apply find_some in F. destruct F as [Hin K].
    apply andb_true_iff in K. destruct K as [K _]. apply andb_true_iff in K. destruct K as [K1 K2].
    apply Z.eqb_eq in K1, K2. destruct (sim_attempt s c D S A Hin) as (H1 & H2). rewrite K1, K2 in *. auto.
  Qed.

  Lemma sim_gfree_root b : 0 < G0 -> gfree B G0 b 0.
  Proof. intros H. unfold gfree. destruct (b =? B); cbn [andb]; [lia | reflexivity]. Qed.
End Sim.
