(** C03 — the T tie: the Gallina definition REGENERATED from the live `attempts_before_update` trigger text
    (HailG.C03.ClampGen.gen_clamp, SQL three-valued logic over option Z) equals the clamp of the database model
    (Model.clamp4) on ALL rows.  The proof is a plain case analysis (NULL / not NULL for the eight columns, then the
    outcomes of the integer comparisons), so it survives a semantics-preserving rewrite of the trigger and fails on a
    semantic edit. *)
From HailV Require Import Common.Prelude BatchDB.Model BatchDB.Sql3.
From HailG Require C03.ClampGen.
Open Scope Z_scope.

Ltac split_cmp1 :=
  match goal with
  | |- context [?a <? ?b] => destruct (Z.ltb_spec a b)
  | |- context [?a <=? ?b] => destruct (Z.leb_spec a b)
  | |- context [?a >? ?b] => destruct (Z.gtb_spec a b)
  | |- context [?a >=? ?b] => destruct (Z.geb_spec a b)
  | |- context [?a =? ?b] => destruct (Z.eqb_spec a b)
  end.

Lemma gen_clamp_eq : forall o n, C03.ClampGen.gen_clamp o n = clamp4 o n.
Proof.
  intros [[[os orl] oe] ors] [[[ns nrl] ne] nrs].
  destruct os as [os|], orl as [orl|], oe as [oe|], ors as [ors|],
           ns as [ns|], nrl as [nrl|], ne as [ne|], nrs as [nrs|];
    unfold C03.ClampGen.gen_clamp, C03.ClampGen.str_activation_timeout, clamp4, olt, oeqb, REASON_ACTIVATION_TIMEOUT,
           taken, and3, or3, not3, cmp3, isnull, zneqb, option_map;
    repeat (cbn [negb]; split_cmp1); cbn [negb];
    try reflexivity; try (exfalso; lia); repeat f_equal; lia.
Qed.
