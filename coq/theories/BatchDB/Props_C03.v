(** C03 — billed attempt time is monotone and bounded by the attempt.  Property theorems only.

    [reach rs] is the attempt row (start, rollup, end, reason) after applying the request sequence [rs] — ANY finite
    list of creating/started reports, complete reports, unschedule/deactivation updates and billing heartbeats with any
    times and reasons, in any order and multiplicity — to a freshly inserted attempt (all four columns NULL), every
    request passing through the BEFORE UPDATE clamp.  [billed4] is max(rollup - start, 0), 0 if either is NULL.
    The clamp is [Model.clamp4] = the trigger attempts_before_update as redefined by migration
    124-attempts-before-update-timeout-after-reason.sql; C03_trigger_is_model ties it to the trigger text of the current
    source.  [request_is_timeout r]: the request carries the reason activation_timeout; [marks_timeout o r]: it does and
    the row carries that reason after it (a timeout request that arrives after the attempt has ended, with an end that is
    not earlier, is ignored like every late end). *)
From HailV Require Import Common.Prelude BatchDB.Model BatchDB.Clamp BatchDB.ClampSeq BatchDB.ClampTie.
From HailG Require C03.ClampGen.
Open Scope Z_scope.

(** T tie: the definition regenerated from the live attempts_before_update trigger IS the model's clamp. *)
Theorem C03_trigger_is_model : forall o n, C03.ClampGen.gen_clamp o n = clamp4 o n.
Proof. exact gen_clamp_eq. Qed.
Print Assumptions C03_trigger_is_model.

(** Billed time is never negative. *)
Theorem C03_nonneg : forall rs, 0 <= billed4 (reach rs).
Proof. exact seq_nonneg. Qed.
Print Assumptions C03_nonneg.

(** Once the attempt has ended, billed time is at most end - start (0 when there is no start or the end precedes it). *)
Theorem C03_bounded_after_end : forall rs e, t_end (reach rs) = Some e ->
  billed4 (reach rs) <= match t_start (reach rs) with Some s => Z.max (e - s) 0 | None => 0 end.
Proof. exact seq_bounded. Qed.
Print Assumptions C03_bounded_after_end.

(** The row invariant behind it: the rollup time never lies after the end, end time and end reason are set together, and
    an attempt whose reason is activation_timeout has no start time. *)
Theorem C03_row_invariant : forall rs,
  (forall r e, t_rollup (reach rs) = Some r -> t_end (reach rs) = Some e -> r <= e) /\
  (t_end (reach rs) = None <-> t_reason (reach rs) = None) /\
  (t_reason (reach rs) = Some REASON_ACTIVATION_TIMEOUT -> t_start (reach rs) = None).
Proof. exact reach_inv. Qed.
Print Assumptions C03_row_invariant.

(** An activation timeout bills nothing: an attempt that carries that reason — after ANY sequence of reports, in
    particular whatever is reported after the timeout — has no start and no billed time ... *)
Theorem C03_timeout_bills_nothing : forall rs, t_reason (reach rs) = Some REASON_ACTIVATION_TIMEOUT ->
  t_start (reach rs) = None /\ billed4 (reach rs) = 0.
Proof. exact seq_timeout_bills_nothing. Qed.
Print Assumptions C03_timeout_bills_nothing.

(** ... so a report that marks the timeout bills nothing, and a timeout request on an attempt that has not ended always
    marks it. *)
Theorem C03_marks_timeout_bills_nothing : forall rs r, marks_timeout (reach rs) r -> billed4 (clamp_apply (reach rs) r) = 0.
Proof. exact seq_marks_timeout_bills_nothing. Qed.
Print Assumptions C03_marks_timeout_bills_nothing.

Theorem C03_timeout_request_on_open_attempt : forall rs r,
  t_reason (reach rs) = None -> request_is_timeout r = true ->
  t_reason (clamp_apply (reach rs) r) = Some REASON_ACTIVATION_TIMEOUT /\ billed4 (clamp_apply (reach rs) r) = 0.
Proof. exact seq_timeout_request_on_open_attempt. Qed.
Print Assumptions C03_timeout_request_on_open_attempt.

(** FULL STATEMENT: for every sequence [rs] and every report [r], billed time does not decrease across [r] unless [r] marks
    an activation timeout or leaves the attempt with an end before the time already billed (the end is corrected to an
    earlier time). *)
Theorem C03_monotone : forall rs r,
  billed4 (clamp_apply (reach rs) r) < billed4 (reach rs) ->
  marks_timeout (reach rs) r \/
  (exists e ro, t_end (clamp_apply (reach rs) r) = Some e /\ t_rollup (reach rs) = Some ro /\ e < ro).
Proof. exact seq_monotone. Qed.
Print Assumptions C03_monotone.

(** FULL STATEMENT: the start time only ever moves earlier; only a report that marks an activation timeout erases it. *)
Theorem C03_start_only_earlier : forall rs r s,
  t_start (reach rs) = Some s ->
  match t_start (clamp_apply (reach rs) r) with
  | Some s' => s' <= s
  | None => marks_timeout (reach rs) r
  end.
Proof. exact seq_start_only_earlier. Qed.
Print Assumptions C03_start_only_earlier.

(** ... and over any number of further reports none of which carries the timeout reason the start stays set and not later. *)
Theorem C03_start_only_earlier_ever : forall rs1 rs2 s, t_start (reach rs1) = Some s ->
  forallb (fun r => negb (request_is_timeout r)) rs2 = true ->
  exists s', t_start (reach (rs1 ++ rs2)) = Some s' /\ s' <= s.
Proof. exact seq_start_only_earlier_ever. Qed.
Print Assumptions C03_start_only_earlier_ever.

(** The reason activation_timeout only comes from a request that carries it. *)
Theorem C03_guard_without_timeouts : forall rs,
  forallb (fun r => negb (request_is_timeout r)) rs = true -> t_reason (reach rs) <> Some REASON_ACTIVATION_TIMEOUT.
Proof. exact seq_guard_without_timeouts. Qed.
Print Assumptions C03_guard_without_timeouts.

(** Once an attempt has an end reason, a later report can only replace its end time with an earlier one, and a reason stays. *)
Theorem C03_end_only_earlier : forall rs r, t_reason (reach rs) <> None ->
  exists e e', t_end (reach rs) = Some e /\ t_end (clamp_apply (reach rs) r) = Some e' /\ e' <= e
               /\ t_reason (clamp_apply (reach rs) r) <> None.
Proof. exact seq_end_only_earlier. Qed.
Print Assumptions C03_end_only_earlier.

(** ... more precisely: end time and reason are exactly kept unless the end is replaced by a strictly earlier one. *)
Theorem C03_end_kept_or_earlier : forall rs r e, t_end (reach rs) = Some e ->
  (t_end (clamp_apply (reach rs) r) = Some e /\ t_reason (clamp_apply (reach rs) r) = t_reason (reach rs)) \/
  (exists e', t_end (clamp_apply (reach rs) r) = Some e' /\ e' < e).
Proof. exact seq_end_kept_or_earlier. Qed.
Print Assumptions C03_end_kept_or_earlier.

(** ... and so does any number of later reports. *)
Theorem C03_end_only_earlier_ever : forall rs1 rs2 e, t_end (reach rs1) = Some e ->
  exists e', t_end (reach (rs1 ++ rs2)) = Some e' /\ e' <= e.
Proof. exact seq_end_only_earlier_ever. Qed.
Print Assumptions C03_end_only_earlier_ever.

(** REGRESSION WITNESS: with the block order the trigger had before migration 124 ([clamp4_unfixed], the definition of
    067-add-real-time-billing.sql: timeout block before the end/reason block) there is a sequence of the four request
    shapes after which a timed-out attempt is billed, and a plain heartbeat then decreases the billed time and erases the
    start. *)
Theorem C03_unfixed_trigger_refuted :
  exists rs r s,
    t_reason (reach_unfixed rs) = Some REASON_ACTIVATION_TIMEOUT /\ 0 < billed4 (reach_unfixed rs) /\
    billed4 (clamp_apply_unfixed (reach_unfixed rs) r) < billed4 (reach_unfixed rs) /\ request_is_timeout r = false /\
    ~ (exists e ro, t_end (clamp_apply_unfixed (reach_unfixed rs) r) = Some e /\ t_rollup (reach_unfixed rs) = Some ro /\ e < ro) /\
    t_start (reach_unfixed rs) = Some s /\ t_start (clamp_apply_unfixed (reach_unfixed rs) r) = None.
Proof. exact seq_unfixed_trigger_refuted. Qed.
Print Assumptions C03_unfixed_trigger_refuted.
