(** C03 — billed attempt time is monotone and bounded by the attempt.  Property theorems only.

    [reach rs] is the attempt row (start, rollup, end, reason) after applying the request sequence [rs] — ANY finite
    list of creating/started reports, complete reports, unschedule/deactivation updates and billing heartbeats with any
    times and reasons, in any order and multiplicity — to a freshly inserted attempt (all four columns NULL), every
    request passing through the BEFORE UPDATE clamp.  [billed4] is max(rollup - start, 0), 0 if either is NULL.
    The clamp is [Model.clamp4]; C03_trigger_is_model ties it to the trigger text of the current source. *)
From HailV Require Import Common.Prelude BatchDB.Model BatchDB.Clamp BatchDB.ClampSeq BatchDB.ClampTie.
From HailG Require C03.ClampGen.
Open Scope Z_scope.

(** T tie: the definition regenerated from the live attempts_before_update trigger IS the model's clamp. *)
Theorem C03_trigger_is_model : forall o n, C03.ClampGen.gen_clamp o n = clamp4 o n.
Proof. exact gen_clamp_eq. Qed.
Print Assumptions C03_trigger_is_model.

(** Billed time is never negative. *)
Theorem C03_nonneg : forall rs, 0 <= billed4 (reach rs).
Proof. exact seq_nonneg. Qed.
Print Assumptions C03_nonneg.

(** Once the attempt has ended, billed time is at most end - start (0 when there is no start or the end precedes it). *)
Theorem C03_bounded_after_end : forall rs e, t_end (reach rs) = Some e ->
  billed4 (reach rs) <= match t_start (reach rs) with Some s => Z.max (e - s) 0 | None => 0 end.
Proof. exact seq_bounded. Qed.
Print Assumptions C03_bounded_after_end.

(** The row invariant behind it: the rollup time never lies after the end, and end time and end reason are set together. *)
Theorem C03_row_invariant : forall rs,
  (forall r e, t_rollup (reach rs) = Some r -> t_end (reach rs) = Some e -> r <= e) /\
  (t_end (reach rs) = None <-> t_reason (reach rs) = None).
Proof. exact reach_inv. Qed.
Print Assumptions C03_row_invariant.

(** A report that marks an activation timeout bills nothing. *)
Theorem C03_timeout_bills_nothing : forall rs r, request_is_timeout r = true -> billed4 (clamp_apply (reach rs) r) = 0.
Proof. intros rs r; apply timeout_bills_nothing. Qed.
Print Assumptions C03_timeout_bills_nothing.

(** FULL STATEMENT (refuted below): for every [rs] and [r], billed time does not decrease across the report [r] unless [r]
    marks an activation timeout or leaves the attempt with an end before the time already billed.
    PARTIAL: proved for attempts whose stored reason is not activation_timeout (in particular for every sequence in which
    no report marks an activation timeout, C03_guard_without_timeouts). *)
Theorem C03_monotone_partial : forall rs r,
  t_reason (reach rs) <> Some REASON_ACTIVATION_TIMEOUT ->
  billed4 (clamp_apply (reach rs) r) < billed4 (reach rs) ->
  request_is_timeout r = true \/
  (exists e ro, t_end (clamp_apply (reach rs) r) = Some e /\ t_rollup (reach rs) = Some ro /\ e < ro).
Proof. exact seq_monotone. Qed.
Print Assumptions C03_monotone_partial.

Theorem C03_monotone_refuted :
  exists rs r, billed4 (clamp_apply (reach rs) r) < billed4 (reach rs) /\ request_is_timeout r = false /\
    ~ (exists e ro, t_end (clamp_apply (reach rs) r) = Some e /\ t_rollup (reach rs) = Some ro /\ e < ro).
Proof. exact seq_monotone_refuted. Qed.
Print Assumptions C03_monotone_refuted.

(** FULL STATEMENT (refuted below): the start time only ever moves earlier; only a report that marks an activation timeout
    erases it.  PARTIAL: same guard. *)
Theorem C03_start_only_earlier_partial : forall rs r s,
  t_reason (reach rs) <> Some REASON_ACTIVATION_TIMEOUT -> t_start (reach rs) = Some s ->
  match t_start (clamp_apply (reach rs) r) with
  | Some s' => s' <= s
  | None => request_is_timeout r = true
  end.
Proof. exact seq_start_only_earlier. Qed.
Print Assumptions C03_start_only_earlier_partial.

Theorem C03_start_only_earlier_refuted :
  exists rs r s, t_start (reach rs) = Some s /\ request_is_timeout r = false /\ t_start (clamp_apply (reach rs) r) = None.
Proof. exact seq_start_only_earlier_refuted. Qed.
Print Assumptions C03_start_only_earlier_refuted.

(** The guard of the two partial theorems holds after every sequence in which no report marks an activation timeout. *)
Theorem C03_guard_without_timeouts : forall rs,
  forallb (fun r => negb (request_is_timeout r)) rs = true -> t_reason (reach rs) <> Some REASON_ACTIVATION_TIMEOUT.
Proof. exact seq_guard_without_timeouts. Qed.
Print Assumptions C03_guard_without_timeouts.

(** Once an attempt has an end reason, a later report can only replace its end time with an earlier one, and a reason stays. *)
Theorem C03_end_only_earlier : forall rs r, t_reason (reach rs) <> None ->
  exists e e', t_end (reach rs) = Some e /\ t_end (clamp_apply (reach rs) r) = Some e' /\ e' <= e
               /\ t_reason (clamp_apply (reach rs) r) <> None.
Proof. exact seq_end_only_earlier. Qed.
Print Assumptions C03_end_only_earlier.

(** ... and so does any number of later reports. *)
Theorem C03_end_only_earlier_ever : forall rs1 rs2 e, t_end (reach rs1) = Some e ->
  exists e', t_end (reach (rs1 ++ rs2)) = Some e' /\ e' <= e.
Proof. exact seq_end_only_earlier_ever. Qed.
Print Assumptions C03_end_only_earlier_ever.
