(** [DInv] is preserved by instance deactivation. *)
From HailV Require Import Common.Prelude BatchDB.Model BatchDB.Tables BatchDB.CMap BatchDB.JobsWF BatchDB.StepCore
  BatchDB.JobFold BatchDB.Legal BatchDB.DepsDef BatchDB.DepsEasy BatchDB.DepsDriver.
From RecordUpdate Require Import RecordSet.
Import RecordSetNotations.
Open Scope Z_scope.

Section Deactivate.
  Variables (s1 : state) (name : Z).

  (* the jobs that deactivation sends back to Ready: current attempt on the instance, Running or Creating *)
  Definition deact_P (j : job) : bool :=
    match j_attempt j with
    | Some a => match find_attempt s1 (j_batch j) (j_id j) a with
                | Some at_ => (a_inst at_ =? name) && (jstate_eqb (j_state j) Running || jstate_eqb (j_state j) Creating)
                | None => false end
    | None => false end.
  Definition deact_F (j : job) : job := j <| j_state := Ready |> <| j_attempt := None |>.

  Definition deact_step (st : state) (j : job) : state :=
    match j_attempt j with
    | Some a =>
        match find_attempt st (j_batch j) (j_id j) a with
        | Some at_ =>
            if (a_inst at_ =? name) && (jstate_eqb (j_state j) Running || jstate_eqb (j_state j) Creating)
            then update_job st j (j <| j_state := Ready |> <| j_attempt := None |>) else st
        | None => st end
    | None => st end.

  Lemma deact_step_spec st j : attempts st = attempts s1 ->
    deact_step st j = if deact_P j then update_job st j (deact_F j) else st.
  Proof.
    intros E. unfold deact_step, deact_P, deact_F. destruct (j_attempt j) as [a|]; [|reflexivity].
    unfold find_attempt. rewrite E. destruct (find _ (attempts s1)); [|reflexivity].
    destruct (_ && _); reflexivity.
  Qed.

  Lemma deact_F_static j : static j (deact_F j).
  Proof. unfold deact_F. destruct j; repeat split. Qed.
End Deactivate.

Lemma DInv_deactivate s name reason time : DInv s -> DInv (fst (do_deactivate s name reason time)).
Proof.
  intros D. unfold do_deactivate. destruct (find_inst s name) as [x|]; [|exact D].
  destruct (ilive (i_state x)); [|exact D]. cbn [fst].
  match goal with |- context [fold_left ?g (attempts s) s] => set (s1 := fold_left g (attempts s) s) end.
  assert (C1 : core_eq s s1).
  { subst s1. apply core_eq_fold. intros st a. destruct (a_inst a =? name); [|apply core_eq_refl].
    destruct (find_attempt st _ _ _); [apply core_eq_update_attempt | apply core_eq_refl]. }
  change (fold_left _ (jobs s1) s1) with (fold_left (deact_step name) (jobs s1) s1).
  pose proof (fold_update_job_jobs (deact_P s1 name) deact_F deact_F_static (deact_step name)
                (fun st => attempts st = attempts s1)
                (fun st j H => deact_step_spec s1 name st j H)
                (fun st o n H => eq_trans (update_job_attempts st o n) H)
                (jobs s1) [] s1 eq_refl) as Hf.
  cbn [app map] in Hf. specialize (Hf (d_jkeys _ (DInv_core _ _ C1 D)) eq_refl). cbv zeta in Hf.
  set (s2 := fold_left (deact_step name) (jobs s1) s1) in *.
  destruct Hf as (Hj & _ & F1 & F2 & F3 & F4 & F5 & F6 & F7 & _ & _ & F10).
  destruct C1 as (E1&E2&E3&E4&E5&E6&E7&E8&E9).
  assert (D2 : DInv s2).
  { apply (soft_DInv s s2 (gmap (deact_P s1 name) deact_F)).
    - rewrite Hj, E6. reflexivity.
    - repeat split; congruence.
    - intros y Hy. unfold gmap. destruct (deact_P s1 name y) eqn:P; [|apply soft_refl].
      unfold deact_P in P. destruct (j_attempt y); [|discriminate]. destruct (find_attempt s1 _ _ _); [|discriminate].
      apply andb_true_iff in P. destruct P as [_ P]. unfold deact_F.
      apply soft_to_active; try reflexivity; try discriminate.
      + apply orb_true_iff in P. destruct P as [E|E]; apply jstate_eqb_eq in E; rewrite E; reflexivity.
      + apply orb_true_iff in P. destruct P as [E|E]; apply jstate_eqb_eq in E; rewrite E; discriminate.
    - intros y Hy Cy. unfold gmap. destruct (deact_P s1 name y) eqn:P; [|reflexivity].
      exfalso. pose proof (d_jobs _ D y Hy) as Ok. unfold job_ok in Ok. rewrite Cy in Ok. destruct Ok as [Na _].
      unfold deact_P in P. rewrite Na in P. discriminate.
    - exact D. }
  apply (DInv_core s2 _ (core_eq_insts s2 _) D2).
Qed.
