(** C39, safety leftover: a job that is Pending or Ready names NO current attempt.

    [NInv s]: every job row in state Pending or Ready has [j_attempt = None].  Inductive over good steps from [DInv] states:
    a job gets an attempt id only together with state Creating / Running (schedule, creating, started) or a terminal state
    (completion); every way back to Ready (unschedule, instance deactivation) clears the attempt id; released children were
    Pending and keep their (absent) attempt; a commit recomputes only rows of its own, still uncommitted update, which never had
    an attempt ([DInv]); new rows are inserted without one.

    This does not contradict [Attempts.replayed_schedule_reinstalls_ended_attempt]: there the job is Running and names an attempt
    that has already ENDED — the current attempt of a Creating / Running job need not be open, but a waiting job has none. *)
From HailV Require Import Common.Prelude BatchDB.Model BatchDB.Tables BatchDB.CMap BatchDB.JobsWF BatchDB.StepCore
  BatchDB.JobFold BatchDB.KidsFold BatchDB.Legal BatchDB.DepsDef BatchDB.DepsEasy BatchDB.DepsMap BatchDB.DepsDriver
  BatchDB.DepsDeactivate BatchDB.DepsMC1 BatchDB.DepsMC2 BatchDB.DepsMC3 BatchDB.DepsMC4
  BatchDB.DepsCommit1 BatchDB.DepsCommit2 BatchDB.DepsCommit3 BatchDB.DepsCommit4
  BatchDB.DepsStruct BatchDB.DepsCreateJobs BatchDB.DepsAux BatchDB.Deps BatchDB.DepsCorollaries BatchDB.JobChange.
From HailV Require BatchDB.StepFrame BatchDB.Cancel BatchDB.Attempts.
From RecordUpdate Require Import RecordSet.
Import RecordSetNotations.
Open Scope Z_scope.

Definition waiting (x : job) : Prop := j_state x = Pending \/ j_state x = Ready.
Definition idle_ok (x : job) : Prop := waiting x -> j_attempt x = None.
Definition NInv (s : state) : Prop := forall x, In x (jobs s) -> idle_ok x.

Lemma NInv_init : NInv init.
Proof. intros x []. Qed.

Lemma NInv_same s s' : jobs s' = jobs s -> NInv s -> NInv s'.
Proof. intros E N x Hx. apply N. rewrite <- E. exact Hx. Qed.

Lemma NInv_map s s' h : jobs s' = map h (jobs s) -> (forall y, In y (jobs s) -> idle_ok y -> idle_ok (h y)) -> NInv s -> NInv s'.
Proof.
  intros E H N x Hx. rewrite E in Hx. apply in_map_iff in Hx. destruct Hx as (y & <- & Hy). apply H; [exact Hy | apply N; exact Hy].
Qed.

Lemma NInv_update_job s s1 o n : jobs s1 = jobs s -> idle_ok n -> NInv s -> NInv (update_job s1 o n).
Proof.
  intros E Hn N x Hx. rewrite update_job_jobs, E in Hx. destruct (in_replace_job _ _ _ Hx) as [->|Hy]; [exact Hn | apply N; exact Hy].
Qed.

Lemma idle_ok_active x st a : st <> Pending -> st <> Ready -> idle_ok (x <| j_state := st |> <| j_attempt := a |>).
Proof. intros H1 H2 [W|W]; destruct x; cbn in W; congruence. Qed.

Lemma idle_ok_cleared x st : idle_ok (x <| j_state := st |> <| j_attempt := None |>).
Proof. intros _. destruct x; reflexivity. Qed.

Lemma NInv_schedule s b j a i : NInv s -> NInv (fst (do_schedule s b j a i)).
Proof.
  intros N. pose proof (StepFrame.do_schedule_shape s b j a i) as H. cbv zeta in H.
  destruct H as [C | (x & s1 & _ & C & _ & _ & E)].
  - apply (NInv_same s); [apply (StepFrame.sc_jobs _ _ C) | exact N].
  - rewrite E. apply (NInv_update_job s); [apply (StepFrame.sc_jobs _ _ C) | apply idle_ok_active; discriminate | exact N].
Qed.

Lemma NInv_mcs c s b j a i t : NInv s -> NInv (fst (do_mark_creating_or_started c s b j a i t)).
Proof.
  intros N. pose proof (StepFrame.do_mcs_shape c s b j a i t) as H. cbv zeta in H.
  destruct H as [C | (x & s1 & _ & C & _ & _ & E)].
  - apply (NInv_same s); [apply (StepFrame.sc_jobs _ _ C) | exact N].
  - rewrite E. apply (NInv_update_job s); [apply (StepFrame.sc_jobs _ _ C) | apply idle_ok_active; destruct c; discriminate | exact N].
Qed.

Lemma NInv_unschedule s b j a i t r : NInv s -> NInv (fst (do_unschedule s b j a i t r)).
Proof.
  intros N. unfold do_unschedule. destruct (find_job s b j) as [x|] eqn:F.
  2:{ match goal with |- context [if ?c then _ else _] => destruct c end; exact N. }
  set (s1 := match find_attempt s b j a with Some c => update_attempt s c _ | None => s end).
  assert (C1 : core_eq s s1).
  { subst s1. destruct (find_attempt s b j a); [apply core_eq_update_attempt | apply core_eq_refl]. }
  match goal with |- context [if ?g then match find_inst s1 i with _ => _ end else s1] =>
    set (s2 := if g then match find_inst s1 i with Some y => s1 <| insts ::= replace_inst (y <| i_free := i_free y + j_cores x |>) |> | None => s1 end else s1) end.
  assert (C2 : core_eq s s2).
  { subst s2. match goal with |- context [if ?g then _ else _] => destruct g end; [|exact C1].
    destruct (find_inst s1 i); [|exact C1]. eapply core_eq_trans; [exact C1 | apply core_eq_insts]. }
  destruct C2 as (_&_&_&_&_&E6&_).
  match goal with |- context [if ?c then (update_job _ _ _, _) else _] => destruct c end; cbn [fst].
  - apply (NInv_update_job s); [exact E6 | apply idle_ok_cleared | exact N].
  - apply (NInv_same s); [exact E6 | exact N].
Qed.

Lemma NInv_deactivate s name reason time : DInv s -> NInv s -> NInv (fst (do_deactivate s name reason time)).
Proof.
  intros D N. destruct (deactivate_jobs s name reason time D) as [E | (s1 & E)].
  - apply (NInv_same s); assumption.
  - apply (NInv_map s _ _ E); [|exact N]. intros y _ Iy. unfold gmap. destruct (deact_P s1 name y); [|exact Iy].
    unfold deact_F. apply idle_ok_cleared.
Qed.

Lemma NInv_mark_complete s b j a i ns st en r :
  DInv s -> legal s (MarkComplete b j a i ns st en r) -> NInv s -> NInv (fst (do_mark_complete s b j a i ns st en r)).
Proof.
  intros D L N. unfold legal, legalb in L.
  apply andb_true_iff in L. destruct L as [L _]. apply andb_true_iff in L. destruct L as [L _].
  apply andb_true_iff in L. destruct L as [Lc Lt].
  pose proof (StepFrame.do_mark_complete_shape s b j a i ns st en r) as H. cbv zeta in H.
  destruct H as [C | (x & s3 & Fx & C & Hxs & E)].
  - apply (NInv_same s); [apply (StepFrame.sc_jobs _ _ C) | exact N].
  - rewrite E. pose proof (legal_job_committed _ _ _ _ Lc Fx) as Cx.
    apply (NInv_map s _ _ (mc_finish_jobs_map s s3 b j a x ns _ D C Fx)); [|exact N].
    intros y Hy Iy. set (att := if a =? -1 then None else Some a).
    destruct (jkey b j y) eqn:K.
    + apply (mc_key_x s b j x D Fx y Hy) in K. subst y. rewrite (mc_h_x s b j x ns att D Fx Cx Hxs).
      apply idle_ok_active; intros ->; discriminate.
    + assert (Hne : y <> x).
      { intros ->. rewrite (proj2 (mc_key_x s b j x D Fx x (proj1 (mc_x_in s b j x Fx))) eq_refl) in K. discriminate. }
      rewrite (mc_h_other s b j x ns att D Fx y Hy Hne). unfold kid_map.
      destruct ((j_batch y =? b) && existsb (Z.eqb (j_id y)) (kids_of s b j) && committed s b (j_update y)) eqn:Ek; [|exact Iy].
      apply andb_true_iff in Ek. destruct Ek as [Ek Ec]. apply andb_true_iff in Ek. destruct Ek as [Eb Ekid].
      apply existsb_eqb_in in Ekid. assert (Eb' : j_batch y = b) by lia.
      destruct (mc_child_pending s b j x ns D Fx Hxs y Hy Eb' Ekid Ec) as (P & _ & _).
      intros _. unfold child_G. specialize (Iy (or_introl P)). destruct y; cbn in *. exact Iy.
Qed.

Lemma NInv_commit s b u user : DInv s -> NInv s -> NInv (fst (do_commit s b u user)).
Proof.
  intros D N. unfold do_commit. destruct (find_batch s b) as [bt|]; [|exact N].
  destruct (find_update s b u); [|exact N].
  destruct (_ || _); [exact N|]. destruct (marked s b 0); [exact N|].
  destruct (commit_proc_jobs s b u D) as [E | (up & Fup & Hunc & Hu & E)].
  - apply (NInv_same s); assumption.
  - apply (NInv_map s _ _ E); [|exact N]. intros y Hy Iy. unfold gmap. destruct (cm_T b up y) eqn:T; [|exact Iy].
    rewrite (cmo_T s b u up D Fup y Hy) in T.
    pose proof (cmo_in_unc s b u up Fup Hunc y Hy T) as Cy.
    pose proof (d_jobs _ D y Hy) as Ok. unfold job_ok in Ok. rewrite Cy in Ok. destruct Ok as (Na & _).
    destruct (recompute_job_fields s y) as (_ & _ & _ & Fa). intros _. rewrite Fa. exact Na.
Qed.

Lemma NInv_create_jobs s b u user jss : NInv s -> NInv (fst (do_create_jobs s b u user jss)).
Proof.
  intros N. destruct (Attempts.do_create_jobs_shape s b u user jss) as [E | (news & E & Hn)].
  - apply (NInv_same s); assumption.
  - intros x Hx. rewrite E in Hx. apply in_app_iff in Hx. destruct Hx as [Hx|Hx]; [apply N; exact Hx|].
    intros _. apply (Hn x Hx).
Qed.

Theorem NInv_step s o : DInv s -> good s o -> NInv s -> NInv (fst (step s o)).
Proof.
  intros D [L _] N.
  pose proof (StepFrame.step_jobs_same s o) as SJ.
  destruct o; cbn [step]; try (apply (NInv_same s); [exact SJ | exact N]); clear SJ.
  - apply NInv_create_jobs; exact N.
  - apply NInv_commit; assumption.
  - apply NInv_deactivate; assumption.
  - apply NInv_schedule; exact N.
  - apply NInv_unschedule; exact N.
  - apply NInv_mcs; exact N.
  - apply NInv_mcs; exact N.
  - apply NInv_mark_complete; assumption.
Qed.

Theorem NInv_reachable ops : good_history ops -> NInv (run ops).
Proof.
  apply (good_invariant NInv NInv_init). intros s o D _ N G. apply NInv_step; assumption.
Qed.

(** A job that is Pending or Ready has no current attempt, in every state reachable by a good history. *)
Theorem waiting_job_has_no_attempt ops : good_history ops ->
  forall x, In x (jobs (run ops)) -> j_state x = Pending \/ j_state x = Ready -> j_attempt x = None.
Proof. intros G x Hx W. exact (NInv_reachable ops G x Hx W). Qed.

(** non-vacuity: job 2 of [Deps.demo_history] before the canceller completes it is Ready with the cancelled mark and no
    attempt; job 1 after its schedule is Running with attempt 1 *)
Example waiting_example :
  option_map (fun x => (j_state x, j_attempt x)) (find_job (run (firstn 13 demo_history)) 1 2) = Some (Ready, None) /\
  option_map (fun x => (j_state x, j_attempt x)) (find_job (run (firstn 8 demo_history)) 1 1) = Some (Running, Some 1).
Proof. vm_compute. split; reflexivity. Qed.
