(** [TInv] is preserved by commit_batch_update: the jobs of the update become committed (and are not finished),
    every group gains the staged number of jobs of the update in its subtree and is reopened when that number is
    positive, the batch follows its root group. *)
From HailV Require Import Common.Prelude BatchDB.Model BatchDB.Tables BatchDB.CMap BatchDB.JobsWF BatchDB.StepCore
  BatchDB.JobFold BatchDB.KidsFold BatchDB.Legal BatchDB.DepsDef BatchDB.DepsEasy BatchDB.DepsMap BatchDB.DepsMC1 BatchDB.DepsMC4
  BatchDB.DepsCommit1 BatchDB.DepsCommit2 BatchDB.DepsCommit3 BatchDB.DepsCommit4 BatchDB.DepsStruct BatchDB.Tally.
From RecordUpdate Require Import RecordSet.
Import RecordSetNotations.
Open Scope Z_scope.

(* ------------------------------------------------------------------ the shape of the state after a commit *)

(** what commit_batch_update does to a group row / a batch row *)
Definition cm_G (s : state) (b u : Z) (g : group) : group :=
  if g_batch g =? b then
    let rows := filter (fun kv => key_eqb (firstn 3 (fst kv)) [b; u; g_id g]) (staging s) in
    if is_nil rows then g else
    let n := nth 0 (csum (fun k => key_eqb (firstn 3 k) [b; u; g_id g]) (staging s)) 0 in
    g <| g_running := if 0 <? n then true else g_running g |> <| g_njobs := g_njobs g + n |>
  else g.

Definition cm_B (b n : Z) (x : batch) : batch :=
  if b_id x =? b then x <| b_running := true |> <| b_njobs := b_njobs x + n |> else x.

(** everything [TInv] looks at, except the jobs table *)
Definition simg (s a : state) : Prop :=
  updates a = updates s /\ staging a = staging s /\ ancestors a = ancestors s /\ groups a = groups s /\
  batches a = batches s /\ parents a = parents s.

Lemma simg_refl s : simg s s.
Proof. repeat split. Qed.
Lemma simg_trans s a c : simg s a -> simg a c -> simg s c.
Proof. unfold simg. intuition congruence. Qed.

Lemma commit_user_res_fold_g (f : state -> (list Z * list Z) -> state) l s0 :
  (forall st kv, f st kv = st \/ exists k d, f st kv = st <| user_res ::= cadd k d |>) ->
  let s' := fold_left f l s0 in
  simg s0 s' /\ jobs s' = jobs s0.
Proof.
  intros H. revert s0. induction l as [|kv l IH]; intros s0; cbn [fold_left].
  - split; [apply simg_refl | reflexivity].
  - specialize (IH (f s0 kv)). cbv zeta in IH. destruct IH as (X & J).
    destruct (H s0 kv) as [E | (k & d & E)]; rewrite E in *.
    + split; assumption.
    + split; [|exact J]. eapply simg_trans; [|exact X]. unfold simg. cbn. repeat split.
Qed.

Lemma commit_proc_shape s b u (P : state -> Prop) :
  DInv s -> P s ->
  (forall up sf, find_update s b u = Some up -> u_committed up = false -> root_staged s b u = u_njobs up ->
     jobs sf = map (cm_h s b u up) (jobs s) -> updates sf = map (commit_fl b u) (updates s) ->
     staging sf = staging s -> ancestors sf = ancestors s ->
     ((0 < u_njobs up /\ groups sf = map (cm_G s b u) (groups s) /\ batches sf = map (cm_B b (u_njobs up)) (batches s))
      \/ (u_njobs up <= 0 /\ groups sf = groups s /\ batches sf = batches s)) ->
     P sf) ->
  P (fst (do_commit_proc s b u)).
Proof.
  intros D P0 Hsh. unfold do_commit_proc. destruct (find_update s b u) as [up|] eqn:Fup; [|exact P0].
  destruct (u_committed up) eqn:Hunc; [exact P0|].
  set (staged_n := nth 0 (csum (fun k => key_eqb (firstn 3 k) [b; u; 0]) (staging s)) 0).
  destruct (staged_n =? u_njobs up) eqn:Hst; cbn [negb]; [|exact P0].
  assert (Hst' : root_staged s b u = u_njobs up) by (unfold root_staged, cval; fold staged_n; lia).
  specialize (Hsh up).
  set (s1 := s <| updates ::= map _ |>).
  assert (U1 : updates s1 = map (commit_fl b u) (updates s)) by reflexivity.
  assert (J1 : jobs s1 = jobs s) by reflexivity.
  destruct (0 <? u_njobs up) eqn:Hpos; cbn [negb fst].
  2:{ apply Hsh; auto.
      - rewrite J1. rewrite <- (map_id (jobs s)) at 1. apply map_ext_in. intros y Hy.
        symmetry. apply (cmo_h_out s b u up D Fup y Hy).
        destruct (in_update b u y) eqn:E; [|reflexivity]. exfalso.
        unfold in_update in E. apply andb_true_iff in E. destruct E as [E1 E2].
        destruct (d_jrange _ D y Hy) as (uy & Fy & Ry).
        replace (j_batch y) with b in Fy by lia. replace (j_update y) with u in Fy by lia. rewrite Fup in Fy. injection Fy as <-. lia.
      - right. split; [lia|]. split; reflexivity. }
  set (s2 := s1 <| batches ::= map _ |>).
  set (s3 := s2 <| groups ::= map _ |>).
  match goal with |- context [fold_left ?f (staging s) s3] => set (fu := f); set (s4 := fold_left fu (staging s) s3) end.
  assert (G3 : groups s3 = map (cm_G s b u) (groups s)) by reflexivity.
  assert (B3 : batches s3 = map (cm_B b (u_njobs up)) (batches s)) by reflexivity.
  assert (R3 : updates s3 = updates s1 /\ staging s3 = staging s /\ ancestors s3 = ancestors s /\ parents s3 = parents s /\ jobs s3 = jobs s)
    by (repeat split).
  destruct R3 as (U3 & S3 & A3 & P3 & J3).
  assert (X4 : simg s3 s4 /\ jobs s4 = jobs s3).
  { apply (commit_user_res_fold_g fu (staging s) s3).
    intros st kv. subst fu. cbv beta.
    destruct kv as [k v]. destruct k as [|b' [|u' [|g' [|ic [|? ?]]]]]; try (left; reflexivity).
    destruct v as [|v0 [|nr [|rc [|? ?]]]]; try (left; reflexivity).
    destruct (_ && _); [right; eexists; eexists; reflexivity | left; reflexivity]. }
  destruct X4 as ((U4 & S4 & A4 & G4 & B4 & P4) & J4).
  assert (Hlast : 0 < u_njobs up /\ groups s4 = map (cm_G s b u) (groups s) /\ batches s4 = map (cm_B b (u_njobs up)) (batches s)).
  { split; [lia|]. split; congruence. }
  destruct (u =? 1) eqn:U1'; cbn [fst].
  - apply Hsh; auto; try congruence.
    rewrite J4, J3. rewrite <- (map_id (jobs s)) at 1. apply map_ext. intros y. unfold cm_h. rewrite U1'. reflexivity.
  - rewrite fold_left_map, fold_left_filter.
    set (T4 := fun x : job => (j_batch x =? b) && (u_start_job up <=? j_id x) && (j_id x <? u_start_job up + staged_n)).
    pose proof (fold_update_job_jobs T4 (recompute_job s4) (recompute_job_static s4)
                  (fun st x => if T4 x then update_job st (fst (x, recompute_job s4 x)) (snd (x, recompute_job s4 x)) else st)
                  (fun _ => True) (fun st j _ => eq_refl) (fun _ _ _ _ => I) (jobs s4) [] s4 I) as Hf.
    cbn [app map] in Hf. specialize (Hf ltac:(unfold Kjobs_list; rewrite J4, J3; exact (d_jkeys _ D)) eq_refl). cbv zeta in Hf.
    match type of Hf with (jobs ?sf = _ /\ _) => change (P sf) end.
    destruct Hf as (JF & _ & F1 & F2 & F3 & F4 & F5 & F6 & F7 & _ & _ & F10).
    apply Hsh; auto; try congruence.
    + rewrite JF, J4, J3. apply map_ext. intros y. unfold cm_h, gmap. rewrite U1'.
      assert (ET : T4 y = cm_T b up y). { unfold T4, cm_T. replace staged_n with (u_njobs up) by lia. reflexivity. }
      rewrite ET. destruct (cm_T b up y); [|reflexivity]. apply recompute_job_ext; congruence.
    + left. destruct Hlast as (L1 & L2 & L3). split; [exact L1|]. split; congruence.
Qed.

(* ------------------------------------------------------------------ counting after the commit *)

Lemma csum_filter_nil (p : list Z -> bool) m : filter (fun kv => p (fst kv)) m = [] -> csum p m = [].
Proof.
  induction m as [|kv m IH]; cbn [filter csum]; [reflexivity|].
  destruct (p (fst kv)); [discriminate | exact IH].
Qed.

Lemma cm_G_key s b u g : gk (cm_G s b u g) = gk g.
Proof. unfold cm_G. destruct (g_batch g =? b); [|reflexivity]. destruct (is_nil _); [reflexivity | destruct g; reflexivity]. Qed.

Lemma cm_G_fields s b u g :
  g_batch g = b ->
  g_njobs (cm_G s b u g) = g_njobs g + gstaged s b u (g_id g) /\
  g_running (cm_G s b u g) = (if 0 <? gstaged s b u (g_id g) then true else g_running g) /\
  g_ncompleted (cm_G s b u g) = g_ncompleted g /\ g_nsucc (cm_G s b u g) = g_nsucc g /\
  g_nfailed (cm_G s b u g) = g_nfailed g /\ g_ncancelled (cm_G s b u g) = g_ncancelled g.
Proof.
  intros Eb. unfold cm_G. rewrite Eb, Z.eqb_refl.
  change (nth 0 (csum (fun k => key_eqb (firstn 3 k) [b; u; g_id g]) (staging s)) 0) with (gstaged s b u (g_id g)).
  destruct (is_nil _) eqn:Nil.
  - assert (Z0 : gstaged s b u (g_id g) = 0).
    { unfold gstaged, cval. rewrite csum_filter_nil; [reflexivity|].
      match goal with H : is_nil ?l = true |- _ => destruct l; [reflexivity | discriminate] end. }
    rewrite Z0. cbn. repeat split. lia.
  - destruct g; cbn. repeat split.
Qed.

Lemma cm_G_other s b u g : g_batch g <> b -> cm_G s b u g = g.
Proof. intros H. unfold cm_G. destruct (g_batch g =? b) eqn:E; [lia | reflexivity]. Qed.

Definition term_q (q : jstate -> bool) : Prop := forall st, q st = true -> terminal st = true.
Lemma term_q_term : term_q terminal. Proof. intros st H; exact H. Qed.
Lemma term_q_succ : term_q q_succ. Proof. intros st; destruct st; cbn; congruence. Qed.
Lemma term_q_fail : term_q q_fail. Proof. intros st; destruct st; cbn; congruence. Qed.
Lemma term_q_canc : term_q q_canc. Proof. intros st; destruct st; cbn; congruence. Qed.

Section CommitT.
  Variables (s sf : state) (b u : Z) (up : update).
  Hypothesis D : DInv s.
  Hypothesis T : TInv s.
  Hypothesis Fup : find_update s b u = Some up.
  Hypothesis Hunc : u_committed up = false.
  Hypothesis Hst : root_staged s b u = u_njobs up.
  Hypothesis Hjobs : jobs sf = map (cm_h s b u up) (jobs s).
  Hypothesis Hupd : updates sf = map (commit_fl b u) (updates s).
  Hypothesis Hstg : staging sf = staging s.
  Hypothesis Hanc : ancestors sf = ancestors s.
  Hypothesis Hgb :
    (0 < u_njobs up /\ groups sf = map (cm_G s b u) (groups s) /\ batches sf = map (cm_B b (u_njobs up)) (batches s))
    \/ (u_njobs up <= 0 /\ groups sf = groups s /\ batches sf = batches s).

  Let h := cm_h s b u up.

  Lemma ct_static y : static y (h y).
  Proof. apply cmo_static. Qed.

  Lemma ct_class y : In y (jobs s) -> jclass (j_state (h y)) = jclass (j_state y).
  Proof.
    intros Hy. destruct (in_update b u y) eqn:E.
    - destruct (cmo_h_live s b u up D Fup Hunc y Hy) as [Tm _].
      pose proof (cmo_in_live s b u up D Fup Hunc y Hy E) as L.
      apply class_active; [unfold h; rewrite Tm; exact L | exact L].
    - unfold h. rewrite (cmo_h_out s b u up D Fup y Hy E). reflexivity.
  Qed.

  Lemma ct_committed b' u' : committed sf b' u' = committed s b' u' || ((b' =? b) && (u' =? u)).
  Proof. apply (cm_committed s sf b u up Hupd Fup). Qed.

  Lemma ct_uncommitted : committed s b u = false.
  Proof. unfold committed. rewrite Fup. exact Hunc. Qed.

  Lemma ct_in_sub b' g y : in_sub sf b' g (h y) = in_sub s b' g y.
  Proof. apply in_sub_static; [apply ct_static | intros _; apply anc_ids_ext; exact Hanc]. Qed.

  Lemma ct_sel b' g q y : cls_ok q -> In y (jobs s) ->
    sel sf b' g q (h y) = sel s b' g q y || (in_sub s b' g y && in_update b u y && q (j_state y)).
  Proof.
    intros Hq Hy. unfold sel. rewrite ct_in_sub, (cm_jcommitted s sf h b u up (fun y _ => ct_static y) Hupd Fup y Hy).
    rewrite (Hq _ _ (ct_class y Hy)).
    destruct (in_sub s b' g y), (jcommitted s y), (in_update b u y), (q (j_state y)); reflexivity.
  Qed.

  Lemma ct_cnt b' g q : cls_ok q ->
    cnt sf b' g q = cnt s b' g q +
      Z.of_nat (length (filter (fun y => in_sub s b' g y && in_update b u y && q (j_state y)) (jobs s))).
  Proof.
    intros Hq. unfold cnt. rewrite Hjobs.
    rewrite (len_filter_map h (sel sf b' g q) (fun y => sel s b' g q y || (in_sub s b' g y && in_update b u y && q (j_state y)))).
    - rewrite <- Nat2Z.inj_add. f_equal. apply len_filter_split; [reflexivity|].
      intros y Hy. unfold sel. destruct (in_update b u y) eqn:E.
      + rewrite (cmo_in_unc s b u up Fup Hunc y Hy E). destruct (in_sub s b' g y), (q (j_state y)); reflexivity.
      + destruct (in_sub s b' g y), (jcommitted s y), (q (j_state y)); reflexivity.
    - intros y Hy. apply ct_sel; assumption.
  Qed.

  Lemma ct_cnt_term b' g q : cls_ok q -> term_q q -> cnt sf b' g q = cnt s b' g q.
  Proof.
    intros Hq Ht. rewrite (ct_cnt b' g q Hq). rewrite len_filter_zero; [lia|].
    intros y Hy. destruct (in_update b u y) eqn:E; [|rewrite andb_false_r; reflexivity].
    pose proof (cmo_in_live s b u up D Fup Hunc y Hy E) as L.
    destruct (q (j_state y)) eqn:Q; [|apply andb_false_r]. rewrite (Ht _ Q) in L. discriminate.
  Qed.

  Lemma ct_cnt_all b' g : cnt sf b' g q_all = cnt s b' g q_all + (if b' =? b then gstaged s b u g else 0).
  Proof.
    rewrite (ct_cnt b' g q_all cls_all). f_equal. destruct (b' =? b) eqn:Eb.
    - assert (b' = b) by lia. subst b'. rewrite (t_staged _ T b u g ct_uncommitted). unfold n_sub_upd. f_equal.
      apply len_filter_ext_in. intros y _. unfold usel, in_update, in_sub, q_all.
      destruct (j_batch y =? b); cbn [andb]; [rewrite andb_true_r; reflexivity | reflexivity].
    - rewrite len_filter_zero; [reflexivity|]. intros y _. unfold in_sub, in_update.
      destruct (j_batch y =? b') eqn:E1; [|reflexivity]. destruct (j_batch y =? b) eqn:E2; [lia|].
      cbn [andb]. rewrite andb_false_r. reflexivity.
  Qed.

  Lemma ct_gstaged_nonneg g : 0 <= gstaged s b u g.
  Proof. rewrite (t_staged _ T b u g ct_uncommitted). apply n_sub_upd_nonneg. Qed.

  (* an update without jobs stages nothing *)
  Lemma ct_empty g : u_njobs up <= 0 -> gstaged s b u g = 0.
  Proof.
    intros Hz. rewrite (t_staged _ T b u g ct_uncommitted). unfold n_sub_upd. rewrite len_filter_zero; [reflexivity|].
    intros y Hy. unfold usel, in_sub. destruct (j_batch y =? b) eqn:E1; [|reflexivity].
    destruct (j_update y =? u) eqn:E2; [|apply andb_false_r]. exfalso.
    destruct (d_jrange _ D y Hy) as (uy & Fy & Ry).
    replace (j_batch y) with b in Fy by lia. replace (j_update y) with u in Fy by lia. rewrite Fup in Fy. injection Fy as <-. lia.
  Qed.

  (* the new row [gr'] of a group whose old row [gr] was fine *)
  Lemma ct_group_ok gr gr' :
    group_ok s gr -> gk gr' = gk gr ->
    g_njobs gr' = g_njobs gr + (if g_batch gr =? b then gstaged s b u (g_id gr) else 0) ->
    g_running gr' = (if (g_batch gr =? b) && (0 <? gstaged s b u (g_id gr)) then true else g_running gr) ->
    g_ncompleted gr' = g_ncompleted gr -> g_nsucc gr' = g_nsucc gr -> g_nfailed gr' = g_nfailed gr ->
    g_ncancelled gr' = g_ncancelled gr ->
    group_ok sf gr'.
  Proof.
    intros [G1 G2 G3 G4 G5 G6] K N R C1 C2 C3 C4. unfold gk in K. injection K as K1 K2.
    constructor; rewrite ?K1, ?K2.
    - rewrite ct_cnt_all, N, G1. reflexivity.
    - rewrite (ct_cnt_term _ _ _ cls_term term_q_term). congruence.
    - rewrite (ct_cnt_term _ _ _ cls_succ term_q_succ). congruence.
    - rewrite (ct_cnt_term _ _ _ cls_fail term_q_fail). congruence.
    - rewrite (ct_cnt_term _ _ _ cls_canc term_q_canc). congruence.
    - rewrite R, N, C1, G6.
      pose proof (cnt_le s (g_batch gr) (g_id gr) terminal) as Le. rewrite <- G1, <- G2 in Le.
      pose proof (ct_gstaged_nonneg (g_id gr)) as Nn.
      destruct (g_batch gr =? b); cbn [andb].
      + destruct (0 <? gstaged s b u (g_id gr)) eqn:Pos.
        * symmetry. apply negb_true_iff. apply Z.eqb_neq. lia.
        * replace (gstaged s b u (g_id gr)) with 0 by lia. rewrite Z.add_0_r. reflexivity.
      + rewrite Z.add_0_r. reflexivity.
  Qed.

  Lemma ct_groups gr' : In gr' (groups sf) ->
    exists gr, In gr (groups s) /\ gk gr' = gk gr /\
      g_njobs gr' = g_njobs gr + (if g_batch gr =? b then gstaged s b u (g_id gr) else 0) /\
      g_running gr' = (if (g_batch gr =? b) && (0 <? gstaged s b u (g_id gr)) then true else g_running gr) /\
      g_ncompleted gr' = g_ncompleted gr /\ g_nsucc gr' = g_nsucc gr /\ g_nfailed gr' = g_nfailed gr /\
      g_ncancelled gr' = g_ncancelled gr.
  Proof.
    intros Hg. destruct Hgb as [(Pos & Eg & _)|(Z0 & Eg & _)].
    - rewrite Eg in Hg. apply in_map_iff in Hg. destruct Hg as (gr & <- & Hgr). exists gr. split; [exact Hgr|].
      split; [apply cm_G_key|]. destruct (g_batch gr =? b) eqn:Eb.
      + destruct (cm_G_fields s b u gr ltac:(lia)) as (F1 & F2 & F3 & F4 & F5 & F6). cbn [andb]. repeat split; assumption.
      + rewrite (cm_G_other s b u gr ltac:(lia)). cbn [andb]. repeat split. lia.
    - rewrite Eg in Hg. exists gr'. split; [exact Hg|]. split; [reflexivity|].
      rewrite (ct_empty (g_id gr') Z0). destruct (g_batch gr' =? b); cbn [andb]; repeat split; lia.
  Qed.

  Lemma ct_find_group b' g : find_group sf b' g = None <-> find_group s b' g = None.
  Proof.
    rewrite !find_group_none. destruct Hgb as [(_ & Eg & _)|(_ & Eg & _)]; rewrite Eg; [|tauto].
    rewrite map_map. rewrite (map_ext _ gk (cm_G_key s b u)). tauto.
  Qed.

  Lemma ct_batches bt' : In bt' (batches sf) ->
    exists bt, In bt (batches s) /\ b_id bt' = b_id bt /\
      b_njobs bt' = b_njobs bt + (if (b_id bt =? b) && (0 <? u_njobs up) then u_njobs up else 0) /\
      b_running bt' = (if (b_id bt =? b) && (0 <? u_njobs up) then true else b_running bt).
  Proof.
    intros Hb. destruct Hgb as [(Pos & _ & Eb)|(Z0 & _ & Eb)]; rewrite Eb in Hb.
    - apply in_map_iff in Hb. destruct Hb as (bt & <- & Hbt). exists bt. split; [exact Hbt|].
      replace (0 <? u_njobs up) with true by lia. rewrite andb_true_r. unfold cm_B.
      destruct (b_id bt =? b); [destruct bt; cbn; repeat split | repeat split; lia].
    - exists bt'. split; [exact Hb|]. replace (0 <? u_njobs up) with false by lia. rewrite andb_false_r.
      repeat split. lia.
  Qed.

  Lemma commit_TInv : TInv sf.
  Proof.
    pose proof T as [T1 T2 T3 T4 T6 T7]. constructor.
    - intros gr' Hg. destruct (ct_groups gr' Hg) as (gr & Hgr & K & N & R & C1 & C2 & C3 & C4).
      apply (ct_group_ok gr gr' (T1 gr Hgr)); assumption.
    - intros bt' gr' Hb Hg E1 E2.
      destruct (ct_groups gr' Hg) as (gr & Hgr & K & N & R & _).
      destruct (ct_batches bt' Hb) as (bt & Hbt & Ki & Nb & Rb).
      unfold gk in K. injection K as K1 K2.
      destruct (T2 bt gr Hbt Hgr ltac:(congruence) ltac:(congruence)) as [A1 A2].
      rewrite N, R, Nb, Rb, A1, A2. replace (g_batch gr) with (b_id bt) by congruence.
      replace (g_id gr) with 0 by congruence. change (gstaged s b u 0) with (root_staged s b u). rewrite Hst.
      pose proof (find_update_sound _ _ _ _ Fup) as (Hup & _). pose proof (d_upos _ D up Hup) as (Nn & _).
      destruct (b_id bt =? b); cbn [andb]; [destruct (0 <? u_njobs up) eqn:Pos; split; try reflexivity; lia | split; reflexivity].
    - intros bt' Hb. destruct (ct_batches bt' Hb) as (bt & Hbt & Ki & _). rewrite Ki.
      intros F. apply ct_find_group in F. exact (T3 bt Hbt F).
    - intros b' u' g Hc. rewrite ct_committed in Hc. apply orb_false_iff in Hc. destruct Hc as [Hc _].
      unfold gstaged. rewrite Hstg. fold (gstaged s b' u' g). rewrite (T4 b' u' g Hc).
      symmetry. apply (n_sub_upd_map s sf h); [exact Hjobs|]. intros y Hy. unfold usel. rewrite ct_in_sub.
      destruct (ct_static y) as (_ & _ & S3 & _). rewrite <- S3. reflexivity.
    - intros b' g. rewrite (anc_ids_ext s sf b' g Hanc). apply T6.
    - rewrite Hanc. intros b' g a l Hin F. apply ct_find_group in F. exact (T7 b' g a l Hin F).
  Qed.
End CommitT.

Lemma TInv_commit_proc s b u : DInv s -> TInv s -> TInv (fst (do_commit_proc s b u)).
Proof.
  intros D T. apply commit_proc_shape; [exact D | exact T|].
  intros up sf Fup Hunc Hst Hj Hu Hs Ha Hgb. apply (commit_TInv s sf b u up); assumption.
Qed.

Lemma TInv_commit s b u user : DInv s -> TInv s -> TInv (fst (do_commit s b u user)).
Proof.
  intros D T. unfold do_commit. destruct (find_batch s b) as [bt|]; [|exact T].
  destruct (find_update s b u); [|exact T].
  destruct (_ || _); [exact T|]. destruct (marked s b 0); [exact T|].
  apply TInv_commit_proc; assumption.
Qed.
