(** [DInv] is preserved by mark_job_complete: the row-level obligations. *)
From HailV Require Import Common.Prelude BatchDB.Model BatchDB.Tables BatchDB.CMap BatchDB.JobsWF BatchDB.StepCore
  BatchDB.JobFold BatchDB.KidsFold BatchDB.Legal BatchDB.DepsDef BatchDB.DepsEasy BatchDB.DepsMap BatchDB.DepsDriver BatchDB.DepsMC1.
From RecordUpdate Require Import RecordSet.
Import RecordSetNotations.
Open Scope Z_scope.

Definition kids_of (s : state) (b j : Z) : list Z :=
  map (fun r : Z * Z * Z => let '(_, c, _) := r in c)
      (filter (fun r : Z * Z * Z => let '(b', _, p) := r in (b' =? b) && (p =? j)) (parents s)).

Lemma in_kids_of s b j c : In c (kids_of s b j) <-> In (b, c, j) (parents s).
Proof.
  unfold kids_of. split.
  - intros H. apply in_map_iff in H. destruct H as ([[b' c'] p] & <- & Hf).
    apply filter_In in Hf. destruct Hf as (Hl & E). apply andb_true_iff in E.
    assert (b' = b) by lia. assert (p = j) by lia. subst. exact Hl.
  - intros H. apply in_map_iff. exists (b, c, j). split; [reflexivity|].
    apply filter_In. split; [exact H|]. rewrite !Z.eqb_refl. reflexivity.
Qed.

Lemma NoDup_kids_of s b j : NoDup (parents s) -> NoDup (kids_of s b j).
Proof.
  intros ND. unfold kids_of.
  assert (H : forall l, NoDup l -> NoDup (map (fun r : Z * Z * Z => let '(_, c, _) := r in c)
                                             (filter (fun r => let '(b', _, p) := r in (b' =? b) && (p =? j)) l))).
  { induction l as [|[[b' c'] p] l IH]; intros N; cbn [filter map]; [constructor|].
    inversion N as [|? ? Hn N']; subst.
    destruct ((b' =? b) && (p =? j)) eqn:E; [|apply IH; exact N'].
    cbn [map]. constructor; [|apply IH; exact N'].
    intros Hin. apply in_map_iff in Hin. destruct Hin as ([[b2 c2] p2] & Hp & Hf). subst c2.
    apply filter_In in Hf. destruct Hf as (Hl & E2).
    apply andb_true_iff in E. apply andb_true_iff in E2.
    assert (b2 = b') by lia. assert (p2 = p) by lia. subst. contradiction. }
  apply H. exact ND.
Qed.

Definition child_G (succ : bool) (y : job) : job :=
  y <| j_state := if j_npp y =? 1 then Ready else Pending |> <| j_npp := j_npp y - 1 |>
    <| j_cancelled := if succ then j_cancelled y else true |>.

Lemma child_G_static succ y : static y (child_G succ y).
Proof. unfold child_G. destruct y; repeat split. Qed.

Lemma existsb_eqb_in j l : existsb (Z.eqb j) l = true <-> In j l.
Proof.
  rewrite existsb_exists. split.
  - intros (z & Hz & E). assert (z = j) by lia. subst. exact Hz.
  - intros H. exists j. split; [exact H | apply Z.eqb_refl].
Qed.

Section MC.
  Variables (s : state) (b j : Z) (x : job) (ns : jstate) (att : option Z).
  Hypothesis D : DInv s.
  Hypothesis Hx : find_job s b j = Some x.
  Hypothesis Hxc : jcommitted s x = true.
  Hypothesis Hxs : j_state x = Ready \/ j_state x = Creating \/ j_state x = Running.
  Hypothesis Hns : terminal ns = true.

  Let succ := jstate_eqb ns Success.
  Let x' := x <| j_state := ns |> <| j_attempt := att |>.
  Let Cm (y : job) : bool := committed s b (j_update y).
  Let kids := kids_of s b j.
  Definition mc_h (y : job) : job := kid_map b Cm (child_G succ) kids (if jkey b j y then x' else y).

  Lemma mc_x_in : In x (jobs s) /\ j_batch x = b /\ j_id x = j.
  Proof. apply find_jkey_sound. rewrite <- find_job_eq. exact Hx. Qed.

  Lemma mc_x'_static : static x x'.
  Proof. subst x'. destruct x; repeat split. Qed.

  Lemma mc_key_x y : In y (jobs s) -> (jkey b j y = true <-> y = x).
  Proof.
    intros Hy. destruct mc_x_in as (Hxin & E1 & E2). split.
    - intros Ky. apply jkey_true in Ky. destruct Ky as [K1 K2].
      pose proof (find_jkey_in _ y (d_jkeys _ D) Hy) as Fy. rewrite K1, K2 in Fy.
      rewrite find_job_eq in Hx. congruence.
    - intros ->. apply jkey_true. auto.
  Qed.

  Lemma mc_j_not_kid : ~ In j kids.
  Proof.
    intros H. apply in_kids_of in H. pose proof (d_edges _ D _ H) as E. cbn in E. lia.
  Qed.

  Lemma mc_h_x : mc_h x = x'.
  Proof.
    unfold mc_h. rewrite (proj2 (mc_key_x x (proj1 mc_x_in)) eq_refl).
    unfold kid_map. destruct mc_x'_static as (S1 & S2 & _). destruct mc_x_in as (_ & E1 & E2).
    rewrite <- S2, E2.
    replace (existsb (Z.eqb j) kids) with false; [rewrite andb_false_r; reflexivity|].
    symmetry. apply not_true_is_false. intros Ex. apply existsb_eqb_in in Ex. exact (mc_j_not_kid Ex).
  Qed.

  Lemma mc_h_other y : In y (jobs s) -> y <> x -> mc_h y = kid_map b Cm (child_G succ) kids y.
  Proof.
    intros Hy Hne. unfold mc_h. destruct (jkey b j y) eqn:Ky; [|reflexivity].
    exfalso. apply Hne. apply (mc_key_x y Hy). exact Ky.
  Qed.

  Lemma mc_h_static y : In y (jobs s) -> static y (mc_h y).
  Proof.
    intros Hy. unfold mc_h. destruct (jkey b j y) eqn:Ky.
    - apply (mc_key_x y Hy) in Ky. subst y.
      eapply static_trans; [apply mc_x'_static | apply kid_map_static; apply child_G_static].
    - apply kid_map_static. apply child_G_static.
  Qed.

  (* a committed job of batch b with the completed job among its parents is Pending with npp >= 1 *)
  Lemma mc_child_pending y : In y (jobs s) -> j_batch y = b -> In (j_id y) kids -> Cm y = true ->
    j_state y = Pending /\ 1 <= j_npp y /\ y <> x.
  Proof.
    intros Hy Eb Hk Hc. apply in_kids_of in Hk.
    pose proof (d_jobs _ D y Hy) as Ok. unfold job_ok, jcommitted in Ok. subst Cm. cbv beta in Hc. rewrite Eb, Hc in Ok.
    destruct Ok as (N & P & _ & _).
    assert (L : 1 <= npp_spec s b (j_id y)).
    { unfold npp_spec. apply (proj2 (in_parents_of s b (j_id y) j)) in Hk.
      assert (Hf : In j (filter (fun p => live_state (pstate s b p)) (parents_of s b (j_id y)))).
      { apply filter_In. split; [exact Hk|]. unfold pstate. rewrite Hx. cbn.
        destruct Hxs as [E|[E|E]]; rewrite E; reflexivity. }
      destruct (filter _ _); [contradiction | cbn [length]; lia]. }
    repeat split.
    - apply P. lia.
    - lia.
    - intros ->. pose proof (d_edges _ D _ Hk) as E. cbn in E. destruct mc_x_in as (_ & _ & E2). lia.
  Qed.

  Lemma mc_others y : In y (jobs s) -> y <> x ->
    terminal (j_state (mc_h y)) = terminal (j_state y) /\
    jstate_eqb (j_state (mc_h y)) Success = jstate_eqb (j_state y) Success.
  Proof.
    intros Hy Hne. rewrite (mc_h_other y Hy Hne). unfold kid_map.
    destruct ((j_batch y =? b) && existsb (Z.eqb (j_id y)) kids && Cm y) eqn:E; [|split; reflexivity].
    apply andb_true_iff in E. destruct E as [E Ec]. apply andb_true_iff in E. destruct E as [Eb Ek].
    apply existsb_eqb_in in Ek. assert (Eb' : j_batch y = b) by lia.
    destruct (mc_child_pending y Hy Eb' Ek Ec) as (P & _ & _).
    unfold child_G. destruct y as [yb yi yu yg ys ya yc yn ycn yat yic]. cbn in *. subst ys.
    destruct (yn =? 1); split; reflexivity.
  Qed.
End MC.
