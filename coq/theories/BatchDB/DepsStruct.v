(** [DInv] is preserved by the structural client ops: cancel group, delete batch, staging clean-up,
    create batch, create update, create job groups.

    [DInv] is split into three parts that depend on disjoint sets of tables:
      [JInv]  jobs / updates / parents / staging,
      [GInv]  groups / ancestors,
      [XInv]  the cross clauses (jobs-groups, batches-next_batch, groups-batches).

    Two facts that the proofs of create_update / create_groups need are NOT consequences of [DInv]; they are
    collected in [DAux] (proved to be preserved by the ops of this file and of DepsCreateJobs.v):
      - the reserved group ranges start at 1 and are non-negative (create_groups: a relative parent id is >= 0);
      - a (batch, update) key that does not exist has no root staging counter (create_update: the fresh update
        starts with a zero counter). *)
From HailV Require Import Common.Prelude BatchDB.Model BatchDB.Tables BatchDB.CMap BatchDB.JobsWF BatchDB.StepCore
  BatchDB.JobFold BatchDB.Legal BatchDB.DepsDef BatchDB.DepsEasy.
From RecordUpdate Require Import RecordSet.
Import RecordSetNotations.
Open Scope Z_scope.

(* ------------------------------------------------------------------ the three parts of DInv *)

Record JInv (s : state) : Prop := {
  ju_jkeys : Kjobs s;
  ju_ukeys : NoDup (map uk (updates s));
  ju_upos : forall u, In u (updates s) -> 0 <= u_njobs u /\ 1 <= u_start_job u /\ 1 <= u_id u;
  ju_uorder : forall x y, In x (updates s) -> In y (updates s) -> u_batch x = u_batch y -> u_id x < u_id y ->
               u_start_job x + u_njobs x <= u_start_job y;
  ju_jrange : forall x, In x (jobs s) -> exists up, find_update s (j_batch x) (j_update x) = Some up /\
               u_start_job up <= j_id x < u_start_job up + u_njobs up;
  ju_edges : forall e, In e (parents s) -> edge_ok s e;
  ju_enodup : NoDup (parents s);
  ju_jobs : forall x, In x (jobs s) -> job_ok s x;
  ju_staged : forall u, In u (updates s) -> u_committed u = false ->
               root_staged s (u_batch u) (u_id u) = n_jobs_of s (u_batch u) (u_id u);
  ju_ufirst : forall u, In u (updates s) -> u_id u = 1 -> u_start_job u = 1 }.

Record GInv (s : state) : Prop := {
  gr_root : forall g, In g (groups s) -> root_once s (g_batch g) (g_id g);
  gr_gcontig : forall g, In g (groups s) -> forall g', 0 <= g' <= g_id g -> find_group s (g_batch g) g' <> None;
  gr_gkeys : NoDup (map (fun g => (g_batch g, g_id g)) (groups s));
  gr_ancgrp : forall r, In r (ancestors s) -> find_group s (fst (fst (fst r))) (snd (fst (fst r))) <> None }.

Record XInv (s : state) : Prop := {
  x_jgroup : forall x, In x (jobs s) -> find_group s (j_batch x) (j_group x) <> None;
  x_bfresh : forall bt, In bt (batches s) -> b_id bt < next_batch s;
  x_gbatch : forall g, In g (groups s) -> find_batch s (g_batch g) <> None }.

Lemma DInv_split s : DInv s <-> JInv s /\ GInv s /\ XInv s.
Proof.
  split.
  - intros []. split; [|split]; constructor; assumption.
  - intros ([] & [] & []). constructor; assumption.
Qed.

Lemma JInv_ext s s' :
  jobs s' = jobs s -> parents s' = parents s -> updates s' = updates s -> staging s' = staging s -> JInv s -> JInv s'.
Proof. destruct s, s'. cbn. intros -> -> -> ->. intros []. constructor; assumption. Qed.

Lemma GInv_ext s s' : groups s' = groups s -> ancestors s' = ancestors s -> GInv s -> GInv s'.
Proof. destruct s, s'. cbn. intros -> ->. intros []. constructor; assumption. Qed.

(* ------------------------------------------------------------------ small list / lookup facts *)

Lemma find_app_some {A} (f : A -> bool) l l' x : find f l = Some x -> find f (l ++ l') = Some x.
Proof. induction l as [|a l IH]; cbn [find app]; [discriminate | destruct (f a); auto]. Qed.

Lemma find_app_none {A} (f : A -> bool) l l' : find f l = None -> find f (l ++ l') = find f l'.
Proof. induction l as [|a l IH]; cbn [find app]; [reflexivity | destruct (f a); [discriminate | auto]]. Qed.

Lemma find_app_mono {A} (f : A -> bool) l l' : find f l <> None -> find f (l ++ l') <> None.
Proof. destruct (find f l) eqn:F; [|congruence]. intros _. rewrite (find_app_some _ _ _ _ F). discriminate. Qed.

Lemma find_none_iff {A} (f : A -> bool) l : find f l = None <-> forall x, In x l -> f x = false.
Proof.
  split; [apply find_none|]. intros H. destruct (find f l) eqn:F; [|reflexivity].
  apply find_some in F. destruct F as [Hin Hf]. rewrite (H _ Hin) in Hf. discriminate.
Qed.

Lemma find_not_none {A} (f : A -> bool) l x : In x l -> f x = true -> find f l <> None.
Proof. intros Hin Hf F. rewrite (find_none _ _ F x Hin) in Hf. discriminate. Qed.

Lemma NoDup_map_inj {A B} (f : A -> B) l x y : NoDup (map f l) -> In x l -> In y l -> f x = f y -> x = y.
Proof.
  induction l as [|a l IH]; intros ND Hx Hy E; [contradiction|].
  cbn [map] in ND. inversion ND as [|? ? Hn ND']; subst.
  destruct Hx as [->|Hx], Hy as [->|Hy]; auto.
  - exfalso. apply Hn. rewrite E. apply in_map. exact Hy.
  - exfalso. apply Hn. rewrite <- E. apply in_map. exact Hx.
Qed.

Lemma NoDup_app_intro {A} (l1 l2 : list A) :
  NoDup l1 -> NoDup l2 -> (forall x, In x l1 -> In x l2 -> False) -> NoDup (l1 ++ l2).
Proof.
  induction l1 as [|a l1 IH]; intros N1 N2 Hd; [exact N2|].
  inversion N1 as [|? ? Hn N1']; subst. cbn [app]. constructor.
  - intros Hin. apply in_app_or in Hin. destruct Hin as [Hin|Hin]; [contradiction|].
    apply (Hd a); [left; reflexivity | exact Hin].
  - apply IH; auto. intros x H1 H2. apply (Hd x); [right; exact H1 | exact H2].
Qed.

Lemma find_update_in s u : NoDup (map uk (updates s)) -> In u (updates s) -> find_update s (u_batch u) (u_id u) = Some u.
Proof.
  intros ND Hin. unfold find_update.
  destruct (find _ (updates s)) as [y|] eqn:F.
  - apply find_some in F. destruct F as [Hy Hk]. apply andb_true_iff in Hk. destruct Hk as [K1 K2].
    f_equal. apply (NoDup_map_inj uk (updates s)); auto. unfold uk. f_equal; lia.
  - exfalso. pose proof (find_none _ _ F u Hin) as E. cbv beta in E. rewrite !Z.eqb_refl in E. discriminate.
Qed.

Lemma find_update_sound s b u x : find_update s b u = Some x -> In x (updates s) /\ u_batch x = b /\ u_id x = u.
Proof.
  intros F. apply find_some in F. destruct F as [Hin Hk]. apply andb_true_iff in Hk. destruct Hk as [K1 K2].
  repeat split; [exact Hin | lia | lia].
Qed.

Lemma find_group_sound s b g x : find_group s b g = Some x -> In x (groups s) /\ g_batch x = b /\ g_id x = g.
Proof.
  intros F. apply find_some in F. destruct F as [Hin Hk]. apply andb_true_iff in Hk. destruct Hk as [K1 K2].
  repeat split; [exact Hin | lia | lia].
Qed.

Lemma find_group_in s g : In g (groups s) -> find_group s (g_batch g) (g_id g) <> None.
Proof. intros Hin. apply (find_not_none _ _ g Hin). rewrite !Z.eqb_refl. reflexivity. Qed.

Lemma find_batch_iff s b : find_batch s b <> None <-> In b (map b_id (batches s)).
Proof.
  unfold find_batch. split.
  - destruct (find _ (batches s)) as [x|] eqn:F; [|congruence]. intros _.
    apply find_some in F. destruct F as [Hin Hk]. apply in_map_iff. exists x. split; [lia | exact Hin].
  - intros Hin. apply in_map_iff in Hin. destruct Hin as (x & <- & Hin).
    apply (find_not_none _ _ x Hin). apply Z.eqb_refl.
Qed.

(* ------------------------------------------------------------------ XInv when only the batches' ids matter *)

Lemma XInv_ext s s' :
  jobs s' = jobs s -> groups s' = groups s -> map b_id (batches s') = map b_id (batches s) -> next_batch s' = next_batch s ->
  XInv s -> XInv s'.
Proof.
  intros Ej Eg Eb En [X1 X2 X3]. constructor.
  - rewrite Ej. intros x Hx. unfold find_group. rewrite Eg. apply (X1 x Hx).
  - intros bt Hbt. rewrite En.
    assert (Hin : In (b_id bt) (map b_id (batches s))) by (rewrite <- Eb; apply in_map; exact Hbt).
    apply in_map_iff in Hin. destruct Hin as (bt' & E & Hin'). rewrite <- E. apply X2. exact Hin'.
  - rewrite Eg. intros g Hg. apply find_batch_iff. rewrite Eb. apply find_batch_iff. apply (X3 g Hg).
Qed.

(** [DInv] looks at [batches] only through the ids, and not at all at [marks]. *)
Lemma DInv_frame s s' :
  jobs s' = jobs s -> parents s' = parents s -> updates s' = updates s -> staging s' = staging s ->
  groups s' = groups s -> ancestors s' = ancestors s ->
  map b_id (batches s') = map b_id (batches s) -> next_batch s' = next_batch s -> DInv s -> DInv s'.
Proof.
  intros E1 E2 E3 E4 E5 E6 E7 E8 D. apply DInv_split in D. destruct D as (J & G & X). apply DInv_split.
  split; [|split].
  - apply (JInv_ext s); assumption.
  - apply (GInv_ext s); assumption.
  - apply (XInv_ext s); assumption.
Qed.

(* ------------------------------------------------------------------ the auxiliary invariant *)

Record DAux (s : state) : Prop := {
  a_gpos : forall u, In u (updates s) -> 1 <= u_start_group u /\ 0 <= u_ngroups u;
  a_staged0 : forall b u, find_update s b u = None -> root_staged s b u = 0 }.

Lemma DAux_ext s s' : updates s' = updates s -> staging s' = staging s -> DAux s -> DAux s'.
Proof. destruct s, s'. cbn. intros -> ->. intros []. constructor; assumption. Qed.

Lemma DAux_init : DAux init.
Proof. constructor; [intros u []|]. intros b u _. reflexivity. Qed.

(* ------------------------------------------------------------------ cancel_job_group, delete batch *)

(* everything [DInv] and [DAux] look at, except the batches *)
Definition same_core (s s' : state) : Prop :=
  jobs s' = jobs s /\ parents s' = parents s /\ updates s' = updates s /\ staging s' = staging s /\
  groups s' = groups s /\ ancestors s' = ancestors s /\ batches s' = batches s /\ next_batch s' = next_batch s.

Lemma same_core_refl s : same_core s s.
Proof. repeat split. Qed.
Lemma same_core_trans s1 s2 s3 : same_core s1 s2 -> same_core s2 s3 -> same_core s1 s3.
Proof. unfold same_core. intuition congruence. Qed.

Lemma same_core_fold {A} (f : state -> A -> state) l s :
  (forall st x, same_core st (f st x)) -> same_core s (fold_left f l s).
Proof.
  intros H. revert s. induction l as [|x l IH]; intros s; cbn [fold_left]; [apply same_core_refl|].
  eapply same_core_trans; [apply H | apply IH].
Qed.

Lemma same_core_cancel_proc s b g : same_core s (cancel_proc s b g).
Proof.
  unfold cancel_proc. destruct (group_cancelled s b g); [apply same_core_refl|].
  match goal with |- context [fold_left ?f (cancellable s) s] => set (s1 := fold_left f (cancellable s) s) end.
  assert (C1 : same_core s s1).
  { subst s1. apply same_core_fold. intros st kv.
    destruct kv as [k v].
    destruct k as [|b' [|u' [|g' [|ic [|? ?]]]]]; try apply same_core_refl.
    destruct v as [|nr [|rc [|ncr [|nrun [|runc [|? ?]]]]]]; try apply same_core_refl.
    destruct (_ && _); [repeat split | apply same_core_refl]. }
  eapply same_core_trans; [exact C1|]. repeat split.
Qed.

Lemma DInv_same_core s s' : same_core s s' -> DInv s -> DInv s'.
Proof.
  intros (E1&E2&E3&E4&E5&E6&E7&E8). apply DInv_frame; try assumption. rewrite E7. reflexivity.
Qed.

Lemma DAux_same_core s s' : same_core s s' -> DAux s -> DAux s'.
Proof. intros (E1&E2&E3&E4&E5&E6&E7&E8). apply DAux_ext; assumption. Qed.

Lemma DInv_cancel_proc s b g : DInv s -> DInv (cancel_proc s b g).
Proof. apply DInv_same_core, same_core_cancel_proc. Qed.

Lemma DInv_cancel_group s b g : DInv s -> DInv (fst (do_cancel_group s b g)).
Proof.
  intros D. unfold do_cancel_group. destruct (find_group s b g) as [gr|]; [|exact D].
  destruct (find_batch s b) as [bt|]; [|exact D].
  match goal with |- context [if ?c then _ else _] => destruct c end; cbn [fst]; [exact D|].
  apply DInv_cancel_proc. exact D.
Qed.

Lemma DAux_cancel_group s b g : DAux s -> DAux (fst (do_cancel_group s b g)).
Proof.
  intros D. unfold do_cancel_group. destruct (find_group s b g) as [gr|]; [|exact D].
  destruct (find_batch s b) as [bt|]; [|exact D].
  match goal with |- context [if ?c then _ else _] => destruct c end; cbn [fst]; [exact D|].
  apply (DAux_same_core s); [apply same_core_cancel_proc | exact D].
Qed.

Lemma map_b_id_deleted b l :
  map b_id (map (fun x => if b_id x =? b then x <| b_deleted := true |> else x) l) = map b_id l.
Proof. rewrite map_map. apply map_ext. intros x. destruct (b_id x =? b); reflexivity. Qed.

Lemma DInv_delete_batch s b : DInv s -> DInv (fst (do_delete_batch s b)).
Proof.
  intros D. unfold do_delete_batch. destruct (find_batch s b) as [bt|]; [|exact D].
  destruct (b_deleted bt); cbn [fst]; [exact D|].
  pose proof (same_core_cancel_proc s b 0) as (E1&E2&E3&E4&E5&E6&E7&E8).
  apply (DInv_frame s); cbn; try assumption.
  rewrite map_b_id_deleted, E7. reflexivity.
Qed.

Lemma DAux_delete_batch s b : DAux s -> DAux (fst (do_delete_batch s b)).
Proof.
  intros D. unfold do_delete_batch. destruct (find_batch s b) as [bt|]; [|exact D].
  destruct (b_deleted bt); cbn [fst]; [exact D|].
  pose proof (same_core_cancel_proc s b 0) as (E1&E2&E3&E4&E5&E6&E7&E8).
  apply (DAux_ext s); cbn; assumption.
Qed.

(* ------------------------------------------------------------------ staging clean-up *)

Definition staging_keep (s : state) (k : list Z) : bool :=
  match k with
  | [b; u; _; _] => negb (match find_update s b u with Some x => u_committed x | None => false end)
  | _ => true
  end.

Lemma root_key_keep s b u k :
  (match find_update s b u with Some x => u_committed x | None => false end) = false ->
  key_eqb (firstn 3 k) [b; u; 0] && staging_keep s k = key_eqb (firstn 3 k) [b; u; 0].
Proof.
  intros Hc. destruct (key_eqb (firstn 3 k) [b; u; 0]) eqn:E; [|reflexivity]. cbn [andb].
  apply key_eqb_eq in E.
  destruct k as [|b' [|u' [|g' [|ic [|? ?]]]]]; try reflexivity.
  cbn in E. injection E as -> -> ->. unfold staging_keep. rewrite Hc. reflexivity.
Qed.

Lemma root_staged_cleanup s b u :
  (match find_update s b u with Some x => u_committed x | None => false end) = false ->
  root_staged (fst (do_cleanup_staging s)) b u = root_staged s b u.
Proof.
  intros Hc. unfold root_staged, cval, do_cleanup_staging. cbn [fst].
  change (staging (s <| staging ::= ?f |>)) with (f (staging s)). cbv beta.
  change (filter _ (staging s)) with (filter (fun kv => staging_keep s (fst kv)) (staging s)).
  rewrite csum_filter. f_equal. apply csum_ext. intros k. apply root_key_keep. exact Hc.
Qed.

Lemma DInv_cleanup_staging s : DInv s -> DInv (fst (do_cleanup_staging s)).
Proof.
  intros D. pose proof D as D0. apply DInv_split in D. destruct D as (J & G & X). apply DInv_split.
  split; [|split].
  - destruct J as [J1 J2 J3 J4 J5 J6 J7 J8 J9 J10].
    constructor; try assumption.
    intros u Hu Hc. rewrite root_staged_cleanup; [apply (J9 u Hu Hc)|].
    change (find_update (fst (do_cleanup_staging s))) with (find_update s) in *.
    rewrite (find_update_in s u J2 Hu). exact Hc.
  - apply (GInv_ext s); [reflexivity | reflexivity | exact G].
  - apply (XInv_ext s); try reflexivity. exact X.
Qed.

Lemma DAux_cleanup_staging s : DAux s -> DAux (fst (do_cleanup_staging s)).
Proof.
  intros [A1 A2]. constructor; [exact A1|].
  intros b u F. change (find_update (fst (do_cleanup_staging s)) b u) with (find_update s b u) in F.
  rewrite root_staged_cleanup; [apply A2; exact F | rewrite F; reflexivity].
Qed.

(* ------------------------------------------------------------------ inserting one group (create_group_rows) *)

Definition akey (b g : Z) (r : Z * Z * Z * Z) : bool := let '(b', g', _, _) := r in (b' =? b) && (g' =? g).
Definition athird (r : Z * Z * Z * Z) : Z := let '(_, _, a, _) := r in a.

Lemma anc_rows_eq s b g : anc_rows s b g = filter (akey b g) (ancestors s).
Proof. reflexivity. Qed.
Lemma anc_ids_eq s b g : anc_ids s b g = map athird (anc_rows s b g).
Proof. reflexivity. Qed.

Lemma filter_all_false {A} (f : A -> bool) l : (forall x, In x l -> f x = false) -> filter f l = [].
Proof.
  induction l as [|a l IH]; intros H; [reflexivity|]. cbn [filter].
  rewrite (H a (or_introl eq_refl)). apply IH. intros x Hx. apply H. right; exact Hx.
Qed.

Lemma filter_all_true {A} (f : A -> bool) l : (forall x, In x l -> f x = true) -> filter f l = l.
Proof.
  induction l as [|a l IH]; intros H; [reflexivity|]. cbn [filter].
  rewrite (H a (or_introl eq_refl)). f_equal. apply IH. intros x Hx. apply H. right; exact Hx.
Qed.

Lemma anc_rows_none s b g : GInv s -> find_group s b g = None -> anc_rows s b g = [].
Proof.
  intros G Hn. rewrite anc_rows_eq. apply filter_all_false. intros [[[b' g'] a] l] Hin.
  destruct (akey b g (b', g', a, l)) eqn:K; [|reflexivity]. exfalso.
  cbn in K. apply andb_true_iff in K. destruct K as [K1 K2].
  apply (gr_ancgrp _ G _ Hin). cbn [fst snd]. replace b' with b by lia. replace g' with g by lia. exact Hn.
Qed.

Definition new_anc_rows (s : state) (b g parent : Z) (root : bool) : list (Z * Z * Z * Z) :=
  (if root then [] else map (fun r => let '(_, _, a, lvl) := r in (b, g, a, lvl + 1)) (anc_rows s b parent)) ++ [(b, g, g, 0)].

Lemma cgr_groups s b g upd parent root :
  groups (create_group_rows s b g upd parent root) = groups s ++ [mkGroup b g false 0 0 0 0 0 upd].
Proof. reflexivity. Qed.
Lemma cgr_ancestors s b g upd parent root :
  ancestors (create_group_rows s b g upd parent root) = ancestors s ++ new_anc_rows s b g parent root.
Proof. reflexivity. Qed.

Lemma new_anc_rows_key s b g parent root r : In r (new_anc_rows s b g parent root) -> fst (fst (fst r)) = b /\ snd (fst (fst r)) = g.
Proof.
  unfold new_anc_rows. intros Hin. apply in_app_or in Hin. destruct Hin as [Hin|[<-|[]]]; [|split; reflexivity].
  destruct root; [contradiction|]. apply in_map_iff in Hin. destruct Hin as ([[[b' g'] a] l] & <- & _). split; reflexivity.
Qed.

Lemma new_anc_rows_filter s b g parent root b' g' :
  filter (akey b' g') (new_anc_rows s b g parent root) = if (b =? b') && (g =? g') then new_anc_rows s b g parent root else [].
Proof.
  destruct ((b =? b') && (g =? g')) eqn:K.
  - apply filter_all_true. intros [[[b2 g2] a] l] Hin. apply new_anc_rows_key in Hin. cbn in Hin. destruct Hin as [-> ->]. exact K.
  - apply filter_all_false. intros [[[b2 g2] a] l] Hin. apply new_anc_rows_key in Hin. cbn in Hin. destruct Hin as [-> ->]. exact K.
Qed.

Lemma new_anc_rows_ids s b g parent root :
  map athird (new_anc_rows s b g parent root) = (if root then [] else anc_ids s b parent) ++ [g].
Proof.
  unfold new_anc_rows. rewrite map_app. cbn [map athird]. f_equal.
  destruct root; [reflexivity|]. rewrite anc_ids_eq, map_map. apply map_ext. intros [[[b' g'] a] l]. reflexivity.
Qed.

Lemma cgr_anc_rows s b g upd parent root b' g' :
  anc_rows (create_group_rows s b g upd parent root) b' g' =
  anc_rows s b' g' ++ (if (b =? b') && (g =? g') then new_anc_rows s b g parent root else []).
Proof. rewrite !anc_rows_eq, cgr_ancestors, filter_app, new_anc_rows_filter. reflexivity. Qed.

Lemma cgr_find_group_mono s b g upd parent root b' g' :
  find_group s b' g' <> None -> find_group (create_group_rows s b g upd parent root) b' g' <> None.
Proof. unfold find_group. rewrite cgr_groups. apply find_app_mono. Qed.

Lemma cgr_find_group_new s b g upd parent root :
  find_group (create_group_rows s b g upd parent root) b g <> None.
Proof.
  unfold find_group. rewrite cgr_groups.
  apply (find_not_none _ _ (mkGroup b g false 0 0 0 0 0 upd)); [apply in_or_app; right; left; reflexivity|].
  cbn. rewrite !Z.eqb_refl. reflexivity.
Qed.

Lemma GInv_create_group_rows s b g upd parent root :
  GInv s -> find_group s b g = None ->
  (forall g', 0 <= g' < g -> find_group s b g' <> None) ->
  (root = true -> g = 0) -> (root = false -> 0 <= parent < g) ->
  GInv (create_group_rows s b g upd parent root).
Proof.
  intros G Hn Hcontig Hroot Hpar. pose proof G as [G1 G2 G3 G4].
  set (s' := create_group_rows s b g upd parent root).
  assert (Hnew_root : root_once s' b g).
  { unfold root_once. rewrite anc_ids_eq. unfold s'. rewrite cgr_anc_rows, !Z.eqb_refl. cbn [andb].
    rewrite (anc_rows_none s b g G Hn). cbn [app]. rewrite new_anc_rows_ids, filter_app, app_length.
    destruct root.
    - rewrite (Hroot eq_refl). reflexivity.
    - specialize (Hpar eq_refl). assert (Hp : find_group s b parent <> None) by (apply Hcontig; lia).
      destruct (find_group s b parent) as [gp|] eqn:Fp; [|congruence].
      apply find_group_sound in Fp. destruct Fp as (Hin & Eb & Eg).
      pose proof (G1 gp Hin) as R. unfold root_once in R. rewrite Eb, Eg in R. rewrite R.
      cbn [filter]. destruct (0 =? g) eqn:E; [lia | reflexivity]. }
  constructor.
  - unfold s'. rewrite cgr_groups. intros x Hx. apply in_app_or in Hx. destruct Hx as [Hx|[<-|[]]]; [|exact Hnew_root].
    unfold root_once. rewrite anc_ids_eq, cgr_anc_rows.
    destruct ((b =? g_batch x) && (g =? g_id x)) eqn:K.
    + exfalso. apply andb_true_iff in K. destruct K as [K1 K2].
      apply (find_group_in s x Hx). replace (g_batch x) with b by lia. replace (g_id x) with g by lia. exact Hn.
    + rewrite app_nil_r. apply (G1 x Hx).
  - unfold s'. rewrite cgr_groups. intros x Hx g' R. apply in_app_or in Hx. destruct Hx as [Hx|[<-|[]]].
    + apply cgr_find_group_mono. apply (G2 x Hx g' R).
    + cbn [g_batch g_id] in *. destruct (Z.eq_dec g' g) as [->|Hne].
      * apply cgr_find_group_new.
      * apply cgr_find_group_mono. apply Hcontig. lia.
  - unfold s'. rewrite cgr_groups, map_app. cbn [map g_batch g_id]. apply NoDup_app_intro; [exact G3 | repeat constructor; intros [] |].
    intros k Hk [<-|[]]. apply in_map_iff in Hk. destruct Hk as (x & E & Hx). injection E as E1 E2.
    apply (find_group_in s x Hx). rewrite E1, E2. exact Hn.
  - unfold s'. rewrite cgr_ancestors. intros r Hr. apply in_app_or in Hr. destruct Hr as [Hr|Hr].
    + apply cgr_find_group_mono. apply (G4 r Hr).
    + apply new_anc_rows_key in Hr. destruct Hr as [-> ->]. apply cgr_find_group_new.
Qed.

Lemma XInv_create_group_rows s b g upd parent root :
  XInv s -> find_batch s b <> None -> XInv (create_group_rows s b g upd parent root).
Proof.
  intros [X1 X2 X3] Hb. constructor.
  - intros x Hx. apply cgr_find_group_mono. apply (X1 x Hx).
  - exact X2.
  - rewrite cgr_groups. intros x Hx. apply in_app_or in Hx. destruct Hx as [Hx|[<-|[]]]; [apply (X3 x Hx) | exact Hb].
Qed.

Lemma DInv_create_group_rows s b g upd parent root :
  DInv s -> find_batch s b <> None -> find_group s b g = None ->
  (forall g', 0 <= g' < g -> find_group s b g' <> None) ->
  (root = true -> g = 0) -> (root = false -> 0 <= parent < g) ->
  DInv (create_group_rows s b g upd parent root).
Proof.
  intros D Hb Hn Hc Hr Hp. apply DInv_split in D. destruct D as (J & G & X). apply DInv_split.
  split; [|split].
  - apply (JInv_ext s); try reflexivity. exact J.
  - apply GInv_create_group_rows; assumption.
  - apply XInv_create_group_rows; assumption.
Qed.

(* ------------------------------------------------------------------ create batch *)

Lemma no_group_of_fresh_batch s g : XInv s -> find_group s (next_batch s) g = None.
Proof.
  intros [X1 X2 X3]. apply find_none_iff. intros x Hx.
  destruct ((g_batch x =? next_batch s) && (g_id x =? g)) eqn:K; [|reflexivity]. exfalso.
  apply andb_true_iff in K. destruct K as [K1 K2].
  pose proof (X3 x Hx) as Hb. apply find_batch_iff in Hb. apply in_map_iff in Hb. destruct Hb as (bt & E & Hbt).
  pose proof (X2 bt Hbt). lia.
Qed.

Lemma DInv_create_batch s user bp token m : DInv s -> DInv (fst (do_create_batch s user bp token m)).
Proof.
  intros D. unfold do_create_batch. destruct (negb m); [exact D|].
  destruct (find _ (batches s)) as [x|]; [exact D|]. cbn [fst].
  set (id := next_batch s).
  set (s1 := s <| batches ::= fun l => l ++ [mkBatch id user bp token false 0 false] |> <| next_batch := id + 1 |>).
  pose proof D as D0. apply DInv_split in D0. destruct D0 as (J & G & X).
  assert (Hb1 : find_batch s1 id <> None).
  { apply find_batch_iff. unfold s1. cbn. rewrite map_app. apply in_or_app. right. left. reflexivity. }
  assert (D1 : DInv s1).
  { apply DInv_split. split; [|split].
    - apply (JInv_ext s); try reflexivity. exact J.
    - apply (GInv_ext s); try reflexivity. exact G.
    - destruct X as [X1 X2 X3]. constructor.
      + exact X1.
      + unfold s1. cbn. intros bt Hbt. apply in_app_or in Hbt. destruct Hbt as [Hbt|[<-|[]]].
        * specialize (X2 bt Hbt). unfold id. lia.
        * cbn. lia.
      + intros g Hg. apply find_batch_iff. unfold s1. cbn. rewrite map_app. apply in_or_app. left.
        apply find_batch_iff. apply (X3 g Hg). }
  apply DInv_create_group_rows; try assumption.
  - change (find_group s1 id 0) with (find_group s (next_batch s) 0). apply no_group_of_fresh_batch. exact X.
  - intros g' R. lia.
  - reflexivity.
  - discriminate.
Qed.

Lemma DAux_create_batch s user bp token m : DAux s -> DAux (fst (do_create_batch s user bp token m)).
Proof.
  intros A. unfold do_create_batch. destruct (negb m); [exact A|].
  destruct (find _ (batches s)) as [x|]; [exact A|]. cbn [fst].
  apply (DAux_ext s); try reflexivity. exact A.
Qed.

(* ------------------------------------------------------------------ create update *)

Definition lu_step (b : Z) (acc : option update) (x : update) : option update :=
  if u_batch x =? b then
    match acc with
    | Some y => if u_id y <? u_id x then Some x else acc
    | None => Some x
    end else acc.

Lemma last_update_eq s b : last_update s b = fold_left (lu_step b) (updates s) None.
Proof. reflexivity. Qed.

Lemma last_update_fold b l : forall acc,
  (forall y, acc = Some y -> u_batch y = b) ->
  match fold_left (lu_step b) l acc with
  | Some m => u_batch m = b /\ (In m l \/ acc = Some m) /\
              (forall x, In x l -> u_batch x = b -> u_id x <= u_id m) /\
              (forall y, acc = Some y -> u_id y <= u_id m)
  | None => acc = None /\ forall x, In x l -> u_batch x <> b
  end.
Proof.
  induction l as [|x l IH]; intros acc Hacc; cbn [fold_left].
  - destruct acc as [m|].
    + split; [apply Hacc; reflexivity|]. split; [right; reflexivity|]. split; [intros x []|].
      intros y E. injection E as ->. lia.
    + split; [reflexivity | intros x []].
  - assert (Hacc' : forall y, lu_step b acc x = Some y -> u_batch y = b).
    { unfold lu_step. destruct (u_batch x =? b) eqn:Eb; [|exact Hacc].
      destruct acc as [y0|].
      - destruct (u_id y0 <? u_id x); [|exact Hacc]. intros y E. injection E as <-. lia.
      - intros y E. injection E as <-. lia. }
    specialize (IH (lu_step b acc x) Hacc').
    destruct (fold_left (lu_step b) l (lu_step b acc x)) as [m|].
    + destruct IH as (I1 & I2 & I3 & I4). split; [exact I1|].
      unfold lu_step in I2, I4.
      destruct (u_batch x =? b) eqn:Eb.
      * destruct acc as [y0|].
        -- destruct (u_id y0 <? u_id x) eqn:Elt.
           ++ split; [|split].
              ** destruct I2 as [I2|I2]; [left; right; exact I2 | injection I2 as <-; left; left; reflexivity].
              ** intros x' [<-|Hx'] Hb'; [apply I4; reflexivity | apply I3; assumption].
              ** intros y E. injection E as <-. specialize (I4 x eq_refl). lia.
           ++ split; [|split].
              ** destruct I2 as [I2|I2]; [left; right; exact I2 | right; exact I2].
              ** intros x' [<-|Hx'] Hb'; [specialize (I4 y0 eq_refl); lia | apply I3; assumption].
              ** exact I4.
        -- split; [|split].
           ++ destruct I2 as [I2|I2]; [left; right; exact I2 | injection I2 as <-; left; left; reflexivity].
           ++ intros x' [<-|Hx'] Hb'; [apply I4; reflexivity | apply I3; assumption].
           ++ intros y E. discriminate.
      * split; [|split].
        -- destruct I2 as [I2|I2]; [left; right; exact I2 | right; exact I2].
        -- intros x' [<-|Hx'] Hb'; [lia | apply I3; assumption].
        -- exact I4.
    + destruct IH as (I1 & I2). unfold lu_step in I1.
      destruct (u_batch x =? b) eqn:Eb.
      * destruct acc as [y0|]; [destruct (u_id y0 <? u_id x)|]; discriminate.
      * split; [exact I1|]. intros x' [<-|Hx']; [lia | apply I2; exact Hx'].
Qed.

(** [last_update] returns the update of the batch with the greatest id. *)
Lemma last_update_spec s b :
  match last_update s b with
  | Some m => In m (updates s) /\ u_batch m = b /\ (forall x, In x (updates s) -> u_batch x = b -> u_id x <= u_id m)
  | None => forall x, In x (updates s) -> u_batch x <> b
  end.
Proof.
  rewrite last_update_eq. pose proof (last_update_fold b (updates s) None) as H.
  destruct (fold_left (lu_step b) (updates s) None) as [m|].
  - destruct H as (H1 & H2 & H3 & _); [discriminate|]. destruct H2 as [H2|H2]; [|discriminate]. auto.
  - destruct H as (_ & H); [discriminate | exact H].
Qed.

Lemma committed_app_uncommitted s s' n b u :
  updates s' = updates s ++ [n] -> u_committed n = false -> committed s' b u = committed s b u.
Proof.
  intros E Hn. unfold committed, find_update. rewrite E.
  destruct (find _ (updates s)) as [x|] eqn:F.
  - rewrite (find_app_some _ _ _ _ F). reflexivity.
  - rewrite (find_app_none _ _ _ F). cbn [find]. destruct (_ && _); [exact Hn | reflexivity].
Qed.

(* [job_ok] / [edge_ok] depend on the updates only through [committed] and the found rows *)
Lemma job_ok_committed_ext s s' x :
  jobs s' = jobs s -> parents s' = parents s -> (forall b u, committed s' b u = committed s b u) ->
  job_ok s x -> job_ok s' x.
Proof.
  intros Ej Ep Hc. unfold job_ok, jcommitted, npp_spec, pstate, parents_of, edges_of, find_job.
  rewrite Ej, Ep, Hc. destruct (committed s (j_batch x) (j_update x)); [|tauto].
  intros (A & B & C & D). repeat split; try tauto.
  intros p Hp. destruct (C p Hp) as (y & Fy & Cy). exists y. rewrite Hc. tauto.
Qed.

Lemma n_jobs_of_zero s b u : JInv s -> find_update s b u = None -> n_jobs_of s b u = 0.
Proof.
  intros J F. unfold n_jobs_of. rewrite filter_all_false; [reflexivity|].
  intros x Hx. destruct ((j_batch x =? b) && (j_update x =? u)) eqn:K; [|reflexivity]. exfalso.
  apply andb_true_iff in K. destruct K as [K1 K2].
  destruct (ju_jrange _ J x Hx) as (up & Fu & _). replace (j_batch x) with b in Fu by lia.
  replace (j_update x) with u in Fu by lia. congruence.
Qed.

Lemma JInv_add_update s n :
  JInv s -> DAux s ->
  u_committed n = false -> 0 <= u_njobs n ->
  match last_update s (u_batch n) with
  | Some l => u_id n = u_id l + 1 /\ u_start_job n = u_start_job l + u_njobs l
  | None => u_id n = 1 /\ u_start_job n = 1
  end ->
  JInv (s <| updates ::= fun l => l ++ [n] |>).
Proof.
  intros J A Hunc Hnj Hlast. pose proof J as [J1 J2 J3 J4 J5 J6 J7 J8 J9 J10].
  set (s' := s <| updates ::= fun l => l ++ [n] |>).
  assert (Eu : updates s' = updates s ++ [n]) by reflexivity.
  assert (Hc : forall b u, committed s' b u = committed s b u) by (intros; apply (committed_app_uncommitted s s' n); auto).
  pose proof (last_update_spec s (u_batch n)) as LS.
  (* the new key is fresh *)
  assert (Hfresh : forall x, In x (updates s) -> u_batch x = u_batch n -> u_id x < u_id n).
  { intros x Hx Hb. destruct (last_update s (u_batch n)) as [l|].
    - destruct LS as (_ & _ & Hmax). destruct Hlast as [-> _]. specialize (Hmax x Hx Hb). lia.
    - exfalso. apply (LS x Hx Hb). }
  assert (Hnone : find_update s (u_batch n) (u_id n) = None).
  { apply find_none_iff. intros x Hx. destruct ((u_batch x =? u_batch n) && (u_id x =? u_id n)) eqn:K; [|reflexivity].
    exfalso. apply andb_true_iff in K. destruct K as [K1 K2]. assert (u_batch x = u_batch n) by lia.
    specialize (Hfresh x Hx H). lia. }
  assert (Hfu : forall b u up, find_update s b u = Some up -> find_update s' b u = Some up).
  { intros b u up F. unfold find_update. rewrite Eu. apply find_app_some. exact F. }
  constructor.
  - exact J1.
  - rewrite Eu, map_app. cbn [map]. apply NoDup_app_intro; [exact J2 | repeat constructor; intros [] |].
    intros k Hk [<-|[]]. apply in_map_iff in Hk. destruct Hk as (x & E & Hx). injection E as E1 E2.
    specialize (Hfresh x Hx E1). lia.
  - rewrite Eu. intros u Hu. apply in_app_or in Hu. destruct Hu as [Hu|[<-|[]]]; [apply (J3 u Hu)|].
    split; [exact Hnj|]. destruct (last_update s (u_batch n)) as [l|].
    + destruct LS as (Hl & _ & _). destruct Hlast as [-> ->]. pose proof (J3 l Hl). lia.
    + destruct Hlast as [-> ->]. lia.
  - rewrite Eu. intros x y Hx Hy Hb Hlt. apply in_app_or in Hx. apply in_app_or in Hy.
    destruct Hx as [Hx|[<-|[]]], Hy as [Hy|[<-|[]]].
    + apply J4; assumption.
    + destruct (last_update s (u_batch n)) as [l|]; [|exfalso; apply (LS x Hx Hb)].
      destruct LS as (Hl & Hlb & Hmax). destruct Hlast as [Hid ->].
      specialize (Hmax x Hx Hb). destruct (Z.eq_dec (u_id x) (u_id l)) as [E|E].
      * assert (x = l); [|subst; lia]. apply (NoDup_map_inj uk (updates s)); auto. unfold uk. congruence.
      * pose proof (J4 x l Hx Hl (eq_trans Hb (eq_sym Hlb)) ltac:(lia)). pose proof (J3 l Hl). lia.
    + specialize (Hfresh y Hy (eq_sym Hb)). lia.
    + lia.
  - intros x Hx. destruct (J5 x Hx) as (up & F & R). exists up. split; [apply Hfu; exact F | exact R].
  - intros [[b j] p] He. specialize (J6 _ He). cbn in *.
    destruct J6 as (R & x & up & F1 & F2 & F3). split; [exact R|]. exists x, up.
    split; [exact F1|]. split; [apply Hfu; exact F2|].
    intros Hp. destruct (F3 Hp) as (y & Fy & Cy). exists y. split; [exact Fy|]. unfold jcommitted in *. rewrite Hc. exact Cy.
  - exact J7.
  - intros x Hx. apply (job_ok_committed_ext s); auto.
  - rewrite Eu. intros u Hu Hcu. apply in_app_or in Hu. destruct Hu as [Hu|[<-|[]]]; [apply (J9 u Hu Hcu)|].
    change (root_staged s' (u_batch n) (u_id n)) with (root_staged s (u_batch n) (u_id n)).
    change (n_jobs_of s' (u_batch n) (u_id n)) with (n_jobs_of s (u_batch n) (u_id n)).
    rewrite (a_staged0 _ A _ _ Hnone), (n_jobs_of_zero s _ _ J Hnone). reflexivity.
  - rewrite Eu. intros u Hu Hid. apply in_app_or in Hu. destruct Hu as [Hu|[<-|[]]]; [apply (J10 u Hu Hid)|].
    destruct (last_update s (u_batch n)) as [l|].
    + destruct LS as (Hl & _ & _). destruct Hlast as [E _]. pose proof (J3 l Hl). lia.
    + tauto.
Qed.

Lemma DAux_add_update s n :
  DAux s -> 0 <= u_ngroups n ->
  match last_update s (u_batch n) with
  | Some l => u_start_group n = u_start_group l + u_ngroups l
  | None => u_start_group n = 1
  end ->
  DAux (s <| updates ::= fun l => l ++ [n] |>).
Proof.
  intros [A1 A2] Hng Hlast. constructor.
  - cbn. intros u Hu. apply in_app_or in Hu. destruct Hu as [Hu|[<-|[]]]; [apply (A1 u Hu)|].
    split; [|exact Hng]. pose proof (last_update_spec s (u_batch n)) as LS.
    destruct (last_update s (u_batch n)) as [l|].
    + destruct LS as (Hl & _). pose proof (A1 l Hl). lia.
    + lia.
  - intros b u F. change (root_staged _ b u) with (root_staged s b u). apply A2.
    unfold find_update in *. cbn in F. destruct (find _ (updates s)) as [x|] eqn:F'; [|reflexivity].
    rewrite (find_app_some _ _ _ _ F') in F. discriminate.
Qed.

(* the success path of create_update *)
Definition create_update_row (s : state) (b token n_jobs n_groups : Z) : update :=
  let '(uid, sg, sj) := match last_update s b with
                        | Some l => (u_id l + 1, u_start_group l + u_ngroups l, u_start_job l + u_njobs l)
                        | None => (1, 1, 1)
                        end in
  mkUpdate b uid token sj n_jobs sg n_groups false.

Lemma do_create_update_cases s b user token nj ng :
  fst (do_create_update s b user token nj ng) = s \/
  (0 <= nj /\ 0 <= ng /\
   fst (do_create_update s b user token nj ng) = s <| updates ::= fun l => l ++ [create_update_row s b token nj ng] |>).
Proof.
  unfold do_create_update, create_update_row.
  destruct ((nj <? 0) || (ng <? 0)) eqn:V; [left; reflexivity|].
  apply orb_false_iff in V. destruct V as [V1 V2].
  destruct (negb _); [left; reflexivity|].
  match goal with |- context [match (if ?c then _ else _) with _ => _ end] => destruct c end.
  - destruct (find _ (updates s)); [left; reflexivity|].
    destruct (find_batch s b) as [bt|]; [|left; reflexivity].
    destruct (_ || _); [left; reflexivity|]. destruct (marked s b 0); [left; reflexivity|].
    right. split; [lia|]. split; [lia|]. destruct (last_update s b) as [l|]; reflexivity.
  - destruct (find_batch s b) as [bt|]; [|left; reflexivity].
    destruct (_ || _); [left; reflexivity|]. destruct (marked s b 0); [left; reflexivity|].
    right. split; [lia|]. split; [lia|]. destruct (last_update s b) as [l|]; reflexivity.
Qed.

Lemma DInv_create_update_aux s b user token nj ng :
  DInv s -> DAux s -> DInv (fst (do_create_update s b user token nj ng)).
Proof.
  intros D A. destruct (do_create_update_cases s b user token nj ng) as [->|(Hj & Hg & ->)]; [exact D|].
  apply DInv_split in D. destruct D as (J & G & X). apply DInv_split. split; [|split].
  - apply JInv_add_update; auto.
    + unfold create_update_row. destruct (last_update s b); reflexivity.
    + unfold create_update_row. destruct (last_update s b); cbn; lia.
    + replace (u_batch (create_update_row s b token nj ng)) with b by (unfold create_update_row; destruct (last_update s b); reflexivity).
      unfold create_update_row. destruct (last_update s b); cbn; split; reflexivity.
  - apply (GInv_ext s); try reflexivity. exact G.
  - apply (XInv_ext s); try reflexivity. exact X.
Qed.

Lemma DAux_create_update s b user token nj ng :
  DAux s -> DAux (fst (do_create_update s b user token nj ng)).
Proof.
  intros A. destruct (do_create_update_cases s b user token nj ng) as [->|(Hj & Hg & ->)]; [exact A|].
  apply DAux_add_update; auto.
  - unfold create_update_row. destruct (last_update s b); cbn; lia.
  - replace (u_batch (create_update_row s b token nj ng)) with b by (unfold create_update_row; destruct (last_update s b); reflexivity).
    unfold create_update_row. destruct (last_update s b); cbn; reflexivity.
Qed.

(** The statement asked for; [client_ok] is implied by the model's own validation (validate_batch_update),
    [DAux] is the part of the auxiliary invariant that [DInv] lacks (see the header). *)
Lemma DInv_create_update s b user token nj ng :
  DInv s -> DAux s -> client_ok (CreateUpdate b user token nj ng) = true ->
  DInv (fst (do_create_update s b user token nj ng)).
Proof. intros D A _. apply DInv_create_update_aux; assumption. Qed.

(* ------------------------------------------------------------------ create job groups *)

Definition mg_step (b : Z) (acc : Z) (x : group) : Z := if g_batch x =? b then Z.max acc (g_id x) else acc.

Lemma max_group_id_eq s b : max_group_id s b = fold_left (mg_step b) (groups s) (-1).
Proof. reflexivity. Qed.

Lemma max_group_fold b l : forall acc,
  let r := fold_left (mg_step b) l acc in
  acc <= r /\ (forall x, In x l -> g_batch x = b -> g_id x <= r) /\
  (r = acc \/ exists x, In x l /\ g_batch x = b /\ g_id x = r).
Proof.
  induction l as [|y l IH]; intros acc; cbn [fold_left].
  - split; [lia|]. split; [intros x []|]. left; reflexivity.
  - specialize (IH (mg_step b acc y)). cbv zeta in IH. destruct IH as (I1 & I2 & I3).
    set (r := fold_left (mg_step b) l (mg_step b acc y)) in *.
    unfold mg_step in I1, I3. destruct (g_batch y =? b) eqn:Eb.
    + split; [lia|]. split.
      * intros x [<-|Hx] Hb; [lia | apply I2; assumption].
      * destruct I3 as [I3|(x & Hx & Hb & Hr)].
        -- destruct (Z.max_spec acc (g_id y)) as [[_ M]|[_ M]].
           ++ right. exists y. split; [left; reflexivity|]. split; [lia|lia].
           ++ left. lia.
        -- right. exists x. split; [right; exact Hx | tauto].
    + split; [exact I1|]. split.
      * intros x [<-|Hx] Hb; [lia | apply I2; assumption].
      * destruct I3 as [I3|(x & Hx & Hb & Hr)]; [left; exact I3|].
        right. exists x. split; [right; exact Hx | tauto].
Qed.

Lemma max_group_id_cgr s b g upd parent root :
  max_group_id (create_group_rows s b g upd parent root) b = Z.max (max_group_id s b) g.
Proof.
  rewrite !max_group_id_eq, cgr_groups, fold_left_app. cbn [fold_left]. unfold mg_step at 1. cbn [g_batch g_id].
  rewrite Z.eqb_refl. reflexivity.
Qed.

Lemma fold_create_one_group_none b u sg gss : fold_left (create_one_group b u sg) gss None = None.
Proof. induction gss as [|g r IH]; [reflexivity | exact IH]. Qed.

Definition gspec_ok (g : gspec) : bool :=
  match gs_parent_abs g with Some p => 0 <=? p | None => 1 <=? gs_parent_rel g end.

Lemma create_one_group_ok s b u sg gs s' :
  DInv s -> find_batch s b <> None ->
  sg + gs_id gs - 1 = max_group_id s b + 1 -> 0 <= sg -> gspec_ok gs = true ->
  create_one_group b u sg (Some s) gs = Some s' ->
  DInv s' /\ updates s' = updates s /\ staging s' = staging s /\ batches s' = batches s /\
  max_group_id s' b = sg + gs_id gs - 1.
Proof.
  intros D Hb Hmax Hsg Hok. unfold create_one_group. cbv zeta.
  set (g := sg + gs_id gs - 1) in *.
  set (parent := match gs_parent_abs gs with Some p => p | None => sg + gs_parent_rel gs - 1 end).
  destruct (group_cancelled s b parent); [discriminate|].
  destruct (find_group s b g) eqn:Hn; [discriminate|].
  destruct (parent <? g) eqn:Hlt; cbn [negb]; [|discriminate].
  destruct (MAX_JOB_GROUPS_DEPTH <? _); [discriminate|]. intros E. injection E as <-.
  assert (Hpar : 0 <= parent < g).
  { split; [|lia]. unfold parent, gspec_ok in *. destruct (gs_parent_abs gs); lia. }
  pose proof (max_group_fold b (groups s) (-1)) as MG. cbv zeta in MG. rewrite <- max_group_id_eq in MG.
  destruct MG as (M1 & M2 & M3).
  split; [|split; [reflexivity|split; [reflexivity|split; [reflexivity|]]]].
  - apply DInv_create_group_rows; auto; try discriminate.
    intros g' R. destruct M3 as [M3|(x & Hx & Hxb & Hxg)]; [lia|].
    rewrite <- Hxb. apply (d_gcontig _ D x Hx). lia.
  - rewrite max_group_id_cgr. lia.
Qed.

Lemma create_groups_fold b u sg : forall gss s s',
  DInv s -> find_batch s b <> None -> 0 <= sg ->
  contiguous (map gs_id gss) = true -> forallb gspec_ok gss = true ->
  (forall g0, hd_error gss = Some g0 -> sg + gs_id g0 - 1 = max_group_id s b + 1) ->
  fold_left (create_one_group b u sg) gss (Some s) = Some s' ->
  DInv s' /\ updates s' = updates s /\ staging s' = staging s.
Proof.
  induction gss as [|g0 r IH]; intros s s' D Hb Hsg Hc Hok Hhd Hf; cbn [fold_left] in Hf.
  - injection Hf as <-. auto.
  - cbn [forallb] in Hok. apply andb_true_iff in Hok. destruct Hok as [Hok0 Hokr].
    destruct (create_one_group b u sg (Some s) g0) as [s1|] eqn:E1.
    2:{ rewrite fold_create_one_group_none in Hf. discriminate. }
    destruct (create_one_group_ok s b u sg g0 s1 D Hb (Hhd g0 eq_refl) Hsg Hok0 E1) as (D1 & U1 & S1 & B1 & M1).
    destruct (IH s1 s' D1) as (D' & U' & S'); auto.
    + unfold find_batch. rewrite B1. exact Hb.
    + destruct r as [|g1 r']; [reflexivity|]. cbn [map contiguous] in Hc |- *.
      apply andb_true_iff in Hc. tauto.
    + intros g1 Hg1. destruct r as [|g1' r']; [discriminate|]. cbn in Hg1. injection Hg1 as ->.
      cbn [map contiguous] in Hc. apply andb_true_iff in Hc. destruct Hc as [Hc _]. rewrite M1. lia.
    + split; [exact D'|]. split; congruence.
Qed.

Lemma do_create_groups_cases s b u user gss :
  fst (do_create_groups s b u user gss) = s \/
  exists up g0 r s', find_update s b u = Some up /\ find_batch s b <> None /\ gss = g0 :: r /\
    u_start_group up + gs_id g0 - 1 = max_group_id s b + 1 /\
    fold_left (create_one_group b u (u_start_group up)) gss (Some s) = Some s' /\
    fst (do_create_groups s b u user gss) = s'.
Proof.
  unfold do_create_groups. destruct (is_nil gss); [left; reflexivity|].
  destruct (find_update s b u) as [up|]; [|left; reflexivity].
  destruct (find_batch s b) as [bt|] eqn:Fb; [|left; reflexivity].
  destruct (_ || _); [left; reflexivity|]. destruct (u_committed up); [left; reflexivity|].
  destruct gss as [|g0 r]; [left; reflexivity|].
  destruct (u_start_group up + gs_id g0 - 1 =? max_group_id s b + 1) eqn:Hm; [|left; reflexivity]. cbn [negb].
  destruct (fold_left _ (g0 :: r) (Some s)) as [s'|] eqn:Hf; [|left; reflexivity].
  right. exists up, g0, r, s'. repeat split; try reflexivity; try assumption; [discriminate | lia].
Qed.

Lemma DInv_create_groups s b u user gs :
  DInv s -> DAux s -> client_ok (CreateGroups b u user gs) = true ->
  DInv (fst (do_create_groups s b u user gs)).
Proof.
  intros D A Hc. destruct (do_create_groups_cases s b u user gs) as [->|(up & g0 & r & s' & Fu & Fb & -> & Hm & Hf & ->)]; [exact D|].
  cbn [client_ok] in Hc. apply andb_true_iff in Hc. destruct Hc as [Hc1 Hc2].
  apply find_update_sound in Fu. destruct Fu as (Hup & _).
  pose proof (a_gpos _ A up Hup) as [Hsg _].
  destruct (create_groups_fold b u (u_start_group up) (g0 :: r) s s' D Fb ltac:(lia) Hc1 Hc2) as (D' & _); auto.
  intros g0' E. cbn in E. injection E as <-. exact Hm.
Qed.

Lemma DAux_create_groups s b u user gs :
  DInv s -> DAux s -> client_ok (CreateGroups b u user gs) = true ->
  DAux (fst (do_create_groups s b u user gs)).
Proof.
  intros D A Hc. destruct (do_create_groups_cases s b u user gs) as [->|(up & g0 & r & s' & Fu & Fb & -> & Hm & Hf & ->)]; [exact A|].
  cbn [client_ok] in Hc. apply andb_true_iff in Hc. destruct Hc as [Hc1 Hc2].
  apply find_update_sound in Fu. destruct Fu as (Hup & _).
  pose proof (a_gpos _ A up Hup) as [Hsg _].
  destruct (create_groups_fold b u (u_start_group up) (g0 :: r) s s' D Fb ltac:(lia) Hc1 Hc2) as (_ & U' & S'); auto.
  - intros g0' E. cbn in E. injection E as <-. exact Hm.
  - apply (DAux_ext s); assumption.
Qed.
