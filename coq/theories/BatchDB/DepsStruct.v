(** [DInv] is preserved by the structural client ops: cancel group, delete batch, staging clean-up,
    create batch, create update, create job groups.

    [DInv] is split into three parts that depend on disjoint sets of tables:
      [JInv]  jobs / updates / parents / staging,
      [GInv]  groups / ancestors,
      [XInv]  the cross clauses (jobs-groups, batches-next_batch, groups-batches).

    Two facts that the proofs of create_update / create_groups need are NOT consequences of [DInv]; they are
    collected in [DAux] (proved to be preserved by the ops of this file and of DepsCreateJobs.v):
      - the reserved group ranges start at 1 and are non-negative (create_groups: a relative parent id is >= 0);
      - a (batch, update) key that does not exist has no root staging counter (create_update: the fresh update
        starts with a zero counter). *)
From HailV Require Import Common.Prelude BatchDB.Model BatchDB.Tables BatchDB.CMap BatchDB.JobsWF BatchDB.StepCore
  BatchDB.JobFold BatchDB.Legal BatchDB.DepsDef BatchDB.DepsEasy.
From RecordUpdate Require Import RecordSet.
Import RecordSetNotations.
Open Scope Z_scope.

(* ------------------------------------------------------------------ the three parts of DInv *)

Record JInv (s : state) : Prop := {
  ju_jkeys : Kjobs s;
  ju_ukeys : NoDup (map uk (updates s));
  ju_upos : forall u, In u (updates s) -> 0 <= u_njobs u /\ 1 <= u_start_job u /\ 1 <= u_id u;
  ju_uorder : forall x y, In x (updates s) -> In y (updates s) -> u_batch x = u_batch y -> u_id x < u_id y ->
               u_start_job x + u_njobs x <= u_start_job y;
  ju_jrange : forall x, In x (jobs s) -> exists up, find_update s (j_batch x) (j_update x) = Some up /\
               u_start_job up <= j_id x < u_start_job up + u_njobs up;
  ju_edges : forall e, In e (parents s) -> edge_ok s e;
  ju_enodup : NoDup (parents s);
  ju_jobs : forall x, In x (jobs s) -> job_ok s x;
  ju_staged : forall u, In u (updates s) -> u_committed u = false ->
               root_staged s (u_batch u) (u_id u) = n_jobs_of s (u_batch u) (u_id u) }.

Record GInv (s : state) : Prop := {
  gr_root : forall g, In g (groups s) -> root_once s (g_batch g) (g_id g);
  gr_gcontig : forall g, In g (groups s) -> forall g', 0 <= g' <= g_id g -> find_group s (g_batch g) g' <> None;
  gr_gkeys : NoDup (map (fun g => (g_batch g, g_id g)) (groups s));
  gr_ancgrp : forall r, In r (ancestors s) -> find_group s (fst (fst (fst r))) (snd (fst (fst r))) <> None }.

Record XInv (s : state) : Prop := {
  x_jgroup : forall x, In x (jobs s) -> find_group s (j_batch x) (j_group x) <> None;
  x_bfresh : forall bt, In bt (batches s) -> b_id bt < next_batch s;
  x_gbatch : forall g, In g (groups s) -> find_batch s (g_batch g) <> None }.

Lemma DInv_split s : DInv s <-> JInv s /\ GInv s /\ XInv s.
Proof.
  split.
  - intros []. split; [|split]; constructor; assumption.
  - intros ([] & [] & []). constructor; assumption.
Qed.

Lemma JInv_ext s s' :
  jobs s' = jobs s -> parents s' = parents s -> updates s' = updates s -> staging s' = staging s -> JInv s -> JInv s'.
Proof. destruct s, s'. cbn. intros -> -> -> ->. intros []. constructor; assumption. Qed.

Lemma GInv_ext s s' : groups s' = groups s -> ancestors s' = ancestors s -> GInv s -> GInv s'.
Proof. destruct s, s'. cbn. intros -> ->. intros []. constructor; assumption. Qed.

(* ------------------------------------------------------------------ small list / lookup facts *)

Lemma find_app_some {A} (f : A -> bool) l l' x : find f l = Some x -> find f (l ++ l') = Some x.
Proof. induction l as [|a l IH]; cbn [find app]; [discriminate | destruct (f a); auto]. Qed.

Lemma find_app_none {A} (f : A -> bool) l l' : find f l = None -> find f (l ++ l') = find f l'.
Proof. induction l as [|a l IH]; cbn [find app]; [reflexivity | destruct (f a); [discriminate | auto]]. Qed.

Lemma find_app_mono {A} (f : A -> bool) l l' : find f l <> None -> find f (l ++ l') <> None.
Proof. destruct (find f l) eqn:F; [|congruence]. intros _. rewrite (find_app_some _ _ _ _ F). discriminate. Qed.

Lemma find_none_iff {A} (f : A -> bool) l : find f l = None <-> forall x, In x l -> f x = false.
Proof.
  split; [apply find_none|]. intros H. destruct (find f l) eqn:F; [|reflexivity].
  apply find_some in F. destruct F as [Hin Hf]. rewrite (H _ Hin) in Hf. discriminate.
Qed.

Lemma find_not_none {A} (f : A -> bool) l x : In x l -> f x = true -> find f l <> None.
Proof. intros Hin Hf F. rewrite (find_none _ _ F x Hin) in Hf. discriminate. Qed.

Lemma NoDup_map_inj {A B} (f : A -> B) l x y : NoDup (map f l) -> In x l -> In y l -> f x = f y -> x = y.
Proof.
  induction l as [|a l IH]; intros ND Hx Hy E; [contradiction|].
  cbn [map] in ND. inversion ND as [|? ? Hn ND']; subst.
  destruct Hx as [->|Hx], Hy as [->|Hy]; auto.
  - exfalso. apply Hn. rewrite E. apply in_map. exact Hy.
  - exfalso. apply Hn. rewrite <- E. apply in_map. exact Hx.
Qed.

Lemma NoDup_app_intro {A} (l1 l2 : list A) :
  NoDup l1 -> NoDup l2 -> (forall x, In x l1 -> In x l2 -> False) -> NoDup (l1 ++ l2).
Proof.
  induction l1 as [|a l1 IH]; intros N1 N2 Hd; [exact N2|].
  inversion N1 as [|? ? Hn N1']; subst. cbn [app]. constructor.
  - intros Hin. apply in_app_or in Hin. destruct Hin as [Hin|Hin]; [contradiction|].
    apply (Hd a); [left; reflexivity | exact Hin].
  - apply IH; auto. intros x H1 H2. apply (Hd x); [right; exact H1 | exact H2].
Qed.

Lemma find_update_in s u : NoDup (map uk (updates s)) -> In u (updates s) -> find_update s (u_batch u) (u_id u) = Some u.
Proof.
  intros ND Hin. unfold find_update.
  destruct (find _ (updates s)) as [y|] eqn:F.
  - apply find_some in F. destruct F as [Hy Hk]. apply andb_true_iff in Hk. destruct Hk as [K1 K2].
    f_equal. apply (NoDup_map_inj uk (updates s)); auto. unfold uk. f_equal; lia.
  - exfalso. pose proof (find_none _ _ F u Hin) as E. cbv beta in E. rewrite !Z.eqb_refl in E. discriminate.
Qed.

Lemma find_update_sound s b u x : find_update s b u = Some x -> In x (updates s) /\ u_batch x = b /\ u_id x = u.
Proof.
  intros F. apply find_some in F. destruct F as [Hin Hk]. apply andb_true_iff in Hk. destruct Hk as [K1 K2].
  repeat split; [exact Hin | lia | lia].
Qed.

Lemma find_group_sound s b g x : find_group s b g = Some x -> In x (groups s) /\ g_batch x = b /\ g_id x = g.
Proof.
  intros F. apply find_some in F. destruct F as [Hin Hk]. apply andb_true_iff in Hk. destruct Hk as [K1 K2].
  repeat split; [exact Hin | lia | lia].
Qed.

Lemma find_group_in s g : In g (groups s) -> find_group s (g_batch g) (g_id g) <> None.
Proof. intros Hin. apply (find_not_none _ _ g Hin). rewrite !Z.eqb_refl. reflexivity. Qed.

Lemma find_batch_iff s b : find_batch s b <> None <-> In b (map b_id (batches s)).
Proof.
  unfold find_batch. split.
  - destruct (find _ (batches s)) as [x|] eqn:F; [|congruence]. intros _.
    apply find_some in F. destruct F as [Hin Hk]. apply in_map_iff. exists x. split; [lia | exact Hin].
  - intros Hin. apply in_map_iff in Hin. destruct Hin as (x & <- & Hin).
    apply (find_not_none _ _ x Hin). apply Z.eqb_refl.
Qed.

(* ------------------------------------------------------------------ XInv when only the batches' ids matter *)

Lemma XInv_ext s s' :
  jobs s' = jobs s -> groups s' = groups s -> map b_id (batches s') = map b_id (batches s) -> next_batch s' = next_batch s ->
  XInv s -> XInv s'.
Proof.
  intros Ej Eg Eb En [X1 X2 X3]. constructor.
  - rewrite Ej. intros x Hx. unfold find_group. rewrite Eg. apply (X1 x Hx).
  - intros bt Hbt. rewrite En.
    assert (Hin : In (b_id bt) (map b_id (batches s))) by (rewrite <- Eb; apply in_map; exact Hbt).
    apply in_map_iff in Hin. destruct Hin as (bt' & E & Hin'). rewrite <- E. apply X2. exact Hin'.
  - rewrite Eg. intros g Hg. apply find_batch_iff. rewrite Eb. apply find_batch_iff. apply (X3 g Hg).
Qed.

(** [DInv] looks at [batches] only through the ids, and not at all at [marks]. *)
Lemma DInv_frame s s' :
  jobs s' = jobs s -> parents s' = parents s -> updates s' = updates s -> staging s' = staging s ->
  groups s' = groups s -> ancestors s' = ancestors s ->
  map b_id (batches s') = map b_id (batches s) -> next_batch s' = next_batch s -> DInv s -> DInv s'.
Proof.
  intros E1 E2 E3 E4 E5 E6 E7 E8 D. apply DInv_split in D. destruct D as (J & G & X). apply DInv_split.
  split; [|split].
  - apply (JInv_ext s); assumption.
  - apply (GInv_ext s); assumption.
  - apply (XInv_ext s); assumption.
Qed.

(* ------------------------------------------------------------------ the auxiliary invariant *)

Record DAux (s : state) : Prop := {
  a_gpos : forall u, In u (updates s) -> 1 <= u_start_group u /\ 0 <= u_ngroups u;
  a_staged0 : forall b u, find_update s b u = None -> root_staged s b u = 0 }.

Lemma DAux_ext s s' : updates s' = updates s -> staging s' = staging s -> DAux s -> DAux s'.
Proof. destruct s, s'. cbn. intros -> ->. intros []. constructor; assumption. Qed.

Lemma DAux_init : DAux init.
Proof. constructor; [intros u []|]. intros b u _. reflexivity. Qed.

(* ------------------------------------------------------------------ cancel_job_group, delete batch *)

(* everything [DInv] and [DAux] look at, except the batches *)
Definition same_core (s s' : state) : Prop :=
  jobs s' = jobs s /\ parents s' = parents s /\ updates s' = updates s /\ staging s' = staging s /\
  groups s' = groups s /\ ancestors s' = ancestors s /\ batches s' = batches s /\ next_batch s' = next_batch s.

Lemma same_core_refl s : same_core s s.
Proof. repeat split. Qed.
Lemma same_core_trans s1 s2 s3 : same_core s1 s2 -> same_core s2 s3 -> same_core s1 s3.
Proof. unfold same_core. intuition congruence. Qed.

Lemma same_core_fold {A} (f : state -> A -> state) l s :
  (forall st x, same_core st (f st x)) -> same_core s (fold_left f l s).
Proof.
  intros H. revert s. induction l as [|x l IH]; intros s; cbn [fold_left]; [apply same_core_refl|].
  eapply same_core_trans; [apply H | apply IH].
Qed.

Lemma same_core_cancel_proc s b g : same_core s (cancel_proc s b g).
Proof.
  unfold cancel_proc. destruct (group_cancelled s b g); [apply same_core_refl|].
  match goal with |- context [fold_left ?f (cancellable s) s] => set (s1 := fold_left f (cancellable s) s) end.
  assert (C1 : same_core s s1).
  { subst s1. apply same_core_fold. intros st kv.
    destruct kv as [k v].
    destruct k as [|b' [|u' [|g' [|ic [|? ?]]]]]; try apply same_core_refl.
    destruct v as [|nr [|rc [|ncr [|nrun [|runc [|? ?]]]]]]; try apply same_core_refl.
    destruct (_ && _); [repeat split | apply same_core_refl]. }
  eapply same_core_trans; [exact C1|]. repeat split.
Qed.

Lemma DInv_same_core s s' : same_core s s' -> DInv s -> DInv s'.
Proof.
  intros (E1&E2&E3&E4&E5&E6&E7&E8). apply DInv_frame; try assumption. rewrite E7. reflexivity.
Qed.

Lemma DAux_same_core s s' : same_core s s' -> DAux s -> DAux s'.
Proof. intros (E1&E2&E3&E4&E5&E6&E7&E8). apply DAux_ext; assumption. Qed.

Lemma DInv_cancel_proc s b g : DInv s -> DInv (cancel_proc s b g).
Proof. apply DInv_same_core, same_core_cancel_proc. Qed.

Lemma DInv_cancel_group s b g : DInv s -> DInv (fst (do_cancel_group s b g)).
Proof.
  intros D. unfold do_cancel_group. destruct (find_group s b g) as [gr|]; [|exact D].
  destruct (find_batch s b) as [bt|]; [|exact D].
  match goal with |- context [if ?c then _ else _] => destruct c end; cbn [fst]; [exact D|].
  apply DInv_cancel_proc. exact D.
Qed.

Lemma DAux_cancel_group s b g : DAux s -> DAux (fst (do_cancel_group s b g)).
Proof.
  intros D. unfold do_cancel_group. destruct (find_group s b g) as [gr|]; [|exact D].
  destruct (find_batch s b) as [bt|]; [|exact D].
  match goal with |- context [if ?c then _ else _] => destruct c end; cbn [fst]; [exact D|].
  apply (DAux_same_core s); [apply same_core_cancel_proc | exact D].
Qed.

Lemma map_b_id_deleted b l :
  map b_id (map (fun x => if b_id x =? b then x <| b_deleted := true |> else x) l) = map b_id l.
Proof. rewrite map_map. apply map_ext. intros x. destruct (b_id x =? b); reflexivity. Qed.

Lemma DInv_delete_batch s b : DInv s -> DInv (fst (do_delete_batch s b)).
Proof.
  intros D. unfold do_delete_batch. destruct (find_batch s b) as [bt|]; [|exact D].
  destruct (b_deleted bt); cbn [fst]; [exact D|].
  pose proof (same_core_cancel_proc s b 0) as (E1&E2&E3&E4&E5&E6&E7&E8).
  apply (DInv_frame s); cbn; try assumption.
  rewrite map_b_id_deleted, E7. reflexivity.
Qed.

Lemma DAux_delete_batch s b : DAux s -> DAux (fst (do_delete_batch s b)).
Proof.
  intros D. unfold do_delete_batch. destruct (find_batch s b) as [bt|]; [|exact D].
  destruct (b_deleted bt); cbn [fst]; [exact D|].
  pose proof (same_core_cancel_proc s b 0) as (E1&E2&E3&E4&E5&E6&E7&E8).
  apply (DAux_ext s); cbn; assumption.
Qed.

(* ------------------------------------------------------------------ staging clean-up *)

Definition staging_keep (s : state) (k : list Z) : bool :=
  match k with
  | [b; u; _; _] => negb (match find_update s b u with Some x => u_committed x | None => false end)
  | _ => true
  end.

Lemma root_key_keep s b u k :
  (match find_update s b u with Some x => u_committed x | None => false end) = false ->
  key_eqb (firstn 3 k) [b; u; 0] && staging_keep s k = key_eqb (firstn 3 k) [b; u; 0].
Proof.
  intros Hc. destruct (key_eqb (firstn 3 k) [b; u; 0]) eqn:E; [|reflexivity]. cbn [andb].
  apply key_eqb_eq in E.
  destruct k as [|b' [|u' [|g' [|ic [|? ?]]]]]; try reflexivity.
  cbn in E. injection E as -> -> ->. unfold staging_keep. rewrite Hc. reflexivity.
Qed.

Lemma root_staged_cleanup s b u :
  (match find_update s b u with Some x => u_committed x | None => false end) = false ->
  root_staged (fst (do_cleanup_staging s)) b u = root_staged s b u.
Proof.
  intros Hc. unfold root_staged, cval, do_cleanup_staging. cbn [fst].
  change (staging (s <| staging ::= ?f |>)) with (f (staging s)). cbv beta.
  change (filter _ (staging s)) with (filter (fun kv => staging_keep s (fst kv)) (staging s)).
  rewrite csum_filter. f_equal. apply csum_ext. intros k. apply root_key_keep. exact Hc.
Qed.

Lemma DInv_cleanup_staging s : DInv s -> DInv (fst (do_cleanup_staging s)).
Proof.
  intros D. pose proof D as D0. apply DInv_split in D. destruct D as (J & G & X). apply DInv_split.
  split; [|split].
  - destruct J as [J1 J2 J3 J4 J5 J6 J7 J8 J9].
    constructor; try assumption.
    intros u Hu Hc. rewrite root_staged_cleanup; [apply (J9 u Hu Hc)|].
    change (find_update (fst (do_cleanup_staging s))) with (find_update s) in *.
    rewrite (find_update_in s u J2 Hu). exact Hc.
  - apply (GInv_ext s); [reflexivity | reflexivity | exact G].
  - apply (XInv_ext s); try reflexivity. exact X.
Qed.

Lemma DAux_cleanup_staging s : DAux s -> DAux (fst (do_cleanup_staging s)).
Proof.
  intros [A1 A2]. constructor; [exact A1|].
  intros b u F. change (find_update (fst (do_cleanup_staging s)) b u) with (find_update s b u) in F.
  rewrite root_staged_cleanup; [apply A2; exact F | rewrite F; reflexivity].
Qed.

(* ------------------------------------------------------------------ inserting one group (create_group_rows) *)

Definition akey (b g : Z) (r : Z * Z * Z * Z) : bool := let '(b', g', _, _) := r in (b' =? b) && (g' =? g).
Definition athird (r : Z * Z * Z * Z) : Z := let '(_, _, a, _) := r in a.

Lemma anc_rows_eq s b g : anc_rows s b g = filter (akey b g) (ancestors s).
Proof. reflexivity. Qed.
Lemma anc_ids_eq s b g : anc_ids s b g = map athird (anc_rows s b g).
Proof. reflexivity. Qed.

Lemma filter_all_false {A} (f : A -> bool) l : (forall x, In x l -> f x = false) -> filter f l = [].
Proof.
  induction l as [|a l IH]; intros H; [reflexivity|]. cbn [filter].
  rewrite (H a (or_introl eq_refl)). apply IH. intros x Hx. apply H. right; exact Hx.
Qed.

Lemma filter_all_true {A} (f : A -> bool) l : (forall x, In x l -> f x = true) -> filter f l = l.
Proof.
  induction l as [|a l IH]; intros H; [reflexivity|]. cbn [filter].
  rewrite (H a (or_introl eq_refl)). f_equal. apply IH. intros x Hx. apply H. right; exact Hx.
Qed.

Lemma anc_rows_none s b g : GInv s -> find_group s b g = None -> anc_rows s b g = [].
Proof.
  intros G Hn. rewrite anc_rows_eq. apply filter_all_false. intros [[[b' g'] a] l] Hin.
  destruct (akey b g (b', g', a, l)) eqn:K; [|reflexivity]. exfalso.
  cbn in K. apply andb_true_iff in K. destruct K as [K1 K2].
  apply (gr_ancgrp _ G _ Hin). cbn [fst snd]. replace b' with b by lia. replace g' with g by lia. exact Hn.
Qed.

Definition new_anc_rows (s : state) (b g parent : Z) (root : bool) : list (Z * Z * Z * Z) :=
  (if root then [] else map (fun r => let '(_, _, a, lvl) := r in (b, g, a, lvl + 1)) (anc_rows s b parent)) ++ [(b, g, g, 0)].

Lemma cgr_groups s b g upd parent root :
  groups (create_group_rows s b g upd parent root) = groups s ++ [mkGroup b g false 0 0 0 0 0 upd].
Proof. reflexivity. Qed.
Lemma cgr_ancestors s b g upd parent root :
  ancestors (create_group_rows s b g upd parent root) = ancestors s ++ new_anc_rows s b g parent root.
Proof. reflexivity. Qed.

Lemma new_anc_rows_key s b g parent root r : In r (new_anc_rows s b g parent root) -> fst (fst (fst r)) = b /\ snd (fst (fst r)) = g.
Proof.
  unfold new_anc_rows. intros Hin. apply in_app_or in Hin. destruct Hin as [Hin|[<-|[]]]; [|split; reflexivity].
  destruct root; [contradiction|]. apply in_map_iff in Hin. destruct Hin as ([[[b' g'] a] l] & <- & _). split; reflexivity.
Qed.

Lemma new_anc_rows_filter s b g parent root b' g' :
  filter (akey b' g') (new_anc_rows s b g parent root) = if (b =? b') && (g =? g') then new_anc_rows s b g parent root else [].
Proof.
  destruct ((b =? b') && (g =? g')) eqn:K.
  - apply filter_all_true. intros [[[b2 g2] a] l] Hin. apply new_anc_rows_key in Hin. cbn in Hin. destruct Hin as [-> ->]. exact K.
  - apply filter_all_false. intros [[[b2 g2] a] l] Hin. apply new_anc_rows_key in Hin. cbn in Hin. destruct Hin as [-> ->]. exact K.
Qed.

Lemma new_anc_rows_ids s b g parent root :
  map athird (new_anc_rows s b g parent root) = (if root then [] else anc_ids s b parent) ++ [g].
Proof.
  unfold new_anc_rows. rewrite map_app. cbn [map athird]. f_equal.
  destruct root; [reflexivity|]. rewrite anc_ids_eq, map_map. apply map_ext. intros [[[b' g'] a] l]. reflexivity.
Qed.

Lemma cgr_anc_rows s b g upd parent root b' g' :
  anc_rows (create_group_rows s b g upd parent root) b' g' =
  anc_rows s b' g' ++ (if (b =? b') && (g =? g') then new_anc_rows s b g parent root else []).
Proof. rewrite !anc_rows_eq, cgr_ancestors, filter_app, new_anc_rows_filter. reflexivity. Qed.

Lemma cgr_find_group_mono s b g upd parent root b' g' :
  find_group s b' g' <> None -> find_group (create_group_rows s b g upd parent root) b' g' <> None.
Proof. unfold find_group. rewrite cgr_groups. apply find_app_mono. Qed.

Lemma cgr_find_group_new s b g upd parent root :
  find_group (create_group_rows s b g upd parent root) b g <> None.
Proof.
  unfold find_group. rewrite cgr_groups.
  apply (find_not_none _ _ (mkGroup b g false 0 0 0 0 0 upd)); [apply in_or_app; right; left; reflexivity|].
  cbn. rewrite !Z.eqb_refl. reflexivity.
Qed.

Lemma GInv_create_group_rows s b g upd parent root :
  GInv s -> find_group s b g = None ->
  (forall g', 0 <= g' < g -> find_group s b g' <> None) ->
  (root = true -> g = 0) -> (root = false -> 0 <= parent < g) ->
  GInv (create_group_rows s b g upd parent root).
Proof.
  intros G Hn Hcontig Hroot Hpar. pose proof G as [G1 G2 G3 G4].
  set (s' := create_group_rows s b g upd parent root).
  assert (Hnew_root : root_once s' b g).
  { unfold root_once. rewrite anc_ids_eq. unfold s'. rewrite cgr_anc_rows, !Z.eqb_refl. cbn [andb].
    rewrite (anc_rows_none s b g G Hn). cbn [app]. rewrite new_anc_rows_ids, filter_app, app_length.
    destruct root.
    - rewrite (Hroot eq_refl). reflexivity.
    - specialize (Hpar eq_refl). assert (Hp : find_group s b parent <> None) by (apply Hcontig; lia).
      destruct (find_group s b parent) as [gp|] eqn:Fp; [|congruence].
      apply find_group_sound in Fp. destruct Fp as (Hin & Eb & Eg).
      pose proof (G1 gp Hin) as R. unfold root_once in R. rewrite Eb, Eg in R. rewrite R.
      cbn [filter]. destruct (0 =? g) eqn:E; [lia | reflexivity]. }
  constructor.
  - unfold s'. rewrite cgr_groups. intros x Hx. apply in_app_or in Hx. destruct Hx as [Hx|[<-|[]]]; [|exact Hnew_root].
    unfold root_once. rewrite anc_ids_eq, cgr_anc_rows.
    destruct ((b =? g_batch x) && (g =? g_id x)) eqn:K.
    + exfalso. apply andb_true_iff in K. destruct K as [K1 K2].
      apply (find_group_in s x Hx). replace (g_batch x) with b by lia. replace (g_id x) with g by lia. exact Hn.
    + rewrite app_nil_r. apply (G1 x Hx).
  - unfold s'. rewrite cgr_groups. intros x Hx g' R. apply in_app_or in Hx. destruct Hx as [Hx|[<-|[]]].
    + apply cgr_find_group_mono. apply (G2 x Hx g' R).
    + cbn [g_batch g_id] in *. destruct (Z.eq_dec g' g) as [->|Hne].
      * apply cgr_find_group_new.
      * apply cgr_find_group_mono. apply Hcontig. lia.
  - unfold s'. rewrite cgr_groups, map_app. cbn [map g_batch g_id]. apply NoDup_app_intro; [exact G3 | repeat constructor; intros [] |].
    intros k Hk [<-|[]]. apply in_map_iff in Hk. destruct Hk as (x & E & Hx). injection E as E1 E2.
    apply (find_group_in s x Hx). rewrite E1, E2. exact Hn.
  - unfold s'. rewrite cgr_ancestors. intros r Hr. apply in_app_or in Hr. destruct Hr as [Hr|Hr].
    + apply cgr_find_group_mono. apply (G4 r Hr).
    + apply new_anc_rows_key in Hr. destruct Hr as [-> ->]. apply cgr_find_group_new.
Qed.

Lemma XInv_create_group_rows s b g upd parent root :
  XInv s -> find_batch s b <> None -> XInv (create_group_rows s b g upd parent root).
Proof.
  intros [X1 X2 X3] Hb. constructor.
  - intros x Hx. apply cgr_find_group_mono. apply (X1 x Hx).
  - exact X2.
  - rewrite cgr_groups. intros x Hx. apply in_app_or in Hx. destruct Hx as [Hx|[<-|[]]]; [apply (X3 x Hx) | exact Hb].
Qed.

Lemma DInv_create_group_rows s b g upd parent root :
  DInv s -> find_batch s b <> None -> find_group s b g = None ->
  (forall g', 0 <= g' < g -> find_group s b g' <> None) ->
  (root = true -> g = 0) -> (root = false -> 0 <= parent < g) ->
  DInv (create_group_rows s b g upd parent root).
Proof.
  intros D Hb Hn Hc Hr Hp. apply DInv_split in D. destruct D as (J & G & X). apply DInv_split.
  split; [|split].
  - apply (JInv_ext s); try reflexivity. exact J.
  - apply GInv_create_group_rows; assumption.
  - apply XInv_create_group_rows; assumption.
Qed.
