(** Executable model of the batch service's database logic (DESIGN §5.A).

    One [step] per transaction of the implementation: the stored routines and triggers of
    /repo/batch/sql (live definitions: 119, 116, 117, 067, 053, 000) and the SQL-carrying Python
    handlers of batch/front_end/front_end.py and batch/driver.  Token shards of the counter tables
    are summed away.  Identifiers (users, tokens, instance names, attempt ids, inst_colls,
    resources, reasons) are integers; the correspondence harness maps strings to integers.

    Definitions only — no proofs in this file. *)
From HailV Require Import Common.Prelude.
From RecordUpdate Require Import RecordSet.
Import RecordSetNotations.
Open Scope Z_scope.

(* ------------------------------------------------------------------ basic types *)

Inductive jstate := Pending | Ready | Creating | Running | Success | Failed | Error | Cancelled.

Definition jstate_eqb (a b : jstate) : bool :=
  match a, b with
  | Pending, Pending | Ready, Ready | Creating, Creating | Running, Running
  | Success, Success | Failed, Failed | Error, Error | Cancelled, Cancelled => true
  | _, _ => false
  end.

Definition jcode (s : jstate) : Z :=
  match s with Pending => 0 | Ready => 1 | Creating => 2 | Running => 3
             | Success => 4 | Failed => 5 | Error => 6 | Cancelled => 7 end.

Definition terminal (s : jstate) : bool :=
  match s with Success | Failed | Error | Cancelled => true | _ => false end.

Inductive istate := IPending | IActive | IInactive | IDeleted.
Definition icode (s : istate) : Z := match s with IPending => 0 | IActive => 1 | IInactive => 2 | IDeleted => 3 end.
Definition ilive (s : istate) : bool := match s with IPending | IActive => true | _ => false end.

Definition oeqb (a b : option Z) : bool :=
  match a, b with Some x, Some y => x =? y | None, None => true | _, _ => false end.

Record job := mkJob {
  j_batch : Z; j_id : Z; j_update : Z; j_group : Z; j_state : jstate; j_always : bool;
  j_cores : Z; j_npp : Z; j_cancelled : bool; j_attempt : option Z; j_ic : Z }.
#[export] Instance etaJob : Settable _ :=
  settable! mkJob <j_batch; j_id; j_update; j_group; j_state; j_always; j_cores; j_npp; j_cancelled; j_attempt; j_ic>.

(* g_running: job_groups.state = 'running' (else 'complete') *)
Record group := mkGroup {
  g_batch : Z; g_id : Z; g_running : bool; g_njobs : Z;
  g_ncompleted : Z; g_nsucc : Z; g_nfailed : Z; g_ncancelled : Z; g_update : option Z }.
#[export] Instance etaGroup : Settable _ :=
  settable! mkGroup <g_batch; g_id; g_running; g_njobs; g_ncompleted; g_nsucc; g_nfailed; g_ncancelled; g_update>.

Record batch := mkBatch {
  b_id : Z; b_user : Z; b_bp : Z; b_token : Z; b_running : bool; b_njobs : Z; b_deleted : bool }.
#[export] Instance etaBatch : Settable _ :=
  settable! mkBatch <b_id; b_user; b_bp; b_token; b_running; b_njobs; b_deleted>.

Record update := mkUpdate {
  u_batch : Z; u_id : Z; u_token : Z; u_start_job : Z; u_njobs : Z; u_start_group : Z; u_ngroups : Z;
  u_committed : bool }.
#[export] Instance etaUpdate : Settable _ :=
  settable! mkUpdate <u_batch; u_id; u_token; u_start_job; u_njobs; u_start_group; u_ngroups; u_committed>.

Record attempt := mkAttempt {
  a_batch : Z; a_job : Z; a_id : Z; a_inst : Z;
  a_start : option Z; a_rollup : option Z; a_end : option Z; a_reason : option Z }.
#[export] Instance etaAttempt : Settable _ :=
  settable! mkAttempt <a_batch; a_job; a_id; a_inst; a_start; a_rollup; a_end; a_reason>.

Record inst := mkInst {
  i_name : Z; i_state : istate; i_cores : Z; i_free : Z; i_ic : Z; i_pool : bool }.
#[export] Instance etaInst : Settable _ := settable! mkInst <i_name; i_state; i_cores; i_free; i_ic; i_pool>.

(* counter tables: key vector -> counter vector *)
Definition cmap := list (list Z * list Z).

Fixpoint key_eqb (a b : list Z) : bool :=
  match a, b with
  | [], [] => true
  | x :: a', y :: b' => (x =? y) && key_eqb a' b'
  | _, _ => false
  end.

(* pointwise sum; a missing component counts as 0, so that [vadd] is associative and commutative unconditionally *)
Fixpoint vadd (a b : list Z) : list Z :=
  match a, b with
  | x :: a', y :: b' => (x + y) :: vadd a' b'
  | [], _ => b
  | _, [] => a
  end.

Fixpoint cadd (k d : list Z) (m : cmap) : cmap :=
  match m with
  | [] => [(k, d)]
  | (k', v) :: r => if key_eqb k k' then (k', vadd v d) :: r else (k', v) :: cadd k d r
  end.

Definition vneg (a : list Z) : list Z := map Z.opp a.
Definition vscale (c : Z) (a : list Z) : list Z := map (Z.mul c) a.

(* sum of the counter vectors of all rows whose key satisfies [p] *)
Fixpoint csum (p : list Z -> bool) (m : cmap) : list Z :=
  match m with
  | [] => []
  | kv :: r => if p (fst kv) then vadd (snd kv) (csum p r) else csum p r
  end.

Record state := mkState {
  batches : list batch; updates : list update; groups : list group;
  ancestors : list (Z * Z * Z * Z);        (* batch, group, ancestor, level *)
  marks : list (Z * Z);                    (* job_groups_cancelled: batch, group *)
  jobs : list job; parents : list (Z * Z * Z);   (* batch, job, parent *)
  user_res : cmap;        (* [user; ic] -> [n_ready; ready_cores; n_running; running_cores; n_creating; n_canc_ready; n_canc_running; n_canc_creating] *)
  cancellable : cmap;     (* [batch; update; group; ic] -> [n_ready_c; ready_c_cores; n_creating_c; n_running_c; running_c_cores] *)
  staging : cmap;         (* [batch; update; group; ic] -> [n_jobs; n_ready; ready_cores] *)
  attempts : list attempt; insts : list inst;
  attempt_res : cmap;     (* [batch; job; attempt; resource] -> [quantity] *)
  agg_job : cmap;         (* [batch; job; resource] -> [usage] *)
  agg_group : cmap;       (* [batch; group; resource] -> [usage] *)
  agg_bp : cmap;          (* [bp; user; resource] -> [usage] *)
  agg_date : cmap;        (* [bp; user; resource] -> [usage]   (single billing day in the model) *)
  next_batch : Z }.
#[export] Instance etaState : Settable _ :=
  settable! mkState <batches; updates; groups; ancestors; marks; jobs; parents; user_res; cancellable; staging;
                     attempts; insts; attempt_res; agg_job; agg_group; agg_bp; agg_date; next_batch>.

Definition init : state :=
  mkState [] [] [] [] [] [] [] [] [] [] [] [] [] [] [] [] [] 1.

(* ------------------------------------------------------------------ operations and results *)

Record gspec := mkGspec { gs_id : Z; gs_parent_abs : option Z; gs_parent_rel : Z }.
Record jspec := mkJspec {
  js_id : Z; js_group_abs : option Z; js_group_rel : Z; js_parents_abs : list Z; js_parents_rel : list Z;
  js_always : bool; js_cores : Z; js_ic : Z }.

Inductive op :=
| CreateBatch (user bp token : Z) (member : bool)   (* member: user belongs to the open billing project bp *)
| CreateUpdate (b user token n_jobs n_groups : Z)
| CreateGroups (b u user : Z) (gs : list gspec)
| CreateJobs (b u user : Z) (js : list jspec)
| Commit (b u user : Z)
| CancelGroup (b g : Z)
| DeleteBatch (b : Z)
| NewInstance (name ic cores : Z) (pool : bool)
| ActivateInstance (name : Z)
| DeactivateInstance (name reason time : Z)
| MarkInstanceDeleted (name : Z)
| ScheduleJob (b j att inst : Z)
| UnscheduleJob (b j att inst time reason : Z)
| MarkCreating (b j att inst time : Z)
| MarkStarted (b j att inst time : Z)
| MarkComplete (b j att inst : Z) (new_state : jstate) (start endt : option Z) (reason : Z)
| AddAttemptResources (b j att : Z) (rs : list (Z * Z))
| BillingUpdate (time : Z) (atts : list (Z * Z * Z))
| CleanupStaging
| CleanupCancellable.

(* result classes: 0 ok(payload) 1 NotFound 2 BadRequest 3 Forbidden 4 SqlError(code) 5 Assertion 6 Other *)
Definition res := (Z * list Z)%type.
Definition ok (p : list Z) : res := (0, p).
Definition not_found : res := (1, []).
Definition bad_request : res := (2, []).
Definition sql_error (c : Z) : res := (4, [c]).
Definition assertion : res := (5, []).
Definition other_err : res := (6, []).

Definition MAX_JOB_GROUPS_DEPTH : Z := 2.
Definition REASON_ACTIVATION_TIMEOUT : Z := 1.

(* ------------------------------------------------------------------ lookups *)

Definition find_batch (s : state) (b : Z) : option batch := find (fun x => b_id x =? b) (batches s).
Definition find_update (s : state) (b u : Z) : option update :=
  find (fun x => (u_batch x =? b) && (u_id x =? u)) (updates s).
Definition find_group (s : state) (b g : Z) : option group :=
  find (fun x => (g_batch x =? b) && (g_id x =? g)) (groups s).
Definition find_job (s : state) (b j : Z) : option job :=
  find (fun x => (j_batch x =? b) && (j_id x =? j)) (jobs s).
Definition find_attempt (s : state) (b j a : Z) : option attempt :=
  find (fun x => (a_batch x =? b) && (a_job x =? j) && (a_id x =? a)) (attempts s).
Definition find_inst (s : state) (n : Z) : option inst := find (fun x => i_name x =? n) (insts s).

Definition marked (s : state) (b g : Z) : bool :=
  existsb (fun m => (fst m =? b) && (snd m =? g)) (marks s).

(* ancestors-or-self of group g in batch b (rows of job_group_self_and_ancestors) *)
Definition anc_rows (s : state) (b g : Z) : list (Z * Z * Z * Z) :=
  filter (fun r => let '(b', g', _, _) := r in (b' =? b) && (g' =? g)) (ancestors s).
Definition anc_ids (s : state) (b g : Z) : list Z := map (fun r => let '(_, _, a, _) := r in a) (anc_rows s b g).

(* number of cancelled groups among g and its ancestors *)
Definition n_cancelled_anc (s : state) (b g : Z) : Z :=
  Z.of_nat (length (filter (marked s b) (anc_ids s b g))).
Definition group_cancelled (s : state) (b g : Z) : bool := 0 <? n_cancelled_anc s b g.

Definition batch_user (s : state) (b : Z) : Z := match find_batch s b with Some x => b_user x | None => 0 end.
Definition batch_bp (s : state) (b : Z) : Z := match find_batch s b with Some x => b_bp x | None => 0 end.

(* ------------------------------------------------------------------ the jobs_after_update trigger *)

Definition ind (b : bool) : Z := if b then 1 else 0.

Definition job_deltas (gc : bool) (o n : job) : list Z * list Z :=
  let ar := j_always o in
  let c := j_cores o in
  let was_mc := j_cancelled o || gc in
  let now_mc := j_cancelled n || gc in
  let was_c := negb ar && was_mc in
  let was_cb := negb ar && negb was_mc in
  let now_c := negb ar && now_mc in
  let now_cb := negb ar && negb now_mc in
  let d (x : jstate) (pw pn : bool) : Z :=
    - ind (jstate_eqb (j_state o) x && pw) + ind (jstate_eqb (j_state n) x && pn) in
  let d_ready_cb := d Ready was_cb now_cb in
  let d_ready := d Ready (negb was_c) (negb now_c) in
  let d_ready_c := d Ready was_c now_c in
  let d_running_cb := d Running was_cb now_cb in
  let d_running := d Running (negb was_c) (negb now_c) in
  let d_running_c := d Running was_c now_c in
  let d_creating_cb := d Creating was_cb now_cb in
  let d_creating := d Creating (negb was_c) (negb now_c) in
  let d_creating_c := d Creating was_c now_c in
  ([d_ready_cb; d_ready_cb * c; d_creating_cb; d_running_cb; d_running_cb * c],
   [d_ready; d_ready * c; d_running; d_running * c; d_creating; d_ready_c; d_running_c; d_creating_c]).

Definition replace_job (n : job) (l : list job) : list job :=
  map (fun x => if (j_batch x =? j_batch n) && (j_id x =? j_id n) then n else x) l.

(* UPDATE jobs SET ... for one row, followed by the AFTER UPDATE trigger *)
Definition update_job (s : state) (o n : job) : state :=
  let s1 := s <| jobs ::= replace_job n |> in
  let gc := group_cancelled s1 (j_batch o) (j_group o) in
  let '(dc, du) := job_deltas gc o n in
  let canc := fold_left (fun m a => cadd [j_batch n; j_update n; a; j_ic n] dc m)
                        (anc_ids s1 (j_batch n) (j_group n)) (cancellable s1) in
  s1 <| cancellable := canc |> <| user_res ::= cadd [batch_user s1 (j_batch n); j_ic n] du |>.

(* ------------------------------------------------------------------ the attempts triggers *)

Definition olt (a b : option Z) : bool := match a, b with Some x, Some y => x <? y | _, _ => false end.

(* attempts_before_update (124, the block order repaired for C03): clamp NEW against OLD, on the four time/reason columns
   (start, rollup, end, reason) *)
Definition times := (option Z * option Z * option Z * option Z)%type.

Definition clamp4 (o n : times) : times :=
  let '(os, orl, oe, ors) := o in
  let '(ns, nrl, ne, nrs) := n in
  (* IF OLD.start_time IS NOT NULL AND (NEW.start_time IS NULL OR OLD.start_time < NEW.start_time) *)
  let ns1 := match os with
             | Some x => match ns with None => os | Some y => if x <? y then os else ns end
             | None => ns end in
  (* IF OLD.reason IS NOT NULL AND (OLD.end_time IS NULL OR NEW.end_time IS NULL OR NEW.end_time >= OLD.end_time) *)
  let keep := match ors with
              | Some _ => match oe, ne with Some a, Some b => a <=? b | _, _ => true end
              | None => false end in
  let ne3 := if keep then oe else ne in
  let nrs3 := if keep then ors else nrs in
  (* IF NEW.reason = 'activation_timeout' — migration 124: AFTER the end/reason block, so it tests the reason the
     row will carry (in 067 it came before it and tested the requested reason; see Clamp.clamp4_unfixed) *)
  let ns2 := if oeqb nrs3 (Some REASON_ACTIVATION_TIMEOUT) then None else ns1 in
  (* rollup_time should not go backward in time *)
  let nrl4 := if olt nrl orl then orl else nrl in
  (* rollup_time should never be less than the start time *)
  let nrl5 := if olt nrl4 ns2 then orl else nrl4 in
  (* rollup_time should never be greater than the end time *)
  let nrl6 := if olt ne3 nrl5 then ne3 else nrl5 in
  (ns2, nrl6, ne3, nrs3).

Definition times_of (a : attempt) : times := (a_start a, a_rollup a, a_end a, a_reason a).

Definition clamp (o n : attempt) : attempt :=
  let '(s, r, e, rs) := clamp4 (times_of o) (times_of n) in
  mkAttempt (a_batch n) (a_job n) (a_id n) (a_inst n) s r e rs.

Definition billed (a : attempt) : Z :=
  match a_rollup a, a_start a with
  | Some r, Some st => Z.max (r - st) 0
  | _, _ => 0
  end.

Definition same_attempt (x y : attempt) : bool :=
  (a_batch x =? a_batch y) && (a_job x =? a_job y) && (a_id x =? a_id y).

Definition replace_attempt (n : attempt) (l : list attempt) : list attempt :=
  map (fun x => if same_attempt x n then n else x) l.

(* resources of one attempt: (resource, quantity) *)
Definition res_of (s : state) (b j a : Z) : list (Z * Z) :=
  fold_right (fun kv acc =>
    match kv with
    | ([b'; j'; a'; r], [q]) => if (b' =? b) && (j' =? j) && (a' =? a) then (r, q) :: acc else acc
    | _ => acc
    end) [] (attempt_res s).

(* add [diff * q] to the four aggregates for one (resource, quantity) of a job's attempt *)
Definition bill (s : state) (b j : Z) (diff : Z) (rq : Z * Z) : state :=
  let '(r, q) := rq in
  let amt := [diff * q] in
  let g := match find_job s b j with Some x => j_group x | None => 0 end in
  let aggg := fold_left (fun m a => cadd [b; a; r] amt m) (anc_ids s b g) (agg_group s) in
  s <| agg_bp ::= cadd [batch_bp s b; batch_user s b; r] amt |>
    <| agg_group := aggg |>
    <| agg_job ::= cadd [b; j; r] amt |>
    <| agg_date ::= cadd [batch_bp s b; batch_user s b; r] amt |>.

(* UPDATE attempts SET ... for one row: BEFORE trigger (clamp), row change, AFTER trigger (billing) *)
Definition update_attempt (s : state) (o req : attempt) : state :=
  let n := clamp o req in
  let s1 := s <| attempts ::= replace_attempt n |> in
  let diff := billed n - billed o in
  if diff =? 0 then s1
  else fold_left (fun st rq => bill st (a_batch n) (a_job n) diff rq) (res_of s1 (a_batch n) (a_job n) (a_id n)) s1.

(* ------------------------------------------------------------------ add_attempt (053) *)

Definition replace_inst (n : inst) (l : list inst) : list inst :=
  map (fun x => if i_name x =? i_name n then n else x) l.

(* returns the new state and delta_cores_mcpu; None = foreign-key error 1452 (unknown instance; -1 is NULL) *)
Definition add_attempt (s : state) (b j a i cores : Z) : option (state * Z) :=
  match find_attempt s b j a with
  | Some _ => Some (s, 0)
  | None =>
      let s1 := s <| attempts ::= fun l => l ++ [mkAttempt b j a i None None None None] |> in
      match find_inst s1 i with
      | Some x => Some (if ilive (i_state x) then s1 <| insts ::= replace_inst (x <| i_free := i_free x - cores |>) |> else s1, - cores)
      | None => if i =? -1 then Some (s1, - cores) else None
      end
  end.

(* is_job_cancelled (119 + 121): the lateral subquery is LIMIT 1, so the scalar subquery yields one row.
   (Before migration 121 two cancelled ancestors made it raise MySQL error 1242; [None] is kept in the
   result type for that error and is never produced now.) *)
Definition is_job_cancelled (s : state) (x : job) : option bool :=
  let k := n_cancelled_anc s (j_batch x) (j_group x) in
  Some (negb (j_always x) && (j_cancelled x || (0 <? k))).

(* ------------------------------------------------------------------ front end *)

Definition create_group_rows (s : state) (b g : Z) (upd : option Z) (parent : Z) (root : bool) : state :=
  let copied := if root then [] else
    map (fun r => let '(_, _, a, lvl) := r in (b, g, a, lvl + 1)) (anc_rows s b parent) in
  s <| groups ::= fun l => l ++ [mkGroup b g false 0 0 0 0 0 upd] |>
    <| ancestors ::= fun l => l ++ copied ++ [(b, g, g, 0)] |>.

Definition do_create_batch (s : state) (user bp token : Z) (member : bool) : state * res :=
  if negb member then (s, (3, [])) else
  match find (fun x => (b_token x =? token) && (b_user x =? user)) (batches s) with
  | Some x => (s, ok [b_id x])
  | None =>
      let id := next_batch s in
      let s1 := s <| batches ::= fun l => l ++ [mkBatch id user bp token false 0 false] |>
                  <| next_batch := id + 1 |> in
      (create_group_rows s1 id 0 None 0 true, ok [id])
  end.

Definition last_update (s : state) (b : Z) : option update :=
  fold_left (fun acc x => if u_batch x =? b then
                            match acc with
                            | Some y => if u_id y <? u_id x then Some x else acc
                            | None => Some x
                            end else acc) (updates s) None.

Definition do_create_update (s : state) (b user token n_jobs n_groups : Z) : state * res :=
  if (n_jobs <? 0) || (n_groups <? 0) then (s, bad_request) else      (* validate_batch_update *)
  if negb ((0 <? n_jobs) || (0 <? n_groups)) then (s, assertion) else
  (* the existing update is looked up for the batch's owner only (JOIN batches ... AND batches.user = %s) *)
  match (if match find_batch s b with Some bt => b_user bt =? user | None => false end
         then find (fun x => (u_batch x =? b) && (u_token x =? token)) (updates s) else None) with
  | Some x => (s, ok [u_id x; u_start_group x; u_start_job x])
  | None =>
      match find_batch s b with
      | None => (s, not_found)
      | Some bt =>
          if negb (b_user bt =? user) || b_deleted bt then (s, not_found)
          else if marked s b 0 then (s, bad_request)
          else
            let '(uid, sg, sj) := match last_update s b with
                                  | Some l => (u_id l + 1, u_start_group l + u_ngroups l, u_start_job l + u_njobs l)
                                  | None => (1, 1, 1)
                                  end in
            (s <| updates ::= fun l => l ++ [mkUpdate b uid token sj n_jobs sg n_groups false] |>, ok [uid; sg; sj])
      end
  end.

Definition max_group_id (s : state) (b : Z) : Z :=
  fold_left (fun acc x => if g_batch x =? b then Z.max acc (g_id x) else acc) (groups s) (-1).

(* one _create_job_group inside the bunch transaction; None = the bunch is rejected (BadRequest) *)
Definition create_one_group (b u sg : Z) (acc : option state) (gs : gspec) : option state :=
  match acc with
  | None => None
  | Some s =>
      let g := sg + gs_id gs - 1 in
      let parent := match gs_parent_abs gs with Some p => p | None => sg + gs_parent_rel gs - 1 end in
      if group_cancelled s b parent then None
      else match find_group s b g with
           | Some _ => None                       (* duplicate primary key *)
           | None =>
               if negb (parent <? g) then None    (* assert parent_job_group_id < job_group_id *)
               else if MAX_JOB_GROUPS_DEPTH <? Z.of_nat (length (anc_rows s b parent)) then None
               else Some (create_group_rows s b g (Some u) parent false)
           end
  end.

Definition do_create_groups (s : state) (b u user : Z) (gss : list gspec) : state * res :=
  if is_nil gss then (s, assertion) else                                 (* assert len(job_group_specs) > 0 *)
  match find_update s b u, find_batch s b with
  | Some up, Some bt =>
      if negb (b_user bt =? user) || b_deleted bt then (s, not_found)
      else if u_committed up then (s, bad_request)
      else match gss with
           | [] => (s, assertion)
           | g0 :: _ =>
               if negb (u_start_group up + gs_id g0 - 1 =? max_group_id s b + 1) then (s, bad_request)
               else match fold_left (create_one_group b u (u_start_group up)) gss (Some s) with
                    | Some s' => (s', ok [])
                    | None => (s, bad_request)
                    end
           end
  | _, _ => (s, not_found)
  end.

Definition job_of_spec (b u sj sg : Z) (x : jspec) : job * list Z :=
  let id := js_id x + sj - 1 in
  let ps := js_parents_abs x ++ map (fun p => sj + p - 1) (js_parents_rel x) in
  let g := match js_group_abs x with Some g => g | None => sg + js_group_rel x - 1 end in
  let st := if (u =? 1) && is_nil ps then Ready else Pending in
  (mkJob b id u g st (js_always x) (js_cores x) (Z.of_nat (length ps)) false None (js_ic x), ps).

Fixpoint has_dup (l : list Z) : bool :=
  match l with [] => false | x :: r => existsb (Z.eqb x) r || has_dup r end.

(* staging / cancellable rows for one inserted job, for every ancestor-or-self of its group *)
Definition stage_job (s : state) (x : job) : state :=
  let rdy := jstate_eqb (j_state x) Ready in
  let dst := [1; ind rdy; ind rdy * j_cores x] in
  let cb := rdy && negb (j_always x) in
  let dcb := [ind cb; ind cb * j_cores x; 0; 0; 0] in
  let ancs := anc_ids s (j_batch x) (j_group x) in
  s <| staging := fold_left (fun m a => cadd [j_batch x; j_update x; a; j_ic x] dst m) ancs (staging s) |>
    <| cancellable := fold_left (fun m a => cadd [j_batch x; j_update x; a; j_ic x] dcb m) ancs (cancellable s) |>.

(* verdict of the multi-row INSERT INTO jobs: 0 = all rows insertable, 1 = SIGNAL (cancelled group),
   2 = duplicate key, 3 = foreign key; [seen] = ids of the rows already processed *)
Fixpoint insert_verdict (s : state) (b : Z) (js : list job) (seen : list Z) : Z :=
  match js with
  | [] => 0
  | x :: r =>
      if group_cancelled s b (j_group x) then 1
      else if existsb (Z.eqb (j_id x)) seen || match find_job s b (j_id x) with Some _ => true | None => false end then 2
      else match find_group s b (j_group x) with
           | None => 3
           | Some _ => insert_verdict s b r (j_id x :: seen)
           end
  end.

(* validation of a job spec against its update (front_end._create_jobs): the relative id lies in the
   update's reserved range; in-update parents are earlier jobs of the update; absolute parents are earlier
   jobs, and those in earlier updates exist and belong to a committed update *)
Definition spec_ok (s : state) (b : Z) (up : update) (x : jspec) : bool :=
  let sj := u_start_job up in
  (1 <=? js_id x) && (js_id x <=? u_njobs up)
  && forallb (fun p => (1 <=? p) && (p <? js_id x)) (js_parents_rel x)
  && forallb (fun p => (1 <=? p) && (p <? js_id x + sj - 1)
                       && ((sj <=? p) || match find_job s b p with
                                         | Some y => match find_update s b (j_update y) with
                                                     | Some uy => u_committed uy | None => false end
                                         | None => false end)) (js_parents_abs x).

Fixpoint contiguous (l : list Z) : bool :=
  match l with
  | x :: ((y :: _) as r) => (y =? x + 1) && contiguous r
  | _ => true
  end.

Definition do_create_jobs (s : state) (b u user : Z) (jss : list jspec) : state * res :=
  if is_nil jss then (s, assertion) else                                 (* assert len(job_specs) > 0 *)
  match find_update s b u, find_batch s b with
  | Some up, Some bt =>
      if negb (b_user bt =? user) || b_deleted bt then (s, not_found)
      else if u_committed up then (s, bad_request)
      else
        let js := map (job_of_spec b u (u_start_job up) (u_start_group up)) jss in
        match jss with [] => (s, assertion) | _ =>
        if negb (contiguous (map js_id jss)) then (s, bad_request) else    (* validate_and_clean_jobs *)
        if negb (forallb (spec_ok s b up) jss) then (s, bad_request) else
        (* INSERT INTO jobs: one multi-row statement, rows processed in order; for each row the BEFORE INSERT
           trigger (cancelled group -> SIGNAL) runs first, then the primary key (a duplicate means "bunch already
           inserted": the handler returns normally and nothing is inserted), then the foreign key to job_groups *)
        match insert_verdict s b (map fst js) [] with
        | 1 => (s, bad_request)
        | 2 => (s, ok [])
        | 3 => (s, sql_error 1452)
        | _ =>
        if existsb (fun jp => has_dup (snd jp)) js
        then (s, bad_request)                  (* duplicate (job, parent) key *)
        else
          let s1 := s <| jobs ::= fun l => l ++ map fst js |>
                      <| parents ::= fun l => l ++ flat_map (fun jp => map (fun p => (b, j_id (fst jp), p)) (snd jp)) js |> in
          (fold_left stage_job (map fst js) s1, ok [])
        end end
  | _, _ => (s, not_found)
  end.

(* commit_batch_update (116) *)
Definition parent_states (s : state) (b j : Z) : list (option jstate) :=
  map (fun r => let '(_, _, p) := r in option_map j_state (find_job s b p))
      (filter (fun r => let '(b', j', _) := r in (b' =? b) && (j' =? j)) (parents s)).

Definition recompute_job (s : state) (x : job) : job :=
  let ps := parent_states s (j_batch x) (j_id x) in
  let n_parents := Z.of_nat (length ps) in
  let npp := Z.of_nat (length (filter (fun o => match o with Some st => negb (terminal st) | None => false end) ps)) in
  let nsucc := Z.of_nat (length (filter (fun o => match o with Some Success => true | _ => false end) ps)) in
  x <| j_state := if npp =? 0 then Ready else Pending |>
    <| j_npp := npp |>
    <| j_cancelled := if nsucc =? n_parents - npp then j_cancelled x else true |>.

Definition do_commit_proc (s : state) (b u : Z) : state * res :=
  match find_update s b u with
  | None => (s, ok [1])    (* SELECT INTO finds nothing: committed NULL, expected NULL <> 0 -> rc 1 *)
  | Some up =>
      if u_committed up then (s, ok [0]) else
      let staged := csum (fun k => key_eqb (firstn 3 k) [b; u; 0]) (staging s) in
      let staged_n := nth 0 staged 0 in
      if negb (staged_n =? u_njobs up) then (s, ok [1]) else
      let s1 := s <| updates ::= map (fun x => if (u_batch x =? b) && (u_id x =? u) then x <| u_committed := true |> else x) |> in
      if negb (0 <? u_njobs up) then (s1, ok [0]) else
      let s2 := s1 <| batches ::= map (fun x => if b_id x =? b then x <| b_running := true |> <| b_njobs := b_njobs x + u_njobs up |> else x) |> in
      let s3 := s2 <| groups ::= map (fun g =>
                   if g_batch g =? b then
                     let rows := filter (fun kv => key_eqb (firstn 3 (fst kv)) [b; u; g_id g]) (staging s) in
                     if is_nil rows then g else
                     let n := nth 0 (csum (fun k => key_eqb (firstn 3 k) [b; u; g_id g]) (staging s)) 0 in
                     g <| g_running := if 0 <? n then true else g_running g |> <| g_njobs := g_njobs g + n |>
                   else g) |> in
      (* user_inst_coll_resources from the root group's staging rows, per inst_coll *)
      let user := batch_user s b in
      let s4 := fold_left (fun st kv =>
                   match kv with
                   | ([b'; u'; g'; ic], [_; nr; rc]) =>
                       if (b' =? b) && (u' =? u) && (g' =? 0)
                       then st <| user_res ::= cadd [user; ic] [nr; rc; 0; 0; 0; 0; 0; 0] |> else st
                   | _ => st
                   end) (staging s) s3 in
      if u =? 1 then (s4, ok [0]) else
      let lo := u_start_job up in
      let targets := filter (fun x => (j_batch x =? b) && (lo <=? j_id x) && (j_id x <? lo + staged_n)) (jobs s4) in
      (* the derived table of parent states is computed before any row is changed *)
      let news := map (fun x => (x, recompute_job s4 x)) targets in
      (fold_left (fun st on => update_job st (fst on) (snd on)) news s4, ok [0])
  end.

Definition do_commit (s : state) (b u user : Z) : state * res :=
  match find_batch s b, find_update s b u with
  | Some bt, Some _ =>
      if negb (b_user bt =? user) || b_deleted bt then (s, not_found)
      else if marked s b 0 then (s, bad_request)
      else do_commit_proc s b u      (* rc 0: committed (or already committed); rc 1: wrong number of jobs, nothing changed *)
  | _, _ => (s, not_found)
  end.

(* cancel_job_group (119) *)
Definition cancel_proc (s : state) (b g : Z) : state :=
  if group_cancelled s b g then s else
  let user := batch_user s b in
  let committed u := match find_update s b u with Some x => u_committed x | None => false end in
  (* (1) user counters: rows of this group in committed updates, summed per inst_coll *)
  let s1 := fold_left (fun st kv =>
      match kv with
      | ([b'; u'; g'; ic], [nr; rc; ncr; nrun; runc]) =>
          if (b' =? b) && (g' =? g) && committed u'
          then st <| user_res ::= cadd [user; ic] [- nr; - rc; - nrun; - runc; - ncr; nr; nrun; ncr] |>
          else st
      | _ => st
      end) (cancellable s) s in
  (* (2) subtract this group's rows (all updates) from itself and every ancestor; sums are taken before any change *)
  let own := filter (fun kv => match fst kv with [b'; _; g'; _] => (b' =? b) && (g' =? g) | _ => false end) (cancellable s) in
  let s2 := s1 <| cancellable := fold_left (fun m a =>
                     fold_left (fun m' kv => match fst kv with
                                             | [_; u'; _; ic] => cadd [b; u'; a; ic] (vneg (snd kv)) m'
                                             | _ => m' end) own m)
                   (anc_ids s b g) (cancellable s1) |> in
  s2 <| marks ::= fun l => l ++ [(b, g)] |>.

Definition do_cancel_group (s : state) (b g : Z) : state * res :=
  match find_group s b g, find_batch s b with
  | Some gr, Some bt =>
      let committed := match g_update gr with
                       | Some u => match find_update s b u with Some x => u_committed x | None => false end
                       | None => false end in
      if b_deleted bt || negb (committed || (g =? 0)) then (s, (3, []))
      else (cancel_proc s b g, ok [])
  | _, _ => (s, (3, []))
  end.

Definition do_delete_batch (s : state) (b : Z) : state * res :=
  match find_batch s b with
  | Some bt =>
      if b_deleted bt then (s, not_found)
      else let s1 := cancel_proc s b 0 in
           (s1 <| batches ::= map (fun x => if b_id x =? b then x <| b_deleted := true |> else x) |>, ok [])
  | None => (s, not_found)
  end.

(* ------------------------------------------------------------------ instances *)

Definition do_new_instance (s : state) (name ic cores : Z) (pool : bool) : state * res :=
  if (ic <? 0) || negb ((0 <? cores) && (cores mod 1000 =? 0)) then (s, bad_request) else   (* known inst_coll (unknown = -1), whole cores *)
  match find_inst s name with
  | Some _ => (s, sql_error 1062)
  | None => (s <| insts ::= fun l => l ++ [mkInst name IPending cores cores ic pool] |>, ok [])
  end.

Definition do_activate (s : state) (name : Z) : state * res :=
  match find_inst s name with
  | Some x => match i_state x with
              | IPending => (s <| insts ::= replace_inst (x <| i_state := IActive |>) |>, ok [0])
              | _ => (s, ok [1])
              end
  | None => (s, ok [1])
  end.

Definition do_mark_deleted (s : state) (name : Z) : state * res :=
  match find_inst s name with
  | Some x => match i_state x with
              | IInactive => (s <| insts ::= replace_inst (x <| i_state := IDeleted |>) |>, ok [0])
              | _ => (s, ok [1])
              end
  | None => (s, ok [1])
  end.

(* deactivate_instance (067) *)
Definition do_deactivate (s : state) (name reason time : Z) : state * res :=
  match find_inst s name with
  | Some x =>
      if ilive (i_state x) then
        (* UPDATE attempts ... WHERE instance_name: every attempt of the instance, in table order *)
        let s1 := fold_left (fun st a =>
                     if a_inst a =? name then
                       match find_attempt st (a_batch a) (a_job a) (a_id a) with
                       | Some cur => update_attempt st cur (cur <| a_rollup := Some time |> <| a_end := Some time |> <| a_reason := Some reason |>)
                       | None => st end
                     else st) (attempts s) s in
        (* jobs whose CURRENT attempt is on this instance and that are Running/Creating go back to Ready *)
        let s2 := fold_left (fun st j =>
                     match j_attempt j with
                     | Some a =>
                         match find_attempt st (j_batch j) (j_id j) a with
                         | Some at_ =>
                             if (a_inst at_ =? name) && (jstate_eqb (j_state j) Running || jstate_eqb (j_state j) Creating)
                             then update_job st j (j <| j_state := Ready |> <| j_attempt := None |>) else st
                         | None => st end
                     | None => st end) (jobs s1) s1 in
        (s2 <| insts ::= replace_inst (x <| i_state := IInactive |> <| i_free := i_cores x |>) |>, ok [0])
      else (s, ok [1])
  | None => (s, ok [1])
  end.

(* ------------------------------------------------------------------ driver: job messages *)

Definition inst_state (s : state) (i : Z) : option istate := option_map i_state (find_inst s i).
Definition is_state (o : option istate) (x : istate) : bool :=
  match o, x with Some IPending, IPending | Some IActive, IActive | Some IInactive, IInactive | Some IDeleted, IDeleted => true | _, _ => false end.

Definition inst_live (o : option istate) : bool := match o with Some x => ilive x | None => false end.

Definition do_schedule (s : state) (b j a i : Z) : state * res :=
  match find_job s b j with
  | None => (s, sql_error 1452)            (* job missing: INSERT INTO attempts violates the foreign key to jobs *)
  | Some x =>
      match is_job_cancelled s x with
      | None => (s, sql_error 1242)
      | Some cancel =>
          let pool := match find_inst s i with Some y => i_pool y | None => false end in
          match add_attempt s b j a i (j_cores x) with None => (s, sql_error 1452) | Some (s1, d0) =>
          let delta := if pool then (if d0 =? 0 then j_cores x else 0) else d0 in
          if (jstate_eqb (j_state x) Ready || jstate_eqb (j_state x) Creating) && negb cancel && is_state (inst_state s1 i) IActive
          then (update_job s1 x (x <| j_state := Running |> <| j_attempt := Some a |>), ok [0; delta])
          else (s1, ok [1; delta])
          end
      end
  end.

Definition set_times (s : state) (b j a t : Z) : state :=
  match find_attempt s b j a with
  | Some cur => update_attempt s cur (cur <| a_start := Some t |> <| a_rollup := Some t |>)
  | None => s
  end.

Definition do_mark_creating_or_started (creating : bool) (s : state) (b j a i t : Z) : state * res :=
  match find_job s b j with
  | None => (s, sql_error 1452)
  | Some x =>
      match is_job_cancelled s x with
      | None => (s, sql_error 1242)
      | Some cancel =>
          match add_attempt s b j a i (j_cores x) with None => (s, sql_error 1452) | Some (s1, d0) =>
          let s2 := set_times s1 b j a t in
          let want := if creating then IPending else IActive in
          if jstate_eqb (j_state x) Ready && negb cancel && is_state (inst_state s2 i) want
          then (update_job s2 x (x <| j_state := (if creating then Creating else Running) |> <| j_attempt := Some a |>), ok [0; d0])
          else (s2, ok [0; d0])
          end
      end
  end.

Definition do_unschedule (s : state) (b j a i t reason : Z) : state * res :=
  match find_job s b j with
  | None => (* nothing found; free_cores + NULL violates NOT NULL when the cores would be given back *)
      if inst_live (inst_state s i) && match find_attempt s b j a with Some c => match a_end c with None => true | Some _ => false end | None => true end
      then (s, sql_error 1048) else (s, ok [1; 0])
  | Some x =>
      let cur := find_attempt s b j a in
      let cur_end := match cur with Some c => a_end c | None => None end in
      let s1 := match cur with
                | Some c => update_attempt s c (c <| a_rollup := Some t |> <| a_end := Some t |> <| a_reason := Some reason |>)
                | None => s end in
      let give := inst_live (inst_state s1 i) && match cur_end with None => true | Some _ => false end in
      let s2 := if give then match find_inst s1 i with
                             | Some y => s1 <| insts ::= replace_inst (y <| i_free := i_free y + j_cores x |>) |>
                             | None => s1 end else s1 in
      let delta := if give then j_cores x else 0 in
      if (jstate_eqb (j_state x) Creating || jstate_eqb (j_state x) Running) && oeqb (j_attempt x) (Some a)
      then (update_job s2 x (x <| j_state := Ready |> <| j_attempt := None |>), ok [0; delta])
      else (s2, ok [1; delta])
  end.

(* mark_job_group_complete: every ancestor-or-self whose n_completed reached n_jobs becomes complete *)
Definition finish_groups (s : state) (b g : Z) : state :=
  let ancs := anc_ids s b g in
  s <| groups ::= map (fun x => if (g_batch x =? b) && existsb (Z.eqb (g_id x)) ancs && (g_ncompleted x =? g_njobs x)
                               then x <| g_running := false |> else x) |>.

(* children of a completed job: n_pending_parents - 1, Ready when it was 1, cancelled unless the parent succeeded *)
Definition release_children (s : state) (b j : Z) (succ : bool) : state :=
  let kids := map (fun r => let '(_, c, _) := r in c)
                  (filter (fun r => let '(b', _, p) := r in (b' =? b) && (p =? j)) (parents s)) in
  let committed u := match find_update s b u with Some y => u_committed y | None => false end in
  fold_left (fun st c =>
     match find_job st b c with
     | Some x => if negb (committed (j_update x)) then st else update_job st x (x <| j_state := if j_npp x =? 1 then Ready else Pending |>
                                   <| j_npp := j_npp x - 1 |>
                                   <| j_cancelled := if succ then j_cancelled x else true |>)
     | None => st
     end) kids s.

Definition do_mark_complete (s : state) (b j a i : Z) (ns : jstate) (start endt : option Z) (reason : Z) : state * res :=
  match find_job s b j with
  | None => if a =? -1 then (s, ok [1; 0]) else (s, sql_error 1452)
  | Some x =>
      let total := match find_batch s b with Some bt => b_njobs bt | None => 0 end in
      (* attempt id -1 stands for NULL (the canceller completes Ready jobs without an attempt) *)
      match (if a =? -1 then Some (s, 0) else add_attempt s b j a i (j_cores x)) with None => (s, sql_error 1452) | Some (s1, d0) =>
      let cur := if a =? -1 then None else find_attempt s1 b j a in
      let cur_end := match cur with Some c => a_end c | None => None end in
      let s2 := match cur with
                | Some c => update_attempt s1 c (c <| a_start := start |> <| a_rollup := endt |> <| a_end := endt |> <| a_reason := Some reason |>)
                | None => s1 end in
      let give := inst_live (inst_state s2 i) && match cur_end with None => true | Some _ => false end in
      let s3 := if give then match find_inst s2 i with
                             | Some y => s2 <| insts ::= replace_inst (y <| i_free := i_free y + j_cores x |>) |>
                             | None => s2 end else s2 in
      let delta := if give then d0 + j_cores x else d0 in
      let stale := match j_attempt x with Some e => negb (a =? -1) && negb (e =? a) | None => false end in
      if stale then (s3, ok [2; delta])
      else if jstate_eqb (j_state x) Ready || jstate_eqb (j_state x) Creating || jstate_eqb (j_state x) Running then
        let s4 := update_job s3 x (x <| j_state := ns |> <| j_attempt := (if a =? -1 then None else Some a) |>) in
        let ancs := anc_ids s4 b (j_group x) in
        let isc := jstate_eqb ns Cancelled in
        let isf := jstate_eqb ns Error || jstate_eqb ns Failed in
        let s5 := s4 <| groups ::= map (fun g => if (g_batch g =? b) && existsb (Z.eqb (g_id g)) ancs
                       then g <| g_ncompleted := g_ncompleted g + 1 |> <| g_ncancelled := g_ncancelled g + ind isc |>
                              <| g_nfailed := g_nfailed g + ind isf |> <| g_nsucc := g_nsucc g + ind (negb isc && negb isf) |>
                       else g) |> in
        let root_done := match find_group s5 b 0 with Some g => g_ncompleted g | None => 0 end in
        let s6 := if root_done =? total
                  then s5 <| batches ::= map (fun bt => if b_id bt =? b then bt <| b_running := false |> else bt) |> else s5 in
        let s7 := finish_groups s6 b (j_group x) in
        (release_children s7 b j (jstate_eqb ns Success), ok [0; delta; jcode (j_state x)])
      else if terminal (j_state x) then (s3, ok [0; delta; jcode (j_state x)])
      else (s3, ok [1; delta])
      end
  end.

(* INSERT INTO attempt_resources ... ON DUPLICATE KEY UPDATE quantity = quantity; AFTER INSERT trigger bills
   the time already accumulated by the attempt *)
Definition add_one_resource (b j a : Z) (s : state) (rq : Z * Z) : state :=
  let '(r, q) := rq in
  if existsb (fun kv => key_eqb (fst kv) [b; j; a; r]) (attempt_res s) then s
  else
    let s1 := s <| attempt_res ::= fun m => m ++ [([b; j; a; r], [q])] |> in
    let msec := match find_attempt s1 b j a with Some at_ => billed at_ | None => 0 end in
    if msec =? 0 then s1 else bill s1 b j msec (r, q).

(* add_attempt_resources (driver/job.py) first sums the quantities per resource name *)
Fixpoint merge_resources (rs : list (Z * Z)) : list (Z * Z) :=
  match rs with
  | [] => []
  | (r, q) :: rest =>
      let m := merge_resources rest in
      if existsb (fun x => fst x =? r) m
      then map (fun x => if fst x =? r then (r, snd x + q) else x) m
      else (r, q) :: m
  end.

Definition do_add_resources (s : state) (b j a : Z) (rs : list (Z * Z)) : state * res :=
  if is_nil rs then (s, ok []) else
  if existsb (fun rq => fst rq <? 0) rs then (s, other_err) else    (* unknown resource name: KeyError *)
  match find_attempt s b j a with
  | None => (s, sql_error 1452)       (* foreign key attempt_resources -> attempts *)
  | Some _ => (fold_left (add_one_resource b j a) (merge_resources rs) s, ok [])
  end.

Definition do_billing_update (s : state) (t : Z) (atts : list (Z * Z * Z)) : state * res :=
  (fold_left (fun st x => let '(b, j, a) := x in
                match find_attempt st b j a with
                | Some cur => update_attempt st cur (cur <| a_rollup := Some t |>)
                | None => st end) atts s, ok []).

(* background clean-up in driver/main.py *)
Definition do_cleanup_staging (s : state) : state * res :=
  (s <| staging ::= filter (fun kv => match fst kv with
                                      | [b; u; _; _] => negb (match find_update s b u with Some x => u_committed x | None => false end)
                                      | _ => true end) |>, ok []).

Definition do_cleanup_cancellable (s : state) : state * res :=
  (s <| cancellable ::= filter (fun kv => match fst kv with
                                          | [b; _; g; _] => negb (group_cancelled s b g)
                                          | _ => true end) |>, ok []).

(* ------------------------------------------------------------------ step *)

Definition step (s : state) (o : op) : state * res :=
  match o with
  | CreateBatch user bp token m => do_create_batch s user bp token m
  | CreateUpdate b user token nj ng => do_create_update s b user token nj ng
  | CreateGroups b u user gs => do_create_groups s b u user gs
  | CreateJobs b u user js => do_create_jobs s b u user js
  | Commit b u user => do_commit s b u user
  | CancelGroup b g => do_cancel_group s b g
  | DeleteBatch b => do_delete_batch s b
  | NewInstance n ic c p => do_new_instance s n ic c p
  | ActivateInstance n => do_activate s n
  | DeactivateInstance n r t => do_deactivate s n r t
  | MarkInstanceDeleted n => do_mark_deleted s n
  | ScheduleJob b j a i => do_schedule s b j a i
  | UnscheduleJob b j a i t r => do_unschedule s b j a i t r
  | MarkCreating b j a i t => do_mark_creating_or_started true s b j a i t
  | MarkStarted b j a i t => do_mark_creating_or_started false s b j a i t
  | MarkComplete b j a i ns st en rs => do_mark_complete s b j a i ns st en rs
  | AddAttemptResources b j a rs => do_add_resources s b j a rs
  | BillingUpdate t atts => do_billing_update s t atts
  | CleanupStaging => do_cleanup_staging s
  | CleanupCancellable => do_cleanup_cancellable s
  end.

Definition run (ops : list op) : state := fold_left (fun s o => fst (step s o)) ops init.

(* results and states along a history (for the correspondence) *)
Fixpoint trace (s : state) (ops : list op) : list (res * state) :=
  match ops with
  | [] => []
  | o :: r => let '(s', x) := step s o in (x, s') :: trace s' r
  end.
