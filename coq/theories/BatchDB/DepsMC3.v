(** [DInv] is preserved by mark_job_complete: [job_ok] of every rewritten row, and the assembly. *)
From HailV Require Import Common.Prelude BatchDB.Model BatchDB.Tables BatchDB.CMap BatchDB.JobsWF BatchDB.StepCore
  BatchDB.JobFold BatchDB.KidsFold BatchDB.Legal BatchDB.DepsDef BatchDB.DepsEasy BatchDB.DepsMap BatchDB.DepsDriver
  BatchDB.DepsMC1 BatchDB.DepsMC2.
From RecordUpdate Require Import RecordSet.
Import RecordSetNotations.
Open Scope Z_scope.

Section Oblig.
  Variables (s s' : state) (b j : Z) (x : job) (ns : jstate) (att : option Z).
  Hypothesis D : DInv s.
  Hypothesis Hx : find_job s b j = Some x.
  Hypothesis Hxc : jcommitted s x = true.
  Hypothesis Hxs : j_state x = Ready \/ j_state x = Creating \/ j_state x = Running.
  Hypothesis Hns : terminal ns = true.
  Let h := mc_h s b j x ns att.
  Let succ := jstate_eqb ns Success.
  Hypothesis Hjobs : jobs s' = map h (jobs s).
  Hypothesis Hupd : updates s' = updates s.
  Hypothesis Hpar : parents s' = parents s.

  Let Hstatic : forall y, In y (jobs s) -> static y (h y) := mc_h_static s b j x ns att D Hx Hxc Hxs.

  Lemma ob_x_live : terminal (j_state x) = false.
  Proof. destruct Hxs as [E|[E|E]]; rewrite E; reflexivity. Qed.

  Lemma ob_hx : h x = x <| j_state := ns |> <| j_attempt := att |>.
  Proof. apply (mc_h_x s b j x ns att D Hx Hxc Hxs). Qed.

  Lemma ob_hx_term : terminal (j_state (h x)) = true.
  Proof. rewrite ob_hx. destruct x; cbn. exact Hns. Qed.

  Lemma ob_hx_succ : jstate_eqb (j_state (h x)) Success = succ.
  Proof. rewrite ob_hx. destruct x; reflexivity. Qed.

  Let Hothers := mc_others s b j x ns att D Hx Hxs.

  Lemma ob_find_job b' p : find_job s' b' p = option_map h (find_job s b' p).
  Proof. apply (c_find_job s s' h Hjobs Hstatic). Qed.

  Lemma ob_committed b' u : committed s' b' u = committed s b' u.
  Proof. unfold committed, find_update. rewrite Hupd. reflexivity. Qed.

  Lemma ob_jcommitted y : In y (jobs s) -> jcommitted s' (h y) = jcommitted s y.
  Proof. intros Hy. destruct (Hstatic y Hy) as (S1 & _ & S3 & _). unfold jcommitted. rewrite ob_committed, <- S1, <- S3. reflexivity. Qed.

  Lemma ob_parents_of b' c : parents_of s' b' c = parents_of s b' c.
  Proof. apply (c_parents_of s s' Hpar). Qed.

  Lemma ob_npp_spec b' c :
    npp_spec s' b' c = npp_spec s b' c - (if (b' =? b) && existsb (Z.eqb j) (parents_of s b' c) then 1 else 0).
  Proof.
    eapply (c_npp_spec s s' h b j x succ); try eassumption;
      first [exact ob_x_live | exact ob_hx_term | exact ob_hx_succ | exact Hothers | exact (d_enodup _ D) | exact (d_jkeys _ D)].
  Qed.

  Lemma ob_failed b' p :
    failed_state (pstate s' b' p) = failed_state (pstate s b' p) || ((b' =? b) && (p =? j) && negb succ).
  Proof.
    eapply (c_failed s s' h b j x succ); try eassumption;
      first [exact ob_x_live | exact ob_hx_term | exact ob_hx_succ | exact Hothers | exact (d_enodup _ D) | exact (d_jkeys _ D)].
  Qed.

  (* parents of a committed job exist and are committed, also in the new state *)
  Lemma ob_parents_exist y : In y (jobs s) ->
    (forall p, In p (parents_of s (j_batch y) (j_id y)) -> exists z, find_job s (j_batch y) p = Some z /\ jcommitted s z = true) ->
    forall p, In p (parents_of s' (j_batch (h y)) (j_id (h y))) ->
      exists z, find_job s' (j_batch (h y)) p = Some z /\ jcommitted s' z = true.
  Proof.
    intros Hy H p Hp. destruct (Hstatic y Hy) as (S1 & S2 & _). rewrite <- S1, <- S2, ob_parents_of in Hp.
    destruct (H p Hp) as (z & Fz & Cz). exists (h z). rewrite <- S1, ob_find_job, Fz. split; [reflexivity|].
    apply find_jkey_sound in Fz. destruct Fz as (Hz & _). rewrite (ob_jcommitted z Hz). exact Cz.
  Qed.

  (* does the completed job occur among the parents of (b', c)? *)
  Definition is_child (b' c : Z) : bool := (b' =? b) && existsb (Z.eqb j) (parents_of s b' c).

  Lemma ob_is_child_kid y : is_child (j_batch y) (j_id y) = (j_batch y =? b) && existsb (Z.eqb (j_id y)) (kids_of s b j).
  Proof.
    unfold is_child. destruct (j_batch y =? b) eqn:Eb; [|reflexivity]. cbn [andb].
    assert (E : j_batch y = b) by lia. rewrite E.
    apply eq_true_iff_eq. rewrite !existsb_eqb_in, in_parents_of, in_kids_of. tauto.
  Qed.

  Lemma ob_failed_parents b' c :
    is_child b' c = false \/ succ = true ->
    existsb (fun p => failed_state (pstate s' b' p)) (parents_of s b' c) = existsb (fun p => failed_state (pstate s b' p)) (parents_of s b' c).
  Proof.
    intros H. induction (parents_of s b' c) as [|p l IH] eqn:El in H |- *.
    - reflexivity.
    - cbn [existsb]. rewrite ob_failed.
      assert (Hp : (b' =? b) && (p =? j) && negb succ = false).
      { destruct H as [H|H]; [|rewrite H; cbn; apply andb_false_r].
        unfold is_child in H. rewrite El in H. cbn [existsb] in H.
        destruct (b' =? b); [|reflexivity]. cbn [andb] in *. apply orb_false_iff in H. destruct H as [H _].
        rewrite Z.eqb_sym, H. reflexivity. }
      rewrite Hp, orb_false_r. f_equal.
      (* tail: same argument on l *)
      clear IH.
      assert (Hl : forall q, In q l -> (b' =? b) && (q =? j) && negb succ = false).
      { intros q Hq. destruct H as [H|H]; [|rewrite H; cbn; apply andb_false_r].
        unfold is_child in H. rewrite El in H. cbn [existsb] in H.
        destruct (b' =? b); [|reflexivity]. cbn [andb] in *. apply orb_false_iff in H. destruct H as [_ H].
        destruct (q =? j) eqn:Eq; [|reflexivity]. exfalso.
        assert (existsb (Z.eqb j) l = true) by (apply existsb_eqb_in; assert (q = j) by lia; subst; exact Hq). congruence. }
      clear El. induction l as [|q l IHl]; [reflexivity|]. cbn [existsb]. rewrite ob_failed, (Hl q (or_introl eq_refl)), orb_false_r.
      f_equal. apply IHl. intros r Hr. apply Hl. right; exact Hr.
  Qed.

  Lemma ob_not_child_of_self : is_child b j = false.
  Proof.
    unfold is_child. rewrite Z.eqb_refl. cbn [andb]. apply not_true_is_false. intros E.
    apply existsb_eqb_in in E. apply in_parents_of in E. pose proof (d_edges _ D _ E) as Ed. cbn in Ed. lia.
  Qed.

  Lemma ob_job_ok y : In y (jobs s) -> job_ok s' (h y).
  Proof.
    intros Hy. pose proof (d_jobs _ D y Hy) as Ok. pose proof (Hstatic y Hy) as St. pose proof St as (S1 & S2 & S3 & _).
    unfold job_ok in *. rewrite (ob_jcommitted y Hy).
    destruct (jcommitted s y) eqn:Cy.
    2:{ (* uncommitted rows are not rewritten *)
      assert (E : h y = y).
      { assert (Hne : y <> x) by (intros ->; congruence).
        unfold h. rewrite (mc_h_other s b j x ns att D Hx y Hy Hne). unfold kid_map.
        destruct (j_batch y =? b) eqn:Eb; [|reflexivity]. cbn [andb].
        replace (committed s b (j_update y)) with false; [rewrite andb_false_r; reflexivity|].
        unfold jcommitted in Cy. assert (j_batch y = b) by lia. congruence. }
      rewrite E, !ob_parents_of. exact Ok. }
    destruct Ok as (N & P & Ex & Fl).
    split; [|split; [|split]].
    3:{ apply (ob_parents_exist y Hy Ex). }
    all: rewrite <- ?S1, <- ?S2, ?ob_parents_of, ?ob_npp_spec; fold (is_child (j_batch y) (j_id y)).
    all: destruct (jkey b j y) eqn:Ky.
    - (* y = x, npp *)
      apply (mc_key_x s b j x D Hx y Hy) in Ky. subst y. destruct (mc_x_in s b j x Hx) as (_ & E1 & E2).
      rewrite E1, E2, ob_not_child_of_self, ob_hx. rewrite E1, E2 in N. clear - N. destruct x; cbn in *. lia.
    - (* y <> x, npp *)
      assert (Hne : y <> x) by (intros ->; rewrite (proj2 (mc_key_x s b j x D Hx x (proj1 (mc_x_in s b j x Hx))) eq_refl) in Ky; discriminate).
      unfold h. rewrite (mc_h_other s b j x ns att D Hx y Hy Hne). unfold kid_map.
      rewrite ob_is_child_kid.
      destruct ((j_batch y =? b) && existsb (Z.eqb (j_id y)) (kids_of s b j)) eqn:Ek.
      + replace (committed s b (j_update y)) with true.
        * cbn [andb]. unfold child_G. destruct y; cbn in *. lia.
        * apply andb_true_iff in Ek. destruct Ek as [Eb _]. unfold jcommitted in Cy. assert (j_batch y = b) by lia. congruence.
      + cbn [andb]. lia.
    - (* y = x, pending iff *)
      apply (mc_key_x s b j x D Hx y Hy) in Ky. subst y. rewrite ob_hx.
      assert (Hnp : ~ (0 < j_npp x)).
      { intros H. apply P in H. destruct Hxs as [E|[E|E]]; congruence. }
      destruct x; cbn in *. split; [intros ->; discriminate | intros H; contradiction].
    - assert (Hne : y <> x) by (intros ->; rewrite (proj2 (mc_key_x s b j x D Hx x (proj1 (mc_x_in s b j x Hx))) eq_refl) in Ky; discriminate).
      unfold h. rewrite (mc_h_other s b j x ns att D Hx y Hy Hne). unfold kid_map.
      destruct ((j_batch y =? b) && existsb (Z.eqb (j_id y)) (kids_of s b j) && committed s b (j_update y)) eqn:Ek; [|exact P].
      apply andb_true_iff in Ek. destruct Ek as [Ek Ec]. apply andb_true_iff in Ek. destruct Ek as [Eb Ekid].
      apply existsb_eqb_in in Ekid. assert (Eb' : j_batch y = b) by lia.
      destruct (mc_child_pending s b j x ns D Hx Hxs y Hy Eb' Ekid Ec) as (_ & Hge & _).
      unfold child_G. destruct y as [yb yi yu yg ys ya yc yn ycn yat yic]; cbn in *.
      destruct (yn =? 1) eqn:E1; split; intros H; try discriminate; try lia; try reflexivity.
    - (* y = x, failed parents *)
      apply (mc_key_x s b j x D Hx y Hy) in Ky. subst y. destruct (mc_x_in s b j x Hx) as (_ & E1 & E2).
      rewrite ob_hx. intros E. assert (Hc : j_cancelled x = true).
      { apply Fl. rewrite <- (ob_failed_parents (j_batch x) (j_id x)); [exact E|]. left. rewrite E1, E2. apply ob_not_child_of_self. }
      destruct x; cbn in *. exact Hc.
    - assert (Hne : y <> x) by (intros ->; rewrite (proj2 (mc_key_x s b j x D Hx x (proj1 (mc_x_in s b j x Hx))) eq_refl) in Ky; discriminate).
      unfold h. rewrite (mc_h_other s b j x ns att D Hx y Hy Hne). unfold kid_map.
      intros E.
      destruct ((j_batch y =? b) && existsb (Z.eqb (j_id y)) (kids_of s b j) && committed s b (j_update y)) eqn:Ek.
      + unfold child_G. fold succ. destruct succ eqn:Es.
        * assert (Hc : j_cancelled y = true).
          { apply Fl. rewrite <- (ob_failed_parents (j_batch y) (j_id y)); [exact E | right; exact Es]. }
          destruct y; cbn in *. exact Hc.
        * destruct y; reflexivity.
      + apply Fl. rewrite <- (ob_failed_parents (j_batch y) (j_id y)); [exact E|].
        left. rewrite ob_is_child_kid.
        apply andb_false_iff in Ek. destruct Ek as [Ek|Ek]; [exact Ek|].
        destruct (j_batch y =? b) eqn:Eb; [|reflexivity].
        exfalso. unfold jcommitted in Cy. assert (j_batch y = b) by lia. congruence.
  Qed.
End Oblig.
