(** Completion of one job: how the parent-state functions and [npp_spec] change when exactly one job
    (batch [b], id [j]) turns from a live into a terminal state and all other rows keep their
    terminal-ness and success-ness. *)
From HailV Require Import Common.Prelude BatchDB.Model BatchDB.Tables BatchDB.CMap BatchDB.JobsWF BatchDB.StepCore
  BatchDB.JobFold BatchDB.Legal BatchDB.DepsDef BatchDB.DepsEasy BatchDB.DepsMap.
Open Scope Z_scope.

Lemma NoDup_parents_of s b c : NoDup (parents s) -> NoDup (parents_of s b c).
Proof.
  intros ND. unfold parents_of, edges_of.
  assert (H : forall l, NoDup l -> NoDup (map (fun r : Z * Z * Z => let '(_, _, p) := r in p)
                                             (filter (fun r => let '(b', j', _) := r in (b' =? b) && (j' =? c)) l))).
  { induction l as [|[[b' j'] p] l IH]; intros N; cbn [filter map]; [constructor|].
    inversion N as [|? ? Hn N']; subst.
    destruct ((b' =? b) && (j' =? c)) eqn:E; [|apply IH; exact N'].
    cbn [map]. constructor; [|apply IH; exact N'].
    intros Hin. apply in_map_iff in Hin. destruct Hin as ([[b2 j2] p2] & Hp & Hf). subst p2.
    apply filter_In in Hf. destruct Hf as (Hl & E2).
    apply andb_true_iff in E. apply andb_true_iff in E2.
    assert (b2 = b') by lia. assert (j2 = j') by lia. subst. contradiction. }
  apply H. exact ND.
Qed.

Lemma in_parents_of s b c p : In p (parents_of s b c) <-> In (b, c, p) (parents s).
Proof.
  unfold parents_of, edges_of. split.
  - intros H. apply in_map_iff in H. destruct H as ([[b' j'] p'] & <- & Hf).
    apply filter_In in Hf. destruct Hf as (Hl & E). apply andb_true_iff in E.
    assert (b' = b) by lia. assert (j' = c) by lia. subst. exact Hl.
  - intros H. apply in_map_iff. exists (b, c, p). split; [reflexivity|].
    apply filter_In. split; [exact H|]. rewrite !Z.eqb_refl. reflexivity.
Qed.

(* removing one element that occurs exactly once from a filter count *)
Lemma count_drop_one (f g : Z -> bool) (j : Z) l :
  NoDup l ->
  (forall p, In p l -> g p = f p && negb (p =? j)) ->
  Z.of_nat (length (filter g l)) = Z.of_nat (length (filter f l)) - (if existsb (Z.eqb j) l && f j then 1 else 0).
Proof.
  induction l as [|p l IH]; intros ND H; [reflexivity|].
  inversion ND as [|? ? Hn ND']; subst.
  cbn [filter existsb]. rewrite (H p (or_introl eq_refl)).
  specialize (IH ND' (fun q Hq => H q (or_intror Hq))).
  destruct (p =? j) eqn:E.
  - assert (p = j) by lia. subst p. rewrite Z.eqb_refl. cbn [orb andb negb]. rewrite andb_false_r.
    assert (Ex : existsb (Z.eqb j) l = false).
    { apply not_true_is_false. intros Ex. apply existsb_exists in Ex. destruct Ex as (z & Hz & Ez).
      assert (z = j) by lia. subst. contradiction. }
    rewrite Ex in IH. cbn [andb] in IH.
    destruct (f j); cbn [length]; lia.
  - rewrite (Z.eqb_sym j p), E. cbn [orb negb]. rewrite andb_true_r.
    destruct (f p); cbn [length]; lia.
Qed.

Section Complete.
  Variables (s s' : state) (h : job -> job) (b j : Z) (x : job) (succ : bool).
  Hypothesis Hjobs : jobs s' = map h (jobs s).
  Hypothesis Hstatic : forall y, In y (jobs s) -> static y (h y).
  Hypothesis Hpar : parents s' = parents s.
  Hypothesis Hx : find_job s b j = Some x.
  Hypothesis Hx_live : terminal (j_state x) = false.
  Hypothesis Hx_term : terminal (j_state (h x)) = true.
  Hypothesis Hx_succ : jstate_eqb (j_state (h x)) Success = succ.
  (* every other row keeps its terminal-ness and success-ness *)
  Hypothesis Hothers : forall y, In y (jobs s) -> y <> x ->
    terminal (j_state (h y)) = terminal (j_state y) /\ jstate_eqb (j_state (h y)) Success = jstate_eqb (j_state y) Success.
  Hypothesis K : Kjobs s.

  Lemma c_find_job b' p : find_job s' b' p = option_map h (find_job s b' p).
  Proof.
    rewrite !find_job_eq, Hjobs.
    assert (H : forall l, (forall y, In y l -> In y (jobs s)) -> find (jkey b' p) (map h l) = option_map h (find (jkey b' p) l)).
    { induction l as [|y l IH]; intros Hin; [reflexivity|]. cbn [map find].
      rewrite <- (jkey_static b' p y (h y) (Hstatic y (Hin y (or_introl eq_refl)))).
      destruct (jkey b' p y); [reflexivity|]. apply IH. intros z Hz. apply Hin. right; exact Hz. }
    apply H. auto.
  Qed.

  Lemma c_is_x b' p y : find_job s b' p = Some y -> (y = x <-> (b' =? b) && (p =? j) = true).
  Proof.
    intros F. pose proof (find_jkey_sound _ _ _ _ F) as (Hy & E1 & E2).
    pose proof (find_jkey_sound _ _ _ _ Hx) as (Hxin & E3 & E4).
    split.
    - intros ->. apply andb_true_iff. split; lia.
    - intros E. apply andb_true_iff in E. destruct E as [Eb Ej].
      assert (b' = b) by lia. assert (p = j) by lia. subst. congruence.
  Qed.

  Lemma c_live b' p :
    live_state (pstate s' b' p) = live_state (pstate s b' p) && negb ((b' =? b) && (p =? j)).
  Proof.
    unfold pstate. rewrite c_find_job. destruct (find_job s b' p) as [y|] eqn:F; [|reflexivity]. cbn.
    pose proof (find_jkey_sound _ _ _ _ F) as (Hy & _).
    destruct ((b' =? b) && (p =? j)) eqn:E.
    - apply (c_is_x _ _ _ F) in E. subst y. rewrite Hx_term, Hx_live. reflexivity.
    - assert (y <> x) by (intros ->; assert (T : (b' =? b) && (p =? j) = true) by (apply (c_is_x _ _ _ F); reflexivity); congruence).
      destruct (Hothers y Hy H) as [T _]. rewrite T, andb_true_r. reflexivity.
  Qed.

  Lemma c_failed b' p :
    failed_state (pstate s' b' p) = failed_state (pstate s b' p) || ((b' =? b) && (p =? j) && negb succ).
  Proof.
    unfold pstate. rewrite c_find_job. destruct (find_job s b' p) as [y|] eqn:F.
    - cbn. pose proof (find_jkey_sound _ _ _ _ F) as (Hy & _).
      destruct ((b' =? b) && (p =? j)) eqn:E.
      + apply (c_is_x _ _ _ F) in E. subst y. rewrite Hx_term, Hx_live, Hx_succ. reflexivity.
      + assert (y <> x) by (intros ->; assert (T : (b' =? b) && (p =? j) = true) by (apply (c_is_x _ _ _ F); reflexivity); congruence).
        destruct (Hothers y Hy H) as [T S]. rewrite T, S. cbn. rewrite orb_false_r. reflexivity.
    - cbn. destruct ((b' =? b) && (p =? j)) eqn:E; [|reflexivity].
      exfalso. apply andb_true_iff in E. destruct E. assert (b' = b) by lia. assert (p = j) by lia. subst. congruence.
  Qed.

  Lemma c_parents_of b' c : parents_of s' b' c = parents_of s b' c.
  Proof. unfold parents_of, edges_of. rewrite Hpar. reflexivity. Qed.

  Hypothesis ND : NoDup (parents s).

  Lemma c_npp_spec b' c :
    npp_spec s' b' c = npp_spec s b' c - (if (b' =? b) && existsb (Z.eqb j) (parents_of s b' c) then 1 else 0).
  Proof.
    unfold npp_spec. rewrite c_parents_of.
    destruct (b' =? b) eqn:Eb.
    - rewrite (count_drop_one (fun p => live_state (pstate s b' p)) (fun p => live_state (pstate s' b' p)) j).
      + cbn [andb]. (* the parent x is live in s *)
        assert (L : live_state (pstate s b' j) = true).
        { assert (b' = b) by lia. subst. unfold pstate. rewrite Hx. cbn. rewrite Hx_live. reflexivity. }
        rewrite L, andb_true_r. reflexivity.
      + apply NoDup_parents_of. exact ND.
      + intros p _. rewrite c_live, Eb. reflexivity.
    - cbn [andb]. rewrite Z.sub_0_r. f_equal. f_equal. apply filter_ext. intros p. rewrite c_live, Eb. cbn. rewrite andb_true_r. reflexivity.
  Qed.
End Complete.
