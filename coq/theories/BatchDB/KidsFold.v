(** The fold of [release_children] (mark_job_complete's UPDATE of the children) is a [map] on the jobs table. *)
From HailV Require Import Common.Prelude BatchDB.Model BatchDB.Tables BatchDB.JobsWF BatchDB.StepCore BatchDB.JobFold.
From RecordUpdate Require Import RecordSet.
Import RecordSetNotations.
Open Scope Z_scope.

Definition rest_eq (s s' : state) : Prop :=
  batches s' = batches s /\ updates s' = updates s /\ groups s' = groups s /\ ancestors s' = ancestors s /\
  marks s' = marks s /\ parents s' = parents s /\ staging s' = staging s /\ next_batch s' = next_batch s /\
  attempts s' = attempts s /\ insts s' = insts s.

Lemma rest_eq_refl s : rest_eq s s.
Proof. repeat split. Qed.
Lemma rest_eq_trans a b c : rest_eq a b -> rest_eq b c -> rest_eq a c.
Proof. unfold rest_eq. intuition congruence. Qed.
Lemma rest_eq_update_job s o n : rest_eq s (update_job s o n).
Proof. unfold rest_eq. autorewrite with frame. repeat split; reflexivity. Qed.

Section Kids.
  Variables (b : Z) (C : job -> bool) (G : job -> job).
  Hypothesis G_static : forall y, static y (G y).
  Hypothesis C_static : forall y y', static y y' -> C y = C y'.

  Definition kid_step (st : state) (c : Z) : state :=
    match find_job st b c with
    | Some x => if negb (C x) then st else update_job st x (G x)
    | None => st
    end.

  Definition kid_map (kids : list Z) (y : job) : job :=
    if (j_batch y =? b) && existsb (Z.eqb (j_id y)) kids && C y then G y else y.

  Lemma kid_map_static kids y : static y (kid_map kids y).
  Proof. unfold kid_map. destruct (_ && _); [apply G_static | apply static_refl]. Qed.

  Lemma kid_step_one st c : Kjobs st ->
    jobs (kid_step st c) = map (kid_map [c]) (jobs st) /\ rest_eq st (kid_step st c).
  Proof.
    intros K. unfold kid_step. destruct (find_job st b c) as [x|] eqn:F.
    - pose proof (find_jkey_sound _ _ _ _ F) as (Hx & Hb & Hc).
      assert (Huniq : forall y, In y (jobs st) -> j_batch y = b -> j_id y = c -> y = x).
      { intros y Hy E1 E2. pose proof (find_jkey_in _ y K Hy) as Fy. rewrite E1, E2 in Fy.
        rewrite find_job_eq in F. congruence. }
      destruct (C x) eqn:Cx; cbn [negb].
      + split; [|apply rest_eq_update_job]. rewrite update_job_jobs, replace_job_map. apply map_ext_in. intros y Hy.
        destruct (G_static x) as (S1 & S2 & _). unfold kid_map. cbn [existsb]. rewrite orb_false_r.
        destruct (jkey (j_batch (G x)) (j_id (G x)) y) eqn:Ky.
        * apply jkey_true in Ky. destruct Ky as [K1 K2].
          assert (y = x) by (apply Huniq; [exact Hy | congruence | congruence]). subst y.
          rewrite Hb, Hc, !Z.eqb_refl, Cx. reflexivity.
        * destruct ((j_batch y =? b) && (j_id y =? c)) eqn:E; [|reflexivity].
          exfalso. apply andb_true_iff in E. destruct E as [E1 E2].
          assert (jkey (j_batch (G x)) (j_id (G x)) y = true) by (apply jkey_true; split; lia). congruence.
      + split; [|apply rest_eq_refl]. rewrite <- (map_id (jobs st)) at 1. apply map_ext_in. intros y Hy.
        unfold kid_map. cbn [existsb]. rewrite orb_false_r.
        destruct ((j_batch y =? b) && (j_id y =? c)) eqn:E; [|reflexivity].
        apply andb_true_iff in E. destruct E as [E1 E2].
        assert (y = x) by (apply Huniq; [exact Hy | lia | lia]). subst y. rewrite Cx. reflexivity.
    - split; [|apply rest_eq_refl]. rewrite <- (map_id (jobs st)) at 1. apply map_ext_in. intros y Hy.
      unfold kid_map. cbn [existsb]. rewrite orb_false_r.
      destruct ((j_batch y =? b) && (j_id y =? c)) eqn:E; [|reflexivity].
      exfalso. apply andb_true_iff in E. destruct E as [E1 E2].
      rewrite find_job_eq in F. pose proof (find_none _ _ F y Hy) as N. unfold jkey in N. rewrite E1, E2 in N. discriminate.
  Qed.

  Lemma kid_step_K st c : Kjobs st -> Kjobs (kid_step st c).
  Proof.
    intros K. unfold kid_step. destruct (find_job st b c); [|exact K].
    destruct (negb _); [exact K | apply Kjobs_update_job; exact K].
  Qed.

  Lemma existsb_id_notin (y : job) c rest : (j_id y =? c) = true -> ~ In c rest -> existsb (Z.eqb (j_id y)) rest = false.
  Proof.
    intros E Hn. apply not_true_is_false. intros Ex. apply existsb_exists in Ex. destruct Ex as (z & Hz & Ez).
    apply Hn. assert (z = c) by lia. subst. exact Hz.
  Qed.

  Lemma kid_map_cons c rest y : ~ In c rest -> kid_map rest (kid_map [c] y) = kid_map (c :: rest) y.
  Proof.
    intros Hn. unfold kid_map at 2 3. cbn [existsb]. rewrite orb_false_r.
    destruct (j_batch y =? b) eqn:B; cbn [andb]; [|unfold kid_map; rewrite B; reflexivity].
    destruct (j_id y =? c) eqn:I; cbn [andb orb].
    - destruct (C y) eqn:Cy.
      + unfold kid_map. destruct (G_static y) as (S1 & S2 & _). rewrite <- S1, <- S2, B.
        rewrite (existsb_id_notin y c rest I Hn). reflexivity.
      + unfold kid_map. rewrite B, Cy, andb_false_r. reflexivity.
    - unfold kid_map. rewrite B. reflexivity.
  Qed.

  Lemma fold_kids kids : NoDup kids -> forall st, Kjobs st ->
    jobs (fold_left kid_step kids st) = map (kid_map kids) (jobs st) /\ rest_eq st (fold_left kid_step kids st).
  Proof.
    induction kids as [|c rest IH]; intros ND st K; cbn [fold_left].
    - split; [|apply rest_eq_refl]. rewrite <- (map_id (jobs st)) at 1. apply map_ext. intros y.
      unfold kid_map. cbn [existsb]. rewrite andb_false_r. reflexivity.
    - inversion ND as [|? ? Hn ND']; subst.
      destruct (kid_step_one st c K) as (J1 & R1).
      destruct (IH ND' (kid_step st c) (kid_step_K st c K)) as (J2 & R2).
      split; [|eapply rest_eq_trans; eassumption].
      rewrite J2, J1, map_map. apply map_ext. intros y. apply kid_map_cons. exact Hn.
  Qed.
End Kids.
