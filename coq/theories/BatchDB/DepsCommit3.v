(** Commit of a batch update: [job_ok] of every row after the commit. *)
From HailV Require Import Common.Prelude BatchDB.Model BatchDB.Tables BatchDB.CMap BatchDB.JobsWF BatchDB.StepCore
  BatchDB.JobFold BatchDB.Legal BatchDB.DepsDef BatchDB.DepsEasy BatchDB.DepsMap BatchDB.DepsMC1 BatchDB.DepsCommit1 BatchDB.DepsCommit2.
From RecordUpdate Require Import RecordSet.
Import RecordSetNotations.
Open Scope Z_scope.

Lemma parent_states_pstate s b j : parent_states s b j = map (pstate s b) (parents_of s b j).
Proof.
  unfold parent_states, parents_of, edges_of, pstate. rewrite map_map. apply map_ext. intros [[b' j'] p]. reflexivity.
Qed.

Lemma live_state_eq o : (match o with Some st => negb (terminal st) | None => false end) = live_state o.
Proof. reflexivity. Qed.
Lemma succ_state_eq o : (match o with Some Success => true | _ => false end) = succ_state o.
Proof. destruct o as [[]|]; reflexivity. Qed.

Lemma existsb_map_eq {A B} (f : B -> bool) (g : A -> B) l : existsb f (map g l) = existsb (fun x => f (g x)) l.
Proof. induction l as [|a l IH]; cbn; [reflexivity | rewrite IH; reflexivity]. Qed.

Lemma recompute_job_static s x : static x (recompute_job s x).
Proof. unfold recompute_job. destruct x; repeat split. Qed.

Lemma recompute_job_fields s x :
  let ps := map (pstate s (j_batch x)) (parents_of s (j_batch x) (j_id x)) in
  let npp := Z.of_nat (length (filter live_state ps)) in
  j_npp (recompute_job s x) = npp /\
  j_state (recompute_job s x) = (if npp =? 0 then Ready else Pending) /\
  j_cancelled (recompute_job s x) =
    (if Z.of_nat (length (filter succ_state ps)) =? Z.of_nat (length ps) - npp then j_cancelled x else true) /\
  j_attempt (recompute_job s x) = j_attempt x.
Proof.
  cbv zeta. unfold recompute_job. rewrite parent_states_pstate.
  assert (E : forall l : list (option jstate), filter (fun o => match o with Some Success => true | _ => false end) l = filter succ_state l).
  { intros l. apply filter_ext. intros o. apply succ_state_eq. }
  rewrite E. destruct x; cbn. repeat split.
Qed.

Section Oblig.
  Variables (s s' : state) (b u : Z) (up : update).
  Hypothesis D : DInv s.
  Hypothesis Fup : find_update s b u = Some up.
  Hypothesis Hunc : u_committed up = false.
  Hypothesis Hst : root_staged s b u = u_njobs up.

  Definition cm_T (y : job) : bool :=
    (j_batch y =? b) && (u_start_job up <=? j_id y) && (j_id y <? u_start_job up + u_njobs up).
  Definition cm_h (y : job) : job := if u =? 1 then y else gmap cm_T (recompute_job s) y.

  Hypothesis Hjobs : jobs s' = map cm_h (jobs s).
  Hypothesis Hupd : updates s' = map (commit_fl b u) (updates s).
  Hypothesis Hpar : parents s' = parents s.

  Lemma cmo_up : In up (updates s) /\ u_batch up = b /\ u_id up = u.
  Proof. apply find_update_in. exact Fup. Qed.

  Lemma cmo_T y : In y (jobs s) -> cm_T y = in_update b u y.
  Proof.
    intros Hy. destruct cmo_up as (Hup & Eb & Eu). unfold cm_T, in_update.
    destruct (j_batch y =? b) eqn:E1; [|reflexivity]. cbn [andb].
    destruct ((u_start_job up <=? j_id y) && (j_id y <? u_start_job up + u_njobs up)) eqn:E2.
    - apply andb_true_iff in E2. destruct E2.
      rewrite (job_owner s y up D Hy Hup); [rewrite Eu; symmetry; apply Z.eqb_refl | lia | lia].
    - destruct (j_update y =? u) eqn:E3; [|reflexivity]. exfalso.
      destruct (d_jrange _ D y Hy) as (uy & Fy & Ry).
      replace (j_batch y) with b in Fy by lia. replace (j_update y) with u in Fy by lia.
      rewrite Fup in Fy. injection Fy as <-. apply andb_false_iff in E2. lia.
  Qed.

  Lemma cmo_static y : static y (cm_h y).
  Proof. unfold cm_h. destruct (u =? 1); [apply static_refl | apply gmap_static; apply recompute_job_static]. Qed.

  (* jobs outside the update are not touched *)
  Lemma cmo_h_out y : In y (jobs s) -> in_update b u y = false -> cm_h y = y.
  Proof.
    intros Hy E. unfold cm_h. destruct (u =? 1); [reflexivity|]. unfold gmap. rewrite (cmo_T y Hy), E. reflexivity.
  Qed.

  (* a job of the (uncommitted) update: no attempt, Pending or (first update) Ready *)
  Lemma cmo_in_unc y : In y (jobs s) -> in_update b u y = true -> jcommitted s y = false.
  Proof.
    intros Hy E. unfold in_update in E. apply andb_true_iff in E. destruct E as [E1 E2].
    unfold jcommitted, committed. replace (j_batch y) with b by lia. replace (j_update y) with u by lia. rewrite Fup. exact Hunc.
  Qed.

  Lemma cmo_in_live y : In y (jobs s) -> in_update b u y = true -> terminal (j_state y) = false.
  Proof.
    intros Hy E. pose proof (d_jobs _ D y Hy) as Ok. unfold job_ok in Ok. rewrite (cmo_in_unc y Hy E) in Ok.
    destruct Ok as (_ & Ok). destruct (j_update y =? 1).
    - destruct Ok as (_ & St). rewrite St. destruct (is_nil _); reflexivity.
    - rewrite Ok. reflexivity.
  Qed.

  Lemma cmo_h_live y : In y (jobs s) -> terminal (j_state (cm_h y)) = terminal (j_state y) /\
                                        jstate_eqb (j_state (cm_h y)) Success = jstate_eqb (j_state y) Success.
  Proof.
    intros Hy. destruct (in_update b u y) eqn:E.
    - pose proof (cmo_in_live y Hy E) as L. unfold cm_h. destruct (u =? 1); [split; reflexivity|].
      unfold gmap. rewrite (cmo_T y Hy), E.
      destruct (recompute_job_fields s y) as (_ & St & _). cbv zeta in St. rewrite St.
      destruct (_ =? 0); destruct (j_state y); cbn in *; try discriminate; split; reflexivity.
    - rewrite (cmo_h_out y Hy E). split; reflexivity.
  Qed.

  Lemma cmo_find_job b' p : find_job s' b' p = option_map cm_h (find_job s b' p).
  Proof. apply (cm_find_job s s' cm_h Hjobs (fun y _ => cmo_static y)). Qed.

  Lemma cmo_pstate_live b' p : live_state (pstate s' b' p) = live_state (pstate s b' p).
  Proof.
    unfold pstate. rewrite cmo_find_job. destruct (find_job s b' p) as [z|] eqn:F; [|reflexivity]. cbn.
    apply find_jkey_sound in F. destruct F as (Hz & _). destruct (cmo_h_live z Hz) as [T _]. rewrite T. reflexivity.
  Qed.

  Lemma cmo_pstate_failed b' p : failed_state (pstate s' b' p) = failed_state (pstate s b' p).
  Proof.
    unfold pstate. rewrite cmo_find_job. destruct (find_job s b' p) as [z|] eqn:F; [|reflexivity]. cbn.
    apply find_jkey_sound in F. destruct F as (Hz & _). destruct (cmo_h_live z Hz) as [T S]. rewrite T, S. reflexivity.
  Qed.

  Lemma cmo_parents_of b' c : parents_of s' b' c = parents_of s b' c.
  Proof. apply (cm_parents_of s s' Hpar). Qed.

  Lemma cmo_npp_spec b' c : npp_spec s' b' c = npp_spec s b' c.
  Proof. unfold npp_spec. rewrite cmo_parents_of. f_equal. f_equal. apply filter_ext. intros p. apply cmo_pstate_live. Qed.

  Lemma cmo_jcommitted y : In y (jobs s) -> jcommitted s' (cm_h y) = jcommitted s y || in_update b u y.
  Proof. apply (cm_jcommitted s s' cm_h b u up (fun y _ => cmo_static y) Hupd Fup). Qed.

  (* every parent of a job of the update exists, and is committed after the commit *)
  Lemma cmo_parent_of_member y p : In y (jobs s) -> in_update b u y = true -> In p (parents_of s (j_batch y) (j_id y)) ->
    exists z, find_job s (j_batch y) p = Some z /\ (jcommitted s z = true \/ in_update b u z = true) /\ (u_start_job up <= p -> in_update b u z = true).
  Proof.
    intros Hy E Hp. pose proof E as E'. unfold in_update in E'. apply andb_true_iff in E'. destruct E' as [E1 E2].
    apply in_parents_of in Hp. pose proof (d_edges _ D _ Hp) as Ed. cbn in Ed.
    destruct Ed as (R & x & ux & F1 & F2 & F3).
    assert (Eb : j_batch y = b) by lia. assert (Eu : j_update y = u) by lia.
    pose proof (find_jkey_in _ y (d_jkeys _ D) Hy) as Fy. rewrite <- find_job_eq in Fy. rewrite Fy in F1. injection F1 as <-.
    rewrite Eb, Eu, Fup in F2. injection F2 as <-.
    destruct (Z_lt_ge_dec p (u_start_job up)) as [Lt|Ge].
    - destruct (F3 Lt) as (z & Fz & Cz). exists z. split; [exact Fz|]. split; [left; exact Cz | intros; lia].
    - destruct (d_jrange _ D y Hy) as (uy & Fuy & Ry).
      rewrite Eb, Eu, Fup in Fuy. injection Fuy as <-.
      destruct (all_jobs_present s b u up D Fup Hunc Hst p ltac:(lia)) as (z & Fz & Uz).
      exists z. rewrite Eb. pose proof (find_jkey_sound _ _ _ _ Fz) as (_ & Bz & _).
      assert (Iz : in_update b u z = true) by (unfold in_update; apply andb_true_iff; split; lia).
      repeat split; auto.
  Qed.

  Lemma cmo_job_ok y : In y (jobs s) -> job_ok s' (cm_h y).
  Proof.
    intros Hy. pose proof (d_jobs _ D y Hy) as Ok. pose proof (cmo_static y) as (S1 & S2 & S3 & _).
    unfold job_ok in *. rewrite (cmo_jcommitted y Hy), <- S1, <- S2, cmo_parents_of, cmo_npp_spec.
    destruct (in_update b u y) eqn:E.
    2:{ (* outside the update: the row and everything it depends on is unchanged *)
      rewrite orb_false_r, (cmo_h_out y Hy E). destruct (jcommitted s y) eqn:Cy; [|exact Ok].
      destruct Ok as (N & P & Ex & Fl). repeat split; try tauto.
      - intros p Hp. destruct (Ex p Hp) as (z & Fz & Cz). exists (cm_h z). rewrite cmo_find_job, Fz. split; [reflexivity|].
        apply find_jkey_sound in Fz. destruct Fz as (Hz & _). rewrite (cmo_jcommitted z Hz), Cz. reflexivity.
      - intros Ef. apply Fl. erewrite existsb_ext; [exact Ef|]. intros p. cbv beta. symmetry. apply cmo_pstate_failed. }
    rewrite orb_true_r. rewrite (cmo_in_unc y Hy E) in Ok. destruct Ok as (Na & Ok).
    pose proof E as E'. unfold in_update in E'. apply andb_true_iff in E'. destruct E' as [E1 E2].
    assert (Hpar_exist : forall p, In p (parents_of s (j_batch y) (j_id y)) ->
              exists z, find_job s' (j_batch y) p = Some z /\ jcommitted s' z = true).
    { intros p Hp. destruct (cmo_parent_of_member y p Hy E Hp) as (z & Fz & Cz & _).
      exists (cm_h z). rewrite cmo_find_job, Fz. split; [reflexivity|].
      apply find_jkey_sound in Fz. destruct Fz as (Hz & _). rewrite (cmo_jcommitted z Hz).
      destruct Cz as [Cz|Cz]; rewrite Cz; [reflexivity | apply orb_true_r]. }
    assert (Eu : j_update y = u) by lia.
    unfold cm_h. destruct (u =? 1) eqn:U1.
    - (* first update: rows unchanged; all parents are live members of the update *)
      assert (Hu1 : u = 1) by lia. rewrite Eu, U1 in Ok. destruct Ok as (Nn & Sy).
      assert (Hlive : forall p, In p (parents_of s (j_batch y) (j_id y)) -> live_state (pstate s (j_batch y) p) = true).
      { intros p Hp. destruct (cmo_parent_of_member y p Hy E Hp) as (z & Fz & _ & Mz).
        destruct cmo_up as (Hup & _ & Eid). pose proof (d_ufirst _ D up Hup ltac:(lia)) as S0.
        apply in_parents_of in Hp. pose proof (d_edges _ D _ Hp) as Ed. cbn in Ed. destruct Ed as (R & _).
        unfold pstate. rewrite Fz. cbn. pose proof (find_jkey_sound _ _ _ _ Fz) as (Hz & _).
        rewrite (cmo_in_live z Hz (Mz ltac:(lia))). reflexivity. }
      repeat split.
      + rewrite Nn. unfold npp_spec. f_equal. f_equal. symmetry.
        clear - Hlive. induction (parents_of s (j_batch y) (j_id y)) as [|p l IH]; [reflexivity|].
        cbn [filter]. rewrite (Hlive p (or_introl eq_refl)). f_equal. apply IH. intros q Hq. apply Hlive. right; exact Hq.
      + rewrite Sy, Nn. destruct (parents_of s (j_batch y) (j_id y)); cbn; [intros; discriminate | intros _; lia].
      + rewrite Sy, Nn. destruct (parents_of s (j_batch y) (j_id y)); cbn; [lia | reflexivity].
      + exact Hpar_exist.
      + intros Ef. exfalso. apply existsb_exists in Ef. destruct Ef as (p & Hp & Fp). rewrite cmo_pstate_failed in Fp.
        pose proof (Hlive p Hp) as L. unfold live_state, failed_state in *. destruct (pstate s (j_batch y) p) as [st|]; [|discriminate].
        destruct (terminal st); cbn in *; discriminate.
    - (* later update: the row is recomputed from its parents' states *)
      unfold gmap. rewrite (cmo_T y Hy), E.
      destruct (recompute_job_fields s y) as (Fn & Fs & Fc & _). cbv zeta in *.
      rewrite !filter_map_length in Fn, Fs, Fc.
      repeat split.
      + rewrite Fn. reflexivity.
      + rewrite Fs, Fn. destruct (_ =? 0) eqn:Z0; [intros; discriminate | intros _; lia].
      + rewrite Fs, Fn. destruct (_ =? 0) eqn:Z0; [lia | reflexivity].
      + exact Hpar_exist.
      + intros Ef. rewrite Fc.
        assert (Ef' : existsb failed_state (map (pstate s (j_batch y)) (parents_of s (j_batch y) (j_id y))) = true).
        { rewrite existsb_map_eq. erewrite existsb_ext; [exact Ef|]. intros p. cbv beta. symmetry. apply cmo_pstate_failed. }
        pose proof (failed_means_cancel _ Ef') as Ne. rewrite !filter_map_length, map_length in Ne.
        rewrite map_length, ?filter_map_length. match goal with |- (if ?c then _ else _) = true => destruct c eqn:Q end; [lia | reflexivity].
  Qed.
End Oblig.
