(** Folding [update_job] over a list of distinct rows is a [map] on the jobs table. *)
From HailV Require Import Common.Prelude BatchDB.Model BatchDB.Tables BatchDB.JobsWF BatchDB.StepCore.
From RecordUpdate Require Import RecordSet.
Import RecordSetNotations.
Open Scope Z_scope.

Lemma replace_job_map n l :
  replace_job n l = map (fun x => if jkey (j_batch n) (j_id n) x then n else x) l.
Proof. reflexivity. Qed.

(* a row with a key that does not occur is not replaced *)
Lemma replace_job_notin n l : ~ In (jk n) (map jk l) -> replace_job n l = l.
Proof.
  intros H. rewrite replace_job_map. rewrite <- (map_id l) at 2. apply map_ext_in. intros x Hx.
  destruct (jkey (j_batch n) (j_id n) x) eqn:E; [|reflexivity].
  exfalso. apply H. apply jkey_jk in E. unfold jk at 1. rewrite <- E. apply in_map. exact Hx.
Qed.

Lemma replace_job_app n l1 l2 : replace_job n (l1 ++ l2) = replace_job n l1 ++ replace_job n l2.
Proof. unfold replace_job. apply map_app. Qed.

Lemma replace_job_head x n l :
  static x n -> ~ In (jk x) (map jk l) -> replace_job n (x :: l) = n :: l.
Proof.
  intros S Hn. cbn [replace_job map].
  destruct S as (S1 & S2 & _).
  replace ((j_batch x =? j_batch n) && (j_id x =? j_id n)) with true by (symmetry; apply andb_true_iff; split; lia).
  f_equal. change (map _ l) with (replace_job n l). apply replace_job_notin.
  unfold jk in *. rewrite <- S1, <- S2. exact Hn.
Qed.

Section Fold.
  Variable P : job -> bool.
  Variable F : job -> job.
  Hypothesis F_static : forall j, static j (F j).

  Definition gmap (j : job) : job := if P j then F j else j.

  Lemma gmap_static j : static j (gmap j).
  Proof. unfold gmap. destruct (P j); [apply F_static | apply static_refl]. Qed.

  Lemma map_jk_gmap l : map jk (map gmap l) = map jk l.
  Proof.
    rewrite map_map. apply map_ext. intros x. pose proof (gmap_static x) as (S1 & S2 & _).
    unfold jk. congruence.
  Qed.

  (* [step_fn st j] behaves like "if P j then update_job st j (F j) else st" on the states met during the fold *)
  Variable step_fn : state -> job -> state.
  Variable I : state -> Prop.
  Hypothesis step_fn_spec : forall st j, I st -> step_fn st j = if P j then update_job st j (F j) else st.
  Hypothesis I_update_job : forall st o n, I st -> I (update_job st o n).

  Lemma fold_update_job_jobs suf : forall pre st,
    I st ->
    NoDup (map jk (pre ++ suf)) ->
    jobs st = map gmap pre ++ suf ->
    let st' := fold_left step_fn suf st in
    jobs st' = map gmap (pre ++ suf) /\ I st' /\
    batches st' = batches st /\ updates st' = updates st /\ groups st' = groups st /\ ancestors st' = ancestors st /\
    marks st' = marks st /\ parents st' = parents st /\ staging st' = staging st /\
    attempts st' = attempts st /\ insts st' = insts st /\ next_batch st' = next_batch st.
  Proof.
    induction suf as [|j suf IH]; intros pre st HI ND Hj; cbn [fold_left].
    - rewrite app_nil_r in *. repeat split; auto.
    - assert (E : pre ++ j :: suf = (pre ++ [j]) ++ suf) by (rewrite <- app_assoc; reflexivity).
      rewrite E in ND |- *.
      assert (Hstep : I (step_fn st j) /\ jobs (step_fn st j) = map gmap (pre ++ [j]) ++ suf /\
                      batches (step_fn st j) = batches st /\ updates (step_fn st j) = updates st /\ groups (step_fn st j) = groups st /\
                      ancestors (step_fn st j) = ancestors st /\ marks (step_fn st j) = marks st /\ parents (step_fn st j) = parents st /\
                      staging (step_fn st j) = staging st /\ attempts (step_fn st j) = attempts st /\ insts (step_fn st j) = insts st /\
                      next_batch (step_fn st j) = next_batch st).
      { rewrite step_fn_spec by exact HI. rewrite map_app. cbn [map]. change (gmap j) with (if P j then F j else j).
        destruct (P j) eqn:Pj.
        - split; [apply I_update_job; exact HI|]. autorewrite with frame. split; [|repeat split; reflexivity].
          rewrite Hj, replace_job_app.
          (* the key of j occurs neither in pre nor in suf *)
          rewrite <- app_assoc in ND. cbn [app] in ND. rewrite map_app in ND. cbn [map] in ND.
          apply NoDup_remove_2 in ND.
          assert (Hpre : ~ In (jk j) (map jk pre)) by (intros H; apply ND; apply in_or_app; left; exact H).
          assert (Hsuf : ~ In (jk j) (map jk suf)) by (intros H; apply ND; apply in_or_app; right; exact H).
          rewrite replace_job_notin.
          + rewrite <- app_assoc. f_equal. cbn [app]. apply replace_job_head; [apply F_static | exact Hsuf].
          + rewrite map_jk_gmap. pose proof (F_static j) as (S1 & S2 & _). unfold jk at 1. rewrite <- S1, <- S2. exact Hpre.
        - split; [exact HI|]. split; [|repeat split; reflexivity]. rewrite Hj, <- app_assoc. reflexivity. }
      destruct Hstep as (HI' & Hj' & F1 & F2 & F3 & F4 & F5 & F6 & F7 & F8 & F9 & F10).
      specialize (IH (pre ++ [j]) (step_fn st j) HI' ND Hj'). cbv zeta in IH.
      destruct IH as (G0 & GI & G1 & G2 & G3 & G4 & G5 & G6 & G7 & G8 & G9 & G10).
      repeat split; try assumption; congruence.
  Qed.
End Fold.
