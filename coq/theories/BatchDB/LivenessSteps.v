(** C39, liveness half — the two PROGRESS transactions of the driver / worker, as rewritings of the jobs table.

    [dstep s x n s']   state [s'] is state [s] after a transaction that moved job row [x] to row [n]:
                         the jobs table of [s'] is [map h] of the one of [s] with [h x = n], every other row is kept or is a
                         Pending child that stays Pending or becomes Ready (attempt id untouched); the updates table and the
                         state of every instance are unchanged.
    [schedule_dstep]   the scheduler's transaction (batch/driver/job.py::schedule_job, CALL schedule_job) on a Ready job that
                         is_job_cancelled reports not cancelled, with a fresh attempt id, on an active instance:
                         Ready -> Running, attempt installed;
    [complete_dstep]   mark_job_complete (batch/driver/job.py::mark_job_complete, CALL mark_job_complete) on a
                         Ready / Creating / Running job of a committed update with a completion that is not stale
                         (the job's current attempt, or the canceller's attempt-less completion): the job takes the
                         reported terminal state, its children are released.
    Both from any [DInv] state; no fairness here.  Also: the state of instances is not touched by these two transactions,
    a fresh attempt id and a fresh instance name exist, the autoscaler's NewInstance + ActivateInstance yields an active
    instance. *)
From HailV Require Import Common.Prelude BatchDB.Model BatchDB.Tables BatchDB.CMap BatchDB.JobsWF BatchDB.StepCore
  BatchDB.JobFold BatchDB.KidsFold BatchDB.Legal BatchDB.DepsDef BatchDB.DepsEasy BatchDB.DepsMap BatchDB.DepsDriver
  BatchDB.DepsMC1 BatchDB.DepsMC2 BatchDB.DepsMC3 BatchDB.DepsMC4 BatchDB.DepsStruct BatchDB.DepsAux BatchDB.Deps
  BatchDB.DepsCorollaries BatchDB.JobChange.
From HailV Require BatchDB.StepFrame BatchDB.Cancel.
From RecordUpdate Require Import RecordSet.
Import RecordSetNotations.
Open Scope Z_scope.

(* ------------------------------------------------------------------ maxima, fresh identifiers *)

Definition zmax_list (l : list Z) : Z := fold_right Z.max 0 l.

Lemma zmax_list_ge l x : In x l -> x <= zmax_list l.
Proof. induction l as [|y l IH]; cbn [In zmax_list fold_right]; [intros []|]. intros [->|H]; [lia | specialize (IH H); unfold zmax_list in IH; lia]. Qed.

Lemma zmax_list_nonneg l : 0 <= zmax_list l.
Proof. induction l as [|y l IH]; cbn [zmax_list fold_right]; [lia | unfold zmax_list in IH; lia]. Qed.

(** an attempt id that no attempt row carries (the real driver draws a random token: job.py::schedule_job) *)
Definition fresh_att (s : state) : Z := 1 + zmax_list (map a_id (attempts s)).

Lemma fresh_att_pos s : 1 <= fresh_att s.
Proof. unfold fresh_att. pose proof (zmax_list_nonneg (map a_id (attempts s))). lia. Qed.

Lemma fresh_att_fresh s b j : find_attempt s b j (fresh_att s) = None.
Proof.
  unfold find_attempt. destruct (find _ (attempts s)) as [c|] eqn:F; [|reflexivity]. exfalso.
  apply find_some in F. destruct F as [Hin Hk].
  assert (Hle : a_id c <= zmax_list (map a_id (attempts s))) by (apply zmax_list_ge, in_map, Hin).
  unfold fresh_att in Hk. lia.
Qed.

Definition fresh_inst (s : state) : Z := 1 + zmax_list (map i_name (insts s)).

Lemma fresh_inst_fresh s : find_inst s (fresh_inst s) = None.
Proof.
  unfold find_inst. destruct (find _ (insts s)) as [c|] eqn:F; [|reflexivity]. exfalso.
  apply find_some in F. destruct F as [Hin Hk].
  assert (Hle : i_name c <= zmax_list (map i_name (insts s))) by (apply zmax_list_ge, in_map, Hin).
  unfold fresh_inst in Hk. lia.
Qed.

(* ------------------------------------------------------------------ instances: who is active *)

Definition is_active (s : state) (n : Z) : bool := is_state (inst_state s n) IActive.
Definition has_active (s : state) : Prop := exists n, is_active s n = true.
Definition active_inst (s : state) : option Z := find (is_active s) (map i_name (insts s)).

Lemma is_active_found s n : is_active s n = true -> exists y, find_inst s n = Some y /\ i_state y = IActive /\ i_name y = n.
Proof.
  unfold is_active, inst_state. destruct (find_inst s n) as [y|] eqn:F; cbn; [|discriminate].
  intros H. exists y. split; [reflexivity|]. split; [destruct (i_state y); cbn in H; try discriminate; reflexivity|].
  unfold find_inst in F. apply find_some in F. lia.
Qed.

Lemma active_inst_some s : has_active s -> exists n, active_inst s = Some n /\ is_active s n = true.
Proof.
  intros (n & Hn). unfold active_inst. destruct (find (is_active s) (map i_name (insts s))) as [m|] eqn:F.
  - exists m. split; [reflexivity|]. apply find_some in F. tauto.
  - exfalso. destruct (is_active_found s n Hn) as (y & Fy & _ & En).
    unfold find_inst in Fy. apply find_some in Fy. destruct Fy as [Hin _].
    pose proof (find_none _ _ F n) as Hc. rewrite <- En in Hc at 1. specialize (Hc (in_map i_name _ _ Hin)). congruence.
Qed.

Lemma active_inst_sound s n : active_inst s = Some n -> is_active s n = true.
Proof. unfold active_inst. intros F. apply find_some in F. tauto. Qed.

Lemma find_replace_inst_other i n l :
  i_name n <> i -> find (fun x => i_name x =? i) (replace_inst n l) = find (fun x => i_name x =? i) l.
Proof.
  intros Hne. induction l as [|z l IH]; [reflexivity|]. cbn [replace_inst map find]. fold (replace_inst n l).
  destruct (i_name z =? i_name n) eqn:Ez.
  - replace (i_name n =? i) with false by (symmetry; apply Z.eqb_neq; exact Hne).
    replace (i_name z =? i) with false by (symmetry; apply Z.eqb_neq; lia). exact IH.
  - destruct (i_name z =? i); [reflexivity | exact IH].
Qed.

(** changing the free cores of the instance found under its name changes no instance's state *)
Lemma inst_state_set_free s i y f k :
  find_inst s i = Some y ->
  inst_state (s <| insts ::= replace_inst (y <| i_free := f |>) |>) k = inst_state s k.
Proof.
  intros F. assert (En : i_name y = i) by (unfold find_inst in F; apply find_some in F; lia).
  unfold inst_state, find_inst.
  change (insts (s <| insts ::= replace_inst (y <| i_free := f |>) |>)) with (replace_inst (y <| i_free := f |>) (insts s)).
  destruct (Z.eq_dec k i) as [->|Hne].
  - rewrite (find_replace_inst i _ y (insts s) F) by (destruct y; exact En). unfold find_inst in F. rewrite F.
    destruct y; reflexivity.
  - rewrite find_replace_inst_other; [reflexivity|]. destruct y; cbn in *. lia.
Qed.

Lemma inst_state_insts s s' k : insts s' = insts s -> inst_state s' k = inst_state s k.
Proof. intros E. unfold inst_state, find_inst. rewrite E. reflexivity. Qed.

Lemma add_attempt_inst_state s b j a i c s1 d k :
  add_attempt s b j a i c = Some (s1, d) -> inst_state s1 k = inst_state s k.
Proof.
  unfold add_attempt. destruct (find_attempt s b j a).
  - intros H; injection H as <- _. reflexivity.
  - cbv zeta.
    match goal with |- context [find_inst ?st i] => change (find_inst st i) with (find_inst s i) end.
    destruct (find_inst s i) as [y|] eqn:Fi.
    + intros H; injection H as <- _. destruct (ilive (i_state y)); [|reflexivity].
      match goal with |- inst_state (?st <| insts ::= _ |>) k = _ =>
        rewrite (inst_state_set_free st i y _ k Fi) end. reflexivity.
    + destruct (i =? -1); [|discriminate]. intros H; injection H as <- _. reflexivity.
Qed.

Lemma mc_s3_inst_state s1 x b j a i st en rs k :
  inst_state (StepFrame.mc_s3 s1 x b j a i st en rs) k = inst_state s1 k.
Proof.
  unfold StepFrame.mc_s3. cbv zeta.
  set (s2 := match (if a =? -1 then None else find_attempt s1 b j a) with
             | Some c => update_attempt s1 c _ | None => s1 end).
  assert (E2 : insts s2 = insts s1).
  { subst s2. destruct (if a =? -1 then None else find_attempt s1 b j a); [apply StepFrame.update_attempt_insts | reflexivity]. }
  assert (K2 : forall k', inst_state s2 k' = inst_state s1 k') by (intros k'; apply inst_state_insts; exact E2).
  match goal with |- context [if ?c then _ else _] => destruct c end; [|apply K2].
  destruct (find_inst s2 i) as [y|] eqn:Fi; [|apply K2].
  rewrite (inst_state_set_free s2 i y _ k Fi). apply K2.
Qed.

Lemma release_children_insts s b j succ : insts (release_children s b j succ) = insts s.
Proof.
  unfold release_children. apply (StepFrame.fold_keeps insts). intros st c.
  destruct (find_job st b c); [|reflexivity]. destruct (negb _); [reflexivity | exact (update_job_insts _ _ _)].
Qed.

Lemma mc_finish_insts s3 x b j a ns total : insts (StepFrame.mc_finish s3 x b j a ns total) = insts s3.
Proof.
  unfold StepFrame.mc_finish. cbv zeta. rewrite release_children_insts. unfold finish_groups.
  match goal with |- context [if ?c then _ else _] => destruct c end; StepFrame.scbn; exact (update_job_insts _ _ _).
Qed.

(* ------------------------------------------------------------------ the autoscaler: a new, activated instance *)

(** batch/driver/instance_collection/pool.py::create_instances (INSERT INTO instances, state 'pending') and
    batch/driver/instance.py / main.py::activate_instance (CALL activate_instance) *)
Definition boot_ops (s : state) : list op :=
  match active_inst s with
  | Some _ => []
  | None => [NewInstance (fresh_inst s) 0 1000 true; ActivateInstance (fresh_inst s)]
  end.

Lemma find_inst_snoc s n y : find_inst s n = None -> i_name y = n ->
  find (fun x => i_name x =? n) (insts s ++ [y]) = Some y.
Proof.
  unfold find_inst. intros F En. induction (insts s) as [|z l IH]; cbn [app find] in *.
  - replace (i_name y =? n) with true by (symmetry; apply Z.eqb_eq; exact En). reflexivity.
  - destruct (i_name z =? n); [discriminate | apply IH; exact F].
Qed.

Lemma boot_active s : has_active (Cancel.run_from s (boot_ops s)).
Proof.
  unfold boot_ops. destruct (active_inst s) as [n|] eqn:A.
  - exists n. apply active_inst_sound. exact A.
  - pose proof (fresh_inst_fresh s) as Fn. set (n := fresh_inst s) in *. exists n. cbn [Cancel.run_from fold_left step].
    unfold do_new_instance.
    replace ((0 <? 0) || negb ((0 <? 1000) && (1000 mod 1000 =? 0))) with false by reflexivity.
    rewrite Fn. cbn [fst].
    set (y := mkInst n IPending 1000 1000 0 true).
    set (s1 := s <| insts ::= fun l => l ++ [y] |>).
    assert (F1 : find_inst s1 n = Some y) by (apply (find_inst_snoc s n y Fn); reflexivity).
    unfold do_activate. rewrite F1. cbn [i_state y fst].
    unfold is_active, inst_state, find_inst.
    match goal with |- context [insts (s1 <| insts ::= replace_inst ?z |>)] =>
      change (insts (s1 <| insts ::= replace_inst z |>)) with (replace_inst z (insts s1));
      rewrite (find_replace_inst n z y (insts s1) F1) by reflexivity end.
    reflexivity.
Qed.

Lemma boot_good s : good_from s (boot_ops s).
Proof.
  unfold boot_ops. destruct (active_inst s); cbn [good_from]; [exact I|].
  repeat split.
Qed.

Lemma boot_core s : StepFrame.same_core s (Cancel.run_from s (boot_ops s)).
Proof.
  unfold boot_ops. destruct (active_inst s); cbn [Cancel.run_from fold_left step]; [apply StepFrame.same_core_refl|].
  eapply StepFrame.same_core_trans; [apply StepFrame.do_new_instance_core | apply StepFrame.do_activate_core].
Qed.

(* ------------------------------------------------------------------ a driven step *)

Record dstep (s : state) (x n : job) (s' : state) : Prop := {
  ds_jobs : exists h, jobs s' = map h (jobs s) /\ h x = n /\
            (forall y, In y (jobs s) -> static y (h y)) /\
            (forall y, In y (jobs s) -> y <> x ->
               h y = y \/ (j_state y = Pending /\ j_attempt (h y) = j_attempt y /\ (j_state (h y) = Pending \/ j_state (h y) = Ready)));
  ds_updates : updates s' = updates s;
  ds_insts : forall k, inst_state s' k = inst_state s k }.

Lemma dstep_active s x n s' : dstep s x n s' -> has_active s -> has_active s'.
Proof. intros [_ _ Hi] (k & Hk). exists k. unfold is_active in *. rewrite Hi. exact Hk. Qed.

Lemma dstep_find_job s x n s' b j : dstep s x n s' -> exists h,
  find_job s' b j = option_map h (find_job s b j) /\ h x = n /\
  (forall y, In y (jobs s) -> static y (h y)) /\
  (forall y, In y (jobs s) -> y <> x ->
     h y = y \/ (j_state y = Pending /\ j_attempt (h y) = j_attempt y /\ (j_state (h y) = Pending \/ j_state (h y) = Ready))).
Proof.
  intros [(h & Ej & Hx & Hs & Ho) _ _]. exists h. split; [|auto].
  rewrite !find_job_eq, Ej. apply find_jkey_map. exact Hs.
Qed.

Lemma dstep_jcommitted s x n s' y y' : dstep s x n s' -> static y y' -> jcommitted s' y' = jcommitted s y.
Proof.
  intros [_ Eu _] (S1 & _ & S3 & _). unfold jcommitted, committed, find_update. rewrite Eu, <- S1, <- S3. reflexivity.
Qed.

(* ------------------------------------------------------------------ the scheduler's transaction *)

Lemma key_is_x s b j x : DInv s -> find_job s b j = Some x -> forall y, In y (jobs s) -> (jkey b j y = true <-> y = x).
Proof. intros D F. apply (mc_key_x s b j x D F). Qed.

Lemma schedule_dstep s b j a i x :
  DInv s -> find_job s b j = Some x -> j_state x = Ready -> is_job_cancelled s x = Some false ->
  find_attempt s b j a = None -> is_active s i = true ->
  dstep s x (x <| j_state := Running |> <| j_attempt := Some a |>) (fst (step s (ScheduleJob b j a i))).
Proof.
  intros D F Rd Ic Fa Ia. cbn [step]. unfold do_schedule. rewrite F, Ic.
  destruct (is_active_found s i Ia) as (y & Fy & Sy & Ny).
  destruct (add_attempt s b j a i (j_cores x)) as [[s1 d0]|] eqn:Aa.
  2:{ exfalso. unfold add_attempt in Aa. rewrite Fa in Aa. cbv zeta in Aa.
      match type of Aa with context [find_inst ?st i] => change (find_inst st i) with (find_inst s i) in Aa end.
      rewrite Fy in Aa. discriminate. }
  pose proof (StepFrame.same_core_add_attempt _ _ _ _ _ _ _ _ Aa) as C.
  pose proof (fun k => add_attempt_inst_state _ _ _ _ _ _ _ _ k Aa) as Hi.
  assert (Ia1 : is_state (inst_state s1 i) IActive = true) by (rewrite Hi; exact Ia).
  rewrite Ia1, Rd. cbn [jstate_eqb orb negb andb fst].
  set (n := x <| j_state := Running |> <| j_attempt := Some a |>).
  pose proof (find_job_static_key _ _ _ _ F) as (B & J).
  assert (Bn : j_batch n = b) by (subst n; destruct x; exact B).
  assert (Jn : j_id n = j) by (subst n; destruct x; exact J).
  constructor.
  - exists (fun z => if jkey b j z then n else z). split; [|split; [|split]].
    + rewrite update_job_jobs, (StepFrame.sc_jobs _ _ C), replace_job_map, Bn, Jn. reflexivity.
    + rewrite (proj2 (key_is_x s b j x D F x (proj1 (find_jkey_sound _ _ _ _ F))) eq_refl). reflexivity.
    + intros z Hz. destruct (jkey b j z) eqn:K; [|apply static_refl].
      apply (key_is_x s b j x D F z Hz) in K. subst z. apply set_state_attempt_static.
    + intros z Hz Hne. left. destruct (jkey b j z) eqn:K; [|reflexivity].
      apply (key_is_x s b j x D F z Hz) in K. contradiction.
  - rewrite update_job_updates. apply (StepFrame.sc_updates _ _ C).
  - intros k. rewrite (inst_state_insts s1 _ k (update_job_insts _ _ _)). apply Hi.
Qed.

Lemma schedule_good s b j a i x :
  find_job s b j = Some x -> jcommitted s x = true -> find_attempt s b j a = None -> good s (ScheduleJob b j a i).
Proof.
  intros F C Fa. split; [|reflexivity]. unfold legal, legalb, job_committed, attempt_on. rewrite F, Fa.
  pose proof (find_job_static_key _ _ _ _ F) as (B & _). unfold jcommitted in C. rewrite B in C. rewrite C. reflexivity.
Qed.

(* ------------------------------------------------------------------ mark_job_complete *)

Lemma complete_dstep s b j a i ns st en r x :
  DInv s -> find_job s b j = Some x -> jcommitted s x = true ->
  (j_state x = Ready \/ j_state x = Creating \/ j_state x = Running) -> terminal ns = true ->
  StepFrame.mc_stale x a = false ->
  (a = -1 \/ find_attempt s b j a <> None \/ i = -1) ->
  dstep s x (x <| j_state := ns |> <| j_attempt := (if a =? -1 then None else Some a) |>)
        (fst (step s (MarkComplete b j a i ns st en r))).
Proof.
  intros D F Cx Hxs Hns Stl Hat.
  pose proof (us_eq_mark_complete s b j a i ns st en r) as [Eu _].
  cbn [step] in *. revert Eu. rewrite StepFrame.do_mark_complete_unfold, F.
  destruct (if a =? -1 then Some (s, 0) else add_attempt s b j a i (j_cores x)) as [[s1 d0]|] eqn:Aa.
  2:{ exfalso. destruct (a =? -1) eqn:Ea; [discriminate|]. unfold add_attempt in Aa.
      destruct (find_attempt s b j a) eqn:Fa; [discriminate|]. cbv zeta in Aa.
      match type of Aa with context [find_inst ?st i] => destruct (find_inst st i) end; [discriminate|].
      destruct (i =? -1) eqn:Ei; [discriminate|]. destruct Hat as [H|[H|H]]; [lia | congruence | lia]. }
  assert (C1 : StepFrame.same_core s s1 /\ forall k, inst_state s1 k = inst_state s k).
  { destruct (a =? -1).
    - injection Aa as <- _. split; [apply StepFrame.same_core_refl | reflexivity].
    - split; [exact (StepFrame.same_core_add_attempt _ _ _ _ _ _ _ _ Aa) | intros k; exact (add_attempt_inst_state _ _ _ _ _ _ _ _ k Aa)]. }
  destruct C1 as [C1 Hi1].
  cbv zeta. rewrite Stl.
  assert (Act : StepFrame.mc_active x = true).
  { unfold StepFrame.mc_active. destruct Hxs as [E|[E|E]]; rewrite E; reflexivity. }
  rewrite Act. intros Eu.
  set (s3 := StepFrame.mc_s3 s1 x b j a i st en r) in *.
  pose proof (StepFrame.same_core_trans _ _ _ C1 (StepFrame.mc_s3_core s1 x b j a i st en r)) as C3. fold s3 in C3.
  set (att := if a =? -1 then None else Some a).
  constructor.
  - exists (mc_h s b j x ns att). split; [|split; [|split]].
    + apply mc_finish_jobs_map; assumption.
    + apply (mc_h_x s b j x ns att D F Cx Hxs).
    + apply (mc_h_static s b j x ns att D F Cx Hxs).
    + intros y Hy Hne. rewrite (mc_h_other s b j x ns att D F y Hy Hne). unfold kid_map.
      destruct ((j_batch y =? b) && existsb (Z.eqb (j_id y)) (kids_of s b j) && committed s b (j_update y)) eqn:E;
        [|left; reflexivity].
      right. apply andb_true_iff in E. destruct E as [E Ec]. apply andb_true_iff in E. destruct E as [Eb Ek].
      apply existsb_eqb_in in Ek. assert (Eb' : j_batch y = b) by lia.
      destruct (mc_child_pending s b j x ns D F Hxs y Hy Eb' Ek Ec) as (P & _ & _).
      split; [exact P|]. unfold child_G. destruct y as [yb yi yu yg ys ya yc yn ycn yat yic]. cbn.
      split; [reflexivity|]. destruct (yn =? 1); auto.
  - exact Eu.
  - intros k. rewrite (inst_state_insts s3 _ k (mc_finish_insts _ _ _ _ _ _ _)). subst s3.
    rewrite mc_s3_inst_state. apply Hi1.
Qed.

Lemma complete_good s b j a i ns st en r x :
  find_job s b j = Some x -> jcommitted s x = true -> terminal ns = true ->
  (a = -1 \/ attempt_on s b j a i = true) -> (i = -1 \/ en <> None) ->
  good s (MarkComplete b j a i ns st en r).
Proof.
  intros F C Hns Hat Hen. split; [|reflexivity]. unfold legal, legalb, job_committed. rewrite F.
  pose proof (find_job_static_key _ _ _ _ F) as (B & _). unfold jcommitted in C. rewrite B in C. rewrite C, Hns.
  cbn [andb].
  replace ((a =? -1) || attempt_on s b j a i) with true
    by (symmetry; destruct Hat as [->|H]; [reflexivity | rewrite H; apply orb_true_r]).
  cbn [andb]. destruct Hen as [->|H]; [reflexivity|]. destruct en; [apply orb_true_r | contradiction].
Qed.
