(** C10: instance free-core accounting is exact.

    The invariant [CInv] (job keys unique, attempt keys unique, every attempt's job exists, every attempt's
    instance exists or is NULL (-1), instance names unique, an attempt on a real instance that has no end time has no end reason,
    and the free-core formula for every instance) is preserved by every legal step of the model.

    Layout: (1) list/table lemmas, (2) the "jobs only" extension relation [jext] that covers every front-end
    op and every [update_job], (3) [add_attempt], (4) [update_attempt] against the clamp, (5) the ops,
    (6) the step lemma and the theorem over histories, (7) why the two environment assumptions are needed. *)
From HailV Require Import Common.Prelude BatchDB.Model BatchDB.Tables BatchDB.Legal.
From RecordUpdate Require Import RecordSet.
Import RecordSetNotations.
Open Scope Z_scope.

(* ------------------------------------------------------------------ definitions *)

Definition jk (x : job) : Z * Z := (j_batch x, j_id x).
Definition jskel (x : job) : Z * Z * Z := (j_batch x, j_id x, j_cores x).
Definition ak (a : attempt) : Z * Z * Z := (a_batch a, a_job a, a_id a).
Definition akey (b j a : Z) (x : attempt) : bool := (a_batch x =? b) && (a_job x =? j) && (a_id x =? a).

Definition is_open (a : attempt) : bool := match a_end a with None => true | Some _ => false end.

(* cores of the job an attempt belongs to *)
Definition jc (s : state) (a : attempt) : Z :=
  match find_job s (a_batch a) (a_job a) with Some x => j_cores x | None => 0 end.

(* the attempts placed on instance [n] that have not ended *)
Definition open_on (n : Z) (a : attempt) : bool := (a_inst a =? n) && is_open a.

Definition used (s : state) (n : Z) : Z := zsum (jc s) (filter (open_on n) (attempts s)).

Definition cores_ok (s : state) (x : inst) : Prop :=
  i_free x = if ilive (i_state x) then i_cores x - used s (i_name x) else i_cores x.

Definition JU (s : state) : Prop := NoDup (map jk (jobs s)).
Definition AU (s : state) : Prop := NoDup (map ak (attempts s)).
Definition attjob (s : state) : Prop := forall a, In a (attempts s) -> find_job s (a_batch a) (a_job a) <> None.
Definition IU (s : state) : Prop := NoDup (map i_name (insts s)).
Definition attinst (s : state) : Prop := forall a, In a (attempts s) -> a_inst a = -1 \/ In (a_inst a) (map i_name (insts s)).
Definition reason_ok (s : state) : Prop :=
  forall a, In a (attempts s) -> a_inst a <> -1 -> a_end a = None -> a_reason a = None.

Definition Inv0 (s : state) : Prop := JU s /\ AU s /\ IU s /\ attjob s /\ attinst s /\ reason_ok s.
Definition CoresOK (s : state) : Prop := forall x, In x (insts s) -> i_name x <> -1 -> cores_ok s x.
Definition CInv (s : state) : Prop := Inv0 s /\ CoresOK s.

(* ------------------------------------------------------------------ (1) lists *)

Lemma zsum_ext_in {A} (f g : A -> Z) l : (forall x, In x l -> f x = g x) -> zsum f l = zsum g l.
Proof.
  induction l as [|x l IH]; intros H; cbn [zsum]; [reflexivity|].
  rewrite (H x (or_introl eq_refl)), IH; [reflexivity|]. intros y Hy; apply H; right; exact Hy.
Qed.

Lemma filter_none {A} (p : A -> bool) l : (forall x, In x l -> p x = false) -> filter p l = [].
Proof.
  induction l as [|x l IH]; intros H; cbn [filter]; [reflexivity|].
  rewrite (H x (or_introl eq_refl)). apply IH. intros y Hy; apply H; right; exact Hy.
Qed.

Lemma filter_ext_in' {A} (p q : A -> bool) l : (forall x, In x l -> p x = q x) -> filter p l = filter q l.
Proof.
  induction l as [|x l IH]; intros H; cbn [filter]; [reflexivity|].
  rewrite (H x (or_introl eq_refl)), IH; [reflexivity|]. intros y Hy; apply H; right; exact Hy.
Qed.

Lemma NoDup_snoc {A} (l : list A) x : NoDup l -> ~ In x l -> NoDup (l ++ [x]).
Proof.
  induction l as [|y l IH]; intros Hn Hx; cbn [app].
  - constructor; [intros [] | constructor].
  - inversion Hn as [|? ? Hy Hl]; subst. constructor.
    + rewrite in_app_iff. intros [H|[H|[]]]; [exact (Hy H) | subst; apply Hx; left; reflexivity].
    + apply IH; [exact Hl | intros H; apply Hx; right; exact H].
Qed.

Lemma NoDup_app_intro {A} (l1 l2 : list A) :
  NoDup l1 -> NoDup l2 -> (forall x, In x l1 -> ~ In x l2) -> NoDup (l1 ++ l2).
Proof.
  induction l1 as [|y l IH]; intros H1 H2 Hd; cbn [app]; [exact H2|].
  inversion H1 as [|? ? Hy Hl]; subst. constructor.
  - rewrite in_app_iff. intros [H|H]; [exact (Hy H) | exact (Hd y (or_introl eq_refl) H)].
  - apply IH; [exact Hl | exact H2 | intros x Hx; apply Hd; right; exact Hx].
Qed.

Lemma fold_left_pres {A B} (P : A -> Prop) (f : A -> B -> A) l :
  (forall st a, P st -> In a l -> P (f st a)) -> forall s, P s -> P (fold_left f l s).
Proof.
  induction l as [|a l IH]; intros H s Hs; cbn [fold_left]; [exact Hs|].
  apply IH; [intros st b Hst Hb; apply H; [exact Hst | right; exact Hb] | apply H; [exact Hs | left; reflexivity]].
Qed.

(* ------------------------------------------------------------------ (1) jobs *)

Lemma jkey_jk b j x : jkey b j x = true <-> jk x = (b, j).
Proof.
  unfold jkey, jk. rewrite andb_true_iff, !Z.eqb_eq. split; [intros [-> ->]; reflexivity | intros H; injection H; auto].
Qed.

Lemma find_job_in s b j x : find_job s b j = Some x -> In x (jobs s) /\ j_batch x = b /\ j_id x = j.
Proof. rewrite find_job_eq. apply find_jkey_sound. Qed.

Lemma find_jkey_none l b j : find (jkey b j) l = None <-> ~ In (b, j) (map jk l).
Proof.
  induction l as [|x l IH]; cbn [find map In]; [tauto|].
  destruct (jkey b j x) eqn:E.
  - apply jkey_jk in E. split; [discriminate | intros H; exfalso; apply H; left; exact E].
  - rewrite IH. split; [intros H [H1|H1]; [apply jkey_jk in H1; congruence | exact (H H1)] | tauto].
Qed.

Lemma find_jkey_unique l x : NoDup (map jk l) -> In x l -> find (jkey (j_batch x) (j_id x)) l = Some x.
Proof.
  induction l as [|y l IH]; intros Hn Hin; [destruct Hin|].
  cbn [map] in Hn. inversion Hn as [|? ? Hy Hl]; subst. cbn [find].
  destruct Hin as [->|Hin].
  - assert (E : jkey (j_batch x) (j_id x) x = true) by (apply jkey_jk; reflexivity). rewrite E; reflexivity.
  - destruct (jkey (j_batch x) (j_id x) y) eqn:E; [|apply IH; assumption].
    apply jkey_jk in E. exfalso; apply Hy. rewrite E. change (j_batch x, j_id x) with (jk x). apply in_map; exact Hin.
Qed.

(* the cores of a found job depend only on the skeleton list, and survive extensions of it *)
Lemma find_jkey_skel b j l' : forall l more x,
  map jskel l = map jskel l' ++ more -> find (jkey b j) l' = Some x ->
  exists x', find (jkey b j) l = Some x' /\ j_cores x' = j_cores x.
Proof.
  induction l' as [|y l' IH]; intros l more x Hm Hf; [discriminate|].
  destruct l as [|z l]; [discriminate|]. cbn [map app] in Hm. injection Hm as Hz1 Hz2 Hz3 Hm.
  assert (Hk : jkey b j z = jkey b j y) by (unfold jkey; rewrite Hz1, Hz2; reflexivity).
  cbn [find] in *. rewrite Hk. destruct (jkey b j y).
  - injection Hf as <-. exists z. split; [reflexivity | exact Hz3].
  - eapply IH; eassumption.
Qed.

Lemma map_jk_skel l : map jk l = map (fun t => (fst (fst t), snd (fst t))) (map jskel l).
Proof. rewrite map_map. apply map_ext. intros x; reflexivity. Qed.

Lemma replace_job_id n l : (forall y, In y l -> jk y <> jk n) -> replace_job n l = l.
Proof.
  unfold replace_job. induction l as [|x l IH]; intros H; cbn [map]; [reflexivity|].
  rewrite IH by (intros y Hy; apply H; right; exact Hy).
  destruct ((j_batch x =? j_batch n) && (j_id x =? j_id n)) eqn:E; [|reflexivity].
  exfalso. apply (H x (or_introl eq_refl)). unfold jk. apply andb_true_iff in E. f_equal; lia.
Qed.

Lemma replace_job_skel n l :
  NoDup (map jk l) -> In (jskel n) (map jskel l) -> map jskel (replace_job n l) = map jskel l.
Proof.
  induction l as [|x l IH]; intros Hn Hin; [reflexivity|].
  cbn [map] in Hn. inversion Hn as [|? ? Hx Hl]; subst.
  change (replace_job n (x :: l)) with ((if (j_batch x =? j_batch n) && (j_id x =? j_id n) then n else x) :: replace_job n l).
  cbn [map]. destruct ((j_batch x =? j_batch n) && (j_id x =? j_id n)) eqn:E.
  - apply andb_true_iff in E. assert (Ek : jk x = jk n) by (unfold jk; f_equal; lia).
    assert (Hs : jskel n = jskel x).
    { destruct Hin as [H|H]; [symmetry; exact H|].
      exfalso. apply Hx. rewrite Ek. rewrite map_jk_skel.
      change (jk n) with ((fun t : Z * Z * Z => (fst (fst t), snd (fst t))) (jskel n)). apply in_map; exact H. }
    rewrite Hs. f_equal. f_equal. apply replace_job_id.
    intros y Hy E2. apply Hx. rewrite Ek, <- E2. apply in_map; exact Hy.
  - f_equal. apply IH; [exact Hl|].
    destruct Hin as [H|H]; [|exact H].
    exfalso. unfold jskel in H. injection H as H1 H2 _. apply andb_false_iff in E. lia.
Qed.

Lemma replace_job_jk n l : map jk (replace_job n l) = map jk l.
Proof.
  unfold replace_job. rewrite map_map. apply map_ext_in. intros x _.
  destruct ((j_batch x =? j_batch n) && (j_id x =? j_id n)) eqn:E; [|reflexivity].
  apply andb_true_iff in E. unfold jk; f_equal; lia.
Qed.

(* ------------------------------------------------------------------ (2) jobs-only extensions *)

Definition jext (s s' : state) : Prop :=
  attempts s' = attempts s /\ insts s' = insts s /\ JU s' /\
  exists more, map jskel (jobs s') = map jskel (jobs s) ++ more.

Lemma jext_refl s : JU s -> jext s s.
Proof. intros H. repeat split; [exact H | exists []; rewrite app_nil_r; reflexivity]. Qed.

Lemma jext_trans s1 s2 s3 : jext s1 s2 -> jext s2 s3 -> jext s1 s3.
Proof.
  intros (A1 & I1 & _ & m1 & E1) (A2 & I2 & J2 & m2 & E2).
  repeat split; [congruence | congruence | exact J2 | exists (m1 ++ m2); rewrite E2, E1, app_assoc; reflexivity].
Qed.

Lemma jext_same s s' : JU s -> jobs s' = jobs s -> attempts s' = attempts s -> insts s' = insts s -> jext s s'.
Proof.
  intros H Hj Ha Hi. repeat split; [exact Ha | exact Hi | unfold JU; rewrite Hj; exact H |].
  exists []; rewrite Hj, app_nil_r; reflexivity.
Qed.

Lemma jext_update_job s o n : JU s -> In (jskel n) (map jskel (jobs s)) -> jext s (update_job s o n).
Proof.
  intros Hu Hin. unfold jext, JU. rewrite update_job_attempts, update_job_insts, update_job_jobs.
  repeat split.
  - rewrite replace_job_jk. exact Hu.
  - exists []. rewrite app_nil_r. apply replace_job_skel; assumption.
Qed.

Lemma jext_has_skel s s' t : jext s s' -> In t (map jskel (jobs s)) -> In t (map jskel (jobs s')).
Proof. intros (_ & _ & _ & m & E) H. rewrite E. apply in_app_iff; left; exact H. Qed.

Lemma jext_find_job s s' b j x : jext s s' -> find_job s b j = Some x ->
  exists x', find_job s' b j = Some x' /\ j_cores x' = j_cores x.
Proof. intros (_ & _ & _ & m & E) H. rewrite find_job_eq in *. eapply find_jkey_skel; eassumption. Qed.

Lemma jext_jc s s' a : jext s s' -> find_job s (a_batch a) (a_job a) <> None -> jc s' a = jc s a.
Proof.
  intros He Hf. unfold jc. destruct (find_job s (a_batch a) (a_job a)) as [x|] eqn:E; [|congruence].
  destruct (jext_find_job _ _ _ _ _ He E) as (x' & -> & Hc). exact Hc.
Qed.

Lemma jext_used s s' n : attjob s -> jext s s' -> used s' n = used s n.
Proof.
  intros Haj He. unfold used. destruct He as (Ha & Hrest). rewrite Ha.
  apply zsum_ext_in. intros a Hin. apply filter_In in Hin. destruct Hin as [Hin _].
  apply jext_jc; [repeat split; [exact Ha | apply Hrest | apply Hrest | apply Hrest] | apply Haj; exact Hin].
Qed.

Lemma CInv_jext s s' : CInv s -> jext s s' -> CInv s'.
Proof.
  intros [(Hju & Hau & Hiu & Haj & Hai & Hr) Hc] He.
  pose proof He as (Ha & Hi & Hj' & m & Em).
  split; [repeat split|].
  - exact Hj'.
  - unfold AU; rewrite Ha; exact Hau.
  - unfold IU; rewrite Hi; exact Hiu.
  - intros a Hin. rewrite Ha in Hin. specialize (Haj a Hin).
    destruct (find_job s (a_batch a) (a_job a)) as [x|] eqn:E; [|congruence].
    destruct (jext_find_job _ _ _ _ _ He E) as (x' & -> & _). discriminate.
  - intros a Hin. rewrite Ha in Hin. rewrite Hi. apply Hai; exact Hin.
  - intros a Hin. rewrite Ha in Hin. apply Hr; exact Hin.
  - intros x Hin Hn. rewrite Hi in Hin. unfold cores_ok. rewrite (jext_used s s' _ Haj He). apply Hc; assumption.
Qed.

(* ------------------------------------------------------------------ (2) ops that leave jobs, attempts and instances alone *)

Definition core_same (s s' : state) : Prop := jobs s' = jobs s /\ attempts s' = attempts s /\ insts s' = insts s.

Lemma core_same_refl s : core_same s s.
Proof. repeat split. Qed.

Lemma core_same_trans s1 s2 s3 : core_same s1 s2 -> core_same s2 s3 -> core_same s1 s3.
Proof. intros (A&B&C) (D&E&F). repeat split; congruence. Qed.

Lemma core_same_jext s s' : JU s -> core_same s s' -> jext s s'.
Proof. intros H (A&B&C). apply jext_same; assumption. Qed.

Lemma fold_core_same {B} (f : state -> B -> state) l s :
  (forall st a, core_same st (f st a)) -> core_same s (fold_left f l s).
Proof.
  intros H. apply (fold_left_pres (core_same s)); [|apply core_same_refl].
  intros st a Hst _. eapply core_same_trans; [exact Hst | apply H].
Qed.

Lemma fold_jext {B} (f : state -> B -> state) l s :
  (forall st a, jext s st -> In a l -> jext st (f st a)) -> JU s -> jext s (fold_left f l s).
Proof.
  intros H Hu. apply (fold_left_pres (jext s)); [|apply jext_refl; exact Hu].
  intros st a Hst Ha. eapply jext_trans; [exact Hst | apply H; assumption].
Qed.

Ltac bm :=
  match goal with
  | |- context [match ?x with _ => _ end] =>
      lazymatch x with
      | context [match _ with _ => _ end] => fail
      | _ => destruct x eqn:?
      end
  end.

Ltac bm_in H :=
  match type of H with
  | context [match ?x with _ => _ end] =>
      lazymatch x with
      | context [match _ with _ => _ end] => fail
      | _ => destruct x eqn:?
      end
  end.

Lemma create_group_rows_same s b g upd p r : core_same s (create_group_rows s b g upd p r).
Proof. repeat split. Qed.

Lemma do_create_batch_same s user bp token m : core_same s (fst (do_create_batch s user bp token m)).
Proof. unfold do_create_batch. repeat bm; cbn [fst]; repeat split. Qed.

Lemma do_create_update_same s b user token nj ng : core_same s (fst (do_create_update s b user token nj ng)).
Proof. unfold do_create_update. repeat bm; cbn [fst]; repeat split. Qed.

Lemma fold_create_one_group b u sg gss : forall acc s',
  fold_left (create_one_group b u sg) gss acc = Some s' -> exists s0, acc = Some s0 /\ core_same s0 s'.
Proof.
  induction gss as [|g gss IH]; intros acc s' H; cbn [fold_left] in H.
  - exists s'. split; [exact H | apply core_same_refl].
  - destruct (IH _ _ H) as (s1 & E1 & C1). unfold create_one_group in E1.
    destruct acc as [s0|]; [|discriminate]. exists s0. split; [reflexivity|].
    repeat bm_in E1; try discriminate; injection E1 as <-;
    (eapply core_same_trans; [apply create_group_rows_same | exact C1]).
Qed.

Lemma do_create_groups_same s b u user gss : core_same s (fst (do_create_groups s b u user gss)).
Proof.
  unfold do_create_groups. repeat bm; cbn [fst]; try apply core_same_refl.
  match goal with H : fold_left _ _ _ = Some _ |- _ => destruct (fold_create_one_group _ _ _ _ _ _ H) as (sx & E & C) end.
  injection E as <-. exact C.
Qed.

Lemma cancel_proc_same s b g : core_same s (cancel_proc s b g).
Proof.
  unfold cancel_proc. destruct (group_cancelled s b g); [apply core_same_refl|].
  cbv zeta.
  match goal with |- core_same _ (set marks _ (set cancellable _ (fold_left ?f ?l ?s0))) =>
    pose proof (fold_core_same f l s0) as F end.
  destruct F as (A & B & C); [|repeat split; cbn; assumption].
  intros st kv. repeat bm; repeat split.
Qed.

Lemma do_cancel_group_same s b g : core_same s (fst (do_cancel_group s b g)).
Proof. unfold do_cancel_group. repeat bm; cbn [fst]; try apply core_same_refl; apply cancel_proc_same. Qed.

Lemma do_delete_batch_same s b : core_same s (fst (do_delete_batch s b)).
Proof.
  unfold do_delete_batch. repeat bm; cbn [fst]; try apply core_same_refl.
  destruct (cancel_proc_same s b 0) as (A & B & C). repeat split; cbn; assumption.
Qed.

Lemma bill_same s b j d rq : core_same s (bill s b j d rq).
Proof. pose proof (bill_frame s b j d rq) as F. cbv zeta in F. repeat split; apply F. Qed.

Lemma add_one_resource_same b j a s rq : core_same s (add_one_resource b j a s rq).
Proof.
  unfold add_one_resource. destruct rq as [r q]. repeat bm; try apply core_same_refl;
    try (repeat split; fail); (eapply core_same_trans; [|apply bill_same]; repeat split).
Qed.

Lemma do_add_resources_same s b j a rs : core_same s (fst (do_add_resources s b j a rs)).
Proof.
  unfold do_add_resources. repeat bm; cbn [fst]; try apply core_same_refl.
  apply fold_core_same. intros st rq. apply add_one_resource_same.
Qed.

Lemma do_cleanup_staging_same s : core_same s (fst (do_cleanup_staging s)).
Proof. repeat split. Qed.
Lemma do_cleanup_cancellable_same s : core_same s (fst (do_cleanup_cancellable s)).
Proof. repeat split. Qed.

(* ------------------------------------------------------------------ (2) CreateJobs *)

Lemma insert_verdict_range s b js : forall seen,
  let v := insert_verdict s b js seen in v = 0 \/ v = 1 \/ v = 2 \/ v = 3.
Proof.
  induction js as [|x r IH]; intros seen; cbn [insert_verdict]; [auto|].
  repeat bm; auto; apply IH.
Qed.

Lemma existsb_eqb_false x l : existsb (Z.eqb x) l = false -> ~ In x l.
Proof.
  intros H Hin. assert (E : existsb (Z.eqb x) l = true) by (apply existsb_exists; exists x; split; [exact Hin | apply Z.eqb_refl]).
  congruence.
Qed.

Lemma insert_verdict_0 s b js : forall seen, insert_verdict s b js seen = 0 ->
  (forall x, In x js -> find_job s b (j_id x) = None /\ ~ In (j_id x) seen) /\ NoDup (map j_id js).
Proof.
  induction js as [|x r IH]; intros seen H; cbn [insert_verdict] in H.
  - split; [intros x [] | constructor].
  - repeat bm_in H; try discriminate;
    (apply orb_false_iff in Heqb1; destruct Heqb1 as [Hs Hf]); try discriminate.
    destruct (IH _ H) as [H1 H2]. split.
    + intros y [<-|Hy]; [split; [assumption | apply existsb_eqb_false; exact Hs]|].
      destruct (H1 y Hy) as [Ha Hb]. split; [exact Ha | intros Hc; apply Hb; right; exact Hc].
    + cbn [map]. constructor; [|exact H2].
      intros Hin. apply in_map_iff in Hin. destruct Hin as (y & Ey & Hy).
      destruct (H1 y Hy) as [_ Hb]. apply Hb. left; symmetry; exact Ey.
Qed.

Lemma stage_job_same s x : core_same s (stage_job s x).
Proof. repeat split. Qed.

Lemma NoDup_map_pair (b : Z) l : NoDup l -> NoDup (map (fun i : Z => (b, i)) l).
Proof.
  induction 1 as [|x l Hx Hl IH]; cbn [map]; constructor; [|exact IH].
  intros Hin. apply in_map_iff in Hin. destruct Hin as (y & Ey & Hy). injection Ey as ->. exact (Hx Hy).
Qed.

Lemma do_create_jobs_jext s b u user jss : JU s -> jext s (fst (do_create_jobs s b u user jss)).
Proof.
  intros Hu. unfold do_create_jobs.
  destruct (is_nil jss); [apply jext_refl; exact Hu|].
  destruct (find_update s b u) as [up|]; [|apply jext_refl; exact Hu].
  destruct (find_batch s b) as [bt|]; [|apply jext_refl; exact Hu].
  destruct (negb (b_user bt =? user) || b_deleted bt); [apply jext_refl; exact Hu|].
  destruct (u_committed up); [apply jext_refl; exact Hu|].
  cbv zeta. destruct jss as [|j0 jss0]; [apply jext_refl; exact Hu|].
  set (jss := j0 :: jss0).
  set (js := map (job_of_spec b u (u_start_job up) (u_start_group up)) jss).
  destruct (negb (contiguous (map js_id jss))); [apply jext_refl; exact Hu|].
  destruct (negb (forallb (spec_ok s b up) jss)); [apply jext_refl; exact Hu|].
  pose proof (insert_verdict_range s b (map fst js) []) as R. cbv zeta in R.
  destruct R as [V|[V|[V|V]]]; rewrite V; try (apply jext_refl; exact Hu).
  destruct (existsb (fun jp => has_dup (snd jp)) js); [apply jext_refl; exact Hu|].
  cbn [fst].
  destruct (insert_verdict_0 _ _ _ _ V) as [H1 H2].
  assert (Hb : forall x, In x (map fst js) -> j_batch x = b).
  { intros x Hx. apply in_map_iff in Hx. destruct Hx as (jp & <- & Hjp).
    apply in_map_iff in Hjp. destruct Hjp as (sp & <- & _). reflexivity. }
  assert (Hk : map jk (map fst js) = map (fun i => (b, i)) (map j_id (map fst js))).
  { rewrite !map_map. apply map_ext_in. intros jp Hjp. unfold jk. rewrite (Hb (fst jp)); [reflexivity|].
    apply in_map; exact Hjp. }
  assert (HJ : NoDup (map jk (jobs s ++ map fst js))).
  { rewrite map_app. apply NoDup_app_intro; [exact Hu | rewrite Hk; apply NoDup_map_pair; exact H2 |].
    intros k Hk1 Hk2. apply in_map_iff in Hk2. destruct Hk2 as (x & <- & Hx).
    destruct (H1 x Hx) as [Hf _]. rewrite find_job_eq in Hf. apply find_jkey_none in Hf.
    apply Hf. unfold jk in Hk1. rewrite (Hb x Hx) in Hk1. exact Hk1. }
  clearbody js. clear Hb Hk H1 H2 V.
  match goal with |- jext s (fold_left stage_job ?l ?s1) =>
    apply jext_trans with s1; [|apply core_same_jext; [|apply fold_core_same; intros; apply stage_job_same]] end.
  - unfold jext, JU. repeat split; [exact HJ|].
    exists (map jskel (map fst js)). change (map jskel (jobs s ++ map fst js) = map jskel (jobs s) ++ map jskel (map fst js)).
    apply map_app.
  - exact HJ.
Qed.

(* ------------------------------------------------------------------ (2) Commit *)

Lemma do_commit_proc_jext s b u : JU s -> jext s (fst (do_commit_proc s b u)).
Proof.
  intros Hu. unfold do_commit_proc.
  destruct (find_update s b u) as [up|]; [|apply jext_refl; exact Hu].
  destruct (u_committed up); [apply jext_refl; exact Hu|]. cbv zeta.
  destruct (negb (_ =? u_njobs up)); [apply jext_refl; exact Hu|].
  destruct (negb (0 <? u_njobs up)); [apply core_same_jext; [exact Hu | repeat split]|].
  match goal with |- context [fold_left ?f (staging s) ?s3] =>
    assert (C4 : core_same s (fold_left f (staging s) s3)); [|set (s4 := fold_left f (staging s) s3) in *] end.
  { eapply core_same_trans; [|apply fold_core_same; intros st kv; repeat bm; repeat split]. repeat split. }
  assert (J4 : jext s s4) by (apply core_same_jext; assumption).
  destruct (u =? 1); [exact J4|]. cbn [fst].
  eapply jext_trans; [exact J4|].
  apply fold_jext; [|apply J4].
  intros st on Hst Hon. apply in_map_iff in Hon. destruct Hon as (x & <- & Hx). cbn [fst snd].
  apply filter_In in Hx. destruct Hx as [Hx _].
  apply jext_update_job; [apply Hst|].
  eapply jext_has_skel; [exact Hst|].
  change (jskel (recompute_job s4 x)) with (jskel x). apply in_map; exact Hx.
Qed.

Lemma do_commit_jext s b u user : JU s -> jext s (fst (do_commit s b u user)).
Proof.
  intros Hu. unfold do_commit. repeat bm; try (apply jext_refl; exact Hu). apply do_commit_proc_jext; exact Hu.
Qed.

(* ------------------------------------------------------------------ (2) release_children, finish of a job *)

Lemma release_children_jext s b j succ : JU s -> jext s (release_children s b j succ).
Proof.
  intros Hu. unfold release_children. apply fold_jext; [|exact Hu].
  intros st c Hst _. destruct (find_job st b c) as [x|] eqn:E; [|apply jext_refl; apply Hst].
  destruct (negb _); [apply jext_refl; apply Hst|].
  apply jext_update_job; [apply Hst|].
  apply find_job_in in E. destruct E as [Hin _].
  match goal with |- In (jskel ?n) _ => change (jskel n) with (jskel x) end. apply in_map; exact Hin.
Qed.

Lemma jext_update_found s b j x n : JU s -> find_job s b j = Some x -> jskel n = jskel x -> jext s (update_job s x n).
Proof.
  intros Hu E Hs. apply jext_update_job; [exact Hu|]. rewrite Hs. apply in_map. apply find_job_in in E. apply E.
Qed.

(* ------------------------------------------------------------------ (3) attempts and instances as keyed tables *)

Lemma find_attempt_eq s b j a : find_attempt s b j a = find (akey b j a) (attempts s).
Proof. reflexivity. Qed.

Lemma akey_ak b j a x : akey b j a x = true <-> ak x = (b, j, a).
Proof.
  unfold akey, ak. rewrite !andb_true_iff, !Z.eqb_eq.
  split; [intros [[-> ->] ->]; reflexivity | intros H; injection H; auto].
Qed.

Lemma ak_fields a b : ak a = ak b -> a_batch a = a_batch b /\ a_job a = a_job b /\ a_id a = a_id b.
Proof. unfold ak. intros H. injection H; auto. Qed.

Lemma same_attempt_ak x n : same_attempt x n = true <-> ak x = ak n.
Proof. apply akey_ak. Qed.

Lemma find_akey_sound l b j a x : find (akey b j a) l = Some x -> In x l /\ ak x = (b, j, a).
Proof. intros H. apply find_some in H. destruct H as [H1 H2]. split; [exact H1 | apply akey_ak; exact H2]. Qed.

Lemma find_akey_none l b j a : find (akey b j a) l = None <-> ~ In (b, j, a) (map ak l).
Proof.
  induction l as [|x l IH]; cbn [find map In]; [tauto|].
  destruct (akey b j a x) eqn:E.
  - apply akey_ak in E. split; [discriminate | intros H; exfalso; apply H; left; exact E].
  - rewrite IH. split; [intros H [H1|H1]; [apply akey_ak in H1; congruence | exact (H H1)] | tauto].
Qed.

Lemma find_akey_unique l x : NoDup (map ak l) -> In x l -> find (akey (a_batch x) (a_job x) (a_id x)) l = Some x.
Proof.
  induction l as [|y l IH]; intros Hn Hin; [destruct Hin|].
  cbn [map] in Hn. inversion Hn as [|? ? Hy Hl]; subst. cbn [find].
  destruct Hin as [->|Hin].
  - assert (E : akey (a_batch x) (a_job x) (a_id x) x = true) by (apply akey_ak; reflexivity). rewrite E; reflexivity.
  - destruct (akey (a_batch x) (a_job x) (a_id x) y) eqn:E; [|apply IH; assumption].
    apply akey_ak in E. exfalso; apply Hy. rewrite E. change (a_batch x, a_job x, a_id x) with (ak x). apply in_map; exact Hin.
Qed.

Lemma replace_attempt_ak n l : map ak (replace_attempt n l) = map ak l.
Proof.
  unfold replace_attempt. rewrite map_map. apply map_ext_in. intros x _.
  destruct (same_attempt x n) eqn:E; [|reflexivity]. apply same_attempt_ak in E. symmetry; exact E.
Qed.

Lemma replace_attempt_id n l : (forall y, In y l -> ak y <> ak n) -> replace_attempt n l = l.
Proof.
  unfold replace_attempt. induction l as [|x l IH]; intros H; cbn [map]; [reflexivity|].
  rewrite IH by (intros y Hy; apply H; right; exact Hy).
  destruct (same_attempt x n) eqn:E; [|reflexivity].
  exfalso. apply (H x (or_introl eq_refl)). apply same_attempt_ak; exact E.
Qed.

Lemma replace_attempt_split n c l : NoDup (map ak l) -> In c l -> ak n = ak c ->
  exists l1 l2, l = l1 ++ c :: l2 /\ replace_attempt n l = l1 ++ n :: l2.
Proof.
  intros Hn Hin Hk. destruct (in_split _ _ Hin) as (l1 & l2 & ->). exists l1, l2. split; [reflexivity|].
  rewrite map_app in Hn. cbn [map] in Hn. pose proof (NoDup_remove_2 _ _ _ Hn) as Hnot.
  assert (H1 : forall y, In y l1 -> ak y <> ak n).
  { intros y Hy E. apply Hnot. apply in_app_iff. left. rewrite <- Hk, <- E. apply in_map; exact Hy. }
  assert (H2 : forall y, In y l2 -> ak y <> ak n).
  { intros y Hy E. apply Hnot. apply in_app_iff. right. rewrite <- Hk, <- E. apply in_map; exact Hy. }
  unfold replace_attempt. rewrite map_app. cbn [map].
  fold (replace_attempt n l1). fold (replace_attempt n l2).
  rewrite (replace_attempt_id n l1 H1), (replace_attempt_id n l2 H2).
  assert (E : same_attempt c n = true) by (apply same_attempt_ak; symmetry; exact Hk). rewrite E. reflexivity.
Qed.

(* instances *)
Definition ikey (n : Z) (x : inst) : bool := i_name x =? n.

Lemma find_inst_eq s n : find_inst s n = find (ikey n) (insts s).
Proof. reflexivity. Qed.

Lemma find_inst_in s n y : find_inst s n = Some y -> In y (insts s) /\ i_name y = n.
Proof. intros H. apply find_some in H. destruct H as [H1 H2]. split; [exact H1 | apply Z.eqb_eq; exact H2]. Qed.

Lemma find_ikey_none l n : find (ikey n) l = None <-> ~ In n (map i_name l).
Proof.
  induction l as [|x l IH]; cbn [find map In]; [tauto|]. unfold ikey at 1.
  destruct (i_name x =? n) eqn:E.
  - apply Z.eqb_eq in E. split; [discriminate | intros H; exfalso; apply H; left; exact E].
  - apply Z.eqb_neq in E. rewrite IH. tauto.
Qed.

Lemma find_ikey_unique l z : NoDup (map i_name l) -> In z l -> find (ikey (i_name z)) l = Some z.
Proof.
  induction l as [|y l IH]; intros Hn Hin; [destruct Hin|].
  cbn [map] in Hn. inversion Hn as [|? ? Hy Hl]; subst. cbn [find]. unfold ikey at 1.
  destruct Hin as [->|Hin]; [rewrite Z.eqb_refl; reflexivity|].
  destruct (i_name y =? i_name z) eqn:E; [|apply IH; assumption].
  apply Z.eqb_eq in E. exfalso; apply Hy. rewrite E. apply in_map; exact Hin.
Qed.

Lemma replace_inst_names n l : map i_name (replace_inst n l) = map i_name l.
Proof.
  unfold replace_inst. rewrite map_map. apply map_ext_in. intros x _.
  destruct (i_name x =? i_name n) eqn:E; [|reflexivity]. apply Z.eqb_eq in E. symmetry; exact E.
Qed.

Lemma in_replace_inst n l z : In z (replace_inst n l) -> z = n \/ (In z l /\ i_name z <> i_name n).
Proof.
  unfold replace_inst. intros H. apply in_map_iff in H. destruct H as (x & Hx & Hin).
  destruct (i_name x =? i_name n) eqn:E; [left; symmetry; exact Hx|].
  right. subst z. apply Z.eqb_neq in E. split; assumption.
Qed.

Lemma inst_set_free y f :
  i_name (y <| i_free := f |>) = i_name y /\ i_state (y <| i_free := f |>) = i_state y /\
  i_cores (y <| i_free := f |>) = i_cores y /\ i_free (y <| i_free := f |>) = f.
Proof. repeat split. Qed.

Ltac inst_simpl :=
  repeat match goal with
  | |- context [i_name (?y <| i_free := ?f |>)] => change (i_name (y <| i_free := f |>)) with (i_name y)
  | |- context [i_state (?y <| i_free := ?f |>)] => change (i_state (y <| i_free := f |>)) with (i_state y)
  | |- context [i_cores (?y <| i_free := ?f |>)] => change (i_cores (y <| i_free := f |>)) with (i_cores y)
  | |- context [i_free (?y <| i_free := ?f |>)] => change (i_free (y <| i_free := f |>)) with f
  end.

(* the load an attempt puts on instance [m] *)
Definition load (s : state) (m : Z) (a : attempt) : Z := if open_on m a then jc s a else 0.

Lemma zsum_filter_app s m l1 c l2 :
  zsum (jc s) (filter (open_on m) (l1 ++ c :: l2)) =
  zsum (jc s) (filter (open_on m) l1) + load s m c + zsum (jc s) (filter (open_on m) l2).
Proof.
  rewrite filter_app, zsum_app. cbn [filter]. unfold load. destruct (open_on m c); cbn [zsum]; lia.
Qed.

Lemma jc_jobs_eq s s' a : jobs s' = jobs s -> jc s' a = jc s a.
Proof. intros H. unfold jc, find_job. rewrite H. reflexivity. Qed.

Lemma jc_key s a a' : ak a = ak a' -> jc s a = jc s a'.
Proof. unfold ak, jc. intros H. injection H as -> -> _. reflexivity. Qed.

Lemma used_replace s s' n c m :
  AU s -> In c (attempts s) -> ak n = ak c -> jobs s' = jobs s -> attempts s' = replace_attempt n (attempts s) ->
  used s' m = used s m - load s m c + load s m n.
Proof.
  intros Hau Hin Hk Hj Ha. destruct (replace_attempt_split n c _ Hau Hin Hk) as (l1 & l2 & E1 & E2).
  unfold used. rewrite Ha, E2, E1, !zsum_filter_app.
  rewrite (zsum_ext_in (jc s') (jc s)) by (intros; apply jc_jobs_eq; exact Hj).
  rewrite (zsum_ext_in (jc s') (jc s) (filter _ l2)) by (intros; apply jc_jobs_eq; exact Hj).
  unfold load. rewrite (jc_jobs_eq s s' n Hj). lia.
Qed.

Lemma used_snoc s s' n m :
  jobs s' = jobs s -> attempts s' = attempts s ++ [n] -> used s' m = used s m + load s m n.
Proof.
  intros Hj Ha. unfold used. rewrite Ha, filter_app, zsum_app. cbn [filter]. unfold load.
  rewrite (zsum_ext_in (jc s') (jc s)) by (intros; apply jc_jobs_eq; exact Hj).
  rewrite <- (jc_jobs_eq s s' n Hj). destruct (open_on m n); cbn [zsum]; lia.
Qed.

Lemma used_same_attempts s s' m : jobs s' = jobs s -> attempts s' = attempts s -> used s' m = used s m.
Proof.
  intros Hj Ha. unfold used. rewrite Ha. apply zsum_ext_in. intros; apply jc_jobs_eq; exact Hj.
Qed.

(* ------------------------------------------------------------------ (3) add_attempt *)

Lemma inv0_snoc s s' n :
  Inv0 s -> jobs s' = jobs s -> attempts s' = attempts s ++ [n] -> map i_name (insts s') = map i_name (insts s) ->
  find_attempt s (a_batch n) (a_job n) (a_id n) = None ->
  find_job s (a_batch n) (a_job n) <> None ->
  (a_inst n = -1 \/ In (a_inst n) (map i_name (insts s))) ->
  a_reason n = None ->
  Inv0 s'.
Proof.
  intros (Hju & Hau & Hiu & Haj & Hai & Hr) Hj Ha Hi Hf Hjob Hinst Hrn.
  unfold Inv0, JU, AU, IU, attjob, attinst, reason_ok. rewrite Hj, Ha, Hi. unfold find_job. rewrite Hj.
  repeat split; try assumption.
  - rewrite map_app. cbn [map]. apply NoDup_snoc; [exact Hau|].
    rewrite find_attempt_eq in Hf. apply find_akey_none in Hf. exact Hf.
  - intros a Hin. apply in_app_iff in Hin. destruct Hin as [Hin|[<-|[]]]; [apply Haj; exact Hin | exact Hjob].
  - intros a Hin. apply in_app_iff in Hin. destruct Hin as [Hin|[<-|[]]]; [apply Hai; exact Hin | exact Hinst].
  - intros a Hin. apply in_app_iff in Hin. destruct Hin as [Hin|[<-|[]]]; [apply Hr; exact Hin | intros; exact Hrn].
Qed.

Lemma find_akey_snoc l n b j a : find (akey b j a) l = None -> ak n = (b, j, a) -> find (akey b j a) (l ++ [n]) = Some n.
Proof.
  intros Hf Hk. induction l as [|x l IH]; cbn [app find] in *.
  - assert (E : akey b j a n = true) by (apply akey_ak; exact Hk). rewrite E; reflexivity.
  - destruct (akey b j a x); [discriminate | apply IH; exact Hf].
Qed.

Lemma add_attempt_spec s b j a i x s1 d :
  CInv s -> find_job s b j = Some x -> attempt_on s b j a i = true ->
  add_attempt s b j a i (j_cores x) = Some (s1, d) ->
  CInv s1 /\ jobs s1 = jobs s /\ exists c, find_attempt s1 b j a = Some c /\ a_inst c = i.
Proof.
  intros [HI HC] Hx Hon H. unfold add_attempt in H. unfold attempt_on in Hon.
  destruct (find_attempt s b j a) as [c0|] eqn:Ef.
  - injection H as <- <-. split; [split; assumption|]. split; [reflexivity|].
    exists c0. split; [exact Ef | apply Z.eqb_eq; exact Hon].
  - cbv zeta in H.
    set (n := mkAttempt b j a i None None None None) in *.
    set (s0 := s <| attempts ::= fun l => l ++ [n] |>) in *.
    change (find_inst s0 i) with (find_inst s i) in H.
    assert (Hfn : find_attempt s0 b j a = Some n).
    { rewrite find_attempt_eq. change (attempts s0) with (attempts s ++ [n]). apply find_akey_snoc; [exact Ef | reflexivity]. }
    assert (Hjn : jc s n = j_cores x) by (unfold jc; cbn [a_batch a_job n]; rewrite Hx; reflexivity).
    assert (Hu0 : forall m, used s0 m = used s m + load s m n) by (intros m; apply used_snoc; reflexivity).
    pose proof HI as (Hju & Hau & Hiu & Haj & Hai & Hr).
    destruct (find_inst s i) as [y|] eqn:Ei.
    + apply find_inst_in in Ei. destruct Ei as [Hy Hny].
      assert (Hinst : a_inst n = -1 \/ In (a_inst n) (map i_name (insts s))).
      { right. cbn [a_inst n]. rewrite <- Hny. apply in_map; exact Hy. }
      destruct (ilive (i_state y)) eqn:El; injection H as <- <-.
      * split; [split|].
        -- apply (inv0_snoc s _ n HI); try reflexivity; try assumption.
           ++ cbn [insts]. apply replace_inst_names.
           ++ cbn [a_batch a_job n]; rewrite Hx; discriminate.
        -- intros z Hz Hnz. cbn [insts] in Hz.
           change (insts s0) with (insts s) in Hz. apply in_replace_inst in Hz.
           unfold cores_ok.
           rewrite (used_same_attempts s0 _ (i_name z)) by reflexivity. rewrite Hu0. unfold load, open_on.
           cbn [a_inst n is_open a_end]. rewrite andb_true_r, Hjn.
           destruct Hz as [->|[Hz Hne]].
           ++ inst_simpl. rewrite El, Hny, Z.eqb_refl.
              specialize (HC y Hy). unfold cores_ok in HC. rewrite El, Hny in HC.
              change (i_name y <> -1) in Hnz. rewrite Hny in Hnz. rewrite (HC Hnz). lia.
           ++ change (i_name z <> i_name y) in Hne. rewrite Hny in Hne.
              destruct (i =? i_name z) eqn:E; [apply Z.eqb_eq in E; congruence|].
              rewrite Z.add_0_r. apply HC; assumption.
        -- split; [reflexivity|]. exists n. split; [exact Hfn | reflexivity].
      * split; [split|].
        -- apply (inv0_snoc s _ n HI); try reflexivity; try assumption.
           cbn [a_batch a_job n]; rewrite Hx; discriminate.
        -- intros z Hz Hnz. change (insts s0) with (insts s) in Hz.
           unfold cores_ok. rewrite Hu0. unfold load, open_on. cbn [a_inst n is_open a_end]. rewrite andb_true_r.
           destruct (i =? i_name z) eqn:E.
           ++ apply Z.eqb_eq in E. assert (z = y).
              { pose proof (find_ikey_unique _ z Hiu Hz) as F1. pose proof (find_ikey_unique _ y Hiu Hy) as F2.
                rewrite <- E, <- Hny in F1. congruence. }
              subst z. rewrite El. specialize (HC y Hy Hnz). unfold cores_ok in HC. rewrite El in HC. exact HC.
           ++ rewrite Z.add_0_r. apply HC; assumption.
        -- split; [reflexivity|]. exists n. split; [exact Hfn | reflexivity].
    + destruct (i =? -1) eqn:Ei1; [|discriminate]. injection H as <- <-. apply Z.eqb_eq in Ei1.
      split; [split|].
      * apply (inv0_snoc s _ n HI); try reflexivity; try assumption.
        -- cbn [a_batch a_job n]; rewrite Hx; discriminate.
        -- left; exact Ei1.
      * intros z Hz Hnz. change (insts s0) with (insts s) in Hz.
        unfold cores_ok. rewrite Hu0. unfold load, open_on. cbn [a_inst n].
        destruct (i =? i_name z) eqn:E; [apply Z.eqb_eq in E; congruence|].
        cbn [andb]. rewrite Z.add_0_r. apply HC; assumption.
      * split; [reflexivity|]. exists n. split; [exact Hfn | reflexivity].
Qed.

(* ------------------------------------------------------------------ (4) update_attempt against the clamp *)

Lemma clamp_key o req : ak (clamp o req) = ak req /\ a_inst (clamp o req) = a_inst req.
Proof. unfold clamp. destruct (clamp4 (times_of o) (times_of req)) as [[[? ?] ?] ?]. split; reflexivity. Qed.

Definition epair (a : attempt) : option Z * option Z := (a_end a, a_reason a).

(* the end time / end reason pair after the trigger is the old pair or the requested pair;
   the requested pair when there was no reason before *)
Lemma clamp_epair o req :
  (epair (clamp o req) = epair o \/ epair (clamp o req) = epair req) /\
  (a_reason o = None -> epair (clamp o req) = epair req).
Proof.
  unfold clamp, epair.
  destruct (clamp4 (times_of o) (times_of req)) as [[[s1 r1] e1] rs1] eqn:E.
  cbn [a_end a_reason].
  unfold times_of, clamp4 in E. injection E as _ _ E3 E4. subst e1 rs1.
  match goal with |- context [if ?k then a_end o else a_end req] => destruct k eqn:Ek end.
  - split; [left; reflexivity|]. intros Hnone. rewrite Hnone in Ek. discriminate.
  - split; [right; reflexivity | reflexivity].
Qed.

Lemma update_attempt_core s c req :
  Inv0 s -> In c (attempts s) -> ak req = ak c -> a_inst req = a_inst c ->
  let n := clamp c req in
  let s' := update_attempt s c req in
  jobs s' = jobs s /\ insts s' = insts s /\ attempts s' = replace_attempt n (attempts s) /\
  ak n = ak c /\ a_inst n = a_inst c /\
  JU s' /\ AU s' /\ IU s' /\ attjob s' /\ attinst s' /\
  (forall y, In y (attempts s') -> y = n \/ In y (attempts s)) /\
  find_attempt s' (a_batch c) (a_job c) (a_id c) = Some n /\
  (forall m, used s' m = used s m - load s m c + load s m n).
Proof.
  intros (Hju & Hau & Hiu & Haj & Hai & Hr) Hc Hk Hi n s'.
  pose proof (update_attempt_frame s c req) as F. cbv zeta in F. fold s' in F. fold n in F.
  destruct F as (_&_&_&_&_&Fj&_&_&_&_&Fa&Fi&_&_).
  destruct (clamp_key c req) as [Kn In_]. fold n in Kn, In_.
  assert (Kc : ak n = ak c) by congruence.
  assert (Ic : a_inst n = a_inst c) by congruence.
  destruct (replace_attempt_split n c _ Hau Hc Kc) as (l1 & l2 & E1 & E2).
  assert (Hys : forall y, In y (attempts s') -> y = n \/ In y (attempts s)).
  { intros y Hy. rewrite Fa, E2 in Hy. rewrite E1. apply in_app_iff in Hy. rewrite in_app_iff.
    destruct Hy as [Hy|[<-|Hy]]; [right; left; exact Hy | left; reflexivity | right; right; right; exact Hy]. }
  repeat split; try assumption.
  - unfold JU; rewrite Fj; exact Hju.
  - unfold AU; rewrite Fa, replace_attempt_ak; exact Hau.
  - unfold IU; rewrite Fi; exact Hiu.
  - intros y Hy. unfold find_job. rewrite Fj. destruct (Hys y Hy) as [->|Hy'].
    + destruct (ak_fields _ _ Kc) as (K1 & K2 & _). rewrite K1, K2. apply Haj; exact Hc.
    + apply Haj; exact Hy'.
  - intros y Hy. rewrite Fi. destruct (Hys y Hy) as [->|Hy']; [rewrite Ic; apply Hai; exact Hc | apply Hai; exact Hy'].
  - rewrite find_attempt_eq, Fa.
    assert (U : NoDup (map ak (replace_attempt n (attempts s)))) by (rewrite replace_attempt_ak; exact Hau).
    assert (Hn : In n (replace_attempt n (attempts s))) by (rewrite E2; apply in_app_iff; right; left; reflexivity).
    pose proof (find_akey_unique _ n U Hn) as Fn. destruct (ak_fields _ _ Kc) as (K1 & K2 & K3).
    rewrite K1, K2, K3 in Fn. exact Fn.
  - intros m. apply used_replace; assumption.
Qed.

(* what remains: [reason_ok], and the effect on [used], by the shape of the request *)
Definition keeps_pair (c req : attempt) : Prop := epair req = epair c.
Definition closes (req : attempt) : Prop := a_end req <> None /\ a_reason req <> None.

Lemma update_attempt_spec s c req :
  Inv0 s -> In c (attempts s) -> ak req = ak c -> a_inst req = a_inst c ->
  a_inst c = -1 \/ keeps_pair c req \/ closes req ->
  let n := clamp c req in
  let s' := update_attempt s c req in
  Inv0 s' /\ jobs s' = jobs s /\ insts s' = insts s /\
  find_attempt s' (a_batch c) (a_job c) (a_id c) = Some n /\ ak n = ak c /\ a_inst n = a_inst c /\
  (forall m, m <> a_inst c -> used s' m = used s m) /\
  (a_inst c <> -1 -> keeps_pair c req -> used s' (a_inst c) = used s (a_inst c) /\ is_open n = is_open c) /\
  (a_inst c <> -1 -> closes req -> used s' (a_inst c) = used s (a_inst c) - (if is_open c then jc s c else 0) /\ is_open n = false).
Proof.
  intros HI Hc Hk Hi Hcase n s'.
  destruct (update_attempt_core s c req HI Hc Hk Hi) as (Fj & Fi & Fa & Kc & Ic & J' & A' & I' & AJ' & AI' & Hys & Ff & Hu).
  fold n in Fa, Kc, Ic, Hys, Ff, Hu. fold s' in Fj, Fi, Fa, J', A', I', AJ', AI', Hys, Ff, Hu.
  pose proof HI as (Hju & Hau & Hiu & Haj & Hai & Hr).
  destruct (clamp_epair c req) as [Hd Hn]. fold n in Hd, Hn.
  assert (Hjc : jc s n = jc s c) by (apply jc_key; exact Kc).
  clearbody n s'.
  (* facts about the new row *)
  assert (Hkeep : a_inst c <> -1 -> keeps_pair c req -> is_open n = is_open c /\ (a_end n = None -> a_reason n = None)).
  { intros Hne Hkp. unfold keeps_pair in Hkp. assert (E : epair n = epair c) by (destruct Hd; congruence).
    unfold epair in E. injection E as E1 E2. unfold is_open. rewrite E1, E2. split; [reflexivity|]. apply Hr; assumption. }
  assert (Hclose : a_inst c <> -1 -> closes req -> a_end n <> None).
  { intros Hne [Hc1 Hc2].
    destruct (a_reason c) as [rc|] eqn:Erc.
    - assert (Hec : a_end c <> None) by (intros E; specialize (Hr c Hc Hne E); congruence).
      destruct Hd as [E|E]; unfold epair in E; injection E as E1 E2; congruence.
    - specialize (Hn eq_refl). unfold epair in Hn. injection Hn as E1 E2. congruence. }
  assert (Hreason : reason_ok s').
  { intros y Hy Hny Hey. destruct (Hys y Hy) as [->|Hy']; [|apply Hr; assumption].
    rewrite Ic in Hny. destruct Hcase as [H1|[H2|H3]]; [congruence | apply (Hkeep Hny H2); exact Hey |].
    exfalso. exact (Hclose Hny H3 Hey). }
  split; [repeat split; assumption|]. repeat split; try assumption.
  - intros m Hm. rewrite Hu. unfold load, open_on. rewrite Ic.
    destruct (a_inst c =? m) eqn:E; [apply Z.eqb_eq in E; congruence|]. cbn [andb]. lia.
  - rewrite Hu. unfold load, open_on. rewrite Ic, Hjc. destruct (Hkeep H H0) as [-> _]. lia.
  - apply Hkeep; assumption.
  - rewrite Hu. unfold load, open_on. rewrite Ic, Hjc, Z.eqb_refl. cbn [andb].
    assert (E : is_open n = false) by (unfold is_open; destruct (a_end n); [reflexivity | exfalso; apply (Hclose H H0); reflexivity]).
    rewrite E. destruct (is_open c); lia.
  - unfold is_open; destruct (a_end n); [reflexivity | exfalso; apply (Hclose H H0); reflexivity].
Qed.

(* ------------------------------------------------------------------ (5) building blocks for the ops *)

Lemma Inv0_jext s s' : Inv0 s -> jext s s' -> Inv0 s'.
Proof.
  intros (Hju & Hau & Hiu & Haj & Hai & Hr) He.
  pose proof He as (Ha & Hi & Hj' & m & Em). repeat split.
  - exact Hj'.
  - unfold AU; rewrite Ha; exact Hau.
  - unfold IU; rewrite Hi; exact Hiu.
  - intros a Hin. rewrite Ha in Hin. specialize (Haj a Hin).
    destruct (find_job s (a_batch a) (a_job a)) as [x|] eqn:E; [|congruence].
    destruct (jext_find_job _ _ _ _ _ He E) as (x' & -> & _). discriminate.
  - intros a Hin. rewrite Ha in Hin. rewrite Hi. apply Hai; exact Hin.
  - intros a Hin. rewrite Ha in Hin. apply Hr; exact Hin.
Qed.

Lemma inv0_insts s s' :
  Inv0 s -> jobs s' = jobs s -> attempts s' = attempts s -> map i_name (insts s') = map i_name (insts s) -> Inv0 s'.
Proof.
  intros (Hju & Hau & Hiu & Haj & Hai & Hr) Hj Ha Hi.
  unfold Inv0, JU, AU, IU, attjob, attinst, reason_ok, find_job. rewrite Hj, Ha, Hi. repeat split; assumption.
Qed.

Lemma find_attempt_in s b j a c : find_attempt s b j a = Some c -> In c (attempts s) /\ a_batch c = b /\ a_job c = j /\ a_id c = a.
Proof.
  intros H. rewrite find_attempt_eq in H. apply find_akey_sound in H. destruct H as [H1 H2].
  unfold ak in H2. injection H2 as -> -> ->. auto.
Qed.

Lemma cinv_update_keep s c req :
  CInv s -> In c (attempts s) -> ak req = ak c -> a_inst req = a_inst c -> keeps_pair c req ->
  CInv (update_attempt s c req) /\ jobs (update_attempt s c req) = jobs s.
Proof.
  intros [HI HC] Hc Hk Hi Hkp.
  destruct (update_attempt_spec s c req HI Hc Hk Hi (or_intror (or_introl Hkp))) as (I' & Fj & Fi & _ & _ & _ & U1 & U2 & _).
  split; [split; [exact I'|] | exact Fj].
  intros z Hz Hnz. rewrite Fi in Hz. unfold cores_ok.
  assert (E : used (update_attempt s c req) (i_name z) = used s (i_name z)).
  { destruct (Z.eq_dec (i_name z) (a_inst c)) as [E|E]; [|apply U1; exact E].
    rewrite E. apply U2; [congruence | exact Hkp]. }
  rewrite E. apply HC; assumption.
Qed.

Lemma cinv_give_null s y f : CInv s -> i_name y = -1 -> CInv (s <| insts ::= replace_inst (y <| i_free := f |>) |>).
Proof.
  intros [HI HC] Hy. split.
  - apply (inv0_insts s _ HI); try reflexivity. cbn [insts]. apply replace_inst_names.
  - intros z Hz Hnz. cbn [insts] in Hz. apply in_replace_inst in Hz. destruct Hz as [->|[Hz _]].
    + exfalso. apply Hnz. exact Hy.
    + unfold cores_ok. rewrite (used_same_attempts s _ (i_name z)) by reflexivity. apply HC; assumption.
Qed.

(* an attempt of job (b, j) on instance [i] is ended and the cores go back to a live instance *)
Lemma close_and_give s b j a c x i req :
  CInv s -> find_attempt s b j a = Some c -> find_job s b j = Some x -> a_inst c = i ->
  ak req = ak c -> a_inst req = a_inst c -> (i = -1 \/ closes req) ->
  let s1 := update_attempt s c req in
  let give := inst_live (inst_state s1 i) && is_open c in
  let s2 := if give then match find_inst s1 i with
                         | Some y => s1 <| insts ::= replace_inst (y <| i_free := i_free y + j_cores x |>) |>
                         | None => s1 end else s1 in
  CInv s2 /\ jobs s2 = jobs s.
Proof.
  intros [HI HC] Hf Hx Hi Hk Hri Hcase s1 give s2.
  destruct (find_attempt_in _ _ _ _ _ Hf) as (Hc & Hb & Hj & _).
  assert (Hcase' : a_inst c = -1 \/ keeps_pair c req \/ closes req) by (destruct Hcase; [left; congruence | right; right; assumption]).
  destruct (update_attempt_spec s c req HI Hc Hk Hri Hcase') as (I1 & Fj & Fi & _ & _ & _ & U1 & _ & U3).
  fold s1 in I1, Fj, Fi, U1, U3. clearbody s1.
  assert (Hjc : jc s c = j_cores x) by (unfold jc; rewrite Hb, Hj, Hx; reflexivity).
  assert (Hfi : find_inst s1 i = find_inst s i) by (unfold find_inst; rewrite Fi; reflexivity).
  assert (C1 : forall z, In z (insts s) -> i_name z <> -1 -> i_name z <> i -> cores_ok s1 z).
  { intros z Hz Hnz Hne. unfold cores_ok. rewrite U1 by congruence. apply HC; assumption. }
  pose proof HI as (Hju & Hau & Hiu & Haj & Hai & Hr).
  destruct (Z.eq_dec i (-1)) as [Ei|Ei].
  - (* NULL instance: only an instance named NULL can be touched *)
    assert (CI1 : CInv s1).
    { split; [exact I1|]. intros z Hz Hnz. rewrite Fi in Hz. apply C1; [assumption | assumption | congruence]. }
    subst s2. destruct give; [|split; assumption].
    destruct (find_inst s1 i) as [y|] eqn:Ey; [|split; assumption].
    split; [|exact Fj]. apply cinv_give_null; [exact CI1|]. apply find_inst_in in Ey. destruct Ey as [_ Ey]. congruence.
  - destruct Hcase as [Hcase|Hcl]; [contradiction|].
    assert (Hic : a_inst c <> -1) by congruence.
    destruct (U3 Hic Hcl) as [U3' _]. rewrite Hi, Hjc in U3'.
    subst s2 give. unfold inst_state. rewrite Hfi.
    destruct (find_inst s i) as [y|] eqn:Ey.
    + apply find_inst_in in Ey. destruct Ey as [Hy Hny]. cbn [option_map inst_live].
      assert (Huniq : forall z, In z (insts s) -> i_name z = i -> z = y).
      { intros z Hz Hnz. pose proof (find_ikey_unique _ z Hiu Hz) as F1. pose proof (find_ikey_unique _ y Hiu Hy) as F2.
        rewrite Hnz, <- Hny in F1. congruence. }
      pose proof (HC y Hy) as Cy. unfold cores_ok in Cy. rewrite Hny in Cy. specialize (Cy Ei).
      destruct (ilive (i_state y) && is_open c) eqn:Eg.
      * apply andb_true_iff in Eg. destruct Eg as [El Eo]. rewrite El in Cy. rewrite Eo in U3'.
        split; [split|exact Fj].
        -- apply (inv0_insts s1 _ I1); try reflexivity. cbn [insts]. apply replace_inst_names.
        -- intros z Hz Hnz. change (In z (replace_inst (y <| i_free := i_free y + j_cores x |>) (insts s1))) in Hz.
           rewrite Fi in Hz. apply in_replace_inst in Hz.
           unfold cores_ok. rewrite (used_same_attempts s1 _ (i_name z)) by reflexivity.
           destruct Hz as [->|[Hz Hne]].
           ++ inst_simpl. rewrite El, Hny, U3', Cy. lia.
           ++ change (i_name z <> i_name y) in Hne. rewrite Hny in Hne. apply C1; assumption.
      * split; [split; [exact I1|] | exact Fj].
        intros z Hz Hnz. rewrite Fi in Hz.
        destruct (Z.eq_dec (i_name z) i) as [E|E]; [|apply C1; assumption].
        rewrite (Huniq z Hz E). unfold cores_ok. rewrite Hny, U3'.
        apply andb_false_iff in Eg. destruct Eg as [El|Eo].
        -- rewrite El in *. exact Cy.
        -- rewrite Eo. rewrite Z.sub_0_r. exact Cy.
    + cbn [option_map inst_live andb]. split; [split; [exact I1|] | exact Fj].
      intros z Hz Hnz. rewrite Fi in Hz. apply C1; try assumption.
      intros E. rewrite find_inst_eq in Ey. apply find_ikey_none in Ey. apply Ey. rewrite <- E. apply in_map; exact Hz.
Qed.

(* ------------------------------------------------------------------ (5) the job messages *)

Lemma find_job_jobs_eq s s' b j : jobs s' = jobs s -> find_job s' b j = find_job s b j.
Proof. intros H. unfold find_job. rewrite H. reflexivity. Qed.

Lemma CInv_jext' s s' : CInv s -> jext s s' -> CInv s'.
Proof. apply CInv_jext. Qed.

Lemma cinv_update_found s b j x n : CInv s -> find_job s b j = Some x -> jskel n = jskel x -> CInv (update_job s x n).
Proof. intros HC Hx Hs. eapply CInv_jext; [exact HC|]. eapply jext_update_found; [apply HC | exact Hx | exact Hs]. Qed.

Lemma do_schedule_cinv s b j a i : CInv s -> legal s (ScheduleJob b j a i) -> CInv (fst (do_schedule s b j a i)).
Proof.
  intros HC Hl. unfold legal, legalb in Hl. apply andb_true_iff in Hl. destruct Hl as [_ Hon].
  unfold do_schedule. destruct (find_job s b j) as [x|] eqn:Hx; [|exact HC].
  destruct (is_job_cancelled s x); [|exact HC]. cbv zeta.
  destruct (add_attempt s b j a i (j_cores x)) as [[s1 d0]|] eqn:Ea; [|exact HC].
  destruct (add_attempt_spec _ _ _ _ _ _ _ _ HC Hx Hon Ea) as (C1 & J1 & _).
  match goal with |- context [if ?c then _ else _] => destruct c end; cbn [fst]; [|exact C1].
  eapply cinv_update_found; [exact C1 | rewrite (find_job_jobs_eq s s1 b j J1); exact Hx | reflexivity].
Qed.

Lemma set_times_cinv s b j a t : CInv s -> CInv (set_times s b j a t) /\ jobs (set_times s b j a t) = jobs s.
Proof.
  intros HC. unfold set_times. destruct (find_attempt s b j a) as [cur|] eqn:Ef; [|split; [exact HC | reflexivity]].
  apply find_attempt_in in Ef. destruct Ef as [Hc _].
  apply cinv_update_keep; try assumption; reflexivity.
Qed.

Lemma do_mark_cs_cinv cr s b j a i t :
  CInv s -> attempt_on s b j a i = true -> CInv (fst (do_mark_creating_or_started cr s b j a i t)).
Proof.
  intros HC Hon. unfold do_mark_creating_or_started. destruct (find_job s b j) as [x|] eqn:Hx; [|exact HC].
  destruct (is_job_cancelled s x); [|exact HC].
  destruct (add_attempt s b j a i (j_cores x)) as [[s1 d0]|] eqn:Ea; [|exact HC].
  destruct (add_attempt_spec _ _ _ _ _ _ _ _ HC Hx Hon Ea) as (C1 & J1 & _).
  cbv zeta. destruct (set_times_cinv s1 b j a t C1) as [C2 J2].
  match goal with |- context [if ?c then _ else _] => destruct c end; cbn [fst]; [|exact C2].
  eapply cinv_update_found; [exact C2 | rewrite (find_job_jobs_eq s1 _ b j J2), (find_job_jobs_eq s s1 b j J1); exact Hx |].
  destruct cr; reflexivity.
Qed.

Lemma do_unschedule_cinv s b j a i t r :
  CInv s -> legal s (UnscheduleJob b j a i t r) -> CInv (fst (do_unschedule s b j a i t r)).
Proof.
  intros HC Hl. unfold legal, legalb in Hl. apply andb_true_iff in Hl. destruct Hl as [_ Hon].
  unfold attempt_exists_on in Hon. unfold do_unschedule.
  destruct (find_job s b j) as [x|] eqn:Hx; [|destruct (_ && _); exact HC].
  destruct (find_attempt s b j a) as [c|] eqn:Ef; [|discriminate]. apply Z.eqb_eq in Hon. cbv zeta.
  set (req := c <| a_rollup := Some t |> <| a_end := Some t |> <| a_reason := Some r |>).
  assert (Hcl : i = -1 \/ closes req) by (right; split; discriminate).
  pose proof (close_and_give s b j a c x i req HC Ef Hx Hon eq_refl eq_refl Hcl) as H. cbv zeta in H.
  change (match a_end c with None => true | Some _ => false end) with (is_open c).
  destruct H as [C2 J2].
  match goal with |- context [if ?cnd then (update_job ?s2 _ _, _) else _] => set (s2' := s2) in * end.
  match goal with |- context [if ?cnd then (update_job _ _ _, _) else _] => destruct cnd end; cbn [fst]; [|exact C2].
  eapply cinv_update_found; [exact C2 | rewrite (find_job_jobs_eq s s2' b j J2); exact Hx | reflexivity].
Qed.

(* the job part of a completion: state change, group and batch tallies, children released *)
Lemma complete_tail_jext s3 s7 b j x n succ :
  JU s3 -> find_job s3 b j = Some x -> jskel n = jskel x -> core_same (update_job s3 x n) s7 ->
  jext s3 (release_children s7 b j succ).
Proof.
  intros Hu Hx Hs C7.
  assert (J4 : jext s3 (update_job s3 x n)) by (eapply jext_update_found; eassumption).
  assert (J7 : jext s3 s7) by (eapply jext_trans; [exact J4 | apply core_same_jext; [apply J4 | exact C7]]).
  eapply jext_trans; [exact J7 | apply release_children_jext; apply J7].
Qed.

(* the extra environment assumption of C10: a completion without attempt id (the canceller completing a
   Ready job) names no instance *)
Definition names_attempt (o : op) : Prop :=
  match o with MarkComplete _ _ a i _ _ _ _ => a = -1 -> i = -1 | _ => True end.

Lemma do_mark_complete_cinv s b j a i ns st en rs :
  CInv s -> legal s (MarkComplete b j a i ns st en rs) -> (a = -1 -> i = -1) ->
  CInv (fst (do_mark_complete s b j a i ns st en rs)).
Proof.
  intros HC Hl Hna. unfold legal, legalb in Hl. rewrite !andb_true_iff in Hl. destruct Hl as [[[_ _] Hon] Hen].
  unfold do_mark_complete. destruct (find_job s b j) as [x|] eqn:Hx; [|destruct (a =? -1); exact HC].
  cbv zeta.
  destruct (a =? -1) eqn:Ea.
  - apply Z.eqb_eq in Ea. specialize (Hna Ea). subst i.
    cbn [andb].
    set (s3 := if inst_live (inst_state s (-1)) && true
               then match find_inst s (-1) with
                    | Some y => s <| insts ::= replace_inst (y <| i_free := i_free y + j_cores x |>) |>
                    | None => s end
               else s).
    assert (C3 : CInv s3 /\ jobs s3 = jobs s).
    { subst s3. destruct (inst_live (inst_state s (-1)) && true); [|split; [exact HC | reflexivity]].
      destruct (find_inst s (-1)) as [y|] eqn:Ey; [|split; [exact HC | reflexivity]].
      split; [|reflexivity]. apply cinv_give_null; [exact HC|]. apply find_inst_in in Ey. apply Ey. }
    destruct C3 as [C3 J3]. clearbody s3.
    assert (Hx3 : find_job s3 b j = Some x) by (rewrite (find_job_jobs_eq s s3 b j J3); exact Hx).
    repeat match goal with |- context [if ?c then (_, _) else _] => destruct c end; cbn [fst]; try exact C3.
    eapply CInv_jext; [exact C3|].
    match goal with |- jext _ (release_children _ _ _ _) => eapply complete_tail_jext; [apply C3 | exact Hx3 | | ] end;
      [| match goal with |- core_same _ (finish_groups (if ?c then _ else _) _ _) => destruct c end; repeat split];
      reflexivity.
  - destruct (add_attempt s b j a i (j_cores x)) as [[s1 d0]|] eqn:Eadd; [|exact HC].
    cbn [orb] in Hon.
    destruct (add_attempt_spec _ _ _ _ _ _ _ _ HC Hx Hon Eadd) as (C1 & J1 & c & Fc & Ic).
    rewrite Fc.
    set (req := c <| a_start := st |> <| a_rollup := en |> <| a_end := en |> <| a_reason := Some rs |>).
    assert (Hcl : i = -1 \/ closes req).
    { apply orb_true_iff in Hen. destruct Hen as [Hen|Hen]; [left; apply Z.eqb_eq; exact Hen|].
      right. split; [|discriminate]. subst req. cbn. destruct en; [discriminate | discriminate]. }
    assert (Hx1 : find_job s1 b j = Some x) by (rewrite (find_job_jobs_eq s s1 b j J1); exact Hx).
    pose proof (close_and_give s1 b j a c x i req C1 Fc Hx1 Ic eq_refl eq_refl Hcl) as H. cbv zeta in H.
    change (match a_end c with None => true | Some _ => false end) with (is_open c).
    match type of H with CInv ?t /\ _ => set (s3 := t) in * end.
    destruct H as [C3 J3]. clearbody s3.
    assert (Hx3 : find_job s3 b j = Some x) by (rewrite (find_job_jobs_eq s1 s3 b j J3); exact Hx1).
    repeat match goal with |- context [if ?c then (_, _) else _] => destruct c end; cbn [fst]; try exact C3.
    eapply CInv_jext; [exact C3|].
    match goal with |- jext _ (release_children _ _ _ _) => eapply complete_tail_jext; [apply C3 | exact Hx3 | | ] end;
      [| match goal with |- core_same _ (finish_groups (if ?c then _ else _) _ _) => destruct c end; repeat split];
      reflexivity.
Qed.

(* ------------------------------------------------------------------ (5) billing heartbeat, instances *)

Lemma do_billing_update_cinv s t atts : CInv s -> CInv (fst (do_billing_update s t atts)).
Proof.
  intros HC. unfold do_billing_update. cbn [fst]. apply fold_left_pres; [|exact HC].
  intros st [[b j] a] Hst _. destruct (find_attempt st b j a) as [cur|] eqn:Ef; [|exact Hst].
  apply find_attempt_in in Ef. destruct Ef as [Hc _]. apply cinv_update_keep; try assumption; reflexivity.
Qed.

Lemma used_none s n : attinst s -> n <> -1 -> ~ In n (map i_name (insts s)) -> used s n = 0.
Proof.
  intros Hai Hn Hnot. unfold used. rewrite filter_none; [reflexivity|].
  intros a Ha. unfold open_on. destruct (a_inst a =? n) eqn:E; [|reflexivity]. apply Z.eqb_eq in E.
  exfalso. destruct (Hai a Ha) as [H|H]; [congruence | rewrite E in H; exact (Hnot H)].
Qed.

Lemma do_new_instance_cinv s n ic c p : CInv s -> CInv (fst (do_new_instance s n ic c p)).
Proof.
  intros HC. unfold do_new_instance. destruct (_ || _); [exact HC|].
  destruct (find_inst s n) as [y|] eqn:Ef; [exact HC|]. cbn [fst].
  rewrite find_inst_eq in Ef. apply find_ikey_none in Ef.
  destruct HC as [(Hju & Hau & Hiu & Haj & Hai & Hr) HC]. split.
  - unfold Inv0, JU, AU, IU, attjob, attinst, reason_ok, find_job. cbn [jobs attempts insts set].
    change (insts (s <| insts ::= (fun l => l ++ [mkInst n IPending c c ic p]) |>)) with (insts s ++ [mkInst n IPending c c ic p]).
    repeat split; try assumption.
    + rewrite map_app. cbn [map i_name]. apply NoDup_snoc; assumption.
    + intros a Ha. destruct (Hai a Ha) as [H|H]; [left; exact H | right; rewrite map_app; apply in_app_iff; left; exact H].
  - intros z Hz Hnz.
    change (insts (s <| insts ::= (fun l => l ++ [mkInst n IPending c c ic p]) |>)) with (insts s ++ [mkInst n IPending c c ic p]) in Hz.
    unfold cores_ok. rewrite (used_same_attempts s _ (i_name z)) by reflexivity.
    apply in_app_iff in Hz. destruct Hz as [Hz|[<-|[]]]; [apply HC; assumption|].
    cbn [i_name i_state i_free i_cores ilive] in *. rewrite (used_none s n Hai Hnz Ef). lia.
Qed.

(* a change of an instance's state that does not change whether it is live *)
Lemma cinv_set_state s y st' :
  CInv s -> In y (insts s) -> ilive st' = ilive (i_state y) -> CInv (s <| insts ::= replace_inst (y <| i_state := st' |>) |>).
Proof.
  intros [HI HC] Hy Hl. split.
  - apply (inv0_insts s _ HI); try reflexivity. cbn [insts]. apply replace_inst_names.
  - intros z Hz Hnz. change (In z (replace_inst (y <| i_state := st' |>) (insts s))) in Hz.
    apply in_replace_inst in Hz. unfold cores_ok. rewrite (used_same_attempts s _ (i_name z)) by reflexivity.
    destruct Hz as [->|[Hz _]]; [|apply HC; assumption].
    change (i_free y = if ilive st' then i_cores y - used s (i_name y) else i_cores y). rewrite Hl.
    apply HC; assumption.
Qed.

Lemma do_activate_cinv s n : CInv s -> CInv (fst (do_activate s n)).
Proof.
  intros HC. unfold do_activate. destruct (find_inst s n) as [y|] eqn:Ef; [|exact HC].
  apply find_inst_in in Ef. destruct Ef as [Hy _].
  destruct (i_state y) eqn:Es; cbn [fst]; try exact HC. apply cinv_set_state; [exact HC | exact Hy | rewrite Es; reflexivity].
Qed.

Lemma do_mark_deleted_cinv s n : CInv s -> CInv (fst (do_mark_deleted s n)).
Proof.
  intros HC. unfold do_mark_deleted. destruct (find_inst s n) as [y|] eqn:Ef; [|exact HC].
  apply find_inst_in in Ef. destruct Ef as [Hy _].
  destruct (i_state y) eqn:Es; cbn [fst]; try exact HC. apply cinv_set_state; [exact HC | exact Hy | rewrite Es; reflexivity].
Qed.

(* ------------------------------------------------------------------ (5) deactivation *)

Lemma find_akey_replace l n b j a :
  find (akey b j a) (replace_attempt n l) =
  if akey b j a n then option_map (fun _ => n) (find (akey b j a) l) else find (akey b j a) l.
Proof.
  unfold replace_attempt. induction l as [|x l IH]; cbn [map find].
  - destruct (akey b j a n); reflexivity.
  - destruct (same_attempt x n) eqn:E.
    + apply same_attempt_ak in E.
      assert (Hk : akey b j a x = akey b j a n).
      { destruct (ak_fields _ _ E) as (E1 & E2 & E3). unfold akey. rewrite E1, E2, E3. reflexivity. }
      destruct (akey b j a n) eqn:Kn; rewrite Hk; [reflexivity | rewrite IH; reflexivity].
    + destruct (akey b j a x) eqn:Kx.
      * destruct (akey b j a n) eqn:Kn; [|reflexivity].
        exfalso. apply akey_ak in Kx. apply akey_ak in Kn.
        assert (T : same_attempt x n = true) by (apply same_attempt_ak; congruence). congruence.
      * rewrite IH. reflexivity.
Qed.

Definition inst_of (s : state) (b j a : Z) : option Z := option_map a_inst (find_attempt s b j a).

(* invariant of the loop that ends the attempts of instance [name] *)
Definition DI (s : state) (name : Z) (st : state) : Prop :=
  Inv0 st /\ jobs st = jobs s /\ insts st = insts s /\
  (forall m, m <> name -> used st m = used s m) /\
  (forall b j a, inst_of st b j a = inst_of s b j a).

Lemma deactivate_attempts_DI s name reason time :
  Inv0 s ->
  DI s name (fold_left (fun st a =>
       if a_inst a =? name then
         match find_attempt st (a_batch a) (a_job a) (a_id a) with
         | Some cur => update_attempt st cur (cur <| a_rollup := Some time |> <| a_end := Some time |> <| a_reason := Some reason |>)
         | None => st end
       else st) (attempts s) s).
Proof.
  intros HI. apply fold_left_pres.
  - intros st a (I1 & Fj & Fi & U & IO) Ha.
    destruct (a_inst a =? name) eqn:En; [|unfold DI; tauto]. apply Z.eqb_eq in En.
    destruct (find_attempt st (a_batch a) (a_job a) (a_id a)) as [cur|] eqn:Ef; [|unfold DI; tauto].
    assert (Hic : a_inst cur = name).
    { pose proof (IO (a_batch a) (a_job a) (a_id a)) as E. unfold inst_of in E. rewrite Ef in E.
      destruct HI as (_ & Hau & _). rewrite find_attempt_eq, (find_akey_unique _ a Hau Ha) in E.
      cbn [option_map] in E. congruence. }
    pose proof Ef as Ef'. apply find_attempt_in in Ef'. destruct Ef' as (Hc & Hb & Hj & Hid).
    set (req := cur <| a_rollup := Some time |> <| a_end := Some time |> <| a_reason := Some reason |>).
    assert (Hcl : a_inst cur = -1 \/ keeps_pair cur req \/ closes req) by (right; right; split; discriminate).
    destruct (update_attempt_spec st cur req I1 Hc eq_refl eq_refl Hcl) as (I2 & Fj2 & Fi2 & Ff & Kn & In_ & U1 & _ & _).
    destruct (update_attempt_core st cur req I1 Hc eq_refl eq_refl) as (_ & _ & Fa & _).
    repeat split; try apply I2.
    + congruence.
    + congruence.
    + intros m Hm. rewrite U1 by congruence. apply U; exact Hm.
    + intros b' j' a'. rewrite <- IO. unfold inst_of. rewrite !find_attempt_eq, Fa, find_akey_replace.
      destruct (akey b' j' a' (clamp cur req)) eqn:Ek; [|reflexivity].
      apply akey_ak in Ek. rewrite Kn in Ek. unfold ak in Ek. injection Ek as <- <- <-.
      rewrite <- find_attempt_eq, Hb, Hj, Hid in *. rewrite Ef. cbn [option_map]. congruence.
  - repeat split; try apply HI.
Qed.

Lemma do_deactivate_cinv s name reason time : CInv s -> CInv (fst (do_deactivate s name reason time)).
Proof.
  intros [HI HC]. unfold do_deactivate. destruct (find_inst s name) as [x|] eqn:Ex; [|split; assumption].
  destruct (ilive (i_state x)) eqn:El; [|split; assumption]. cbv zeta. cbn [fst].
  pose proof (deactivate_attempts_DI s name reason time HI) as D.
  match type of D with DI _ _ ?t => set (s1 := t) in * end.
  destruct D as (I1 & Fj1 & Fi1 & U1 & _). clearbody s1.
  match goal with |- CInv (set insts _ ?t) => set (s2 := t) end.
  assert (J2 : jext s1 s2).
  { subst s2. apply fold_jext; [|apply I1].
    intros st j Hst Hj. destruct (j_attempt j) as [a|]; [|apply jext_refl; apply Hst].
    destruct (find_attempt st (j_batch j) (j_id j) a) as [at_|]; [|apply jext_refl; apply Hst].
    destruct (_ && _); [|apply jext_refl; apply Hst].
    apply jext_update_job; [apply Hst|]. eapply jext_has_skel; [exact Hst|].
    match goal with |- In (jskel ?n) _ => change (jskel n) with (jskel j) end. apply in_map; exact Hj. }
  clearbody s2. pose proof (Inv0_jext _ _ I1 J2) as I2. pose proof J2 as (Fa2 & Fi2 & _ & _).
  apply find_inst_in in Ex. destruct Ex as [Hx Hnx].
  split.
  - apply (inv0_insts s2 _ I2); try reflexivity. cbn [insts]. apply replace_inst_names.
  - intros z Hz Hnz.
    change (In z (replace_inst (x <| i_state := IInactive |> <| i_free := i_cores x |>) (insts s2))) in Hz.
    rewrite Fi2, Fi1 in Hz. apply in_replace_inst in Hz. unfold cores_ok.
    rewrite (used_same_attempts s2 _ (i_name z)) by reflexivity.
    destruct Hz as [->|[Hz Hne]]; [reflexivity|].
    change (i_name z <> i_name x) in Hne. rewrite Hnx in Hne.
    rewrite (jext_used s1 s2 _ (proj1 (proj2 (proj2 (proj2 I1)))) J2), (U1 _ Hne). apply HC; assumption.
Qed.

(* ------------------------------------------------------------------ (6) every legal step preserves the invariant *)

Lemma legal_attempt_on s o b j a i :
  legal s o ->
  match o with
  | MarkCreating b' j' a' i' _ | MarkStarted b' j' a' i' _ => (b', j', a', i') = (b, j, a, i)
  | _ => False end ->
  attempt_on s b j a i = true.
Proof.
  unfold legal. destruct o; try contradiction; intros Hl E; injection E as <- <- <- <-;
  cbn [legalb] in Hl; apply andb_true_iff in Hl; apply Hl.
Qed.

Lemma step_cinv s o : CInv s -> legal s o -> names_attempt o -> CInv (fst (step s o)).
Proof.
  intros HC Hl Hn. destruct o; cbn [step].
  - eapply CInv_jext; [exact HC | apply core_same_jext; [apply HC | apply do_create_batch_same]].
  - eapply CInv_jext; [exact HC | apply core_same_jext; [apply HC | apply do_create_update_same]].
  - eapply CInv_jext; [exact HC | apply core_same_jext; [apply HC | apply do_create_groups_same]].
  - eapply CInv_jext; [exact HC | apply do_create_jobs_jext; apply HC].
  - eapply CInv_jext; [exact HC | apply do_commit_jext; apply HC].
  - eapply CInv_jext; [exact HC | apply core_same_jext; [apply HC | apply do_cancel_group_same]].
  - eapply CInv_jext; [exact HC | apply core_same_jext; [apply HC | apply do_delete_batch_same]].
  - apply do_new_instance_cinv; exact HC.
  - apply do_activate_cinv; exact HC.
  - apply do_deactivate_cinv; exact HC.
  - apply do_mark_deleted_cinv; exact HC.
  - apply do_schedule_cinv; assumption.
  - apply do_unschedule_cinv; assumption.
  - apply do_mark_cs_cinv; [exact HC | eapply legal_attempt_on; [exact Hl | reflexivity]].
  - apply do_mark_cs_cinv; [exact HC | eapply legal_attempt_on; [exact Hl | reflexivity]].
  - apply do_mark_complete_cinv; assumption.
  - eapply CInv_jext; [exact HC | apply core_same_jext; [apply HC | apply do_add_resources_same]].
  - apply do_billing_update_cinv; exact HC.
  - eapply CInv_jext; [exact HC | apply core_same_jext; [apply HC | apply do_cleanup_staging_same]].
  - eapply CInv_jext; [exact HC | apply core_same_jext; [apply HC | apply do_cleanup_cancellable_same]].
Qed.

Lemma init_cinv : CInv init.
Proof.
  split; [repeat split; try (apply NoDup_nil); intros a []|]. intros x [].
Qed.

(** Induction over legal histories all of whose messages satisfy a further, state-independent condition. *)
Lemma legal_invariant_env (Q : op -> Prop) (P : state -> Prop) :
  P init ->
  (forall s o, P s -> legal s o -> Q o -> P (fst (step s o))) ->
  forall ops, legal_history ops -> Forall Q ops -> P (run ops).
Proof.
  intros H0 Hstep ops. unfold legal_history, run.
  generalize init H0. induction ops as [|o r IH]; intros s Hs Hl Hq; cbn [fold_left legal_from] in *.
  - exact Hs.
  - destruct Hl as [Hlo Hlr]. inversion Hq as [|? ? Hqo Hqr]; subst.
    apply IH; [apply Hstep; assumption | exact Hlr | exact Hqr].
Qed.

Theorem cinv_reachable ops : legal_history ops -> Forall names_attempt ops -> CInv (run ops).
Proof. apply (legal_invariant_env names_attempt CInv); [exact init_cinv | exact step_cinv]. Qed.

(** C10 as stated: every instance (named by a real name, -1 being SQL NULL) of a reachable state reports
    total cores minus the cores of the jobs of its open attempts when it is live (pending/active), and all
    cores when it is inactive or deleted. *)
Theorem free_cores_exact ops :
  legal_history ops -> Forall names_attempt ops ->
  forall x, In x (insts (run ops)) -> i_name x <> -1 ->
  i_free x = if ilive (i_state x)
             then i_cores x - zsum (jc (run ops)) (filter (fun a => (a_inst a =? i_name x) && is_open a) (attempts (run ops)))
             else i_cores x.
Proof. intros Hl Hq x Hx Hn. destruct (cinv_reachable ops Hl Hq) as [_ HC]. exact (HC x Hx Hn). Qed.

Theorem inactive_all_free ops :
  legal_history ops -> Forall names_attempt ops ->
  forall x, In x (insts (run ops)) -> i_name x <> -1 -> ilive (i_state x) = false -> i_free x = i_cores x.
Proof. intros Hl Hq x Hx Hn Hd. rewrite (free_cores_exact ops Hl Hq x Hx Hn), Hd. reflexivity. Qed.

(** The tables the formula ranges over are keyed: instance names, attempt ids and job ids are unique, every
    attempt's job exists (so [jc] is the cores of a real job) and its instance exists or is NULL. *)
Theorem tables_keyed ops :
  legal_history ops -> Forall names_attempt ops ->
  let s := run ops in
  NoDup (map i_name (insts s)) /\ NoDup (map ak (attempts s)) /\ NoDup (map jk (jobs s)) /\
  (forall a, In a (attempts s) -> find_job s (a_batch a) (a_job a) <> None) /\
  (forall a, In a (attempts s) -> a_inst a = -1 \/ In (a_inst a) (map i_name (insts s))).
Proof.
  intros Hl Hq. destruct (cinv_reachable ops Hl Hq) as [(Hju & Hau & Hiu & Haj & Hai & _) _].
  repeat split; assumption.
Qed.

(** Free cores never leave the range [0 .. cores] as long as the scheduler never over-commits is NOT part of
    C10; what is: the bookkeeping equals the recount. *)

(* ------------------------------------------------------------------ (7) the environment assumptions are needed *)

(* one committed Ready job of 1000 mcpu, one pending pool instance named 7 with 4000 mcpu *)
Definition setup : list op :=
  [CreateBatch 1 1 1 true; CreateUpdate 1 1 1 1 0;
   CreateJobs 1 1 1 [mkJspec 1 (Some 0) 0 [] [] false 1000 0]; Commit 1 1 1;
   NewInstance 7 0 4000 true].

Lemma setup_legal : legal_history setup /\ Forall names_attempt setup.
Proof. split; [vm_compute; repeat split | repeat constructor]. Qed.

Definition bad_free (s : state) : Prop :=
  exists x, In x (insts s) /\ i_name x <> -1 /\ ilive (i_state x) = true /\ i_free x <> i_cores x - used s (i_name x).

(** Without the assumption of Legal.v that an unschedule names an attempt that exists (on that instance),
    the formula fails: a forged unschedule for an attempt that was never created gives cores "back". The
    message is legal in every other respect (existing job of a committed update). *)
Lemma forged_unschedule_breaks_formula :
  let s := run setup in
  let o := UnscheduleJob 1 1 99 7 50 3 in
  job_committed s 1 1 = true /\ find_attempt s 1 1 99 = None /\ names_attempt o /\ bad_free (fst (step s o)).
Proof.
  cbv zeta. split; [vm_compute; reflexivity|]. split; [vm_compute; reflexivity|]. split; [exact I|].
  exists (mkInst 7 IPending 4000 5000 0 true). vm_compute. repeat split; try (left; reflexivity); discriminate.
Qed.

(** Without [names_attempt] (not in Legal.v): a completion that carries no attempt id but names a live
    instance is legal for Legal.v and gives the job's cores to that instance although no attempt ended. *)
Lemma attemptless_complete_breaks_formula :
  let s := run setup in
  let o := MarkComplete 1 1 (-1) 7 Cancelled None (Some 5) 3 in
  legal s o /\ ~ names_attempt o /\ bad_free (fst (step s o)).
Proof.
  cbv zeta. split; [vm_compute; reflexivity|]. split; [intros H; specialize (H eq_refl); discriminate|].
  exists (mkInst 7 IPending 4000 5000 0 true). vm_compute. repeat split; try (left; reflexivity); discriminate.
Qed.

(** Non-vacuity: a legal history with a schedule, a duplicate schedule, a started report, a completion, a
    late duplicate completion and a deactivation; the theorem's formula evaluates to the recorded value. *)
Definition demo : list op :=
  setup ++ [ActivateInstance 7; ScheduleJob 1 1 10 7; ScheduleJob 1 1 10 7; MarkStarted 1 1 10 7 20;
            MarkComplete 1 1 10 7 Success (Some 20) (Some 30) 2; MarkComplete 1 1 10 7 Success (Some 20) (Some 31) 2;
            DeactivateInstance 7 4 40].

Example demo_legal : legal_history demo /\ Forall names_attempt demo.
Proof. split; [vm_compute; repeat split | repeat constructor; intros; discriminate]. Qed.

Example demo_free_trace :
  map (fun k => map (fun x => (i_free x, used (run (firstn k demo)) (i_name x))) (insts (run (firstn k demo)))) [5; 7; 8; 10; 11; 12]%nat
  = [[(4000, 0)]; [(3000, 1000)]; [(3000, 1000)]; [(4000, 0)]; [(4000, 0)]; [(4000, 0)]].
Proof. vm_compute. reflexivity. Qed.
