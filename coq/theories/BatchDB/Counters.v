(** C01 — scheduler job/core counters always match job states: assembly.

    [CInv_step] / [CInv_reachable]: the counter invariant (CountersInv.v) holds after every good history
    (legal driver/worker messages, schema-valid client requests: Deps.good_history), and the readable statements:

    [user_counters]       user_inst_coll_resources, all eight columns, per (user, inst_coll);
    [group_cancellable]   job_group_inst_coll_cancellable_resources, all five columns, per (batch, update, group, inst_coll)
                          for every group that is not cancelled;
    [staged_ready]        job_groups_inst_coll_staging at the root group for every update that is not committed. *)
From HailV Require Import BatchDB.StepFrame.
From HailV Require Import Common.Prelude BatchDB.Model BatchDB.Tables BatchDB.CMap BatchDB.JobsWF BatchDB.StepCore BatchDB.JobFold
  BatchDB.Legal BatchDB.DepsDef BatchDB.DepsEasy BatchDB.DepsStruct BatchDB.Deps
  BatchDB.CountersAlg BatchDB.CountersInv BatchDB.CountersDriver BatchDB.CountersStruct BatchDB.CountersJobs
  BatchDB.CountersCommit BatchDB.CountersCancel.
Open Scope Z_scope.

(* ------------------------------------------------------------------ every step, every good history *)

Lemma legal_first_conj a r : a && r = true -> a = true.
Proof. intros H. apply andb_true_iff in H. tauto. Qed.

Theorem CInv_step s o : DInv s -> DAux s -> CInv s -> good s o -> CInv (fst (step s o)).
Proof.
  intros D A C [L Cl]. pose proof (d_jkeys _ D) as K. destruct o; cbn [step].
  - apply CInv_create_batch; assumption.
  - apply CInv_create_update; assumption.
  - apply CInv_create_groups; assumption.
  - apply CInv_create_jobs; assumption.
  - apply CInv_commit; assumption.
  - apply CInv_cancel_group; assumption.
  - apply CInv_delete_batch; assumption.
  - apply (CInv_same_core s); [apply do_new_instance_core | exact C].
  - apply (CInv_same_core s); [apply do_activate_core | exact C].
  - apply CInv_deactivate; assumption.
  - apply (CInv_same_core s); [apply do_mark_deleted_core | exact C].
  - apply CInv_schedule; try assumption. unfold legal, legalb in L. apply (legal_first_conj _ _ L).
  - apply CInv_unschedule; try assumption. unfold legal, legalb in L. apply (legal_first_conj _ _ L).
  - apply CInv_creating_started; try assumption. unfold legal, legalb in L. apply (legal_first_conj _ _ L).
  - apply CInv_creating_started; try assumption. unfold legal, legalb in L. apply (legal_first_conj _ _ L).
  - apply CInv_mark_complete; try assumption. unfold legal, legalb in L.
    apply legal_first_conj in L. apply legal_first_conj in L. apply (legal_first_conj _ _ L).
  - apply (CInv_same_core s); [apply do_add_resources_core | exact C].
  - apply (CInv_same_core s); [apply do_billing_update_core | exact C].
  - apply CInv_cleanup_staging; exact C.
  - apply CInv_cleanup_cancellable; exact C.
Qed.

Theorem CInv_reachable ops : good_history ops -> CInv (run ops).
Proof. apply good_invariant; [apply CInv_init | intros s o D A C G; apply CInv_step; assumption]. Qed.

(* ------------------------------------------------------------------ the readable statements *)

(** the job is cancelled as far as the scheduler is concerned / can still be cancelled through its job group *)
Definition eff_cancelled (s : state) (x : job) : bool :=
  negb (j_always x) && (j_cancelled x || group_cancelled s (j_batch x) (j_group x)).
Definition cancellable_job (s : state) (x : job) : bool :=
  negb (j_always x) && negb (j_cancelled x) && negb (group_cancelled s (j_batch x) (j_group x)).

(** a job of a committed update of a batch of [usr], in inst_coll [ic] *)
Definition user_job (s : state) (usr ic : Z) (x : job) : bool :=
  (batch_user s (j_batch x) =? usr) && (j_ic x =? ic) && committed s (j_batch x) (j_update x).
(** a job of update [u], inst_coll [ic], in the subtree of group [g] of batch [b] *)
Definition subtree_job (s : state) (b u g ic : Z) (x : job) : bool :=
  (j_batch x =? b) && mem g (anc_ids s b (j_group x)) && (j_update x =? u) && (j_ic x =? ic).
Definition update_job_of (b u ic : Z) (x : job) : bool := (j_batch x =? b) && (j_update x =? u) && (j_ic x =? ic).

Definition in_state (x : job) (st : jstate) : bool := jstate_eqb (j_state x) st.
Definition count (p : job -> bool) (l : list job) : Z := Z.of_nat (length (filter p l)).
Definition cores (p : job -> bool) (l : list job) : Z := zsum j_cores (filter p l).

Lemma eff_cancelled_eq s x : eff_cancelled s x = effc (jgc s x) x.
Proof. reflexivity. Qed.
Lemma cancellable_job_eq s x : cancellable_job s x = cncl (jgc s x) x.
Proof. unfold cancellable_job, cncl, jgc. rewrite negb_orb, andb_assoc. reflexivity. Qed.

Lemma zsum_ind_count (a p : job -> bool) l :
  zsum (fun x => if a x then ind (p x) else 0) l = count (fun x => a x && p x) l.
Proof.
  unfold count. rewrite <- zsum_count. apply zsum_ext_in. intros x _. destruct (a x), (p x); reflexivity.
Qed.
Lemma zsum_ind_cores (a p : job -> bool) l :
  zsum (fun x => if a x then ind (p x) * j_cores x else 0) l = cores (fun x => a x && p x) l.
Proof.
  unfold cores. rewrite zsum_filter. apply zsum_ext_in. intros x _. destruct (a x), (p x); cbn [andb ind]; lia.
Qed.

Section Readable.
  Variable s : state.
  Hypothesis C : CInv s.

  Theorem user_counters usr ic :
    let v i := cval (key_eqb [usr; ic]) i (user_res s) in
    let sel st c x := user_job s usr ic x && (in_state x st && c x) in
    let live x := negb (eff_cancelled s x) in
    v 0%nat = count (sel Ready live) (jobs s) /\            (* n_ready_jobs *)
    v 1%nat = cores (sel Ready live) (jobs s) /\            (* ready_cores_mcpu *)
    v 2%nat = count (sel Running live) (jobs s) /\          (* n_running_jobs *)
    v 3%nat = cores (sel Running live) (jobs s) /\          (* running_cores_mcpu *)
    v 4%nat = count (sel Creating live) (jobs s) /\         (* n_creating_jobs *)
    v 5%nat = count (sel Ready (eff_cancelled s)) (jobs s) /\     (* n_cancelled_ready_jobs *)
    v 6%nat = count (sel Running (eff_cancelled s)) (jobs s) /\   (* n_cancelled_running_jobs *)
    v 7%nat = count (sel Creating (eff_cancelled s)) (jobs s).    (* n_cancelled_creating_jobs *)
  Proof.
    cbv zeta. pose proof (c_user _ C usr ic) as U.
    repeat split; rewrite U; unfold uw; cbn [uvec nth];
      first [apply (zsum_ind_count (usel s usr ic)) | apply (zsum_ind_cores (usel s usr ic))].
  Qed.

  Lemma gsel_key b u g ic k : gsel b g (fun u' ic' => (u' =? u) && (ic' =? ic)) k = key_eqb [b; u; g; ic] k.
  Proof.
    unfold gsel. destruct k as [|b' [|u' [|g' [|ic' [|]]]]]; cbn [key_eqb]; rewrite ?andb_false_r; try reflexivity.
    rewrite (Z.eqb_sym b b'), (Z.eqb_sym u u'), (Z.eqb_sym g g'), (Z.eqb_sym ic ic'), andb_true_r.
    destruct (b' =? b), (u' =? u), (g' =? g), (ic' =? ic); reflexivity.
  Qed.

  Theorem group_cancellable b u g ic :
    group_cancelled s b g = false ->
    let v i := cval (key_eqb [b; u; g; ic]) i (cancellable s) in
    let sel st x := subtree_job s b u g ic x && (in_state x st && cancellable_job s x) in
    v 0%nat = count (sel Ready) (jobs s) /\       (* n_ready_cancellable_jobs *)
    v 1%nat = cores (sel Ready) (jobs s) /\       (* ready_cancellable_cores_mcpu *)
    v 2%nat = count (sel Creating) (jobs s) /\    (* n_creating_cancellable_jobs *)
    v 3%nat = count (sel Running) (jobs s) /\     (* n_running_cancellable_jobs *)
    v 4%nat = cores (sel Running) (jobs s).       (* running_cancellable_cores_mcpu *)
  Proof.
    intros Hg. cbv zeta.
    pose proof (c_grp _ C b g Hg (fun u' ic' => (u' =? u) && (ic' =? ic))) as G.
    assert (G' : forall i, cval (key_eqb [b; u; g; ic]) i (cancellable s) =
                           zsum (gw s b g (fun u' ic' => (u' =? u) && (ic' =? ic)) i) (jobs s)).
    { intros i. rewrite <- G. unfold cval. f_equal. apply csum_ext. intros k. symmetry. apply gsel_key. }
    assert (Hsel : forall x, insub s b g x && ((j_update x =? u) && (j_ic x =? ic)) = subtree_job s b u g ic x).
    { intros x. unfold insub, subtree_job. rewrite !andb_assoc. reflexivity. }
    assert (Hf : forall st l,
               filter (fun x => subtree_job s b u g ic x && (isst x st && cncl (jgc s x) x)) l =
               filter (fun x => subtree_job s b u g ic x && (in_state x st && cancellable_job s x)) l).
    { intros st l. apply filter_ext. intros x. rewrite cancellable_job_eq. reflexivity. }
    repeat split; rewrite G'; unfold gw; cbn [cvec nth];
      (rewrite (zsum_ext_in _ (fun x => if subtree_job s b u g ic x then _ else 0)) by (intros x _; rewrite Hsel; reflexivity));
      first [ rewrite (zsum_ind_count (subtree_job s b u g ic))
            | rewrite (zsum_ind_cores (subtree_job s b u g ic)) ];
      unfold count, cores; rewrite Hf; reflexivity.
  Qed.

  Theorem staged_ready b u ic :
    committed s b u = false ->
    let v i := cval (key_eqb [b; u; 0; ic]) i (staging s) in
    v 0%nat = count (update_job_of b u ic) (jobs s) /\                                        (* n_jobs *)
    v 1%nat = count (fun x => update_job_of b u ic x && in_state x Ready) (jobs s) /\          (* n_ready_jobs *)
    v 2%nat = cores (fun x => update_job_of b u ic x && in_state x Ready) (jobs s).            (* ready_cores_mcpu *)
  Proof.
    intros Hu. cbv zeta. pose proof (c_stg _ C b u ic) as S.
    repeat split; rewrite (S _ Hu); unfold sw; cbn [svec nth].
    - unfold count. rewrite <- zsum_count. reflexivity.
    - apply (zsum_ind_count (ssel b u ic)).
    - apply (zsum_ind_cores (ssel b u ic)).
  Qed.

  (** the ancestor lists have no duplicates, so "in the subtree of g" is plain membership *)
  Lemma subtree_job_spec b u g ic x :
    subtree_job s b u g ic x = true <->
    j_batch x = b /\ In g (anc_ids s b (j_group x)) /\ j_update x = u /\ j_ic x = ic.
  Proof.
    unfold subtree_job. rewrite !andb_true_iff, mem_In, !Z.eqb_eq. tauto.
  Qed.
End Readable.

(* ------------------------------------------------------------------ what the rows of an uncommitted update hold *)

Lemma count_none (p : job -> bool) l : (forall x, In x l -> p x = false) -> count p l = 0.
Proof. intros H. unfold count. rewrite filter_all_false by exact H. reflexivity. Qed.
Lemma cores_none (p : job -> bool) l : (forall x, In x l -> p x = false) -> cores p l = 0.
Proof. intros H. unfold cores. rewrite filter_all_false by exact H. reflexivity. Qed.

(** Jobs of an update that is not committed are Pending — or, in the first update, Ready when they have no parents
    (DepsCorollaries.uncommitted_job_inert): so its cancellable rows never count creating / running jobs, and only the
    rows of update 1 can count (parentless) ready jobs; these are the rows written by _create_jobs. *)
Theorem group_cancellable_uncommitted s b u g ic :
  DInv s -> CInv s -> committed s b u = false -> group_cancelled s b g = false ->
  let v i := cval (key_eqb [b; u; g; ic]) i (cancellable s) in
  v 2%nat = 0 /\ v 3%nat = 0 /\ v 4%nat = 0 /\ (u <> 1 -> v 0%nat = 0 /\ v 1%nat = 0).
Proof.
  intros D C Hu Hg. cbv zeta.
  destruct (group_cancellable s C b u g ic Hg) as (V0 & V1 & V2 & V3 & V4). cbv zeta in *.
  assert (St : forall x, In x (jobs s) -> subtree_job s b u g ic x = true ->
                         j_state x = Pending \/ (j_state x = Ready /\ u = 1)).
  { intros x Hx Sx. apply subtree_job_spec in Sx. destruct Sx as (Eb & _ & Eu & _).
    pose proof (d_jobs _ D x Hx) as Ok. unfold job_ok, jcommitted in Ok. rewrite Eb, Eu, Hu in Ok. destruct Ok as [_ Ok].
    destruct (u =? 1) eqn:U1; [|left; exact Ok]. destruct Ok as [_ ->]. destruct (is_nil _); [right; split; [reflexivity | lia] | left; reflexivity]. }
  assert (Hnone : forall st, st <> Pending -> (st = Ready -> u <> 1) ->
            forall x, In x (jobs s) -> subtree_job s b u g ic x && (in_state x st && cancellable_job s x) = false).
  { intros st Hp Hr x Hx. destruct (subtree_job s b u g ic x) eqn:Sx; [|reflexivity]. cbn [andb].
    unfold in_state. destruct (St x Hx Sx) as [E | [E U1]]; rewrite E.
    - destruct st; try reflexivity. contradiction.
    - destruct st; try reflexivity. exfalso. apply Hr; auto. }
  repeat split.
  - rewrite V2. apply count_none, Hnone; discriminate.
  - rewrite V3. apply count_none, Hnone; discriminate.
  - rewrite V4. apply cores_none, Hnone; discriminate.
  - rewrite V0. apply count_none, Hnone; [discriminate | auto].
  - rewrite V1. apply cores_none, Hnone; [discriminate | auto].
Qed.

(* ------------------------------------------------------------------ over all good histories *)

Lemma user_counters_history ops :
  good_history ops -> let s := run ops in forall usr ic,
    let v i := cval (key_eqb [usr; ic]) i (user_res s) in
    let sel st c x := user_job s usr ic x && (in_state x st && c x) in
    let live x := negb (eff_cancelled s x) in
    v 0%nat = count (sel Ready live) (jobs s) /\ v 1%nat = cores (sel Ready live) (jobs s) /\
    v 2%nat = count (sel Running live) (jobs s) /\ v 3%nat = cores (sel Running live) (jobs s) /\
    v 4%nat = count (sel Creating live) (jobs s) /\
    v 5%nat = count (sel Ready (eff_cancelled s)) (jobs s) /\
    v 6%nat = count (sel Running (eff_cancelled s)) (jobs s) /\
    v 7%nat = count (sel Creating (eff_cancelled s)) (jobs s).
Proof. intros G s usr ic. apply (user_counters s (CInv_reachable ops G)). Qed.

Lemma group_cancellable_history ops :
  good_history ops -> let s := run ops in forall b u g ic,
    group_cancelled s b g = false ->
    let v i := cval (key_eqb [b; u; g; ic]) i (cancellable s) in
    let sel st x := subtree_job s b u g ic x && (in_state x st && cancellable_job s x) in
    v 0%nat = count (sel Ready) (jobs s) /\ v 1%nat = cores (sel Ready) (jobs s) /\
    v 2%nat = count (sel Creating) (jobs s) /\
    v 3%nat = count (sel Running) (jobs s) /\ v 4%nat = cores (sel Running) (jobs s).
Proof. intros G s b u g ic. apply (group_cancellable s (CInv_reachable ops G)). Qed.

Lemma group_cancellable_uncommitted_history ops :
  good_history ops -> let s := run ops in forall b u g ic,
    committed s b u = false -> group_cancelled s b g = false ->
    let v i := cval (key_eqb [b; u; g; ic]) i (cancellable s) in
    v 2%nat = 0 /\ v 3%nat = 0 /\ v 4%nat = 0 /\ (u <> 1 -> v 0%nat = 0 /\ v 1%nat = 0).
Proof. intros G s b u g ic. apply group_cancellable_uncommitted; [apply DInv_reachable | apply CInv_reachable]; exact G. Qed.

Lemma staged_ready_history ops :
  good_history ops -> let s := run ops in forall b u ic,
    committed s b u = false ->
    let v i := cval (key_eqb [b; u; 0; ic]) i (staging s) in
    v 0%nat = count (update_job_of b u ic) (jobs s) /\
    v 1%nat = count (fun x => update_job_of b u ic x && in_state x Ready) (jobs s) /\
    v 2%nat = cores (fun x => update_job_of b u ic x && in_state x Ready) (jobs s).
Proof. intros G s b u ic. apply (staged_ready s (CInv_reachable ops G)). Qed.

(** the group forest behind "subtree": ancestor lists have no duplicates, are transitive and form chains *)
Lemma forest_history ops : good_history ops -> AInv (run ops).
Proof. intros G. apply (c_anc _ (CInv_reachable ops G)). Qed.

(* ------------------------------------------------------------------ a concrete history *)

(** One batch of user 1, groups 0 > 1 > 2, one Ready job in each (1000 / 2000 / 4000 mcpu, inst_coll 1); after the commit
    the job of group 2 is scheduled (Running); then group 1 is cancelled: the Ready job of group 1 and the Running job
    of group 2 move to the cancelled columns, the job of the root group stays ready.  The row of the descendant group 2
    keeps its old value [0;0;0;1;4000] — which is why the statement is about groups that are not cancelled (the
    clean-up loop deletes such rows). *)
Definition c01_demo : list op :=
  [CreateBatch 1 1 1 true; CreateUpdate 1 1 10 3 2;
   CreateGroups 1 1 1 [mkGspec 1 (Some 0) 0; mkGspec 2 None 1];
   CreateJobs 1 1 1 [mkJspec 1 (Some 0) 0 [] [] false 1000 1; mkJspec 2 (Some 1) 0 [] [] false 2000 1;
                     mkJspec 3 (Some 2) 0 [] [] false 4000 1];
   Commit 1 1 1; NewInstance 1 1 8000 true; ActivateInstance 1; ScheduleJob 1 3 1 1;
   CancelGroup 1 1].

Example c01_demo_good : good_history c01_demo.
Proof. apply good_fromb_sound. vm_compute. reflexivity. Qed.

Example c01_demo_counters :
  let before := run (firstn 8 c01_demo) in
  let after := run c01_demo in
  csum (key_eqb [1; 1]) (user_res before) = [2; 3000; 1; 4000; 0; 0; 0; 0] /\
  csum (key_eqb [1; 1; 0; 1]) (cancellable before) = [2; 3000; 0; 1; 4000] /\
  csum (key_eqb [1; 1; 1; 1]) (cancellable before) = [1; 2000; 0; 1; 4000] /\
  csum (key_eqb [1; 1]) (user_res after) = [1; 1000; 0; 0; 0; 1; 1; 0] /\
  csum (key_eqb [1; 1; 0; 1]) (cancellable after) = [1; 1000; 0; 0; 0] /\
  group_cancelled after 1 0 = false /\ group_cancelled after 1 1 = true /\ group_cancelled after 1 2 = true /\
  csum (key_eqb [1; 1; 2; 1]) (cancellable after) = [0; 0; 0; 1; 4000] /\
  csum (key_eqb [1; 1; 0; 1]) (staging (run (firstn 4 c01_demo))) = [3; 3; 7000].
Proof. vm_compute. repeat split; reflexivity. Qed.
