(** The "core" tables (batches, updates, groups, ancestors, marks, jobs, parents, staging) and the
    sub-procedures of [step] that never touch them (attempt bookkeeping, billing, instances). *)
From HailV Require Import Common.Prelude BatchDB.Model BatchDB.Tables BatchDB.JobsWF.
From RecordUpdate Require Import RecordSet.
Import RecordSetNotations.
Open Scope Z_scope.

Definition core_eq (s s' : state) : Prop :=
  batches s' = batches s /\ updates s' = updates s /\ groups s' = groups s /\ ancestors s' = ancestors s /\
  marks s' = marks s /\ jobs s' = jobs s /\ parents s' = parents s /\ staging s' = staging s /\ next_batch s' = next_batch s.

Lemma core_eq_refl s : core_eq s s.
Proof. repeat split. Qed.

Lemma core_eq_trans s1 s2 s3 : core_eq s1 s2 -> core_eq s2 s3 -> core_eq s1 s3.
Proof. unfold core_eq. intuition congruence. Qed.

Lemma core_eq_update_attempt s o req : core_eq s (update_attempt s o req).
Proof.
  pose proof (update_attempt_frame s o req) as F. cbv zeta in F.
  destruct F as (F1&F2&F3&F4&F5&F6&F7&F8&F9&F10&F11&F12&F13&F14). repeat split; assumption.
Qed.

Lemma core_eq_set_times s b j a t : core_eq s (set_times s b j a t).
Proof. unfold set_times. destruct (find_attempt s b j a); [apply core_eq_update_attempt | apply core_eq_refl]. Qed.

Lemma core_eq_add_attempt s b j a i c s1 d : add_attempt s b j a i c = Some (s1, d) -> core_eq s s1.
Proof.
  unfold add_attempt. destruct (find_attempt s b j a).
  - intros H; injection H as <- _. apply core_eq_refl.
  - match goal with |- context [find_inst ?st i] => destruct (find_inst st i) as [x|] end.
    + intros H; injection H as <- _. destruct (ilive (i_state x)); repeat split.
    + destruct (i =? -1); [|discriminate]. intros H; injection H as <- _. repeat split.
Qed.

Lemma core_eq_insts s f : core_eq s (s <| insts ::= f |>).
Proof. repeat split. Qed.
Lemma core_eq_attempts s f : core_eq s (s <| attempts ::= f |>).
Proof. repeat split. Qed.

Lemma core_eq_bill s b j d rq : core_eq s (bill s b j d rq).
Proof.
  pose proof (bill_frame s b j d rq) as F. cbv zeta in F.
  destruct F as (F1&F2&F3&F4&F5&F6&F7&F8&F9&F10&F11&F12&F13&F14). repeat split; assumption.
Qed.

Lemma core_eq_add_one_resource b j a s rq : core_eq s (add_one_resource b j a s rq).
Proof.
  unfold add_one_resource. destruct rq as [r q].
  destruct (existsb _ _); [apply core_eq_refl|].
  match goal with |- context [if ?c then _ else _] => destruct c end.
  - repeat split.
  - eapply core_eq_trans; [|apply core_eq_bill]. repeat split.
Qed.

Lemma core_eq_fold {A} (f : state -> A -> state) l s :
  (forall st x, core_eq st (f st x)) -> core_eq s (fold_left f l s).
Proof.
  intros H. revert s. induction l as [|x l IH]; intros s; cbn [fold_left]; [apply core_eq_refl|].
  eapply core_eq_trans; [apply H | apply IH].
Qed.

(* lookups only depend on the core tables *)
Lemma core_eq_find_job s s' b j : core_eq s s' -> find_job s' b j = find_job s b j.
Proof. intros (_&_&_&_&_&E&_). unfold find_job. rewrite E. reflexivity. Qed.
Lemma core_eq_find_update s s' b u : core_eq s s' -> find_update s' b u = find_update s b u.
Proof. intros (_&E&_). unfold find_update. rewrite E. reflexivity. Qed.
Lemma core_eq_find_batch s s' b : core_eq s s' -> find_batch s' b = find_batch s b.
Proof. intros (E&_). unfold find_batch. rewrite E. reflexivity. Qed.
Lemma core_eq_find_group s s' b g : core_eq s s' -> find_group s' b g = find_group s b g.
Proof. intros (_&_&E&_). unfold find_group. rewrite E. reflexivity. Qed.
Lemma core_eq_anc_ids s s' b g : core_eq s s' -> anc_ids s' b g = anc_ids s b g.
Proof. intros (_&_&_&E&_). unfold anc_ids, anc_rows. rewrite E. reflexivity. Qed.
Lemma core_eq_marked s s' b g : core_eq s s' -> marked s' b g = marked s b g.
Proof. intros (_&_&_&_&E&_). unfold marked. rewrite E. reflexivity. Qed.
Lemma core_eq_group_cancelled s s' b g : core_eq s s' -> group_cancelled s' b g = group_cancelled s b g.
Proof.
  intros H. unfold group_cancelled, n_cancelled_anc. rewrite (core_eq_anc_ids _ _ _ _ H).
  erewrite filter_ext; [reflexivity|]. intros a. apply core_eq_marked. exact H.
Qed.

(* update_job changes only jobs among the core tables *)
Lemma update_job_core s o n :
  let s' := update_job s o n in
  batches s' = batches s /\ updates s' = updates s /\ groups s' = groups s /\ ancestors s' = ancestors s /\
  marks s' = marks s /\ jobs s' = replace_job n (jobs s) /\ parents s' = parents s /\ staging s' = staging s /\ next_batch s' = next_batch s.
Proof. cbv zeta. autorewrite with frame. repeat split; reflexivity. Qed.
