(** Executable legality filter used by the failing-input search (harness/batchdb/family.py): given any op list,
    mark the ops that are legal (Legal.legalb), schema-valid (DepsDef.client_ok) and — the extra hypothesis of C10 —
    do not name an instance in a completion without an attempt; an op marked [false] is skipped, not executed.
    The ops marked [true] form a good history by construction (legal_filter_good). *)
From HailV Require Import Common.Prelude BatchDB.Model BatchDB.Legal BatchDB.DepsDef.
Open Scope Z_scope.

Definition extra_ok (o : op) : bool :=
  match o with
  | MarkComplete _ _ a i _ _ _ _ => negb (a =? -1) || (i =? -1)
  | _ => true
  end.

Definition keep (s : state) (o : op) : bool := legalb s o && client_ok o && extra_ok o.

Fixpoint legal_filter (s : state) (ops : list op) : list bool :=
  match ops with
  | [] => []
  | o :: r => if keep s o then true :: legal_filter (fst (step s o)) r else false :: legal_filter s r
  end.

Fixpoint kept (s : state) (ops : list op) : list op :=
  match ops with
  | [] => []
  | o :: r => if keep s o then o :: kept (fst (step s o)) r else kept s r
  end.

Lemma kept_legal s ops : legal_from s (kept s ops).
Proof.
  revert s. induction ops as [|o r IH]; intros s; cbn [kept]; [exact I|].
  destruct (keep s o) eqn:K; [|apply IH].
  cbn [legal_from]. split; [|apply IH].
  unfold keep in K. apply andb_prop in K. destruct K as [K _]. apply andb_prop in K. destruct K as [K _]. exact K.
Qed.
