(** C41, non-interference: the simulation invariant [Sim] is preserved by every good step after which update U is still
    open and still the last update of its batch. *)
From HailV Require Import Common.Prelude BatchDB.Model BatchDB.Tables BatchDB.CMap BatchDB.JobsWF BatchDB.StepCore
  BatchDB.Legal BatchDB.DepsDef BatchDB.DepsStruct BatchDB.DepsAux BatchDB.Deps BatchDB.Pick BatchDB.Cores BatchDB.Attempts
  BatchDB.StepFrame BatchDB.NonInterfDef BatchDB.NonInterfInv BatchDB.NonInterfDriver.
From HailV Require BatchDB.Cancel.
From RecordUpdate Require Import RecordSet.
Import RecordSetNotations.
Open Scope Z_scope.

Local Notation run_from := Cancel.run_from.

(* ------------------------------------------------------------------ generic facts about one transaction *)

(** every transaction but create_update keeps the list of update keys *)
Lemma updates_keys_step s o :
  match o with CreateUpdate _ _ _ _ _ => True | _ => map ukey (updates (fst (step s o))) = map ukey (updates s) end.
Proof.
  pose proof (step_same_tree s o) as T.
  destruct o; try exact I; try (apply (st_updates _ _ T)); cbn [step]; clear T.
  - rewrite (q_updates _ _ (quiet_create_batch s user bp token member)). reflexivity.
  - rewrite (q_updates _ _ (quiet_create_groups s b u user gs)). reflexivity.
  - rewrite (q_updates _ _ (quiet_cancel_group s b g)). reflexivity.
  - rewrite (q_updates _ _ (quiet_delete_batch s b)). reflexivity.
Qed.

Lemma jrel_static (Q : job -> Prop) l0 l y : jrel Q l0 l -> In y l -> exists x, In x l0 /\ static_eq x y.
Proof. intros (_ & _ & H) Hy. apply H. exact Hy. Qed.

(** every job row after a transaction is an old row with the same immutable columns, or was inserted by create_jobs
    for an open update *)
Lemma jobs_static_step s o y' :
  In y' (jobs (fst (step s o))) ->
  (exists x, In x (jobs s) /\ static_eq x y') \/
  (exists b u usr js up, o = CreateJobs b u usr js /\ find_update s b u = Some up /\ u_committed up = false /\
                         j_batch y' = b /\ j_update y' = u).
Proof.
  intros Hy.
  assert (Same : jobs (fst (step s o)) = jobs s -> exists x, In x (jobs s) /\ static_eq x y').
  { intros E. rewrite E in Hy. exists y'. split; [exact Hy | apply static_eq_refl]. }
  assert (Rel : forall Q, jrel Q (jobs s) (jobs (fst (step s o))) -> exists x, In x (jobs s) /\ static_eq x y').
  { intros Q R. apply (jrel_static Q _ _ y' R Hy). }
  pose proof (step_jobs_same s o) as SJ.
  destruct o; try (left; apply Same; exact SJ); clear SJ; cbn [step] in *.
  - destruct (do_create_jobs_shape s b u user js) as [E | (up & bt & Fu & Fb & Cm & V & E)].
    + left. apply Same. rewrite E. reflexivity.
    + rewrite E in Hy. cbn [fst] in Hy. rewrite cj_insert_jobs in Hy. apply in_app_iff in Hy. destruct Hy as [Hy | Hy].
      * left. exists y'. split; [exact Hy | apply static_eq_refl].
      * right. exists b, u, user, js, up. destruct (cj_specs_batch b u up js y' Hy) as (B1 & B2 & _). auto 10.
  - left. apply (Rel _ (do_commit_jobs s b u user)).
  - left. apply (Rel _ (do_deactivate_jobs s name reason time)).
  - left. destruct (do_schedule_shape s b j att inst) as [C | (x & s1 & Fx & C & _ & _ & E)]; [apply Same, (sc_jobs _ _ C)|].
    rewrite E in Hy. rewrite update_job_jobs, (sc_jobs _ _ C) in Hy. apply in_replace_job in Hy. destruct Hy as [-> | Hy].
    + exists x. split; [apply find_jkey_sound in Fx; tauto | solve_static].
    + exists y'. split; [exact Hy | apply static_eq_refl].
  - left. apply (Rel _ (do_unschedule_jobs s b j att inst time reason)).
  - left. destruct (do_mcs_shape true s b j att inst time) as [C | (x & s1 & Fx & C & _ & _ & E)]; [apply Same, (sc_jobs _ _ C)|].
    rewrite E in Hy. rewrite update_job_jobs, (sc_jobs _ _ C) in Hy. apply in_replace_job in Hy. destruct Hy as [-> | Hy].
    + exists x. split; [apply find_jkey_sound in Fx; tauto | solve_static].
    + exists y'. split; [exact Hy | apply static_eq_refl].
  - left. destruct (do_mcs_shape false s b j att inst time) as [C | (x & s1 & Fx & C & _ & _ & E)]; [apply Same, (sc_jobs _ _ C)|].
    rewrite E in Hy. rewrite update_job_jobs, (sc_jobs _ _ C) in Hy. apply in_replace_job in Hy. destruct Hy as [-> | Hy].
    + exists x. split; [apply find_jkey_sound in Fx; tauto | solve_static].
    + exists y'. split; [exact Hy | apply static_eq_refl].
  - left. apply (Rel (fun _ => True)). apply do_mark_complete_jobs; auto.
Qed.

(* ------------------------------------------------------------------ "still open, still last" *)

Section Open.
  Variables (B U : Z).

  Definition Open (s : state) : Prop :=
    committed s B U = false /\ forall x, In x (updates s) -> u_batch x = B -> u_id x <= U.

  Lemma ukey_in s s' x : (exists e, map ukey (updates s') = map ukey (updates s) ++ e) -> In x (updates s) ->
    exists x', In x' (updates s') /\ ukey x' = ukey x.
  Proof.
    intros (e & E) Hx. assert (H : In (ukey x) (map ukey (updates s'))) by (rewrite E; apply in_or_app; left; apply in_map; exact Hx).
    apply in_map_iff in H. destruct H as (x' & E' & Hx'). eauto.
  Qed.

  Lemma Open_back_step s o : Open (fst (step s o)) -> Open s.
  Proof.
    intros [C L]. split.
    - destruct (committed s B U) eqn:E; [|reflexivity]. rewrite (committed_step s o _ _ E) in C. discriminate.
    - intros x Hx Hb. destruct (ukey_in s _ x (gr_updates _ _ (step_grow s o)) Hx) as (x' & Hx' & E).
      unfold ukey in E. injection E as E1 E2 _. rewrite <- E2. apply L; [exact Hx' | congruence].
  Qed.

  Lemma Open_back_from ops : forall s, Open (run_from s ops) -> Open s.
  Proof.
    induction ops as [|o r IH]; intros s H; [exact H|]. apply (Open_back_step s o). apply IH. exact H.
  Qed.
End Open.

(* ------------------------------------------------------------------ Sim is preserved *)

Section SimStep.
  Variables (B U sj G0 tok : Z).

  (** the batch_updates row of U carries U's token *)
  Definition Tok (s : state) : Prop := forall x, In x (updates s) -> u_batch x = B -> u_id x = U -> u_token x = tok.

  Lemma create_update_new_id s b user token nj ng :
    updates (fst (do_create_update s b user token nj ng)) = updates s \/
    (fst (do_create_update s b user token nj ng) = s <| updates ::= fun l => l ++ [create_update_row s b token nj ng] |> /\
     u_batch (create_update_row s b token nj ng) = b /\
     forall x, In x (updates s) -> u_batch x = b -> u_id x < u_id (create_update_row s b token nj ng)).
  Proof.
    destruct (do_create_update_cases s b user token nj ng) as [-> | (_ & _ & E)]; [left; reflexivity|].
    right. split; [exact E|]. pose proof (last_update_spec s b) as L. unfold create_update_row.
    destruct (last_update s b) as [m|]; cbn [u_batch u_id]; (split; [reflexivity|]).
    - destruct L as (_ & _ & L). intros x Hx Hb. specialize (L x Hx Hb). lia.
    - intros x Hx Hb. exfalso. exact (L x Hx Hb).
  Qed.

  (** after a good step that leaves U open and last, the update keys of the state are unchanged *)
  Lemma open_step_update_keys s o : Sim B U sj G0 s -> Open B U (fst (step s o)) ->
    map ukey (updates (fst (step s o))) = map ukey (updates s) \/
    exists x, updates (fst (step s o)) = updates s ++ [x] /\ u_batch x <> B.
  Proof.
    intros S [_ L]. pose proof (updates_keys_step s o) as K.
    destruct o; try (left; exact K). cbn [step] in *. clear K.
    destruct (create_update_new_id s b user token n_jobs n_groups) as [E | (E & Hb & Hnew)]; [left; rewrite E; reflexivity|].
    right. exists (create_update_row s b token n_jobs n_groups). rewrite E. scbn. split; [reflexivity|].
    intros Eb. destruct (sm_up _ _ _ _ _ S) as (up & Fu & _). apply find_update_sound in Fu. destruct Fu as (Hin & Hbu & Hiu).
    specialize (Hnew up Hin ltac:(congruence)).
    rewrite E in L. scbn in L. specialize (L (create_update_row s b token n_jobs n_groups) ltac:(apply in_or_app; right; left; reflexivity) ltac:(congruence)).
    lia.
  Qed.

  Lemma in_map_ukey s s' x' : map ukey (updates s') = map ukey (updates s) -> In x' (updates s') ->
    exists x, In x (updates s) /\ ukey x = ukey x'.
  Proof.
    intros E Hx'. assert (H : In (ukey x') (map ukey (updates s))) by (rewrite <- E; apply in_map; exact Hx').
    apply in_map_iff in H. destruct H as (x & Ex & Hx). eauto.
  Qed.

  Lemma committed_of_in s x : DInv s -> In x (updates s) -> committed s (u_batch x) (u_id x) = u_committed x.
  Proof. intros D Hx. unfold committed. rewrite (find_update_in s x (d_ukeys _ D) Hx). reflexivity. Qed.

  Theorem Sim_step s o :
    DInv s -> DAux s -> good s o -> Sim B U sj G0 s -> Tok s -> Open B U (fst (step s o)) ->
    Sim B U sj G0 (fst (step s o)) /\ Tok (fst (step s o)).
  Proof.
    intros D A G S T O. pose proof (DInv_step s o D A G) as D'. set (s' := fst (step s o)) in *.
    assert (Old : forall x', In x' (updates s') -> u_batch x' = B -> exists x, In x (updates s) /\ ukey x = ukey x').
    { intros x' Hx' Hb. destruct (open_step_update_keys s o S O) as [E | (xn & E & Nb)].
      - apply (in_map_ukey s s' x' E Hx').
      - fold s' in E. rewrite E in Hx'. apply in_app_iff in Hx'. destruct Hx' as [Hx' | [<- | []]]; [eauto | contradiction]. }
    destruct (sm_up _ _ _ _ _ S) as (up & Fu & Cu & Su).
    pose proof (find_update_sound _ _ _ _ Fu) as (Hup & Bup & Iup).
    destruct (ukey_in s s' up (gr_updates _ _ (step_grow s o)) Hup) as (up' & Hup' & Ek).
    unfold ukey in Ek. injection Ek as K1 K2 K3 K4 _.
    split; [constructor|].
    - apply (sm_G0 _ _ _ _ _ S).
    - exists up'. split; [|split].
      + rewrite <- Bup, <- Iup, <- K1, <- K2. apply find_update_in; [apply (d_ukeys _ D') | exact Hup'].
      + destruct O as [C _]. rewrite <- (committed_of_in s' up' D' Hup'). rewrite K1, K2, Bup, Iup. exact C.
      + congruence.
    - intros x' Hx' Hb Ni. destruct (Old x' Hx' Hb) as (x & Hx & Ek). unfold ukey in Ek. injection Ek as E1 E2 _.
      destruct (sm_others _ _ _ _ _ S x Hx ltac:(congruence) ltac:(congruence)) as (Cx & Lt). split; [|lia].
      rewrite <- (committed_of_in s' x' D' Hx'). rewrite <- E1, <- E2. apply committed_step.
      rewrite (committed_of_in s x D Hx). exact Cx.
    - intros y' Hy' Hb Nu. destruct (jobs_static_step s o y' Hy') as [(x & Hx & St) | (b & u & usr & js & upj & -> & Fj & Cj & Eb & Eu)].
      + destruct St as (S1 & _ & S3 & S4 & _). rewrite <- S4. apply (sm_jgroup _ _ _ _ _ S x Hx); congruence.
      + exfalso. subst b u. rewrite Hb in Fj. apply find_update_sound in Fj. destruct Fj as (Hj & Bj & Ij).
        destruct (sm_others _ _ _ _ _ S upj Hj Bj ltac:(congruence)) as (Cx & _). congruence.
    - intros x' Hx' Hb Hi. destruct (Old x' Hx' Hb) as (x & Hx & Ek). unfold ukey in Ek. injection Ek as E1 E2 E3 _.
      rewrite <- E3. apply T; [exact Hx | congruence | congruence].
  Qed.
End SimStep.
