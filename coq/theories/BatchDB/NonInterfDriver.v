(** C41, non-interference: the driver / worker transactions commute with the projection.

    [SI st]   the "static" part of the simulation invariant — what the sub-procedures of a transaction preserve: update U is
              open, the jobs of B with id >= sj are exactly U's, the other jobs of B sit in groups below G0, attempts belong
              to jobs below sj.
    Every lemma [proj_<transaction>] says: running the transaction on the projected state gives the projection of
    running it on the full state. *)
From HailV Require Import Common.Prelude BatchDB.Model BatchDB.Tables BatchDB.CMap BatchDB.JobsWF BatchDB.StepCore
  BatchDB.Legal BatchDB.DepsDef BatchDB.DepsStruct BatchDB.DepsAux BatchDB.Deps BatchDB.Pick BatchDB.Cores BatchDB.Attempts
  BatchDB.StepFrame BatchDB.NonInterfDef BatchDB.NonInterfInv.
From RecordUpdate Require Import RecordSet.
Import RecordSetNotations.
Open Scope Z_scope.

Section Driver.
  Variables (B U sj G0 : Z).
  Local Notation P := (proj B U sj G0).
  Local Notation jfree := (jfree B sj).
  Local Notation gfree := (gfree B G0).
  Local Notation ufree := (ufree B U).

  Record SI (st : state) : Prop := {
    si_G0 : 0 < G0;
    si_unc : committed st B U = false;
    si_jr : forall y, In y (jobs st) -> j_batch y = B -> (j_update y = U <-> sj <= j_id y);
    si_jg : forall y, In y (jobs st) -> j_batch y = B -> j_update y <> U -> j_group y < G0;
    si_att : forall c, In c (attempts st) -> a_batch c = B -> a_job c < sj }.

  Lemma SI_of_sim s : DInv s -> Sim B U sj G0 s -> AttInv s -> SI s.
  Proof.
    intros D S A. constructor.
    - apply (sm_G0 _ _ _ _ _ S).
    - destruct (sm_up _ _ _ _ _ S) as (up & Fu & Cu & _). unfold committed. rewrite Fu. exact Cu.
    - intros y Hy Hb. apply (sim_job_range B U sj G0 s y D S Hy Hb).
    - apply (sm_jgroup _ _ _ _ _ S).
    - intros c Hc Hb. destruct (sim_attempt B U sj G0 s c D S A Hc) as (Hj & _). unfold NonInterfDef.jfree in Hj.
      rewrite Hb, Z.eqb_refl in Hj. cbn [andb] in Hj. lia.
  Qed.

  Lemma SI_same st st' :
    jobs st' = jobs st -> updates st' = updates st ->
    (forall c', In c' (attempts st') -> exists c, In c (attempts st) /\ a_batch c = a_batch c' /\ a_job c = a_job c') ->
    SI st -> SI st'.
  Proof.
    intros Ej Eu Ha [H1 H2 H3 H4 H5]. constructor; try assumption.
    - unfold committed, find_update in *. rewrite Eu. exact H2.
    - rewrite Ej. exact H3.
    - rewrite Ej. exact H4.
    - intros c' Hc' Hb. destruct (Ha c' Hc') as (c & Hc & E1 & E2). rewrite <- E2. apply H5; [exact Hc | congruence].
  Qed.

  Lemma SI_core st st' : jobs st' = jobs st -> updates st' = updates st -> attempts st' = attempts st -> SI st -> SI st'.
  Proof. intros Ej Eu Ea. apply SI_same; [exact Ej | exact Eu|]. rewrite Ea. intros c' Hc'. exists c'. auto. Qed.

  Lemma SI_update_job st o n :
    (exists y, In y (jobs st) /\ j_batch n = j_batch y /\ j_id n = j_id y /\ j_update n = j_update y /\ j_group n = j_group y) ->
    SI st -> SI (update_job st o n).
  Proof.
    intros (y & Hy & E1 & E2 & E3 & E4) [H1 H2 H3 H4 H5]. constructor; [exact H1 | | | |].
    - unfold committed. rewrite find_update_update_job. exact H2.
    - rewrite update_job_jobs. intros z Hz. apply in_replace_job in Hz. destruct Hz as [-> | Hz]; [|apply H3; exact Hz].
      rewrite E1, E2, E3. apply H3. exact Hy.
    - rewrite update_job_jobs. intros z Hz. apply in_replace_job in Hz. destruct Hz as [-> | Hz]; [|apply H4; exact Hz].
      rewrite E1, E3, E4. apply H4. exact Hy.
    - rewrite update_job_attempts. exact H5.
  Qed.

  Lemma SI_update_attempt st o r : SI st -> SI (update_attempt st o r).
  Proof.
    apply SI_same; [apply update_attempt_jobs | autorewrite with frame; reflexivity|].
    intros c' Hc'. assert (Hk : In (ak c') (map ak (attempts (update_attempt st o r)))) by (apply in_map; exact Hc').
    rewrite update_attempt_ak in Hk. apply in_map_iff in Hk. destruct Hk as (c & E & Hc). exists c.
    unfold ak in E. injection E as E1 E2 _. auto.
  Qed.

  Lemma SI_set_times st b j a t : SI st -> SI (set_times st b j a t).
  Proof. unfold set_times. destruct (find_attempt st b j a); [apply SI_update_attempt | auto]. Qed.

  Lemma SI_add_attempt st b j a i c s1 d : jfree b j -> add_attempt st b j a i c = Some (s1, d) -> SI st -> SI s1.
  Proof.
    intros Hj Aa [H1 H2 H3 H4 H5].
    pose proof (same_core_add_attempt _ _ _ _ _ _ _ _ Aa) as C.
    constructor; try assumption.
    - unfold committed, find_update in *. rewrite (sc_updates _ _ C). exact H2.
    - rewrite (sc_jobs _ _ C). exact H3.
    - rewrite (sc_jobs _ _ C). exact H4.
    - intros c' Hc' Hb. assert (Hk : In (ak c') (akeys s1)) by (apply in_map; exact Hc').
      assert (Hold : In (ak c') (akeys st) -> a_job c' < sj).
      { intros Hk'. apply in_map_iff in Hk'. destruct Hk' as (c0 & E0 & Hc0). unfold ak in E0. injection E0 as E1 E2 _.
        rewrite <- E2. apply H5; [exact Hc0 | congruence]. }
      destruct (add_attempt_akeys _ _ _ _ _ _ _ _ Aa) as [E | E]; rewrite E in Hk; [apply Hold; exact Hk|].
      apply in_app_iff in Hk. destruct Hk as [Hk | [Hk | []]]; [apply Hold; exact Hk|].
      unfold ak in Hk. injection Hk as E1 E2 _. unfold NonInterfDef.jfree in Hj. rewrite E1, Hb, Z.eqb_refl in Hj. cbn [andb] in Hj. lia.
  Qed.

  (* -------------------------------------------------------------- consequences of SI *)

  Lemma committed_proj_all st b u : committed st B U = false -> committed (P st) b u = committed st b u.
  Proof.
    intros H. destruct ((b =? B) && (u =? U)) eqn:E; [|apply committed_proj; exact E].
    apply andb_true_iff in E. destruct E as [E1 E2]. apply Z.eqb_eq in E1, E2. subst b u. rewrite H.
    unfold committed. rewrite find_update_proj_own. reflexivity.
  Qed.

  Lemma si_found st b j y : SI st -> find_job st b j = Some y ->
    In y (jobs st) /\ j_batch y = b /\ j_id y = j /\
    (jfree b j -> gfree b (j_group y) /\ ufree b (j_update y)).
  Proof.
    intros S F. destruct (find_job_static_key _ _ _ _ F) as (Hb & Hj).
    rewrite find_job_eq in F. apply find_jkey_sound in F. destruct F as (Hy & _).
    split; [exact Hy|]. split; [exact Hb|]. split; [exact Hj|].
    unfold NonInterfDef.jfree, NonInterfDef.gfree, NonInterfDef.ufree. destruct (b =? B) eqn:Eb; cbn [andb]; [|auto].
    apply Z.eqb_eq in Eb. intros Hlt.
    assert (Nu : j_update y <> U) by (intros E; apply (si_jr _ S y Hy ltac:(congruence)) in E; lia).
    pose proof (si_jg _ S y Hy ltac:(congruence) Nu). split; lia.
  Qed.

  Lemma si_gfree st b j : SI st -> jfree b j -> gfree b (match find_job st b j with Some x => j_group x | None => 0 end).
  Proof.
    intros S Hj. destruct (find_job st b j) as [y|] eqn:F.
    - destruct (si_found st b j y S F) as (_ & _ & _ & H). apply (H Hj).
    - apply sim_gfree_root. apply (si_G0 _ S).
  Qed.

  Lemma si_attempt st b j a c : SI st -> find_attempt st b j a = Some c -> a_batch c = b /\ a_job c = j /\ jfree b j.
  Proof.
    intros S F. unfold find_attempt in F. apply find_some in F. destruct F as [Hin K].
    apply andb_true_iff in K. destruct K as [K _]. apply andb_true_iff in K. destruct K as [K1 K2].
    apply Z.eqb_eq in K1, K2. split; [exact K1|]. split; [exact K2|].
    unfold NonInterfDef.jfree. destruct (b =? B) eqn:Eb; cbn [andb]; [|reflexivity]. apply Z.eqb_eq in Eb.
    pose proof (si_att _ S c Hin ltac:(congruence)). lia.
  Qed.

  (** a job of U is not committed *)
  Lemma si_own_uncommitted st b j y : SI st -> find_job st b j = Some y -> (b =? B) && (sj <=? j) = true ->
    committed st b (j_update y) = false.
  Proof.
    intros S F E. destruct (si_found st b j y S F) as (Hy & Hb & Hj & _).
    apply andb_true_iff in E. destruct E as [E1 E2]. apply Z.eqb_eq in E1. subst b.
    assert (Eu : j_update y = U) by (apply (si_jr _ S y Hy Hb); lia). rewrite Eu. apply (si_unc _ S).
  Qed.

  Lemma si_job_committed_free st b j : SI st -> job_committed st b j = true -> jfree b j.
  Proof.
    intros S C. unfold job_committed in C. destruct (find_job st b j) as [y|] eqn:F; [|discriminate].
    unfold NonInterfDef.jfree. destruct ((b =? B) && (sj <=? j)) eqn:E; [|reflexivity].
    rewrite (si_own_uncommitted st b j y S F E) in C. discriminate.
  Qed.

  (* -------------------------------------------------------------- folds *)

  Lemma fold_keep_proj {A} (p : A -> bool) (g : state -> A -> state) (I : state -> Prop) l :
    (forall st a, I st -> I (g st a)) ->
    (forall st a, I st -> p a = true -> P (g st a) = P st) ->
    (forall st a, I st -> p a = false -> P (g st a) = g (P st) a) ->
    forall st, I st -> P (fold_left g l st) = fold_left g (keep p l) (P st).
  Proof.
    intros HI Hown Hfree. induction l as [|a l IH]; intros st Ist; [reflexivity|]. unfold keep in *. cbn [fold_left filter].
    destruct (p a) eqn:E; cbn [negb fold_left].
    - rewrite IH; [rewrite Hown; auto | auto].
    - rewrite IH; [rewrite Hfree; auto | auto].
  Qed.

  Lemma fold_proj {A} (g : state -> A -> state) (I : state -> Prop) l :
    (forall st a, I st -> I (g st a)) ->
    (forall st a, I st -> P (g st a) = g (P st) a) ->
    forall st, I st -> P (fold_left g l st) = fold_left g l (P st).
  Proof.
    intros HI Hfree st Ist. rewrite (fold_keep_proj (fun _ => false) g I l HI); [|intros; discriminate|auto|exact Ist].
    rewrite keep_all; [reflexivity | reflexivity].
  Qed.

  Lemma fold_I {A} (g : state -> A -> state) (I : state -> Prop) l : (forall st a, I st -> I (g st a)) -> forall st, I st -> I (fold_left g l st).
  Proof. intros H. induction l as [|a l IH]; intros st Ist; cbn [fold_left]; auto. Qed.

  (* -------------------------------------------------------------- instances *)

  Lemma proj_new_instance s n ic c p : fst (do_new_instance (P s) n ic c p) = P (fst (do_new_instance s n ic c p)).
  Proof. unfold do_new_instance. rewrite find_inst_proj. repeat dmatch; reflexivity. Qed.

  Lemma proj_activate s n : fst (do_activate (P s) n) = P (fst (do_activate s n)).
  Proof. unfold do_activate. rewrite find_inst_proj. repeat dmatch; reflexivity. Qed.

  Lemma proj_mark_deleted s n : fst (do_mark_deleted (P s) n) = P (fst (do_mark_deleted s n)).
  Proof. unfold do_mark_deleted. rewrite find_inst_proj. repeat dmatch; reflexivity. Qed.

  (* -------------------------------------------------------------- schedule / creating / started / unschedule *)

  Lemma proj_update_job_found st st0 b j x n :
    SI st0 -> find_job st0 b j = Some x -> jfree b j ->
    j_batch n = j_batch x -> j_update n = j_update x -> j_group n = j_group x ->
    P (update_job st x n) = update_job (P st) x n.
  Proof.
    intros S F Hj E1 E2 E3. destruct (si_found st0 b j x S F) as (_ & Hb & _ & H). destruct (H Hj) as (Hg & Hu).
    apply proj_update_job; rewrite ?E1, ?E2, ?E3, Hb; assumption.
  Qed.

  Lemma proj_schedule s b j a i : SI s -> job_committed s b j = true ->
    fst (do_schedule (P s) b j a i) = P (fst (do_schedule s b j a i)).
  Proof.
    intros S C. pose proof (si_job_committed_free s b j S C) as Hj.
    unfold do_schedule. rewrite (find_job_proj B U sj G0 s b j Hj).
    destruct (find_job s b j) as [x|] eqn:F; [|reflexivity].
    destruct (si_found s b j x S F) as (_ & Hb & _ & H). destruct (H Hj) as (Hg & Hu).
    rewrite (is_job_cancelled_proj B U sj G0 s x); [|rewrite Hb; exact Hg].
    destruct (is_job_cancelled s x) as [c|]; [|reflexivity].
    rewrite find_inst_proj, proj_add_attempt.
    destruct (add_attempt s b j a i (j_cores x)) as [[s1 d0]|] eqn:Aa; cbn [option_map fst snd]; [|reflexivity].
    rewrite inst_state_proj.
    destruct (_ && _); cbn [fst snd]; [|reflexivity].
    symmetry. apply (proj_update_job_found s1 s b j x _ S F Hj); reflexivity.
  Qed.

  Lemma proj_mcs cr s b j a i t : SI s -> job_committed s b j = true ->
    fst (do_mark_creating_or_started cr (P s) b j a i t) = P (fst (do_mark_creating_or_started cr s b j a i t)).
  Proof.
    intros S C. pose proof (si_job_committed_free s b j S C) as Hj.
    unfold do_mark_creating_or_started. rewrite (find_job_proj B U sj G0 s b j Hj).
    destruct (find_job s b j) as [x|] eqn:F; [|reflexivity].
    destruct (si_found s b j x S F) as (_ & Hb & _ & H). destruct (H Hj) as (Hg & Hu).
    rewrite (is_job_cancelled_proj B U sj G0 s x); [|rewrite Hb; exact Hg].
    destruct (is_job_cancelled s x) as [c|]; [|reflexivity].
    rewrite proj_add_attempt.
    destruct (add_attempt s b j a i (j_cores x)) as [[s1 d0]|] eqn:Aa; cbn [option_map fst snd]; [|reflexivity].
    pose proof (SI_add_attempt s b j a i _ s1 d0 Hj Aa S) as S1.
    cbv zeta. rewrite <- (proj_set_times B U sj G0 s1 b j a t Hj (si_gfree s1 b j S1 Hj)).
    rewrite inst_state_proj.
    destruct (_ && _); cbn [fst snd]; [|reflexivity].
    symmetry. apply (proj_update_job_found _ s b j x _ S F Hj); reflexivity.
  Qed.

  Lemma proj_update_attempt_found st b j a c req : SI st -> find_attempt st b j a = Some c ->
    a_batch req = a_batch c -> a_job req = a_job c ->
    P (update_attempt st c req) = update_attempt (P st) c req.
  Proof.
    intros S F E1 E2. destruct (si_attempt st b j a c S F) as (K1 & K2 & Hj).
    apply proj_update_attempt; rewrite E1, E2, K1, K2; [exact Hj | apply si_gfree; assumption].
  Qed.

  Lemma proj_unschedule s b j a i t r : SI s -> job_committed s b j = true ->
    fst (do_unschedule (P s) b j a i t r) = P (fst (do_unschedule s b j a i t r)).
  Proof.
    intros S C. pose proof (si_job_committed_free s b j S C) as Hj.
    unfold do_unschedule. rewrite (find_job_proj B U sj G0 s b j Hj), find_attempt_proj.
    destruct (find_job s b j) as [x|] eqn:F.
    2:{ rewrite inst_state_proj. repeat dmatch; reflexivity. }
    cbv zeta.
    set (s1 := match find_attempt s b j a with Some c => update_attempt s c (c <| a_rollup := Some t |> <| a_end := Some t |> <| a_reason := Some r |>) | None => s end).
    assert (E1 : match find_attempt s b j a with Some c => update_attempt (P s) c (c <| a_rollup := Some t |> <| a_end := Some t |> <| a_reason := Some r |>) | None => P s end = P s1).
    { subst s1. destruct (find_attempt s b j a) as [c|] eqn:Fa; [|reflexivity].
      symmetry. apply (proj_update_attempt_found s b j a c _ S Fa); reflexivity. }
    rewrite E1. rewrite inst_state_proj, find_inst_proj.
    set (s2 := if inst_live (inst_state s1 i) && match match find_attempt s b j a with Some c => a_end c | None => None end with None => true | Some _ => false end
               then match find_inst s1 i with Some y => s1 <| insts ::= replace_inst (y <| i_free := i_free y + j_cores x |>) |> | None => s1 end else s1).
    assert (E2 : (if inst_live (inst_state s1 i) && match match find_attempt s b j a with Some c => a_end c | None => None end with None => true | Some _ => false end
               then match find_inst s1 i with Some y => P s1 <| insts ::= replace_inst (y <| i_free := i_free y + j_cores x |>) |> | None => P s1 end else P s1) = P s2).
    { subst s2. repeat dmatch; reflexivity. }
    rewrite E2. clearbody s2. clear E1 E2. clearbody s1.
    destruct (_ && _); cbn [fst snd]; [|reflexivity].
    symmetry. apply (proj_update_job_found _ s b j x _ S F Hj); reflexivity.
  Qed.

  (* -------------------------------------------------------------- resources and billing *)

  Lemma SI_bill st b j d rq : SI st -> SI (bill st b j d rq).
  Proof. unfold bill. destruct rq. apply SI_core; reflexivity. Qed.

  Lemma SI_add_one_resource b j a st rq : SI st -> SI (add_one_resource b j a st rq).
  Proof.
    intros S. unfold add_one_resource. destruct rq as [r q]. destruct (existsb _ _); [exact S|]. cbv zeta.
    match goal with |- context [if ?c then _ else _] => destruct c end; [apply (SI_core st); auto | apply SI_bill; apply (SI_core st); auto].
  Qed.

  Lemma proj_add_one_resource b j a st rq : SI st -> jfree b j -> P (add_one_resource b j a st rq) = add_one_resource b j a (P st) rq.
  Proof.
    intros S Hj. unfold add_one_resource. destruct rq as [r q].
    change (attempt_res (P st)) with (attempt_res st). destruct (existsb _ _); [reflexivity|]. cbv zeta.
    set (s1 := st <| attempt_res ::= fun m => m ++ [([b; j; a; r], [q])] |>).
    change (P st <| attempt_res ::= fun m => m ++ [([b; j; a; r], [q])] |>) with (P s1).
    rewrite find_attempt_proj.
    match goal with |- context [if ?c then _ else _] => destruct c end; [reflexivity|].
    apply proj_bill; [exact Hj|]. apply si_gfree; [|exact Hj]. apply (SI_core st); auto.
  Qed.

  Lemma proj_add_resources s b j a rs : SI s ->
    fst (do_add_resources (P s) b j a rs) = P (fst (do_add_resources s b j a rs)).
  Proof.
    intros S. unfold do_add_resources. rewrite find_attempt_proj.
    destruct (is_nil rs); [reflexivity|]. destruct (existsb _ rs); [reflexivity|].
    destruct (find_attempt s b j a) as [c|] eqn:Fa; [|reflexivity]. cbn [fst].
    destruct (si_attempt s b j a c S Fa) as (_ & _ & Hj).
    symmetry. apply (fold_proj _ SI); [intros; apply SI_add_one_resource; assumption | | exact S].
    intros st rq Sst. apply proj_add_one_resource; assumption.
  Qed.

  (** the erased form of add_attempt_resources: no attempt of a job of U exists, nothing happens *)
  Lemma add_resources_own_noop s b j a rs : SI s -> (b =? B) && (sj <=? j) = true -> fst (do_add_resources s b j a rs) = s.
  Proof.
    intros S E. unfold do_add_resources. destruct (is_nil rs); [reflexivity|]. destruct (existsb _ rs); [reflexivity|].
    destruct (find_attempt s b j a) as [c|] eqn:Fa; [|reflexivity].
    destruct (si_attempt s b j a c S Fa) as (_ & _ & Hj). unfold NonInterfDef.jfree in Hj. rewrite Hj in E. discriminate.
  Qed.

  Definition bu_step (t : Z) (st : state) (x : Z * Z * Z) : state :=
    let '(b, j, a) := x in
    match find_attempt st b j a with Some cur => update_attempt st cur (cur <| a_rollup := Some t |>) | None => st end.

  Lemma do_billing_update_eq s t atts : fst (do_billing_update s t atts) = fold_left (bu_step t) atts s.
  Proof. reflexivity. Qed.

  (** billing update: the entries naming jobs of U (any job of B with id >= sj) find no attempt *)
  Lemma proj_billing_update s t atts (q : Z * Z * Z -> bool) :
    SI s -> (forall x, q x = true -> let '(b, j, _) := x in (b =? B) && (sj <=? j) = true) ->
    fst (do_billing_update (P s) t (keep q atts)) = P (fst (do_billing_update s t atts)).
  Proof.
    intros S Hq. rewrite !do_billing_update_eq. symmetry.
    apply (fold_keep_proj q (bu_step t) SI).
    - intros st [[b j] a] Sst. unfold bu_step. destruct (find_attempt st b j a); [apply SI_update_attempt|]; exact Sst.
    - intros st [[b j] a] Sst Q. specialize (Hq _ Q). cbv beta iota in Hq. unfold bu_step.
      destruct (find_attempt st b j a) as [c|] eqn:Fa; [|reflexivity].
      destruct (si_attempt st b j a c Sst Fa) as (_ & _ & Hj). unfold NonInterfDef.jfree in Hj. rewrite Hj in Hq. discriminate.
    - intros st [[b j] a] Sst _. unfold bu_step. rewrite find_attempt_proj.
      destruct (find_attempt st b j a) as [c|] eqn:Fa; [|reflexivity].
      apply (proj_update_attempt_found st b j a c _ Sst Fa); reflexivity.
    - exact S.
  Qed.
End Driver.
