(** Lookup / replacement lemmas for the keyed tables of the model, and what the two row-update
    primitives ([update_job], [update_attempt]) leave untouched. *)
From HailV Require Import Common.Prelude BatchDB.Model.
From RecordUpdate Require Import RecordSet.
Import RecordSetNotations.
Open Scope Z_scope.

(* ------------------------------------------------------------------ jobs *)

Definition jkey (b j : Z) (x : job) : bool := (j_batch x =? b) && (j_id x =? j).

Lemma find_job_eq s b j : find_job s b j = find (jkey b j) (jobs s).
Proof. reflexivity. Qed.

Lemma find_jkey_sound l b j x : find (jkey b j) l = Some x -> In x l /\ j_batch x = b /\ j_id x = j.
Proof.
  intros H. apply find_some in H. destruct H as [Hin Hk]. unfold jkey in Hk.
  apply andb_true_iff in Hk. destruct Hk as [H1 H2]. repeat split; [exact Hin | lia | lia].
Qed.

Lemma find_jkey_replace l n b j :
  find (jkey b j) (replace_job n l) =
  if jkey b j n then option_map (fun _ => n) (find (jkey b j) l) else find (jkey b j) l.
Proof.
  unfold replace_job. induction l as [|x l IH]; cbn [map find].
  - destruct (jkey b j n); reflexivity.
  - destruct ((j_batch x =? j_batch n) && (j_id x =? j_id n)) eqn:E.
    + apply andb_true_iff in E. destruct E as [E1 E2].
      assert (Hk : jkey b j x = jkey b j n) by (unfold jkey; f_equal; lia).
      destruct (jkey b j n) eqn:Kn.
      * rewrite Hk; reflexivity.
      * rewrite Hk, IH; reflexivity.
    + destruct (jkey b j x) eqn:Kx.
      * destruct (jkey b j n) eqn:Kn; [|reflexivity].
        exfalso. unfold jkey in Kx, Kn. apply andb_false_iff in E. lia.
      * rewrite IH. reflexivity.
Qed.

Lemma find_jkey_app l1 l2 b j :
  find (jkey b j) (l1 ++ l2) = match find (jkey b j) l1 with Some x => Some x | None => find (jkey b j) l2 end.
Proof. induction l1 as [|x l1 IH]; cbn [app find]; [reflexivity | destruct (jkey b j x); auto]. Qed.

Lemma replace_job_length n l : length (replace_job n l) = length l.
Proof. apply map_length. Qed.

Lemma in_replace_job n l y : In y (replace_job n l) -> y = n \/ In y l.
Proof.
  unfold replace_job; intros H; apply in_map_iff in H; destruct H as (x & Hx & Hin).
  destruct ((j_batch x =? j_batch n) && (j_id x =? j_id n)); subst; auto.
Qed.

(* ------------------------------------------------------------------ update_job: frame *)

Section UpdateJobFrame.
  Variables (s : state) (o n : job).

  Lemma update_job_jobs : jobs (update_job s o n) = replace_job n (jobs s).
  Proof. unfold update_job. destruct (job_deltas _ o n); reflexivity. Qed.

  Lemma update_job_batches : batches (update_job s o n) = batches s.
  Proof. unfold update_job. destruct (job_deltas _ o n); reflexivity. Qed.
  Lemma update_job_updates : updates (update_job s o n) = updates s.
  Proof. unfold update_job. destruct (job_deltas _ o n); reflexivity. Qed.
  Lemma update_job_groups : groups (update_job s o n) = groups s.
  Proof. unfold update_job. destruct (job_deltas _ o n); reflexivity. Qed.
  Lemma update_job_ancestors : ancestors (update_job s o n) = ancestors s.
  Proof. unfold update_job. destruct (job_deltas _ o n); reflexivity. Qed.
  Lemma update_job_marks : marks (update_job s o n) = marks s.
  Proof. unfold update_job. destruct (job_deltas _ o n); reflexivity. Qed.
  Lemma update_job_parents : parents (update_job s o n) = parents s.
  Proof. unfold update_job. destruct (job_deltas _ o n); reflexivity. Qed.
  Lemma update_job_staging : staging (update_job s o n) = staging s.
  Proof. unfold update_job. destruct (job_deltas _ o n); reflexivity. Qed.
  Lemma update_job_attempts : attempts (update_job s o n) = attempts s.
  Proof. unfold update_job. destruct (job_deltas _ o n); reflexivity. Qed.
  Lemma update_job_insts : insts (update_job s o n) = insts s.
  Proof. unfold update_job. destruct (job_deltas _ o n); reflexivity. Qed.
  Lemma update_job_attempt_res : attempt_res (update_job s o n) = attempt_res s.
  Proof. unfold update_job. destruct (job_deltas _ o n); reflexivity. Qed.
  Lemma update_job_agg :
    agg_job (update_job s o n) = agg_job s /\ agg_group (update_job s o n) = agg_group s /\
    agg_bp (update_job s o n) = agg_bp s /\ agg_date (update_job s o n) = agg_date s.
  Proof. unfold update_job. destruct (job_deltas _ o n); repeat split; reflexivity. Qed.
  Lemma update_job_next_batch : next_batch (update_job s o n) = next_batch s.
  Proof. unfold update_job. destruct (job_deltas _ o n); reflexivity. Qed.
End UpdateJobFrame.

#[export] Hint Rewrite update_job_jobs update_job_batches update_job_updates update_job_groups update_job_ancestors
  update_job_marks update_job_parents update_job_staging update_job_attempts update_job_insts update_job_attempt_res
  update_job_next_batch : frame.

Lemma find_job_update_job s o n b j :
  find_job (update_job s o n) b j =
  if jkey b j n then option_map (fun _ => n) (find_job s b j) else find_job s b j.
Proof. unfold find_job at 1. rewrite update_job_jobs. apply find_jkey_replace. Qed.

Lemma find_update_update_job s o n b u : find_update (update_job s o n) b u = find_update s b u.
Proof. unfold find_update. rewrite update_job_updates. reflexivity. Qed.

Lemma find_batch_update_job s o n b : find_batch (update_job s o n) b = find_batch s b.
Proof. unfold find_batch. rewrite update_job_batches. reflexivity. Qed.

Lemma find_group_update_job s o n b g : find_group (update_job s o n) b g = find_group s b g.
Proof. unfold find_group. rewrite update_job_groups. reflexivity. Qed.

Lemma find_attempt_update_job s o n b j a : find_attempt (update_job s o n) b j a = find_attempt s b j a.
Proof. unfold find_attempt. rewrite update_job_attempts. reflexivity. Qed.

Lemma find_inst_update_job s o n i : find_inst (update_job s o n) i = find_inst s i.
Proof. unfold find_inst. rewrite update_job_insts. reflexivity. Qed.

Lemma anc_ids_update_job s o n b g : anc_ids (update_job s o n) b g = anc_ids s b g.
Proof. unfold anc_ids, anc_rows. rewrite update_job_ancestors. reflexivity. Qed.

Lemma marked_update_job s o n b g : marked (update_job s o n) b g = marked s b g.
Proof. unfold marked. rewrite update_job_marks. reflexivity. Qed.

Lemma group_cancelled_update_job s o n b g : group_cancelled (update_job s o n) b g = group_cancelled s b g.
Proof.
  unfold group_cancelled, n_cancelled_anc. rewrite anc_ids_update_job.
  erewrite filter_ext; [reflexivity|]. intros a. apply marked_update_job.
Qed.

(* ------------------------------------------------------------------ update_attempt: frame *)

Lemma bill_frame s b j d rq :
  let s' := bill s b j d rq in
  batches s' = batches s /\ updates s' = updates s /\ groups s' = groups s /\ ancestors s' = ancestors s /\
  marks s' = marks s /\ jobs s' = jobs s /\ parents s' = parents s /\ user_res s' = user_res s /\
  cancellable s' = cancellable s /\ staging s' = staging s /\ attempts s' = attempts s /\ insts s' = insts s /\
  attempt_res s' = attempt_res s /\ next_batch s' = next_batch s.
Proof. unfold bill. destruct rq as [r q]. cbn. repeat split; reflexivity. Qed.

Lemma fold_bill_frame s b j d rqs :
  let s' := fold_left (fun st rq => bill st b j d rq) rqs s in
  batches s' = batches s /\ updates s' = updates s /\ groups s' = groups s /\ ancestors s' = ancestors s /\
  marks s' = marks s /\ jobs s' = jobs s /\ parents s' = parents s /\ user_res s' = user_res s /\
  cancellable s' = cancellable s /\ staging s' = staging s /\ attempts s' = attempts s /\ insts s' = insts s /\
  attempt_res s' = attempt_res s /\ next_batch s' = next_batch s.
Proof.
  revert s; induction rqs as [|rq rqs IH]; intros s; cbn [fold_left].
  - repeat split; reflexivity.
  - specialize (IH (bill s b j d rq)). cbv zeta in IH.
    pose proof (bill_frame s b j d rq) as F. cbv zeta in F.
    destruct IH as (I1&I2&I3&I4&I5&I6&I7&I8&I9&I10&I11&I12&I13&I14).
    destruct F as (F1&F2&F3&F4&F5&F6&F7&F8&F9&F10&F11&F12&F13&F14).
    repeat split; congruence.
Qed.

Lemma update_attempt_frame s o req :
  let s' := update_attempt s o req in
  batches s' = batches s /\ updates s' = updates s /\ groups s' = groups s /\ ancestors s' = ancestors s /\
  marks s' = marks s /\ jobs s' = jobs s /\ parents s' = parents s /\ user_res s' = user_res s /\
  cancellable s' = cancellable s /\ staging s' = staging s /\
  attempts s' = replace_attempt (clamp o req) (attempts s) /\ insts s' = insts s /\
  attempt_res s' = attempt_res s /\ next_batch s' = next_batch s.
Proof.
  unfold update_attempt. cbv zeta.
  destruct (billed (clamp o req) - billed o =? 0).
  - cbn. repeat split; reflexivity.
  - match goal with |- context [fold_left ?f ?l ?s0] => pose proof (fold_bill_frame s0 (a_batch (clamp o req)) (a_job (clamp o req)) (billed (clamp o req) - billed o) l) as F end.
    cbv zeta in F. destruct F as (F1&F2&F3&F4&F5&F6&F7&F8&F9&F10&F11&F12&F13&F14).
    repeat split; try (etransitivity; [eassumption | reflexivity]).
Qed.
