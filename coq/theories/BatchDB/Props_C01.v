(** C01 — scheduler job/core counters always match job states.  Property theorems only
    (proofs: BatchDB/Counters*.v; invariant [CountersInv.CInv], assembled in BatchDB/Counters.v).

    Quantification: ALL good histories [ops] of the batch-database model ([Deps.good_history]: driver/worker messages are
    legal in the sense of Legal.v — they name jobs of committed updates, updates of a batch are committed in order, ... —
    and client requests pass the front end's schema validation, [DepsDef.client_ok]).  Any interleaving, repetition and
    staleness of batch / update / job-group / job creation, commit, job-group and batch cancellation, schedule, unschedule,
    creating / started / complete reports, instance deactivation and the two background clean-up loops is good.

    Reading of the statement.  [cval (key_eqb k) i t] is column [i] of counter table [t] summed over the rows with key [k]
    (token shards are summed away by the model).  For a job [x] of batch b:
      [eff_cancelled s x]   = not always_run and (x.cancelled or some ancestor-or-self of x's group is cancelled)
                              — what the scheduler / canceller treat as cancelled;
      [cancellable_job s x] = not always_run and not x.cancelled and no ancestor-or-self of x's group is cancelled;
      [user_job s usr ic x] = x is in inst_coll ic, its batch belongs to usr and its update is COMMITTED;
      [subtree_job s b u g ic x] = x is a job of batch b, update u, inst_coll ic whose group has g among its
                              ancestors-or-self ([Counters.subtree_job_spec]; the ancestor table is a forest, C01_group_forest);
      [count p l] / [cores p l] = number / summed cores_mcpu of the jobs of [l] satisfying [p]. *)
From HailV Require Import Common.Prelude BatchDB.Model BatchDB.CMap BatchDB.Legal BatchDB.DepsDef BatchDB.DepsStruct BatchDB.Deps
  BatchDB.CountersAlg BatchDB.CountersInv BatchDB.Counters.
Open Scope Z_scope.

(** user_inst_coll_resources: for every user and inst_coll the eight columns equal the recount over the jobs of
    committed updates of the user's batches. *)
Theorem C01_user_counters : forall ops,
  good_history ops -> let s := run ops in forall usr ic,
    let v i := cval (key_eqb [usr; ic]) i (user_res s) in
    let sel st c x := user_job s usr ic x && (in_state x st && c x) in
    let live x := negb (eff_cancelled s x) in
    v 0%nat = count (sel Ready live) (jobs s) /\ v 1%nat = cores (sel Ready live) (jobs s) /\
    v 2%nat = count (sel Running live) (jobs s) /\ v 3%nat = cores (sel Running live) (jobs s) /\
    v 4%nat = count (sel Creating live) (jobs s) /\
    v 5%nat = count (sel Ready (eff_cancelled s)) (jobs s) /\
    v 6%nat = count (sel Running (eff_cancelled s)) (jobs s) /\
    v 7%nat = count (sel Creating (eff_cancelled s)) (jobs s).
Proof. exact user_counters_history. Qed.
Print Assumptions C01_user_counters.

(** job_group_inst_coll_cancellable_resources: for every batch, update, inst_coll and every job group that is NOT
    cancelled (neither itself nor through an ancestor), the five columns equal the recount over the cancellable jobs of
    that update in the group and its descendants.  (Rows of cancelled groups are dead: cancel_job_group zeroes the rows of
    the group itself, leaves those of its descendants as they are, and the clean-up loop deletes both.) *)
Theorem C01_group_cancellable : forall ops,
  good_history ops -> let s := run ops in forall b u g ic,
    group_cancelled s b g = false ->
    let v i := cval (key_eqb [b; u; g; ic]) i (cancellable s) in
    let sel st x := subtree_job s b u g ic x && (in_state x st && cancellable_job s x) in
    v 0%nat = count (sel Ready) (jobs s) /\ v 1%nat = cores (sel Ready) (jobs s) /\
    v 2%nat = count (sel Creating) (jobs s) /\
    v 3%nat = count (sel Running) (jobs s) /\ v 4%nat = cores (sel Running) (jobs s).
Proof. exact group_cancellable_history. Qed.
Print Assumptions C01_group_cancellable.

(** The same rows for an update that is not committed yet (the recount above does not ask for a committed update): its
    jobs are Pending, or Ready when they are parentless jobs of the first update, so no creating / running job is counted,
    and ready jobs only for update 1 — exactly the rows written by _create_jobs. *)
Theorem C01_group_cancellable_uncommitted : forall ops,
  good_history ops -> let s := run ops in forall b u g ic,
    committed s b u = false -> group_cancelled s b g = false ->
    let v i := cval (key_eqb [b; u; g; ic]) i (cancellable s) in
    v 2%nat = 0 /\ v 3%nat = 0 /\ v 4%nat = 0 /\ (u <> 1 -> v 0%nat = 0 /\ v 1%nat = 0).
Proof. exact group_cancellable_uncommitted_history. Qed.
Print Assumptions C01_group_cancellable_uncommitted.

(** job_groups_inst_coll_staging at the root group, per inst_coll, for every update that is not committed: number of jobs
    inserted so far, number and cores of the Ready ones — what commit_batch_update adds to the user's counters. *)
Theorem C01_staged_ready : forall ops,
  good_history ops -> let s := run ops in forall b u ic,
    committed s b u = false ->
    let v i := cval (key_eqb [b; u; 0; ic]) i (staging s) in
    v 0%nat = count (update_job_of b u ic) (jobs s) /\
    v 1%nat = count (fun x => update_job_of b u ic x && in_state x Ready) (jobs s) /\
    v 2%nat = cores (fun x => update_job_of b u ic x && in_state x Ready) (jobs s).
Proof. exact staged_ready_history. Qed.
Print Assumptions C01_staged_ready.

(** "The group and its descendants": the rows of job_group_self_and_ancestors form a forest — ancestor lists have no
    duplicates, are transitively closed, any two ancestors of a group are comparable, and every ancestor is its own ancestor. *)
Theorem C01_group_forest : forall ops, good_history ops -> AInv (run ops).
Proof. exact forest_history. Qed.
Print Assumptions C01_group_forest.

(** The step form: the counter invariant is preserved by every good step from ANY state satisfying it together with the
    dependency invariant of DepsDef.v. *)
Theorem C01_step : forall s o, DInv s -> DAux s -> CInv s -> good s o -> CInv (fst (step s o)).
Proof. exact CInv_step. Qed.
Print Assumptions C01_step.

(** The hypotheses are satisfiable, and the counters of a concrete history with nested groups, a running job and a
    job-group cancellation (values computed by the model). *)
Theorem C01_demo :
  good_history c01_demo /\
  let before := run (firstn 8 c01_demo) in
  let after := run c01_demo in
  csum (key_eqb [1; 1]) (user_res before) = [2; 3000; 1; 4000; 0; 0; 0; 0] /\
  csum (key_eqb [1; 1; 0; 1]) (cancellable before) = [2; 3000; 0; 1; 4000] /\
  csum (key_eqb [1; 1; 1; 1]) (cancellable before) = [1; 2000; 0; 1; 4000] /\
  csum (key_eqb [1; 1]) (user_res after) = [1; 1000; 0; 0; 0; 1; 1; 0] /\
  csum (key_eqb [1; 1; 0; 1]) (cancellable after) = [1; 1000; 0; 0; 0] /\
  group_cancelled after 1 0 = false /\ group_cancelled after 1 1 = true /\ group_cancelled after 1 2 = true /\
  csum (key_eqb [1; 1; 2; 1]) (cancellable after) = [0; 0; 0; 1; 4000] /\
  csum (key_eqb [1; 1; 0; 1]) (staging (run (firstn 4 c01_demo))) = [3; 3; 7000].
Proof. exact (conj c01_demo_good c01_demo_counters). Qed.
Print Assumptions C01_demo.
