(** C02 — every operation of the model preserves the billing invariant [BInv] (no legality assumption is needed). *)
From HailV Require Import Common.Prelude BatchDB.Model BatchDB.CMap BatchDB.Tables BatchDB.Billing BatchDB.BillingInv.
From RecordUpdate Require Import RecordSet.
Import RecordSetNotations.
Open Scope Z_scope.

Ltac sv_refl := constructor; reflexivity.

(** case-split a result that is, in every branch, the state itself or the state with billing-irrelevant fields set *)
Ltac sv_cases :=
  repeat match goal with
         | |- same_view _ (match ?x with _ => _ end) => destruct x
         | |- same_view _ (if ?c then _ else _) => destruct c
         end;
  try sv_refl.

(** peel the validation prefix of an operation: every branch that returns the state unchanged is closed by [H : BInv s] *)
Ltac peel_step :=
  match goal with
  | |- BInv (fst (if ?c then _ else _)) => destruct c eqn:?
  | |- BInv (fst (match ?x with _ => _ end)) => destruct x eqn:?
  end.
Ltac peel H := repeat (cbn [fst]; try exact H; peel_step); cbn [fst]; try exact H.
Ltac sv_done H := match type of H with BInv ?s0 => apply (BInv_same_view s0); [sv_refl | exact H] end.

Lemma same_view_fold {A} (f : state -> A -> state) l :
  (forall st x, same_view st (f st x)) -> forall s, same_view s (fold_left f l s).
Proof.
  intros H. induction l as [|x l IH]; intros s; cbn [fold_left]; [apply same_view_refl|].
  eapply same_view_trans; [apply H | apply IH].
Qed.

Lemma BInv_fold {A} (f : state -> A -> state) l :
  (forall st x, BInv st -> BInv (f st x)) -> forall s, BInv s -> BInv (fold_left f l s).
Proof. intros H. induction l as [|x l IH]; intros s Hs; cbn [fold_left]; [exact Hs | apply IH, H, Hs]. Qed.

(** folds of row updates over a list of (possibly stale) job rows *)
Lemma BInv_fold_jobs {A} (f : state -> A -> state) (row : A -> job) l :
  (forall st x, In x l -> BInv st -> In (kg3 (row x)) (kgl st) -> same_view st (f st x)) ->
  forall s, BInv s -> (forall x, In x l -> In (kg3 (row x)) (kgl s)) -> BInv (fold_left f l s).
Proof.
  induction l as [|x l IH]; intros H s Hs Hin; cbn [fold_left]; [exact Hs|].
  assert (Hv : same_view s (f s x)) by (apply H; [left; reflexivity | exact Hs | apply Hin; left; reflexivity]).
  apply IH; [intros st y Hy; apply H; right; exact Hy | eapply BInv_same_view; eassumption|].
  intros y Hy. rewrite (sv_kg _ _ Hv). apply Hin; right; exact Hy.
Qed.

(* ------------------------------------------------------------------ front end *)

Lemma NoDup_snoc {A} (l : list A) x : NoDup l -> ~ In x l -> NoDup (l ++ [x]).
Proof.
  induction l as [|y l IH]; intros Hnd Hx; cbn [app]; [constructor; [intros [] | constructor]|].
  inversion Hnd as [|? ? Hy Hnd']; subst. constructor.
  - intros Hin. apply in_app_or in Hin. destruct Hin as [Hin | [E | []]]; [contradiction | apply Hx; left; symmetry; exact E].
  - apply IH; [exact Hnd' | intros Hin; apply Hx; right; exact Hin].
Qed.

Lemma BInv_create_batch s user bp token member : BInv s -> BInv (fst (do_create_batch s user bp token member)).
Proof.
  intros H. unfold do_create_batch. peel H. unfold create_group_rows.
  set (id := next_batch s).
  eapply (BInv_grow s _ [(id, 0)] [(id, user, bp)] [(id, 0, 0, 0)] H); try reflexivity.
  - unfold gkl. cbn. rewrite map_app. reflexivity.
  - unfold bkl. cbn. rewrite map_app. reflexivity.
  - cbn. fold id. lia.
  - intros b u p [E | []]. injection E as <- _ _. cbn. fold id. lia.
  - intros b g [E | []]. injection E as <- <-. split; [|cbn; fold id; lia].
    intros Hin. apply (gi_fresh s (si_g s (proj1 H))) in Hin. fold id in Hin. lia.
  - intros b g a x [E | []]. injection E as <- <- <- _. split; [left; reflexivity | lia].
  - intros b g _. unfold aids. cbn [filter]. destruct (_ && _); cbn [map]; repeat constructor; intros [].
Qed.

Lemma BInv_create_update s b user token nj ng : BInv s -> BInv (fst (do_create_update s b user token nj ng)).
Proof.
  intros H. unfold do_create_update. peel H; sv_done H.
Qed.

Lemma aids_copied b g rows b0 g0 :
  aids (map (fun r : Z * Z * Z * Z => let '(_, _, a, lvl) := r in (b, g, a, lvl + 1)) rows) b0 g0
  = if (b =? b0) && (g =? g0) then map (fun r : Z * Z * Z * Z => let '(_, _, a, _) := r in a) rows else [].
Proof.
  unfold aids. induction rows as [|[[[b' g'] a] l] rows IH]; cbn [map filter]; [destruct (_ && _); reflexivity|].
  destruct ((b =? b0) && (g =? g0)); cbn [map]; rewrite IH; reflexivity.
Qed.

Lemma BInv_create_one_group b u sg s gs s' :
  BInv s -> find_batch s b <> None -> create_one_group b u sg (Some s) gs = Some s' -> BInv s' /\ batches s' = batches s.
Proof.
  intros H Hbt. unfold create_one_group. cbv zeta.
  destruct (group_cancelled s b _); [discriminate|].
  set (g := sg + gs_id gs - 1). set (parent := match gs_parent_abs gs with Some p => p | None => sg + gs_parent_rel gs - 1 end).
  destruct (find_group s b g) eqn:Fg; [discriminate|].
  destruct (negb (parent <? g)) eqn:Epg; [discriminate|]. destruct (MAX_JOB_GROUPS_DEPTH <? _); [discriminate|].
  intros E; injection E as <-. split; [|reflexivity]. unfold create_group_rows. cbn [negb].
  pose proof (si_g s (proj1 H)) as G.
  assert (Hnew : ~ In (b, g) (gkl s)) by (intros Hin; apply find_group_gkl in Hin; exact (Hin Fg)).
  assert (Hb : b < next_batch s).
  { apply find_batch_some_iff, blook_in in Hbt. destruct Hbt as (u0 & p0 & Hin). apply (si_fresh s (proj1 H) _ _ _ Hin). }
  set (copied := map (fun r : Z * Z * Z * Z => let '(_, _, a, lvl) := r in (b, g, a, lvl + 1)) (anc_rows s b parent)).
  eapply (BInv_grow s _ [(b, g)] [] (copied ++ [(b, g, g, 0)]) H); try reflexivity.
  - unfold gkl. cbn. rewrite map_app. reflexivity.
  - rewrite app_nil_r. reflexivity.
  - intros ? ? ? [].
  - intros b0 g0 [E | []]. injection E as <- <-. split; [exact Hnew | cbn; exact Hb].
  - intros b0 g0 a x Hin. apply in_app_or in Hin. destruct Hin as [Hin | [E | []]].
    + unfold copied in Hin. apply in_map_iff in Hin. destruct Hin as ([[[b1 g1] a1] l1] & E & Hr). injection E as <- <- <- _.
      split; [left; reflexivity|].
      unfold anc_rows in Hr. apply filter_In in Hr. destruct Hr as [Hr Hk].
      assert (b1 = b) by lia. assert (g1 = parent) by lia. subst b1 g1.
      destruct (gi_ref s G _ _ _ _ Hr) as [_ Hle]. lia.
    + injection E as <- <- <- _. split; [left; reflexivity | lia].
  - intros b0 g0 [E | []]. injection E as <- <-. rewrite aids_app. unfold copied. rewrite aids_copied, !Z.eqb_refl. cbn [andb].
    unfold aids. cbn [filter]. rewrite !Z.eqb_refl. cbn [andb map].
    change (map (fun r : Z * Z * Z * Z => let '(_, _, a, _) := r in a) (anc_rows s b parent)) with (anc_ids s b parent).
    apply NoDup_snoc; [apply (gi_nodup s G)|].
    intros Hin. rewrite anc_ids_aids in Hin. apply in_aids in Hin. destruct Hin as (x & Hx).
    destruct (gi_ref s G _ _ _ _ Hx) as [_ Hle]. lia.
Qed.

Lemma fold_create_one_group_none b u sg gss : fold_left (create_one_group b u sg) gss None = None.
Proof. induction gss as [|g gss IH]; cbn [fold_left]; [reflexivity | exact IH]. Qed.

Lemma BInv_fold_create_groups b u sg gss : forall s s',
  BInv s -> find_batch s b <> None -> fold_left (create_one_group b u sg) gss (Some s) = Some s' -> BInv s'.
Proof.
  induction gss as [|g gss IH]; intros s s' H Hb; cbn [fold_left].
  - intros E; injection E as <-; exact H.
  - destruct (create_one_group b u sg (Some s) g) as [s1|] eqn:E1.
    + destruct (BInv_create_one_group _ _ _ _ _ _ H Hb E1) as [H1 B1].
      apply IH; [exact H1 | unfold find_batch; rewrite B1; exact Hb].
    + rewrite fold_create_one_group_none. discriminate.
Qed.

Lemma BInv_create_groups s b u user gss : BInv s -> BInv (fst (do_create_groups s b u user gss)).
Proof.
  intros H. unfold do_create_groups. peel H.
  eapply BInv_fold_create_groups; [exact H | | eassumption].
  match goal with Hf : find_batch s b = Some _ |- _ => rewrite Hf end. discriminate.
Qed.

(* ------------------------------------------------------------------ create_jobs *)

Lemma insert_verdict_range s b js seen :
  let v := insert_verdict s b js seen in v = 0 \/ v = 1 \/ v = 2 \/ v = 3.
Proof.
  revert seen; induction js as [|x r IH]; intros seen; cbn [insert_verdict]; cbv zeta; [auto|].
  destruct (group_cancelled _ _ _); [auto|]. destruct (_ || _); [auto|].
  destruct (find_group _ _ _); [apply IH | auto].
Qed.

Lemma insert_verdict_ok s b js : forall seen, insert_verdict s b js seen = 0 ->
  (forall x, In x js -> ~ In (j_id x) seen /\ find_job s b (j_id x) = None /\ find_group s b (j_group x) <> None)
  /\ NoDup (map j_id js).
Proof.
  induction js as [|x r IH]; intros seen; cbn [insert_verdict map].
  - intros _. split; [intros ? [] | constructor].
  - destruct (group_cancelled _ _ _); [discriminate|].
    destruct (existsb (Z.eqb (j_id x)) seen) eqn:Es; [discriminate|]. cbn [orb].
    destruct (find_job s b (j_id x)) eqn:Fj; [discriminate|].
    destruct (find_group s b (j_group x)) eqn:Fg; [|discriminate].
    intros V. destruct (IH _ V) as [Hall Hnd].
    assert (Hx : ~ In (j_id x) seen).
    { intros Hin. assert (existsb (Z.eqb (j_id x)) seen = true) by (apply existsb_exists; exists (j_id x); split; [exact Hin | apply Z.eqb_refl]). congruence. }
    split.
    + intros y [<- | Hy]; [repeat split; [exact Hx | exact Fj | rewrite Fg; discriminate]|].
      destruct (Hall y Hy) as (H1 & H2 & H3). repeat split; [|exact H2 | exact H3].
      intros Hin. apply H1. right. exact Hin.
    + constructor; [|exact Hnd]. intros Hin. apply in_map_iff in Hin. destruct Hin as (y & Ey & Hy).
      destruct (Hall y Hy) as (H1 & _). apply H1. left. symmetry. exact Ey.
Qed.

Lemma NoDup_map_eq {A B} (f : A -> B) l x y : NoDup (map f l) -> In x l -> In y l -> f x = f y -> x = y.
Proof.
  induction l as [|z l IH]; cbn [map]; intros Hnd Hx Hy E; [destruct Hx|].
  inversion Hnd as [|? ? Hn Hnd']; subst.
  destruct Hx as [<- | Hx], Hy as [<- | Hy]; try reflexivity.
  - exfalso. apply Hn. rewrite E. apply in_map, Hy.
  - exfalso. apply Hn. rewrite <- E. apply in_map, Hx.
  - apply IH; assumption.
Qed.

Lemma same_view_stage_job s x : same_view s (stage_job s x).
Proof. sv_refl. Qed.

Lemma BInv_create_jobs s b u user jss : BInv s -> BInv (fst (do_create_jobs s b u user jss)).
Proof.
  intros H. unfold do_create_jobs. cbv zeta.
  repeat (cbn [fst]; try exact H;
          lazymatch goal with
          | |- BInv (fst (match insert_verdict _ _ _ _ with _ => _ end)) => fail
          | _ => peel_step
          end).
  match goal with |- context [insert_verdict ?s0 ?b0 ?l ?seen] =>
    set (js := l); destruct (insert_verdict_range s0 b0 js seen) as [V|[V|[V|V]]]; cbv zeta in V; rewrite V end;
    peel H.
  match goal with |- BInv (fold_left stage_job ?l ?s1) => set (s' := s1) end.
  apply (BInv_same_view s'); [apply same_view_fold; intros; apply same_view_stage_job|].
  apply (BInv_new_jobs s s' (map kg3 js) H); try reflexivity.
  - unfold kgl. cbn. rewrite map_app. reflexivity.
  - intros b' j' g' Hin. apply in_map_iff in Hin. destruct Hin as (x & Ex & Hx).
    destruct (insert_verdict_ok _ _ _ _ V) as [Hall _]. destruct (Hall x Hx) as (_ & Fj & Fg).
    assert (Hb : j_batch x = b).
    { unfold js in Hx. apply in_map_iff in Hx. destruct Hx as (p & <- & Hp). apply in_map_iff in Hp. destruct Hp as (sp & <- & _). reflexivity. }
    unfold kg3 in Ex. injection Ex as <- <- <-. rewrite Hb. repeat split.
    + rewrite <- jlook_kgl, Fj. reflexivity.
    + apply find_group_gkl. exact Fg.
    + apply find_batch_some_iff. match goal with Hf : find_batch s b = Some _ |- _ => rewrite Hf end. discriminate.
  - intros b' j' g1 g2 H1 H2. apply in_map_iff in H1; apply in_map_iff in H2.
    destruct H1 as (x & Ex & Hx), H2 as (y & Ey & Hy).
    destruct (insert_verdict_ok _ _ _ _ V) as [_ Hnd].
    unfold kg3 in Ex, Ey. injection Ex as _ Ex1 <-. injection Ey as _ Ey1 <-.
    rewrite (NoDup_map_eq j_id js x y Hnd Hx Hy) by congruence. reflexivity.
Qed.

(* ------------------------------------------------------------------ commit, cancel, delete *)

Lemma recompute_job_keys s x :
  j_batch (recompute_job s x) = j_batch x /\ j_id (recompute_job s x) = j_id x /\ j_group (recompute_job s x) = j_group x.
Proof. repeat split; reflexivity. Qed.

Lemma BInv_commit_proc s b u : BInv s -> BInv (fst (do_commit_proc s b u)).
Proof.
  intros H. unfold do_commit_proc. cbv zeta.
  repeat (cbn [fst]; try exact H;
          lazymatch goal with
          | |- BInv (fst (if negb (0 <? _) then _ else _)) => fail
          | _ => peel_step
          end).
  match goal with |- context [negb (0 <? ?n)] => destruct (negb (0 <? n)) end; [cbn [fst]; sv_done H|].
  (* s4: the state before the jobs of a later update are recomputed *)
  match goal with |- context [fold_left ?f (staging s) ?s3] => set (s4 := fold_left f (staging s) s3) end.
  assert (H4 : BInv s4).
  { apply (BInv_same_view s); [|exact H].
    eapply same_view_trans; [|apply same_view_fold; intros st kv; sv_cases].
    eapply same_view_trans; [|apply same_view_map_groups; intros g; destruct (g_batch g =? b); [destruct (is_nil _)|]; reflexivity].
    eapply same_view_trans; [|apply same_view_map_batches; intros x; destruct (b_id x =? b); reflexivity].
    sv_refl. }
  destruct (u =? 1); cbn [fst]; [exact H4|].
  match goal with |- BInv (fold_left _ (map ?g ?targets) s4) =>
    apply (BInv_fold_jobs _ fst (map g targets)) end; [|exact H4|].
  - intros st on Hon Hst Hin. apply in_map_iff in Hon. destruct Hon as (x & <- & _). cbn [fst snd] in *.
    apply same_view_update_job; [apply Hst | exact Hin | reflexivity | reflexivity | reflexivity].
  - intros on Hin. apply in_map_iff in Hin. destruct Hin as (x & <- & Hx). cbn [fst].
    apply filter_In in Hx. destruct Hx as [Hx _]. apply in_map. exact Hx.
Qed.

Lemma BInv_commit s b u user : BInv s -> BInv (fst (do_commit s b u user)).
Proof.
  intros H. unfold do_commit.
  repeat (cbn [fst]; try exact H;
          lazymatch goal with
          | |- BInv (fst (do_commit_proc _ _ _)) => fail
          | _ => peel_step
          end).
  apply BInv_commit_proc, H.
Qed.

Lemma same_view_cancel_proc s b g : same_view s (cancel_proc s b g).
Proof.
  unfold cancel_proc. destruct (group_cancelled s b g); [apply same_view_refl|]. cbv zeta.
  match goal with |- same_view s (?X <| cancellable := ?c |> <| marks ::= ?m |>) =>
    apply (same_view_trans s X); [|sv_refl] end.
  apply same_view_fold. intros st kv. sv_cases.
Qed.

Lemma BInv_cancel_group s b g : BInv s -> BInv (fst (do_cancel_group s b g)).
Proof.
  intros H. unfold do_cancel_group. peel H. apply (BInv_same_view s); [apply same_view_cancel_proc | exact H].
Qed.

Lemma BInv_delete_batch s b : BInv s -> BInv (fst (do_delete_batch s b)).
Proof.
  intros H. unfold do_delete_batch. peel H. apply (BInv_same_view s); [|exact H].
  eapply same_view_trans; [apply same_view_cancel_proc|].
  apply same_view_map_batches. intros x. destruct (b_id x =? b); reflexivity.
Qed.

(* ------------------------------------------------------------------ instances, clean-up *)

Lemma BInv_new_instance s n ic c p : BInv s -> BInv (fst (do_new_instance s n ic c p)).
Proof. intros H. unfold do_new_instance. peel H; sv_done H. Qed.

Lemma BInv_activate s n : BInv s -> BInv (fst (do_activate s n)).
Proof. intros H. unfold do_activate. peel H; sv_done H. Qed.

Lemma BInv_mark_deleted s n : BInv s -> BInv (fst (do_mark_deleted s n)).
Proof. intros H. unfold do_mark_deleted. peel H; sv_done H. Qed.

Lemma BInv_cleanup_staging s : BInv s -> BInv (fst (do_cleanup_staging s)).
Proof. intros H. unfold do_cleanup_staging. cbn [fst]. sv_done H. Qed.

Lemma BInv_cleanup_cancellable s : BInv s -> BInv (fst (do_cleanup_cancellable s)).
Proof. intros H. unfold do_cleanup_cancellable. cbn [fst]. sv_done H. Qed.

(* ------------------------------------------------------------------ driver messages *)

Lemma add_attempt_jobs s b j a i c s1 d : add_attempt s b j a i c = Some (s1, d) -> jobs s1 = jobs s.
Proof.
  unfold add_attempt. destruct (find_attempt s b j a); [intros E; injection E as <- _; reflexivity|]. cbv zeta.
  destruct (find_inst _ i) as [x|].
  - intros E; injection E as <- _. destruct (ilive (i_state x)); reflexivity.
  - destruct (i =? -1); [|discriminate]. intros E; injection E as <- _. reflexivity.
Qed.

Lemma update_attempt_jobs s o req : jobs (update_attempt s o req) = jobs s.
Proof. pose proof (update_attempt_frame s o req) as F. cbv zeta in F. apply F. Qed.

(** a row update of the job found under (b, j) that keeps key and group *)
Lemma BInv_update_found_job st s b j x n :
  BInv st -> jobs st = jobs s -> find_job s b j = Some x ->
  j_batch n = j_batch x -> j_id n = j_id x -> j_group n = j_group x ->
  BInv (update_job st x n).
Proof.
  intros H Hj Hf K1 K2 K3. apply BInv_update_job; try assumption.
  unfold kgl. rewrite Hj. apply (find_job_kg3 s b j x Hf).
Qed.

Lemma BInv_deactivate s n r t : BInv s -> BInv (fst (do_deactivate s n r t)).
Proof.
  intros H. unfold do_deactivate. peel H.
  match goal with |- BInv (?X <| insts ::= _ |>) => apply (BInv_same_view X); [sv_refl|] end.
  match goal with |- BInv (fold_left ?f (jobs ?s1) ?s1') => assert (H1 : BInv s1) end.
  { apply BInv_fold; [|exact H]. intros st a Hst. destruct (a_inst a =? n); [|exact Hst].
    destruct (find_attempt st (a_batch a) (a_job a) (a_id a)) as [cur|] eqn:Fa; [|exact Hst].
    eapply BInv_update_found; [exact Hst | exact Fa | reflexivity | reflexivity | reflexivity]. }
  apply (BInv_fold_jobs _ (fun x => x)); [|exact H1|intros x Hx; apply in_map; exact Hx].
  intros st x _ Hst Hin. destruct (j_attempt x) as [a|]; [|apply same_view_refl].
  destruct (find_attempt st (j_batch x) (j_id x) a) as [at_|]; [|apply same_view_refl].
  destruct (_ && _); [|apply same_view_refl].
  apply same_view_update_job; [apply Hst | exact Hin | reflexivity | reflexivity | reflexivity].
Qed.

Lemma BInv_schedule s b j a i : BInv s -> BInv (fst (do_schedule s b j a i)).
Proof.
  intros H. unfold do_schedule. destruct (find_job s b j) as [x|] eqn:Fj; [|exact H].
  destruct (is_job_cancelled s x) as [cancel|]; [|exact H]. cbv zeta.
  destruct (add_attempt s b j a i (j_cores x)) as [[s1 d0]|] eqn:Ea; [|exact H].
  assert (H1 : BInv s1) by (eapply BInv_add_attempt; [exact H | rewrite Fj; discriminate | exact Ea]).
  destruct (_ && _); cbn [fst]; [|exact H1].
  eapply BInv_update_found_job; [exact H1 | eapply add_attempt_jobs; exact Ea | exact Fj | reflexivity | reflexivity | reflexivity].
Qed.

Lemma BInv_set_times s b j a t : BInv s -> BInv (set_times s b j a t).
Proof.
  intros H. unfold set_times. destruct (find_attempt s b j a) as [cur|] eqn:Fa; [|exact H].
  eapply BInv_update_found; [exact H | exact Fa | reflexivity | reflexivity | reflexivity].
Qed.

Lemma set_times_jobs s b j a t : jobs (set_times s b j a t) = jobs s.
Proof. unfold set_times. destruct (find_attempt s b j a); [apply update_attempt_jobs | reflexivity]. Qed.

Lemma BInv_mark_creating_or_started c s b j a i t : BInv s -> BInv (fst (do_mark_creating_or_started c s b j a i t)).
Proof.
  intros H. unfold do_mark_creating_or_started. destruct (find_job s b j) as [x|] eqn:Fj; [|exact H].
  destruct (is_job_cancelled s x) as [cancel|]; [|exact H].
  destruct (add_attempt s b j a i (j_cores x)) as [[s1 d0]|] eqn:Ea; [|exact H]. cbv zeta.
  assert (H1 : BInv s1) by (eapply BInv_add_attempt; [exact H | rewrite Fj; discriminate | exact Ea]).
  assert (H2 : BInv (set_times s1 b j a t)) by (apply BInv_set_times, H1).
  destruct (_ && _); cbn [fst]; [|exact H2].
  eapply BInv_update_found_job; [exact H2 | rewrite set_times_jobs; eapply add_attempt_jobs; exact Ea | exact Fj | | | ];
    destruct c; reflexivity.
Qed.

Lemma BInv_unschedule s b j a i t r : BInv s -> BInv (fst (do_unschedule s b j a i t r)).
Proof.
  intros H. unfold do_unschedule. destruct (find_job s b j) as [x|] eqn:Fj; [|peel H]. cbv zeta.
  set (s1 := match find_attempt s b j a with
             | Some c => update_attempt s c (c <| a_rollup := Some t |> <| a_end := Some t |> <| a_reason := Some r |>)
             | None => s end).
  assert (H1 : BInv s1 /\ jobs s1 = jobs s).
  { unfold s1. destruct (find_attempt s b j a) as [c|] eqn:Fa; [|split; [exact H | reflexivity]].
    split; [|apply update_attempt_jobs].
    eapply BInv_update_found; [exact H | exact Fa | reflexivity | reflexivity | reflexivity]. }
  destruct H1 as [H1 J1].
  match goal with |- context [if ?g then match find_inst s1 i with _ => _ end else s1] =>
    set (s2 := if g then match find_inst s1 i with
                         | Some y => s1 <| insts ::= replace_inst (y <| i_free := i_free y + j_cores x |>) |>
                         | None => s1 end else s1) end.
  assert (H2 : BInv s2 /\ jobs s2 = jobs s).
  { unfold s2. destruct (_ && _); [|split; assumption]. destruct (find_inst s1 i); [|split; assumption].
    split; [apply (BInv_same_view s1); [sv_refl | exact H1] | exact J1]. }
  destruct H2 as [H2 J2].
  peel_step; cbn [fst]; [|exact H2].
  eapply BInv_update_found_job; [exact H2 | exact J2 | exact Fj | reflexivity | reflexivity | reflexivity].
Qed.

Lemma BInv_release_children s b j succ : BInv s -> BInv (release_children s b j succ).
Proof.
  intros H. unfold release_children. cbv zeta. apply BInv_fold; [|exact H].
  intros st c Hst. destruct (find_job st b c) as [x|] eqn:Fj; [|exact Hst].
  destruct (negb _); [exact Hst|].
  apply BInv_update_job; [exact Hst | apply (find_job_kg3 st b c x Fj) | reflexivity | reflexivity | reflexivity].
Qed.

Lemma same_view_finish_groups s b g : same_view s (finish_groups s b g).
Proof.
  unfold finish_groups. cbv zeta. apply same_view_map_groups. intros x. destruct (_ && _); reflexivity.
Qed.

Lemma BInv_mark_complete s b j a i ns st en rs : BInv s -> BInv (fst (do_mark_complete s b j a i ns st en rs)).
Proof.
  intros H. unfold do_mark_complete. destruct (find_job s b j) as [x|] eqn:Fj; [|peel H]. cbv zeta.
  destruct (if a =? -1 then Some (s, 0) else add_attempt s b j a i (j_cores x)) as [[s1 d0]|] eqn:Ea; [|exact H].
  assert (H1 : BInv s1 /\ jobs s1 = jobs s).
  { destruct (a =? -1).
    - injection Ea as <- _. split; [exact H | reflexivity].
    - split; [eapply BInv_add_attempt; [exact H | rewrite Fj; discriminate | exact Ea] | eapply add_attempt_jobs; exact Ea]. }
  destruct H1 as [H1 J1].
  set (cur := if a =? -1 then None else find_attempt s1 b j a).
  set (s2 := match cur with
             | Some c => update_attempt s1 c (c <| a_start := st |> <| a_rollup := en |> <| a_end := en |> <| a_reason := Some rs |>)
             | None => s1 end).
  assert (H2 : BInv s2 /\ jobs s2 = jobs s).
  { unfold s2. destruct cur as [c|] eqn:Ec; [|split; assumption].
    split; [|rewrite update_attempt_jobs; exact J1].
    unfold cur in Ec. destruct (a =? -1); [discriminate|].
    eapply BInv_update_found; [exact H1 | exact Ec | reflexivity | reflexivity | reflexivity]. }
  destruct H2 as [H2 J2].
  match goal with |- context [if ?g then match find_inst s2 i with _ => _ end else s2] =>
    set (s3 := if g then match find_inst s2 i with
                         | Some y => s2 <| insts ::= replace_inst (y <| i_free := i_free y + j_cores x |>) |>
                         | None => s2 end else s2) end.
  assert (H3 : BInv s3 /\ jobs s3 = jobs s).
  { unfold s3. destruct (_ && _); [|split; assumption]. destruct (find_inst s2 i); [|split; assumption].
    split; [apply (BInv_same_view s2); [sv_refl | exact H2] | exact J2]. }
  destruct H3 as [H3 J3].
  peel_step; cbn [fst]; [exact H3|].
  peel_step; cbn [fst]; [|peel_step; cbn [fst]; exact H3].
  apply BInv_release_children.
  eapply BInv_same_view; [apply same_view_finish_groups|].
  set (n := x <| j_state := ns |> <| j_attempt := (if a =? -1 then None else Some a) |>).
  assert (H4 : BInv (update_job s3 x n)).
  { eapply BInv_update_found_job; [exact H3 | exact J3 | exact Fj | reflexivity | reflexivity | reflexivity]. }
  match goal with |- BInv (if ?c then ?X <| batches ::= map ?f |> else ?X) =>
    assert (H5 : BInv X); [|destruct c; [|exact H5];
      apply (BInv_same_view X); [apply same_view_map_batches; intros bt; destruct (b_id bt =? b); reflexivity | exact H5]] end.
  apply (BInv_same_view (update_job s3 x n)); [|exact H4].
  apply same_view_map_groups. intros g. destruct ((g_batch g =? b) && existsb _ _); reflexivity.
Qed.

Lemma add_one_resource_jobs b j a s rq : jobs (add_one_resource b j a s rq) = jobs s.
Proof.
  destruct rq as [r q]. unfold add_one_resource. destruct (existsb _ _); [reflexivity|]. cbv zeta.
  destruct (_ =? 0); [reflexivity|].
  match goal with |- jobs (bill ?s1 ?b ?j ?d ?rq) = _ => pose proof (bill_frame s1 b j d rq) as F end.
  cbv zeta in F. destruct F as (_&_&_&_&_&F6&_). rewrite F6. reflexivity.
Qed.

Lemma BInv_add_resources s b j a rs : BInv s -> BInv (fst (do_add_resources s b j a rs)).
Proof.
  intros H. unfold do_add_resources. destruct (is_nil rs); [exact H|]. destruct (existsb _ rs); [exact H|].
  destruct (find_attempt s b j a) as [c|] eqn:Fa; [|exact H]. cbn [fst].
  assert (Hj : find_job s b j <> None).
  { rewrite find_attempt_eq in Fa. apply find_akey_sound in Fa. destruct Fa as (Hin & <- & <- & _).
    apply find_job_some_iff. apply (si_att s (proj1 H)), Hin. }
  assert (G : forall l st, BInv st -> jobs st = jobs s -> BInv (fold_left (add_one_resource b j a) l st)).
  { induction l as [|rq l IH]; intros st Hst Js; cbn [fold_left]; [exact Hst|].
    apply IH; [|rewrite add_one_resource_jobs; exact Js].
    apply BInv_add_one_resource; [exact Hst|]. unfold find_job. rewrite Js. exact Hj. }
  apply G; [exact H | reflexivity].
Qed.

Lemma BInv_billing_update s t atts : BInv s -> BInv (fst (do_billing_update s t atts)).
Proof.
  intros H. unfold do_billing_update. cbn [fst]. apply BInv_fold; [|exact H].
  intros st [[b j] a] Hst. destruct (find_attempt st b j a) as [cur|] eqn:Fa; [|exact Hst].
  eapply BInv_update_found; [exact Hst | exact Fa | reflexivity | reflexivity | reflexivity].
Qed.

(* ------------------------------------------------------------------ every step *)

Theorem BInv_step s o : BInv s -> BInv (fst (step s o)).
Proof.
  intros H. destruct o; cbn [step].
  - apply BInv_create_batch, H.
  - apply BInv_create_update, H.
  - apply BInv_create_groups, H.
  - apply BInv_create_jobs, H.
  - apply BInv_commit, H.
  - apply BInv_cancel_group, H.
  - apply BInv_delete_batch, H.
  - apply BInv_new_instance, H.
  - apply BInv_activate, H.
  - apply BInv_deactivate, H.
  - apply BInv_mark_deleted, H.
  - apply BInv_schedule, H.
  - apply BInv_unschedule, H.
  - apply BInv_mark_creating_or_started, H.
  - apply BInv_mark_creating_or_started, H.
  - apply BInv_mark_complete, H.
  - apply BInv_add_resources, H.
  - apply BInv_billing_update, H.
  - apply BInv_cleanup_staging, H.
  - apply BInv_cleanup_cancellable, H.
Qed.
