(** C04 — jobs follow the lifecycle and complete at most once.  Property theorems only (proofs: JobChange.v, on top of
    the dependency invariant [DInv] of DepsDef.v / Deps.v).

    This file proves the LIFECYCLE half of the property: the per-transaction transition relation, absorbing terminal
    states, and "a Pending job never starts or completes".  The TALLY half ("each job is counted exactly once in its
    batch's and groups' completed / succeeded / failed / cancelled tallies however often or late completion is reported")
    is the subject of the C06 tallies invariant and is proved in Props_C06.v once that file exists; what this file
    contributes to it is [C04_step_job_change]'s last-but-one clause: a row becomes terminal only by a completion
    message for that very job, and (terminal states being absorbing) at most once.

    Vocabulary (Model.v / Legal.v / DepsDef.v / Deps.v / JobChange.v):
    [good s o]             transaction [o] is a legal driver / worker message (Legal.v) or a schema-valid client request;
    [good_history ops]     every transaction of the history is good in the state in which it is executed;
    [DInv s], [DAux s]     the dependency invariant and its auxiliary invariant: hold in every state of every good history
                           ([Deps.DInv_reachable], [DepsAux.DAux_run]);
    [static x x']          rows x and x' agree on batch, id, update, group, always_run, cores, inst_coll;
    [allowed a b]          the lifecycle relation of the property text: a = b; Pending -> Ready;
                           Ready -> Creating | Running | terminal; Creating -> Running | Ready | terminal;
                           Running -> Ready | terminal; nothing out of a terminal state ([allowedb] is the same as a table);
    [start_op o b j]       o is ScheduleJob / MarkCreating / MarkStarted for job (b, j);
    [attempt_op o b j x']  o is ScheduleJob / MarkCreating / MarkStarted / UnscheduleJob / MarkComplete for job (b, j), or
                           a DeactivateInstance (and then row x' is Ready without attempt);
    [complete_op o b j]    o is MarkComplete for job (b, j);
    [commit_op o b u]      o is Commit of update (b, u);
    [is_job_cancelled]     the SQL function of that name; [jcommitted s x]: the update of row x is committed. *)
From HailV Require BatchDB.Tally BatchDB.TallyInv.
From HailV Require Import Common.Prelude BatchDB.Model BatchDB.Tables BatchDB.JobsWF BatchDB.Legal BatchDB.DepsDef
  BatchDB.DepsStruct BatchDB.Deps BatchDB.JobChange.
Open Scope Z_scope.

(** The relation [allowed] is the explicit 8 x 8 table [allowedb]. *)
Theorem C04_allowed_table : forall a b, allowed a b <-> allowedb a b = true.
Proof. exact allowed_iff. Qed.
Print Assumptions C04_allowed_table.

(** One good transaction from ANY state satisfying the invariants: every existing job keeps existing with its immutable
    columns; its state pair is [allowed]; the cancelled mark is never taken back; it ENTERS Creating / Running only by a
    schedule / creating / started message for this very job, which is then not cancelled and belongs to a committed update;
    its attempt id changes only by a driver / worker message for this very job or by an instance deactivation; it becomes
    terminal only by a completion message for this very job; and a row of an uncommitted update is not touched at all
    except by the commit of that update. *)
Theorem C04_step_job_change : forall s o b j x,
  DInv s -> DAux s -> good s o -> find_job s b j = Some x ->
  exists x', find_job (fst (step s o)) b j = Some x' /\ static x x' /\
    allowed (j_state x) (j_state x') /\
    (j_cancelled x = true -> j_cancelled x' = true) /\
    (j_state x' = Creating \/ j_state x' = Running -> j_state x' <> j_state x ->
       start_op o b j /\ is_job_cancelled s x = Some false /\ jcommitted s x = true) /\
    (j_attempt x' <> j_attempt x -> attempt_op o b j x') /\
    (terminal (j_state x') = true -> j_state x' <> j_state x -> complete_op o b j) /\
    (x' = x \/ jcommitted s x = true \/ commit_op o b (j_update x)).
Proof. exact step_job_change. Qed.
Print Assumptions C04_step_job_change.

(** All good histories: between any two consecutive states every existing job keeps existing and its state pair is
    [allowed] (duplicated, reordered and stale-attempt messages are ordinary members of the histories). *)
Theorem C04_transitions : forall ops o b j x,
  good_history (ops ++ [o]) -> find_job (run ops) b j = Some x ->
  exists x', find_job (run (ops ++ [o])) b j = Some x' /\ static x x' /\ allowed (j_state x) (j_state x').
Proof. exact transitions_allowed. Qed.
Print Assumptions C04_transitions.

(** Terminal states are absorbing: a job that is terminal after a good prefix has the same state after every good
    extension of that prefix (so it completes at most once, however often or late completion is reported). *)
Theorem C04_terminal_absorbing : forall ops ext b j x,
  good_history (ops ++ ext) -> find_job (run ops) b j = Some x -> terminal (j_state x) = true ->
  exists x', find_job (run (ops ++ ext)) b j = Some x' /\ static x x' /\ j_state x' = j_state x.
Proof. exact terminal_absorbing. Qed.
Print Assumptions C04_terminal_absorbing.

(** A Pending job never starts or completes: one transaction leaves it Pending or makes it Ready ... *)
Theorem C04_pending_never_starts : forall ops o b j x,
  good_history (ops ++ [o]) -> find_job (run ops) b j = Some x -> j_state x = Pending ->
  exists x', find_job (run (ops ++ [o])) b j = Some x' /\ static x x' /\ (j_state x' = Pending \/ j_state x' = Ready).
Proof. exact pending_never_starts. Qed.
Print Assumptions C04_pending_never_starts.

(** ... and if it is seen in any other state later on, it has been Ready in between. *)
Theorem C04_pending_passes_ready : forall ops ext b j x x',
  good_history (ops ++ ext) -> find_job (run ops) b j = Some x -> j_state x = Pending ->
  find_job (run (ops ++ ext)) b j = Some x' -> j_state x' <> Pending ->
  exists ext1 ext2 y, ext = ext1 ++ ext2 /\ find_job (run (ops ++ ext1)) b j = Some y /\ j_state y = Ready.
Proof. exact pending_passes_ready. Qed.
Print Assumptions C04_pending_passes_ready.

(** The TALLY half.  After every good history the completed / succeeded / failed / cancelled numbers of every job
    group (the batch's numbers are those of its root group, [Props_C06.C06_batch_counts]) are the NUMBER OF ROWS of the
    jobs table that lie in the group's subtree and are in the corresponding state ([TallyInv.subtree] is a filter of the
    jobs table and job keys are unique, so a job is one row and is counted once in each tally of each group above it and
    in no other group).  Since a row's terminal state never changes ([C04_terminal_absorbing]) and these equalities hold
    after EVERY history — with any number of repeated, late or stale completion reports in it — a job is counted exactly
    once however often or late completion is reported ... *)
Theorem C04_tallies_count_each_job_once : forall ops, good_history ops ->
  let s := run ops in
  forall gr, In gr (groups s) ->
    let sub := TallyInv.subtree s (g_batch gr) (g_id gr) in
    g_njobs gr = Z.of_nat (length sub) /\ g_ncompleted gr = TallyInv.count terminal sub /\ g_nsucc gr = TallyInv.count Tally.q_succ sub /\
    g_nfailed gr = TallyInv.count Tally.q_fail sub /\ g_ncancelled gr = TallyInv.count Tally.q_canc sub.
Proof. exact TallyInv.reach_counts. Qed.
Print Assumptions C04_tallies_count_each_job_once.

(** ... and, from ANY state, a completion report for a job that is already terminal, or that carries an attempt id other
    than the job's current one, changes no job, group or batch row at all (answer: the old state, rc 2, or error 1452). *)
Theorem C04_repeated_or_stale_completion_changes_nothing : forall s b j a i ns st en r x,
  find_job s b j = Some x ->
  terminal (j_state x) = true \/ (exists e, j_attempt x = Some e /\ a <> -1 /\ e <> a) ->
  let res := step s (MarkComplete b j a i ns st en r) in
  groups (fst res) = groups s /\ batches (fst res) = batches s /\ jobs (fst res) = jobs s /\
  (snd res = sql_error 1452 \/ (exists d, snd res = ok [2; d]) \/ (exists d, snd res = ok [0; d; jcode (j_state x)])).
Proof. exact TallyInv.counted_once. Qed.
Print Assumptions C04_repeated_or_stale_completion_changes_nothing.

(** Non-vacuity: [Deps.demo_history] is a good history in which a job is scheduled (Ready -> Running), fails, its child
    gets the cancelled mark, and a job of a second update waits uncommitted (the demo_ examples of JobChange.v). *)
Theorem C04_demo : good_history demo_history /\
  option_map demo_job_view (find_job (run (firstn 7 demo_history)) 1 1) = Some (Ready, false, false, None) /\
  option_map demo_job_view (find_job (run (firstn 8 demo_history)) 1 1) = Some (Running, false, false, Some 1).
Proof. split; [exact demo_history_good | exact demo_schedule_enters]. Qed.
Print Assumptions C04_demo.
