(** C07: cancellation stops work in the cancelled subtree only (lemmas; the theorems are restated in Props_C07.v). *)
From HailV Require Import Common.Prelude BatchDB.Model BatchDB.Tables BatchDB.CMap BatchDB.Legal BatchDB.StepFrame.
From RecordUpdate Require Import RecordSet.
Import RecordSetNotations.
Open Scope Z_scope.

(* ------------------------------------------------------------------ histories from an arbitrary state *)

Definition run_from (s : state) (ops : list op) : state := fold_left (fun s o => fst (step s o)) ops s.

Lemma run_from_app s ops1 ops2 : run_from s (ops1 ++ ops2) = run_from (run_from s ops1) ops2.
Proof. unfold run_from. apply fold_left_app. Qed.

Lemma run_run_from ops : run ops = run_from init ops.
Proof. reflexivity. Qed.

Lemma legal_from_app s ops1 ops2 : legal_from s (ops1 ++ ops2) <-> legal_from s ops1 /\ legal_from (run_from s ops1) ops2.
Proof.
  revert s. induction ops1 as [|o r IH]; intros s; cbn [app legal_from run_from fold_left]; [tauto|].
  rewrite IH. unfold run_from. tauto.
Qed.

Lemma legal_from_terminal s ops : legal_from s ops -> Forall op_terminal ops.
Proof.
  revert s. induction ops as [|o r IH]; intros s H; constructor; cbn [legal_from] in H; destruct H as [H1 H2].
  - eapply legal_op_terminal; exact H1.
  - eapply IH; exact H2.
Qed.

Lemma run_from_invariant (P : state -> Prop) :
  (forall s o, P s -> P (fst (step s o))) -> forall ops s, P s -> P (run_from s ops).
Proof. intros H ops. induction ops as [|o r IH]; intros s Hs; cbn [run_from fold_left]; [exact Hs | apply IH, H, Hs]. Qed.

Lemma run_from_grow s ops : grow s (run_from s ops).
Proof.
  revert s. induction ops as [|o r IH]; intros s; cbn [run_from fold_left]; [apply grow_refl|].
  eapply grow_trans; [apply step_grow | apply IH].
Qed.

(* ------------------------------------------------------------------ marks and ancestor rows only grow *)

Lemma group_cancelled_iff s b g :
  group_cancelled s b g = true <-> exists a, In a (anc_ids s b g) /\ marked s b a = true.
Proof.
  unfold group_cancelled, n_cancelled_anc. split.
  - intros H. apply Z.ltb_lt in H. destruct (filter (marked s b) (anc_ids s b g)) as [|a l] eqn:E; [cbn in H; lia|].
    exists a. apply filter_In. rewrite E. left. reflexivity.
  - intros (a & Hin & Hm). apply Z.ltb_lt.
    assert (Hf : In a (filter (marked s b) (anc_ids s b g))) by (apply filter_In; auto).
    destruct (filter (marked s b) (anc_ids s b g)); [contradiction | cbn [length]; lia].
Qed.

Lemma marked_grow s s' b g : grow s s' -> marked s b g = true -> marked s' b g = true.
Proof.
  intros G H. destruct (gr_marks _ _ G) as (m & E). unfold marked in *. rewrite E, existsb_app, H. reflexivity.
Qed.

Lemma anc_ids_grow s s' b g : grow s s' -> exists e, anc_ids s' b g = anc_ids s b g ++ e.
Proof.
  intros G. destruct (gr_ancestors _ _ G) as (a & E). unfold anc_ids, anc_rows. rewrite E, filter_app, map_app.
  eexists. reflexivity.
Qed.

(** once a group is under a cancelled group it stays so *)
Lemma group_cancelled_grow s s' b g : grow s s' -> group_cancelled s b g = true -> group_cancelled s' b g = true.
Proof.
  intros G H. apply group_cancelled_iff in H. destruct H as (a & Hin & Hm). apply group_cancelled_iff.
  exists a. split; [|eapply marked_grow; eassumption].
  destruct (anc_ids_grow s s' b g G) as (e & ->). apply in_or_app. left. exact Hin.
Qed.

Lemma descendant_grow s s' b h g : grow s s' -> In g (anc_ids s b h) -> In g (anc_ids s' b h).
Proof. intros G H. destruct (anc_ids_grow s s' b h G) as (e & ->). apply in_or_app. left. exact H. Qed.

(* ------------------------------------------------------------------ (1) no new work *)

Lemma find_app_some l new b j x :
  find (jkey b j) l = Some x -> find (jkey b j) (l ++ new) = Some x.
Proof. intros H. rewrite find_jkey_app, H. reflexivity. Qed.

Lemma jrel_find_some (P : job -> Prop) l0 l b j x :
  jrel P l0 l -> find (jkey b j) l0 = Some x -> exists y, find (jkey b j) l = Some y.
Proof.
  intros (K & _) Fx. destruct (find (jkey b j) l) as [y|] eqn:Fy; [eauto|].
  exfalso. apply find_jkey_none in Fy. rewrite K in Fy. apply Fy.
  apply find_jkey_sound in Fx. destruct Fx as (Hin & B & J). apply in_map_iff. exists x. split; [unfold jk; rewrite B, J; reflexivity | exact Hin].
Qed.

(** one transaction, arbitrary state: the row of a non-always-run job under a cancelled group is left as it is,
    or ends up outside Creating / Running *)
Theorem no_new_work_step s o b j x y :
  op_terminal o ->
  find_job s b j = Some x -> j_always x = false -> group_cancelled s b (j_group x) = true ->
  find_job (fst (step s o)) b j = Some y ->
  y = x \/ idle y.
Proof.
  intros T Fx Ar Gc Fy. destruct (step_jobs s o) as (l & new & E & R & _ & _).
  rewrite find_job_eq in Fx, Fy. rewrite E in Fy.
  destruct (jrel_find_some _ _ _ _ _ _ R Fx) as (y' & Fy'). rewrite (find_app_some _ _ _ _ _ Fy') in Fy. injection Fy as ->.
  destruct R as (_ & Hf & _). destruct (Hf _ _ _ Fy') as (x' & Fx' & [-> | Py]).
  - left. congruence.
  - destruct (Py T) as [Hi | (x'' & Fx'' & Rn & _)]; [right; exact Hi|]. exfalso.
    apply find_jkey_sound in Fy'. destruct Fy' as (_ & B & J). rewrite B, J, find_job_eq, Fx in Fx''. injection Fx'' as <-.
    apply find_jkey_sound in Fx. destruct Fx as (_ & Bx & _).
    destruct Rn as [A | (_ & A)]; [congruence | rewrite Bx in A; congruence].
Qed.

Lemma NoDup_app_intro {A} (l1 l2 : list A) :
  NoDup l1 -> NoDup l2 -> (forall x, In x l1 -> In x l2 -> False) -> NoDup (l1 ++ l2).
Proof.
  intros N1 N2 D. induction N1 as [|a l Ha N1 IH]; cbn [app]; [exact N2|].
  constructor.
  - intros Hin. apply in_app_or in Hin. destruct Hin as [Hin|Hin]; [contradiction | apply (D a); [left; reflexivity | exact Hin]].
  - apply IH. intros x H1 H2. apply (D x); [right; exact H1 | exact H2].
Qed.

(** unique job keys: an invariant of every history *)
Lemma jobs_unique_step s o : jobs_unique s -> jobs_unique (fst (step s o)).
Proof.
  unfold jobs_unique. intros U. destruct (step_jobs s o) as (l & new & E & (K & _) & F & ND).
  rewrite E, map_app, K. apply NoDup_app_intro; [exact U | exact ND|].
  intros k Hk Hn. apply in_map_iff in Hn. destruct Hn as (y & <- & Hy).
  rewrite Forall_forall in F. destruct (F y Hy) as (_ & Fn & _). apply find_jkey_none in Fn. apply Fn. exact Hk.
Qed.

Lemma jobs_unique_init : jobs_unique init.
Proof. constructor. Qed.

Lemma jobs_unique_run ops : jobs_unique (run ops).
Proof. apply (run_invariant jobs_unique); [apply jobs_unique_init | apply jobs_unique_step]. Qed.

(** with unique keys: every job persists with its immutable columns *)
Lemma job_persists_step s o b j x :
  jobs_unique s -> find_job s b j = Some x ->
  exists y, find_job (fst (step s o)) b j = Some y /\ static_eq x y.
Proof.
  intros U Fx. destruct (step_jobs s o) as (l & new & E & R & _ & _).
  destruct (jrel_found _ _ _ _ _ _ R U Fx) as (y & Fy & S & _). exists y. split; [|exact S].
  rewrite find_job_eq, E. apply find_app_some. exact Fy.
Qed.

Lemma job_persists s ops b j x :
  jobs_unique s -> find_job s b j = Some x ->
  exists y, find_job (run_from s ops) b j = Some y /\ static_eq x y.
Proof.
  revert s x. induction ops as [|o r IH]; intros s x U Fx; cbn [run_from fold_left].
  - exists x. split; [exact Fx | apply static_eq_refl].
  - destruct (job_persists_step s o b j x U Fx) as (y & Fy & S).
    destruct (IH _ y (jobs_unique_step s o U) Fy) as (z & Fz & S'). exists z. split; [exact Fz | eapply static_eq_trans; eassumption].
Qed.

(** histories: once the group of a non-always-run job is under a cancelled group, no later transaction of any history
    moves the job into Creating or Running *)
Theorem no_new_work_history s ops o b j x :
  jobs_unique s -> Forall op_terminal (ops ++ [o]) ->
  find_job s b j = Some x -> j_always x = false -> group_cancelled s b (j_group x) = true ->
  exists x1, find_job (run_from s ops) b j = Some x1 /\
             forall y, find_job (fst (step (run_from s ops) o)) b j = Some y -> y = x1 \/ idle y.
Proof.
  intros U T Fx Ar Gc. destruct (job_persists s ops b j x U Fx) as (x1 & F1 & S). exists x1. split; [exact F1|].
  intros y Fy. destruct S as (_ & _ & _ & Sg & Sa & _).
  eapply no_new_work_step; [| exact F1 | congruence | | exact Fy].
  - rewrite Forall_forall in T. apply T. apply in_or_app. right. left. reflexivity.
  - rewrite <- Sg. eapply group_cancelled_grow; [apply run_from_grow | exact Gc].
Qed.

(* ------------------------------------------------------------------ (2) no additions *)

(** any transaction, arbitrary state: a job that appears belongs to a group that is not under a cancelled group *)
Theorem no_job_added_step s o b j y :
  find_job s b j = None -> find_job (fst (step s o)) b j = Some y ->
  group_cancelled s b (j_group y) = false /\ (j_state y = Ready \/ j_state y = Pending).
Proof.
  intros Fn Fy. destruct (step_jobs s o) as (l & new & E & (K & _) & F & _).
  rewrite find_job_eq in Fn, Fy. rewrite E, find_jkey_app in Fy.
  assert (Fl : find (jkey b j) l = None).
  { apply find_jkey_none. rewrite K. apply find_jkey_none. exact Fn. }
  rewrite Fl in Fy. apply find_jkey_sound in Fy. destruct Fy as (Hin & B & _).
  rewrite Forall_forall in F. destruct (F y Hin) as (St & _ & Gc & _). rewrite B in Gc. auto.
Qed.

Theorem no_job_added_history s ops o b j y h :
  group_cancelled s b h = true ->
  find_job (run_from s ops) b j = None -> find_job (fst (step (run_from s ops) o)) b j = Some y ->
  j_group y <> h /\ group_cancelled s b (j_group y) = false.
Proof.
  intros Gc Fn Fy. destruct (no_job_added_step _ _ _ _ _ Fn Fy) as (G1 & _).
  assert (G0 : group_cancelled s b (j_group y) = false).
  { destruct (group_cancelled s b (j_group y)) eqn:E; [|reflexivity].
    rewrite (group_cancelled_grow _ _ _ _ (run_from_grow s ops) E) in G1. discriminate. }
  split; [|exact G0]. intros E. rewrite E in G0. congruence.
Qed.

(** a job bunch naming a group under a cancelled group is rejected and changes nothing *)
Theorem create_jobs_under_cancelled s b u user jss up :
  find_update s b u = Some up ->
  (exists x, In x (map fst (cj_specs b u up jss)) /\ group_cancelled s b (j_group x) = true) ->
  let r := step s (CreateJobs b u user jss) in
  fst r = s /\ (snd r = ok [] -> insert_verdict s b (map fst (cj_specs b u up jss)) [] = 2).
Proof.
  intros Fu (x & Hx & Gc). cbv zeta. cbn [step].
  destruct (do_create_jobs_shape_res s b u user jss) as [[E R] | (up' & bt & Fu' & _ & _ & V & _)].
  - split; [exact E|]. intros Ok. destruct R as [R | (up' & Fu' & V)]; [contradiction | congruence].
  - exfalso. rewrite Fu in Fu'. injection Fu' as <-.
    pose proof (fun x H => proj1 (cj_specs_batch b u up jss x H)) as Hb.
    destruct (insert_verdict_ok s b _ [] Hb V) as (F & _). rewrite Forall_forall in F. destruct (F x Hx) as (G & _). congruence.
Qed.

Definition gspec_group (sg : Z) (gs : gspec) : Z := sg + gs_id gs - 1.
Definition gspec_parent (sg : Z) (gs : gspec) : Z :=
  match gs_parent_abs gs with Some p => p | None => sg + gs_parent_rel gs - 1 end.

Lemma cog_fold_all b u sg l s s' :
  fold_left (create_one_group b u sg) l (Some s) = Some s' ->
  forall gs, In gs l -> exists st, grow s st /\ group_cancelled st b (gspec_parent sg gs) = false /\ find_group st b (gspec_group sg gs) = None.
Proof.
  revert s. induction l as [|x l IH]; intros s E gs Hin; [contradiction|]. cbn [fold_left] in E.
  destruct (create_one_group b u sg (Some s) x) as [st|] eqn:C; [|rewrite cog_fold_none in E; discriminate].
  pose proof (create_one_group_some _ _ _ _ _ _ C) as H. cbv zeta in H. destruct H as (Gc & Fg & _ & Est).
  destruct Hin as [<- | Hin].
  - exists s. split; [apply grow_refl|]. auto.
  - destruct (IH _ E gs Hin) as (st' & G & H). exists st'. split; [|exact H].
    eapply grow_trans; [|exact G]. rewrite Est. apply create_group_rows_grow.
Qed.

(** a group bunch naming a parent under a cancelled group is rejected and changes nothing *)
Theorem create_groups_under_cancelled s b u user gss up :
  find_update s b u = Some up ->
  (exists gs, In gs gss /\ group_cancelled s b (gspec_parent (u_start_group up) gs) = true) ->
  let r := step s (CreateGroups b u user gss) in
  fst r = s /\ snd r <> ok [].
Proof.
  intros Fu (gs & Hin & Gc). cbv zeta. cbn [step].
  destruct (do_create_groups_shape s b u user gss) as [H | (up' & Fu' & F & _ & _)]; [exact H|]. exfalso.
  rewrite Fu in Fu'. injection Fu' as <-.
  destruct (cog_fold_all _ _ _ _ _ _ F gs Hin) as (st & G & Gc' & _).
  rewrite (group_cancelled_grow _ _ _ _ G Gc) in Gc'. discriminate.
Qed.

(** no update can be opened or committed on a cancelled batch *)
Theorem create_update_cancelled_batch s b user token nj ng :
  marked s b 0 = true ->
  let r := step s (CreateUpdate b user token nj ng) in
  fst r = s /\ (fst (snd r) = 0 -> exists x, In x (updates s) /\ u_batch x = b /\ u_token x = token /\ snd r = ok [u_id x; u_start_group x; u_start_job x]).
Proof.
  intros M. cbv zeta. cbn [step]. unfold do_create_update. rewrite M.
  repeat (dmatch; try (split; [reflexivity | cbn; discriminate])).
  split; [reflexivity|]. intros _.
  match goal with H : find _ (updates s) = Some ?u |- _ => rename H into F; exists u end.
  apply find_some in F. destruct F as (Hin & K). apply andb_true_iff in K. destruct K as [K1 K2].
  repeat split; [exact Hin | lia | lia].
Qed.

Theorem commit_cancelled_batch s b u user :
  marked s b 0 = true ->
  let r := step s (Commit b u user) in fst r = s /\ fst (snd r) <> 0.
Proof.
  intros M. cbv zeta. cbn [step]. unfold do_commit. rewrite M.
  repeat (dmatch; try (split; [reflexivity | cbn; discriminate])).
Qed.

(* ------------------------------------------------------------------ (3) repeating a cancellation changes nothing *)

Lemma marked_app s b g m : marks s = m ++ [(b, g)] -> marked s b g = true.
Proof. intros E. unfold marked. rewrite E, existsb_app. cbn. rewrite !Z.eqb_refl. apply orb_true_r. Qed.

Lemma cancel_proc_cancelled s b g : In g (anc_ids s b g) -> group_cancelled (cancel_proc s b g) b g = true.
Proof.
  intros Hin. destruct (group_cancelled s b g) eqn:Gc.
  - unfold cancel_proc. rewrite Gc. exact Gc.
  - apply group_cancelled_iff. exists g. split.
    + unfold anc_ids, anc_rows. rewrite cancel_proc_ancestors. exact Hin.
    + eapply marked_app. rewrite cancel_proc_marks, Gc. reflexivity.
Qed.

Theorem cancel_idempotent s b g :
  In g (anc_ids s b g) ->
  let s1 := fst (step s (CancelGroup b g)) in
  step s1 (CancelGroup b g) = (s1, snd (step s (CancelGroup b g))).
Proof.
  intros Hin. cbv zeta. cbn [step]. unfold do_cancel_group at 2 3.
  destruct (find_group s b g) as [gr|] eqn:Fg.
  2:{ cbn [fst snd]. unfold do_cancel_group. rewrite Fg. reflexivity. }
  destruct (find_batch s b) as [bt|] eqn:Fb.
  2:{ cbn [fst snd]. unfold do_cancel_group. rewrite Fg, Fb. reflexivity. }
  match goal with |- context [if ?c then _ else _] => destruct c eqn:Cond end.
  - cbn [fst snd]. unfold do_cancel_group. rewrite Fg, Fb, Cond. reflexivity.
  - cbn [fst snd]. unfold do_cancel_group.
    assert (Fg' : find_group (cancel_proc s b g) b g = Some gr) by (unfold find_group; rewrite cancel_proc_groups; exact Fg).
    assert (Fb' : find_batch (cancel_proc s b g) b = Some bt) by (unfold find_batch; rewrite cancel_proc_batches; exact Fb).
    rewrite Fg', Fb'.
    assert (Fu' : forall u, find_update (cancel_proc s b g) b u = find_update s b u) by (intros u; unfold find_update; rewrite cancel_proc_updates; reflexivity).
    assert (Cond' : (b_deleted bt || negb (match g_update gr with
                       | Some u => match find_update (cancel_proc s b g) b u with Some x => u_committed x | None => false end
                       | None => false end || (g =? 0))) = false).
    { destruct (g_update gr); [rewrite Fu'|]; exact Cond. }
    rewrite Cond', Fg, Fb, Cond. cbn [snd]. f_equal. unfold cancel_proc at 1. rewrite (cancel_proc_cancelled s b g Hin). reflexivity.
Qed.

(* ------------------------------------------------------------------ (5) scheduling requests are answered normally *)

Theorem is_job_cancelled_total s x : exists c, is_job_cancelled s x = Some c.
Proof. unfold is_job_cancelled. eexists. reflexivity. Qed.

Definition driver_request (o : op) : Prop :=
  match o with ScheduleJob _ _ _ _ | MarkCreating _ _ _ _ _ | MarkStarted _ _ _ _ _ => True | _ => False end.

Theorem requests_never_1242 s o : driver_request o -> snd (step s o) <> sql_error 1242.
Proof.
  destruct o; try contradiction; intros _; cbn [step];
    unfold do_schedule, do_mark_creating_or_started, is_job_cancelled; repeat (dmatch; try (cbn; discriminate)).
Qed.

(** a request about an existing job and an existing instance gets a normal answer (class ok) *)
Theorem requests_answered s o :
  match o with
  | ScheduleJob b j _ i | MarkCreating b j _ i _ | MarkStarted b j _ i _ =>
      find_job s b j <> None -> find_inst s i <> None -> fst (snd (step s o)) = 0
  | _ => True
  end.
Proof.
  destruct o as [| | | | | | | | | | |b j att i| |b j att i t|b j att i t| | | | |]; try exact I; intros Fj Fi; cbn [step];
    unfold do_schedule, do_mark_creating_or_started, is_job_cancelled.
  all: destruct (find_job s b j) as [x|]; [|contradiction].
  all: destruct (add_attempt s b j att i (j_cores x)) as [[s1 d0]|] eqn:Aa.
  all: try (repeat dmatch; reflexivity).
  all: exfalso; unfold add_attempt in Aa; destruct (find_attempt s b j att); [discriminate|]; cbv zeta in Aa.
  all: match type of Aa with context [find_inst ?st ?k] => change (find_inst st k) with (find_inst s k) in Aa; destruct (find_inst s k) end.
  all: first [discriminate | contradiction].
Qed.

(* ------------------------------------------------------------------ (4) frame of a cancellation *)

(** a cancellation touches nothing but the marks and the two counter tables *)
Theorem cancel_group_frame s b g :
  let s' := fst (step s (CancelGroup b g)) in
  jobs s' = jobs s /\ groups s' = groups s /\ ancestors s' = ancestors s /\ batches s' = batches s /\ updates s' = updates s /\
  parents s' = parents s /\ staging s' = staging s /\ attempts s' = attempts s /\ insts s' = insts s /\
  attempt_res s' = attempt_res s /\ agg_job s' = agg_job s /\ agg_group s' = agg_group s /\ agg_bp s' = agg_bp s /\
  agg_date s' = agg_date s /\ next_batch s' = next_batch s /\
  (marks s' = marks s \/ marks s' = marks s ++ [(b, g)]).
Proof.
  cbv zeta. cbn [step]. unfold do_cancel_group.
  destruct (find_group s b g); [|cbn [fst]; repeat split; auto].
  destruct (find_batch s b); [|cbn [fst]; repeat split; auto].
  match goal with |- context [if ?c then _ else _] => destruct c end; cbn [fst]; [repeat split; auto|].
  rewrite cancel_proc_jobs, cancel_proc_groups, cancel_proc_ancestors, cancel_proc_batches, cancel_proc_updates, cancel_proc_parents,
    cancel_proc_staging, cancel_proc_attempts, cancel_proc_insts, cancel_proc_attempt_res, cancel_proc_agg_job, cancel_proc_agg_group,
    cancel_proc_agg_bp, cancel_proc_agg_date, cancel_proc_next_batch, cancel_proc_marks.
  repeat split. destruct (group_cancelled s b g); [left; apply app_nil_r | right; reflexivity].
Qed.

Lemma cancel_step_cases s b g :
  fst (step s (CancelGroup b g)) = s \/ fst (step s (CancelGroup b g)) = cancel_proc s b g.
Proof. cbn [step]. unfold do_cancel_group. repeat dmatch; auto. Qed.

(* the cancellable rows: only rows [b; _; a; _] with a an ancestor-or-self of g change *)
Lemma cancel_proc_cancellable_other s b g (p : list Z -> bool) :
  (forall u a ic, In a (anc_ids s b g) -> p [b; u; a; ic] = false) ->
  csum p (cancellable (cancel_proc s b g)) = csum p (cancellable s).
Proof.
  intros Hp. unfold cancel_proc. destruct (group_cancelled s b g); [reflexivity|]. cbv zeta. scbn.
  match goal with |- context [fold_left ?F (cancellable s) s] => set (s1 := fold_left F (cancellable s) s) end.
  assert (E1 : cancellable s1 = cancellable s).
  { subst s1. apply fold_keeps. intros st kv. repeat dmatch; reflexivity. }
  rewrite E1. clear E1 s1.
  match goal with |- context [fold_left ?G (anc_ids s b g) _] => set (G' := G) end.
  assert (H : forall ancs m, (forall a, In a ancs -> In a (anc_ids s b g)) -> csum p (fold_left G' ancs m) = csum p m).
  { induction ancs as [|a ancs IH]; intros m Hs; cbn [fold_left]; [reflexivity|].
    rewrite IH by (intros a' Ha'; apply Hs; right; exact Ha').
    subst G'. cbv beta.
    match goal with |- context [fold_left ?I ?ownl m] => generalize ownl end. intros own.
    revert m. induction own as [|kv own IHo]; intros m; cbn [fold_left]; [reflexivity|].
    rewrite IHo. destruct (fst kv) as [|k0 [|u' [|k2 [|ic [|]]]]]; try reflexivity.
    rewrite csum_cadd, Hp by (apply Hs; left; reflexivity). reflexivity. }
  apply H. auto.
Qed.

Theorem cancel_group_cancellable s b g (p : list Z -> bool) :
  (forall u a ic, In a (anc_ids s b g) -> p [b; u; a; ic] = false) ->
  csum p (cancellable (fst (step s (CancelGroup b g)))) = csum p (cancellable s).
Proof.
  intros Hp. destruct (cancel_step_cases s b g) as [-> | ->]; [reflexivity | apply cancel_proc_cancellable_other; exact Hp].
Qed.

(* the user counters: exactly the cancellable sums of g (rows of committed updates) move into the cancelled columns *)
Definition shaped5 (kv : list Z * list Z) : bool :=
  match kv with ([_; _; _; _], [_; _; _; _; _]) => true | _ => false end.

Definition canc_sel (s : state) (b g ic : Z) (k : list Z) : bool :=
  match k with [b'; u'; g'; ic'] => (b' =? b) && (g' =? g) && committed s b u' && (ic' =? ic) | _ => false end.

(* [n_ready_c; ready_c_cores; n_creating_c; n_running_c; running_c_cores] -> change of the eight user counters *)
Definition moved (v : list Z) : list Z :=
  [- nth 0 v 0; - nth 1 v 0; - nth 3 v 0; - nth 4 v 0; - nth 2 v 0; nth 0 v 0; nth 3 v 0; nth 2 v 0].

Lemma moved_vadd i v w : nth i (moved (vadd v w)) 0 = nth i (moved v) 0 + nth i (moved w) 0.
Proof.
  unfold moved. do 8 (destruct i as [|i]; [cbn [nth]; rewrite ?nth_vadd; lia|]). destruct i; cbn; lia.
Qed.

Lemma moved_nil i : nth i (moved []) 0 = 0.
Proof. unfold moved. do 8 (destruct i as [|i]; [reflexivity|]). destruct i; reflexivity. Qed.

Lemma key_eqb2 a b c d : key_eqb [a; b] [c; d] = (a =? c) && (b =? d).
Proof. cbn. rewrite andb_true_r. reflexivity. Qed.

Lemma cancel_proc_user_res s b g u ic i :
  cval (key_eqb [u; ic]) i (user_res (cancel_proc s b g)) =
  cval (key_eqb [u; ic]) i (user_res s) +
  (if group_cancelled s b g then 0
   else if u =? batch_user s b then nth i (moved (csum (canc_sel s b g ic) (filter shaped5 (cancellable s)))) 0 else 0).
Proof.
  unfold cancel_proc. destruct (group_cancelled s b g); [lia|]. cbv zeta. scbn.
  match goal with |- context [fold_left ?F (cancellable s) s] => set (F' := F) end.
  assert (H : forall l st, cval (key_eqb [u; ic]) i (user_res (fold_left F' l st)) =
                           cval (key_eqb [u; ic]) i (user_res st) +
                           (if u =? batch_user s b then nth i (moved (csum (canc_sel s b g ic) (filter shaped5 l))) 0 else 0)).
  { induction l as [|kv l IH]; intros st; cbn [fold_left filter csum].
    - rewrite moved_nil. destruct (u =? batch_user s b); lia.
    - rewrite IH. clear IH.
      assert (Skip : F' st kv = st -> (shaped5 kv && canc_sel s b g ic (fst kv)) = false ->
                     cval (key_eqb [u; ic]) i (user_res (F' st kv)) +
                     (if u =? batch_user s b then nth i (moved (csum (canc_sel s b g ic) (filter shaped5 l))) 0 else 0) =
                     cval (key_eqb [u; ic]) i (user_res st) +
                     (if u =? batch_user s b
                      then nth i (moved (csum (canc_sel s b g ic) (if shaped5 kv then kv :: filter shaped5 l else filter shaped5 l))) 0 else 0)).
      { intros E1 E2. rewrite E1. destruct (shaped5 kv); [|reflexivity]. cbn [csum]. cbn [andb] in E2. rewrite E2. reflexivity. }
      destruct kv as [k v].
      destruct k as [|b' [|u' [|g' [|ic' [|]]]]]; try (apply Skip; [reflexivity | cbn; reflexivity]).
      destruct v as [|nr [|rc [|ncr [|nrun [|runc [|]]]]]]; try (apply Skip; [reflexivity | cbn; reflexivity]).
      subst F'. cbv beta iota. cbn [shaped5 csum fst snd canc_sel]. unfold committed.
      destruct ((b' =? b) && (g' =? g) && match find_update s b u' with Some x => u_committed x | None => false end) eqn:C;
        cbn [andb]; [|lia].
      scbn. rewrite cval_cadd, key_eqb2. clear Skip.
      destruct (u =? batch_user s b) eqn:Eu; cbn [andb].
      + rewrite (Z.eqb_sym ic' ic). destruct (ic =? ic') eqn:Ei; [|lia].
        rewrite moved_vadd. generalize (cval (key_eqb [u; ic]) i (user_res st)). intros X.
        generalize (nth i (moved (csum (canc_sel s b g ic) (filter shaped5 l))) 0). intros Y.
        do 8 (destruct i as [|i]; [unfold moved; cbn [nth]; lia|]). destruct i; unfold moved; cbn [nth]; lia.
      + lia. }
  rewrite H. reflexivity.
Qed.

Theorem cancel_group_user_res s b g u ic i :
  exists d, cval (key_eqb [u; ic]) i (user_res (fst (step s (CancelGroup b g)))) = cval (key_eqb [u; ic]) i (user_res s) + d /\
            (u <> batch_user s b -> d = 0) /\
            (d = 0 \/ d = nth i (moved (csum (canc_sel s b g ic) (filter shaped5 (cancellable s)))) 0).
Proof.
  destruct (cancel_step_cases s b g) as [-> | ->].
  - exists 0. split; [lia | auto].
  - rewrite cancel_proc_user_res. eexists. split; [reflexivity|]. split.
    + intros Hu. destruct (group_cancelled s b g); [reflexivity|]. destruct (u =? batch_user s b) eqn:E; [lia | reflexivity].
    + destruct (group_cancelled s b g); [left; reflexivity|]. destruct (u =? batch_user s b); [right; reflexivity | left; reflexivity].
Qed.

(* ------------------------------------------------------------------ the group tree: invariants of every history *)

(* transactions other than CreateBatch / CreateGroups leave the group tree as it is *)
Lemma step_tree_same s o :
  match o with
  | CreateBatch _ _ _ _ | CreateGroups _ _ _ _ => True
  | _ => map gk (groups (fst (step s o))) = map gk (groups s) /\ ancestors (fst (step s o)) = ancestors s /\
         map bkey (batches (fst (step s o))) = map bkey (batches s) /\ next_batch (fst (step s o)) = next_batch s
  end.
Proof.
  pose proof (step_same_tree s o) as T.
  destruct o; try exact I; try (destruct T; auto); cbn [step].
  - unfold do_create_update. repeat (dmatch; try (cbn [fst]; auto)).
  - destruct (cancel_step_cases s b g) as [E | E]; cbn [step] in E; rewrite E; [auto|].
    rewrite cancel_proc_groups, cancel_proc_ancestors, cancel_proc_batches, cancel_proc_next_batch. auto.
  - unfold do_delete_batch. repeat (dmatch; try (cbn [fst]; auto)). cbn [fst]. scbn.
    rewrite cancel_proc_groups, cancel_proc_ancestors, cancel_proc_batches, cancel_proc_next_batch.
    repeat split; auto. rewrite map_map. apply map_ext. intros x. destruct (b_id x =? b); reflexivity.
Qed.

(** every group has its own row in the ancestors table *)
Definition groups_self (s : state) : Prop :=
  forall b g, In (b, g) (map gk (groups s)) -> In g (anc_ids s b g).

(** batch ids (of batches and of groups) are below the next id to be handed out *)
Definition ids_below (s : state) : Prop :=
  (forall b g, In (b, g) (map gk (groups s)) -> b < next_batch s) /\
  (forall x, In x (batches s) -> b_id x < next_batch s).

Definition tree_inv (s : state) : Prop := groups_self s /\ ids_below s.

Lemma in_gk_find s b g : In (b, g) (map gk (groups s)) <-> find_group s b g <> None.
Proof.
  unfold find_group. split.
  - intros H Fn. apply in_map_iff in H. destruct H as (x & E & Hin). pose proof (find_none _ _ Fn x Hin) as K.
    unfold gk in E. injection E as E1 E2. cbv beta in K. rewrite E1, E2, !Z.eqb_refl in K. discriminate.
  - intros H. destruct (find _ (groups s)) as [x|] eqn:F; [|contradiction]. apply find_some in F. destruct F as (Hin & K).
    apply andb_true_iff in K. destruct K as [K1 K2]. apply in_map_iff. exists x. split; [unfold gk; f_equal; lia | exact Hin].
Qed.

Lemma create_group_rows_inv s b g upd p root :
  tree_inv s -> b < next_batch s -> tree_inv (create_group_rows s b g upd p root).
Proof.
  intros (Hs & Hg & Hb) Lt. pose proof (create_group_rows_grow s b g upd p root) as G.
  unfold create_group_rows in *. split; [|split].
  - intros b' g' Hin. scbn in Hin. rewrite map_app in Hin. apply in_app_or in Hin. destruct Hin as [Hin | [E | []]].
    + eapply descendant_grow; [exact G | apply Hs; exact Hin].
    + unfold gk in E. cbn in E. injection E as <- <-.
      match goal with |- In g (anc_ids (?st <| ancestors ::= ?f |>) b g) => change (In g (anc_ids (st <| ancestors ::= f |>) b g)) end.
      unfold anc_ids, anc_rows. scbn. rewrite !filter_app, !map_app. apply in_or_app. right. apply in_or_app. right.
      cbn [filter]. rewrite !Z.eqb_refl. cbn. left. reflexivity.
  - intros b' g' Hin. scbn in Hin. scbn. rewrite map_app in Hin. apply in_app_or in Hin. destruct Hin as [Hin | [E | []]].
    + eapply Hg; exact Hin.
    + unfold gk in E. cbn in E. injection E as <- _. exact Lt.
  - scbn. exact Hb.
Qed.

Lemma tree_inv_same s s' :
  map gk (groups s') = map gk (groups s) -> ancestors s' = ancestors s -> map bkey (batches s') = map bkey (batches s) ->
  next_batch s' = next_batch s -> tree_inv s -> tree_inv s'.
Proof.
  intros Eg Ea Eb En (Hs & Hg & Hb). split; [|split].
  - intros b g Hin. rewrite Eg in Hin. unfold anc_ids, anc_rows. rewrite Ea. apply Hs. exact Hin.
  - intros b g Hin. rewrite Eg in Hin. rewrite En. eapply Hg; exact Hin.
  - intros x Hin. rewrite En.
    assert (Hk : In (bkey x) (map bkey (batches s))) by (rewrite <- Eb; apply in_map; exact Hin).
    apply in_map_iff in Hk. destruct Hk as (y & Ey & Hy). unfold bkey in Ey. injection Ey as E1 _ _ _. rewrite <- E1. apply Hb. exact Hy.
Qed.

Lemma tree_inv_step s o : tree_inv s -> tree_inv (fst (step s o)).
Proof.
  intros Inv. pose proof (step_tree_same s o) as T.
  destruct o; try (destruct T as (T1 & T2 & T3 & T4); eapply tree_inv_same; eassumption); clear T; cbn [step].
  - (* CreateBatch *)
    unfold do_create_batch. destruct (negb member); [exact Inv|].
    match goal with |- context [match ?c with Some _ => _ | None => _ end] => destruct c end; [exact Inv|]. cbv zeta. cbn [fst].
    apply create_group_rows_inv; [|scbn; lia].
    destruct Inv as (Hs & Hg & Hb). split; [|split].
    + exact Hs.
    + intros b g Hin. scbn in *. specialize (Hg b g Hin). lia.
    + intros x Hin. scbn in *. apply in_app_or in Hin. destruct Hin as [Hin | [<- | []]]; [specialize (Hb x Hin); lia | cbn; lia].
  - (* CreateGroups *)
    destruct (do_create_groups_shape s b u user gs) as [[E _] | (up & _ & F & _ & Fb)]; [rewrite E; exact Inv|].
    assert (Lt : b < next_batch s).
    { destruct (find_batch s b) as [bt|] eqn:Fbt; [|contradiction]. unfold find_batch in Fbt. apply find_some in Fbt.
      destruct Fbt as (Hin & K). destruct Inv as (_ & _ & Hb). specialize (Hb bt Hin). lia. }
    cbn [step] in F.
    refine (proj1 (cog_fold_rel (fun st st' => tree_inv st /\ b < next_batch st -> tree_inv st' /\ b < next_batch st') b u _ _ _ _ _ _ _ F (conj Inv Lt))).
    + auto.
    + auto.
    + intros st g st' C H. apply create_one_group_some in C. cbv zeta in C. destruct C as (_ & _ & _ & ->).
      destruct H as (H1 & H2). split; [apply create_group_rows_inv; assumption | exact H2].
Qed.

Lemma tree_inv_init : tree_inv init.
Proof. split; [|split]; [intros b g [] | intros b g [] | intros x []]. Qed.

Lemma tree_inv_run ops : tree_inv (run ops).
Proof. apply (run_invariant tree_inv); [apply tree_inv_init | apply tree_inv_step]. Qed.

(** the ancestors of an existing group never change *)
Theorem anc_rows_stable_step s o b g :
  tree_inv s -> find_group s b g <> None -> anc_rows (fst (step s o)) b g = anc_rows s b g.
Proof.
  intros Inv Fg. pose proof (step_tree_same s o) as T.
  destruct o; try (destruct T as (_ & T2 & _); unfold anc_rows; rewrite T2; reflexivity); clear T; cbn [step].
  - (* CreateBatch *)
    unfold do_create_batch. destruct (negb member); [reflexivity|].
    match goal with |- context [match ?c with Some _ => _ | None => _ end] => destruct c end; [reflexivity|]. cbv zeta. cbn [fst].
    unfold create_group_rows, anc_rows. scbn. rewrite filter_app. cbn [filter app].
    apply in_gk_find in Fg. destruct Inv as (_ & Hg & _). specialize (Hg b g Fg).
    replace (next_batch s =? b) with false by (symmetry; apply Z.eqb_neq; lia). cbn [andb]. apply app_nil_r.
  - (* CreateGroups *)
    destruct (do_create_groups_shape s b0 u user gs) as [[E _] | (up & _ & F & _ & _)]; [rewrite E; reflexivity|].
    cbn [step] in F.
    refine (proj2 (cog_fold_rel (fun st st' => find_group st b g <> None -> find_group st' b g <> None /\ anc_rows st' b g = anc_rows st b g)
              b0 u _ _ _ _ _ _ _ F Fg)).
    + auto.
    + intros s1 s2 s3 H12 H23 H1. destruct (H12 H1) as (H2 & E2). destruct (H23 H2) as (H3 & E3). split; [exact H3 | congruence].
    + intros st gs' st' C H. apply create_one_group_some in C. cbv zeta in C. destruct C as (_ & Fn & _ & ->).
      unfold create_group_rows. split.
      * apply in_gk_find. apply in_gk_find in H. scbn. rewrite map_app. apply in_or_app. left. exact H.
      * unfold anc_rows. scbn. rewrite !filter_app.
        assert (Ne : (b0 =? b) && (u_start_group up + gs_id gs' - 1 =? g) = false).
        { destruct ((b0 =? b) && (u_start_group up + gs_id gs' - 1 =? g)) eqn:K; [|reflexivity].
          apply andb_true_iff in K. destruct K as [K1 K2]. apply Z.eqb_eq in K1, K2. subst. contradiction. }
        assert (Z1 : filter (fun r : Z * Z * Z * Z => let '(b', g', _, _) := r in (b' =? b) && (g' =? g))
                       (map (fun r : Z * Z * Z * Z => let '(_, _, a, lvl) := r in (b0, u_start_group up + gs_id gs' - 1, a, lvl + 1))
                          (anc_rows st b0 (match gs_parent_abs gs' with Some p => p | None => u_start_group up + gs_parent_rel gs' - 1 end))) = []).
        { match goal with |- filter _ (map _ ?l) = [] => generalize l end. intros l.
          induction l as [|[[[b1 g1] a1] l1] l IH]; cbn [map filter]; [reflexivity|]. rewrite Ne. exact IH. }
        unfold anc_rows in Z1. rewrite Z1. cbn [filter app]. rewrite Ne. rewrite app_nil_r. reflexivity.
Qed.

Theorem anc_ids_stable s ops b g :
  tree_inv s -> find_group s b g <> None -> anc_ids (run_from s ops) b g = anc_ids s b g /\ find_group (run_from s ops) b g <> None.
Proof.
  revert s. induction ops as [|o r IH]; intros s Inv Fg; cbn [run_from fold_left]; [auto|].
  assert (Fg' : find_group (fst (step s o)) b g <> None).
  { apply in_gk_find. apply in_gk_find in Fg. destruct (gr_groups _ _ (step_grow s o)) as (e & ->). apply in_or_app. left. exact Fg. }
  destruct (IH _ (tree_inv_step s o Inv) Fg') as (E & F). split; [|exact F].
  change (fold_left (fun s0 o0 => fst (step s0 o0)) r (fst (step s o))) with (run_from (fst (step s o)) r).
  rewrite E. unfold anc_ids. rewrite anc_rows_stable_step; auto.
Qed.

(** repeating a cancellation changes nothing, in every state of every history *)
Theorem cancel_idempotent_reachable s b g :
  tree_inv s ->
  let s1 := fst (step s (CancelGroup b g)) in
  step s1 (CancelGroup b g) = (s1, snd (step s (CancelGroup b g))).
Proof.
  intros (Hs & _). destruct (find_group s b g) as [gr|] eqn:Fg.
  - apply cancel_idempotent. apply Hs. apply in_gk_find. congruence.
  - cbv zeta. cbn [step]. unfold do_cancel_group. rewrite Fg. cbn [fst snd]. rewrite Fg. reflexivity.
Qed.

(* ------------------------------------------------------------------ statements over the histories of the service *)

Lemma marked_history s ops b g : marked s b g = true -> marked (run_from s ops) b g = true.
Proof. apply marked_grow, run_from_grow. Qed.

Lemma group_cancelled_history s ops b g : group_cancelled s b g = true -> group_cancelled (run_from s ops) b g = true.
Proof. apply group_cancelled_grow, run_from_grow. Qed.

Lemma run_app ops1 ops2 : run (ops1 ++ ops2) = run_from (run ops1) ops2.
Proof. unfold run, run_from. apply fold_left_app. Qed.

(** after [ops1] a group [g] is cancelled; [x] is a non-always-run job of [g] or of a group below it; whatever happens next
    ([ops2], then [o]) the job persists with the same group and is not moved into Creating / Running by [o] *)
Theorem no_new_work_reachable ops1 ops2 o b j x g :
  legal_history (ops1 ++ ops2 ++ [o]) ->
  let s := run ops1 in
  find_job s b j = Some x -> j_always x = false ->
  marked s b g = true -> In g (anc_ids s b (j_group x)) ->
  exists x1, find_job (run (ops1 ++ ops2)) b j = Some x1 /\ static_eq x x1 /\
             forall y, find_job (run (ops1 ++ ops2 ++ [o])) b j = Some y -> y = x1 \/ idle y.
Proof.
  intros L s Fx Ar M D.
  assert (Gc : group_cancelled s b (j_group x) = true) by (apply group_cancelled_iff; eauto).
  unfold legal_history in L. apply legal_from_app in L. destruct L as (_ & L).
  apply legal_from_terminal in L.
  destruct (no_new_work_history s ops2 o b j x (jobs_unique_run ops1) L Fx Ar Gc) as (x1 & F1 & H).
  destruct (job_persists s ops2 b j x (jobs_unique_run ops1) Fx) as (x1' & F1' & S). rewrite F1 in F1'. injection F1' as <-.
  exists x1. rewrite run_app. split; [exact F1|]. split; [exact S|].
  intros y Fy. apply H. rewrite app_assoc, run_app in Fy. rewrite run_app in Fy.
  unfold run_from in Fy at 1. cbn [fold_left] in Fy. exact Fy.
Qed.

(* ------------------------------------------------------------------ the repaired defect (migration 121) as an example *)

Definition two_cancelled_ancestors : list op :=
  [CreateBatch 1 1 1 true; CreateUpdate 1 1 1 2 1; CreateGroups 1 1 1 [mkGspec 1 (Some 0) 0];
   CreateJobs 1 1 1 [mkJspec 1 None 1 [] [] true 1000 0; mkJspec 2 None 1 [] [] false 1000 0];
   Commit 1 1 1; CancelGroup 1 1; CancelGroup 1 0; NewInstance 1 0 4000 true; ActivateInstance 1].

(* both the sub-group and the batch are marked; the always-run job of the sub-group is scheduled and started normally,
   the other job is refused (rc 1) without an error *)
Example two_cancelled_ancestors_scheduled :
  let s := run two_cancelled_ancestors in
  n_cancelled_anc s 1 1 = 2 /\
  snd (step s (ScheduleJob 1 1 1 1)) = ok [0; 0] /\
  option_map j_state (find_job (fst (step s (ScheduleJob 1 1 1 1))) 1 1) = Some Running /\
  snd (step s (ScheduleJob 1 2 2 1)) = ok [1; 0] /\
  option_map j_state (find_job (fst (step s (ScheduleJob 1 2 2 1))) 1 2) = Some Ready /\
  snd (step (fst (step s (ScheduleJob 1 1 1 1))) (MarkStarted 1 1 1 1 200)) = ok [0; 0].
Proof. vm_compute. repeat split; reflexivity. Qed.

Example two_cancelled_ancestors_legal : legal_history (two_cancelled_ancestors ++ [ScheduleJob 1 1 1 1; MarkStarted 1 1 1 1 200]).
Proof. vm_compute. repeat split; reflexivity. Qed.

(* the hypotheses of no_new_work_reachable are satisfiable: job 2 of the doubly cancelled sub-group *)
Example no_new_work_hypotheses_satisfiable :
  let s := run two_cancelled_ancestors in
  exists x, find_job s 1 2 = Some x /\ j_always x = false /\ marked s 1 0 = true /\ In 0 (anc_ids s 1 (j_group x)) /\
            marked s 1 1 = true /\ In 1 (anc_ids s 1 (j_group x)).
Proof. vm_compute. eexists. repeat split; auto. Qed.
