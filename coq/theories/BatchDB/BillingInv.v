(** C02 — the invariant [BInv] (structural part + the four aggregate equations) and its preservation by the
    primitives of the model: irrelevant field updates, key-preserving row updates, appends of new batches / groups /
    jobs / attempts, `UPDATE attempts` and `INSERT INTO attempt_resources`. *)
From HailV Require Import Common.Prelude BatchDB.Model BatchDB.CMap BatchDB.Tables BatchDB.Billing.
From RecordUpdate Require Import RecordSet.
Import RecordSetNotations.
Open Scope Z_scope.

(* ------------------------------------------------------------------ the billing view of a state *)

Definition kg3 (x : job) : Z * Z * Z := (j_batch x, j_id x, j_group x).
Definition kgl (s : state) : list (Z * Z * Z) := map kg3 (jobs s).
Definition gk2 (g : group) : Z * Z := (g_batch g, g_id g).
Definition gkl (s : state) : list (Z * Z) := map gk2 (groups s).
Definition bk3 (x : batch) : Z * Z * Z := (b_id x, b_user x, b_bp x).
Definition bkl (s : state) : list (Z * Z * Z) := map bk3 (batches s).

(** lookups expressed on the view *)
Definition jlook (l : list (Z * Z * Z)) (b j : Z) : option Z :=
  option_map snd (find (fun t => (fst (fst t) =? b) && (snd (fst t) =? j)) l).

Lemma jlook_kgl s b j : option_map j_group (find_job s b j) = jlook (kgl s) b j.
Proof.
  unfold find_job, jlook, kgl. induction (jobs s) as [|x l IH]; cbn [map find]; [reflexivity|].
  cbn [kg3 fst snd]. destruct ((j_batch x =? b) && (j_id x =? j)); [reflexivity | exact IH].
Qed.

Lemma jgroup_kgl s b j : jgroup s b j = match jlook (kgl s) b j with Some g => g | None => 0 end.
Proof. rewrite <- jlook_kgl. unfold jgroup. destruct (find_job s b j); reflexivity. Qed.

Lemma jlook_in l b j g : jlook l b j = Some g -> In (b, j, g) l.
Proof.
  unfold jlook. destruct (find _ l) as [[[b' j'] g']|] eqn:F; cbn; [|discriminate].
  intros H; injection H as <-. apply find_some in F. destruct F as [Hin Hk]. cbn in Hk.
  assert (b' = b) by lia. assert (j' = j) by lia. subst. exact Hin.
Qed.

Lemma in_jlook l b j g : In (b, j, g) l -> jlook l b j <> None.
Proof.
  unfold jlook. intros Hin. destruct (find _ l) eqn:F; cbn; [discriminate|].
  exfalso. apply (find_none _ _ F) in Hin. cbn in Hin. lia.
Qed.

Lemma jlook_app l1 l2 b j : jlook (l1 ++ l2) b j = match jlook l1 b j with Some g => Some g | None => jlook l2 b j end.
Proof.
  unfold jlook. induction l1 as [|t l1 IH]; cbn [app find]; [reflexivity|].
  destruct ((fst (fst t) =? b) && (snd (fst t) =? j)); [reflexivity | exact IH].
Qed.

Lemma find_job_some_iff s b j : find_job s b j <> None <-> jlook (kgl s) b j <> None.
Proof. rewrite <- jlook_kgl. destruct (find_job s b j); cbn; split; intros H; try discriminate; try exact H; contradiction. Qed.

Lemma find_group_gkl s b g : find_group s b g <> None <-> In (b, g) (gkl s).
Proof.
  unfold find_group, gkl. induction (groups s) as [|x l IH]; cbn [map find In].
  - split; [intros H; contradiction | intros []].
  - destruct ((g_batch x =? b) && (g_id x =? g)) eqn:E.
    + split; [intros _; left; unfold gk2; f_equal; lia | discriminate].
    + rewrite IH. split; [intros H; right; exact H | intros [H|H]; [|exact H]].
      unfold gk2 in H. injection H as H1 H2. lia.
Qed.

Definition up_of (t : Z * Z * Z) : Z * Z := (snd (fst t), snd t).
Definition blook (l : list (Z * Z * Z)) (b : Z) : option (Z * Z) :=
  option_map up_of (find (fun t => fst (fst t) =? b) l).

Lemma blook_bkl s b : option_map (fun x => (b_user x, b_bp x)) (find_batch s b) = blook (bkl s) b.
Proof.
  unfold find_batch, blook, bkl. induction (batches s) as [|x l IH]; cbn [map find]; [reflexivity|].
  cbn [bk3 fst snd]. destruct (b_id x =? b); [reflexivity | exact IH].
Qed.

Lemma batch_user_bkl s b : batch_user s b = match blook (bkl s) b with Some up => fst up | None => 0 end.
Proof. rewrite <- blook_bkl. unfold batch_user. destruct (find_batch s b); reflexivity. Qed.

Lemma batch_bp_bkl s b : batch_bp s b = match blook (bkl s) b with Some up => snd up | None => 0 end.
Proof. rewrite <- blook_bkl. unfold batch_bp. destruct (find_batch s b); reflexivity. Qed.

Lemma find_batch_some_iff s b : find_batch s b <> None <-> blook (bkl s) b <> None.
Proof. rewrite <- blook_bkl. destruct (find_batch s b); cbn; split; intros H; try discriminate; try exact H; contradiction. Qed.

Lemma blook_app l1 l2 b : blook (l1 ++ l2) b = match blook l1 b with Some x => Some x | None => blook l2 b end.
Proof.
  unfold blook. induction l1 as [|t l1 IH]; cbn [app find]; [reflexivity|].
  destruct (fst (fst t) =? b); [reflexivity | exact IH].
Qed.

Lemma blook_in l b : blook l b <> None -> exists u p, In (b, u, p) l.
Proof.
  unfold blook. destruct (find _ l) as [[[b' u] p]|] eqn:F; cbn; [|intros H; contradiction].
  intros _. apply find_some in F. destruct F as [Hin Hk]. cbn in Hk. assert (b' = b) by lia. subst. eauto.
Qed.

Lemma in_blook l b u p : In (b, u, p) l -> blook l b <> None.
Proof.
  unfold blook. intros Hin. destruct (find _ l) eqn:F; cbn; [discriminate|].
  exfalso. apply (find_none _ _ F) in Hin. cbn in Hin. lia.
Qed.

(* ------------------------------------------------------------------ the group tree: ancestor rows *)

(** ancestor ids of (b, g) in a list of job_group_self_and_ancestors rows *)
Definition aids (l : list (Z * Z * Z * Z)) (b g : Z) : list Z :=
  map (fun r => let '(_, _, a, _) := r in a) (filter (fun r => let '(b', g', _, _) := r in (b' =? b) && (g' =? g)) l).

Lemma anc_ids_aids s b g : anc_ids s b g = aids (ancestors s) b g.
Proof. reflexivity. Qed.

Lemma aids_app l1 l2 b g : aids (l1 ++ l2) b g = aids l1 b g ++ aids l2 b g.
Proof. unfold aids. rewrite filter_app, map_app. reflexivity. Qed.

Lemma aids_none l b g : (forall b' g' a x, In (b', g', a, x) l -> ~ (b' = b /\ g' = g)) -> aids l b g = [].
Proof.
  intros H. unfold aids. induction l as [|[[[b' g'] a] x] l IH]; cbn [filter map]; [reflexivity|].
  destruct ((b' =? b) && (g' =? g)) eqn:E.
  - exfalso. apply (H b' g' a x); [left; reflexivity | lia].
  - apply IH. intros; eapply H; right; eassumption.
Qed.

Lemma in_aids l b g a : In a (aids l b g) -> exists x, In (b, g, a, x) l.
Proof.
  unfold aids. intros H. apply in_map_iff in H. destruct H as ([[[b' g'] a'] x] & <- & Hin).
  apply filter_In in Hin. destruct Hin as [Hin Hk]. assert (b' = b) by lia. assert (g' = g) by lia. subst. eauto.
Qed.

(** rows exist only for existing groups, an ancestor's id is at most the group's, a group's ancestor-or-self ids are
    distinct, and group keys belong to batches created so far *)
Record GInv (s : state) : Prop := {
  gi_ref : forall b g a x, In (b, g, a, x) (ancestors s) -> In (b, g) (gkl s) /\ a <= g;
  gi_nodup : forall b g, NoDup (anc_ids s b g);
  gi_fresh : forall b g, In (b, g) (gkl s) -> b < next_batch s }.

Lemma GInv_view s s' : ancestors s' = ancestors s -> gkl s' = gkl s -> next_batch s' = next_batch s -> GInv s -> GInv s'.
Proof.
  intros Ha Hg Hn []. constructor.
  - rewrite Ha, Hg; assumption.
  - intros b g. unfold anc_ids, anc_rows. rewrite Ha. apply gi_nodup0.
  - rewrite Hg, Hn; assumption.
Qed.

Lemma GInv_no_rows s b g : GInv s -> ~ In (b, g) (gkl s) -> anc_ids s b g = [].
Proof.
  intros G Hn. rewrite anc_ids_aids. apply aids_none. intros b' g' a x Hin [-> ->].
  apply Hn. apply (gi_ref s G _ _ _ _ Hin).
Qed.

(* ------------------------------------------------------------------ the invariant *)

Record SInv (s : state) : Prop := {
  si_kg : forall b j g g', In (b, j, g) (kgl s) -> In (b, j, g') (kgl s) -> g = g';       (* a job key has one group *)
  si_refs : forall b j g, In (b, j, g) (kgl s) -> In (b, g) (gkl s) /\ blook (bkl s) b <> None;  (* its group and batch exist *)
  si_att : forall c, In c (attempts s) -> jlook (kgl s) (a_batch c) (a_job c) <> None;      (* an attempt's job exists *)
  si_res : forall b j a r q, In ([b; j; a; r], [q]) (attempt_res s) -> jlook (kgl s) b j <> None;
  si_fresh : forall b u p, In (b, u, p) (bkl s) -> b < next_batch s;
  si_g : GInv s }.

Record AInv4 (s : state) : Prop := {
  ai_job : AggOK agg_job kf_job s;
  ai_group : AggOK agg_group kf_group s;
  ai_bp : AggOK agg_bp kf_bp s;
  ai_date : AggOK agg_date kf_bp s }.

Definition BInv (s : state) : Prop := SInv s /\ AInv4 s.

Lemma BInv_init : BInv init.
Proof.
  split; constructor; cbn; try (intros; contradiction); try (intros k0; reflexivity).
  constructor; cbn; try (intros; contradiction). intros; constructor.
Qed.

(* ------------------------------------------------------------------ changes that billing does not see *)

Record same_view (s s' : state) : Prop := {
  sv_kg : kgl s' = kgl s; sv_gk : gkl s' = gkl s; sv_anc : ancestors s' = ancestors s; sv_bk : bkl s' = bkl s;
  sv_att : attempts s' = attempts s; sv_res : attempt_res s' = attempt_res s;
  sv_aj : agg_job s' = agg_job s; sv_ag : agg_group s' = agg_group s; sv_ab : agg_bp s' = agg_bp s;
  sv_ad : agg_date s' = agg_date s; sv_next : next_batch s' = next_batch s }.

Lemma same_view_refl s : same_view s s.
Proof. constructor; reflexivity. Qed.

Lemma same_view_trans s1 s2 s3 : same_view s1 s2 -> same_view s2 s3 -> same_view s1 s3.
Proof. intros [] []; constructor; congruence. Qed.

Lemma kf_group_view s s' b j r : kgl s' = kgl s -> ancestors s' = ancestors s -> kf_group s' b j r = kf_group s b j r.
Proof. intros Hk Ha. unfold kf_group. rewrite !jgroup_kgl, Hk. unfold anc_ids, anc_rows. rewrite Ha. reflexivity. Qed.

Lemma kf_bp_view s s' b j r : bkl s' = bkl s -> kf_bp s' b j r = kf_bp s b j r.
Proof. intros Hb. unfold kf_bp. rewrite !batch_bp_bkl, !batch_user_bkl, Hb. reflexivity. Qed.

Lemma billed_of_view s s' b j a : attempts s' = attempts s -> billed_of s' b j a = billed_of s b j a.
Proof. intros H. unfold billed_of, find_attempt. rewrite H. reflexivity. Qed.

Lemma BInv_same_view s s' : same_view s s' -> BInv s -> BInv s'.
Proof.
  intros [] [[] []]. split; constructor.
  - rewrite sv_kg0; assumption.
  - rewrite sv_kg0, sv_gk0, sv_bk0; assumption.
  - rewrite sv_kg0, sv_att0; assumption.
  - rewrite sv_kg0, sv_res0; assumption.
  - rewrite sv_bk0, sv_next0; assumption.
  - apply (GInv_view s s'); assumption.
  - apply (AggOK_congr agg_job kf_job s s'); auto. intros; split; [reflexivity | apply billed_of_view; assumption].
  - apply (AggOK_congr agg_group kf_group s s'); auto.
    intros; split; [apply kf_group_view; assumption | apply billed_of_view; assumption].
  - apply (AggOK_congr agg_bp kf_bp s s'); auto.
    intros; split; [apply kf_bp_view; assumption | apply billed_of_view; assumption].
  - apply (AggOK_congr agg_date kf_bp s s'); auto.
    intros; split; [apply kf_bp_view; assumption | apply billed_of_view; assumption].
Qed.

(* ------------------------------------------------------------------ row updates that keep the keys *)

(** UPDATE jobs of a row whose key and group do not change ([o] may be a stale copy of the row) *)
Lemma same_view_update_job st o n :
  SInv st -> In (kg3 o) (kgl st) ->
  j_batch n = j_batch o -> j_id n = j_id o -> j_group n = j_group o ->
  same_view st (update_job st o n).
Proof.
  intros I Hin Kb Kj Kg. destruct (update_job_agg st o n) as (A1&A2&A3&A4).
  constructor; autorewrite with frame; try assumption; try reflexivity.
  - unfold kgl. rewrite update_job_jobs. unfold replace_job. rewrite map_map. apply map_ext_in.
    intros x Hx. destruct ((j_batch x =? j_batch n) && (j_id x =? j_id n)) eqn:E; [|reflexivity].
    assert (Hb : j_batch x = j_batch o) by lia. assert (Hj : j_id x = j_id o) by lia.
    unfold kg3. rewrite Kb, Kj, Kg, Hb, Hj. f_equal.
    apply (in_map kg3) in Hx. unfold kg3 in Hx, Hin. rewrite Hb, Hj in Hx.
    exact (si_kg st I _ _ _ _ Hin Hx).
Qed.

Lemma BInv_update_job st o n :
  BInv st -> In (kg3 o) (kgl st) -> j_batch n = j_batch o -> j_id n = j_id o -> j_group n = j_group o ->
  BInv (update_job st o n).
Proof. intros H Hin Kb Kj Kg. eapply BInv_same_view; [apply same_view_update_job; try assumption; apply H | exact H]. Qed.

Lemma find_job_kg3 s b j x : find_job s b j = Some x -> In (kg3 x) (kgl s) /\ j_batch x = b /\ j_id x = j.
Proof.
  intros H. rewrite find_job_eq in H. apply find_jkey_sound in H. destruct H as (Hin & Hb & Hj).
  split; [apply in_map; exact Hin | split; assumption].
Qed.

Lemma gkl_map_groups s f : (forall x, gk2 (f x) = gk2 x) -> gkl (s <| groups ::= map f |>) = gkl s.
Proof. intros H. unfold gkl. cbn. rewrite map_map. apply map_ext. exact H. Qed.

Lemma bkl_map_batches s f : (forall x, bk3 (f x) = bk3 x) -> bkl (s <| batches ::= map f |>) = bkl s.
Proof. intros H. unfold bkl. cbn. rewrite map_map. apply map_ext. exact H. Qed.

Lemma same_view_map_groups s f : (forall x, gk2 (f x) = gk2 x) -> same_view s (s <| groups ::= map f |>).
Proof. intros H. constructor; try reflexivity. apply gkl_map_groups, H. Qed.

Lemma same_view_map_batches s f : (forall x, bk3 (f x) = bk3 x) -> same_view s (s <| batches ::= map f |>).
Proof. intros H. constructor; try reflexivity. apply bkl_map_batches, H. Qed.

(* ------------------------------------------------------------------ the four tables as instances of Billing.Table *)

Lemma bill_job s b j d r q : agg_job (bill s b j d (r, q)) = fold_left (fun m k => cadd k [d * q] m) (kf_job s b j r) (agg_job s).
Proof. apply bill_tables. Qed.
Lemma bill_group s b j d r q : agg_group (bill s b j d (r, q)) = fold_left (fun m k => cadd k [d * q] m) (kf_group s b j r) (agg_group s).
Proof. apply bill_tables. Qed.
Lemma bill_bp s b j d r q : agg_bp (bill s b j d (r, q)) = fold_left (fun m k => cadd k [d * q] m) (kf_bp s b j r) (agg_bp s).
Proof. apply bill_tables. Qed.
Lemma bill_date s b j d r q : agg_date (bill s b j d (r, q)) = fold_left (fun m k => cadd k [d * q] m) (kf_bp s b j r) (agg_date s).
Proof. apply bill_tables. Qed.

Lemma AInv4_update_attempt s o req :
  AInv4 s -> find_attempt s (a_batch o) (a_job o) (a_id o) = Some o ->
  a_batch req = a_batch o -> a_job req = a_job o -> a_id req = a_id o ->
  AInv4 (update_attempt s o req).
Proof.
  intros [] Hf Kb Kj Ka. constructor.
  - exact (AggOK_update_attempt agg_job kf_job kf_job_local bill_job (fun _ _ => eq_refl) (fun _ _ => eq_refl) s o req ai_job0 Hf Kb Kj Ka).
  - exact (AggOK_update_attempt agg_group kf_group kf_group_local bill_group (fun _ _ => eq_refl) (fun _ _ => eq_refl) s o req ai_group0 Hf Kb Kj Ka).
  - exact (AggOK_update_attempt agg_bp kf_bp kf_bp_local bill_bp (fun _ _ => eq_refl) (fun _ _ => eq_refl) s o req ai_bp0 Hf Kb Kj Ka).
  - exact (AggOK_update_attempt agg_date kf_bp kf_bp_local bill_date (fun _ _ => eq_refl) (fun _ _ => eq_refl) s o req ai_date0 Hf Kb Kj Ka).
Qed.

Lemma AInv4_add_one_resource s b j a rq : AInv4 s -> AInv4 (add_one_resource b j a s rq).
Proof.
  intros []. constructor.
  - exact (AggOK_add_one_resource agg_job kf_job kf_job_local bill_job (fun _ _ => eq_refl) (fun _ _ => eq_refl) s b j a rq ai_job0).
  - exact (AggOK_add_one_resource agg_group kf_group kf_group_local bill_group (fun _ _ => eq_refl) (fun _ _ => eq_refl) s b j a rq ai_group0).
  - exact (AggOK_add_one_resource agg_bp kf_bp kf_bp_local bill_bp (fun _ _ => eq_refl) (fun _ _ => eq_refl) s b j a rq ai_bp0).
  - exact (AggOK_add_one_resource agg_date kf_bp kf_bp_local bill_date (fun _ _ => eq_refl) (fun _ _ => eq_refl) s b j a rq ai_date0).
Qed.

(* ------------------------------------------------------------------ UPDATE attempts *)

Lemma BInv_update_attempt s o req :
  BInv s -> find_attempt s (a_batch o) (a_job o) (a_id o) = Some o ->
  a_batch req = a_batch o -> a_job req = a_job o -> a_id req = a_id o ->
  BInv (update_attempt s o req).
Proof.
  intros [I A] Hf Kb Kj Ka.
  pose proof (update_attempt_frame s o req) as F. cbv zeta in F.
  destruct F as (F1&F2&F3&F4&F5&F6&F7&F8&F9&F10&F11&F12&F13&F14).
  split.
  - destruct I. constructor; try (apply (GInv_view s); [assumption | unfold gkl; rewrite F3; reflexivity | assumption | assumption]);
      unfold kgl, gkl, bkl in *; rewrite ?F1, ?F3, ?F6, ?F13, ?F14; try assumption.
    intros c Hc. rewrite F11 in Hc. unfold replace_attempt in Hc. apply in_map_iff in Hc. destruct Hc as (x & Hx & Hin).
    destruct (same_attempt x (clamp o req)).
    + subst c. destruct (clamp_keys o req) as (C1&C2&_). rewrite C1, C2, Kb, Kj.
      apply si_att0. rewrite find_attempt_eq in Hf. apply find_akey_sound in Hf. apply Hf.
    + subst c. apply si_att0, Hin.
  - apply AInv4_update_attempt; assumption.
Qed.

(** the request rows the model builds ([cur <| ... |>]) keep the key of [cur] *)
Lemma BInv_update_found s b j a cur req :
  BInv s -> find_attempt s b j a = Some cur ->
  a_batch req = a_batch cur -> a_job req = a_job cur -> a_id req = a_id cur ->
  BInv (update_attempt s cur req).
Proof.
  intros H Hf Kb Kj Ka. apply BInv_update_attempt; try assumption.
  pose proof Hf as Hs. rewrite find_attempt_eq in Hs. apply find_akey_sound in Hs. destruct Hs as (_ & -> & -> & ->). exact Hf.
Qed.

(* ------------------------------------------------------------------ INSERT INTO attempts (add_attempt) *)

Lemma find_app' {A} (f : A -> bool) l1 l2 :
  find f (l1 ++ l2) = match find f l1 with Some x => Some x | None => find f l2 end.
Proof. induction l1 as [|x l1 IH]; cbn [app find]; [reflexivity | destruct (f x); auto]. Qed.

Lemma billed_of_append s c b j a :
  billed c = 0 -> billed_of (s <| attempts ::= fun l => l ++ [c] |>) b j a = billed_of s b j a.
Proof.
  intros Hc. unfold billed_of, find_attempt. cbn. rewrite find_app'.
  destruct (find _ (attempts s)); [reflexivity|]. cbn [find]. destruct (_ && _); [exact Hc | reflexivity].
Qed.

Lemma BInv_append_attempt s c :
  BInv s -> billed c = 0 -> find_job s (a_batch c) (a_job c) <> None ->
  BInv (s <| attempts ::= fun l => l ++ [c] |>).
Proof.
  intros [I A] Hc Hj. set (s1 := s <| attempts ::= fun l => l ++ [c] |>). split.
  - destruct I. constructor; try assumption; try (apply (GInv_view s); [reflexivity | reflexivity | reflexivity | exact si_g0]).
    intros x Hx. change (attempts s1) with (attempts s ++ [c]) in Hx. apply in_app_or in Hx.
    destruct Hx as [Hx | [<- | []]]; [apply si_att0, Hx | apply find_job_some_iff, Hj].
  - destruct A. constructor.
    + apply (AggOK_congr agg_job kf_job s s1); auto. intros; split; [reflexivity | apply billed_of_append, Hc].
    + apply (AggOK_congr agg_group kf_group s s1); auto. intros; split; [reflexivity | apply billed_of_append, Hc].
    + apply (AggOK_congr agg_bp kf_bp s s1); auto. intros; split; [reflexivity | apply billed_of_append, Hc].
    + apply (AggOK_congr agg_date kf_bp s s1); auto. intros; split; [reflexivity | apply billed_of_append, Hc].
Qed.

Lemma BInv_add_attempt s b j a i cores s1 d :
  BInv s -> find_job s b j <> None -> add_attempt s b j a i cores = Some (s1, d) -> BInv s1.
Proof.
  intros H Hj. unfold add_attempt. destruct (find_attempt s b j a).
  - intros E; injection E as <- _; exact H.
  - cbv zeta. set (s0 := s <| attempts ::= fun l => l ++ [mkAttempt b j a i None None None None] |>).
    assert (H0 : BInv s0) by (apply BInv_append_attempt; [exact H | reflexivity | exact Hj]).
    destruct (find_inst s0 i) as [x|].
    + intros E; injection E as <- _. destruct (ilive (i_state x)); [|exact H0].
      eapply BInv_same_view; [|exact H0]. constructor; reflexivity.
    + destruct (i =? -1); [|discriminate]. intros E; injection E as <- _. exact H0.
Qed.

(* ------------------------------------------------------------------ INSERT INTO attempt_resources *)

Lemma BInv_add_one_resource s b j a rq :
  BInv s -> find_job s b j <> None -> BInv (add_one_resource b j a s rq).
Proof.
  intros [I A] Hj. split.
  - destruct rq as [r q]. unfold add_one_resource. destruct (existsb _ (attempt_res s)); [exact I|]. cbv zeta.
    set (s1 := s <| attempt_res ::= fun m => m ++ [([b; j; a; r], [q])] |>).
    assert (I1 : SInv s1).
    { destruct I. constructor; try assumption; try (apply (GInv_view s); [reflexivity | reflexivity | reflexivity | exact si_g0]).
      intros b' j' a' r' q' Hin. change (attempt_res s1) with (attempt_res s ++ [([b; j; a; r], [q])]) in Hin.
      apply in_app_or in Hin. destruct Hin as [Hin | [E | []]]; [eapply si_res0, Hin|].
      injection E as <- <- _ _ _. apply find_job_some_iff, Hj. }
    destruct (match find_attempt s1 b j a with Some at_ => billed at_ | None => 0 end =? 0); [exact I1|].
    pose proof (bill_frame s1 b j (match find_attempt s1 b j a with Some at_ => billed at_ | None => 0 end) (r, q)) as F.
    cbv zeta in F. destruct F as (F1&F2&F3&F4&F5&F6&F7&F8&F9&F10&F11&F12&F13&F14).
    destruct I1. constructor; try (apply (GInv_view s1); [assumption | unfold gkl; rewrite F3; reflexivity | assumption | assumption]);
      unfold kgl, gkl, bkl in *; rewrite ?F1, ?F3, ?F6, ?F11, ?F13, ?F14; assumption.
  - apply AInv4_add_one_resource, A.
Qed.

(* ------------------------------------------------------------------ growth: new batches / groups *)

Lemma anc_ids_ext s s' ext b0 g0 :
  ancestors s' = ancestors s ++ ext ->
  (forall b g a l, In (b, g, a, l) ext -> ~ (b = b0 /\ g = g0)) ->
  anc_ids s' b0 g0 = anc_ids s b0 g0.
Proof.
  intros Ha Hext. unfold anc_ids, anc_rows. rewrite Ha, filter_app.
  assert (filter (fun r => let '(b', g', _, _) := r in (b' =? b0) && (g' =? g0)) ext = []) as ->.
  { clear Ha. induction ext as [|[[[b g] a] l] ext IH]; cbn [filter]; [reflexivity|].
    destruct ((b =? b0) && (g =? g0)) eqn:E.
    - exfalso. apply (Hext b g a l); [left; reflexivity | lia].
    - apply IH. intros; eapply Hext; right; eassumption. }
  rewrite app_nil_r. reflexivity.
Qed.

(** new group rows / batch rows / ancestor rows are appended; jobs, attempts, resources and tables stay *)
Lemma BInv_grow s s' gx bx ext :
  BInv s ->
  kgl s' = kgl s -> attempts s' = attempts s -> attempt_res s' = attempt_res s ->
  agg_job s' = agg_job s -> agg_group s' = agg_group s -> agg_bp s' = agg_bp s -> agg_date s' = agg_date s ->
  gkl s' = gkl s ++ gx -> bkl s' = bkl s ++ bx -> ancestors s' = ancestors s ++ ext ->
  next_batch s <= next_batch s' ->
  (forall b u p, In (b, u, p) bx -> b < next_batch s') ->
  (forall b g, In (b, g) gx -> ~ In (b, g) (gkl s) /\ b < next_batch s') ->
  (forall b g a x, In (b, g, a, x) ext -> In (b, g) gx /\ a <= g) ->
  (forall b g, In (b, g) gx -> NoDup (aids ext b g)) ->
  BInv s'.
Proof.
  intros [I A] Hk Hat Hr Aj Ag Ab Ad Hg Hb Ha Hn Hbx Hgx Hext Hnd.
  pose proof (si_g s I) as G.
  assert (Hsplit : forall b g, anc_ids s' b g = anc_ids s b g ++ aids ext b g).
  { intros b g. rewrite !anc_ids_aids, Ha, aids_app. reflexivity. }
  assert (Hanc : forall b g, In (b, g) (gkl s) -> anc_ids s' b g = anc_ids s b g).
  { intros b g Hin. rewrite Hsplit, aids_none, app_nil_r; [reflexivity|].
    intros b' g' a x Hx [-> ->]. destruct (Hext _ _ _ _ Hx) as [Hx' _]. destruct (Hgx _ _ Hx') as [Hno _]. contradiction. }
  assert (Hrow : forall b j a r q, In ([b; j; a; r], [q]) (attempt_res s) ->
                   kf_group s' b j r = kf_group s b j r /\ kf_bp s' b j r = kf_bp s b j r).
  { intros b j a r q Hin. pose proof (si_res s I _ _ _ _ _ Hin) as Hj.
    destruct (jlook (kgl s) b j) as [g|] eqn:Eg; [|contradiction].
    pose proof (jlook_in _ _ _ _ Eg) as Eg'. destruct (si_refs s I _ _ _ Eg') as [Hgk Hbk]. split.
    - unfold kf_group. rewrite !jgroup_kgl, Hk, Eg. rewrite Hanc by assumption. reflexivity.
    - unfold kf_bp. rewrite !batch_bp_bkl, !batch_user_bkl, Hb, blook_app.
      destruct (blook (bkl s) b); [reflexivity | contradiction]. }
  split.
  - destruct I. constructor.
    + rewrite Hk; assumption.
    + intros b j g Hin. rewrite Hk in Hin. destruct (si_refs0 _ _ _ Hin) as [H1 H2]. split.
      * rewrite Hg. apply in_or_app; left; exact H1.
      * rewrite Hb, blook_app. destruct (blook (bkl s) b); [discriminate | contradiction].
    + rewrite Hk, Hat; assumption.
    + rewrite Hk, Hr; assumption.
    + intros b u p Hin. rewrite Hb in Hin. apply in_app_or in Hin. destruct Hin as [Hin|Hin].
      * apply si_fresh0 in Hin. lia.
      * eapply Hbx; exact Hin.
    + constructor.
      * intros b g a x Hin. rewrite Ha in Hin. rewrite Hg. apply in_app_or in Hin. destruct Hin as [Hin|Hin].
        -- destruct (gi_ref s G _ _ _ _ Hin) as [H1 H2]. split; [apply in_or_app; left; exact H1 | exact H2].
        -- destruct (Hext _ _ _ _ Hin) as [H1 H2]. split; [apply in_or_app; right; exact H1 | exact H2].
      * intros b g. rewrite Hsplit. destruct (aids ext b g) as [|a l] eqn:E.
        -- rewrite app_nil_r. apply (gi_nodup s G).
        -- assert (Hin : In a (aids ext b g)) by (rewrite E; left; reflexivity).
           apply in_aids in Hin. destruct Hin as (x & Hx). destruct (Hext _ _ _ _ Hx) as [Hx' _].
           destruct (Hgx _ _ Hx') as [Hno _]. rewrite (GInv_no_rows s b g G Hno). cbn [app]. rewrite <- E. apply Hnd, Hx'.
      * intros b g Hin. rewrite Hg in Hin. apply in_app_or in Hin. destruct Hin as [Hin|Hin].
        -- apply (gi_fresh s G) in Hin. lia.
        -- apply (Hgx _ _ Hin).
  - destruct A. constructor.
    + apply (AggOK_congr agg_job kf_job s s'); auto. intros; split; [reflexivity | apply billed_of_view, Hat].
    + apply (AggOK_congr agg_group kf_group s s'); auto.
      intros b j a r q Hin; split; [apply (Hrow b j a r q Hin) | apply billed_of_view, Hat].
    + apply (AggOK_congr agg_bp kf_bp s s'); auto.
      intros b j a r q Hin; split; [apply (Hrow b j a r q Hin) | apply billed_of_view, Hat].
    + apply (AggOK_congr agg_date kf_bp s s'); auto.
      intros b j a r q Hin; split; [apply (Hrow b j a r q Hin) | apply billed_of_view, Hat].
Qed.

(* ------------------------------------------------------------------ growth: new jobs *)

Lemma BInv_new_jobs s s' new :
  BInv s ->
  kgl s' = kgl s ++ new -> gkl s' = gkl s -> ancestors s' = ancestors s -> bkl s' = bkl s ->
  attempts s' = attempts s -> attempt_res s' = attempt_res s ->
  agg_job s' = agg_job s -> agg_group s' = agg_group s -> agg_bp s' = agg_bp s -> agg_date s' = agg_date s ->
  next_batch s' = next_batch s ->
  (forall b j g, In (b, j, g) new -> jlook (kgl s) b j = None /\ In (b, g) (gkl s) /\ blook (bkl s) b <> None) ->
  (forall b j g g', In (b, j, g) new -> In (b, j, g') new -> g = g') ->
  BInv s'.
Proof.
  intros [I A] Hk Hg Ha Hb Hat Hr Aj Ag Ab Ad Hn Hnew Hfun.
  assert (Hlook : forall b j, jlook (kgl s) b j <> None -> jlook (kgl s') b j = jlook (kgl s) b j).
  { intros b j H. rewrite Hk, jlook_app. destruct (jlook (kgl s) b j); [reflexivity | contradiction]. }
  split.
  - destruct I. constructor.
    + intros b j g g' H1 H2. rewrite Hk in H1, H2. apply in_app_or in H1; apply in_app_or in H2.
      destruct H1 as [H1|H1], H2 as [H2|H2].
      * eapply si_kg0; eassumption.
      * exfalso. destruct (Hnew _ _ _ H2) as [Hn2 _]. exact (in_jlook _ _ _ _ H1 Hn2).
      * exfalso. destruct (Hnew _ _ _ H1) as [Hn1 _]. exact (in_jlook _ _ _ _ H2 Hn1).
      * eapply Hfun; eassumption.
    + intros b j g Hin. rewrite Hk in Hin. rewrite Hg, Hb. apply in_app_or in Hin. destruct Hin as [Hin|Hin].
      * apply si_refs0 in Hin. exact Hin.
      * destruct (Hnew _ _ _ Hin) as (_ & H1 & H2). split; assumption.
    + intros c Hc. rewrite Hat in Hc. rewrite Hlook; apply si_att0; exact Hc.
    + intros b j a r q Hin. rewrite Hr in Hin. rewrite Hlook; eapply si_res0; exact Hin.
    + rewrite Hb, Hn; assumption.
    + apply (GInv_view s s'); assumption.
  - destruct A. constructor.
    + apply (AggOK_congr agg_job kf_job s s'); auto. intros; split; [reflexivity | apply billed_of_view, Hat].
    + apply (AggOK_congr agg_group kf_group s s'); auto.
      intros b j a r q Hin; split; [|apply billed_of_view, Hat].
      unfold kf_group. rewrite !jgroup_kgl, Hlook by (eapply (si_res s I); exact Hin).
      unfold anc_ids, anc_rows. rewrite Ha. reflexivity.
    + apply (AggOK_congr agg_bp kf_bp s s'); auto.
      intros; split; [apply kf_bp_view, Hb | apply billed_of_view, Hat].
    + apply (AggOK_congr agg_date kf_bp s s'); auto.
      intros; split; [apply kf_bp_view, Hb | apply billed_of_view, Hat].
Qed.
