(** Transfer of [DInv] along a row-wise rewriting of the jobs table.

    If [jobs s' = map h (jobs s)] with [h] preserving the immutable columns, the updates, dependency edges,
    ancestors, staging rows and the batch counter are unchanged, groups and batches keep their keys, and every
    rewritten row satisfies [job_ok] in the new state, then [DInv s'].  The per-op work is reduced to the
    [job_ok] obligation. *)
From HailV Require Import Common.Prelude BatchDB.Model BatchDB.Tables BatchDB.CMap BatchDB.JobsWF BatchDB.StepCore
  BatchDB.JobFold BatchDB.Legal BatchDB.DepsDef BatchDB.DepsEasy.
Open Scope Z_scope.

Definition gk (g : group) : Z * Z := (g_batch g, g_id g).

Lemma find_group_none s b g : find_group s b g = None <-> ~ In (b, g) (map gk (groups s)).
Proof.
  unfold find_group. split.
  - intros F Hin. apply in_map_iff in Hin. destruct Hin as (x & Hx & Hin).
    pose proof (find_none _ _ F x Hin) as E. cbv beta in E. unfold gk in Hx. injection Hx as <- <-.
    rewrite !Z.eqb_refl in E. discriminate.
  - intros Hn. destruct (find _ (groups s)) as [x|] eqn:F; [|reflexivity].
    exfalso. apply find_some in F. destruct F as (Hin & E). apply andb_true_iff in E. destruct E as [E1 E2].
    apply Hn. apply in_map_iff. exists x. split; [unfold gk; f_equal; lia | exact Hin].
Qed.

Lemma find_batch_none s b : find_batch s b = None <-> ~ In b (map b_id (batches s)).
Proof.
  unfold find_batch. split.
  - intros F Hin. apply in_map_iff in Hin. destruct Hin as (x & Hx & Hin).
    pose proof (find_none _ _ F x Hin) as E. cbv beta in E. subst b. rewrite Z.eqb_refl in E. discriminate.
  - intros Hn. destruct (find _ (batches s)) as [x|] eqn:F; [|reflexivity].
    exfalso. apply find_some in F. destruct F as (Hin & E). apply Hn. apply in_map_iff. exists x. split; [lia | exact Hin].
Qed.

Section MapJobs.
  Variables (s s' : state) (h : job -> job).
  Hypothesis Hjobs : jobs s' = map h (jobs s).
  Hypothesis Hstatic : forall y, In y (jobs s) -> static y (h y).
  Hypothesis Hupd : updates s' = updates s.
  Hypothesis Hpar : parents s' = parents s.
  Hypothesis Hstg : staging s' = staging s.
  Hypothesis Hanc : ancestors s' = ancestors s.
  Hypothesis Hnb : next_batch s' = next_batch s.
  Hypothesis Hgk : map gk (groups s') = map gk (groups s).
  Hypothesis Hbk : map b_id (batches s') = map b_id (batches s).
  Hypothesis D : DInv s.

  Lemma mj_find_job b j : find_job s' b j = option_map h (find_job s b j).
  Proof.
    rewrite !find_job_eq, Hjobs.
    assert (H : forall l, (forall y, In y l -> In y (jobs s)) -> find (jkey b j) (map h l) = option_map h (find (jkey b j) l)).
    { induction l as [|y l IH]; intros Hin; [reflexivity|]. cbn [map find].
      rewrite <- (jkey_static b j y (h y) (Hstatic y (Hin y (or_introl eq_refl)))).
      destruct (jkey b j y); [reflexivity|]. apply IH. intros z Hz. apply Hin. right; exact Hz. }
    apply H. auto.
  Qed.

  Lemma mj_find_update b u : find_update s' b u = find_update s b u.
  Proof. unfold find_update. rewrite Hupd. reflexivity. Qed.
  Lemma mj_committed b u : committed s' b u = committed s b u.
  Proof. unfold committed. rewrite mj_find_update. reflexivity. Qed.
  Lemma mj_parents_of b j : parents_of s' b j = parents_of s b j.
  Proof. unfold parents_of, edges_of. rewrite Hpar. reflexivity. Qed.
  Lemma mj_jcommitted y : In y (jobs s) -> jcommitted s' (h y) = jcommitted s y.
  Proof. intros Hy. destruct (Hstatic y Hy) as (S1 & _ & S3 & _). unfold jcommitted. rewrite mj_committed, <- S1, <- S3. reflexivity. Qed.
  Lemma mj_find_group_none b g : find_group s' b g = None <-> find_group s b g = None.
  Proof. rewrite !find_group_none, Hgk. tauto. Qed.
  Lemma mj_find_batch_none b : find_batch s' b = None <-> find_batch s b = None.
  Proof. rewrite !find_batch_none, Hbk. tauto. Qed.
  Lemma mj_pstate b p : pstate s' b p = option_map (fun y => j_state (h y)) (find_job s b p).
  Proof. unfold pstate. rewrite mj_find_job. destruct (find_job s b p); reflexivity. Qed.

  Hypothesis Hok : forall y, In y (jobs s) -> job_ok s' (h y).

  Lemma map_DInv : DInv s'.
  Proof.
    pose proof D as [d_jkeys0 d_ukeys0 d_upos0 d_uorder0 d_jrange0 d_edges0 d_enodup0 d_jobs0 d_staged0 d_root0 d_gcontig0 d_gkeys0 d_jgroup0
                     d_bfresh0 d_gbatch0 d_ancgrp0 d_ufirst0].
    constructor.
    - unfold Kjobs, Kjobs_list. rewrite Hjobs, map_map.
      replace (map (fun x => jk (h x)) (jobs s)) with (map jk (jobs s)); [exact d_jkeys0|].
      apply map_ext_in. intros y Hy. destruct (Hstatic y Hy) as (S1 & S2 & _). unfold jk. congruence.
    - rewrite Hupd. assumption.
    - rewrite Hupd. assumption.
    - rewrite Hupd. assumption.
    - rewrite Hjobs. intros x Hx. apply in_map_iff in Hx. destruct Hx as (y & <- & Hy).
      destruct (d_jrange0 y Hy) as (up & F & R). destruct (Hstatic y Hy) as (S1 & S2 & S3 & _).
      exists up. rewrite mj_find_update, <- S1, <- S2, <- S3. tauto.
    - rewrite Hpar. intros [[b j] p] He. specialize (d_edges0 _ He). cbn in *.
      destruct d_edges0 as (R & x & up & F1 & F2 & F3). split; [exact R|].
      pose proof (find_jkey_sound _ _ _ _ F1) as (Hx & _). destruct (Hstatic x Hx) as (S1 & S2 & S3 & _).
      exists (h x), up. rewrite mj_find_job, F1, mj_find_update, <- S3. repeat split; try assumption.
      intros Hp. destruct (F3 Hp) as (y & Fy & Cy). exists (h y). rewrite mj_find_job, Fy. split; [reflexivity|].
      apply find_jkey_sound in Fy. destruct Fy as (Hy & _). rewrite (mj_jcommitted y Hy). exact Cy.
    - rewrite Hpar. assumption.
    - rewrite Hjobs. intros x Hx. apply in_map_iff in Hx. destruct Hx as (y & <- & Hy). apply Hok. exact Hy.
    - rewrite Hupd. intros u Hu Hc. specialize (d_staged0 u Hu Hc).
      unfold root_staged, n_jobs_of in *. rewrite Hstg, Hjobs. rewrite d_staged0. f_equal.
      symmetry. apply length_filter_map_upd. intros y Hy. destruct (Hstatic y Hy) as (S1 & _ & S3 & _). auto.
    - intros g Hg. assert (Hin : In (gk g) (map gk (groups s))) by (rewrite <- Hgk; apply in_map; exact Hg).
      apply in_map_iff in Hin. destruct Hin as (g0 & Hk & Hg0). specialize (d_root0 g0 Hg0).
      unfold root_once, anc_ids, anc_rows in *. rewrite Hanc. unfold gk in Hk. injection Hk as K1 K2. rewrite <- K1, <- K2. exact d_root0.
    - intros g Hg g' R. assert (Hin : In (gk g) (map gk (groups s))) by (rewrite <- Hgk; apply in_map; exact Hg).
      apply in_map_iff in Hin. destruct Hin as (g0 & Hk & Hg0). unfold gk in Hk. injection Hk as K1 K2.
      rewrite mj_find_group_none. rewrite <- K1. apply (d_gcontig0 g0 Hg0). lia.
    - change (map (fun g => (g_batch g, g_id g)) (groups s')) with (map gk (groups s')). rewrite Hgk. exact d_gkeys0.
    - rewrite Hjobs. intros x Hx. apply in_map_iff in Hx. destruct Hx as (y & <- & Hy).
      destruct (Hstatic y Hy) as (S1 & _ & _ & S4 & _). rewrite mj_find_group_none, <- S1, <- S4. apply (d_jgroup0 y Hy).
    - rewrite Hnb. intros bt Hbt. assert (Hin : In (b_id bt) (map b_id (batches s))) by (rewrite <- Hbk; apply in_map; exact Hbt).
      apply in_map_iff in Hin. destruct Hin as (b0 & E & Hb0). rewrite <- E. apply d_bfresh0. exact Hb0.
    - intros g Hg. assert (Hin : In (gk g) (map gk (groups s))) by (rewrite <- Hgk; apply in_map; exact Hg).
      apply in_map_iff in Hin. destruct Hin as (g0 & Hk & Hg0). unfold gk in Hk. injection Hk as K1 K2.
      rewrite mj_find_batch_none, <- K1. apply (d_gbatch0 g0 Hg0).
    - rewrite Hanc. intros r Hr. rewrite mj_find_group_none. apply (d_ancgrp0 r Hr).
    - rewrite Hupd. assumption.
  Qed.
End MapJobs.
