(** C04 — how one transaction may change a job row (lifecycle), and the corollaries used by C05 / C41.

    [allowed a b]            the lifecycle relation of the property text (exactly);
    [jchange s o x x']       row [x] of state [s] may become [x'] by transaction [o]:
                               immutable columns kept, [allowed] state pair, cancelled mark kept,
                               Creating/Running entered only by schedule / creating / started for THIS job, which is then
                               not cancelled and belongs to a committed update,
                               attempt id changed only by a driver message for THIS job or by an instance deactivation,
                               terminal state reached only by a completion message for THIS job,
                               rows of uncommitted updates touched only by the commit of their update;
    [step_job_change]        every existing job is rewritten according to [jchange] by every good step from a [DInv] state
                             ([DAux s] is in the statement for uniformity with [Deps.good_invariant]; it is not used);
    histories                [transitions_allowed], [terminal_absorbing], [pending_never_starts], [pending_passes_ready];
    corollaries              (a) [cancelled_never_starts(_step)] for C05, (b) [uncommitted_inert(_step)] for C41,
                             (c) [always_run_schedulable] for C05; [group_cancelled_step] (marks only grow).

    The per-op characterisations of the jobs table ([mc_h], [cm_h], [gmap deact_P deact_F], append) are those of the
    [DInv] preservation proofs (DepsMC*, DepsCommit*, DepsDeactivate, DepsCreateJobs); the fragments that are buried inside
    those proofs are re-proved here. *)
From HailV Require Import Common.Prelude BatchDB.Model BatchDB.Tables BatchDB.CMap BatchDB.JobsWF BatchDB.StepCore
  BatchDB.JobFold BatchDB.KidsFold BatchDB.Legal BatchDB.DepsDef BatchDB.DepsEasy BatchDB.DepsMap BatchDB.DepsDriver
  BatchDB.DepsDeactivate BatchDB.DepsMC1 BatchDB.DepsMC2 BatchDB.DepsMC3 BatchDB.DepsMC4
  BatchDB.DepsCommit1 BatchDB.DepsCommit2 BatchDB.DepsCommit3 BatchDB.DepsCommit4
  BatchDB.DepsStruct BatchDB.DepsCreateJobs BatchDB.DepsAux BatchDB.Deps BatchDB.DepsCorollaries.
From HailV Require BatchDB.StepFrame BatchDB.Cancel.
From RecordUpdate Require Import RecordSet.
Import RecordSetNotations.
Open Scope Z_scope.

(* ------------------------------------------------------------------ the lifecycle relation *)

(** Exactly the relation of the property text: a state may stay; Pending -> Ready; Ready -> Creating | Running | terminal;
    Creating -> Running | Ready (attempt withdrawn) | terminal; Running -> Ready (attempt withdrawn) | terminal;
    nothing leaves a terminal state; Pending goes nowhere but Ready. *)
Definition allowed (a b : jstate) : Prop :=
  a = b \/
  match a with
  | Pending => b = Ready
  | Ready => b = Creating \/ b = Running \/ terminal b = true
  | Creating => b = Running \/ b = Ready \/ terminal b = true
  | Running => b = Ready \/ terminal b = true
  | Success | Failed | Error | Cancelled => False
  end.

(** the same relation as an explicit table *)
Definition allowedb (a b : jstate) : bool :=
  match a, b with
  | Pending, (Pending | Ready) => true
  | Ready, (Ready | Creating | Running | Success | Failed | Error | Cancelled) => true
  | Creating, (Creating | Running | Ready | Success | Failed | Error | Cancelled) => true
  | Running, (Running | Ready | Success | Failed | Error | Cancelled) => true
  | Success, Success | Failed, Failed | Error, Error | Cancelled, Cancelled => true
  | _, _ => false
  end.

Lemma allowed_iff a b : allowed a b <-> allowedb a b = true.
Proof.
  unfold allowed. destruct a, b; cbn; split; intros H; try reflexivity; try discriminate;
    try (left; reflexivity); try (right; tauto); try (right; reflexivity);
    repeat match goal with
           | H : _ \/ _ |- _ => destruct H
           | H : False |- _ => contradiction
           end; try discriminate.
Qed.

Lemma allowed_refl a : allowed a a.
Proof. left. reflexivity. Qed.

Lemma allowed_terminal a b : allowed a b -> terminal a = true -> b = a.
Proof. intros [E|H] T; [auto|]. destruct a; cbn in *; try discriminate; contradiction. Qed.

Lemma allowed_pending b : allowed Pending b -> b = Pending \/ b = Ready.
Proof. intros [E|H]; [left; auto | right; exact H]. Qed.

(* ------------------------------------------------------------------ which transactions may start a job / change its attempt *)

Definition start_op (o : op) (b j : Z) : Prop :=
  match o with
  | ScheduleJob b' j' _ _ => b' = b /\ j' = j
  | MarkCreating b' j' _ _ _ => b' = b /\ j' = j
  | MarkStarted b' j' _ _ _ => b' = b /\ j' = j
  | _ => False
  end.

(** a driver / worker message about job (b, j), or an instance deactivation (which withdraws the attempt: the row [x']
    that results has no attempt and is Ready) *)
Definition attempt_op (o : op) (b j : Z) (x' : job) : Prop :=
  match o with
  | ScheduleJob b' j' _ _ => b' = b /\ j' = j
  | MarkCreating b' j' _ _ _ => b' = b /\ j' = j
  | MarkStarted b' j' _ _ _ => b' = b /\ j' = j
  | UnscheduleJob b' j' _ _ _ _ => b' = b /\ j' = j
  | MarkComplete b' j' _ _ _ _ _ _ => b' = b /\ j' = j
  | DeactivateInstance _ _ _ => j_attempt x' = None /\ j_state x' = Ready
  | _ => False
  end.

Definition complete_op (o : op) (b j : Z) : Prop :=
  match o with MarkComplete b' j' _ _ _ _ _ _ => b' = b /\ j' = j | _ => False end.

Definition commit_op (o : op) (b u : Z) : Prop :=
  match o with Commit b' u' _ => b' = b /\ u' = u | _ => False end.

Record jchange (s : state) (o : op) (x x' : job) : Prop := {
  jc_static : static x x';
  jc_allowed : allowed (j_state x) (j_state x');
  jc_cancelled : j_cancelled x = true -> j_cancelled x' = true;
  jc_enter : j_state x' = Creating \/ j_state x' = Running -> j_state x' <> j_state x ->
             start_op o (j_batch x) (j_id x) /\ is_job_cancelled s x = Some false /\ jcommitted s x = true;
  jc_attempt : j_attempt x' <> j_attempt x -> attempt_op o (j_batch x) (j_id x) x';
  (* a row becomes terminal only by a completion message for this job *)
  jc_complete : terminal (j_state x') = true -> j_state x' <> j_state x -> complete_op o (j_batch x) (j_id x);
  (* a row of an uncommitted update is touched only by the commit of that update *)
  jc_touched : x' = x \/ jcommitted s x = true \/ commit_op o (j_batch x) (j_update x) }.

Lemma jchange_refl s o x : jchange s o x x.
Proof.
  constructor; [apply static_refl | apply allowed_refl | auto | | | | left; reflexivity]; intros; exfalso; auto.
Qed.

(* ------------------------------------------------------------------ rewriting the jobs table *)

Definition rewrites (s s' : state) (R : job -> job -> Prop) : Prop :=
  forall b j x, find_job s b j = Some x -> exists x', find_job s' b j = Some x' /\ R x x'.

Lemma find_jkey_map (h : job -> job) b j l :
  (forall y, In y l -> static y (h y)) -> find (jkey b j) (map h l) = option_map h (find (jkey b j) l).
Proof.
  induction l as [|y l IH]; intros Hs; [reflexivity|]. cbn [map find].
  rewrite <- (jkey_static b j y (h y) (Hs y (or_introl eq_refl))).
  destruct (jkey b j y); [reflexivity|]. apply IH. intros z Hz. apply Hs. right. exact Hz.
Qed.

Lemma rewrites_map s s' (h : job -> job) new (R : job -> job -> Prop) :
  jobs s' = map h (jobs s) ++ new ->
  (forall y, In y (jobs s) -> static y (h y)) ->
  (forall y, In y (jobs s) -> R y (h y)) ->
  rewrites s s' R.
Proof.
  intros E Hs HR b j x F. rewrite find_job_eq in *. rewrite E, find_jkey_app, (find_jkey_map h b j _ Hs), F. cbn.
  exists (h x). split; [reflexivity|]. apply HR. apply find_jkey_sound in F. tauto.
Qed.

Lemma rewrites_same s s' (R : job -> job -> Prop) :
  jobs s' = jobs s -> (forall y, R y y) -> rewrites s s' R.
Proof.
  intros E HR. apply (rewrites_map s s' (fun y => y) []); [rewrite map_id, app_nil_r; exact E | intros; apply static_refl | auto].
Qed.

Lemma rewrites_append s s' new (R : job -> job -> Prop) :
  jobs s' = jobs s ++ new -> (forall y, R y y) -> rewrites s s' R.
Proof.
  intros E HR. apply (rewrites_map s s' (fun y => y) new); [rewrite map_id; exact E | intros; apply static_refl | auto].
Qed.

(** one [update_job] of the row found under key (b, j), after sub-procedures that leave the jobs table alone *)
Lemma rewrites_update_job s s1 x n b j (R : job -> job -> Prop) :
  jobs s1 = jobs s -> find_job s b j = Some x -> static x n ->
  R x n -> (forall y, R y y) -> rewrites s (update_job s1 x n) R.
Proof.
  intros E F St Rn HR b' j' y Fy. rewrite find_job_update_job.
  assert (E1 : find_job s1 b' j' = find_job s b' j') by (unfold find_job; rewrite E; reflexivity).
  rewrite E1, Fy. cbn.
  destruct (jkey b' j' n) eqn:K.
  - exists n. split; [reflexivity|].
    apply jkey_true in K. destruct K as [K1 K2]. destruct St as (S1 & S2 & _).
    pose proof (find_job_static_key _ _ _ _ F) as (B & J).
    assert (Eb : b' = b) by congruence. assert (Ej : j' = j) by congruence.
    rewrite Eb, Ej, F in Fy. injection Fy as <-. exact Rn.
  - exists y. split; [reflexivity | apply HR].
Qed.

(* ------------------------------------------------------------------ one row written by a driver message *)

Lemma jchange_set s o x st att :
  jcommitted s x = true ->
  allowed (j_state x) st ->
  (st = Creating \/ st = Running -> st <> j_state x ->
   start_op o (j_batch x) (j_id x) /\ is_job_cancelled s x = Some false) ->
  (att <> j_attempt x -> attempt_op o (j_batch x) (j_id x) (x <| j_state := st |> <| j_attempt := att |>)) ->
  (terminal st = true -> st <> j_state x -> complete_op o (j_batch x) (j_id x)) ->
  jchange s o x (x <| j_state := st |> <| j_attempt := att |>).
Proof.
  intros Hc Ha He Hat Ht. destruct x as [xb xi xu xg xs xa xc xn xcn xat xic]. cbn in *.
  constructor; cbn; auto.
  - repeat split.
  - intros H1 H2. destruct (He H1 H2). auto.
Qed.

Lemma set_state_attempt_static x st att : static x (x <| j_state := st |> <| j_attempt := att |>).
Proof. destruct x; repeat split. Qed.

Lemma runnable_not_cancelled s x : StepFrame.runnable s x -> is_job_cancelled s x = Some false.
Proof.
  unfold StepFrame.runnable, is_job_cancelled, group_cancelled. intros [A | (A & B)]; rewrite A; cbn [negb andb]; [reflexivity|].
  rewrite B. destruct (j_always x); reflexivity.
Qed.

Lemma legal_schedule_committed s b j a i x :
  legal s (ScheduleJob b j a i) -> find_job s b j = Some x -> jcommitted s x = true.
Proof.
  unfold legal, legalb. intros L F. apply andb_true_iff in L. destruct L as [L _]. exact (legal_job_committed _ _ _ _ L F).
Qed.

Lemma jchange_schedule s b j a i :
  legal s (ScheduleJob b j a i) ->
  rewrites s (fst (do_schedule s b j a i)) (jchange s (ScheduleJob b j a i)).
Proof.
  intros L. pose proof (StepFrame.do_schedule_shape s b j a i) as H. cbv zeta in H.
  destruct H as [C | (x & s1 & Fx & C & Rn & St & E)].
  - apply rewrites_same; [apply (StepFrame.sc_jobs _ _ C) | intros; apply jchange_refl].
  - rewrite E. pose proof (find_job_static_key _ _ _ _ Fx) as (B & J).
    apply (rewrites_update_job s s1 x _ b j);
      [apply (StepFrame.sc_jobs _ _ C) | exact Fx | apply set_state_attempt_static | | intros; apply jchange_refl].
    apply jchange_set.
    + exact (legal_schedule_committed _ _ _ _ _ _ L Fx).
    + right. destruct St as [-> | ->]; cbn; auto.
    + intros _ _. split; [cbn; auto | apply runnable_not_cancelled; exact Rn].
    + intros _. cbn. auto.
    + intros H; discriminate.
Qed.

Lemma jchange_creating_started (c : bool) s b j a i t o :
  o = (if c then MarkCreating b j a i t else MarkStarted b j a i t) ->
  job_committed s b j = true ->
  rewrites s (fst (do_mark_creating_or_started c s b j a i t)) (jchange s o).
Proof.
  intros Eo L. pose proof (StepFrame.do_mcs_shape c s b j a i t) as H. cbv zeta in H.
  destruct H as [C | (x & s1 & Fx & C & Rn & St & E)].
  - apply rewrites_same; [apply (StepFrame.sc_jobs _ _ C) | intros; apply jchange_refl].
  - rewrite E. pose proof (find_job_static_key _ _ _ _ Fx) as (B & J).
    apply (rewrites_update_job s s1 x _ b j);
      [apply (StepFrame.sc_jobs _ _ C) | exact Fx | apply set_state_attempt_static | | intros; apply jchange_refl].
    apply jchange_set.
    + exact (legal_job_committed _ _ _ _ L Fx).
    + right. rewrite St. destruct c; cbn; auto.
    + intros _ _. split; [subst o; destruct c; cbn; auto | apply runnable_not_cancelled; exact Rn].
    + intros _. subst o; destruct c; cbn; auto.
    + intros H; destruct c; discriminate.
Qed.

Lemma jchange_unschedule s b j a i t r :
  job_committed s b j = true ->
  rewrites s (fst (do_unschedule s b j a i t r)) (jchange s (UnscheduleJob b j a i t r)).
Proof.
  intros L. unfold do_unschedule. destruct (find_job s b j) as [x|] eqn:F.
  2:{ match goal with |- context [if ?c then _ else _] => destruct c end;
        (apply rewrites_same; [reflexivity | intros; apply jchange_refl]). }
  set (s1 := match find_attempt s b j a with Some c => update_attempt s c _ | None => s end).
  assert (C1 : core_eq s s1).
  { subst s1. destruct (find_attempt s b j a); [apply core_eq_update_attempt | apply core_eq_refl]. }
  match goal with |- context [if ?g then match find_inst s1 i with _ => _ end else s1] =>
    set (s2 := if g then match find_inst s1 i with Some y => s1 <| insts ::= replace_inst (y <| i_free := i_free y + j_cores x |>) |> | None => s1 end else s1) end.
  assert (C2 : core_eq s s2).
  { subst s2. match goal with |- context [if ?g then _ else _] => destruct g end; [|exact C1].
    destruct (find_inst s1 i); [|exact C1]. eapply core_eq_trans; [exact C1 | apply core_eq_insts]. }
  destruct C2 as (_&_&_&_&_&E6&_).
  pose proof (find_job_static_key _ _ _ _ F) as (B & J).
  match goal with |- context [if ?c then (update_job _ _ _, _) else _] => destruct c eqn:Cond end; cbn [fst].
  - apply (rewrites_update_job s s2 x _ b j);
      [exact E6 | exact F | apply set_state_attempt_static | | intros; apply jchange_refl].
    apply andb_true_iff in Cond. destruct Cond as [Cond _].
    apply jchange_set.
    + exact (legal_job_committed _ _ _ _ L F).
    + right. apply orb_true_iff in Cond. destruct Cond as [E|E]; apply jstate_eqb_eq in E; rewrite E; cbn; auto.
    + intros [H|H]; discriminate.
    + intros _. cbn. auto.
    + intros H; discriminate.
  - apply rewrites_same; [exact E6 | intros; apply jchange_refl].
Qed.

(* ------------------------------------------------------------------ instance deactivation *)

Lemma deactivate_jobs s name reason time :
  DInv s ->
  jobs (fst (do_deactivate s name reason time)) = jobs s \/
  exists s1, jobs (fst (do_deactivate s name reason time)) = map (gmap (deact_P s1 name) deact_F) (jobs s).
Proof.
  intros D. unfold do_deactivate. destruct (find_inst s name) as [x|]; [|left; reflexivity].
  destruct (ilive (i_state x)); [|left; reflexivity]. cbn [fst]. right.
  match goal with |- context [fold_left ?g (attempts s) s] => set (s1 := fold_left g (attempts s) s) end.
  assert (C1 : core_eq s s1).
  { subst s1. apply core_eq_fold. intros st a. destruct (a_inst a =? name); [|apply core_eq_refl].
    destruct (find_attempt st _ _ _); [apply core_eq_update_attempt | apply core_eq_refl]. }
  exists s1.
  change (fold_left _ (jobs s1) s1) with (fold_left (deact_step name) (jobs s1) s1).
  pose proof (fold_update_job_jobs (deact_P s1 name) deact_F deact_F_static (deact_step name)
                (fun st => attempts st = attempts s1)
                (fun st j H => deact_step_spec s1 name st j H)
                (fun st o n H => eq_trans (update_job_attempts st o n) H)
                (jobs s1) [] s1 eq_refl) as Hf.
  cbn [app map] in Hf. specialize (Hf (d_jkeys _ (DInv_core _ _ C1 D)) eq_refl). cbv zeta in Hf.
  destruct Hf as (Hj & _). destruct C1 as (_&_&_&_&_&E6&_).
  change (jobs (fold_left (deact_step name) (jobs s1) s1) = map (gmap (deact_P s1 name) deact_F) (jobs s)).
  rewrite Hj, E6. reflexivity.
Qed.

Lemma jchange_deactivate s name reason time :
  DInv s -> rewrites s (fst (do_deactivate s name reason time)) (jchange s (DeactivateInstance name reason time)).
Proof.
  intros D. destruct (deactivate_jobs s name reason time D) as [E | (s1 & E)].
  - apply rewrites_same; [exact E | intros; apply jchange_refl].
  - apply (rewrites_map _ _ (gmap (deact_P s1 name) deact_F) []); [rewrite app_nil_r; exact E | |].
    + intros y _. apply gmap_static. apply deact_F_static.
    + intros y Hy. unfold gmap. destruct (deact_P s1 name y) eqn:P; [|apply jchange_refl].
      assert (Cy : jcommitted s y = true).
      { destruct (jcommitted s y) eqn:Cy; [reflexivity|]. exfalso.
        pose proof (d_jobs _ D y Hy) as Ok. unfold job_ok in Ok. rewrite Cy in Ok. destruct Ok as [Na _].
        unfold deact_P in P. rewrite Na in P. discriminate. }
      unfold deact_P in P. destruct (j_attempt y); [|discriminate]. destruct (find_attempt s1 _ _ _); [|discriminate].
      apply andb_true_iff in P. destruct P as [_ P]. unfold deact_F.
      apply jchange_set.
      * exact Cy.
      * right. apply orb_true_iff in P. destruct P as [E'|E']; apply jstate_eqb_eq in E'; rewrite E'; cbn; auto.
      * intros [H|H]; discriminate.
      * intros _. cbn. destruct y; cbn. auto.
      * intros H; discriminate.
Qed.

(* ------------------------------------------------------------------ mark_job_complete *)

(** the jobs table after the completing part of mark_job_complete is [map mc_h] of the old one
    (fragment of [DepsMC4.DInv_mark_complete]) *)
Lemma mc_finish_jobs_map s s3 b j a x ns total :
  DInv s -> StepFrame.same_core s s3 -> find_job s b j = Some x ->
  jobs (StepFrame.mc_finish s3 x b j a ns total) = map (mc_h s b j x ns (if a =? -1 then None else Some a)) (jobs s).
Proof.
  intros D C Hx. unfold StepFrame.mc_finish. cbv zeta.
  set (att := if a =? -1 then None else Some a).
  set (x' := x <| j_state := ns |> <| j_attempt := att |>).
  set (s4 := update_job s3 x x').
  match goal with |- jobs (release_children (finish_groups ?q _ _) _ _ _) = _ => set (s6 := q) end.
  set (s7 := finish_groups s6 b (j_group x)).
  assert (J4 : jobs s4 = replace_job x' (jobs s)).
  { subst s4. rewrite update_job_jobs, (StepFrame.sc_jobs _ _ C). reflexivity. }
  assert (F7 : jobs s7 = jobs s4 /\ updates s7 = updates s4 /\ parents s7 = parents s4).
  { subst s7 s6. unfold finish_groups. match goal with |- context [if ?c then _ else _] => destruct c end; repeat split. }
  destruct F7 as (J7 & U7 & P7).
  assert (U4 : updates s4 = updates s) by (subst s4; rewrite update_job_updates; apply (StepFrame.sc_updates _ _ C)).
  assert (P4 : parents s4 = parents s) by (subst s4; rewrite update_job_parents; apply (StepFrame.sc_parents _ _ C)).
  rewrite release_children_fold.
  assert (K7 : Kjobs s7).
  { unfold Kjobs. rewrite J7, J4. apply Kjobs_replace. exact (d_jkeys _ D). }
  assert (Hk : kids_of s7 b j = kids_of s b j) by (unfold kids_of; rewrite P7, P4; reflexivity).
  pose proof (fold_kids b (fun y => committed s7 b (j_update y)) (child_G (jstate_eqb ns Success))
                (child_G_static _) (fun y y' (St : static y y') => f_equal (committed s7 b) (proj1 (proj2 (proj2 St))))
                (kids_of s7 b j)) as Fk.
  rewrite Hk in *. specialize (Fk (NoDup_kids_of s b j (d_enodup _ D)) s7 K7).
  destruct Fk as (JF & _).
  rewrite JF, J7, J4, replace_job_map, map_map. apply map_ext_in. intros y Hy.
  destruct (mc_x_in s b j x Hx) as (_ & E1 & E2).
  unfold mc_h. subst x'.
  replace (j_batch (x <| j_state := ns |> <| j_attempt := att |>)) with b by (destruct x; cbn in *; congruence).
  replace (j_id (x <| j_state := ns |> <| j_attempt := att |>)) with j by (destruct x; cbn in *; congruence).
  unfold kid_map. unfold committed, find_update. rewrite U7, U4. reflexivity.
Qed.

Lemma jchange_mc_h s b j a i ns st en r x :
  DInv s -> find_job s b j = Some x -> jcommitted s x = true ->
  j_state x = Ready \/ j_state x = Creating \/ j_state x = Running -> terminal ns = true ->
  forall y, In y (jobs s) ->
    jchange s (MarkComplete b j a i ns st en r) y (mc_h s b j x ns (if a =? -1 then None else Some a) y).
Proof.
  intros D Hx Hxc Hxs Hns y Hy.
  destruct (jkey b j y) eqn:K.
  - apply (mc_key_x s b j x D Hx y Hy) in K. subst y.
    rewrite (mc_h_x s b j x ns _ D Hx Hxc Hxs).
    destruct (mc_x_in s b j x Hx) as (_ & B & J).
    apply jchange_set.
    + exact Hxc.
    + right. destruct Hxs as [E|[E|E]]; rewrite E; cbn; auto.
    + intros [E|E]; rewrite E in Hns; discriminate.
    + intros _. cbn. auto.
    + intros _ _. cbn. auto.
  - assert (Hne : y <> x).
    { intros ->. destruct (mc_x_in s b j x Hx) as (_ & B & J).
      assert (K' : jkey b j x = true) by (apply jkey_true; auto). congruence. }
    rewrite (mc_h_other s b j x ns _ D Hx y Hy Hne). unfold kid_map.
    destruct ((j_batch y =? b) && existsb (Z.eqb (j_id y)) (kids_of s b j) && committed s b (j_update y)) eqn:E;
      [|apply jchange_refl].
    apply andb_true_iff in E. destruct E as [E Ec]. apply andb_true_iff in E. destruct E as [Eb Ek].
    apply existsb_eqb_in in Ek. assert (Eb' : j_batch y = b) by lia.
    destruct (mc_child_pending s b j x ns D Hx Hxs y Hy Eb' Ek Ec) as (P & _ & _).
    assert (Cy : jcommitted s y = true) by (unfold jcommitted; rewrite Eb'; exact Ec).
    unfold child_G. destruct y as [yb yi yu yg ys ya yc yn ycn yat yic]. cbn in *. subst ys.
    constructor; cbn.
    + repeat split.
    + destruct (yn =? 1); [right; reflexivity | left; reflexivity].
    + intros ->. destruct (jstate_eqb ns Success); reflexivity.
    + intros [H|H]; destruct (yn =? 1); discriminate.
    + intros H. exfalso. auto.
    + intros H. destruct (yn =? 1); discriminate.
    + right. left. exact Cy.
Qed.

Lemma jchange_mark_complete s b j a i ns st en r :
  DInv s -> legal s (MarkComplete b j a i ns st en r) ->
  rewrites s (fst (do_mark_complete s b j a i ns st en r)) (jchange s (MarkComplete b j a i ns st en r)).
Proof.
  intros D L. unfold legal, legalb in L.
  apply andb_true_iff in L. destruct L as [L _]. apply andb_true_iff in L. destruct L as [L _].
  apply andb_true_iff in L. destruct L as [Lc Lt].
  pose proof (StepFrame.do_mark_complete_shape s b j a i ns st en r) as H. cbv zeta in H.
  destruct H as [C | (x & s3 & Fx & C & Hxs & E)].
  - apply rewrites_same; [apply (StepFrame.sc_jobs _ _ C) | intros; apply jchange_refl].
  - rewrite E.
    apply (rewrites_map _ _ (mc_h s b j x ns (if a =? -1 then None else Some a)) []).
    + rewrite app_nil_r. apply mc_finish_jobs_map; assumption.
    + apply (mc_h_static s b j x ns _ D Fx (legal_job_committed _ _ _ _ Lc Fx) Hxs).
    + apply jchange_mc_h; auto. exact (legal_job_committed _ _ _ _ Lc Fx).
Qed.

(* ------------------------------------------------------------------ commit_batch_update *)

(** the jobs table after commit_batch_update: unchanged, or (update other than the first) the rows of the update are
    recomputed from their parents' states (fragment of [DepsCommit4.DInv_commit_proc]) *)
Lemma commit_proc_jobs s b u :
  DInv s ->
  jobs (fst (do_commit_proc s b u)) = jobs s \/
  exists up, find_update s b u = Some up /\ u_committed up = false /\ u <> 1 /\
             jobs (fst (do_commit_proc s b u)) = map (gmap (cm_T b up) (recompute_job s)) (jobs s).
Proof.
  intros D. unfold do_commit_proc. destruct (find_update s b u) as [up|] eqn:Fup; [|left; reflexivity].
  destruct (u_committed up) eqn:Hunc; [left; reflexivity|].
  set (staged_n := nth 0 (csum (fun k => key_eqb (firstn 3 k) [b; u; 0]) (staging s)) 0).
  destruct (staged_n =? u_njobs up) eqn:Hst; cbn [negb]; [|left; reflexivity].
  set (s1 := s <| updates ::= map _ |>).
  destruct (0 <? u_njobs up) eqn:Hpos; cbn [negb fst]; [|left; reflexivity].
  set (s2 := s1 <| batches ::= map _ |>).
  set (s3 := s2 <| groups ::= map _ |>).
  match goal with |- context [fold_left ?f (staging s) s3] => set (fu := f); set (s4 := fold_left fu (staging s) s3) end.
  assert (X4 : simx s3 s4 /\ jobs s4 = jobs s3).
  { apply (commit_user_res_fold fu (staging s) s3).
    intros st kv. subst fu. cbv beta.
    destruct kv as [k v]. destruct k as [|b' [|u' [|g' [|ic [|? ?]]]]]; try (left; reflexivity).
    destruct v as [|v0 [|nr [|rc [|? ?]]]]; try (left; reflexivity).
    destruct (_ && _); [right; eexists; eexists; reflexivity | left; reflexivity]. }
  destruct X4 as ((_ & P4 & _) & J4).
  assert (J4' : jobs s4 = jobs s) by (rewrite J4; reflexivity).
  assert (P4' : parents s4 = parents s) by (rewrite P4; reflexivity).
  destruct (u =? 1) eqn:U1'; cbn [fst]; [left; exact J4'|].
  right. exists up. split; [reflexivity|]. split; [exact Hunc|]. split; [lia|].
  rewrite fold_left_map, fold_left_filter.
  set (T4 := fun x : job => (j_batch x =? b) && (u_start_job up <=? j_id x) && (j_id x <? u_start_job up + staged_n)).
  pose proof (fold_update_job_jobs T4 (recompute_job s4) (recompute_job_static s4)
                (fun st x => if T4 x then update_job st (fst (x, recompute_job s4 x)) (snd (x, recompute_job s4 x)) else st)
                (fun _ => True) (fun st j _ => eq_refl) (fun _ _ _ _ => I) (jobs s4) [] s4 I) as Hf.
  cbn [app map] in Hf. specialize (Hf ltac:(unfold Kjobs_list; rewrite J4'; exact (d_jkeys _ D)) eq_refl). cbv zeta in Hf.
  match type of Hf with (jobs ?sf = _ /\ _) => change (jobs sf = map (gmap (cm_T b up) (recompute_job s)) (jobs s)) end.
  destruct Hf as (JF & _).
  rewrite JF, J4'. apply map_ext. intros y. unfold gmap.
  assert (ET : T4 y = cm_T b up y). { unfold T4, cm_T. replace staged_n with (u_njobs up) by lia. reflexivity. }
  rewrite ET. destruct (cm_T b up y); [|reflexivity]. apply recompute_job_ext; assumption.
Qed.

Lemma jchange_recompute s o b u up :
  DInv s -> find_update s b u = Some up -> u_committed up = false -> u <> 1 ->
  (forall y, j_batch y = b -> j_update y = u -> commit_op o (j_batch y) (j_update y)) ->
  forall y, In y (jobs s) -> jchange s o y (gmap (cm_T b up) (recompute_job s) y).
Proof.
  intros D Fup Hunc Hu Hop' y Hy. unfold gmap. destruct (cm_T b up y) eqn:T; [|apply jchange_refl].
  rewrite (cmo_T s b u up D Fup y Hy) in T.
  assert (Hop : commit_op o (j_batch y) (j_update y)).
  { unfold in_update in T. apply andb_true_iff in T. destruct T as [T1 T2]. apply Hop'; lia. }
  pose proof (cmo_in_unc s b u up Fup Hunc y Hy T) as Cy.
  pose proof (d_jobs _ D y Hy) as Ok. unfold job_ok in Ok. rewrite Cy in Ok. destruct Ok as (_ & Ok).
  unfold in_update in T. apply andb_true_iff in T. destruct T as [_ T].
  replace (j_update y =? 1) with false in Ok by (symmetry; apply Z.eqb_neq; lia).
  destruct (recompute_job_fields s y) as (_ & Fs & Fc & Fa). cbv zeta in *.
  constructor.
  - apply recompute_job_static.
  - rewrite Ok, Fs. match goal with |- allowed _ (if ?c then _ else _) => destruct c end; [right; reflexivity | left; reflexivity].
  - rewrite Fc. intros ->. match goal with |- (if ?c then _ else _) = true => destruct c end; reflexivity.
  - rewrite Fs. intros [H|H]; match type of H with (if ?c then _ else _) = _ => destruct c end; discriminate.
  - rewrite Fa. intros H. exfalso. auto.
  - rewrite Fs. intros H. match type of H with terminal (if ?c then _ else _) = _ => destruct c end; discriminate.
  - right. right. exact Hop.
Qed.

Lemma jchange_commit s b u user :
  DInv s -> rewrites s (fst (do_commit s b u user)) (jchange s (Commit b u user)).
Proof.
  intros D.
  assert (Same : rewrites s s (jchange s (Commit b u user))) by (apply rewrites_same; [reflexivity | intros; apply jchange_refl]).
  unfold do_commit. destruct (find_batch s b) as [bt|]; [|exact Same].
  destruct (find_update s b u); [|exact Same].
  destruct (_ || _); [exact Same|]. destruct (marked s b 0); [exact Same|].
  destruct (commit_proc_jobs s b u D) as [E | (up & Fup & Hunc & Hu & E)].
  - apply rewrites_same; [exact E | intros; apply jchange_refl].
  - apply (rewrites_map _ _ (gmap (cm_T b up) (recompute_job s)) []); [rewrite app_nil_r; exact E | |].
    + intros y _. apply gmap_static. apply recompute_job_static.
    + apply (jchange_recompute s _ b u up D Fup Hunc Hu). intros y -> ->. cbn. auto.
Qed.

(* ------------------------------------------------------------------ create_jobs *)

Lemma jchange_create_jobs s b u user jss :
  rewrites s (fst (do_create_jobs s b u user jss)) (jchange s (CreateJobs b u user jss)).
Proof.
  pose proof (StepFrame.do_create_jobs_shape s b u user jss) as H. cbv zeta in H.
  destruct H as [E | (up & bt & _ & _ & _ & _ & E)].
  - rewrite E. apply rewrites_same; [reflexivity | intros; apply jchange_refl].
  - rewrite E. cbn [fst]. eapply rewrites_append; [apply StepFrame.cj_insert_jobs | intros; apply jchange_refl].
Qed.

(* ------------------------------------------------------------------ every transaction *)

Theorem step_rewrites s o : DInv s -> good s o -> rewrites s (fst (step s o)) (jchange s o).
Proof.
  intros D [L _].
  pose proof (StepFrame.step_jobs_same s o) as SJ.
  destruct o; cbn [step];
    try (apply rewrites_same; [exact SJ | intros; apply jchange_refl]); clear SJ.
  - apply jchange_create_jobs.
  - apply jchange_commit; exact D.
  - apply jchange_deactivate; exact D.
  - apply jchange_schedule; exact L.
  - apply jchange_unschedule. unfold legal, legalb in L. apply (legal_committed_of _ _ _ _ L).
  - apply (jchange_creating_started true); [reflexivity|]. unfold legal, legalb in L. apply (legal_committed_of _ _ _ _ L).
  - apply (jchange_creating_started false); [reflexivity|]. unfold legal, legalb in L. apply (legal_committed_of _ _ _ _ L).
  - apply jchange_mark_complete; assumption.
Qed.

(* ------------------------------------------------------------------ C04 (1): the per-step transition theorem *)

(** Every existing job survives every good step from a [DInv] state, with its immutable columns, an [allowed] state pair,
    a cancelled mark that is never taken back; it ENTERS Creating / Running only by schedule / creating / started for this
    very job, which is then not cancelled ([is_job_cancelled] false) and belongs to a committed update; its attempt id
    changes only by a driver / worker message for this very job or by an instance deactivation (which leaves it Ready
    without attempt); it becomes terminal only by a completion message for this very job. *)
Theorem step_job_change s o b j x :
  DInv s -> DAux s -> good s o -> find_job s b j = Some x ->
  exists x', find_job (fst (step s o)) b j = Some x' /\ static x x' /\
    allowed (j_state x) (j_state x') /\
    (j_cancelled x = true -> j_cancelled x' = true) /\
    (j_state x' = Creating \/ j_state x' = Running -> j_state x' <> j_state x ->
       start_op o b j /\ is_job_cancelled s x = Some false /\ jcommitted s x = true) /\
    (j_attempt x' <> j_attempt x -> attempt_op o b j x') /\
    (terminal (j_state x') = true -> j_state x' <> j_state x -> complete_op o b j) /\
    (x' = x \/ jcommitted s x = true \/ commit_op o b (j_update x)).
Proof.
  intros D _ G F. destruct (step_rewrites s o D G b j x F) as (x' & F' & [H1 H2 H3 H4 H5 H6 H7]).
  destruct (find_job_static_key _ _ _ _ F) as (B & J). rewrite B, J in *.
  exists x'. split; [exact F'|]. split; [exact H1|]. split; [exact H2|]. split; [exact H3|]. split; [exact H4|].
  split; [exact H5|]. split; [exact H6 | exact H7].
Qed.

(* ------------------------------------------------------------------ histories *)

Local Notation run_from := Cancel.run_from.

Lemma good_from_app s ops1 ops2 :
  good_from s (ops1 ++ ops2) <-> good_from s ops1 /\ good_from (run_from s ops1) ops2.
Proof.
  revert s. induction ops1 as [|o r IH]; intros s; cbn [app good_from Cancel.run_from fold_left]; [tauto|].
  rewrite IH. unfold Cancel.run_from. tauto.
Qed.

Lemma DInv_run_from ops : forall s, DInv s -> DAux s -> good_from s ops -> DInv (run_from s ops) /\ DAux (run_from s ops).
Proof.
  induction ops as [|o r IH]; intros s D A G; cbn [Cancel.run_from fold_left good_from] in *; [auto|].
  destruct G as [Go Gr]. apply IH; [apply DInv_step; assumption | apply DAux_step; exact A | exact Gr].
Qed.

Lemma good_history_split ops ext :
  good_history (ops ++ ext) -> DInv (run ops) /\ DAux (run ops) /\ good_from (run ops) ext.
Proof.
  unfold good_history. intros G. apply good_from_app in G. destruct G as [G1 G2].
  rewrite <- Cancel.run_run_from in G2. split; [apply DInv_reachable; exact G1|]. split; [apply DAux_run | exact G2].
Qed.

Lemma run_snoc ops o : run (ops ++ [o]) = fst (step (run ops) o).
Proof. unfold run. rewrite fold_left_app. reflexivity. Qed.

(** C04, transitions: along every good history, between two consecutive states every existing job keeps existing and
    its state pair is [allowed]. *)
Theorem transitions_allowed ops o b j x :
  good_history (ops ++ [o]) -> find_job (run ops) b j = Some x ->
  exists x', find_job (run (ops ++ [o])) b j = Some x' /\ static x x' /\ allowed (j_state x) (j_state x').
Proof.
  intros G F. destruct (good_history_split _ _ G) as (D & A & [Go _]).
  destruct (step_job_change _ o b j x D A Go F) as (x' & F' & S & Al & _).
  exists x'. rewrite run_snoc. auto.
Qed.

(** C04, terminal states are absorbing: from any [DInv] state, along any good continuation. *)
Lemma terminal_absorbing_from ext : forall s b j x,
  DInv s -> DAux s -> good_from s ext -> find_job s b j = Some x -> terminal (j_state x) = true ->
  exists x', find_job (run_from s ext) b j = Some x' /\ static x x' /\ j_state x' = j_state x.
Proof.
  induction ext as [|o r IH]; intros s b j x D A G F T; cbn [Cancel.run_from fold_left good_from] in *.
  - exists x. split; [exact F|]. split; [apply static_refl | reflexivity].
  - destruct G as [Go Gr]. destruct (step_job_change s o b j x D A Go F) as (x1 & F1 & S1 & Al & _).
    pose proof (allowed_terminal _ _ Al T) as E1.
    destruct (IH (fst (step s o)) b j x1 (DInv_step _ _ D A Go) (DAux_step _ _ A) Gr F1 ltac:(rewrite E1; exact T)) as (x' & F' & S' & E').
    exists x'. split; [exact F'|]. split; [eapply static_trans; eassumption | congruence].
Qed.

Theorem terminal_absorbing ops ext b j x :
  good_history (ops ++ ext) -> find_job (run ops) b j = Some x -> terminal (j_state x) = true ->
  exists x', find_job (run (ops ++ ext)) b j = Some x' /\ static x x' /\ j_state x' = j_state x.
Proof.
  intros G F T. destruct (good_history_split _ _ G) as (D & A & Ge). rewrite Cancel.run_app.
  apply terminal_absorbing_from; assumption.
Qed.

(** C04, a Pending job never starts or completes: one transaction takes it to Ready at most. *)
Theorem pending_never_starts ops o b j x :
  good_history (ops ++ [o]) -> find_job (run ops) b j = Some x -> j_state x = Pending ->
  exists x', find_job (run (ops ++ [o])) b j = Some x' /\ static x x' /\ (j_state x' = Pending \/ j_state x' = Ready).
Proof.
  intros G F P. destruct (transitions_allowed ops o b j x G F) as (x' & F' & S & Al).
  exists x'. split; [exact F'|]. split; [exact S|]. rewrite P in Al. apply allowed_pending. exact Al.
Qed.

(** ... and whatever happens later, it is seen Ready before it is seen in any other state. *)
Lemma pending_passes_ready_from ext : forall s b j x x',
  DInv s -> DAux s -> good_from s ext -> find_job s b j = Some x -> j_state x = Pending ->
  find_job (run_from s ext) b j = Some x' -> j_state x' <> Pending ->
  exists ext1 ext2 y, ext = ext1 ++ ext2 /\ find_job (run_from s ext1) b j = Some y /\ j_state y = Ready.
Proof.
  induction ext as [|o r IH]; intros s b j x x' D A G F P F' NP; cbn [Cancel.run_from fold_left good_from] in *.
  - rewrite F in F'. injection F' as <-. contradiction.
  - destruct G as [Go Gr]. destruct (step_job_change s o b j x D A Go F) as (x1 & F1 & _ & Al & _).
    rewrite P in Al. apply allowed_pending in Al. destruct Al as [E1|E1].
    + destruct (IH (fst (step s o)) b j x1 x' (DInv_step _ _ D A Go) (DAux_step _ _ A) Gr F1 E1 F' NP) as (e1 & e2 & y & -> & Fy & Ry).
      exists (o :: e1), e2, y. split; [reflexivity|]. split; [exact Fy | exact Ry].
    + exists [o], r, x1. split; [reflexivity|]. split; [exact F1 | exact E1].
Qed.

Theorem pending_passes_ready ops ext b j x x' :
  good_history (ops ++ ext) -> find_job (run ops) b j = Some x -> j_state x = Pending ->
  find_job (run (ops ++ ext)) b j = Some x' -> j_state x' <> Pending ->
  exists ext1 ext2 y, ext = ext1 ++ ext2 /\ find_job (run (ops ++ ext1)) b j = Some y /\ j_state y = Ready.
Proof.
  intros G F P F' NP. destruct (good_history_split _ _ G) as (D & A & Ge). rewrite Cancel.run_app in F'.
  destruct (pending_passes_ready_from ext _ b j x x' D A Ge F P F' NP) as (e1 & e2 & y & E & Fy & Ry).
  exists e1, e2, y. rewrite Cancel.run_app. auto.
Qed.

(* ------------------------------------------------------------------ corollary (a), for C05: cancelled jobs never start *)

(** a job that is_job_cancelled reports cancelled for a structural reason: not always_run, and marked cancelled itself
    (a parent did not succeed) or in a group under a cancelled group *)
Definition cancelled_job (s : state) (b : Z) (x : job) : Prop :=
  j_always x = false /\ (j_cancelled x = true \/ group_cancelled s b (j_group x) = true).

Lemma cancelled_job_is_cancelled s b x : j_batch x = b -> cancelled_job s b x -> is_job_cancelled s x = Some true.
Proof.
  intros B (A & H). unfold is_job_cancelled. rewrite A, B. cbn [negb andb]. f_equal.
  destruct H as [H|H]; [rewrite H; reflexivity|]. unfold group_cancelled in H. rewrite H. apply orb_true_r.
Qed.

Lemma jstate_eq_dec (a b : jstate) : {a = b} + {a <> b}.
Proof. decide equality. Qed.

Lemma oz_eq_dec (a b : option Z) : {a = b} + {a <> b}.
Proof. decide equality. apply Z.eq_dec. Qed.

(** one good step: the job stays [cancelled_job] (the mark is kept, "under a cancelled group" is monotone) and does not
    ENTER Creating / Running *)
Lemma cancelled_never_starts_step s o b j x :
  DInv s -> DAux s -> good s o -> find_job s b j = Some x -> cancelled_job s b x ->
  exists x', find_job (fst (step s o)) b j = Some x' /\ static x x' /\ cancelled_job (fst (step s o)) b x' /\
             (j_state x' = Creating \/ j_state x' = Running -> j_state x' = j_state x).
Proof.
  intros D A G F Cx. destruct (step_job_change s o b j x D A G F) as (x' & F' & S & _ & Hc & He & _).
  exists x'. split; [exact F'|]. split; [exact S|]. destruct S as (_ & _ & _ & Sg & Sa & _). split.
  - destruct Cx as (Al & H). split; [congruence|]. destruct H as [H|H]; [left; auto | right].
    rewrite <- Sg. eapply Cancel.group_cancelled_grow; [apply StepFrame.step_grow | exact H].
  - intros Act. destruct (jstate_eq_dec (j_state x') (j_state x)) as [E|Ne]; [exact E|]. exfalso.
    destruct (He Act Ne) as (_ & Ic & _).
    rewrite (cancelled_job_is_cancelled s b x (proj1 (find_job_static_key _ _ _ _ F)) Cx) in Ic. discriminate.
Qed.

Lemma cancelled_job_persists ext : forall s b j x,
  DInv s -> DAux s -> good_from s ext -> find_job s b j = Some x -> cancelled_job s b x ->
  exists x', find_job (run_from s ext) b j = Some x' /\ static x x' /\ cancelled_job (run_from s ext) b x'.
Proof.
  induction ext as [|o r IH]; intros s b j x D A G F Cx; cbn [Cancel.run_from fold_left good_from] in *.
  - exists x. split; [exact F|]. split; [apply static_refl | exact Cx].
  - destruct G as [Go Gr]. destruct (cancelled_never_starts_step s o b j x D A Go F Cx) as (x1 & F1 & S1 & C1 & _).
    destruct (IH (fst (step s o)) b j x1 (DInv_step _ _ D A Go) (DAux_step _ _ A) Gr F1 C1) as (x' & F' & S' & C').
    exists x'. split; [exact F'|]. split; [eapply static_trans; eassumption | exact C'].
Qed.

(** histories: once a non-always-run job is marked cancelled, or its group is under a cancelled group, no later good
    step makes it enter Creating / Running *)
Theorem cancelled_never_starts ops ext o b j x :
  good_history (ops ++ ext ++ [o]) -> find_job (run ops) b j = Some x -> cancelled_job (run ops) b x ->
  exists x1 x2, find_job (run (ops ++ ext)) b j = Some x1 /\ find_job (run (ops ++ ext ++ [o])) b j = Some x2 /\
                static x x1 /\ static x1 x2 /\ cancelled_job (run (ops ++ ext ++ [o])) b x2 /\
                (j_state x2 = Creating \/ j_state x2 = Running -> j_state x2 = j_state x1).
Proof.
  intros G F Cx. destruct (good_history_split _ _ G) as (D & A & Ge).
  apply good_from_app in Ge. destruct Ge as [Ge [Go _]].
  destruct (cancelled_job_persists ext _ b j x D A Ge F Cx) as (x1 & F1 & S1 & C1).
  destruct (DInv_run_from ext _ D A Ge) as (D1 & A1).
  destruct (cancelled_never_starts_step _ o b j x1 D1 A1 Go F1 C1) as (x2 & F2 & S2 & C2 & H).
  exists x1, x2. rewrite app_assoc, run_snoc, !Cancel.run_app. auto 10.
Qed.

(* ------------------------------------------------------------------ corollary (b), for C41: jobs of uncommitted updates are inert *)

(** one good step on a job of an uncommitted update: it still has no attempt, is still Pending or Ready (never Creating,
    Running or terminal), and its row is not touched at all unless the step is the commit of its own update *)
Lemma uncommitted_inert_step s o b j x :
  DInv s -> DAux s -> good s o -> find_job s b j = Some x -> jcommitted s x = false ->
  j_attempt x = None /\ (j_state x = Pending \/ j_state x = Ready) /\
  exists x', find_job (fst (step s o)) b j = Some x' /\ static x x' /\ j_attempt x' = None /\
             (j_state x' = Pending \/ j_state x' = Ready) /\ (x' = x \/ commit_op o b (j_update x)).
Proof.
  intros D A G F C.
  destruct (uncommitted_job_inert s D x (proj1 (find_jkey_sound _ _ _ _ F)) C) as (Na & St).
  assert (St' : j_state x = Pending \/ j_state x = Ready) by tauto.
  split; [exact Na|]. split; [exact St'|].
  destruct (step_job_change s o b j x D A G F) as (x' & F' & S & Al & _ & He & Hat & Ht & [E | [E | E]]).
  - subst x'. exists x. auto 10.
  - congruence.
  - exists x'. split; [exact F'|]. split; [exact S|].
    assert (Ho : exists b' u' us, o = Commit b' u' us) by (destruct o; cbn in E; try contradiction; eauto).
    destruct Ho as (b' & u' & us & ->). split; [|split; [|right; exact E]].
    + destruct (oz_eq_dec (j_attempt x') (j_attempt x)) as [Ea|Ne]; [congruence|]. exfalso. exact (Hat Ne).
    + destruct (j_state x') eqn:Sx'; auto; exfalso.
      * assert (Ne : Creating <> j_state x) by (destruct St' as [-> | ->]; discriminate).
        destruct (He (or_introl eq_refl) Ne) as (So & _). exact So.
      * assert (Ne : Running <> j_state x) by (destruct St' as [-> | ->]; discriminate).
        destruct (He (or_intror eq_refl) Ne) as (So & _). exact So.
      * apply (Ht eq_refl). destruct St' as [-> | ->]; discriminate.
      * apply (Ht eq_refl). destruct St' as [-> | ->]; discriminate.
      * apply (Ht eq_refl). destruct St' as [-> | ->]; discriminate.
      * apply (Ht eq_refl). destruct St' as [-> | ->]; discriminate.
Qed.

Theorem uncommitted_inert ops o b j x :
  good_history (ops ++ [o]) -> find_job (run ops) b j = Some x -> jcommitted (run ops) x = false ->
  j_attempt x = None /\ (j_state x = Pending \/ j_state x = Ready) /\
  exists x', find_job (run (ops ++ [o])) b j = Some x' /\ static x x' /\ j_attempt x' = None /\
             (j_state x' = Pending \/ j_state x' = Ready) /\ (x' = x \/ commit_op o b (j_update x)).
Proof.
  intros G F C. destruct (good_history_split _ _ G) as (D & A & [Go _]). rewrite run_snoc.
  apply uncommitted_inert_step; assumption.
Qed.

(* ------------------------------------------------------------------ corollary (c), for C05: always_run jobs are schedulable *)

Lemma find_replace_inst i n y l :
  find (fun x => i_name x =? i) l = Some y -> i_name n = i ->
  find (fun x => i_name x =? i) (replace_inst n l) = Some n.
Proof.
  intros F En. induction l as [|z l IH]; [discriminate|]. cbn [replace_inst map find] in *.
  destruct (i_name z =? i) eqn:Ez.
  - replace (i_name z =? i_name n) with true by (symmetry; apply Z.eqb_eq; lia).
    replace (i_name n =? i) with true by (symmetry; apply Z.eqb_eq; lia). reflexivity.
  - replace (i_name z =? i_name n) with false by (symmetry; apply Z.eqb_neq; apply Z.eqb_neq in Ez; lia).
    rewrite Ez. apply IH. exact F.
Qed.

(** Enabledness (no invariant needed): an always_run job that is Ready is moved to Running by [ScheduleJob] with a fresh
    attempt id on an active instance — answer rc 0 — whatever its cancelled mark (i.e. its parents' outcomes) and the
    cancellation marks of its groups.  If its update is committed, that message is a good step. *)
Theorem always_run_schedulable s b j a i x y :
  find_job s b j = Some x -> j_always x = true -> j_state x = Ready ->
  find_attempt s b j a = None -> find_inst s i = Some y -> i_state y = IActive ->
  (exists d, snd (step s (ScheduleJob b j a i)) = ok [0; d]) /\
  find_job (fst (step s (ScheduleJob b j a i))) b j = Some (x <| j_state := Running |> <| j_attempt := Some a |>) /\
  (jcommitted s x = true -> good s (ScheduleJob b j a i)).
Proof.
  intros F Al Rd Fa Fi Ia.
  pose proof (find_job_static_key _ _ _ _ F) as (B & J).
  assert (En : i_name y = i) by (unfold find_inst in Fi; apply find_some in Fi; lia).
  assert (Good : jcommitted s x = true -> good s (ScheduleJob b j a i)).
  { intros C. split; [|reflexivity]. unfold legal, legalb, job_committed, attempt_on. rewrite F, Fa.
    unfold jcommitted in C. rewrite B in C. rewrite C. reflexivity. }
  cbn [step]. unfold do_schedule. rewrite F.
  assert (Ic : is_job_cancelled s x = Some false) by (unfold is_job_cancelled; rewrite Al; reflexivity).
  rewrite Ic. unfold add_attempt. rewrite Fa. cbv zeta.
  set (s0 := s <| attempts ::= fun l => l ++ [mkAttempt b j a i None None None None] |>).
  assert (Fi0 : find_inst s0 i = Some y) by exact Fi.
  rewrite Fi0, Ia. cbn [ilive].
  set (s1 := s0 <| insts ::= replace_inst (y <| i_free := i_free y - j_cores x |>) |>).
  assert (Is : is_state (inst_state s1 i) IActive = true).
  { unfold inst_state, find_inst. subst s1. cbn [insts set].
    change (insts (s0 <| insts ::= replace_inst (y <| i_free := i_free y - j_cores x |>) |>))
      with (replace_inst (y <| i_free := i_free y - j_cores x |>) (insts s)).
    rewrite (find_replace_inst i _ y (insts s) Fi) by (destruct y; exact En).
    cbn. destruct y; cbn in *. rewrite Ia. reflexivity. }
  rewrite Is, Rd. cbn [jstate_eqb orb negb andb fst snd].
  split; [eexists; reflexivity|]. split; [|exact Good].
  rewrite find_job_update_job.
  assert (K : jkey b j (x <| j_state := Running |> <| j_attempt := Some a |>) = true).
  { apply jkey_true. destruct x; cbn in *. auto. }
  rewrite K. change (find_job s1 b j) with (find_job s b j). rewrite F. reflexivity.
Qed.

(* ------------------------------------------------------------------ cancellation marks only grow *)

(** "under a cancelled group" is monotone along every step from any state (marks and ancestor rows are only appended);
    that the ancestors of an existing group never change in reachable states is [Cancel.anc_ids_stable]. *)
Lemma group_cancelled_step s o b g : group_cancelled s b g = true -> group_cancelled (fst (step s o)) b g = true.
Proof. apply Cancel.group_cancelled_grow, StepFrame.step_grow. Qed.

Lemma group_cancelled_run_from s ops b g : group_cancelled s b g = true -> group_cancelled (run_from s ops) b g = true.
Proof. apply Cancel.group_cancelled_history. Qed.

Lemma ancestors_stable ops1 ops2 b g :
  find_group (run ops1) b g <> None -> anc_ids (run (ops1 ++ ops2)) b g = anc_ids (run ops1) b g.
Proof. intros F. rewrite Cancel.run_app. apply Cancel.anc_ids_stable; [apply Cancel.tree_inv_run | exact F]. Qed.

(* ------------------------------------------------------------------ non-vacuity on [Deps.demo_history] *)

(** [demo_history] (good by [demo_history_good]): job 1 is scheduled (Ready -> Running), fails; job 2 (child of 1) gets the
    cancelled mark and is completed as Cancelled by the canceller; job 3 (always_run, second update, child of 2) sits in an
    uncommitted update while job 1 fails, and is Ready with the cancelled mark at the end. *)
Definition demo_job_view (x : job) := (j_state x, j_always x, j_cancelled x, j_attempt x).

Example demo_schedule_enters :
  option_map demo_job_view (find_job (run (firstn 7 demo_history)) 1 1) = Some (Ready, false, false, None) /\
  option_map demo_job_view (find_job (run (firstn 8 demo_history)) 1 1) = Some (Running, false, false, Some 1).
Proof. vm_compute. split; reflexivity. Qed.

(* job 2 after its parent failed: not always_run, marked cancelled (a [cancelled_job]) *)
Example demo_cancelled_job :
  option_map demo_job_view (find_job (run (firstn 11 demo_history)) 1 2) = Some (Ready, false, true, None).
Proof. vm_compute. reflexivity. Qed.

(* job 3 while its update is uncommitted *)
Example demo_uncommitted_job :
  option_map (fun x => (demo_job_view x, jcommitted (run (firstn 10 demo_history)) x)) (find_job (run (firstn 10 demo_history)) 1 3)
  = Some ((Pending, true, false, None), false).
Proof. vm_compute. reflexivity. Qed.

(* job 3 at the end: always_run, Ready, marked cancelled, committed; attempt 7 is fresh and instance 1 is active *)
Example demo_always_run_ready :
  option_map (fun x => (demo_job_view x, jcommitted (run demo_history) x)) (find_job (run demo_history) 1 3)
  = Some ((Ready, true, true, None), true) /\
  find_attempt (run demo_history) 1 3 7 = None /\ option_map i_state (find_inst (run demo_history) 1) = Some IActive.
Proof. vm_compute. repeat split; reflexivity. Qed.
