(** SQL three-valued logic over nullable integer columns — the target language of the trigger-body translator
    (harness/translate/sql_trigger.py).  A column value is an [option Z] (None = NULL); a condition is an
    [option bool] (None = UNKNOWN).  Definitions only. *)
From Coq Require Import ZArith Bool.
Open Scope Z_scope.

Definition tv := option bool.

Definition and3 (a b : tv) : tv :=
  match a, b with
  | Some false, _ | _, Some false => Some false
  | Some true, Some true => Some true
  | _, _ => None
  end.

Definition or3 (a b : tv) : tv :=
  match a, b with
  | Some true, _ | _, Some true => Some true
  | Some false, Some false => Some false
  | _, _ => None
  end.

Definition not3 (a : tv) : tv := option_map negb a.

(* a comparison with a NULL operand is UNKNOWN *)
Definition cmp3 (f : Z -> Z -> bool) (a b : option Z) : tv :=
  match a, b with Some x, Some y => Some (f x y) | _, _ => None end.

Definition zneqb (x y : Z) : bool := negb (x =? y).

(* IS NULL is never UNKNOWN *)
Definition isnull (a : option Z) : tv := Some (match a with None => true | Some _ => false end).

(* IF c THEN ...: the branch is taken iff c is TRUE (FALSE and UNKNOWN skip it) *)
Definition taken (c : tv) : bool := match c with Some true => true | _ => false end.
