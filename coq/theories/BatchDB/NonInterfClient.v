(** C41, non-interference: the client requests.

    - the erased requests (those of update U) change nothing outside U's rows: [erased_create_update], [erased_create_groups],
      [erased_create_jobs], [erased_commit];
    - the other requests of batch B's updates are refused in both runs (every other update of B is committed);
    - create_update for other tokens, clean-up of the staging table. *)
From HailV Require Import Common.Prelude BatchDB.Model BatchDB.Tables BatchDB.CMap BatchDB.JobsWF BatchDB.StepCore
  BatchDB.Legal BatchDB.DepsDef BatchDB.DepsStruct BatchDB.DepsAux BatchDB.Deps BatchDB.Pick BatchDB.Cores BatchDB.Attempts
  BatchDB.StepFrame BatchDB.NonInterfDef BatchDB.NonInterfInv BatchDB.NonInterfDriver BatchDB.NonInterfDriver2 BatchDB.NonInterfSim
  BatchDB.Inert.
From HailV Require BatchDB.Cancel.
From RecordUpdate Require Import RecordSet.
Import RecordSetNotations.
Open Scope Z_scope.

Section Client.
  Variables (B U sj G0 tok : Z).
  Local Notation P := (proj B U sj G0).
  Local Notation Sim := (Sim B U sj G0).

  (** every group id below G0 exists in batch B *)
  Definition Glow (s : state) : Prop := forall g, 0 <= g < G0 -> find_group s B g <> None.

  Lemma Glow_grow s s' : grow s s' -> Glow s -> Glow s'.
  Proof.
    intros Gr H g Hg. apply Cancel.in_gk_find. destruct (gr_groups _ _ Gr) as (e & E). rewrite E. apply in_or_app. left.
    apply Cancel.in_gk_find. apply H. exact Hg.
  Qed.

  Lemma Glow_step s o : Glow s -> Glow (fst (step s o)).
  Proof. apply Glow_grow, step_grow. Qed.

  (* -------------------------------------------------------------- erased requests *)

  Lemma erased_commit s usr : committed (fst (do_commit s B U usr)) B U = false -> fst (do_commit s B U usr) = s.
  Proof. apply commit_failed_noop. Qed.

  Lemma erased_create_update s b usr tk nj ng : Sim s -> b = B -> Open B U (fst (do_create_update s b usr tk nj ng)) ->
    fst (do_create_update s b usr tk nj ng) = s.
  Proof.
    intros S -> [_ L].
    destruct (do_create_update_cases s B usr tk nj ng) as [E | (_ & _ & E)]; [exact E|]. exfalso.
    destruct (create_update_new_id s B usr tk nj ng) as [E' | (_ & Hb & Hnew)].
    - rewrite E in E'. scbn in E'. apply (f_equal (@length _)) in E'. rewrite app_length in E'. cbn in E'. lia.
    - destruct (sm_up _ _ _ _ _ S) as (up & Fu & _). apply find_update_sound in Fu. destruct Fu as (Hin & Hbu & Hiu).
      specialize (Hnew up Hin Hbu). rewrite E in L. scbn in L.
      specialize (L (create_update_row s B tk nj ng) ltac:(apply in_or_app; right; left; reflexivity) Hb). lia.
  Qed.

  Lemma proj_stage_own st x : j_batch x = B -> j_update x = U -> P (stage_job st x) = P st.
  Proof.
    intros Hb Hu. unfold stage_job. cbv zeta. unfold proj. scbn. rewrite Hb, Hu.
    rewrite !(ckeep_fold_cadd_own B U (fun a => [B; U; a; j_ic x])); [reflexivity | |]; intros a; cbn; rewrite !Z.eqb_refl; reflexivity.
  Qed.

  Lemma erased_create_jobs s usr jss : DInv s -> DAux s -> good s (CreateJobs B U usr jss) -> Sim s ->
    P (fst (do_create_jobs s B U usr jss)) = P s.
  Proof.
    intros D A G S. pose proof (DInv_step s _ D A G) as D'. cbn [step] in D'.
    destruct (do_create_jobs_shape s B U usr jss) as [E | (up & bt & Fu & Fb & Cm & V & E)]; [rewrite E; reflexivity|].
    rewrite E in *. cbn [fst] in *. set (js := cj_specs B U up jss) in *.
    destruct (sm_up _ _ _ _ _ S) as (up0 & Fu0 & _ & Su). rewrite Fu in Fu0. injection Fu0 as <-.
    assert (Hnew : forall x, In x (map fst js) -> j_batch x = B /\ j_update x = U /\ sj <= j_id x).
    { intros x Hx. destruct (cj_specs_batch B U up jss x Hx) as (B1 & B2 & _). split; [exact B1|]. split; [exact B2|].
      assert (Hin : In x (jobs (cj_insert s B js))) by (rewrite cj_insert_jobs; apply in_or_app; right; exact Hx).
      destruct (d_jrange _ D' x Hin) as (up' & Fu' & R). rewrite B1, B2 in Fu'.
      assert (Eu : updates (cj_insert s B js) = updates s) by (unfold cj_insert; rewrite fold_keeps by (intros; reflexivity); reflexivity).
      unfold find_update in Fu'. rewrite Eu in Fu'. unfold find_update in Fu. rewrite Fu in Fu'. injection Fu' as <-. lia. }
    unfold cj_insert.
    assert (Ef : forall l st, (forall x, In x l -> j_batch x = B /\ j_update x = U /\ sj <= j_id x) -> P (fold_left stage_job l st) = P st).
    { induction l as [|x l IH]; intros st Hl; cbn [fold_left]; [reflexivity|].
      rewrite IH; [|intros y Hy; apply Hl; right; exact Hy]. destruct (Hl x (or_introl eq_refl)) as (H1 & H2 & _).
      apply proj_stage_own; assumption. }
    rewrite (Ef _ _ Hnew). unfold proj. scbn. rewrite !keep_app.
    rewrite (keep_none (jU B sj) (map fst js)).
    2:{ intros x Hx. destruct (Hnew x Hx) as (H1 & _ & H3). unfold jU. rewrite H1, Z.eqb_refl. cbn [andb]. lia. }
    rewrite (keep_none (pU B sj) (flat_map _ js)).
    2:{ intros [[b' j'] p'] Hr. apply in_flat_map in Hr. destruct Hr as (jp & Hjp & Hr). apply in_map_iff in Hr. destruct Hr as (p0 & Er & _).
      injection Er as <- <- <-. destruct (Hnew (fst jp) (in_map fst _ _ Hjp)) as (_ & _ & H3). unfold pU. rewrite Z.eqb_refl. cbn [andb]. lia. }
    rewrite !app_nil_r. reflexivity.
  Qed.

  Lemma proj_create_group_own st g parent : G0 <= g -> P (create_group_rows st B g (Some U) parent false) = P st.
  Proof.
    intros Hg. unfold create_group_rows, proj. scbn. rewrite !keep_app.
    rewrite (keep_none (gU B G0) [_]).
    2:{ intros x [<- | []]. unfold gU. cbn. rewrite Z.eqb_refl. cbn [andb]. lia. }
    rewrite (keep_none (aU B G0) (map _ _)).
    2:{ intros r Hr. apply in_map_iff in Hr. destruct Hr as ([[[b0 g0] a0] l0] & <- & _). unfold aU. rewrite Z.eqb_refl. cbn [andb]. lia. }
    rewrite (keep_none (aU B G0) [_]).
    2:{ intros x [<- | []]. unfold aU. rewrite Z.eqb_refl. cbn [andb]. lia. }
    rewrite !app_nil_r. reflexivity.
  Qed.

  Definition parent_ok (sg : Z) (gs : gspec) : Prop :=
    0 <= match gs_parent_abs gs with Some p => p | None => sg + gs_parent_rel gs - 1 end.

  Lemma cog_fold_proj sg l : forall st st', (forall gs, In gs l -> parent_ok sg gs) -> Glow st ->
    fold_left (create_one_group B U sg) l (Some st) = Some st' -> Glow st' /\ P st' = P st.
  Proof.
    induction l as [|gs l IH]; intros st st' Hl Gl F; cbn [fold_left] in F.
    - injection F as <-. auto.
    - destruct (create_one_group B U sg (Some st) gs) as [st1|] eqn:C; [|rewrite cog_fold_none in F; discriminate].
      pose proof (create_one_group_some _ _ _ _ _ _ C) as H. cbv zeta in H. destruct H as (_ & Fn & Lt & E1).
      pose proof (Hl gs (or_introl eq_refl)) as Pok. unfold parent_ok in Pok.
      assert (Hg : G0 <= sg + gs_id gs - 1).
      { destruct (Z_lt_le_dec (sg + gs_id gs - 1) G0) as [Hlt|]; [|assumption]. exfalso. apply (Gl (sg + gs_id gs - 1)); [lia | exact Fn]. }
      assert (Gl1 : Glow st1).
      { rewrite E1. apply (Glow_grow st); [apply create_group_rows_grow | exact Gl]. }
      destruct (IH st1 st' (fun g Hin => Hl g (or_intror Hin)) Gl1 F) as (Gl' & E'). split; [exact Gl'|].
      rewrite E', E1. apply proj_create_group_own. exact Hg.
  Qed.

  Lemma erased_create_groups s usr gss : DAux s -> client_ok (CreateGroups B U usr gss) = true -> Glow s ->
    P (fst (do_create_groups s B U usr gss)) = P s.
  Proof.
    intros A C Gl. destruct (do_create_groups_shape s B U usr gss) as [[E _] | (up & Fu & F & _ & _)]; [rewrite E; reflexivity|].
    apply (cog_fold_proj (u_start_group up) gss s _); [|exact Gl | exact F].
    intros gs Hin. unfold parent_ok. cbn [client_ok] in C. apply andb_true_iff in C. destruct C as [_ C].
    rewrite forallb_forall in C. specialize (C gs Hin).
    apply find_update_sound in Fu. destruct Fu as (Hup & _). destruct (a_gpos _ A up Hup) as (Hsg & _).
    destruct (gs_parent_abs gs); lia.
  Qed.

  (* -------------------------------------------------------------- requests of the other updates of batch B are refused *)

  Lemma other_update_committed s u up : Sim s -> find_update s B u = Some up -> u <> U -> u_committed up = true.
  Proof.
    intros S Fu Nu. apply find_update_sound in Fu. destruct Fu as (Hin & Hb & Hi).
    destruct (sm_others _ _ _ _ _ S up Hin Hb ltac:(congruence)) as (C & _). exact C.
  Qed.

  Lemma ufree_other u : u <> U -> ufree B U B u.
  Proof. intros N. unfold ufree. rewrite Z.eqb_refl. cbn [andb]. lia. Qed.

  Lemma proj_create_groups_B s u usr gss : Sim s -> u <> U ->
    fst (do_create_groups (P s) B u usr gss) = P (fst (do_create_groups s B u usr gss)).
  Proof.
    intros S Nu. unfold do_create_groups. rewrite (find_update_proj B U sj G0 s B u (ufree_other u Nu)), find_batch_proj.
    destruct (is_nil gss); [reflexivity|].
    destruct (find_update s B u) as [up|] eqn:Fu; [|reflexivity]. rewrite (other_update_committed s u up S Fu Nu).
    destruct (find_batch s B); [|reflexivity]. destruct (_ || _); reflexivity.
  Qed.

  Lemma proj_create_jobs_B s u usr jss : Sim s -> u <> U ->
    fst (do_create_jobs (P s) B u usr jss) = P (fst (do_create_jobs s B u usr jss)).
  Proof.
    intros S Nu. unfold do_create_jobs. rewrite (find_update_proj B U sj G0 s B u (ufree_other u Nu)), find_batch_proj.
    destruct (is_nil jss); [reflexivity|].
    destruct (find_update s B u) as [up|] eqn:Fu; [|reflexivity]. rewrite (other_update_committed s u up S Fu Nu).
    destruct (find_batch s B); [|reflexivity]. destruct (_ || _); reflexivity.
  Qed.

  Lemma proj_commit_B s u usr : Sim s -> u <> U ->
    fst (do_commit (P s) B u usr) = P (fst (do_commit s B u usr)).
  Proof.
    intros S Nu. unfold do_commit, do_commit_proc. rewrite (find_update_proj B U sj G0 s B u (ufree_other u Nu)), find_batch_proj, marked_proj.
    destruct (find_batch s B); [|reflexivity].
    destruct (find_update s B u) as [up|] eqn:Fu; [|reflexivity]. rewrite (other_update_committed s u up S Fu Nu).
    destruct (_ || _); [reflexivity|]. destruct (marked s B 0); reflexivity.
  Qed.

  (* -------------------------------------------------------------- create_update with another token *)

  Lemma last_update_keep s b : b <> B -> last_update (P s) b = last_update s b.
  Proof.
    intros Nb. rewrite !last_update_eq. change (updates (P s)) with (keep (uU B U) (updates s)).
    generalize (@None update). induction (updates s) as [|x l IH]; intros acc; [reflexivity|]. unfold keep in *. cbn [filter fold_left].
    destruct (uU B U x) eqn:E; cbn [negb fold_left]; [|apply IH].
    rewrite IH. f_equal. unfold lu_step. unfold uU in E. apply andb_true_iff in E. destruct E as [E _].
    replace (u_batch x =? b) with false by lia. reflexivity.
  Qed.

  Definition creates (s : state) (b usr tk nj ng : Z) : bool :=
    negb ((nj <? 0) || (ng <? 0)) && ((0 <? nj) || (0 <? ng)) &&
    match find_batch s b with
    | Some bt => (b_user bt =? usr) && negb (b_deleted bt) && negb (marked s b 0) &&
                 match find (fun x => (u_batch x =? b) && (u_token x =? tk)) (updates s) with Some _ => false | None => true end
    | None => false
    end.

  Lemma do_create_update_spec s b usr tk nj ng :
    fst (do_create_update s b usr tk nj ng) =
    if creates s b usr tk nj ng then s <| updates ::= fun l => l ++ [create_update_row s b tk nj ng] |> else s.
  Proof.
    unfold do_create_update, creates, create_update_row.
    destruct ((nj <? 0) || (ng <? 0)); [reflexivity|]. cbn [negb andb].
    destruct ((0 <? nj) || (0 <? ng)); [|reflexivity]. cbn [negb andb].
    destruct (find_batch s b) as [bt|]; [|reflexivity].
    destruct (b_user bt =? usr); cbn [negb andb orb].
    - destruct (find _ (updates s)); [rewrite !andb_false_r; reflexivity|]. rewrite !andb_true_r.
      destruct (b_deleted bt); [reflexivity|]. cbn [negb andb]. destruct (marked s b 0); [reflexivity|]. cbn [negb].
      destruct (last_update s b); reflexivity.
    - reflexivity.
  Qed.

  Lemma find_keep_in {A} (q p : A -> bool) l : (forall x, In x l -> q x = true -> p x = false) -> find q (keep p l) = find q l.
  Proof.
    induction l as [|x l IH]; intros H; [reflexivity|]. unfold keep in *. cbn [filter find].
    assert (IH' := IH (fun y Hy => H y (or_intror Hy))).
    destruct (q x) eqn:Q.
    - rewrite (H x (or_introl eq_refl) Q). cbn [negb find]. rewrite Q. reflexivity.
    - destruct (p x); cbn [negb find]; [exact IH' | rewrite Q; exact IH'].
  Qed.

  Lemma proj_create_update s b usr tk nj ng : Sim s -> Tok B U tok s -> (b =? B) && (tk =? tok) = false ->
    Open B U (fst (do_create_update s b usr tk nj ng)) ->
    fst (do_create_update (P s) b usr tk nj ng) = P (fst (do_create_update s b usr tk nj ng)).
  Proof.
    intros S T Ne O.
    assert (Ec : creates (P s) b usr tk nj ng = creates s b usr tk nj ng).
    { unfold creates. rewrite find_batch_proj, marked_proj. change (updates (P s)) with (keep (uU B U) (updates s)).
      rewrite (find_keep_in _ (uU B U)); [reflexivity|]. intros x Hx Q.
      destruct (uU B U x) eqn:E; [|reflexivity]. exfalso. unfold uU in E.
      apply andb_true_iff in E. destruct E as [E1 E2]. apply andb_true_iff in Q. destruct Q as [Q1 Q2].
      specialize (T x Hx ltac:(lia) ltac:(lia)). lia. }
    rewrite !do_create_update_spec, Ec. destruct (creates s b usr tk nj ng) eqn:Cr; [|reflexivity].
    destruct (Z.eq_dec b B) as [-> | Nb].
    - exfalso. pose proof (erased_create_update s B usr tk nj ng S eq_refl O) as E.
      rewrite do_create_update_spec, Cr in E. apply (f_equal updates) in E. scbn in E.
      apply (f_equal (@length _)) in E. rewrite app_length in E. cbn in E. lia.
    - assert (Er : create_update_row (P s) b tk nj ng = create_update_row s b tk nj ng).
      { unfold create_update_row. rewrite (last_update_keep s b Nb). reflexivity. }
      rewrite Er. unfold proj. scbn. rewrite keep_app. f_equal.
      rewrite (keep_all (uU B U) [_]); [reflexivity|]. intros x [<- | []]. unfold uU, create_update_row.
      destruct (last_update s b); cbn [u_batch]; replace (b =? B) with false by lia; reflexivity.
  Qed.

  (* -------------------------------------------------------------- clean-up of the staging table *)

  Lemma filter_ckeep (q q' : list Z * list Z -> bool) m : (forall kv, kU B U (fst kv) = false -> q' kv = q kv) ->
    filter q' (ckeep B U m) = ckeep B U (filter q m).
  Proof.
    intros H. induction m as [|kv m IH]; [reflexivity|]. unfold ckeep in *. cbn [filter].
    destruct (kU B U (fst kv)) eqn:K; cbn [negb filter].
    - destruct (q kv); cbn [filter]; rewrite ?K; cbn [negb]; exact IH.
    - rewrite (H kv K). destruct (q kv); cbn [filter]; rewrite ?K; cbn [negb]; rewrite IH; reflexivity.
  Qed.

  Lemma set_staging_proj s f m : f (ckeep B U (staging s)) = ckeep B U m -> P s <| staging ::= f |> = P (s <| staging := m |>).
  Proof. intros E. unfold proj. destruct s. cbn -[ckeep keep] in *. rewrite <- E. reflexivity. Qed.

  Lemma proj_cleanup_staging s : fst (do_cleanup_staging (P s)) = P (fst (do_cleanup_staging s)).
  Proof.
    unfold do_cleanup_staging. cbn [fst].
    match goal with |- set staging (filter ?q') _ = P (set staging (filter ?q) _) =>
      change (s <| staging ::= filter q |>) with (s <| staging := filter q (staging s) |>); apply (set_staging_proj s (filter q') (filter q (staging s))) end.
    apply filter_ckeep. intros [k v] Hk. cbn [fst] in *.
    destruct k as [|b [|u [|g [|ic [|? ?]]]]]; try reflexivity.
    rewrite (find_update_proj B U sj G0 s b u); [reflexivity|]. unfold ufree. cbn [kU] in Hk. exact Hk.
  Qed.
End Client.
