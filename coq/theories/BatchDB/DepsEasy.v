(** [DInv] is preserved by the ops that do not touch the core tables, and by the "soft" job moves
    (Ready/Creating/Running among themselves) of the driver. *)
From HailV Require Import Common.Prelude BatchDB.Model BatchDB.Tables BatchDB.CMap BatchDB.JobsWF BatchDB.StepCore
  BatchDB.JobFold BatchDB.Legal BatchDB.DepsDef.
From RecordUpdate Require Import RecordSet.
Import RecordSetNotations.
Open Scope Z_scope.

(* ------------------------------------------------------------------ ops that leave the core tables alone *)

Lemma core_eq_new_instance s n ic c p : core_eq s (fst (do_new_instance s n ic c p)).
Proof.
  unfold do_new_instance. destruct (_ || _); [apply core_eq_refl|].
  destruct (find_inst s n); cbn [fst]; [apply core_eq_refl | repeat split].
Qed.

Lemma core_eq_activate s n : core_eq s (fst (do_activate s n)).
Proof.
  unfold do_activate. destruct (find_inst s n) as [x|]; [|apply core_eq_refl].
  destruct (i_state x); cbn [fst]; try apply core_eq_refl. repeat split.
Qed.

Lemma core_eq_mark_deleted s n : core_eq s (fst (do_mark_deleted s n)).
Proof.
  unfold do_mark_deleted. destruct (find_inst s n) as [x|]; [|apply core_eq_refl].
  destruct (i_state x); cbn [fst]; try apply core_eq_refl. repeat split.
Qed.

Lemma core_eq_add_resources s b j a rs : core_eq s (fst (do_add_resources s b j a rs)).
Proof.
  unfold do_add_resources. destruct (is_nil rs); [apply core_eq_refl|].
  destruct (existsb _ rs); [apply core_eq_refl|].
  destruct (find_attempt s b j a); cbn [fst]; [|apply core_eq_refl].
  apply core_eq_fold. intros st x. apply core_eq_add_one_resource.
Qed.

Lemma core_eq_billing_update s t atts : core_eq s (fst (do_billing_update s t atts)).
Proof.
  unfold do_billing_update. cbn [fst]. apply core_eq_fold. intros st [[b j] a].
  destruct (find_attempt st b j a); [apply core_eq_update_attempt | apply core_eq_refl].
Qed.

Lemma core_eq_cleanup_cancellable s : core_eq s (fst (do_cleanup_cancellable s)).
Proof. unfold do_cleanup_cancellable. cbn [fst]. repeat split. Qed.

(* ------------------------------------------------------------------ soft moves *)

(** A job row [y'] is a soft move of [y]: same immutable columns, same n_pending_parents and cancelled mark,
    same Pending-ness and terminal-ness of the state. *)
Definition soft (y y' : job) : Prop :=
  static y y' /\ j_npp y' = j_npp y /\ j_cancelled y' = j_cancelled y /\
  (j_state y' = Pending <-> j_state y = Pending) /\ terminal (j_state y') = terminal (j_state y) /\
  (jstate_eqb (j_state y') Success = jstate_eqb (j_state y) Success).

Lemma soft_refl y : soft y y.
Proof. repeat split; auto. Qed.

Lemma length_filter_map_upd (f : job -> job) b u l :
  (forall y, In y l -> j_batch y = j_batch (f y) /\ j_update y = j_update (f y)) ->
  length (filter (fun x => (j_batch x =? b) && (j_update x =? u)) (map f l)) =
  length (filter (fun x => (j_batch x =? b) && (j_update x =? u)) l).
Proof.
  induction l as [|y l IH]; intros H; [reflexivity|]. cbn [map filter].
  destruct (H y (or_introl eq_refl)) as [S1 S3]. rewrite <- S1, <- S3.
  destruct ((j_batch y =? b) && (j_update y =? u)); cbn [length]; rewrite IH; auto; intros z Hz; apply H; right; exact Hz.
Qed.

Section SoftMap.
  Variables (s s' : state) (f : job -> job).
  Hypothesis Hjobs : jobs s' = map f (jobs s).
  Hypothesis Hrest : batches s' = batches s /\ updates s' = updates s /\ groups s' = groups s /\ ancestors s' = ancestors s /\
                     marks s' = marks s /\ parents s' = parents s /\ staging s' = staging s /\ next_batch s' = next_batch s.
  Hypothesis Hsoft : forall y, In y (jobs s) -> soft y (f y).
  (* jobs of uncommitted updates are not touched *)
  Hypothesis Hunc : forall y, In y (jobs s) -> jcommitted s y = false -> f y = y.
  Hypothesis D : DInv s.

  Lemma soft_map_jk : map jk (jobs s') = map jk (jobs s).
  Proof.
    rewrite Hjobs, map_map. apply map_ext_in. intros y Hy. destruct (Hsoft y Hy) as ((S1 & S2 & _) & _).
    unfold jk. congruence.
  Qed.

  Lemma soft_find_job b j : find_job s' b j = option_map f (find_job s b j).
  Proof.
    rewrite !find_job_eq, Hjobs.
    assert (H : forall l, (forall y, In y l -> In y (jobs s)) -> find (jkey b j) (map f l) = option_map f (find (jkey b j) l)).
    { induction l as [|y l IH]; intros Hin; [reflexivity|]. cbn [map find].
      destruct (Hsoft y (Hin y (or_introl eq_refl))) as (St & _).
      rewrite <- (jkey_static b j y (f y) St).
      destruct (jkey b j y); [reflexivity|]. apply IH. intros z Hz. apply Hin. right; exact Hz. }
    apply H. auto.
  Qed.

  Lemma soft_find_update b u : find_update s' b u = find_update s b u.
  Proof. unfold find_update. destruct Hrest as (_ & E & _). rewrite E. reflexivity. Qed.

  Lemma soft_committed b u : committed s' b u = committed s b u.
  Proof. unfold committed. rewrite soft_find_update. reflexivity. Qed.

  Lemma soft_parents_of b j : parents_of s' b j = parents_of s b j.
  Proof. unfold parents_of, edges_of. destruct Hrest as (_&_&_&_&_&E&_). rewrite E. reflexivity. Qed.

  Lemma soft_pstate_live b p : live_state (pstate s' b p) = live_state (pstate s b p).
  Proof.
    unfold pstate. rewrite soft_find_job. destruct (find_job s b p) as [y|] eqn:F; [|reflexivity].
    cbn. apply find_jkey_sound in F. destruct F as (Hin & _).
    destruct (Hsoft y Hin) as (_ & _ & _ & _ & T & _). rewrite T. reflexivity.
  Qed.

  Lemma soft_pstate_failed b p : failed_state (pstate s' b p) = failed_state (pstate s b p).
  Proof.
    unfold pstate. rewrite soft_find_job. destruct (find_job s b p) as [y|] eqn:F; [|reflexivity].
    cbn. apply find_jkey_sound in F. destruct F as (Hin & _).
    destruct (Hsoft y Hin) as (_ & _ & _ & _ & T & Su). rewrite T, Su. reflexivity.
  Qed.

  Lemma soft_npp_spec b j : npp_spec s' b j = npp_spec s b j.
  Proof.
    unfold npp_spec. rewrite soft_parents_of. erewrite filter_ext; [reflexivity|].
    intros p. apply soft_pstate_live.
  Qed.

  Lemma soft_jcommitted y : In y (jobs s) -> jcommitted s' (f y) = jcommitted s y.
  Proof.
    intros Hy. destruct (Hsoft y Hy) as ((S1 & _ & S3 & _) & _). unfold jcommitted.
    rewrite soft_committed, <- S1, <- S3. reflexivity.
  Qed.

  Lemma soft_job_ok y : In y (jobs s) -> job_ok s y -> job_ok s' (f y).
  Proof.
    intros Hy Hok. pose proof (Hsoft y Hy) as (St & Hn & Hc & Hp & Ht & Hs).
    pose proof St as (S1 & S2 & S3 & _).
    unfold job_ok in *. rewrite (soft_jcommitted y Hy).
    destruct (jcommitted s y) eqn:C.
    - destruct Hok as (A & B & Cc & Dd). rewrite <- S1, <- S2, soft_npp_spec, soft_parents_of.
      repeat split.
      + congruence.
      + rewrite Hn. intros H. apply B. apply Hp. exact H.
      + rewrite Hn. intros H. apply Hp. apply B. exact H.
      + intros p Hin. destruct (Cc p Hin) as (z & Fz & Cz). exists (f z).
        rewrite soft_find_job, Fz. split; [reflexivity|].
        apply find_jkey_sound in Fz. destruct Fz as (Hz & _). rewrite (soft_jcommitted z Hz). exact Cz.
      + intros E. rewrite Hc. apply Dd. erewrite existsb_ext; [exact E|]. intros p. cbv beta.
        symmetry. apply soft_pstate_failed.
    - rewrite (Hunc y Hy C). rewrite soft_parents_of. exact Hok.
  Qed.

  Lemma soft_DInv : DInv s'.
  Proof.
    destruct Hrest as (E1 & E2 & E3 & E4 & E5 & E7 & E8 & E9).
    pose proof D as [d_jkeys0 d_ukeys0 d_upos0 d_uorder0 d_jrange0 d_edges0 d_enodup0 d_jobs0 d_staged0 d_root0 d_gcontig0 d_gkeys0 d_jgroup0
                     d_bfresh0 d_gbatch0 d_ancgrp0 d_ufirst0].
    constructor.
    - unfold Kjobs, Kjobs_list. rewrite soft_map_jk. exact d_jkeys0.
    - rewrite E2. assumption.
    - rewrite E2. assumption.
    - rewrite E2. assumption.
    - rewrite Hjobs. intros x Hx. apply in_map_iff in Hx. destruct Hx as (y & <- & Hy).
      destruct (d_jrange0 y Hy) as (up & F & R). destruct (Hsoft y Hy) as ((S1 & S2 & S3 & _) & _).
      exists up. rewrite soft_find_update, <- S1, <- S2, <- S3. tauto.
    - rewrite E7. intros [[b j] p] He. specialize (d_edges0 _ He). cbn in *.
      destruct d_edges0 as (R & x & up & F1 & F2 & F3). split; [exact R|].
      pose proof (find_jkey_sound _ _ _ _ F1) as (Hx & _).
      destruct (Hsoft x Hx) as ((S1 & S2 & S3 & _) & _).
      exists (f x), up. rewrite soft_find_job, F1, soft_find_update, <- S3. repeat split; try assumption.
      intros Hp. destruct (F3 Hp) as (y & Fy & Cy). exists (f y). rewrite soft_find_job, Fy. split; [reflexivity|].
      apply find_jkey_sound in Fy. destruct Fy as (Hy & _). rewrite (soft_jcommitted y Hy). exact Cy.
    - rewrite E7. assumption.
    - rewrite Hjobs. intros x Hx. apply in_map_iff in Hx. destruct Hx as (y & <- & Hy).
      apply soft_job_ok; auto.
    - rewrite E2. intros u Hu Hc. specialize (d_staged0 u Hu Hc).
      unfold root_staged, n_jobs_of in *. rewrite E8, Hjobs. rewrite d_staged0. f_equal.
      symmetry. apply length_filter_map_upd. intros y Hy. destruct (Hsoft y Hy) as ((S1 & _ & S3 & _) & _). auto.
    - rewrite E3. intros g Hg. specialize (d_root0 g Hg). unfold root_once, anc_ids, anc_rows in *. rewrite E4. assumption.
    - rewrite E3. intros g Hg g' R. unfold find_group. rewrite E3. apply (d_gcontig0 g Hg g' R).
    - rewrite E3. assumption.
    - rewrite Hjobs. intros x Hx. apply in_map_iff in Hx. destruct Hx as (y & <- & Hy).
      destruct (Hsoft y Hy) as ((S1 & _ & _ & S4 & _) & _). unfold find_group. rewrite E3, <- S1, <- S4.
      apply (d_jgroup0 y Hy).
    - rewrite E1, E9. assumption.
    - rewrite E3. intros g Hg. unfold find_batch. rewrite E1. apply (d_gbatch0 g Hg).
    - rewrite E4. intros r Hr. unfold find_group. rewrite E3. apply (d_ancgrp0 r Hr).
    - rewrite E2. assumption.
  Qed.
End SoftMap.

(* ------------------------------------------------------------------ one soft update_job *)

Lemma DInv_update_job_soft s s1 x n b j :
  DInv s -> core_eq s s1 ->
  find_job s b j = Some x -> jcommitted s x = true -> soft x n ->
  DInv (update_job s1 x n).
Proof.
  intros D (E1&E2&E3&E4&E5&E6&E7&E8&E9) F C Sf.
  pose proof (find_jkey_sound _ _ _ _ F) as (Hx & Hb & Hj).
  pose proof Sf as ((S1 & S2 & _) & _).
  apply (soft_DInv s (update_job s1 x n) (fun y => if jkey (j_batch n) (j_id n) y then n else y)).
  - autorewrite with frame. rewrite E6. apply replace_job_map.
  - autorewrite with frame. repeat split; assumption.
  - intros y Hy. destruct (jkey (j_batch n) (j_id n) y) eqn:K; [|apply soft_refl].
    assert (y = x); [|subst; exact Sf].
    pose proof (find_jkey_in _ y (d_jkeys _ D) Hy) as Fy.
    apply jkey_true in K. destruct K as [K1 K2].
    rewrite <- find_job_eq in Fy. rewrite K1, K2, <- S1, <- S2, Hb, Hj, F in Fy. congruence.
  - intros y Hy Cy. destruct (jkey (j_batch n) (j_id n) y) eqn:K; [|reflexivity].
    exfalso.
    pose proof (find_jkey_in _ y (d_jkeys _ D) Hy) as Fy.
    apply jkey_true in K. destruct K as [K1 K2].
    rewrite <- find_job_eq in Fy. rewrite K1, K2, <- S1, <- S2, Hb, Hj, F in Fy. congruence.
  - exact D.
Qed.
