(** C01 — [CInv] is preserved by the client transactions that add batches, updates and job groups
    (no job and no counter row changes; the group forest and the update list grow). *)
From HailV Require Import BatchDB.StepFrame.
From HailV Require Import Common.Prelude BatchDB.Model BatchDB.Tables BatchDB.CMap BatchDB.JobsWF BatchDB.StepCore BatchDB.JobFold
  BatchDB.Legal BatchDB.DepsDef BatchDB.DepsEasy BatchDB.DepsStruct BatchDB.CountersAlg BatchDB.CountersInv.
From RecordUpdate Require Import RecordSet.
Import RecordSetNotations.
Open Scope Z_scope.

(* ------------------------------------------------------------------ growth of the tables around unchanged jobs and counters *)

Lemma group_cancelled_eq s s' b g :
  anc_ids s' b g = anc_ids s b g -> (forall a, marked s' b a = marked s b a) ->
  group_cancelled s' b g = group_cancelled s b g.
Proof.
  intros E M. unfold group_cancelled, n_cancelled_anc. rewrite E.
  erewrite filter_ext; [reflexivity|]. exact M.
Qed.

Lemma CInv_grow s s' :
  jobs s' = jobs s -> user_res s' = user_res s -> cancellable s' = cancellable s -> staging s' = staging s ->
  AInv s' -> PInv s' ->
  (forall b u, committed s' b u = committed s b u) ->
  (forall x, In x (jobs s) -> batch_user s' (j_batch x) = batch_user s (j_batch x)) ->
  (forall x, In x (jobs s) -> anc_ids s' (j_batch x) (j_group x) = anc_ids s (j_batch x) (j_group x)) ->
  (forall b a, marked s' b a = marked s b a) ->
  (forall b g, group_cancelled s' b g = false -> group_cancelled s b g = false) ->
  CInv s -> CInv s'.
Proof.
  intros Ej Eu Ec Es A' P' Hcm Hbu Hanc Hmk Hgc [C1 C2 C3 C4 C5 C6 C7 C8].
  assert (Hjgc : forall x, In x (jobs s) -> jgc s' x = jgc s x).
  { intros x Hx. unfold jgc. apply group_cancelled_eq; [apply Hanc; exact Hx | apply Hmk]. }
  constructor.
  - rewrite Ec. exact C1.
  - rewrite Es. exact C2.
  - exact A'.
  - exact P'.
  - intros x Hx Hc Hr. rewrite Ej in Hx. unfold jcommitted in Hc. rewrite Hcm in Hc.
    destruct (C5 x Hx Hc Hr) as [R1 R2]. split; [exact R1|]. intros a Ha Hm.
    rewrite (Hanc x Hx) in Ha. rewrite Hmk in Hm. auto.
  - intros usr ic i. rewrite Eu, Ej, C6. apply zsum_ext_in. intros x Hx.
    unfold uw, usel. rewrite (Hbu x Hx), Hcm, (Hjgc x Hx). reflexivity.
  - intros b g Hg Q i. rewrite Ec, Ej, (C7 b g (Hgc b g Hg) Q i). apply zsum_ext_in. intros x Hx.
    unfold gw, insub. rewrite (Hjgc x Hx). destruct (j_batch x =? b) eqn:Eb; [|reflexivity].
    assert (j_batch x = b) by lia. subst b. rewrite (Hanc x Hx). reflexivity.
  - intros b u ic i Hu. rewrite Hcm in Hu. rewrite Es, Ej. apply C8. exact Hu.
Qed.

(* ------------------------------------------------------------------ the ancestor forest gains a leaf *)

Lemma AInv_add_group s s' b g P :
  AInv s -> anc_ids s b g = [] -> (P = [] \/ exists parent, P = anc_ids s b parent) ->
  (forall b' h, anc_ids s' b' h = if (b =? b') && (g =? h) then P ++ [g] else anc_ids s b' h) ->
  AInv s'.
Proof.
  intros [A1 A2 A3 A4] Hfresh HP Hanc.
  assert (Hnotin : forall h, ~ In g (anc_ids s b h)).
  { intros h Hin. apply A4 in Hin. rewrite Hfresh in Hin. contradiction. }
  assert (HPnd : NoDup P /\ ~ In g P /\ forall a, In a P -> forall c, In c (anc_ids s b a) -> In c P).
  { destruct HP as [-> | (parent & ->)].
    - split; [constructor|]. split; [intros []|]. intros a [].
    - split; [apply A1|]. split; [apply Hnotin|]. intros a Ha c Hc. apply (A2 b parent a c Ha Hc). }
  destruct HPnd as (Pnd & Pg & Ptr).
  assert (HPchain : forall a c, In a P -> In c P -> In a (anc_ids s b c) \/ In c (anc_ids s b a)).
  { destruct HP as [-> | (parent & ->)]; [intros a c []|]. intros a c Ha Hc. apply (A3 b parent); assumption. }
  assert (HPself : forall a, In a P -> In a (anc_ids s b a)).
  { destruct HP as [-> | (parent & ->)]; [intros a []|]. intros a Ha. apply (A4 b parent); assumption. }
  (* the new lists *)
  assert (Hnew : anc_ids s' b g = P ++ [g]) by (rewrite Hanc, !Z.eqb_refl; reflexivity).
  assert (Hold : forall b' h, (b' <> b \/ h <> g) -> anc_ids s' b' h = anc_ids s b' h).
  { intros b' h Hne. rewrite Hanc. destruct ((b =? b') && (g =? h)) eqn:E; [|reflexivity]. exfalso. lia. }
  assert (HoldP : forall a, In a P -> anc_ids s' b a = anc_ids s b a).
  { intros a Ha. apply Hold. right. intros ->. contradiction. }
  assert (Hcase : forall b' h, (b' = b /\ h = g) \/ (b' <> b \/ h <> g)) by (intros; lia).
  constructor.
  - intros b' h. destruct (Hcase b' h) as [[-> ->] | Hne].
    + rewrite Hnew. apply NoDup_app_intro; [exact Pnd | repeat constructor; intros [] |].
      intros x Hx [<-|[]]. contradiction.
    + rewrite (Hold _ _ Hne). apply A1.
  - intros b' h g1 a H1 H2. destruct (Hcase b' h) as [[-> ->] | Hne].
    + rewrite Hnew in H1 |- *. apply in_app_or in H1. destruct H1 as [H1 | [<-|[]]].
      * rewrite (HoldP g1 H1) in H2. apply in_or_app. left. apply (Ptr g1 H1 a H2).
      * rewrite Hnew in H2. exact H2.
    + rewrite (Hold _ _ Hne) in H1 |- *.
      assert (Hne1 : b' <> b \/ g1 <> g).
      { destruct (Z.eq_dec b' b) as [->|]; [|left; assumption]. right. intros ->. exact (Hnotin h H1). }
      rewrite (Hold _ _ Hne1) in H2. apply (A2 b' h g1 a H1 H2).
  - intros b' h a c Ha Hc. destruct (Hcase b' h) as [[-> ->] | Hne].
    + rewrite Hnew in Ha, Hc. apply in_app_or in Ha. apply in_app_or in Hc.
      destruct Hc as [Hc | [<-|[]]].
      * destruct Ha as [Ha | [<-|[]]].
        -- rewrite (HoldP a Ha), (HoldP c Hc). apply HPchain; assumption.
        -- right. rewrite Hnew. apply in_or_app. left. exact Hc.
      * left. rewrite Hnew. apply in_or_app. exact Ha.
    + rewrite (Hold _ _ Hne) in Ha, Hc.
      assert (Hnea : b' <> b \/ a <> g).
      { destruct (Z.eq_dec b' b) as [->|]; [|left; assumption]. right. intros ->. exact (Hnotin h Ha). }
      assert (Hnec : b' <> b \/ c <> g).
      { destruct (Z.eq_dec b' b) as [->|]; [|left; assumption]. right. intros ->. exact (Hnotin h Hc). }
      rewrite (Hold _ _ Hnea), (Hold _ _ Hnec). apply (A3 b' h); assumption.
  - intros b' h a Ha. destruct (Hcase b' h) as [[-> ->] | Hne].
    + rewrite Hnew in Ha. apply in_app_or in Ha. destruct Ha as [Ha | [<-|[]]].
      * rewrite (HoldP a Ha). apply HPself. exact Ha.
      * rewrite Hnew. apply in_or_app. right. left. reflexivity.
    + rewrite (Hold _ _ Hne) in Ha.
      assert (Hnea : b' <> b \/ a <> g).
      { destruct (Z.eq_dec b' b) as [->|]; [|left; assumption]. right. intros ->. exact (Hnotin h Ha). }
      rewrite (Hold _ _ Hnea). apply (A4 b' h a Ha).
Qed.

Lemma anc_ids_cgr s b g upd parent root b' h :
  anc_ids (create_group_rows s b g upd parent root) b' h =
  anc_ids s b' h ++ (if (b =? b') && (g =? h) then (if root then [] else anc_ids s b parent) ++ [g] else []).
Proof.
  rewrite !anc_ids_eq, cgr_anc_rows, map_app. f_equal.
  destruct ((b =? b') && (g =? h)); [apply new_anc_rows_ids | reflexivity].
Qed.

Lemma CInv_create_group_rows s b g upd parent root :
  DInv s -> CInv s -> find_group s b g = None -> CInv (create_group_rows s b g upd parent root).
Proof.
  intros D C Hn. apply DInv_split in D. destruct D as (J & G & X).
  pose proof (anc_rows_none s b g G Hn) as Hfresh0.
  assert (Hfresh : anc_ids s b g = []) by (rewrite anc_ids_eq, Hfresh0; reflexivity).
  set (s' := create_group_rows s b g upd parent root).
  assert (Hanc : forall b' h, anc_ids s' b' h =
             if (b =? b') && (g =? h) then (if root then [] else anc_ids s b parent) ++ [g] else anc_ids s b' h).
  { intros b' h. unfold s'. rewrite anc_ids_cgr. destruct ((b =? b') && (g =? h)) eqn:E; [|apply app_nil_r].
    apply andb_true_iff in E. destruct E as [E1 E2]. replace b' with b by lia. replace h with g by lia.
    rewrite Hfresh. reflexivity. }
  assert (Hmk : forall b' a, marked s' b' a = marked s b' a) by reflexivity.
  apply (CInv_grow s s'); try reflexivity; try assumption.
  - apply (AInv_add_group s s' b g (if root then [] else anc_ids s b parent)); [apply (c_anc _ C) | exact Hfresh | | exact Hanc].
    destruct root; [left; reflexivity | right; exists parent; reflexivity].
  - apply (PInv_ext s); [reflexivity | apply (c_pref _ C)].
  - intros x Hx. rewrite Hanc. destruct ((b =? j_batch x) && (g =? j_group x)) eqn:E; [|reflexivity].
    exfalso. apply andb_true_iff in E. destruct E as [E1 E2]. apply (x_jgroup _ X x Hx).
    replace (j_batch x) with b by lia. replace (j_group x) with g by lia. exact Hn.
  - intros b' h Hg. destruct ((b =? b') && (g =? h)) eqn:E.
    + apply andb_true_iff in E. destruct E as [E1 E2]. replace b' with b by lia. replace h with g by lia.
      unfold group_cancelled, n_cancelled_anc. rewrite Hfresh. reflexivity.
    + rewrite <- Hg. symmetry. apply group_cancelled_eq; [|apply Hmk]. rewrite Hanc, E. reflexivity.
Qed.

(* ------------------------------------------------------------------ create batch *)

Lemma CInv_create_batch s user bp token m : DInv s -> CInv s -> CInv (fst (do_create_batch s user bp token m)).
Proof.
  intros D C. unfold do_create_batch. destruct (negb m); [exact C|].
  destruct (find _ (batches s)) as [x|]; [exact C|]. cbn [fst].
  set (id := next_batch s).
  set (s1 := s <| batches ::= fun l => l ++ [mkBatch id user bp token false 0 false] |> <| next_batch := id + 1 |>).
  pose proof D as D0. apply DInv_split in D0. destruct D0 as (J & G & X).
  assert (D1 : DInv s1).
  { apply DInv_split. split; [|split].
    - apply (JInv_ext s); try reflexivity. exact J.
    - apply (GInv_ext s); try reflexivity. exact G.
    - destruct X as [X1 X2 X3]. constructor.
      + exact X1.
      + unfold s1. cbn. intros bt Hbt. apply in_app_or in Hbt. destruct Hbt as [Hbt|[<-|[]]].
        * specialize (X2 bt Hbt). unfold id. lia.
        * cbn. lia.
      + intros g Hg. apply find_batch_iff. unfold s1. cbn. rewrite map_app. apply in_or_app. left.
        apply find_batch_iff. apply (X3 g Hg). }
  assert (C1 : CInv s1).
  { apply (CInv_grow s s1); try reflexivity; try assumption.
    - apply (AInv_ext s); [reflexivity | apply (c_anc _ C)].
    - apply (PInv_ext s); [reflexivity | apply (c_pref _ C)].
    - intros y Hy. unfold batch_user, find_batch, s1. cbn.
      pose proof (x_jgroup _ X y Hy) as Hg. destruct (find_group s (j_batch y) (j_group y)) as [gr|] eqn:Fg; [|congruence].
      apply find_group_sound in Fg. destruct Fg as (Hgr & Eb & _).
      pose proof (x_gbatch _ X gr Hgr) as Hb. rewrite Eb in Hb. unfold find_batch in Hb.
      destruct (find (fun x0 => b_id x0 =? j_batch y) (batches s)) as [bt|] eqn:Fb; [|congruence].
      rewrite (find_app_some _ _ _ _ Fb). reflexivity.
    - intros b' g' Hg. exact Hg. }
  apply CInv_create_group_rows; [exact D1 | exact C1|].
  change (find_group s1 id 0) with (find_group s (next_batch s) 0). apply no_group_of_fresh_batch. exact X.
Qed.

(* ------------------------------------------------------------------ create update *)

Lemma create_update_row_fields s b token nj ng :
  let n := create_update_row s b token nj ng in
  u_batch n = b /\ u_committed n = false /\
  forall x, In x (updates s) -> u_batch x = b -> u_id x < u_id n.
Proof.
  cbv zeta. unfold create_update_row. pose proof (last_update_spec s b) as L.
  destruct (last_update s b) as [l|]; cbn; (split; [reflexivity|]); (split; [reflexivity|]).
  - destruct L as (_ & _ & L). intros x Hx Hb. specialize (L x Hx Hb). lia.
  - intros x Hx Hb. exfalso. exact (L x Hx Hb).
Qed.

Lemma CInv_create_update s b user token nj ng : CInv s -> CInv (fst (do_create_update s b user token nj ng)).
Proof.
  intros C. destruct (do_create_update_cases s b user token nj ng) as [->|(_ & _ & ->)]; [exact C|].
  set (n := create_update_row s b token nj ng).
  destruct (create_update_row_fields s b token nj ng) as (Nb & Nc & Nid). fold n in Nb, Nc, Nid.
  set (s' := s <| updates ::= fun l => l ++ [n] |>).
  apply (CInv_grow s s'); try reflexivity; try assumption.
  - apply (AInv_ext s); [reflexivity | apply (c_anc _ C)].
  - intros x y Hx Hy Eb Lt Cy. unfold s' in Hx, Hy. cbn in Hx, Hy.
    apply in_app_or in Hx. apply in_app_or in Hy.
    destruct Hy as [Hy | [<-|[]]]; [|congruence].
    destruct Hx as [Hx | [<-|[]]]; [apply (c_pref _ C x y); assumption|].
    exfalso. assert (u_id y < u_id n) by (apply Nid; [exact Hy | congruence]). lia.
  - intros b' u'. apply (committed_app_uncommitted s s' n); [reflexivity | exact Nc].
  - intros b' g' Hg. exact Hg.
Qed.

(* ------------------------------------------------------------------ create job groups *)

Lemma CInv_create_groups s b u user gs :
  DInv s -> DAux s -> CInv s -> client_ok (CreateGroups b u user gs) = true ->
  CInv (fst (do_create_groups s b u user gs)).
Proof.
  intros D A C Hc. destruct (do_create_groups_cases s b u user gs) as [->|(up & g0 & r & s' & Fu & Fb & -> & Hm & Hf & ->)]; [exact C|].
  cbn [client_ok] in Hc. apply andb_true_iff in Hc. destruct Hc as [Hc1 Hc2].
  apply find_update_sound in Fu. destruct Fu as (Hup & _).
  pose proof (a_gpos _ A up Hup) as [Hsg _].
  set (sg := u_start_group up) in *.
  assert (Hsg0 : 0 <= sg) by lia.
  assert (G : forall gss st st',
             DInv st -> CInv st -> find_batch st b <> None ->
             contiguous (map gs_id gss) = true -> forallb gspec_ok gss = true ->
             (forall g1, hd_error gss = Some g1 -> sg + gs_id g1 - 1 = max_group_id st b + 1) ->
             fold_left (create_one_group b u sg) gss (Some st) = Some st' -> CInv st').
  { induction gss as [|g1 rest IH]; intros st st' Dst Cst Hb Hcont Hok Hhd Hfold; cbn [fold_left] in Hfold.
    - injection Hfold as <-. exact Cst.
    - cbn [forallb] in Hok. apply andb_true_iff in Hok. destruct Hok as [Hok0 Hokr].
      destruct (create_one_group b u sg (Some st) g1) as [s1|] eqn:E1.
      2:{ rewrite fold_create_one_group_none in Hfold. discriminate. }
      destruct (create_one_group_ok st b u sg g1 s1 Dst Hb (Hhd g1 eq_refl) Hsg0 Hok0 E1) as (D1 & U1 & S1 & B1 & M1).
      pose proof (create_one_group_some _ _ _ _ _ _ E1) as Sh. cbv zeta in Sh. destruct Sh as (_ & Fg & _ & Es1).
      apply (IH s1 st'); auto.
      + rewrite Es1. apply CInv_create_group_rows; assumption.
      + unfold find_batch. rewrite B1. exact Hb.
      + destruct rest as [|g2 r']; [reflexivity|]. cbn [map contiguous] in Hcont |- *.
        apply andb_true_iff in Hcont. tauto.
      + intros g2 Hg2. destruct rest as [|g2' r']; [discriminate|]. cbn in Hg2. injection Hg2 as ->.
        cbn [map contiguous] in Hcont. apply andb_true_iff in Hcont. destruct Hcont as [Hcont _]. rewrite M1. lia. }
  apply (G (g0 :: r) s s'); auto.
  intros g1 E. cbn in E. injection E as <-. exact Hm.
Qed.
