(** C02 — the readable form of the four aggregate equations, for every history of the model. *)
From HailV Require Import Common.Prelude BatchDB.Model BatchDB.CMap BatchDB.Tables BatchDB.Legal
  BatchDB.Billing BatchDB.BillingInv BatchDB.BillingStep.
Open Scope Z_scope.

(** value of a (token-summed) aggregate table at a key: the sum of the usage of the rows with that key, 0 if none *)
Definition agg_value (m : cmap) (k : list Z) : Z := table_val m k.

(** multiplicity of group [g] in a list of ancestor-or-self ids *)
Definition mult (g : Z) (l : list Z) : Z := Z.of_nat (length (filter (fun a => a =? g) l)).

(** sum over the attempt_resources rows ([b'; j'; a'; r'], [q]) of q * billed time of attempt (b', j', a'), restricted to ... *)
(* ... the rows of job (b, j) and resource r *)
Definition job_usage (s : state) (b j r : Z) : Z :=
  rsum (fun b' j' a' r' => if (b' =? b) && (j' =? j) && (r' =? r) then billed_of s b' j' a' else 0) (attempt_res s).

(* ... resource r and the jobs of batch b whose group has g among its ancestors-or-self (each such row counted once) *)
Definition group_usage (s : state) (b g r : Z) : Z :=
  rsum (fun b' j' a' r' => if (b' =? b) && (r' =? r) && existsb (Z.eqb g) (anc_ids s b' (jgroup s b' j'))
                           then billed_of s b' j' a' else 0) (attempt_res s).

(* ... resource r and the jobs of the batches of billing project bp and user u *)
Definition bp_user_usage (s : state) (bp u r : Z) : Z :=
  rsum (fun b' j' a' r' => if (batch_bp s b' =? bp) && (batch_user s b' =? u) && (r' =? r)
                           then billed_of s b' j' a' else 0) (attempt_res s).

Lemma BInv_run ops : BInv (run ops).
Proof. apply (run_invariant BInv BInv_init). intros s o H. apply BInv_step, H. Qed.

Lemma kcount_single k0 k : kcount k0 [k] = if key_eqb k k0 then 1 else 0.
Proof. unfold kcount. cbn [filter]. destruct (key_eqb k k0); reflexivity. Qed.

Lemma kcount_group b g r b' r' ancs :
  kcount [b; g; r] (map (fun a => [b'; a; r']) ancs) = if (b' =? b) && (r' =? r) then mult g ancs else 0.
Proof.
  unfold kcount, mult. induction ancs as [|a l IH]; cbn [map filter length].
  - destruct (_ && _); reflexivity.
  - cbn [key_eqb]. destruct (b' =? b) eqn:Eb; cbn [andb]; [|exact IH].
    destruct (a =? g) eqn:Ea; cbn [andb].
    + destruct (r' =? r) eqn:Er; cbn [andb length] in *; [rewrite !Nat2Z.inj_succ; lia | exact IH].
    + destruct (r' =? r); cbn [andb] in *; exact IH.
Qed.

Lemma mult_nodup g l : NoDup l -> mult g l = if existsb (Z.eqb g) l then 1 else 0.
Proof.
  unfold mult. induction l as [|a l IH]; intros Hnd; cbn [filter existsb length]; [reflexivity|].
  inversion Hnd as [|? ? Hn Hnd']; subst. specialize (IH Hnd').
  destruct (a =? g) eqn:E.
  - assert (a = g) by lia. subst a. rewrite Z.eqb_refl. cbn [orb length].
    destruct (existsb (Z.eqb g) l) eqn:Ex.
    + exfalso. apply existsb_exists in Ex. destruct Ex as (y & Hy & Ey). assert (y = g) by lia. subst y. contradiction.
    + rewrite Nat2Z.inj_succ, IH. reflexivity.
  - replace (g =? a) with false by lia. cbn [orb]. exact IH.
Qed.

Lemma job_usage_ok s b j r : BInv s -> agg_value (agg_job s) [b; j; r] = job_usage s b j r.
Proof.
  intros [_ A]. unfold agg_value. rewrite (ai_job s A). unfold usage, job_usage. apply rsum_ext_in.
  intros b' j' a' r' q _. unfold kf_job. rewrite kcount_single. cbn [key_eqb].
  destruct (b' =? b), (j' =? j), (r' =? r); cbn [andb]; lia.
Qed.

Lemma group_usage_ok s b g r : BInv s -> agg_value (agg_group s) [b; g; r] = group_usage s b g r.
Proof.
  intros [I A]. unfold agg_value. rewrite (ai_group s A). unfold usage, group_usage. apply rsum_ext_in.
  intros b' j' a' r' q _. unfold kf_group. rewrite kcount_group.
  rewrite (mult_nodup g _ (gi_nodup s (si_g s I) b' (jgroup s b' j'))).
  destruct ((b' =? b) && (r' =? r)); cbn [andb]; [|lia]. destruct (existsb _ _); lia.
Qed.

(** the ancestors-or-self ids of every group are pairwise distinct, so the membership test above counts a row once *)
Lemma anc_ids_nodup s b g : BInv s -> NoDup (anc_ids s b g).
Proof. intros [I _]. apply (gi_nodup s (si_g s I)). Qed.

Lemma bp_usage_ok s bp u r : BInv s -> agg_value (agg_bp s) [bp; u; r] = bp_user_usage s bp u r.
Proof.
  intros [_ A]. unfold agg_value. rewrite (ai_bp s A). unfold usage, bp_user_usage. apply rsum_ext_in.
  intros b' j' a' r' q _. unfold kf_bp. rewrite kcount_single. cbn [key_eqb].
  destruct (batch_bp s b' =? bp), (batch_user s b' =? u), (r' =? r); cbn [andb]; lia.
Qed.

Lemma date_usage_ok s bp u r : BInv s -> agg_value (agg_date s) [bp; u; r] = bp_user_usage s bp u r.
Proof.
  intros [_ A]. unfold agg_value. rewrite (ai_date s A). unfold usage, bp_user_usage. apply rsum_ext_in.
  intros b' j' a' r' q _. unfold kf_bp. rewrite kcount_single. cbn [key_eqb].
  destruct (batch_bp s b' =? bp), (batch_user s b' =? u), (r' =? r); cbn [andb]; lia.
Qed.

(** a key of another shape holds nothing that the rows do not explain either (the general statement, any key) *)
Lemma any_key_ok s k : BInv s ->
  table_val (agg_job s) k = usage kf_job s k /\ table_val (agg_group s) k = usage kf_group s k /\
  table_val (agg_bp s) k = usage kf_bp s k /\ table_val (agg_date s) k = usage kf_bp s k.
Proof. intros [_ A]. destruct A. repeat split; auto. Qed.

(** Non-vacuity: a history in which a resource is registered BEFORE the attempt starts and another one AFTER time was
    billed, with a late heartbeat and a completion that cuts the billed time. *)
Example billing_example :
  let ops := [CreateBatch 1 1 1 true; CreateUpdate 1 1 1 1 0;
              CreateJobs 1 1 1 [mkJspec 1 (Some 0) 0 [] [] false 1000 0]; Commit 1 1 1;
              NewInstance 7 0 2000 true; ActivateInstance 7; ScheduleJob 1 1 5 7;
              AddAttemptResources 1 1 5 [(1, 10)]; MarkStarted 1 1 5 7 100; BillingUpdate 160 [(1, 1, 5)];
              AddAttemptResources 1 1 5 [(2, 3)]; MarkComplete 1 1 5 7 Success (Some 100) (Some 150) 2] in
  let s := run ops in
  agg_value (agg_job s) [1; 1; 1] = 500 /\ agg_value (agg_job s) [1; 1; 2] = 150 /\
  agg_value (agg_group s) [1; 0; 1] = 500 /\ agg_value (agg_bp s) [1; 1; 2] = 150 /\ job_usage s 1 1 1 = 500.
Proof. vm_compute. repeat split. Qed.
