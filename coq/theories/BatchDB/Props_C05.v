(** C05 — dependencies gate readiness; failed parents cancel children.  Property theorems only.
    All statements quantify over EVERY good history (Deps.good_history: legal driver/worker messages,
    schema-valid client requests) of the batch-database model. *)
From HailV Require Import Common.Prelude BatchDB.Model BatchDB.Legal BatchDB.JobsWF BatchDB.DepsDef BatchDB.Deps BatchDB.DepsCorollaries BatchDB.JobChange.
Open Scope Z_scope.

(** A job of a committed update is Ready (or beyond) only after every one of its parents — also parents submitted
    in earlier updates — exists and has reached a terminal state. *)
Theorem C05_ready_only_after_parents : forall ops, good_history ops ->
  let s := run ops in
  forall x, In x (jobs s) -> jcommitted s x = true -> j_state x <> Pending ->
  forall p, In p (parents_of s (j_batch x) (j_id x)) ->
    exists y, find_job s (j_batch x) p = Some y /\ terminal (j_state y) = true /\ j_id y < j_id x.
Proof. intros ops G s x. apply ready_only_after_parents. apply DInv_reachable. exact G. Qed.
Print Assumptions C05_ready_only_after_parents.

(** n_pending_parents is exactly the number of parents that are not yet terminal, and a committed job is Pending
    exactly as long as that number is positive (no off-by-one between the two places that compute it). *)
Theorem C05_pending_count_exact : forall ops, good_history ops ->
  let s := run ops in
  forall x, In x (jobs s) -> jcommitted s x = true ->
    j_npp x = npp_spec s (j_batch x) (j_id x) /\ (j_state x = Pending <-> 0 < j_npp x).
Proof.
  intros ops G s x Hx C. pose proof (d_jobs _ (DInv_reachable ops G) x Hx) as Ok.
  unfold job_ok in Ok. fold s in Ok. rewrite C in Ok. tauto.
Qed.
Print Assumptions C05_pending_count_exact.

(** If any parent finished without success the job is marked cancelled. *)
Theorem C05_failed_parent_cancels : forall ops, good_history ops ->
  let s := run ops in
  forall x p y, In x (jobs s) -> jcommitted s x = true -> In p (parents_of s (j_batch x) (j_id x)) ->
    find_job s (j_batch x) p = Some y -> terminal (j_state y) = true -> j_state y <> Success ->
    j_cancelled x = true.
Proof. intros ops G s x p y. apply failed_parent_cancels. apply DInv_reachable. exact G. Qed.
Print Assumptions C05_failed_parent_cancels.

(** ... and, unless it is always-run, it never runs: once a parent of a job of a committed update has ended without
    success, the job is reported cancelled by is_job_cancelled for ever after and no later good step — scheduling,
    creating / started reports, duplicates, late messages — moves it into Creating or Running, however the history
    continues ([ext] arbitrary, [o] the step observed). *)
Theorem C05_failed_parent_never_runs : forall ops ext o b j x p y,
  good_history (ops ++ ext ++ [o]) ->
  find_job (run ops) b j = Some x -> jcommitted (run ops) x = true -> j_always x = false ->
  In p (parents_of (run ops) b j) -> find_job (run ops) b p = Some y ->
  terminal (j_state y) = true -> j_state y <> Success ->
  exists x1 x2, find_job (run (ops ++ ext)) b j = Some x1 /\ find_job (run (ops ++ ext ++ [o])) b j = Some x2 /\
                is_job_cancelled (run (ops ++ ext ++ [o])) x2 = Some true /\
                (j_state x2 = Creating \/ j_state x2 = Running -> j_state x2 = j_state x1).
Proof.
  intros ops ext o b j x p y G F C Al Hp Fy T NS.
  pose proof (find_job_static_key _ _ _ _ F) as (B & J).
  assert (Gp : good_history ops).
  { unfold good_history in *. apply good_from_app in G. tauto. }
  assert (Cx : j_cancelled x = true).
  { apply (failed_parent_cancels (run ops) (DInv_reachable ops Gp) x p y); rewrite ?B, ?J; auto.
    unfold find_job in F. apply find_some in F. tauto. }
  destruct (cancelled_never_starts ops ext o b j x G F) as (x1 & x2 & F1 & F2 & _ & _ & C2 & Hs).
  { split; [exact Al | left; exact Cx]. }
  exists x1, x2. split; [exact F1|]. split; [exact F2|]. split; [|exact Hs].
  apply (cancelled_job_is_cancelled _ b); [|exact C2].
  apply (find_job_static_key _ _ _ _ F2).
Qed.
Print Assumptions C05_failed_parent_never_runs.

(** Always-run children run regardless of their parents' outcomes: an always-run job that is Ready (its parents are all
    terminal, by the first theorem — successful or not) is moved to Running by a scheduling message with a fresh attempt
    on an active instance, answer rc 0, whatever its own cancelled mark and the cancellation marks of its groups; and
    that message is a good step when the job's update is committed. *)
Theorem C05_always_run_child_runs : forall s b j a i x y,
  find_job s b j = Some x -> j_always x = true -> j_state x = Ready ->
  find_attempt s b j a = None -> find_inst s i = Some y -> i_state y = IActive ->
  (exists d, snd (step s (ScheduleJob b j a i)) = ok [0; d]) /\
  (exists x', find_job (fst (step s (ScheduleJob b j a i))) b j = Some x' /\ j_state x' = Running /\ j_attempt x' = Some a) /\
  (jcommitted s x = true -> good s (ScheduleJob b j a i)).
Proof.
  intros s b j a i x y F Al Rd Fa Fi Ia.
  destruct (always_run_schedulable s b j a i x y F Al Rd Fa Fi Ia) as (H1 & H2 & H3).
  split; [exact H1|]. split; [|exact H3]. eexists. split; [exact H2|]. split; reflexivity.
Qed.
Print Assumptions C05_always_run_child_runs.

(** Non-vacuity: in the demo history (Deps.demo_history) job 2 depends on job 1, job 1 fails, and job 3 — in a
    second update — depends on job 2: after the history job 2 is cancelled and terminal, job 3 (always_run) is Ready. *)
Theorem C05_example :
  good_history demo_history /\
  map (fun x => (j_id x, jcode (j_state x), j_cancelled x, j_npp x)) (jobs (run demo_history))
  = [(1, 5, false, 0); (2, 7, true, 0); (3, 1, true, 0)].
Proof. split; [exact demo_history_good | vm_compute; reflexivity]. Qed.
Print Assumptions C05_example.
